"""C09 — alternative distance algorithms (original GJK, Nesterov-accelerated GJK, its primitives
variant) agree with the true distance.

Python half of the vertical: collider scene generators (lattice / general), an oracle that is
independent of the library's GJK code (closed forms + certificate interval from own support
values and own membership tests), correspondence of the Lean model pieces (D3.Model.Nesterov)
with the implementation on recorded traces, failing-input search, replay.
"""
import itertools
import math

import numpy as np

import core
from core import f2h, h2f

RULE = ("scenes of two colliders drawn from one PRNG: every ordered pair of the 11 collider types (sphere, capsule, box, "
        "ellipsoid, cylinder, cone, disk, ellipse, MeshGraph, ConvexHullVertices, Margin) x placement; lattice stream 'L' "
        "(sizes from {0.5,1,2,4}, signed axis permutations / 3-4-5 rotations, placements touching / axis-aligned gap / "
        "nested / identical / coplanar / overlapping), general stream 'G' (sizes log-uniform in [1e-2,1e2], moderate or "
        "independent 'wild' aspect ratios, random rotations, gap / near / far / deep / nested / identical / grazing), "
        "constructed closed forms (sphere-sphere, sphere-box, capsule-sphere, box-box), overlapping pairs with a common "
        "interior point; each scene is run through gjk_distance_original and gjk_nesterov_accelerated[_primitives] with "
        "use_nesterov_acceleration in {False, True}; non-trivial = both colliders well-formed and the scene evaluated; "
        "distinct = distinct pair of collider specs")
EXPLANATION = ("search: each result is judged against a certificate interval [lower, upper] of the true distance built "
               "from the harness's own closed-form support values (weak duality along the candidate normals) and own "
               "membership tests (upper bound |a-b| + distance of a, b to their colliders), candidates taken from "
               "gjk_distance_jolt and the original GJK; required |d - truth| <= 1e-3*L, original GJK's points on their "
               "colliders and |a-b| = d within 1e-3*L, finite values, no exception, helpers = plain calls. "
               "correspondence: the Lean model (D3.Model.Nesterov, D3.Model.GjkOrig) is compared with the implementation "
               "on the five specialised support functions of both modules, the support dispatch, the three simplex "
               "projections of both modules (lattice inputs in exact rational arithmetic), nondecreasing_ordered_indices, "
               "and - step by step - on recorded runs of both Nesterov loops and of the original GJK main loop (model "
               "answered from the recorded support / sub-algorithm calls: every queried direction, the simplex handed to "
               "the sub-algorithm, exit, inside, distance, iteration count)")
PARTIAL = {
    "cv_exit_accuracy_loop": "loop-level accuracy of the convergence exit assumes `ProjOK` (every simplex projection returns "
                             "a point of A-B); proved for project_line_origin under the un-accelerated precondition "
                             "(projectLineOrigin_sound), NOT proved for project_triangle_origin / project_tetra_to_origin and "
                             "false with acceleration (projectLineOrigin_extrapolates_counterexample) and for "
                             "project_tetra_to_origin even in the un-accelerated iteration (projectTetraToOrigin_asIs_counterexample, finding F-nesterov-tetra-region)",
    "momentum branch": "the accelerated search direction is covered only by omega_lower_bound (valid for every direction) and "
                       "by cv_exit_only_unaccelerated (the convergence exit is taken with acceleration off); convergence / "
                       "iteration-cap behaviour of the accelerated iteration is not proved (finding F-nesterov-cap-zero)",
    "orig_feasible": "the invariant `Consistent` (cached vertices lie in A resp. B, simplex points are their differences) and the "
                     "sub-algorithm contract (non-negative weights of sum 1, v = sum w_i y_i, |v|^2) are hypotheses: Johnson's "
                     "sub-algorithm is a parameter of the main-loop model (its backup procedure is C18's model); preservation "
                     "of the invariant by the loop is checked by the trace correspondence, not proved",
    "orig_no_improvement_optimal": "full optimality of the original GJK: only the `no_improvement` exit is proved optimal, given "
                                   "that the sub-algorithm returns the min-norm point of the extended simplex; the tetrahedron "
                                   "exit is covered by orig_feasible (midpoint within |v|/2); termination is C19",
    "float effects": "all theorems are at exact real arithmetic; F-orig-degenerate-tetra-zero is a rounding defect (absolute "
                     "EPSILON on cofactors) with no counterpart in the exact model",
}
ASSUMPTIONS = [
    "L = max(1, feature sizes of both colliders (radii, heights, lengths, edge sizes, vertex spread, margin), distance of the "
    "two collider centres)",
    "MeshGraph / ConvexHullVertices scenes use convex vertex sets (random points on an ellipsoid, tetrahedron, octahedron, cube)",
    "the acceleration flag is exercised through gjk_nesterov_accelerated(..., use_nesterov_acceleration=True) and "
    "gjk_nesterov_accelerated_primitives(..., use_nesterov_acceleration=True); the *_distance entry points only expose False",
]
TRUSTED = [
    "oracle of harness/props/c09.py: closed-form support values and membership tests per collider type (hull membership by an "
    "explicit convex combination from scipy.optimize.nnls); gjk_distance_jolt only proposes candidate points, which are "
    "verified before they bound anything",
    "classification of recorded defects: mechanism signature observed on the failing run (wrapping module-level functions) + "
    "for the loop / projection defects the faithful Lean model must reproduce the run from the recorded support answers",
    "Johnson's distance sub-algorithm of _gjk_original.py is a parameter of the main-loop model (C18 models its backup procedure)",
]
MANIFEST = dict(
    text=("Lean theorems on faithful models of gjk_nesterov_accelerated[_primitives] and of the main loop of "
          "gjk_distance_original: weak duality (omega is a lower bound for every search direction), accuracy of the "
          "duality-gap exit, the set-level inflation identity, loop-level accuracy under the projection contract, "
          "fall-back of the acceleration, iteration-cap exit, feasibility and no-improvement optimality of the original GJK, "
          "the repaired inflation dispatch (inflation only together with the core supports; counterexample for the code before the repair), plus as-is counterexamples for the extrapolating 2-point and 4-point projections; the models "
          "are compared step by step with recorded runs of the implementation; an independent certificate oracle searches "
          "all ordered collider-type pairs x both acceleration flags for failing inputs; four recorded defects are replayed, the witnesses of the repaired inflation defect (commit 78b7577) run as regression scenes."),
    note=("trusted: Lean kernel + Mathlib (axioms propext/Classical.choice/Quot.sound), exact-real semantics, the "
          "correspondence harness (sampling), the oracle; partial: projection soundness for 3/4-point simplices, the momentum "
          "iteration, the Johnson sub-algorithm (parameter), float effects; known findings are attached only to their "
          "narrowly defined class (algorithm, acceleration flag, collider-type class, mechanism signature, model reproduction)."),
    technique="Lean 4 proof on hand-written model (S2, abstract supports) + trace correspondence + certificate oracle",
    design="§7 C09")
LEAN_TARGETS = []

TOL = 1e-3          # the property's tolerance factor (times L)
TIGHT = 1e-6        # the certificate interval is called tight below TIGHT * L

# ============================================================================ collider specs
# A spec is a JSON-able dict; `mk` builds a *fresh* real collider from it (MeshGraph caches the
# last support vertex, so objects are never reused between calls).
GENERIC = ("cone", "disk", "ellipse", "mesh", "hull", "margin")
SPECIAL = ("sphere", "capsule", "box", "ellipsoid", "cylinder")
ALLTYPES = SPECIAL + GENERIC
INFLATED = ("sphere", "capsule")


def _pose(R, t):
    A = np.eye(4)
    A[:3, :3] = np.asarray(R, dtype=float)
    A[:3, 3] = np.asarray(t, dtype=float)
    return A


def mk(spec):
    from distance3d import colliders as C
    t = spec["type"]
    arr = lambda k: np.ascontiguousarray(np.array(spec[k], dtype=float))  # noqa
    if t == "sphere":
        return C.Sphere(arr("center"), float(spec["radius"]))
    if t == "capsule":
        return C.Capsule(arr("pose"), float(spec["radius"]), float(spec["height"]))
    if t == "box":
        return C.Box(arr("pose"), arr("size"))
    if t == "ellipsoid":
        return C.Ellipsoid(arr("pose"), arr("radii"))
    if t == "cylinder":
        return C.Cylinder(arr("pose"), float(spec["radius"]), float(spec["length"]))
    if t == "cone":
        return C.Cone(arr("pose"), float(spec["radius"]), float(spec["height"]))
    if t == "disk":
        return C.Disk(arr("center"), float(spec["radius"]), arr("normal"))
    if t == "ellipse":
        return C.Ellipse(arr("center"), arr("axes"), arr("radii"))
    if t == "mesh":
        return C.MeshGraph(arr("pose"), arr("vertices"), np.array(spec["triangles"], dtype=int))
    if t == "hull":
        return C.ConvexHullVertices(arr("vertices"))
    if t == "margin":
        return C.Margin(mk(spec["inner"]), float(spec["margin"]))
    raise ValueError(t)


def tname(spec):
    return spec["type"]


def pose_of(spec):
    """(R, t) of the local frame used by the own support values / membership tests"""
    t = spec["type"]
    if t in ("sphere",):
        return np.eye(3), np.array(spec["center"], dtype=float)
    if t in ("capsule", "box", "ellipsoid", "cylinder", "cone", "mesh"):
        A = np.array(spec["pose"], dtype=float)
        return A[:3, :3], A[:3, 3]
    raise ValueError(t)


def world_vertices(spec):
    if spec["type"] == "hull":
        return np.array(spec["vertices"], dtype=float)
    R, t = pose_of(spec)
    return np.array(spec["vertices"], dtype=float).dot(R.T) + t


def centre(spec):
    t = spec["type"]
    if t in ("sphere", "disk", "ellipse"):
        return np.array(spec["center"], dtype=float)
    if t in ("capsule", "box", "ellipsoid", "cylinder"):
        return np.array(spec["pose"], dtype=float)[:3, 3]
    if t == "cone":
        A = np.array(spec["pose"], dtype=float)
        return A[:3, 3] + 0.5 * spec["height"] * A[:3, 2]
    if t in ("mesh", "hull"):
        return world_vertices(spec).mean(axis=0)
    if t == "margin":
        return centre(spec["inner"])
    raise ValueError(t)


def feature_sizes(spec):
    t = spec["type"]
    if t == "sphere":
        return [spec["radius"]]
    if t == "capsule":
        return [spec["radius"], spec["height"]]
    if t == "box":
        return list(spec["size"])
    if t == "ellipsoid":
        return list(spec["radii"])
    if t == "cylinder":
        return [spec["radius"], spec["length"]]
    if t == "cone":
        return [spec["radius"], spec["height"]]
    if t == "disk":
        return [spec["radius"]]
    if t == "ellipse":
        return list(spec["radii"])
    if t in ("mesh", "hull"):
        v = world_vertices(spec)
        return [float(np.max(v.max(axis=0) - v.min(axis=0)))]
    if t == "margin":
        return feature_sizes(spec["inner"]) + [spec["margin"]]
    raise ValueError(t)


def scene_L(sa, sb):
    return max([1.0, float(np.linalg.norm(centre(sa) - centre(sb)))] + [float(x) for x in feature_sizes(sa)]
               + [float(x) for x in feature_sizes(sb)])


# ---------------------------------------------------------------------------- own support values
def hval(spec, d):
    """h_K(d) = max_{x in K} <d, x>, closed form, no library code"""
    d = np.asarray(d, dtype=float)
    t = spec["type"]
    if t == "sphere":
        return float(np.dot(d, spec["center"]) + spec["radius"] * np.linalg.norm(d))
    if t == "hull" or t == "mesh":
        return float(np.max(world_vertices(spec).dot(d)))
    if t == "margin":
        return hval(spec["inner"], d) + spec["margin"] * float(np.linalg.norm(d))
    if t == "disk":
        c = np.array(spec["center"], dtype=float)
        n = np.array(spec["normal"], dtype=float)
        dp = d - np.dot(d, n) * n
        return float(np.dot(d, c) + spec["radius"] * np.linalg.norm(dp))
    if t == "ellipse":
        c = np.array(spec["center"], dtype=float)
        ax = np.array(spec["axes"], dtype=float)
        r = spec["radii"]
        return float(np.dot(d, c) + math.hypot(r[0] * np.dot(d, ax[0]), r[1] * np.dot(d, ax[1])))
    R, tt = pose_of(spec)
    ld = R.T.dot(d)
    base = float(np.dot(d, tt))
    if t == "capsule":
        return base + 0.5 * spec["height"] * abs(ld[2]) + spec["radius"] * float(np.linalg.norm(d))
    if t == "box":
        s = spec["size"]
        return base + 0.5 * (s[0] * abs(ld[0]) + s[1] * abs(ld[1]) + s[2] * abs(ld[2]))
    if t == "ellipsoid":
        r = spec["radii"]
        return base + math.sqrt((r[0] * ld[0]) ** 2 + (r[1] * ld[1]) ** 2 + (r[2] * ld[2]) ** 2)
    if t == "cylinder":
        return base + 0.5 * spec["length"] * abs(ld[2]) + spec["radius"] * math.hypot(ld[0], ld[1])
    if t == "cone":
        return base + max(spec["height"] * ld[2], spec["radius"] * math.hypot(ld[0], ld[1]))
    raise ValueError(t)


# ---------------------------------------------------------------------------- own membership
def _seg_dist(p, a, b):
    ab = b - a
    den = float(np.dot(ab, ab))
    s = 0.0 if den == 0.0 else min(1.0, max(0.0, float(np.dot(p - a, ab)) / den))
    return float(np.linalg.norm(p - (a + s * ab)))


def _tri2d_dist(p, tri):
    """distance of a 2-D point to a (ccw or cw) triangle, 0 inside"""
    p = np.asarray(p, dtype=float)
    tri = [np.asarray(v, dtype=float) for v in tri]
    sgn = []
    for i in range(3):
        a, b = tri[i], tri[(i + 1) % 3]
        sgn.append((b[0] - a[0]) * (p[1] - a[1]) - (b[1] - a[1]) * (p[0] - a[0]))
    if all(s >= 0 for s in sgn) or all(s <= 0 for s in sgn):
        return 0.0
    return min(_seg_dist(p, tri[i], tri[(i + 1) % 3]) for i in range(3))


def _ellipse_excess(q, radii):
    """upper bound of the distance of q to the solid {sum (q_i/r_i)^2 <= 1} (radial projection)"""
    s = math.sqrt(sum((qi / ri) ** 2 for qi, ri in zip(q, radii)))
    if s <= 1.0:
        return 0.0
    return float(np.linalg.norm(q)) * (1.0 - 1.0 / s)


def _hull_excess(V, p):
    """upper bound of dist(p, conv V): an explicit convex combination found by NNLS"""
    from scipy.optimize import nnls
    V = np.asarray(V, dtype=float)
    c = V.mean(axis=0)
    scale = max(1e-300, float(np.max(np.abs(V - c))), float(np.max(np.abs(p - c))))
    M = 1e3
    A = np.vstack([((V - c) / scale).T, M * np.ones((1, len(V)))])
    b = np.concatenate([(p - c) / scale, [M]])
    w, _ = nnls(A, b, maxiter=50 * len(V) + 200)
    s = w.sum()
    if not (s > 0):
        return float(np.min(np.linalg.norm(V - p, axis=1)))
    w = w / s
    q = w.dot(V)
    return float(np.linalg.norm(p - q))


def excess(spec, p):
    """an upper bound of dist(p, K) (0 when p is found inside); never an under-estimate"""
    p = np.asarray(p, dtype=float)
    t = spec["type"]
    if t == "sphere":
        return max(0.0, float(np.linalg.norm(p - np.array(spec["center"]))) - spec["radius"])
    if t in ("hull", "mesh"):
        return _hull_excess(world_vertices(spec), p)
    if t == "margin":
        return max(0.0, excess(spec["inner"], p) - spec["margin"])
    if t == "disk":
        c = np.array(spec["center"], dtype=float)
        n = np.array(spec["normal"], dtype=float)
        w = float(np.dot(p - c, n))
        rho = float(np.linalg.norm(p - c - w * n))
        return math.hypot(w, max(0.0, rho - spec["radius"]))
    if t == "ellipse":
        c = np.array(spec["center"], dtype=float)
        ax = np.array(spec["axes"], dtype=float)
        u, v = float(np.dot(p - c, ax[0])), float(np.dot(p - c, ax[1]))
        w = float(np.dot(p - c, np.cross(ax[0], ax[1])))
        return math.hypot(w, _ellipse_excess([u, v], spec["radii"]))
    R, tt = pose_of(spec)
    q = R.T.dot(p - tt)
    if t == "capsule":
        h = 0.5 * spec["height"]
        return max(0.0, _seg_dist(q, np.array([0, 0, -h]), np.array([0, 0, h])) - spec["radius"])
    if t == "box":
        s = spec["size"]
        return math.sqrt(sum(max(0.0, abs(q[i]) - 0.5 * s[i]) ** 2 for i in range(3)))
    if t == "ellipsoid":
        return _ellipse_excess(q, spec["radii"])
    if t == "cylinder":
        return math.hypot(max(0.0, abs(q[2]) - 0.5 * spec["length"]),
                          max(0.0, math.hypot(q[0], q[1]) - spec["radius"]))
    if t == "cone":
        r, h = spec["radius"], spec["height"]
        return _tri2d_dist([math.hypot(q[0], q[1]), q[2]], [[-r, 0.0], [r, 0.0], [0.0, h]])
    raise ValueError(t)


# ---------------------------------------------------------------------------- certificate interval
def sep_value(sa, sb, n):
    """weak duality: for a unit n, dist(A, B) >= -h_A(-n) - h_B(n)"""
    return -hval(sa, -n) - hval(sb, n)


def truth_interval(sa, sb, cands):
    """[lower, upper] containing dist(A, B); cands = list of point pairs (a, b) of any origin."""
    upper = math.inf
    lower = 0.0
    dirs = []
    for a, b in cands:
        a = np.asarray(a, dtype=float)
        b = np.asarray(b, dtype=float)
        if not (np.all(np.isfinite(a)) and np.all(np.isfinite(b))):
            continue
        ea, eb = excess(sa, a), excess(sb, b)
        dab = float(np.linalg.norm(a - b))
        upper = min(upper, dab + ea + eb)
        if dab > 0:
            dirs.append((a - b) / dab)
    cc = centre(sa) - centre(sb)
    if np.linalg.norm(cc) > 0:
        dirs.append(cc / np.linalg.norm(cc))
    for n in dirs:
        n = n / np.linalg.norm(n)
        lower = max(lower, sep_value(sa, sb, n))
    return lower, upper


# ============================================================================ generators
def rand_rot(rng):
    q = np.array([rng.gauss(0, 1) for _ in range(4)])
    q /= np.linalg.norm(q)
    w, x, y, z = q
    return np.array([[1 - 2 * (y * y + z * z), 2 * (x * y - z * w), 2 * (x * z + y * w)],
                     [2 * (x * y + z * w), 1 - 2 * (x * x + z * z), 2 * (y * z - x * w)],
                     [2 * (x * z - y * w), 2 * (y * z + x * w), 1 - 2 * (x * x + y * y)]])


_PERMS = []
for _p in itertools.permutations(range(3)):
    for _s in itertools.product((1, -1), repeat=3):
        _M = np.zeros((3, 3))
        for _i in range(3):
            _M[_i, _p[_i]] = _s[_i]
        if np.linalg.det(_M) > 0:
            _PERMS.append(_M)
_R345 = [np.array([[0.6, -0.8, 0], [0.8, 0.6, 0], [0, 0, 1.0]]),
         np.array([[1.0, 0, 0], [0, 0.6, -0.8], [0, 0.8, 0.6]]),
         np.array([[0.6, 0, 0.8], [0, 1.0, 0], [-0.8, 0, 0.6]]),
         np.array([[0.28, -0.96, 0], [0.96, 0.28, 0], [0, 0, 1.0]])]


def lattice_rot(rng):
    r = rng.random()
    if r < 0.45:
        return np.eye(3)
    if r < 0.8:
        return rng.choice(_PERMS).copy()
    return rng.choice(_R345).dot(rng.choice(_PERMS))


_TETRA = ([[1, 1, 1], [1, -1, -1], [-1, 1, -1], [-1, -1, 1]], [[0, 1, 2], [0, 3, 1], [0, 2, 3], [1, 3, 2]])
_OCTA = ([[1, 0, 0], [-1, 0, 0], [0, 1, 0], [0, -1, 0], [0, 0, 1], [0, 0, -1]],
         [[0, 2, 4], [2, 1, 4], [1, 3, 4], [3, 0, 4], [2, 0, 5], [1, 2, 5], [3, 1, 5], [0, 3, 5]])
_CUBE = ([[-1, -1, -1], [1, -1, -1], [1, 1, -1], [-1, 1, -1], [-1, -1, 1], [1, -1, 1], [1, 1, 1], [-1, 1, 1]],
         [[0, 2, 1], [0, 3, 2], [4, 5, 6], [4, 6, 7], [0, 1, 5], [0, 5, 4], [1, 2, 6], [1, 6, 5],
          [2, 3, 7], [2, 7, 6], [3, 0, 4], [3, 4, 7]])


def random_convex_mesh(rng, scale, n=None):
    from scipy.spatial import ConvexHull
    n = n or rng.choice([4, 6, 8, 12, 20])
    for _ in range(20):
        pts = np.array([[rng.gauss(0, 1) for _ in range(3)] for _ in range(n)])
        pts /= np.linalg.norm(pts, axis=1)[:, None]
        pts *= np.array([rng.uniform(0.5, 1.0) for _ in range(3)]) * 0.5 * scale
        try:
            ch = ConvexHull(pts)
        except Exception:
            continue
        if len(ch.vertices) != n:
            continue
        return pts.tolist(), ch.simplices.tolist()
    v, t = _OCTA
    return (0.5 * scale * np.array(v, dtype=float)).tolist(), t


def gen_shape(rng, typ, stream, scale=None, wild=False):
    """local shape parameters (no placement); sizes are feature sizes in [1e-2, 1e2]"""
    if stream == "L":
        pick = lambda: rng.choice([0.5, 1.0, 1.0, 2.0, 4.0])  # noqa
    else:
        if scale is None:
            scale = 10 ** rng.uniform(-2, 2)
        if wild:
            pick = lambda: 10 ** rng.uniform(-2, 2)  # noqa
        else:
            pick = lambda: min(100.0, max(0.01, scale * rng.uniform(0.5, 2.0)))  # noqa
    if typ == "sphere":
        return {"type": typ, "radius": pick()}
    if typ == "capsule":
        return {"type": typ, "radius": pick(), "height": pick()}
    if typ == "box":
        return {"type": typ, "size": [pick(), pick(), pick()]}
    if typ == "ellipsoid":
        return {"type": typ, "radii": [pick(), pick(), pick()]}
    if typ == "cylinder":
        return {"type": typ, "radius": pick(), "length": pick()}
    if typ == "cone":
        return {"type": typ, "radius": pick(), "height": pick()}
    if typ == "disk":
        return {"type": typ, "radius": pick()}
    if typ == "ellipse":
        return {"type": typ, "radii": [pick(), pick()]}
    if typ in ("mesh", "hull"):
        if stream == "L":
            v, t = rng.choice([_TETRA, _OCTA, _CUBE])
            s = rng.choice([0.5, 1.0, 2.0])
            return {"type": typ, "vertices": (s * np.array(v, dtype=float)).tolist(), "triangles": t}
        v, t = random_convex_mesh(rng, pick())
        return {"type": typ, "vertices": v, "triangles": t}
    if typ == "margin":
        inner = gen_shape(rng, rng.choice(["sphere", "box", "cone", "capsule", "cylinder", "hull"]), stream, scale, wild)
        m = rng.choice([0.25, 0.5, 1.0]) if stream == "L" else min(100.0, max(0.01, 0.2 * min(feature_sizes_local(inner))))
        return {"type": typ, "inner": inner, "margin": m}
    raise ValueError(typ)


def feature_sizes_local(shape):
    t = shape["type"]
    if t in ("mesh", "hull"):
        v = np.array(shape["vertices"], dtype=float)
        return [float(np.max(v.max(axis=0) - v.min(axis=0)))]
    if t == "margin":
        return feature_sizes_local(shape["inner"]) + [shape["margin"]]
    out = []
    for k in ("radius", "height", "length"):
        if k in shape:
            out.append(shape[k])
    for k in ("size", "radii"):
        if k in shape:
            out += list(shape[k])
    return out


def place(shape, R, t):
    """put a local shape at pose (R, t): the local origin goes to t"""
    R = np.asarray(R, dtype=float)
    t = np.asarray(t, dtype=float)
    typ = shape["type"]
    s = dict(shape)
    if typ == "sphere":
        s["center"] = t.tolist()
    elif typ in ("capsule", "box", "ellipsoid", "cylinder", "cone", "mesh"):
        s["pose"] = _pose(R, t).tolist()
    elif typ == "disk":
        s["center"] = t.tolist()
        s["normal"] = R[:, 2].tolist()
    elif typ == "ellipse":
        s["center"] = t.tolist()
        s["axes"] = [R[:, 0].tolist(), R[:, 1].tolist()]
    elif typ == "hull":
        s["vertices"] = (np.array(shape["vertices"], dtype=float).dot(R.T) + t).tolist()
        s.pop("triangles", None)
    elif typ == "margin":
        s["inner"] = place(shape["inner"], R, t)
    return s


def local_centre(shape):
    """centre of the placed shape relative to its local origin, in local coordinates"""
    typ = shape["type"]
    if typ == "cone":
        return np.array([0.0, 0.0, 0.5 * shape["height"]])
    if typ in ("mesh", "hull"):
        return np.array(shape["vertices"], dtype=float).mean(axis=0)
    if typ == "margin":
        return local_centre(shape["inner"])
    return np.zeros(3)


def place_centred(shape, R, c):
    """place so that the *centre* of the shape is at c"""
    return place(shape, R, np.asarray(c, dtype=float) - np.asarray(R).dot(local_centre(shape)))


PLACEMENTS_G = ["gap", "gap", "gap", "near", "far", "deep", "nested", "identical", "graze"]
PLACEMENTS_L = ["touch", "touch", "axis", "axis", "nested", "identical", "coplanar", "overlap", "gap"]


def gen_scene(rng, ta, tb, stream, placement=None, wild=False):
    """-> dict(a=spec, b=spec, placement=..., stream=...). Scenes stay inside the declared domain
    (sizes in [1e-2, 1e2], everything within 1e3 of the origin)."""
    if stream == "L":
        sha, shb = gen_shape(rng, ta, "L"), gen_shape(rng, tb, "L")
        placement = placement or rng.choice(PLACEMENTS_L)
        Ra, Rb = lattice_rot(rng), lattice_rot(rng)
        ca = np.array([rng.choice([-2.0, -1.0, 0.0, 0.0, 0.5, 1.0, 3.0]) for _ in range(3)])
        if placement == "identical":
            a = place_centred(sha, Ra, ca)
            return {"a": a, "b": _copy(a), "placement": placement, "stream": stream}
        if placement == "nested":
            cb = ca
        elif placement == "overlap":
            cb = ca + np.array([rng.choice([-0.5, 0.0, 0.25, 0.5]) for _ in range(3)])
        elif placement == "coplanar":
            cb = ca + np.array([rng.choice([-4.0, -2.0, -1.0, 1.0, 2.0, 4.0]), rng.choice([-1.0, 0.0, 0.5]), 0.0])
        else:
            a0 = place_centred(sha, Ra, ca)
            b0 = place_centred(shb, Rb, ca)
            ax = rng.choice([0, 1, 2])
            sg = rng.choice([1.0, -1.0])
            u = np.zeros(3)
            u[ax] = sg
            # B moved along u until the supporting planes orthogonal to u touch (+ a dyadic gap)
            shift = hval(a0, u) + hval(b0, -u)
            gap = 0.0 if placement == "touch" else rng.choice([0.0, 0.25, 0.5, 1.0, 2.0, 8.0])
            off = np.zeros(3)
            if placement == "axis":
                off[(ax + 1) % 3] = rng.choice([0.0, 0.0, 0.25, -0.5])
            cb = ca + (shift + gap) * u + off
        return {"a": place_centred(sha, Ra, ca), "b": place_centred(shb, Rb, cb),
                "placement": placement, "stream": stream}
    # ---- general stream
    placement = placement or rng.choice(PLACEMENTS_G)
    scale = 10 ** rng.uniform(-2, 2)
    sha = gen_shape(rng, ta, "G", scale, wild)
    shb = gen_shape(rng, tb, "G", scale * (1.0 if rng.random() < 0.6 else 10 ** rng.uniform(-1, 1)), wild)
    Ra, Rb = rand_rot(rng), rand_rot(rng)
    far = placement == "far"
    cmax = 400.0 if far else 50.0
    ca = np.array([rng.uniform(-cmax, cmax) for _ in range(3)])
    if placement == "identical":
        a = place_centred(sha, Ra, ca)
        return {"a": a, "b": _copy(a), "placement": placement, "stream": stream}
    a0 = place_centred(sha, Ra, ca)
    b0 = place_centred(shb, Rb, ca)
    u = np.array([rng.gauss(0, 1) for _ in range(3)])
    u /= np.linalg.norm(u)
    shift = hval(a0, u) + hval(b0, -u)
    size = max(feature_sizes(a0) + feature_sizes(b0))
    if placement == "nested":
        cb = ca + 0.05 * min(feature_sizes(a0) + feature_sizes(b0)) * u
    elif placement == "deep":
        cb = ca + rng.uniform(0.1, 0.8) * shift * u
    elif placement == "graze":
        cb = ca + (shift + rng.choice([-1, 1]) * 10 ** rng.uniform(-9, -4) * size) * u
    elif placement == "near":
        cb = ca + (shift + 10 ** rng.uniform(-4, -1) * size) * u
    elif placement == "far":
        cb = ca + (shift + rng.uniform(50.0, 600.0)) * u
    else:
        cb = ca + (shift + 10 ** rng.uniform(-1, 1) * size) * u
    # stay within 1e3 of the origin
    if np.linalg.norm(cb) > 950.0:
        cb = cb * (950.0 / np.linalg.norm(cb))
    return {"a": a0, "b": place_centred(shb, Rb, cb), "placement": placement, "stream": stream}


def _copy(spec):
    import json
    return json.loads(json.dumps(spec))


# ============================================================================ implementation calls
ALGS = ("orig", "nest0", "nest1", "prim0", "prim1")


def accepts(alg, sa, sb):
    if alg.startswith("prim"):
        return sa["type"] in SPECIAL and sb["type"] in SPECIAL
    return True


class _Patch:
    """temporarily replace module-level functions (interpreted engine: calls go through the module dict)"""

    def __init__(self, mod, **repl):
        self.mod, self.repl, self.old = mod, repl, {}

    def __enter__(self):
        for k, v in self.repl.items():
            self.old[k] = getattr(self.mod, k)
            setattr(self.mod, k, v)
        return self

    def __exit__(self, *a):
        for k, v in self.old.items():
            setattr(self.mod, k, v)


def _bary3(p, a, b, c):
    """barycentric coordinates of the projection of p on the plane of (a, b, c)"""
    v0, v1, v2 = b - a, c - a, p - a
    d00, d01, d11 = v0.dot(v0), v0.dot(v1), v1.dot(v1)
    d20, d21 = v2.dot(v0), v2.dot(v1)
    den = d00 * d11 - d01 * d01
    if den == 0:
        return None
    v = (d11 * d20 - d01 * d21) / den
    w = (d00 * d21 - d01 * d20) / den
    return 1.0 - v - w, v, w


def call_alg(alg, sa, sb, trace=True):
    """run one algorithm on fresh colliders.
    -> dict(ok, d, [raw, inside], [a, b], it, notes) or dict(ok=False, err, msg).
    notes (diagnostic observations taken by wrapping module-level functions, used only to
    *classify* a failure, never to judge it):
      'pre'      original GJK: the two points computed by compute_point before the tetrahedron
                 branch overwrites them with their midpoint
      'extrap'   Nesterov: number of project_* results that are not convex combinations of the
                 simplex points (origin_to_segment with t outside [0,1], origin_to_triangle with the
                 foot point outside the triangle)"""
    from distance3d.gjk import _gjk_original as O, _gjk_nesterov_accelerated as N, \
        _gjk_nesterov_accelerated_primitives as Pm
    notes = {}
    try:
        A, B = mk(sa), mk(sb)
        if alg == "orig":
            pre = []
            cp0 = O.compute_point

            def cp(vc, bc, idx):
                r = cp0(vc, bc, idx)
                pre.append(np.array(r, dtype=float))
                return r
            with _Patch(O, **({"compute_point": cp} if trace else {})):
                d, p1, p2, simplex, it = O.gjk_distance_original(A, B)
            if len(pre) == 2:
                notes["pre"] = pre
            return {"ok": True, "d": float(d), "a": np.array(p1, dtype=float), "b": np.array(p2, dtype=float),
                    "it": int(it), "notes": notes}
        acc = alg.endswith("1")
        mod = N if alg.startswith("nest") else Pm
        fn = N.gjk_nesterov_accelerated if alg.startswith("nest") else Pm.gjk_nesterov_accelerated_primitives
        cnt = {"extrap": 0, "extrap_tetra": 0, "in_tetra": False}
        trace_log = []
        seg0, tri0, tet0, sup0 = mod.origin_to_segment, mod.origin_to_triangle, mod.project_tetra_to_origin, \
            mod.support_function

        def seg(simplex, a, b, ab, ab_dot_a0):
            den = float(ab.dot(ab))
            if den > 0:
                t = float(ab_dot_a0) / den
                if t > 1.0 + 1e-9 or t < -1e-9:
                    cnt["extrap"] += 1
                    if cnt["in_tetra"]:
                        cnt["extrap_tetra"] += 1
            return seg0(simplex, a, b, ab, ab_dot_a0)

        def tri(simplex, a, b, c, abc, abc_dot_a0):
            a_, b_, c_ = np.array(a), np.array(b), np.array(c)
            bc = _bary3(np.zeros(3), a_, b_, c_)
            if bc is not None and min(bc) < -1e-9:
                cnt["extrap"] += 1
                if cnt["in_tetra"]:
                    cnt["extrap_tetra"] += 1
            return tri0(simplex, a, b, c, abc, abc_dot_a0)

        def tet(tetra):
            cnt["in_tetra"] = True
            try:
                return tet0(tetra)
            finally:
                cnt["in_tetra"] = False

        def sup(d, *rest):
            r = sup0(d, *rest)
            trace_log.append((np.array(d, dtype=float), np.array(r[0], dtype=float), np.array(r[1], dtype=float)))
            return r
        patches = {"origin_to_segment": seg, "origin_to_triangle": tri, "project_tetra_to_origin": tet,
                   "support_function": sup} if trace else {}
        with _Patch(mod, **patches):
            inside, dist, simplex, it = fn(A, B, use_nesterov_acceleration=acc)
        notes["extrap"] = cnt["extrap"]
        notes["extrap_tetra"] = cnt["extrap_tetra"]
        notes["trace"] = trace_log
        notes["simplex"] = np.array(simplex, dtype=float)
        return {"ok": True, "d": max(float(dist), 0.0), "raw": float(dist), "inside": bool(inside), "it": int(it),
                "notes": notes}
    except Exception as e:  # noqa
        return {"ok": False, "err": type(e).__name__, "msg": str(e)[:200], "notes": notes}


def call_entry(alg, sa, sb):
    """the public entry points and *_iterations helpers (default flags) -> (distance, iterations)"""
    from distance3d.gjk import _gjk_original as O, _gjk_nesterov_accelerated as N, \
        _gjk_nesterov_accelerated_primitives as Pm
    if alg == "orig":
        return float(O.gjk_distance_original(mk(sa), mk(sb))[0]), int(O.gjk_distance_iterations(mk(sa), mk(sb)))
    if alg == "nest0":
        return (float(N.gjk_nesterov_accelerated_distance(mk(sa), mk(sb))),
                int(N.gjk_nesterov_accelerated_iterations(mk(sa), mk(sb))))
    if alg == "prim0":
        return (float(Pm.gjk_nesterov_accelerated_primitives_distance(mk(sa), mk(sb))),
                int(Pm.gjk_nesterov_accelerated_primitives_iterations(mk(sa), mk(sb))))
    return None


def reference_points(sa, sb):
    """candidate closest point pairs from the library's Jolt GJK (only *candidates*: they are
    verified by own membership tests and own support values before they bound anything)"""
    from distance3d.gjk._gjk_jolt import gjk_distance_jolt
    out = []
    try:
        d, p1, p2, _ = gjk_distance_jolt(mk(sa), mk(sb), max_distance_squared=1e300)
        out.append((np.array(p1, dtype=float), np.array(p2, dtype=float)))
    except Exception:  # noqa
        pass
    return out


# ============================================================================ oracle
FINDINGS = {
    "B": "F-nesterov-cap-zero",
    "C": "F-nesterov-accel-projection",
    "D": "F-orig-degenerate-tetra-zero",
    "E": "F-nesterov-tetra-region",
}
MAX_ITER = 128


def inflation_of(sa, sb):
    """what the code subtracts: radii of sphere / capsule colliders, since commit 78b7577 only when both
    colliders have a specialised support (the primitives variant accepts nothing else)"""
    if not (sa["type"] in SPECIAL and sb["type"] in SPECIAL):
        return 0.0
    infl = 0.0
    for s in (sa, sb):            # same order of additions as the code: 0.0 + r0 + r1
        if s["type"] in INFLATED:
            infl += float(s["radius"])
    return infl


def classify(alg, sa, sb, r, lo, up, L):
    """-> (finding id or None, needs_model). Each class is an (algorithm, acceleration flag,
    collider-type class) together with a mechanism signature observed on the failing run itself;
    classes B, C and E additionally require that the faithful Lean model, fed with the support
    answers recorded from this very run, reproduces the implementation's result (`needs_model`):
    then the wrong answer is the as-is behaviour of the modelled loop and projections, not
    something else. Anything else stays unclassified and is reported as a VIOLATION."""
    if not r.get("ok"):
        return None, False
    n = r.get("notes", {})
    tol = TOL * L
    if alg == "orig":
        # D: a 4-point simplex is reported as an intersection (d = 0, common midpoint) although the
        # two points computed from the weights are more than the tolerance apart
        if r["d"] == 0.0 and "pre" in n and float(np.linalg.norm(r["a"] - r["b"])) == 0.0 \
                and float(np.linalg.norm(n["pre"][0] - n["pre"][1])) > tol:
            return FINDINGS["D"], False
        return None, False
    if not math.isfinite(r["d"]):
        return None, False
    # B: acceleration on, iteration cap reached, the initial distance 0.0 is returned
    if alg in ("nest1", "prim1") and r["it"] >= MAX_ITER and r["raw"] == 0.0 and not r["inside"] and lo > tol:
        return FINDINGS["B"], True
    # C: acceleration on and a projection returned a point outside the simplex
    if alg in ("nest1", "prim1") and n.get("extrap", 0) > 0 and r["it"] < MAX_ITER:
        return FINDINGS["C"], True
    # E: acceleration off, project_tetra_to_origin selected a region whose foot point lies outside it
    if alg in ("nest0", "prim0") and n.get("extrap_tetra", 0) > 0 and n.get("extrap", 0) == n.get("extrap_tetra", 0) \
            and r["it"] < MAX_ITER:
        return FINDINGS["E"], True
    return None, False


def judge(sc, results=None, want_cands=False):
    """run every accepted algorithm on the scene and judge it; -> list of failure dicts
    (alg, kind, observed, expected, finding) and the truth interval"""
    sa, sb = sc["a"], sc["b"]
    L = scene_L(sa, sb)
    tol = TOL * L
    res = results or {}
    if "orig" not in res:
        res["orig"] = call_alg("orig", sa, sb)
    cands = reference_points(sa, sb)
    ro = res["orig"]
    if ro.get("ok") and np.all(np.isfinite(ro["a"])) and np.all(np.isfinite(ro["b"])):
        cands.append((ro["a"], ro["b"]))
        if "pre" in ro["notes"]:
            cands.append(tuple(ro["notes"]["pre"]))
    for extra in sc.get("witness_points", []):
        cands.append((np.array(extra, dtype=float), np.array(extra, dtype=float)))
    lo, up = truth_interval(sa, sb, cands)
    if "truth" in sc:     # constructed closed form: must lie in the certificate interval (self-check)
        t = float(sc["truth"])
        if not (lo - 1e-9 * L <= t <= up + 1e-9 * L):
            return [{"alg": "oracle", "kind": "oracle-inconsistent", "observed": [lo, up], "expected": t,
                     "finding": None}], (lo, up, L)
        lo, up = max(lo, t - 1e-12 * L), min(up, t + 1e-12 * L)
    fails = []
    for alg in ALGS:
        if not accepts(alg, sa, sb):
            continue
        if alg not in res:
            res[alg] = call_alg(alg, sa, sb)
        r = res[alg]
        kind = None
        obs = None
        if not r["ok"]:
            kind, obs = "exception", "%s: %s" % (r["err"], r["msg"])
        elif not math.isfinite(r["d"]) or (alg == "orig" and not (np.all(np.isfinite(r["a"])) and np.all(np.isfinite(r["b"])))):
            kind, obs = "non-finite", str(r["d"])
        elif r["d"] < lo - tol:
            kind, obs = "distance-too-small", r["d"]
        elif r["d"] > up + tol:
            kind, obs = "distance-too-large", r["d"]
        elif alg == "orig":
            ea, eb = excess(sa, r["a"]), excess(sb, r["b"])
            dab = float(np.linalg.norm(r["a"] - r["b"]))
            if ea > tol or eb > tol:
                kind, obs = "point-off-collider", [ea, eb]
            elif abs(dab - r["d"]) > tol:
                kind, obs = "|a-b| != d", [dab, r["d"]]
        if kind:
            fid, needs = classify(alg, sa, sb, r, lo, up, L)
            fails.append({"alg": alg, "kind": kind, "observed": obs, "expected": [lo, up],
                          "finding": fid, "needs_model": needs, "run": r})
    return fails, (lo, up, L)


def confirm_with_model(pending, tag="c09-confirm"):
    """pending: list of (scene, fail). For failures whose class needs it, replay the recorded support
    trace through the Lean model; drop the finding id unless the model reproduces the run."""
    todo = [(sc, f) for sc, f in pending if f.get("needs_model") and f.get("finding")]
    if not todo:
        return
    try:
        drv = core.Driver(tag)
        ids = []
        for sc, f in todo:
            ids.append(drv.add("C09.trace", "F", trace_tokens(f["alg"], sc["a"], sc["b"], f["run"]["notes"]["trace"])))
        out = drv.run()
    except core.Infra:
        raise          # the model driver is infrastructure: exit 2, never a VIOLATION
    for (sc, f), cid in zip(todo, ids):
        m = parse_trace_out(out.get(cid, "bad missing"))
        okm, why = model_reproduces(f["run"], m, scene_L(sc["a"], sc["b"]))
        if not okm:
            f["model_note"] = "faithful model does not reproduce this run (%s): not the recorded defect" % why
            f["finding"] = None
        else:
            f["model_note"] = "faithful model reproduces the run (exit %d)" % m["exit"]


# ============================================================================ closed-form scenes
def closed_form_scene(rng, stream):
    """scene with a constructed distance: sphere–sphere, sphere–box (box axis-aligned in its own frame,
    common rotation), capsule–sphere, box–box axis-aligned. -> scene dict with 'truth'."""
    kind = rng.choice(["ss", "sb", "cs", "bb"])
    if stream == "L":
        pick = lambda: rng.choice([0.5, 1.0, 2.0, 4.0])  # noqa
        R = lattice_rot(rng)
        c = np.array([rng.choice([-2.0, 0.0, 1.0, 3.0]) for _ in range(3)])
        off = lambda: rng.choice([-8.0, -4.0, -2.0, -1.0, -0.5, 0.0, 0.5, 1.0, 2.0, 4.0, 8.0])  # noqa
    else:
        s = 10 ** rng.uniform(-2, 2)
        pick = lambda: min(100.0, max(0.01, s * rng.uniform(0.5, 2.0)))  # noqa
        R = rand_rot(rng)
        c = np.array([rng.uniform(-50, 50) for _ in range(3)])
        off = lambda: s * rng.choice([-1, 1]) * 10 ** rng.uniform(-2, 1.3)  # noqa
    order = rng.random() < 0.5
    if kind == "ss":
        r1, r2 = pick(), pick()
        v = np.array([off(), off(), off()])
        a = {"type": "sphere", "center": c.tolist(), "radius": r1}
        b = {"type": "sphere", "center": (c + v).tolist(), "radius": r2}
        truth = max(0.0, float(np.linalg.norm(v)) - r1 - r2)
    elif kind == "sb":
        r1 = pick()
        size = [pick(), pick(), pick()]
        q = np.array([off(), off(), off()])     # sphere centre in the box frame
        a = {"type": "sphere", "center": (c + R.dot(q)).tolist(), "radius": r1}
        b = {"type": "box", "pose": _pose(R, c).tolist(), "size": size}
        ex = math.sqrt(sum(max(0.0, abs(q[i]) - 0.5 * size[i]) ** 2 for i in range(3)))
        truth = max(0.0, ex - r1)
    elif kind == "cs":
        r1, h, r2 = pick(), pick(), pick()
        q = np.array([off(), off(), off()])
        a = {"type": "capsule", "pose": _pose(R, c).tolist(), "radius": r1, "height": h}
        b = {"type": "sphere", "center": (c + R.dot(q)).tolist(), "radius": r2}
        dseg = _seg_dist(q, np.array([0, 0, -0.5 * h]), np.array([0, 0, 0.5 * h]))
        truth = max(0.0, dseg - r1 - r2)
    else:
        s1, s2 = [pick(), pick(), pick()], [pick(), pick(), pick()]
        q = np.array([off(), off(), off()])
        a = {"type": "box", "pose": _pose(R, c).tolist(), "size": s1}
        b = {"type": "box", "pose": _pose(R, c + R.dot(q)).tolist(), "size": s2}
        truth = math.sqrt(sum(max(0.0, abs(q[i]) - 0.5 * (s1[i] + s2[i])) ** 2 for i in range(3)))
    if order:
        a, b = b, a
    return {"a": a, "b": b, "placement": "closed-" + kind, "stream": stream, "truth": truth}


def overlap_scene(rng, ta, tb):
    """two colliders sharing a point that is delta-deep in both (truth 0)"""
    scale = 10 ** rng.uniform(-1.5, 1.5)
    sha, shb = gen_shape(rng, ta, "G", scale), gen_shape(rng, tb, "G", scale)
    Ra, Rb = rand_rot(rng), rand_rot(rng)
    p = np.array([rng.uniform(-50, 50) for _ in range(3)])
    a = place_centred(sha, Ra, p)
    b = place_centred(shb, Rb, p)
    # the centres of solid shapes are interior; flat shapes (disk, ellipse) contain their centre
    return {"a": a, "b": b, "placement": "overlap-centre", "stream": "G", "witness_points": [p.tolist()]}


# ============================================================================ encoding for the Lean driver
KIND = {"sphere": 0, "capsule": 1, "box": 2, "ellipsoid": 3, "cylinder": 4}


def enc_v(v):
    return [f2h(x) for x in np.asarray(v, dtype=float).reshape(-1)]


def enc_vq(v):
    from fractions import Fraction
    return [core.q2s(Fraction(float(x))) for x in np.asarray(v, dtype=float).reshape(-1)]


def coll_tokens(spec, data=None, enc=enc_v):
    """kind data radius (data as `get_data_from_collider` builds it; taken from the library when given)"""
    t = spec["type"]
    k = KIND.get(t, 5)
    if data is None:
        if t == "capsule":
            data = [spec["height"] / 2, 0, 0]
        elif t == "box":
            data = (np.array(spec["size"], dtype=float) / 2).tolist()
        elif t == "ellipsoid":
            data = [r * r for r in spec["radii"]]
        elif t == "cylinder":
            data = [spec["length"] / 2, spec["radius"], 0]
        else:
            data = [0, 0, 0]
    radius = float(spec["radius"]) if t in INFLATED else 0.0
    return [str(k)] + enc(data) + enc([radius])


def nest_defaults(alg):
    import inspect
    from distance3d.gjk import _gjk_nesterov_accelerated as N, _gjk_nesterov_accelerated_primitives as Pm
    fn = N.gjk_nesterov_accelerated if alg.startswith("nest") else Pm.gjk_nesterov_accelerated_primitives
    p = inspect.signature(fn).parameters
    return int(p["max_interations"].default), float(p["upper_bound"].default), float(p["tolerance"].default)


def trace_tokens(alg, sa, sb, trace, enc=enc_v):
    maxit, ub, tol = nest_defaults(alg)
    infl = inflation_of(sa, sb)
    normalize = alg.startswith("nest") and sa["type"] == "mesh" and sb["type"] == "mesh"
    t = [str(maxit)] + enc([ub + infl, tol, infl]) + ["1" if normalize else "0", "1" if alg.endswith("1") else "0",
                                                      str(len(trace))]
    for d, s0, s1 in trace:
        t += enc(s0) + enc(s1)
    return t


def parse_trace_out(out, dec=h2f):
    """-> dict(exit, inside, distance, iters, len, queries) or dict(err=...)"""
    parts = out.split()
    if not parts or parts[0] != "ok":
        return {"err": out}
    ex, inside, dist, iters, ln, nq = int(parts[1]), parts[2] == "1", dec(parts[3]), int(parts[4]), int(parts[5]), \
        int(parts[6])
    q = [dec(x) for x in parts[7:7 + 3 * nq]]
    return {"exit": ex, "inside": inside, "distance": dist, "iters": iters, "len": ln,
            "queries": np.array(q, dtype=float).reshape(-1, 3)}


def qdec(s):
    return float(core.s2q(s))


def model_reproduces(r, m, scale):
    """does the model run `m` (answers from the recorded trace) reproduce the implementation run `r`?"""
    if "err" in m:
        return False, "model: " + m["err"][:80]
    tr = r["notes"]["trace"]
    if len(m["queries"]) != len(tr):
        return False, "support calls: impl %d model %d" % (len(tr), len(m["queries"]))
    for k, (d, _, _) in enumerate(tr):
        if float(np.max(np.abs(m["queries"][k] - d))) > 1e-9 * max(1.0, scale, float(np.max(np.abs(d)))):
            return False, "query %d: impl %s model %s" % (k, d.tolist(), m["queries"][k].tolist())
    if m["inside"] != r["inside"] or m["iters"] != r["it"]:
        return False, "inside/iterations: impl (%s, %d) model (%s, %d)" % (r["inside"], r["it"], m["inside"], m["iters"])
    if abs(m["distance"] - r["raw"]) > 1e-9 * max(1.0, scale):
        return False, "distance: impl %r model %r" % (r["raw"], m["distance"])
    return True, ""


# ============================================================================ correspondence
def _close(a, b, scale):
    a = np.asarray(a, dtype=float).reshape(-1)
    b = np.asarray(b, dtype=float).reshape(-1)
    if a.shape != b.shape:
        return False
    both_nan = np.isnan(a) & np.isnan(b)
    d = np.abs(a - b)
    d[both_nan] = 0.0
    return bool(np.all(d <= 1e-9 * max(1.0, scale)))


def _dirs(rng, stream):
    if stream == "L":
        return np.array([rng.choice([-2.0, -1.0, 0.0, 0.0, 1.0, 0.5]) for _ in range(3)])
    return np.array([rng.gauss(0, 1) for _ in range(3)]) * 10 ** rng.uniform(-2, 2)


def corr_select(ctx):
    """sphere/capsule/box/ellipsoid/cylinder_support of both modules vs the model"""
    from distance3d.gjk import _gjk_nesterov_accelerated as N, _gjk_nesterov_accelerated_primitives as Pm
    drv = core.Driver("c09-select")
    plan = []
    for k in range(ctx.budget(400, 6000)):
        stream = "L" if ctx.rng.random() < 0.5 else "G"
        typ = ctx.rng.choice(SPECIAL)
        spec = place(gen_shape(ctx.rng, typ, stream), np.eye(3), np.zeros(3))
        col = mk(spec)
        d = _dirs(ctx.rng, stream)
        data, code = Pm.get_data_from_collider(col)
        import warnings
        with warnings.catch_warnings():
            warnings.simplefilter("ignore")
            sn, found = N.select_support(d.copy(), col)
            sp = Pm.select_support(d.copy(), code, np.array(data, dtype=float))
        cid = drv.add("C09.select", "F", coll_tokens(spec, data) + enc_v(d))
        plan.append((stream, typ, spec, d, code, np.array(sn), bool(found), np.array(sp), cid))
    out = drv.run()
    for stream, typ, spec, d, code, sn, found, sp, cid in plan:
        ctx.count("select:" + stream, key=("sel", typ, tuple(d), str(spec)), nontrivial=bool(np.any(d != 0)),
                  sample={"fn": "select_support", "type": typ, "dir": d.tolist()})
        o = out.get(cid, "bad missing").split()
        scale = max(feature_sizes(spec))
        if code != KIND[typ] or not found:
            ctx.broke("correspondence", "get_data_from_collider/select_support",
                      "type code %s found %s for %s" % (code, found, typ), {"spec": spec})
            continue
        if o[0] == "err":
            ctx.branch("select", typ + "/err")
            if not (np.any(np.isnan(sn)) and np.any(np.isnan(sp))):
                ctx.broke("correspondence", "select_support(%s)" % typ, "model %s, impl %s / %s" % (o, sn, sp),
                          {"spec": spec, "dir": d.tolist()})
            continue
        ctx.branch("select", typ)
        mv = [h2f(x) for x in o[2:5]]
        if o[1] != "1" or not _close(mv, sn, scale) or not _close(mv, sp, scale):
            ctx.broke("correspondence", "select_support(%s)" % typ,
                      "model %s nesterov %s primitives %s" % (mv, sn.tolist(), sp.tolist()),
                      {"spec": spec, "dir": d.tolist()})


def corr_dispatch(ctx):
    """support_function: which pairs get the core supports, which the generic ones; the pair itself for
    specialised colliders (both modules), the inflation the model derives from the collider types"""
    from distance3d.gjk import _gjk_nesterov_accelerated as N, _gjk_nesterov_accelerated_primitives as Pm
    drv = core.Driver("c09-supp")
    plan = []
    pairs = [(a, b) for a in ALLTYPES for b in ALLTYPES]
    reps = ctx.budget(2, 20)
    import warnings
    for ta, tb in pairs:
        for _ in range(reps):
            stream = "L" if ctx.rng.random() < 0.4 else "G"
            sc = gen_scene(ctx.rng, ta, tb, stream)
            sa, sb = sc["a"], sc["b"]
            A, B = mk(sa), mk(sb)
            d = _dirs(ctx.rng, stream)
            if not np.any(d != 0):
                d = np.array([1.0, 0.0, 0.0])
            flags = []
            sel0 = N.select_support

            def sel(dd, c):
                r = sel0(dd, c)
                flags.append(bool(r[1]))
                return r
            with warnings.catch_warnings():
                warnings.simplefilter("ignore")
                with _Patch(N, select_support=sel):
                    s0, s1 = N.support_function(d.copy(), A, B)
                both = sa["type"] in SPECIAL and sb["type"] in SPECIAL
                md = None
                if both:
                    md = Pm.get_minkowski_diff(A, B)
                    p0, p1 = Pm.support_function(d.copy(), md)
            if both:
                toks = coll_tokens(sa, md[1]) + coll_tokens(sb, md[3]) + enc_v(md[4]) + enc_v(md[5]) + enc_v(d)
            else:
                toks = coll_tokens(sa) + coll_tokens(sb) + enc_v(np.eye(3)) + enc_v(np.zeros(3)) + enc_v(d)
            cid = drv.add("C09.supp", "F", toks)
            plan.append((sc, d, flags, np.array(s0), np.array(s1), (np.array(p0), np.array(p1)) if both else None, cid))
    out = drv.run()
    for sc, d, flags, s0, s1, prim, cid in plan:
        sa, sb = sc["a"], sc["b"]
        ta, tb = sa["type"], sb["type"]
        ctx.count("dispatch:" + sc["stream"], key=("disp", str(sc), tuple(d)),
                  sample={"fn": "support_function", "pair": [ta, tb], "dir": d.tolist()})
        o = out.get(cid, "bad missing").split()
        impl_branch = 0 if (len(flags) == 2 and flags[0] and flags[1]) else 1
        if o[0] == "err":
            if not np.any(np.isnan(np.concatenate([s0, s1]))):
                ctx.broke("correspondence", "support_function", "model %s impl %s %s" % (o, s0, s1), {"scene": sc})
            continue
        ctx.branch("dispatch", "%d" % int(o[1]))
        if int(o[1]) != impl_branch:
            ctx.broke("correspondence", "support_function dispatch",
                      "pair (%s, %s): model branch %s, implementation found flags %s" % (ta, tb, o[1], flags), {"scene": sc})
            continue
        if abs(h2f(o[2]) - inflation_of(sa, sb)) > 0:
            ctx.broke("correspondence", "inflation", "model %r, radii of sphere/capsule colliders %r"
                      % (h2f(o[2]), inflation_of(sa, sb)), {"scene": sc})
        if impl_branch == 0:
            L = scene_L(sa, sb)
            m0 = [h2f(x) for x in o[3:6]]
            m1 = [h2f(x) for x in o[6:9]]
            if not (_close(m0, s0, L) and _close(m1, s1, L) and _close(m0, prim[0], L) and _close(m1, prim[1], L)):
                ctx.broke("correspondence", "support_function pair",
                          "model %s %s nesterov %s %s primitives %s %s" % (m0, m1, s0.tolist(), s1.tolist(),
                                                                            prim[0].tolist(), prim[1].tolist()),
                          {"scene": sc, "dir": d.tolist()})
        else:
            # generic fall-back: both world-frame supports, the sphere's one includes its radius
            for spec, p, dd in ((sa, s0, d), (sb, s1, -d)):
                if abs(float(np.dot(dd, p)) - hval(spec, dd)) > 1e-6 * scene_L(sa, sb) * max(1.0, float(np.linalg.norm(dd))):
                    # MeshGraph hill climbing and its epsilon are C03's business: only exact types are checked
                    if spec["type"] not in ("mesh",):
                        ctx.broke("correspondence", "generic support in fall-back",
                                  "support value %r vs own %r for %s" % (float(np.dot(dd, p)), hval(spec, dd), spec["type"]),
                                  {"scene": sc, "dir": d.tolist()})


def corr_proj(ctx):
    """project_line_origin / project_triangle_origin / project_tetra_to_origin of both modules vs the model
    (lattice inputs in exact rational arithmetic, general inputs in floats)"""
    from distance3d.gjk import _gjk_nesterov_accelerated as N, _gjk_nesterov_accelerated_primitives as Pm
    names = {2: "project_line_origin", 3: "project_triangle_origin", 4: "project_tetra_to_origin"}
    drv = core.Driver("c09-proj")
    plan = []
    import warnings
    for k in range(ctx.budget(1500, 30000)):
        n = ctx.rng.choice([2, 3, 3, 4, 4, 4])
        stream = "L" if ctx.rng.random() < 0.6 else "G"
        if stream == "L":
            pts = np.array([[ctx.rng.choice([-2.0, -1.0, 0.0, 1.0, 1.0, 2.0, 3.0]) for _ in range(3)] for _ in range(n)])
        else:
            c = np.array([ctx.rng.gauss(0, 1) for _ in range(3)]) * ctx.rng.choice([0.0, 0.5, 2.0])
            pts = np.array([[ctx.rng.gauss(0, 1) for _ in range(3)] for _ in range(n)]) + c
            pts *= 10 ** ctx.rng.uniform(-2, 2)
        res = []
        for mod in (N, Pm):
            arr = np.zeros((4, 3))
            arr[:n] = pts
            with warnings.catch_warnings():
                warnings.simplefilter("ignore")
                ray, ln, inside = getattr(mod, names[n])(arr)
            res.append((np.array(ray, dtype=float), int(ln), bool(inside), arr[:min(int(ln), 4)].copy()))
        if stream == "L":
            cid = drv.add("C09.proj", "Q", [str(n)] + enc_vq(pts))
        else:
            cid = drv.add("C09.proj", "F", [str(n)] + enc_v(pts))
        plan.append((stream, n, pts, res, cid))
    out = drv.run()
    for stream, n, pts, res, cid in plan:
        ctx.count("proj:" + stream, key=("proj", n, pts.tobytes()), sample={"fn": names[n], "points": pts.tolist()})
        o = out.get(cid, "bad missing").split()
        dec = qdec if stream == "L" else h2f
        scale = float(np.max(np.abs(pts))) if pts.size else 1.0
        if o[0] == "err":
            ctx.branch(names[n], "err:" + o[1])
            # numpy divides by zero without raising: the implementation's ray is non-finite
            if not all(np.any(~np.isfinite(r[0])) for r in res):
                ctx.broke("correspondence", names[n], "model %s, impl %s" % (o, [r[0].tolist() for r in res]),
                          {"points": pts.tolist()})
            continue
        ctx.branch(names[n], o[1])
        ln, inside = int(o[2]), o[3] == "1"
        ray = [dec(x) for x in o[4:7]]
        rows = np.array([dec(x) for x in o[7:7 + 3 * min(ln, 4)]]).reshape(-1, 3)
        for which, (pr, pl, pi, prow) in zip(("nesterov", "primitives"), res):
            if pl != ln or pi != inside or not _close(ray, pr, scale) or not _close(rows, prow, scale):
                ctx.broke("correspondence", names[n] + " (" + which + ")",
                          "model len %d inside %s ray %s rows %s; impl len %d inside %s ray %s rows %s"
                          % (ln, inside, ray, rows.tolist(), pl, pi, pr.tolist(), prow.tolist()),
                          {"points": pts.tolist()})
                break


def corr_order(ctx):
    from distance3d.gjk import _gjk_original as O
    drv = core.Driver("c09-order")
    plan = []
    for d1, d2, d3 in itertools.product([0.0, 1.0, 2.0, -1.0], repeat=3):
        si = O.SimplexInfo()
        si.n_simplex_points = 4
        si.dot_product_table[:] = 0.0
        si.dot_product_table[1, 0], si.dot_product_table[2, 0], si.dot_product_table[3, 0] = d1, d2, d3
        want = [int(x) for x in si.nondecreasing_ordered_indices()]
        plan.append((d1, d2, d3, want, drv.add("C09.order", "F", enc_v([d1, d2, d3]))))
    out = drv.run()
    for d1, d2, d3, want, cid in plan:
        ctx.count("order:L", key=("order", d1, d2, d3))
        got = out.get(cid, "bad").split()
        if got[0] != "ok" or [int(x) for x in got[1:]] != want:
            ctx.broke("correspondence", "nondecreasing_ordered_indices", "model %s impl %s" % (got, want),
                      {"d": [d1, d2, d3]})


def exit_of(r, infl):
    """the exit the implementation took, where it can be read off the returned values"""
    if r["it"] >= MAX_ITER and r["raw"] == 0.0 and not r["inside"]:
        return 5
    if r["inside"] and r["raw"] == -infl - 1.0:
        return 4
    if r["inside"] and r["raw"] == -infl and infl != 0.0:
        return 1
    return None


def corr_trace(ctx, scenes):
    """main loops of the two Nesterov modules: the model is run with its support calls answered from
    the recorded run; every queried direction, the exit, inside, distance and iteration count must agree"""
    drv = core.Driver("c09-trace")
    plan = []
    for sc in scenes:
        sa, sb = sc["a"], sc["b"]
        for alg in ("nest0", "nest1", "prim0", "prim1"):
            if not accepts(alg, sa, sb):
                continue
            import warnings
            with warnings.catch_warnings():
                warnings.simplefilter("ignore")
                r = call_alg(alg, sa, sb)
            if not r["ok"]:
                continue       # exceptions are the oracle's business
            tr = r["notes"]["trace"]
            cid = drv.add("C09.trace", "F", trace_tokens(alg, sa, sb, tr))
            plan.append((sc, alg, r, cid))
    out = drv.run()
    redo = []
    for sc, alg, r, cid in plan:
        sa, sb = sc["a"], sc["b"]
        ctx.count("trace:" + sc["stream"], key=("trace", alg, str(sa), str(sb)),
                  sample={"fn": alg, "pair": [sa["type"], sb["type"]], "placement": sc.get("placement")})
        m = parse_trace_out(out.get(cid, "bad missing"))
        # numpy divides by zero silently (omega = x / |0|, ellipsoid support 0/0): such runs carry NaN/inf or a
        # zero search direction; the model reports them as divZero
        nan_run = (any(np.any(~np.isfinite(x)) for t in r["notes"]["trace"] for x in t) or not math.isfinite(r["raw"])
                   or any(float(np.linalg.norm(t[0])) == 0.0 for t in r["notes"]["trace"]))
        if "err" in m:
            ctx.branch(alg, "err")
            # numpy divides by zero silently (omega = x / 0, ellipsoid support 0/0): the run carries NaN/inf
            if not nan_run:
                ctx.broke("correspondence", "gjk_nesterov_accelerated (%s)" % alg, "model %s" % m["err"][:100],
                          {"scene": sc, "alg": alg})
            continue
        ctx.branch(alg, "exit%d" % m["exit"])
        okm, why = model_reproduces(r, m, scene_L(sa, sb))
        ex = exit_of(r, inflation_of(sa, sb))
        if okm and ex is not None and ex != m["exit"]:
            okm, why = False, "exit: impl %d model %d" % (ex, m["exit"])
        if not okm and not nan_run:
            # zero-margin decision: the origin lies on the simplex boundary in exact arithmetic (model: exit 4,
            # origin inside / ray_len == 0) while the floats of the implementation leave a ray of length
            # < tolerance and exit one iteration later through `ray_len < tolerance` (or vice versa): both report
            # an intersection; counted as a tie
            nq = min(len(m["queries"]), len(r["notes"]["trace"]))
            same_prefix = all(float(np.max(np.abs(m["queries"][k] - r["notes"]["trace"][k][0]))) <=
                              1e-9 * max(1.0, scene_L(sa, sb)) for k in range(nq))
            if (same_prefix and m["inside"] and r["inside"] and abs(m["iters"] - r["it"]) <= 1
                    and abs(len(m["queries"]) - len(r["notes"]["trace"])) <= 1):
                ctx.extra["trace_ties_touching"] = ctx.extra.get("trace_ties_touching", 0) + 1
                continue
            redo.append((sc, alg, r, why))
    # arbitration in exact rational arithmetic for runs that differ in floats
    if redo:
        drv = core.Driver("c09-traceq")
        ids = [drv.add("C09.trace", "Q", trace_tokens(alg, sc["a"], sc["b"], r["notes"]["trace"], enc=enc_vq))
               for sc, alg, r, why in redo]
        out = drv.run()
        for (sc, alg, r, why), cid in zip(redo, ids):
            m = parse_trace_out(out.get(cid, "bad missing"), dec=qdec)
            okq, whyq = model_reproduces(r, m, scene_L(sc["a"], sc["b"]))
            if okq:
                ctx.extra["trace_ties"] = ctx.extra.get("trace_ties", 0) + 1
            else:
                ctx.broke("correspondence", "gjk_nesterov_accelerated (%s)" % alg,
                          "float model: %s; exact model: %s" % (why, whyq), {"scene": sc, "alg": alg})


def record_orig(sa, sb):
    """run gjk_distance_original with the sub-algorithm and the support calls recorded"""
    from distance3d.gjk import _gjk_original as O
    A, B = mk(sa), mk(sb)
    subs, supps = [], []
    sub0, find0 = O.distance_subalgorithm_with_backup_procedure, O._find_new_supporting_point

    def entries(simplex):
        n = len(simplex)
        return [(int(simplex.indices_polytope1[k]), int(simplex.indices_polytope2[k]),
                 np.array(simplex.points[k], dtype=float)) for k in range(n)]

    def sub(simplex, solution, backup=False):
        before = (entries(simplex), bool(backup))
        new, bout = sub0(simplex, solution, backup)
        n = len(simplex)
        subs.append({"before": before, "w": np.array(new.barycentric_coordinates[:n], dtype=float),
                     "dir": np.array(new.search_direction, dtype=float), "dsq": float(new.distance_squared),
                     "after": entries(simplex), "backup": bool(bout)})
        return new, bout

    def find(c1, c2, simplex, solution):
        d = np.array(solution.search_direction, dtype=float)
        find0(c1, c2, simplex, solution)
        supps.append((d, np.array(c1.vertices_[-1], dtype=float), np.array(c2.vertices_[-1], dtype=float)))
    v1, v2 = np.array(mk(sa).first_vertex(), dtype=float), np.array(mk(sb).first_vertex(), dtype=float)
    with _Patch(O, distance_subalgorithm_with_backup_procedure=sub, _find_new_supporting_point=find):
        d, p1, p2, simplex, it = O.gjk_distance_original(A, B)
    return {"v1": v1, "v2": v2, "subs": subs, "supps": supps, "d": float(d), "a": np.array(p1, dtype=float),
            "b": np.array(p2, dtype=float), "it": int(it)}


def corr_orig(ctx, scenes):
    """main loop of gjk_distance_original: sub-algorithm and supports answered from the recorded run; the
    simplex handed to the sub-algorithm in every iteration, the search directions and the output must agree"""
    drv = core.Driver("c09-orig")
    plan = []
    for sc in scenes:
        sa, sb = sc["a"], sc["b"]
        try:
            rec = record_orig(sa, sb)
        except Exception:  # noqa
            continue
        t = enc_v(rec["v1"]) + enc_v(rec["v2"]) + [str(len(rec["subs"]))]
        for s in rec["subs"]:
            t += [str(len(s["w"]))] + enc_v(s["w"]) + enc_v(s["dir"]) + enc_v([s["dsq"]]) + [str(len(s["after"]))]
            for i1, i2, p in s["after"]:
                t += [str(i1), str(i2)] + enc_v(p)
            t += ["1" if s["backup"] else "0"]
        t += [str(len(rec["supps"]))]
        for d, p, q in rec["supps"]:
            t += enc_v(p) + enc_v(q)
        plan.append((sc, rec, drv.add("C09.orig", "F", t)))
    out = drv.run()
    for sc, rec, cid in plan:
        sa, sb = sc["a"], sc["b"]
        L = scene_L(sa, sb)
        ctx.count("orig:" + sc["stream"], key=("orig", str(sa), str(sb)),
                  sample={"fn": "gjk_distance_original", "pair": [sa["type"], sb["type"]]})
        o = out.get(cid, "bad missing")
        if not o.startswith("ok"):
            ctx.branch("orig", o.split()[0] + ":" + (o.split()[1] if len(o.split()) > 1 else ""))
            if math.isfinite(rec["d"]):
                ctx.broke("correspondence", "gjk_distance_original", "model %s" % o[:100], {"scene": sc})
            continue
        head, seen = o.split(" ; ", 1) if " ; " in o else (o, "")
        hp = head.split()
        branch, dist = int(hp[1]), h2f(hp[2])
        a = [h2f(x) for x in hp[3:6]]
        b = [h2f(x) for x in hp[6:9]]
        its, nq = int(hp[9]), int(hp[10])
        qs = np.array([h2f(x) for x in hp[11:11 + 3 * nq]]).reshape(-1, 3)
        ctx.branch("orig", "exit%d" % branch)
        bad = None
        if its != rec["it"] or nq != len(rec["supps"]):
            bad = "iterations/support calls: model %d/%d impl %d/%d" % (its, nq, rec["it"], len(rec["supps"]))
        elif not (_close(dist, rec["d"], L) and _close(a, rec["a"], L) and _close(b, rec["b"], L)):
            bad = "output: model %r %s %s impl %r %s %s" % (dist, a, b, rec["d"], rec["a"].tolist(), rec["b"].tolist())
        else:
            for k, (d, _, _) in enumerate(rec["supps"]):
                if not _close(qs[k], d, L):
                    bad = "search direction %d: model %s impl %s" % (k, qs[k].tolist(), d.tolist())
                    break
        if bad is None:
            calls = [c for c in seen.split(" | ")] if seen.strip() else []
            if len(calls) != len(rec["subs"]):
                bad = "sub-algorithm calls: model %d impl %d" % (len(calls), len(rec["subs"]))
            else:
                for k, (c, s) in enumerate(zip(calls, rec["subs"])):
                    cp = c.split()
                    n, bk = int(cp[0]), cp[1] == "1"
                    ent, bin_ = s["before"]
                    if n != len(ent) or bk != bin_:
                        bad = "call %d: model n=%d backup=%s impl n=%d backup=%s" % (k, n, bk, len(ent), bin_)
                        break
                    mod_ent = [(int(cp[2 + 5 * j]), int(cp[3 + 5 * j]), [h2f(x) for x in cp[4 + 5 * j:7 + 5 * j]])
                               for j in range(n)]
                    for j in range(n):
                        i1, i2, p = mod_ent[j]
                        if (i1, i2) != (ent[j][0], ent[j][1]) or not _close(p, ent[j][2], L):
                            bad = "call %d point %d: model (%d,%d,%s) impl (%d,%d,%s)" % (
                                k, j, i1, i2, p, ent[j][0], ent[j][1], ent[j][2].tolist())
                            break
                    if bad and n == 4 and mod_ent[0][:2] == ent[0][:2] and \
                            sorted(e[:2] for e in mod_ent) == sorted(e[:2] for e in ent):
                        # `nondecreasing_ordered_indices` compares dot products with the newest point; when two of
                        # them agree to rounding, numpy's dot and the model's left-to-right dot may order them
                        # differently (the sub-algorithm's answer re-synchronises the next step): a tie
                        dots = {e[:2]: float(np.dot(e[2], ent[0][2])) for e in ent}
                        moved = [e[:2] for j, e in enumerate(ent) if mod_ent[j][:2] != e[:2]]
                        vals = [dots[m_] for m_ in moved]
                        if max(vals) - min(vals) <= 1e-9 * max(1.0, max(abs(v) for v in dots.values())):
                            ctx.extra["orig_order_ties"] = ctx.extra.get("orig_order_ties", 0) + 1
                            bad = None
                    if bad:
                        break
        if bad:
            ctx.broke("correspondence", "gjk_distance_original main loop", bad, {"scene": sc})


def corr_entry(ctx, scenes):
    """public entry points and *_iterations helpers return the plain call's distance / iteration count"""
    for sc in scenes:
        sa, sb = sc["a"], sc["b"]
        for alg in ("orig", "nest0", "prim0"):
            if not accepts(alg, sa, sb):
                continue
            try:
                r = call_alg(alg, sa, sb, trace=False)
                e = call_entry(alg, sa, sb)
            except Exception:  # noqa
                continue
            if not r["ok"]:
                continue
            ctx.count("entry:" + sc["stream"], key=("entry", alg, str(sa), str(sb)))
            same_d = (e[0] == r["d"]) or (math.isnan(e[0]) and math.isnan(r["d"]))
            if not same_d or e[1] != r["it"]:
                ctx.fail("entry points / *_iterations (%s)" % alg, {"scene": sc, "alg": alg},
                         {"entry": list(e), "plain": [r["d"], r["it"]]}, "same distance and iteration count",
                         "entry point vs plain call on fresh colliders")


def scenes_for_corr(ctx, n_per_pair, types=ALLTYPES):
    out = []
    for ta in types:
        for tb in types:
            for _ in range(n_per_pair):
                stream = "L" if ctx.rng.random() < 0.5 else "G"
                out.append(gen_scene(ctx.rng, ta, tb, stream, wild=(stream == "G" and ctx.rng.random() < 0.3)))
    return out


def _I4(t):
    return [[1.0, 0.0, 0.0, t[0]], [0.0, 1.0, 0.0, t[1]], [0.0, 0.0, 1.0, t[2]], [0.0, 0.0, 0.0, 1.0]]


def regression_scenes():
    """witnesses of repaired defects: run first on every check, without any finding id.
    F-nesterov-inflation-generic (repaired in /repo by commit 78b7577): sphere / capsule against a cone,
    both argument orders; before the repair gjk_nesterov_accelerated returned 2.0 for the true distance 3.0"""
    sphere = {"type": "sphere", "center": [0.0, 0.0, 0.0], "radius": 1.0}
    cone = {"type": "cone", "pose": _I4([5.0, 0.0, 0.0]), "radius": 1.0, "height": 2.0}
    capsule = {"type": "capsule", "pose": _I4([0.0, 0.0, 0.0]), "radius": 1.0, "height": 2.0}
    near = {"type": "cone", "pose": _I4([2.5, 0.0, 0.0]), "radius": 1.0, "height": 2.0}   # closer than the radius
    out = []
    for a, b in ((sphere, cone), (cone, sphere), (capsule, cone), (cone, capsule), (sphere, near), (near, capsule)):
        out.append({"a": _copy(a), "b": _copy(b), "placement": "regression", "stream": "R"})
    return out


def load_witnesses():
    out = []
    for k in core.load_known():
        if k.get("property") == "C09" and isinstance(k.get("witness"), dict) and "scene" in k["witness"]:
            out.append((k["id"], k["witness"]))
        for w in k.get("more_witnesses", []) if k.get("property") == "C09" else []:
            out.append((k["id"], w))
    return out


def correspondence(ctx):
    import warnings
    warnings.simplefilter("ignore", RuntimeWarning)
    corr_select(ctx)
    corr_dispatch(ctx)
    corr_proj(ctx)
    corr_order(ctx)
    scenes = [dict(w["scene"], stream="W", placement="witness") for _, w in load_witnesses()]
    scenes += regression_scenes()
    scenes += scenes_for_corr(ctx, ctx.budget(2, 20))
    scenes += [closed_form_scene(ctx.rng, ctx.rng.choice(["L", "G"])) for _ in range(ctx.budget(60, 600))]
    corr_trace(ctx, scenes)
    corr_orig(ctx, scenes[:ctx.budget(250, 3000)])
    corr_entry(ctx, scenes[:ctx.budget(120, 1500)])


# ============================================================================ search
def report(ctx, sc, fails):
    for f in fails:
        args = {"scene": {k: v for k, v in sc.items() if k in ("a", "b", "truth", "witness_points", "placement", "stream")},
                "alg": f["alg"], "use_nesterov_acceleration": f["alg"].endswith("1")}
        exp = {"truth_interval": f["expected"], "tolerance": TOL * scene_L(sc["a"], sc["b"])}
        if f.get("model_note"):
            exp["model"] = f["model_note"]
        fn = {"orig": "gjk_distance_original", "nest": "gjk_nesterov_accelerated",
              "prim": "gjk_nesterov_accelerated_primitives", "orac": "oracle"}[f["alg"][:4]]
        ctx.fail("%s [%s, %s x %s]" % (fn, f["alg"], sc["a"]["type"], sc["b"]["type"]), args,
                 {"kind": f["kind"], "value": f["observed"]}, exp,
                 "certificate interval (own support values, own membership tests) +- 1e-3*L", finding=f["finding"])


def search(ctx):
    import warnings
    warnings.simplefilter("ignore", RuntimeWarning)
    pending = []
    t_end = ctx.t0 + ctx.budget(135, 840)
    boost = 2 if ctx.extra.get("search_boost") else 1

    def run(sc, stream):
        ctx.current_input = {"scene": sc, "stream": stream}     # reported by the phase watchdog if a call never returns
        fails, (lo, up, L) = judge(sc)
        ctx.count("search:" + stream, key=(str(sc["a"]), str(sc["b"])),
                  nontrivial=True, sample={"pair": [sc["a"]["type"], sc["b"]["type"]],
                                           "placement": sc.get("placement"), "truth": [lo, up]})
        if up - lo > TIGHT * L:
            ctx.extra["loose_intervals"] = ctx.extra.get("loose_intervals", 0) + 1
        for f in fails:
            pending.append((sc, f))

    # 1. recorded witnesses first
    for fid, w in load_witnesses():
        run(dict(w["scene"], placement="witness", stream="W"), "W")
    for sc in regression_scenes():
        run(sc, "R")
    # 2. constructed closed forms
    for _ in range(ctx.budget(600, 6000) * boost):
        st = ctx.rng.choice(["L", "G"])
        run(closed_form_scene(ctx.rng, st), st)
    # 3. every ordered type pair: lattice and general placements, overlapping pairs, wild aspect ratios
    reps = ctx.budget(16, 80) * boost
    for rep in range(reps):
        for ta in ALLTYPES:
            for tb in ALLTYPES:
                if ctx.tier == "quick" and (ctx.rng.random() < 0.0 or __import__("time").time() > t_end):
                    break
                st = "L" if rep % 2 == 0 else "G"
                run(gen_scene(ctx.rng, ta, tb, st, wild=(st == "G" and rep % 4 == 3)), st)
                if rep % 4 == 1:
                    run(overlap_scene(ctx.rng, ta, tb), "G")
    confirm_with_model(pending)
    ctx.extra["failures_by_finding"] = {}
    for sc, f in pending:
        key = f["finding"] or "unclassified"
        ctx.extra["failures_by_finding"][key] = ctx.extra["failures_by_finding"].get(key, 0) + 1
    # unclassified first so that the replay file names a new violation, not a known one
    pending.sort(key=lambda p: 0 if p[1]["finding"] is None else 1)
    seen_cls = {}
    for sc, f in pending:
        cls = (f["finding"], f["alg"], sc["a"]["type"], sc["b"]["type"])
        seen_cls[cls] = seen_cls.get(cls, 0) + 1
        if f["finding"] is not None and seen_cls[cls] > 2:
            continue       # enough examples of this recorded class
        report(ctx, sc, [f])
    ctx.extra["failure_classes"] = {"%s|%s|%s|%s" % k: v for k, v in sorted(seen_cls.items(), key=str)}


def replay(ctx, payload):
    import warnings
    warnings.simplefilter("ignore", RuntimeWarning)
    args = payload.get("args") or {}
    sc = args.get("scene")
    if sc is None:
        for b in payload.get("broken", []):
            si = b.get("seed_input") or {}
            if "scene" in si:
                sc = si["scene"]
                break
    if sc is None:
        print("replay file names no scene:", str(payload.get("broken"))[:500])
        return False
    fails, (lo, up, L) = judge(dict(sc))
    confirm_with_model([(sc, f) for f in fails])
    print("scene: %s x %s, L = %g, true distance in [%r, %r], tolerance %g" % (sc["a"]["type"], sc["b"]["type"], L, lo, up, TOL * L))
    for alg in ALGS:
        if accepts(alg, sc["a"], sc["b"]):
            r = call_alg(alg, sc["a"], sc["b"], trace=False)
            print("  %-6s -> %s" % (alg, {k: (v.tolist() if hasattr(v, "tolist") else v) for k, v in r.items() if k != "notes"}))
    for f in fails:
        print("FAIL %s: %s observed %s expected %s finding=%s %s" % (f["alg"], f["kind"], f["observed"], f["expected"],
                                                                   f["finding"], f.get("model_note", "")))
    return not fails
