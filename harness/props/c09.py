"""C09 — alternative distance algorithms (original GJK, Nesterov-accelerated GJK, its primitives
variant) agree with the true distance.

Python half of the vertical: collider scene generators (lattice / general), an oracle that is
independent of the library's GJK code (closed forms + certificate interval from own support
values and own membership tests), correspondence of the Lean model pieces (D3.Model.Nesterov)
with the implementation on recorded traces, failing-input search, replay.
"""
import itertools
import math

import numpy as np

import core
from core import f2h, h2f

TOL = 1e-3          # the property's tolerance factor (times L)
TIGHT = 1e-6        # the certificate interval is called tight below TIGHT * L

# ============================================================================ collider specs
# A spec is a JSON-able dict; `mk` builds a *fresh* real collider from it (MeshGraph caches the
# last support vertex, so objects are never reused between calls).
GENERIC = ("cone", "disk", "ellipse", "mesh", "hull", "margin")
SPECIAL = ("sphere", "capsule", "box", "ellipsoid", "cylinder")
ALLTYPES = SPECIAL + GENERIC
INFLATED = ("sphere", "capsule")


def _pose(R, t):
    A = np.eye(4)
    A[:3, :3] = np.asarray(R, dtype=float)
    A[:3, 3] = np.asarray(t, dtype=float)
    return A


def mk(spec):
    from distance3d import colliders as C
    t = spec["type"]
    arr = lambda k: np.ascontiguousarray(np.array(spec[k], dtype=float))  # noqa
    if t == "sphere":
        return C.Sphere(arr("center"), float(spec["radius"]))
    if t == "capsule":
        return C.Capsule(arr("pose"), float(spec["radius"]), float(spec["height"]))
    if t == "box":
        return C.Box(arr("pose"), arr("size"))
    if t == "ellipsoid":
        return C.Ellipsoid(arr("pose"), arr("radii"))
    if t == "cylinder":
        return C.Cylinder(arr("pose"), float(spec["radius"]), float(spec["length"]))
    if t == "cone":
        return C.Cone(arr("pose"), float(spec["radius"]), float(spec["height"]))
    if t == "disk":
        return C.Disk(arr("center"), float(spec["radius"]), arr("normal"))
    if t == "ellipse":
        return C.Ellipse(arr("center"), arr("axes"), arr("radii"))
    if t == "mesh":
        return C.MeshGraph(arr("pose"), arr("vertices"), np.array(spec["triangles"], dtype=int))
    if t == "hull":
        return C.ConvexHullVertices(arr("vertices"))
    if t == "margin":
        return C.Margin(mk(spec["inner"]), float(spec["margin"]))
    raise ValueError(t)


def tname(spec):
    return spec["type"]


def pose_of(spec):
    """(R, t) of the local frame used by the own support values / membership tests"""
    t = spec["type"]
    if t in ("sphere",):
        return np.eye(3), np.array(spec["center"], dtype=float)
    if t in ("capsule", "box", "ellipsoid", "cylinder", "cone", "mesh"):
        A = np.array(spec["pose"], dtype=float)
        return A[:3, :3], A[:3, 3]
    raise ValueError(t)


def world_vertices(spec):
    if spec["type"] == "hull":
        return np.array(spec["vertices"], dtype=float)
    R, t = pose_of(spec)
    return np.array(spec["vertices"], dtype=float).dot(R.T) + t


def centre(spec):
    t = spec["type"]
    if t in ("sphere", "disk", "ellipse"):
        return np.array(spec["center"], dtype=float)
    if t in ("capsule", "box", "ellipsoid", "cylinder"):
        return np.array(spec["pose"], dtype=float)[:3, 3]
    if t == "cone":
        A = np.array(spec["pose"], dtype=float)
        return A[:3, 3] + 0.5 * spec["height"] * A[:3, 2]
    if t in ("mesh", "hull"):
        return world_vertices(spec).mean(axis=0)
    if t == "margin":
        return centre(spec["inner"])
    raise ValueError(t)


def feature_sizes(spec):
    t = spec["type"]
    if t == "sphere":
        return [spec["radius"]]
    if t == "capsule":
        return [spec["radius"], spec["height"]]
    if t == "box":
        return list(spec["size"])
    if t == "ellipsoid":
        return list(spec["radii"])
    if t == "cylinder":
        return [spec["radius"], spec["length"]]
    if t == "cone":
        return [spec["radius"], spec["height"]]
    if t == "disk":
        return [spec["radius"]]
    if t == "ellipse":
        return list(spec["radii"])
    if t in ("mesh", "hull"):
        v = world_vertices(spec)
        return [float(np.max(v.max(axis=0) - v.min(axis=0)))]
    if t == "margin":
        return feature_sizes(spec["inner"]) + [spec["margin"]]
    raise ValueError(t)


def scene_L(sa, sb):
    return max([1.0, float(np.linalg.norm(centre(sa) - centre(sb)))] + [float(x) for x in feature_sizes(sa)]
               + [float(x) for x in feature_sizes(sb)])


# ---------------------------------------------------------------------------- own support values
def hval(spec, d):
    """h_K(d) = max_{x in K} <d, x>, closed form, no library code"""
    d = np.asarray(d, dtype=float)
    t = spec["type"]
    if t == "sphere":
        return float(np.dot(d, spec["center"]) + spec["radius"] * np.linalg.norm(d))
    if t == "hull" or t == "mesh":
        return float(np.max(world_vertices(spec).dot(d)))
    if t == "margin":
        return hval(spec["inner"], d) + spec["margin"] * float(np.linalg.norm(d))
    if t == "disk":
        c = np.array(spec["center"], dtype=float)
        n = np.array(spec["normal"], dtype=float)
        dp = d - np.dot(d, n) * n
        return float(np.dot(d, c) + spec["radius"] * np.linalg.norm(dp))
    if t == "ellipse":
        c = np.array(spec["center"], dtype=float)
        ax = np.array(spec["axes"], dtype=float)
        r = spec["radii"]
        return float(np.dot(d, c) + math.hypot(r[0] * np.dot(d, ax[0]), r[1] * np.dot(d, ax[1])))
    R, tt = pose_of(spec)
    ld = R.T.dot(d)
    base = float(np.dot(d, tt))
    if t == "capsule":
        return base + 0.5 * spec["height"] * abs(ld[2]) + spec["radius"] * float(np.linalg.norm(d))
    if t == "box":
        s = spec["size"]
        return base + 0.5 * (s[0] * abs(ld[0]) + s[1] * abs(ld[1]) + s[2] * abs(ld[2]))
    if t == "ellipsoid":
        r = spec["radii"]
        return base + math.sqrt((r[0] * ld[0]) ** 2 + (r[1] * ld[1]) ** 2 + (r[2] * ld[2]) ** 2)
    if t == "cylinder":
        return base + 0.5 * spec["length"] * abs(ld[2]) + spec["radius"] * math.hypot(ld[0], ld[1])
    if t == "cone":
        return base + max(spec["height"] * ld[2], spec["radius"] * math.hypot(ld[0], ld[1]))
    raise ValueError(t)


# ---------------------------------------------------------------------------- own membership
def _seg_dist(p, a, b):
    ab = b - a
    den = float(np.dot(ab, ab))
    s = 0.0 if den == 0.0 else min(1.0, max(0.0, float(np.dot(p - a, ab)) / den))
    return float(np.linalg.norm(p - (a + s * ab)))


def _tri2d_dist(p, tri):
    """distance of a 2-D point to a (ccw or cw) triangle, 0 inside"""
    p = np.asarray(p, dtype=float)
    tri = [np.asarray(v, dtype=float) for v in tri]
    sgn = []
    for i in range(3):
        a, b = tri[i], tri[(i + 1) % 3]
        sgn.append((b[0] - a[0]) * (p[1] - a[1]) - (b[1] - a[1]) * (p[0] - a[0]))
    if all(s >= 0 for s in sgn) or all(s <= 0 for s in sgn):
        return 0.0
    return min(_seg_dist(p, tri[i], tri[(i + 1) % 3]) for i in range(3))


def _ellipse_excess(q, radii):
    """upper bound of the distance of q to the solid {sum (q_i/r_i)^2 <= 1} (radial projection)"""
    s = math.sqrt(sum((qi / ri) ** 2 for qi, ri in zip(q, radii)))
    if s <= 1.0:
        return 0.0
    return float(np.linalg.norm(q)) * (1.0 - 1.0 / s)


def _hull_excess(V, p):
    """upper bound of dist(p, conv V): an explicit convex combination found by NNLS"""
    from scipy.optimize import nnls
    V = np.asarray(V, dtype=float)
    c = V.mean(axis=0)
    scale = max(1e-300, float(np.max(np.abs(V - c))), float(np.max(np.abs(p - c))))
    M = 1e3
    A = np.vstack([((V - c) / scale).T, M * np.ones((1, len(V)))])
    b = np.concatenate([(p - c) / scale, [M]])
    w, _ = nnls(A, b, maxiter=50 * len(V) + 200)
    s = w.sum()
    if not (s > 0):
        return float(np.min(np.linalg.norm(V - p, axis=1)))
    w = w / s
    q = w.dot(V)
    return float(np.linalg.norm(p - q))


def excess(spec, p):
    """an upper bound of dist(p, K) (0 when p is found inside); never an under-estimate"""
    p = np.asarray(p, dtype=float)
    t = spec["type"]
    if t == "sphere":
        return max(0.0, float(np.linalg.norm(p - np.array(spec["center"]))) - spec["radius"])
    if t in ("hull", "mesh"):
        return _hull_excess(world_vertices(spec), p)
    if t == "margin":
        return max(0.0, excess(spec["inner"], p) - spec["margin"])
    if t == "disk":
        c = np.array(spec["center"], dtype=float)
        n = np.array(spec["normal"], dtype=float)
        w = float(np.dot(p - c, n))
        rho = float(np.linalg.norm(p - c - w * n))
        return math.hypot(w, max(0.0, rho - spec["radius"]))
    if t == "ellipse":
        c = np.array(spec["center"], dtype=float)
        ax = np.array(spec["axes"], dtype=float)
        u, v = float(np.dot(p - c, ax[0])), float(np.dot(p - c, ax[1]))
        w = float(np.dot(p - c, np.cross(ax[0], ax[1])))
        return math.hypot(w, _ellipse_excess([u, v], spec["radii"]))
    R, tt = pose_of(spec)
    q = R.T.dot(p - tt)
    if t == "capsule":
        h = 0.5 * spec["height"]
        return max(0.0, _seg_dist(q, np.array([0, 0, -h]), np.array([0, 0, h])) - spec["radius"])
    if t == "box":
        s = spec["size"]
        return math.sqrt(sum(max(0.0, abs(q[i]) - 0.5 * s[i]) ** 2 for i in range(3)))
    if t == "ellipsoid":
        return _ellipse_excess(q, spec["radii"])
    if t == "cylinder":
        return math.hypot(max(0.0, abs(q[2]) - 0.5 * spec["length"]),
                          max(0.0, math.hypot(q[0], q[1]) - spec["radius"]))
    if t == "cone":
        r, h = spec["radius"], spec["height"]
        return _tri2d_dist([math.hypot(q[0], q[1]), q[2]], [[-r, 0.0], [r, 0.0], [0.0, h]])
    raise ValueError(t)


# ---------------------------------------------------------------------------- certificate interval
def sep_value(sa, sb, n):
    """weak duality: for a unit n, dist(A, B) >= -h_A(-n) - h_B(n)"""
    return -hval(sa, -n) - hval(sb, n)


def truth_interval(sa, sb, cands):
    """[lower, upper] containing dist(A, B); cands = list of point pairs (a, b) of any origin."""
    upper = math.inf
    lower = 0.0
    dirs = []
    for a, b in cands:
        a = np.asarray(a, dtype=float)
        b = np.asarray(b, dtype=float)
        if not (np.all(np.isfinite(a)) and np.all(np.isfinite(b))):
            continue
        ea, eb = excess(sa, a), excess(sb, b)
        dab = float(np.linalg.norm(a - b))
        upper = min(upper, dab + ea + eb)
        if dab > 0:
            dirs.append((a - b) / dab)
    cc = centre(sa) - centre(sb)
    if np.linalg.norm(cc) > 0:
        dirs.append(cc / np.linalg.norm(cc))
    for n in dirs:
        n = n / np.linalg.norm(n)
        lower = max(lower, sep_value(sa, sb, n))
    return lower, upper


# ============================================================================ generators
def rand_rot(rng):
    q = np.array([rng.gauss(0, 1) for _ in range(4)])
    q /= np.linalg.norm(q)
    w, x, y, z = q
    return np.array([[1 - 2 * (y * y + z * z), 2 * (x * y - z * w), 2 * (x * z + y * w)],
                     [2 * (x * y + z * w), 1 - 2 * (x * x + z * z), 2 * (y * z - x * w)],
                     [2 * (x * z - y * w), 2 * (y * z + x * w), 1 - 2 * (x * x + y * y)]])


_PERMS = []
for _p in itertools.permutations(range(3)):
    for _s in itertools.product((1, -1), repeat=3):
        _M = np.zeros((3, 3))
        for _i in range(3):
            _M[_i, _p[_i]] = _s[_i]
        if np.linalg.det(_M) > 0:
            _PERMS.append(_M)
_R345 = [np.array([[0.6, -0.8, 0], [0.8, 0.6, 0], [0, 0, 1.0]]),
         np.array([[1.0, 0, 0], [0, 0.6, -0.8], [0, 0.8, 0.6]]),
         np.array([[0.6, 0, 0.8], [0, 1.0, 0], [-0.8, 0, 0.6]]),
         np.array([[0.28, -0.96, 0], [0.96, 0.28, 0], [0, 0, 1.0]])]


def lattice_rot(rng):
    r = rng.random()
    if r < 0.45:
        return np.eye(3)
    if r < 0.8:
        return rng.choice(_PERMS).copy()
    return rng.choice(_R345).dot(rng.choice(_PERMS))


_TETRA = ([[1, 1, 1], [1, -1, -1], [-1, 1, -1], [-1, -1, 1]], [[0, 1, 2], [0, 3, 1], [0, 2, 3], [1, 3, 2]])
_OCTA = ([[1, 0, 0], [-1, 0, 0], [0, 1, 0], [0, -1, 0], [0, 0, 1], [0, 0, -1]],
         [[0, 2, 4], [2, 1, 4], [1, 3, 4], [3, 0, 4], [2, 0, 5], [1, 2, 5], [3, 1, 5], [0, 3, 5]])
_CUBE = ([[-1, -1, -1], [1, -1, -1], [1, 1, -1], [-1, 1, -1], [-1, -1, 1], [1, -1, 1], [1, 1, 1], [-1, 1, 1]],
         [[0, 2, 1], [0, 3, 2], [4, 5, 6], [4, 6, 7], [0, 1, 5], [0, 5, 4], [1, 2, 6], [1, 6, 5],
          [2, 3, 7], [2, 7, 6], [3, 0, 4], [3, 4, 7]])


def random_convex_mesh(rng, scale, n=None):
    from scipy.spatial import ConvexHull
    n = n or rng.choice([4, 6, 8, 12, 20])
    for _ in range(20):
        pts = np.array([[rng.gauss(0, 1) for _ in range(3)] for _ in range(n)])
        pts /= np.linalg.norm(pts, axis=1)[:, None]
        pts *= np.array([rng.uniform(0.5, 1.0) for _ in range(3)]) * 0.5 * scale
        try:
            ch = ConvexHull(pts)
        except Exception:
            continue
        if len(ch.vertices) != n:
            continue
        return pts.tolist(), ch.simplices.tolist()
    v, t = _OCTA
    return (0.5 * scale * np.array(v, dtype=float)).tolist(), t


def gen_shape(rng, typ, stream, scale=None, wild=False):
    """local shape parameters (no placement); sizes are feature sizes in [1e-2, 1e2]"""
    if stream == "L":
        pick = lambda: rng.choice([0.5, 1.0, 1.0, 2.0, 4.0])  # noqa
    else:
        if scale is None:
            scale = 10 ** rng.uniform(-2, 2)
        if wild:
            pick = lambda: 10 ** rng.uniform(-2, 2)  # noqa
        else:
            pick = lambda: min(100.0, max(0.01, scale * rng.uniform(0.5, 2.0)))  # noqa
    if typ == "sphere":
        return {"type": typ, "radius": pick()}
    if typ == "capsule":
        return {"type": typ, "radius": pick(), "height": pick()}
    if typ == "box":
        return {"type": typ, "size": [pick(), pick(), pick()]}
    if typ == "ellipsoid":
        return {"type": typ, "radii": [pick(), pick(), pick()]}
    if typ == "cylinder":
        return {"type": typ, "radius": pick(), "length": pick()}
    if typ == "cone":
        return {"type": typ, "radius": pick(), "height": pick()}
    if typ == "disk":
        return {"type": typ, "radius": pick()}
    if typ == "ellipse":
        return {"type": typ, "radii": [pick(), pick()]}
    if typ in ("mesh", "hull"):
        if stream == "L":
            v, t = rng.choice([_TETRA, _OCTA, _CUBE])
            s = rng.choice([0.5, 1.0, 2.0])
            return {"type": typ, "vertices": (s * np.array(v, dtype=float)).tolist(), "triangles": t}
        v, t = random_convex_mesh(rng, pick())
        return {"type": typ, "vertices": v, "triangles": t}
    if typ == "margin":
        inner = gen_shape(rng, rng.choice(["sphere", "box", "cone", "capsule", "cylinder", "hull"]), stream, scale, wild)
        m = rng.choice([0.25, 0.5, 1.0]) if stream == "L" else min(100.0, max(0.01, 0.2 * min(feature_sizes_local(inner))))
        return {"type": typ, "inner": inner, "margin": m}
    raise ValueError(typ)


def feature_sizes_local(shape):
    t = shape["type"]
    if t in ("mesh", "hull"):
        v = np.array(shape["vertices"], dtype=float)
        return [float(np.max(v.max(axis=0) - v.min(axis=0)))]
    if t == "margin":
        return feature_sizes_local(shape["inner"]) + [shape["margin"]]
    out = []
    for k in ("radius", "height", "length"):
        if k in shape:
            out.append(shape[k])
    for k in ("size", "radii"):
        if k in shape:
            out += list(shape[k])
    return out


def place(shape, R, t):
    """put a local shape at pose (R, t): the local origin goes to t"""
    R = np.asarray(R, dtype=float)
    t = np.asarray(t, dtype=float)
    typ = shape["type"]
    s = dict(shape)
    if typ == "sphere":
        s["center"] = t.tolist()
    elif typ in ("capsule", "box", "ellipsoid", "cylinder", "cone", "mesh"):
        s["pose"] = _pose(R, t).tolist()
    elif typ == "disk":
        s["center"] = t.tolist()
        s["normal"] = R[:, 2].tolist()
    elif typ == "ellipse":
        s["center"] = t.tolist()
        s["axes"] = [R[:, 0].tolist(), R[:, 1].tolist()]
    elif typ == "hull":
        s["vertices"] = (np.array(shape["vertices"], dtype=float).dot(R.T) + t).tolist()
        s.pop("triangles", None)
    elif typ == "margin":
        s["inner"] = place(shape["inner"], R, t)
    return s


def local_centre(shape):
    """centre of the placed shape relative to its local origin, in local coordinates"""
    typ = shape["type"]
    if typ == "cone":
        return np.array([0.0, 0.0, 0.5 * shape["height"]])
    if typ in ("mesh", "hull"):
        return np.array(shape["vertices"], dtype=float).mean(axis=0)
    if typ == "margin":
        return local_centre(shape["inner"])
    return np.zeros(3)


def place_centred(shape, R, c):
    """place so that the *centre* of the shape is at c"""
    return place(shape, R, np.asarray(c, dtype=float) - np.asarray(R).dot(local_centre(shape)))


PLACEMENTS_G = ["gap", "gap", "gap", "near", "far", "deep", "nested", "identical", "graze"]
PLACEMENTS_L = ["touch", "touch", "axis", "axis", "nested", "identical", "coplanar", "overlap", "gap"]


def gen_scene(rng, ta, tb, stream, placement=None, wild=False):
    """-> dict(a=spec, b=spec, placement=..., stream=...). Scenes stay inside the declared domain
    (sizes in [1e-2, 1e2], everything within 1e3 of the origin)."""
    if stream == "L":
        sha, shb = gen_shape(rng, ta, "L"), gen_shape(rng, tb, "L")
        placement = placement or rng.choice(PLACEMENTS_L)
        Ra, Rb = lattice_rot(rng), lattice_rot(rng)
        ca = np.array([rng.choice([-2.0, -1.0, 0.0, 0.0, 0.5, 1.0, 3.0]) for _ in range(3)])
        if placement == "identical":
            a = place_centred(sha, Ra, ca)
            return {"a": a, "b": _copy(a), "placement": placement, "stream": stream}
        if placement == "nested":
            cb = ca
        elif placement == "overlap":
            cb = ca + np.array([rng.choice([-0.5, 0.0, 0.25, 0.5]) for _ in range(3)])
        elif placement == "coplanar":
            cb = ca + np.array([rng.choice([-4.0, -2.0, -1.0, 1.0, 2.0, 4.0]), rng.choice([-1.0, 0.0, 0.5]), 0.0])
        else:
            a0 = place_centred(sha, Ra, ca)
            b0 = place_centred(shb, Rb, ca)
            ax = rng.choice([0, 1, 2])
            sg = rng.choice([1.0, -1.0])
            u = np.zeros(3)
            u[ax] = sg
            # B moved along u until the supporting planes orthogonal to u touch (+ a dyadic gap)
            shift = hval(a0, u) + hval(b0, -u)
            gap = 0.0 if placement == "touch" else rng.choice([0.0, 0.25, 0.5, 1.0, 2.0, 8.0])
            off = np.zeros(3)
            if placement == "axis":
                off[(ax + 1) % 3] = rng.choice([0.0, 0.0, 0.25, -0.5])
            cb = ca + (shift + gap) * u + off
        return {"a": place_centred(sha, Ra, ca), "b": place_centred(shb, Rb, cb),
                "placement": placement, "stream": stream}
    # ---- general stream
    placement = placement or rng.choice(PLACEMENTS_G)
    scale = 10 ** rng.uniform(-2, 2)
    sha = gen_shape(rng, ta, "G", scale, wild)
    shb = gen_shape(rng, tb, "G", scale * (1.0 if rng.random() < 0.6 else 10 ** rng.uniform(-1, 1)), wild)
    Ra, Rb = rand_rot(rng), rand_rot(rng)
    far = placement == "far"
    cmax = 400.0 if far else 50.0
    ca = np.array([rng.uniform(-cmax, cmax) for _ in range(3)])
    if placement == "identical":
        a = place_centred(sha, Ra, ca)
        return {"a": a, "b": _copy(a), "placement": placement, "stream": stream}
    a0 = place_centred(sha, Ra, ca)
    b0 = place_centred(shb, Rb, ca)
    u = np.array([rng.gauss(0, 1) for _ in range(3)])
    u /= np.linalg.norm(u)
    shift = hval(a0, u) + hval(b0, -u)
    size = max(feature_sizes(a0) + feature_sizes(b0))
    if placement == "nested":
        cb = ca + 0.05 * min(feature_sizes(a0) + feature_sizes(b0)) * u
    elif placement == "deep":
        cb = ca + rng.uniform(0.1, 0.8) * shift * u
    elif placement == "graze":
        cb = ca + (shift + rng.choice([-1, 1]) * 10 ** rng.uniform(-9, -4) * size) * u
    elif placement == "near":
        cb = ca + (shift + 10 ** rng.uniform(-4, -1) * size) * u
    elif placement == "far":
        cb = ca + (shift + rng.uniform(50.0, 600.0)) * u
    else:
        cb = ca + (shift + 10 ** rng.uniform(-1, 1) * size) * u
    # stay within 1e3 of the origin
    if np.linalg.norm(cb) > 950.0:
        cb = cb * (950.0 / np.linalg.norm(cb))
    return {"a": a0, "b": place_centred(shb, Rb, cb), "placement": placement, "stream": stream}


def _copy(spec):
    import json
    return json.loads(json.dumps(spec))


# ============================================================================ implementation calls
ALGS = ("orig", "nest0", "nest1", "prim0", "prim1")


def accepts(alg, sa, sb):
    if alg.startswith("prim"):
        return sa["type"] in SPECIAL and sb["type"] in SPECIAL
    return True


class _Patch:
    """temporarily replace module-level functions (interpreted engine: calls go through the module dict)"""

    def __init__(self, mod, **repl):
        self.mod, self.repl, self.old = mod, repl, {}

    def __enter__(self):
        for k, v in self.repl.items():
            self.old[k] = getattr(self.mod, k)
            setattr(self.mod, k, v)
        return self

    def __exit__(self, *a):
        for k, v in self.old.items():
            setattr(self.mod, k, v)


def _bary3(p, a, b, c):
    """barycentric coordinates of the projection of p on the plane of (a, b, c)"""
    v0, v1, v2 = b - a, c - a, p - a
    d00, d01, d11 = v0.dot(v0), v0.dot(v1), v1.dot(v1)
    d20, d21 = v2.dot(v0), v2.dot(v1)
    den = d00 * d11 - d01 * d01
    if den == 0:
        return None
    v = (d11 * d20 - d01 * d21) / den
    w = (d00 * d21 - d01 * d20) / den
    return 1.0 - v - w, v, w


def call_alg(alg, sa, sb, trace=True):
    """run one algorithm on fresh colliders.
    -> dict(ok, d, [raw, inside], [a, b], it, notes) or dict(ok=False, err, msg).
    notes (diagnostic observations taken by wrapping module-level functions, used only to
    *classify* a failure, never to judge it):
      'pre'      original GJK: the two points computed by compute_point before the tetrahedron
                 branch overwrites them with their midpoint
      'extrap'   Nesterov: number of project_* results that are not convex combinations of the
                 simplex points (origin_to_segment with t outside [0,1], origin_to_triangle with the
                 foot point outside the triangle)"""
    from distance3d.gjk import _gjk_original as O, _gjk_nesterov_accelerated as N, \
        _gjk_nesterov_accelerated_primitives as Pm
    notes = {}
    try:
        A, B = mk(sa), mk(sb)
        if alg == "orig":
            pre = []
            cp0 = O.compute_point

            def cp(vc, bc, idx):
                r = cp0(vc, bc, idx)
                pre.append(np.array(r, dtype=float))
                return r
            with _Patch(O, **({"compute_point": cp} if trace else {})):
                d, p1, p2, simplex, it = O.gjk_distance_original(A, B)
            if len(pre) == 2:
                notes["pre"] = pre
            return {"ok": True, "d": float(d), "a": np.array(p1, dtype=float), "b": np.array(p2, dtype=float),
                    "it": int(it), "notes": notes}
        acc = alg.endswith("1")
        mod = N if alg.startswith("nest") else Pm
        fn = N.gjk_nesterov_accelerated if alg.startswith("nest") else Pm.gjk_nesterov_accelerated_primitives
        cnt = {"extrap": 0}
        seg0, tri0 = mod.origin_to_segment, mod.origin_to_triangle

        def seg(simplex, a, b, ab, ab_dot_a0):
            den = float(ab.dot(ab))
            if den > 0:
                t = float(ab_dot_a0) / den
                if t > 1.0 + 1e-9 or t < -1e-9:
                    cnt["extrap"] += 1
            return seg0(simplex, a, b, ab, ab_dot_a0)

        def tri(simplex, a, b, c, abc, abc_dot_a0):
            a_, b_, c_ = np.array(a), np.array(b), np.array(c)
            bc = _bary3(np.zeros(3), a_, b_, c_)
            if bc is not None and min(bc) < -1e-9:
                cnt["extrap"] += 1
            return tri0(simplex, a, b, c, abc, abc_dot_a0)
        with _Patch(mod, **({"origin_to_segment": seg, "origin_to_triangle": tri} if trace else {})):
            inside, dist, simplex, it = fn(A, B, use_nesterov_acceleration=acc)
        notes["extrap"] = cnt["extrap"]
        return {"ok": True, "d": max(float(dist), 0.0), "raw": float(dist), "inside": bool(inside), "it": int(it),
                "notes": notes}
    except Exception as e:  # noqa
        return {"ok": False, "err": type(e).__name__, "msg": str(e)[:200], "notes": notes}


def call_entry(alg, sa, sb):
    """the public entry points and *_iterations helpers (default flags) -> (distance, iterations)"""
    from distance3d.gjk import _gjk_original as O, _gjk_nesterov_accelerated as N, \
        _gjk_nesterov_accelerated_primitives as Pm
    if alg == "orig":
        return float(O.gjk_distance_original(mk(sa), mk(sb))[0]), int(O.gjk_distance_iterations(mk(sa), mk(sb)))
    if alg == "nest0":
        return (float(N.gjk_nesterov_accelerated_distance(mk(sa), mk(sb))),
                int(N.gjk_nesterov_accelerated_iterations(mk(sa), mk(sb))))
    if alg == "prim0":
        return (float(Pm.gjk_nesterov_accelerated_primitives_distance(mk(sa), mk(sb))),
                int(Pm.gjk_nesterov_accelerated_primitives_iterations(mk(sa), mk(sb))))
    return None


def reference_points(sa, sb):
    """candidate closest point pairs from the library's Jolt GJK (only *candidates*: they are
    verified by own membership tests and own support values before they bound anything)"""
    from distance3d.gjk._gjk_jolt import gjk_distance_jolt
    out = []
    try:
        d, p1, p2, _ = gjk_distance_jolt(mk(sa), mk(sb), max_distance_squared=1e300)
        out.append((np.array(p1, dtype=float), np.array(p2, dtype=float)))
    except Exception:  # noqa
        pass
    return out
