"""C08 — MPR penetration: depth / direction / contact position of mpr.mpr_penetration.

correspondence: the Lean model D3/Model/MprPen.lean is compared step-wise with the module-level
functions of distance3d.mpr on *recorded traces* of real runs (the functions are wrapped in
interpreted mode, inputs/outputs recorded) and end-to-end with the support queries answered
from the recorded trace;
search: an oracle that does not use the model: own support mappings of every collider type, the
penetration depth of the Minkowski difference enclosed between an inner polytope
(scipy ConvexHull of support points: lower bound) and sampled support values (upper bound),
translate-and-requery for the residual overlap, separating-plane certificates for the
contact position.
"""
import math

import numpy as np

import core
from core import f2h, h2f

TOLK = 2e-3          # the property's tolerance factor (portal tolerance): k * L
GAPK = 1e-3          # pairs with gap >= GAPK * L must be reported as not intersecting
CORR = 1e-9          # correspondence allowance (F mode), times scale

RULE = ("one case = one collider pair (types sphere/ellipsoid/capsule/cylinder/cone/box/disk/ellipse/hull/mesh) with "
        "concrete poses and sizes from one PRNG; streams: lattice (axis-aligned / signed-permutation poses, dyadic sizes "
        "and offsets, exact depths, exactly touching, concentric, identical), general (random unit-quaternion poses, sizes "
        "1e-2..1e2, offsets to 1e3, prescribed overlap along a random direction, nested, deep, separated by a "
        "prescribed gap), edge (coplanar flat shapes, identical pairs, degenerate portals); a case is non-trivial unless "
        "both poses are the identity; distinct = distinct scene; step cases = recorded calls of the modelled functions")
EXPLANATION = ("the theorems are about the Lean model of _find_penetration_info/_penetration_info/_contact_position/"
               "_find_penetration_touch/_find_penetration_segment with abstract support mappings; this run feeds "
               "recorded inputs of those very functions to the model (one step each, 1e-9*scale) and re-runs whole "
               "mpr_penetration calls in the model with the support answers taken from the trace; the oracle checks the "
               "property itself on the real code with rigorous two-sided bounds of the penetration depth")
PARTIAL = {
    "iteration_cap_exit": "exit 1 of _find_penetration_info (iterations > max_iterations): no accuracy statement is proved "
                          "for it (depth_ge_true_minus_tol / residual_le_tol assume i.exit = 0); depth_nonneg, "
                          "direction_unit_or_zero, contact_bary do cover it",
    "degenerate_portal": "final portal triangle of zero area (norm_vector returns the zero vector, _portal_reach_tolerance "
                         "is then trivially true): the accuracy theorems (depth_ge_true_minus_tol, residual_le_tol) "
                         "assume Nondegenerate i.portal. Reachable with the DEFAULT max_iterations: the regression scene "
                         "F-mpr-degenerate-portal-nan (exactly touching box / mesh) runs _discover_portal into its cap and gets a "
                         "portal with v[1] == v[3] (C02 mpr_iteration_cap_exit describes that portal). What IS proved there "
                         "since the repair 045c18e: contact_position_total (no division by zero any more), "
                         "contact_degenerate_portal (branch 2: the position is the midpoint of the pre-images a in A, b in B of "
                         "the portal row closest to the origin, within |v|/2 of both colliders, in A and B when that row is "
                         "the origin), degenerate_portal_before_after (exact portal: divZero before, touching point after); "
                         "depth_nonneg / direction_unit_or_zero / contact_bary hold as before. NOT proved: that the closest "
                         "row of a degenerate portal is near the origin (true for the witness: |v[2]| = 2e-15), i.e. no "
                         "accuracy statement for depth or position in terms of the true contact",
    "origin_in_portal_tetrahedron": "that the barycentric weights of _contact_position are non-negative (the origin stays "
                                    "inside the tetrahedron v0 v1 v2 v3 through _refine_portal/_find_penetration_info) is a "
                                    "hypothesis of contact_exact_of_nonneg_weights, not proved — and false for exactly "
                                    "touching pairs and other exact ties of _expand_portal (finding F-mpr-expand-tie); contact_bary gives only: midpoint "
                                    "of two pre-images, half their distance from both, pre-images in A and B where the "
                                    "weights are non-negative",
    "contact_point_in_both_sets": "not a theorem of the unchanged code: segment_contact_asIs_counterexample proves the "
                                  "ORIGIN_ON_V0V1_SEGMENT exit reports a contact position outside collider 2 "
                                  "(finding F-mpr-segment-contact); proved instead: within depth/2 of both "
                                  "(touch_and_segment_cases), exactly in both for ORIGIN_ON_V1",
    "portal_invariant_across_view_swap": "only the row invariant (every row 1..3 is a support row a-b with a in A, b in B) "
                                         "is proved across _swap_vertices-as-it-behaves (discoverPortal_spec); that the "
                                         "origin ray passes through the portal is not proved (not needed by the depth / "
                                         "residual theorems, which rest on the support plane only)",
    "refine_portal_termination": "_refine_portal is `while True` without a cap; the model takes fuel and the theorems are "
                                 "stated for runs that return (.ok); fuel sufficiency is proved only for the capped "
                                 "_find_penetration_info (find_penetration_info_terminates)",
    "edge_vertex_region_direction": "face_region_direction (direction = +-portal normal) is for point_to_triangle region 6 "
                                    "only; in edge/vertex regions the direction is not the normal — residual_le_tol and "
                                    "depth_ge_true_minus_tol nevertheless hold there (proved for every region)",
}
ASSUMPTIONS = [
    "S2: the colliders enter through an abstract support oracle satisfying the C03 contract SupOK (support point of A along "
    "d, of B along -d, for every d) and through centres with c1 in A, c2 in B; convexity of A and B only where stated",
    "exact real arithmetic: rounding is not modelled; the 2e-3*L of the property is met by mpr_tolerance + 2*EPSILON "
    "(regenerated constants) with a factor 20 to spare, which is the allowance for rounding",
    "`x == 0.0` is modelled as isZero (IEEE); NaN inputs are outside the domain",
    "model = /repo at or after 045c18e (_contact_position with the degenerate-portal branch); the function before that "
    "commit is kept as contactPosition_asIs_before_fix for the before/after theorems only",
]
TRUSTED = ["mpr.py is modelled in full except mpr_intersection (C02); of minkowski.py support_function/make_support_point; of "
           "distance/_triangle.py point_to_triangle; utils.norm_vector",
           "oracle of the search: scipy.spatial.ConvexHull (Qhull) for the inner-polytope lower bound of the depth; own "
           "closed-form support mappings of the ten collider types (checked against the library's on every traced run)"]
MANIFEST = dict(
    text=("Lean theorems on the faithful model of mpr_penetration with abstract support oracles (all convex sets, all "
          "iterations): depth_nonneg, direction_unit_or_zero, depth_ge_true_minus_tol and residual_le_tol for the tolerance "
          "exit in every Voronoi region of the closest point (bounds mpr_tolerance + 2*EPSILON from the regenerated "
          "constants, below 2e-3*L), face_region_direction, touch_and_segment_cases, contact_bary, "
          "contact_exact_of_nonneg_weights, contact_degenerate_portal / contact_position_total / "
          "degenerate_portal_before_after (repair 045c18e of the NaN contact position on degenerate portals), "
          "find_penetration_info_terminates, and segment_contact_asIs_counterexample (the "
          "unchanged code reports a contact position outside a collider); the model is compared step-wise with every "
          "module-level function of distance3d.mpr on recorded traces and end-to-end with trace-fed supports; rigorous "
          "two-sided depth oracle on the real code. " 
          "Link theorems (regenerated from today's source by py2lean on every run, D3/Gen/Link08.lean) tie mpr._encapsulates_origin and mpr._find_penetration_touch to the model by rfl. "),
    note=("trusted: Lean kernel + Mathlib, axioms propext/Classical.choice/Quot.sound; exact-real semantics; support "
          "oracle contract (C03) assumed; partial: iteration-cap exit, degenerate final portal, non-negativity of the "
          "barycentric weights, termination of the uncapped _refine_portal; two known findings on the contact position; "
          "one fixed finding (F-mpr-degenerate-portal-nan, 045c18e) replayed first on every run."),
    technique="Lean 4 proof (S2, abstract support oracle) on hand-written model + step-wise trace correspondence + py2lean-regenerated kernels linked to the model by theorem",
    design="§7 C08")
LEAN_TARGETS = []


# =============================================================================== geometry (own code)
def unit(v):
    v = np.asarray(v, dtype=float)
    n = math.sqrt(float(v.dot(v)))
    return v / n if n > 0 else v


def rot_of(spec):
    return np.array(spec["R"], dtype=float)


def pos_of(spec):
    return np.array(spec["t"], dtype=float)


def pose44(spec):
    T = np.eye(4)
    T[:3, :3] = rot_of(spec)
    T[:3, 3] = pos_of(spec)
    return T


POLY = ("box", "hull", "mesh")
FLAT = ("disk", "ellipse")
TYPES = ("sphere", "ellipsoid", "capsule", "cylinder", "cone", "box", "disk", "ellipse", "hull", "mesh")

BOXC = np.array([[x, y, z] for x in (-0.5, 0.5) for y in (-0.5, 0.5) for z in (-0.5, 0.5)])


def world_vertices(spec):
    """vertices of a polytope spec in world coordinates"""
    k = spec["type"]
    if k == "box":
        return pos_of(spec) + (BOXC * np.array(spec["size"], dtype=float)).dot(rot_of(spec).T)
    if k == "hull":
        return np.array(spec["vertices"], dtype=float) + pos_of(spec)
    if k == "mesh":
        return pos_of(spec) + np.array(spec["vertices"], dtype=float).dot(rot_of(spec).T)
    raise ValueError(k)


def sup_local(spec, d):
    """support point in the local frame for local direction d (own closed forms)"""
    k = spec["type"]
    if k == "sphere":
        return spec["radius"] * unit(d)
    if k == "ellipsoid":
        r = np.array(spec["radii"], dtype=float)
        return r * unit(r * d)
    if k == "capsule":
        p = spec["radius"] * unit(d)
        p[2] += 0.5 * spec["height"] if d[2] > 0 else -0.5 * spec["height"]
        return p
    if k == "cylinder":
        s = math.hypot(d[0], d[1])
        z = 0.5 * spec["length"] if d[2] >= 0 else -0.5 * spec["length"]
        if s == 0:
            return np.array([spec["radius"], 0.0, z])
        return np.array([d[0] * spec["radius"] / s, d[1] * spec["radius"] / s, z])
    if k == "cone":
        s = math.hypot(d[0], d[1])
        rim = np.array([d[0] * spec["radius"] / s, d[1] * spec["radius"] / s, 0.0]) if s > 0 else np.zeros(3)
        apex = np.array([0.0, 0.0, spec["height"]])
        return rim if rim.dot(d) >= apex.dot(d) else apex
    if k == "disk":
        s = math.hypot(d[0], d[1])
        if s == 0:
            return np.zeros(3)
        return np.array([d[0] * spec["radius"] / s, d[1] * spec["radius"] / s, 0.0])
    if k == "ellipse":
        r = np.array([spec["radii"][0], spec["radii"][1], 0.0])
        return r * unit(r * d)
    raise ValueError(k)


def sup(spec, n):
    """support point of the posed shape in world direction n (own implementation)"""
    k = spec["type"]
    n = np.asarray(n, dtype=float)
    if k in POLY:
        V = world_vertices(spec)       # never cached in the spec: specs are copied and edited
        return V[int(np.argmax(V.dot(n)))]
    R = rot_of(spec)
    return pos_of(spec) + R.dot(sup_local(spec, R.T.dot(n)))


def lib_center(spec):
    """the point the library's collider.center() returns (needed to construct concentric pairs)"""
    k = spec["type"]
    if k == "cone":
        return pos_of(spec) + 0.5 * spec["height"] * rot_of(spec)[:, 2]
    if k in ("hull", "mesh"):
        return np.mean(world_vertices(spec), axis=0)
    return pos_of(spec)


def feature_size(spec):
    k = spec["type"]
    if k == "sphere":
        return 2 * spec["radius"]
    if k == "ellipsoid":
        return 2 * max(spec["radii"])
    if k == "capsule":
        return max(2 * spec["radius"], spec["height"] + 2 * spec["radius"])
    if k == "cylinder":
        return max(2 * spec["radius"], spec["length"])
    if k == "cone":
        return max(2 * spec["radius"], spec["height"])
    if k == "box":
        return max(spec["size"])
    if k == "disk":
        return 2 * spec["radius"]
    if k == "ellipse":
        return 2 * max(spec["radii"])
    V = world_vertices(spec)
    return float(np.max(np.ptp(V, axis=0)))


def scene_L(sa, sb):
    return max(1.0, feature_size(sa), feature_size(sb), float(np.linalg.norm(lib_center(sa) - lib_center(sb))))


def translated(spec, d):
    s = {k: v for k, v in spec.items() if not k.startswith("_")}
    s["t"] = (pos_of(spec) + np.asarray(d, dtype=float)).tolist()
    return s


def clean(spec):
    return core.jsonable({k: v for k, v in spec.items() if not k.startswith("_")})


def make_collider(spec):
    from distance3d import colliders
    k = spec["type"]
    T = pose44(spec)
    if k == "sphere":
        return colliders.Sphere(np.ascontiguousarray(pos_of(spec)), float(spec["radius"]))
    if k == "ellipsoid":
        return colliders.Ellipsoid(T, np.array(spec["radii"], dtype=float))
    if k == "capsule":
        return colliders.Capsule(T, float(spec["radius"]), float(spec["height"]))
    if k == "cylinder":
        return colliders.Cylinder(T, float(spec["radius"]), float(spec["length"]))
    if k == "cone":
        return colliders.Cone(T, float(spec["radius"]), float(spec["height"]))
    if k == "box":
        return colliders.Box(T, np.array(spec["size"], dtype=float))
    if k == "disk":
        return colliders.Disk(np.ascontiguousarray(pos_of(spec)), float(spec["radius"]),
                              np.ascontiguousarray(rot_of(spec)[:, 2]))
    if k == "ellipse":
        return colliders.Ellipse(np.ascontiguousarray(pos_of(spec)), np.ascontiguousarray(rot_of(spec)[:, :2].T),
                                 np.array(spec["radii"], dtype=float))
    if k == "hull":
        return colliders.ConvexHullVertices(np.ascontiguousarray(world_vertices(spec)))
    if k == "mesh":
        return colliders.MeshGraph(T, np.array(spec["vertices"], dtype=float),
                                   np.array(spec["triangles"], dtype=int))
    raise ValueError(k)


# =============================================================================== oracle: depth of A (-) B
_FIB = None


def fib_dirs(n=48):
    global _FIB
    if _FIB is None or len(_FIB) != n:
        i = np.arange(n) + 0.5
        phi = np.arccos(1 - 2 * i / n)
        th = np.pi * (1 + 5 ** 0.5) * i
        D = np.stack([np.cos(th) * np.sin(phi), np.sin(th) * np.sin(phi), np.cos(phi)], axis=1)
        axes = np.array([[1, 0, 0], [-1, 0, 0], [0, 1, 0], [0, -1, 0], [0, 0, 1], [0, 0, -1]], dtype=float)
        _FIB = np.concatenate([axes, D])
    return _FIB


def depth_bounds(sa, sb, eps, extra_dirs=(), max_iter=60):
    """Two-sided bounds of the penetration depth of the pair = largest r with ball(0, r) inside
    M = A (-) B (0 if the origin is not in M).

    lower bound: the inner polytope P = hull of support points of M contains the ball of radius
    min_facets(distance of the facet plane from the origin) if the origin is in P, and P is in M;
    upper bound: every unit direction n gives depth <= h_M(n) = <s_A(n) - s_B(-n), n>; a negative
    support value proves the sets are disjoint with gap >= -h_M(n).
    Returns dict(lb, ub, sep) with lb <= depth <= ub, sep = proven gap (> 0) or 0.
    """
    from scipy.spatial import ConvexHull, QhullError

    def mpoint(n):
        return sup(sa, n) - sup(sb, -n)

    if sa["type"] in POLY and sb["type"] in POLY:
        VA, VB = world_vertices(sa), world_vertices(sb)
        if len(VA) * len(VB) <= 6000:
            pts = (VA[:, None, :] - VB[None, :, :]).reshape(-1, 3)
            try:
                hull = ConvexHull(pts)
            except QhullError:
                return {"lb": 0.0, "ub": float("inf"), "sep": 0.0, "flat": True}
            off = hull.equations[:, 3]
            worst = float(np.max(off))
            if worst > 0:
                return {"lb": 0.0, "ub": 0.0, "sep": worst, "exact": True}
            d = float(np.min(-off))
            return {"lb": d, "ub": d, "sep": 0.0, "exact": True}
    dirs = [unit(n) for n in fib_dirs()] + [unit(n) for n in extra_dirs if np.linalg.norm(n) > 0]
    pts, ub, sep = [], float("inf"), 0.0
    for n in dirs:
        m = mpoint(n)
        f = float(m.dot(n))
        pts.append(m)
        ub = min(ub, f)
        if f < 0:
            sep = max(sep, -f)
    if sep > 0:
        return {"lb": 0.0, "ub": 0.0, "sep": sep}
    try:
        hull = ConvexHull(np.array(pts), incremental=True)
    except QhullError:
        return {"lb": 0.0, "ub": max(ub, 0.0), "sep": 0.0, "flat": True}
    lb = 0.0
    for _ in range(max_iter):
        eq = hull.equations
        nrm = np.linalg.norm(eq[:, :3], axis=1)
        off = eq[:, 3] / nrm
        j = int(np.argmax(off))
        if off[j] > 0:
            n = eq[j, :3] / nrm[j]          # the origin is outside P beyond this facet
            lb = 0.0
        else:
            j = int(np.argmin(-off))
            n = eq[j, :3] / nrm[j]
            lb = float(-off[j])
        m = mpoint(n)
        f = float(m.dot(n))
        if f < 0:
            hull.close()
            return {"lb": 0.0, "ub": 0.0, "sep": -f}
        ub = min(ub, f)
        if ub - lb <= eps:
            break
        try:
            hull.add_points(m[None, :])
        except QhullError:
            break
    hull.close()
    return {"lb": lb, "ub": max(ub, 0.0), "sep": 0.0}


def dist_certificate(spec, p, iters=200):
    """A certified lower bound of dist(p, K): max over tried unit n of <n, p> - h_K(n)
    (separating plane).  Frank-Wolfe on the closest-point problem supplies the directions."""
    p = np.asarray(p, dtype=float)
    x = sup(spec, p - lib_center(spec)) if np.linalg.norm(p - lib_center(spec)) > 0 else lib_center(spec)
    x = np.array(x, dtype=float)
    best = 0.0
    for _ in range(iters):
        g = p - x
        ng = math.sqrt(float(g.dot(g)))
        if ng == 0:
            return 0.0
        n = g / ng
        s = sup(spec, n)
        cert = float(n.dot(p) - n.dot(s))
        best = max(best, cert)
        gap = float(g.dot(s - x))
        if gap <= 1e-14 * max(1.0, ng * ng):
            break
        d = s - x
        gamma = min(1.0, max(0.0, gap / float(d.dot(d))))
        x = x + gamma * d
        if ng - cert <= 1e-6 * max(1.0, ng):
            break
    return best


# =============================================================================== generators
def rand_rot(rng):
    q = np.array([rng.gauss(0, 1) for _ in range(4)])
    q /= np.linalg.norm(q)
    w, x, y, z = q
    return np.array([[1 - 2 * (y * y + z * z), 2 * (x * y - z * w), 2 * (x * z + y * w)],
                     [2 * (x * y + z * w), 1 - 2 * (x * x + z * z), 2 * (y * z - x * w)],
                     [2 * (x * z - y * w), 2 * (y * z + x * w), 1 - 2 * (x * x + y * y)]])


def lattice_rot(rng):
    """signed axis permutation (det +1), optionally times a 3-4-5 rotation about z"""
    import itertools
    perms = []
    for p in itertools.permutations(range(3)):
        for sg in itertools.product([1, -1], repeat=3):
            M = np.zeros((3, 3))
            for i in range(3):
                M[i, p[i]] = sg[i]
            if round(np.linalg.det(M)) == 1:
                perms.append(M)
    R = perms[rng.randrange(len(perms))]
    if rng.random() < 0.25:
        c, s = rng.choice([(0.6, 0.8), (0.8, 0.6), (-0.6, 0.8), (0.28, 0.96)])
        R = R.dot(np.array([[c, -s, 0], [s, c, 0], [0, 0, 1.0]]))
    return R


def rand_unit(rng):
    return unit([rng.gauss(0, 1) for _ in range(3)])


def clipf(x):
    return float(min(1e2, max(1e-2, x)))


def convex_points(rng, s, n):
    pts = []
    for _ in range(n):
        v = rand_unit(rng) * s * 0.5 * rng.uniform(0.6, 1.0)
        pts.append(v)
    return np.array(pts)


def gen_shape(rng, kind, s, lattice=False):
    """shape of overall size about s (feature sizes kept in [1e-2, 1e2]) at the identity pose"""
    if lattice:
        u = lambda a, b: rng.choice([0.5, 1.0, 1.5, 2.0]) * s  # noqa
    else:
        u = lambda a, b: rng.uniform(a, b) * s  # noqa
    sp = {"type": kind, "R": np.eye(3).tolist(), "t": [0.0, 0.0, 0.0]}
    if kind == "sphere":
        sp["radius"] = clipf(u(0.3, 1.0) * 0.5)
    elif kind == "ellipsoid":
        sp["radii"] = [clipf(u(0.2, 1.0) * 0.5) for _ in range(3)]
    elif kind == "capsule":
        sp["radius"] = clipf(u(0.2, 0.6) * 0.5)
        sp["height"] = clipf(u(0.1, 1.0))
    elif kind == "cylinder":
        sp["radius"] = clipf(u(0.2, 1.0) * 0.5)
        sp["length"] = clipf(u(0.1, 1.0))
    elif kind == "cone":
        sp["radius"] = clipf(u(0.2, 1.0) * 0.5)
        sp["height"] = clipf(u(0.2, 1.0))
    elif kind == "box":
        sp["size"] = [clipf(u(0.2, 1.0)) for _ in range(3)]
    elif kind == "disk":
        sp["radius"] = clipf(u(0.3, 1.0) * 0.5)
    elif kind == "ellipse":
        sp["radii"] = [clipf(u(0.2, 1.0) * 0.5) for _ in range(2)]
    elif kind in ("hull", "mesh"):
        from scipy.spatial import ConvexHull
        s = min(1e2, max(4e-2, s))
        if lattice:
            base = np.array([[x, y, z] for x in (-1, 1) for y in (-1, 1) for z in (-1, 1)], dtype=float) * 0.5 * s
            extra = np.array([[1.0, 0, 0], [0, -1.0, 0], [0, 0, 1.0]]) * s * rng.choice([0.5, 0.75])
            V = np.concatenate([base[: rng.choice([4, 8])], extra[: rng.choice([1, 3])]])
            if np.linalg.matrix_rank(V - V[0]) < 3:
                V = np.concatenate([base, extra])
        else:
            V = convex_points(rng, s, rng.choice([4, 6, 10, 20]))
        hull = ConvexHull(V)
        V = V[hull.vertices]
        hull = ConvexHull(V)
        sp["vertices"] = V.tolist()
        if kind == "mesh":
            tri = hull.simplices.copy()
            c = V.mean(axis=0)
            for i, tr in enumerate(tri):       # outward orientation
                a, b, cc = V[tr]
                if np.cross(b - a, cc - a).dot(a - c) < 0:
                    tri[i] = tr[[0, 2, 1]]
            sp["triangles"] = tri.tolist()
    else:
        raise ValueError(kind)
    return sp


def posed(sp, R, t):
    s = dict(sp)
    if s["type"] in ("sphere", "hull"):
        if s["type"] == "hull":
            s["vertices"] = (np.array(s["vertices"]).dot(np.asarray(R).T)).tolist()
        R = np.eye(3)
    s["R"] = np.asarray(R, dtype=float).tolist()
    s["t"] = np.asarray(t, dtype=float).tolist()
    return s


PLACEMENTS = ("overlap", "deep", "nested", "concentric", "touching", "separated", "identical", "axis")


def gen_scene(rng, stream, kinds=None, placement=None):
    """returns dict(a=spec, b=spec, placement=..., stream=..., n=direction used, target=prescribed support value)"""
    lattice = stream == "L"
    ka, kb = kinds if kinds else (rng.choice(TYPES), rng.choice(TYPES))
    if placement is None:
        placement = rng.choice(PLACEMENTS)
    if lattice:
        S = rng.choice([0.25, 1.0, 4.0, 32.0])
        sA, sB = S, S * rng.choice([0.5, 1.0, 2.0])
    else:
        S = 10 ** rng.uniform(-1.7, 1.7)
        sA, sB = S, S * 10 ** rng.uniform(-1.0, 1.0)
    a = gen_shape(rng, ka, sA, lattice)
    b = gen_shape(rng, kb, sB, lattice)
    if placement == "identical":
        b = {k: (list(v) if isinstance(v, list) else v) for k, v in a.items()}
        kb = ka
    mkrot = lattice_rot if lattice else rand_rot
    if lattice:
        off = np.array([rng.choice([-8.0, -1.0, 0.0, 0.5, 2.0, 64.0]) for _ in range(3)])
    else:
        off = np.array([rng.uniform(-1, 1) for _ in range(3)]) * rng.choice([0.0, 1.0, 30.0, 900.0]) / math.sqrt(3)
    Ra = mkrot(rng)
    Rb = Ra if placement == "identical" else mkrot(rng)
    if placement == "axis":
        Ra = Rb = np.eye(3)
    a = posed(a, Ra, off)
    b = posed(b, Rb, off)
    n = rand_unit(rng)
    if lattice or placement == "axis":
        ax = np.zeros(3)
        ax[rng.randrange(3)] = rng.choice([-1.0, 1.0])
        n = ax
    target = None
    ca, cb = lib_center(a), lib_center(b)
    if placement in ("concentric", "identical"):
        b = translated(b, ca - cb)
        if lattice or rng.random() < 0.5:
            pass
        else:
            b = translated(b, rand_unit(rng) * rng.choice([1e-12, 1e-7, 1e-3]) * sB)
    elif placement == "nested":
        b = translated(b, ca - cb + rand_unit(rng) * 0.1 * min(sA, sB) * rng.random())
    else:
        pa, pb = sup(a, n), sup(b, -n)
        b = translated(b, pa - pb)           # now exactly touching at pa along n
        wa = float((pa - sup(a, -n)).dot(n))
        wb = float((sup(b, n) - sup(b, -n)).dot(n))
        w = min(wa, wb) if min(wa, wb) > 0 else max(wa, wb)
        Lr = max(1.0, feature_size(a), feature_size(b))
        if placement == "touching":
            target = 0.0
        elif placement == "separated":
            target = -Lr * rng.choice([1e-3, 1.5e-3, 1e-2, 0.3])
        elif placement == "deep":
            target = w * rng.uniform(0.5, 1.0)
        else:
            if lattice:
                target = w * rng.choice([0.125, 0.25, 0.5])
            else:
                target = w * rng.choice([rng.uniform(0.01, 0.5), rng.uniform(0.0, 0.02), 1e-4, 3e-3])
        b = translated(b, -target * n)
        if placement in ("overlap", "deep", "axis") and rng.random() < 0.5 and not lattice:
            # lateral shift: keeps the support value along n, changes the shape of the overlap
            lat = np.cross(n, rand_unit(rng))
            b = translated(b, lat * 0.3 * min(sA, sB) * rng.random())
    return {"a": clean(a), "b": clean(b), "placement": placement, "stream": stream,
            "n": [float(x) for x in n], "target": target}


# =============================================================================== the property oracle
class time_limit:
    """watchdog: _refine_portal is `while True` — an edited tree may not come back"""

    def __init__(self, seconds=10.0):
        self.seconds = seconds

    def __enter__(self):
        import signal

        def handler(signum, frame):
            raise TimeoutError("mpr_penetration did not return within %gs" % self.seconds)
        self.old = signal.signal(signal.SIGALRM, handler)
        signal.setitimer(signal.ITIMER_REAL, self.seconds)

    def __exit__(self, *a):
        import signal
        signal.setitimer(signal.ITIMER_REAL, 0)
        signal.signal(signal.SIGALRM, self.old)


def run_mpr(sa, sb, **kw):
    from distance3d import mpr
    c1, c2 = make_collider(sa), make_collider(sb)
    with np.errstate(all="ignore"), time_limit():
        res = mpr.mpr_penetration(c1, c2, **kw)
    return res


def check_scene(scene, res=None, kw=None):
    """The property on one scene.  Returns (violations, info); violations = list of
    (what, observed, expected) — each one is certified by a rigorous bound."""
    sa, sb = scene["a"], scene["b"]
    L = scene_L(sa, sb)
    tol = TOLK * L
    if res is None:
        try:
            res = run_mpr(sa, sb, **(kw or {}))
        except Exception as e:  # noqa
            return [("raised", repr(e)[:200], "a result")], {"L": L}
    inter, t, u, pos = res
    info = {"L": L, "intersection": bool(inter)}
    bad = []
    if not inter:
        b0 = depth_bounds(sa, sb, 1e-4 * L)
        info["bounds"] = b0
        # not part of the property as stated; recorded for the statistics only
        info["missed_overlap"] = bool(b0["lb"] > tol)
        return bad, info
    t = float(t)
    u = np.array(u, dtype=float)
    pos = np.array(pos, dtype=float)
    info.update({"depth": t, "direction": u.tolist(), "position": pos.tolist()})
    if not (np.isfinite(t) and np.all(np.isfinite(u)) and np.all(np.isfinite(pos))):
        bad.append(("non-finite result", [t, u.tolist(), pos.tolist()], "finite depth, direction, position"))
        return bad, info
    if t < 0:
        bad.append(("depth negative", t, ">= 0"))
    nu = float(np.linalg.norm(u))
    if np.all(u == 0):
        if t > 1e-9 * L:
            bad.append(("zero direction with positive depth", t, "depth 0 when the direction is the zero vector"))
    elif abs(nu - 1) > 1e-9:
        bad.append(("direction not unit", nu, "1 (within 1e-9) or the zero vector"))
    b0 = depth_bounds(sa, sb, 1e-4 * L, extra_dirs=[u, -u])
    info["bounds"] = b0
    if b0["sep"] >= GAPK * L:
        bad.append(("intersection reported for a separated pair", {"gap_at_least": b0["sep"]},
                    "intersection False (gap >= 1e-3*L)"))
        return bad, info
    if t < b0["lb"] - tol:
        bad.append(("depth smaller than true depth minus tolerance", {"depth": t, "true_depth_at_least": b0["lb"]},
                    "depth >= true depth - 2e-3*L"))
    sb2 = translated(sb, t * u)
    b1 = depth_bounds(sa, sb2, 1e-4 * L, extra_dirs=[u, -u])
    info["residual"] = b1
    if b1["lb"] > tol:
        bad.append(("residual overlap after translating collider 2 by depth*direction",
                    {"residual_at_least": b1["lb"], "depth": t, "true_depth_in": [b0["lb"], b0["ub"]]},
                    "<= 2e-3*L = %g" % tol))
    da = dist_certificate(sa, pos)
    db = dist_certificate(sb, pos)
    info["contact_dist"] = [da, db]
    if da > tol or db > tol:
        bad.append(("contact position outside a collider", {"dist_to_1_at_least": da, "dist_to_2_at_least": db},
                    "within 2e-3*L = %g of both" % tol))
    return bad, info


# =============================================================================== tracing the real code
TRACED = ["_find_origin_ray", "_find_support_in_direction_of_origin_ray",
          "_find_support_perpendicular_to_plane_containing_origin_v01",
          "_search_direction_perpendicular_to_plane_containing_v012", "_iterate_discover_portal",
          "_portal_direction", "_encapsulates_origin", "_portal_reach_tolerance", "_expand_portal",
          "_penetration_info", "_find_penetration_touch", "_find_penetration_segment", "_contact_position",
          "_discover_portal", "_refine_portal", "_find_penetration_info", "support_function", "point_to_triangle"]


def _snap(x):
    from distance3d.minkowski import Simplex
    if isinstance(x, np.ndarray):
        return x.copy()
    if isinstance(x, Simplex):
        return {"v": x.v.copy(), "v1": x.v1.copy(), "v2": x.v2.copy(), "n": int(x.n_points)}
    if isinstance(x, (tuple, list)):
        return [_snap(y) for y in x]
    if isinstance(x, (float, int, bool, np.floating, np.integer, np.bool_)):
        return x
    if hasattr(x, "name") and hasattr(x, "value"):
        return x.name
    return None        # colliders etc.


class Trace:
    """Record every call of the module-level functions of distance3d.mpr during one run
    (interpreted mode: the callers look the callees up in the module globals at call time)."""

    def __init__(self):
        self.calls = []
        self.stack = []

    def __enter__(self):
        from distance3d import mpr
        self.mpr = mpr
        self.saved = {}
        for name in TRACED:
            f = getattr(mpr, name)
            self.saved[name] = f
            setattr(mpr, name, self._wrap(name, f))
        return self

    def _wrap(self, name, f):
        def g(*args):
            rec = {"fn": name, "in": [_snap(a) for a in args], "children": []}
            self.calls.append(rec)
            if self.stack:
                self.stack[-1]["children"].append(rec)
            self.stack.append(rec)
            try:
                out = f(*args)
            finally:
                self.stack.pop()
            rec["out"] = _snap(out)
            rec["after"] = [_snap(a) for a in args]
            return out
        return g

    def __exit__(self, *a):
        for name, f in self.saved.items():
            setattr(self.mpr, name, f)


def traced_mpr(sa, sb, **kw):
    from distance3d import mpr
    c1, c2 = make_collider(sa), make_collider(sb)
    with Trace() as tr, np.errstate(all="ignore"), time_limit():
        res = mpr.mpr_penetration(c1, c2, **kw)
    return res, tr.calls


def classify(calls):
    """which exit of mpr_penetration / which branch of _contact_position / point_to_triangle a run took"""
    out = {"state": None, "contact": None, "region": None, "iters": 0, "swap": False}
    for c in calls:
        if c["fn"] == "_discover_portal":
            out["state"] = c["out"][0]
        elif c["fn"] == "_contact_position":
            v = c["in"][0]
            b = [np.cross(v[1], v[2]).dot(v[3]), np.cross(v[3], v[2]).dot(v[0]),
                 np.cross(v[0], v[1]).dot(v[3]), np.cross(v[2], v[1]).dot(v[0])]
            s = sum(b)
            if s < np.finfo(float).eps:
                dd = c["in"][3]
                fb = [0.0, np.cross(v[2], v[3]).dot(dd), np.cross(v[3], v[1]).dot(dd), np.cross(v[1], v[2]).dot(dd)]
                # 045c18e: `abs(coords_sum) < EPSILON` inside the fallback = degenerate portal
                out["contact"] = "degenerate" if abs(sum(fb)) < np.finfo(float).eps else "fallback"
            else:
                out["contact"] = "main" if min(b) >= -1e-12 * abs(s) else "main-negative-weight"
        elif c["fn"] == "_penetration_info":
            v = c["in"][0]
            n = np.cross(v[2] - v[1], v[3] - v[1])
            nn = np.linalg.norm(n)
            depth, cp = c["out"][0], c["out"][1]
            if nn > 0:
                n = n / nn
                lat = np.linalg.norm(np.cross(n, cp))
                out["region"] = "face" if lat <= 1e-9 * max(1.0, np.linalg.norm(cp)) else "edge-or-vertex"
            else:
                out["region"] = "degenerate"
        elif c["fn"] == "_find_penetration_info":
            pass
        elif c["fn"] == "_expand_portal":
            out["iters"] += 1
        elif c["fn"] == "_search_direction_perpendicular_to_plane_containing_v012":
            v_in, v_out = c["in"][0], c["after"][0]
            out["swap"] = bool(np.any(v_in[1] != v_out[1]))
    return out


# =============================================================================== correspondence
EPSF = float(np.finfo(float).eps)
STATE_CODE = {"ORIGIN_OUTSIDE_PORTAL": -1, "PORTAL_WAS_BUILT": 0, "ORIGIN_ON_V1": 1, "ORIGIN_ON_V0V1_SEGMENT": 2,
              "CONTINUE_BUILDING_PORTAL": -2}


def ev(x):
    return [f2h(float(t)) for t in np.asarray(x, dtype=float).ravel()]


def eportal(v, v1, v2):
    return ev(v) + ev(v1) + ev(v2)


def esp(v, v1, v2, i):
    return ev(v[i]) + ev(v1[i]) + ev(v2[i])


class Rd:
    """reader of a driver answer"""

    def __init__(self, out):
        self.t = (out or "bad missing").split()
        self.ok = self.t[0] == "ok"
        self.err = self.t[1] if self.t[0] == "err" and len(self.t) > 1 else None
        self.i = 1

    def int(self):
        self.i += 1
        return int(self.t[self.i - 1])

    def word(self):
        self.i += 1
        return self.t[self.i - 1]

    def f(self):
        self.i += 1
        return h2f(self.t[self.i - 1])

    def v3(self):
        return np.array([self.f(), self.f(), self.f()])

    def sp(self):
        return np.array([self.v3(), self.v3(), self.v3()])


def scale_of(*xs):
    m = 1.0
    for x in xs:
        a = np.asarray(x, dtype=float)
        a = a[np.isfinite(a)]
        if a.size:
            m = max(m, float(np.max(np.abs(a))))
    return m


def close(x, y, tol):
    x, y = np.asarray(x, dtype=float), np.asarray(y, dtype=float)
    if x.shape != y.shape:
        return False
    fx, fy = np.isfinite(x), np.isfinite(y)
    if not np.array_equal(fx, fy):
        return False
    return bool(np.all(np.abs(x[fx] - y[fx]) <= tol))


def cross_cond(a, b):
    """conditioning of normalising cross(a, b): |a||b| / |a x b|"""
    c = np.linalg.norm(np.cross(a, b))
    return float(np.linalg.norm(a) * np.linalg.norm(b) / c) if c > 0 else float("inf")


def dir_tol(p, q, r):
    """allowance for norm_vector(cross(q - p, r - p)): input rounding is amplified by the
    cancellation in the differences and by the sine of the angle"""
    a, b = q - p, r - p
    amp = scale_of(p, q, r) / max(min(np.linalg.norm(a), np.linalg.norm(b)), 1e-300)
    return CORR + 16 * EPSF * amp * cross_cond(a, b)


class Steps:
    """collects driver lines for recorded calls and checks the answers"""

    def __init__(self, ctx, tag):
        self.ctx = ctx
        self.drv = core.Driver("c08-" + tag)
        self.plan = []
        self.ties = 0
        self.n = 0

    COMPOSITE = ("C08.penetration_info", "C08.find_info", "C08.pen")

    def add(self, fn, toks, check, seed):
        cid = self.drv.add(fn, "F", toks)
        self.plan.append((cid, fn, check, seed, self.group))

    group = 0

    def finish(self):
        """A leaf step whose decisive quantity sits within rounding of its threshold is a *tie*
        (model-Float and numpy may legitimately take different sides); the composite cases
        (_penetration_info, _find_penetration_info, whole run) of a scene with a leaf tie are then
        only counted, not compared."""
        out = self.drv.run()
        msgs = []
        tie_groups = set()
        for cid, fn, check, seed, group in self.plan:
            r = Rd(out.get(cid))
            self.n += 1
            try:
                msg = check(r)
            except Exception as e:  # noqa
                msg = "cannot parse model answer %r (%r)" % (out.get(cid, "")[:200], e)
            if msg == "tie" and fn not in self.COMPOSITE:
                tie_groups.add(group)
            msgs.append(msg)
        for (cid, fn, check, seed, group), msg in zip(self.plan, msgs):
            if msg == "tie" or (msg and fn in self.COMPOSITE and group in tie_groups):
                self.ties += 1
            elif msg:
                self.ctx.broke("correspondence", fn, msg, seed)
        self.plan = []


def branch_or_tie(ctx, fn, model_br, impl_br, margins, scale_pow):
    """branch ids must agree unless a decisive quantity is within rounding of its threshold"""
    ctx.branch(fn, impl_br)
    if model_br == impl_br:
        return None
    if margins and min(abs(m) for m in margins) <= 1e-9 * scale_pow:
        return "tie"
    return "branch: implementation %s, model %s (margins %s)" % (impl_br, model_br, margins)


def rows_equal(a, b):
    return bool(np.array_equal(np.asarray(a), np.asarray(b)))


def add_steps(st, scene, calls, res, kw):
    """one driver case per recorded call of a modelled function"""
    ctx = st.ctx
    st.group += 1
    if scene is None:
        seed = {"direct_call_records": len(calls)}
        c1 = c2 = np.zeros(3)
    else:
        seed = {"scene": {"a": scene["a"], "b": scene["b"]}, "kw": kw}
        c1 = make_collider(scene["a"]).center()
        c2 = make_collider(scene["b"]).center()
    tol_default = kw.get("mpr_tolerance", 1e-4)
    max_it = kw.get("max_iterations", 100)

    def sup_child(c):
        for ch in c["children"]:
            if ch["fn"] == "support_function":
                return ch
        return None

    for c in calls:
        fn = c["fn"]
        if fn == "_find_origin_ray":
            P = c["after"][0]

            def chk(r, P=P):
                if not r.ok:
                    return "model: " + " ".join(r.t[:3])
                nudge = r.int()
                sp = r.sp()
                ctx.branch("_find_origin_ray", nudge)
                impl_nudge = int(np.all(np.asarray(c1) - np.asarray(c2) == 0.0))
                if nudge != impl_nudge:
                    return "portals_center_is_origin: impl %d model %d" % (impl_nudge, nudge)
                if not (rows_equal(sp[0], P["v"][0]) and rows_equal(sp[1], P["v1"][0]) and rows_equal(sp[2], P["v2"][0])):
                    return "row 0: impl %s model %s" % (P["v"][0], sp[0])
            st.add("C08.find_origin_ray", ev(c1) + ev(c2), chk, seed)
        elif fn == "_find_support_in_direction_of_origin_ray":
            Pin, Pout, s = c["in"][0], c["after"][0], sup_child(c)

            def chk(r, Pin=Pin, Pout=Pout, s=s, c=c):
                outside = r.int()
                d = r.v3()
                val = r.f()
                sp = r.sp()
                sc = scale_of(Pout["v"][:2])
                if not close(d, s["in"][2], CORR):
                    return "search direction: impl %s model %s" % (s["in"][2], d)
                if not (close(sp[0], Pout["v"][1], CORR * sc) and rows_equal(sp[1], Pout["v1"][1])):
                    return "row 1 differs"
                return branch_or_tie(ctx, "_find_support_in_direction_of_origin_ray", outside, int(bool(c["out"])),
                                     [val - EPSF], sc)
            st.add("C08.support_origin_ray", esp(Pin["v"], Pin["v1"], Pin["v2"], 0) + ev(s["out"][1]) + ev(s["out"][2]),
                   chk, seed)
        elif fn == "_find_support_perpendicular_to_plane_containing_origin_v01":
            Pin, Pout, s = c["in"][0], c["after"][0], sup_child(c)
            a, b = (s["out"][1], s["out"][2]) if s else (np.zeros(3), np.zeros(3))

            def chk(r, Pin=Pin, Pout=Pout, s=s, c=c):
                code = r.int()
                cc = r.f()
                d = r.v3()
                val = r.f()
                sp = r.sp()
                sc = scale_of(Pin["v"][:2])
                impl = STATE_CODE[c["out"]]
                if s is not None and code in (-1, -2):
                    if not close(d, s["in"][2], CORR + 16 * EPSF * cross_cond(Pin["v"][0], Pin["v"][1])):
                        return "search direction: impl %s model %s" % (s["in"][2], d)
                    if not close(sp[0], Pout["v"][2], CORR * sc):
                        return "row 2 differs"
                return branch_or_tie(ctx, "_find_support_perpendicular…", code, impl, [cc - EPSF, val - EPSF], sc ** 4)
            st.add("C08.support_perp", esp(Pin["v"], Pin["v1"], Pin["v2"], 0) + esp(Pin["v"], Pin["v1"], Pin["v2"], 1)
                   + ev(a) + ev(b), chk, seed)
        elif fn == "_search_direction_perpendicular_to_plane_containing_v012":
            v, v1, v2 = c["in"]
            va, v1a, v2a = c["after"]

            def chk(r, v=v, va=va, v1a=v1a, v2a=v2a, c=c):
                swapped = r.int()
                val = r.f()
                d = r.v3()
                p1, p2 = r.sp(), r.sp()
                dd = unit(np.cross(v[1] - v[0], v[2] - v[0]))
                impl_sw = 1 if not rows_equal(v[1], va[1]) else int(float(np.dot(c["out"], dd)) < 0)
                t = branch_or_tie(ctx, "_search_direction_perp…", swapped, impl_sw, [val], scale_of(v[:3]))
                if t:
                    return t
                if not close(d, c["out"], dir_tol(v[0], v[1], v[2])):
                    return "direction: impl %s model %s" % (c["out"], d)
                if not (rows_equal(p1[0], va[1]) and rows_equal(p2[0], va[2]) and rows_equal(p1[1], v1a[1])
                        and rows_equal(p2[1], v1a[2]) and rows_equal(p1[2], v2a[1]) and rows_equal(p2[2], v2a[2])):
                    return "rows after the (view) swap differ: impl v[1]=%s v[2]=%s model %s %s" % (va[1], va[2], p1[0], p2[0])
            st.add("C08.search_dir_perp", esp(v, v1, v2, 0) + esp(v, v1, v2, 1) + esp(v, v1, v2, 2), chk, seed)
        elif fn == "_iterate_discover_portal":
            v, v1, v2, d0, size = c["in"]
            va, v1a, v2a = c["after"][:3]

            def chk(r, v=v, va=va, v1a=v1a, v2a=v2a, c=c, d0=d0):
                br = r.int()
                size_m = r.int()
                m1, m2 = r.f(), r.f()
                d = r.v3()
                p1, p2 = r.sp(), r.sp()
                dout, size_i = c["out"]
                if int(size_i) == 4:
                    impl_br = 2
                elif rows_equal(va[2], v[3]) and not rows_equal(va[1], v[3]):
                    impl_br = 0
                elif rows_equal(va[1], v[3]) and not rows_equal(va[2], v[3]):
                    impl_br = 1
                else:
                    impl_br = 0 if m1 < EPSF else 1
                t = branch_or_tie(ctx, "_iterate_discover_portal", br, impl_br, [m1 - EPSF, m2 - EPSF],
                                  scale_of(v) ** 3)
                if t:
                    return t
                if size_m != int(size_i):
                    return "portal size"
                if not (rows_equal(p1[0], va[1]) and rows_equal(p2[0], va[2]) and rows_equal(p1[1], v1a[1])
                        and rows_equal(p2[2], v2a[2])):
                    return "rows differ"
                if not close(d, dout, dir_tol(va[0], va[1], va[2]) if impl_br != 2 else 0.0):
                    return "direction: impl %s model %s" % (dout, d)
            st.add("C08.iterate_discover", eportal(v, v1, v2) + ev(d0) + [str(int(size))], chk, seed)
        elif fn == "_portal_direction":
            v = c["in"][0]

            def chk(r, v=v, c=c):
                d = r.v3()
                ctx.branch("_portal_direction", int(np.all(np.asarray(c["out"]) == 0)))
                if not close(d, c["out"], dir_tol(v[1], v[2], v[3])):
                    return "impl %s model %s" % (c["out"], d)
            st.add("C08.portal_direction", eportal(v, v, v), chk, seed)
        elif fn == "_encapsulates_origin":
            v, d = c["in"]

            def chk(r, v=v, c=c):
                b = r.int()
                val = r.f()
                return branch_or_tie(ctx, "_encapsulates_origin", b, int(bool(c["out"])), [val + 10 * EPSF], scale_of(v))
            st.add("C08.encapsulates", ev(v) + ev(d), chk, seed)
        elif fn == "_portal_reach_tolerance":
            v, v4, d, tol = c["in"]

            def chk(r, v=v, c=c, tol=tol):
                b = r.int()
                m = r.f()
                return branch_or_tie(ctx, "_portal_reach_tolerance", b, int(bool(c["out"])), [m - (tol + EPSF)],
                                     scale_of(v))
            st.add("C08.reach", eportal(v, v, v) + ev(v4) + ev(d) + [f2h(tol)], chk, seed)
        elif fn == "_expand_portal":
            v, v1, v2, v4, v14, v24 = c["in"]
            va, v1a, v2a = c["after"][:3]

            def chk(r, v=v, va=va, v1a=v1a, v2a=v2a, v4=v4):
                br = r.int()
                m = [r.f(), r.f(), r.f()]
                p = [r.sp(), r.sp(), r.sp()]
                changed = [i for i in (1, 2, 3) if not rows_equal(v[i], va[i])]
                model_changed = {0: 1, 1: 3, 2: 2, 3: 1}[br]
                if changed and changed != [model_changed]:
                    used = m[:2] if br in (0, 1) else [m[0], m[2]]
                    if min(abs(x) for x in used) <= 1e-9 * scale_of(v) ** 3:
                        return "tie"
                    return "replaced row: impl %s model %d (dots %s)" % (changed, model_changed, m)
                ctx.branch("_expand_portal", br)
                for i in (1, 2, 3):
                    if not (rows_equal(p[i - 1][0], va[i]) and rows_equal(p[i - 1][1], v1a[i])
                            and rows_equal(p[i - 1][2], v2a[i])):
                        return "row %d differs" % i
            st.add("C08.expand", eportal(v, v1, v2) + ev(v4) + ev(v14) + ev(v24), chk, seed)
        elif fn == "point_to_triangle":
            p, tri = c["in"]

            def chk(r, p=p, tri=tri, c=c):
                dist_i, cp_i = c["out"]
                sc = scale_of(tri)
                area = np.linalg.norm(np.cross(tri[1] - tri[0], tri[2] - tri[0]))
                degenerate = area <= 1e-9 * sc * sc
                if not (np.isfinite(dist_i) and np.all(np.isfinite(cp_i))):
                    ctx.branch("point_to_triangle", "divZero")
                    return None if r.err == "divZero" else (
                        "tie" if degenerate else "impl non-finite, model %s" % " ".join(r.t[:3]))
                if not r.ok:
                    return "tie" if degenerate else "model %s, impl %s" % (" ".join(r.t[:3]), dist_i)
                br = r.int()
                dist = r.f()
                cp = r.v3()
                ctx.branch("point_to_triangle", br)
                sc = scale_of(tri)
                if not (abs(dist - dist_i) <= CORR * sc and close(cp, cp_i, CORR * sc)):
                    # a region tie gives a different formula for (nearly) the same point
                    if abs(dist - dist_i) <= 1e-7 * sc:
                        return "tie"
                    return "impl (%r, %s) model (%r, %s) branch %d" % (dist_i, cp_i, dist, cp, br)
            st.add("C08.point_to_triangle", ev(p) + ev(tri), chk, seed)
        elif fn == "_contact_position":
            v, v1, v2, d = c["in"]

            def chk(r, v=v, v1=v1, c=c, d=d):
                pos_i = c["out"]
                sc3 = scale_of(v) ** 3
                sc2 = scale_of(v) ** 2 * scale_of(d)

                def near_threshold(s, s2):
                    """a decisive sum sits within rounding of its EPSILON threshold"""
                    return abs(s - EPSF) <= 1e-9 * sc3 or (s2 is not None and abs(abs(s2) - EPSF) <= 1e-9 * sc2)

                if not np.all(np.isfinite(pos_i)):
                    ctx.branch("_contact_position", "non-finite")
                    if r.err == "divZero":
                        return None
                    rr = Rd(" ".join(r.t))
                    br, s = rr.int(), rr.f()
                    rr.v3()
                    [rr.f() for _ in range(4)]
                    s2 = rr.f()
                    if near_threshold(s, s2):
                        return "tie"
                    return ("impl non-finite, model branch %d (a NaN position on a degenerate portal is the behaviour "
                            "before the repair 045c18e, finding F-mpr-degenerate-portal-nan)" % br)
                if not r.ok:
                    s = h2f(r.t[2])
                    return "tie" if near_threshold(s, None) else "model %s, impl %s" % (" ".join(r.t[:3]), pos_i)
                br = r.int()
                s = r.f()
                pos = r.v3()
                w = [r.f() for _ in range(4)]
                s2 = r.f()
                k = r.int()
                ctx.branch("_contact_position", br)
                if close(pos, pos_i, CORR * scale_of(v1, c["in"][2])):
                    return None
                if near_threshold(s, s2 if s < EPSF + 1e-9 * sc3 else None):
                    return "tie"
                if br == 2:
                    # the scan for the closest row: (nearly) equal |v|^2 may select another row
                    n2 = sorted(float(v[i].dot(v[i])) for i in (1, 2, 3))
                    if n2[1] - n2[0] <= 1e-9 * scale_of(v) ** 2:
                        return "tie"
                    return "impl %s model %s (degenerate branch, closest row %d)" % (pos_i, pos, k)
                # conditioning: the weights are ratios of 3x3 determinants
                big = sc3 / max(abs(s), 1e-300) if br == 0 else sc2 / max(abs(s2), 1e-300)
                amp = 1 + big * (1 + max(abs(x) for x in w))
                if close(pos, pos_i, (CORR + 64 * EPSF * amp) * scale_of(v1, c["in"][2])):
                    return "tie"
                return "impl %s model %s (branch %d, sum %r)" % (pos_i, pos, br, s)
            st.add("C08.contact_position", eportal(v, v1, v2) + ev(d), chk, seed)
        elif fn == "_penetration_info":
            v, v1, v2 = c["in"]

            def chk(r, v=v, v1=v1, v2=v2, c=c):
                depth_i, dir_i, pos_i = c["out"]
                finite = np.isfinite(depth_i) and np.all(np.isfinite(dir_i)) and np.all(np.isfinite(pos_i))
                if not finite:
                    ctx.branch("_penetration_info", "divZero")
                    return None if r.err == "divZero" else "impl non-finite, model %s" % " ".join(r.t[:3])
                if not r.ok:
                    return "model %s, impl finite" % " ".join(r.t[:3])
                tri, cpos, touch = r.int(), r.int(), r.int()
                depth, d, pos = r.f(), r.v3(), r.v3()
                ctx.branch("_penetration_info", "tri%d/pos%d/touch%d" % (tri, cpos, touch))
                sc = scale_of(v)
                impl_touch = int(abs(depth_i) < EPSF)
                if touch != impl_touch:
                    return "tie" if abs(abs(depth_i) - EPSF) <= 1e-9 * sc else "touch: impl %d model %d" % (impl_touch, touch)
                if abs(depth - depth_i) > CORR * sc:
                    return "tie" if abs(depth - depth_i) <= 1e-7 * sc else "depth impl %r model %r" % (depth_i, depth)
                if not close(d, dir_i, CORR * sc):
                    return "tie" if (close(d, dir_i, 1e-6 * sc) or max(depth, depth_i) <= CORR * sc) else (
                        "direction impl %s model %s" % (dir_i, d))
            st.add("C08.penetration_info", eportal(v, v1, v2), chk, seed)
        elif fn in ("_find_penetration_touch", "_find_penetration_segment"):
            if fn == "_find_penetration_touch":
                v1, v2 = c["in"]
                v = v1 - v2
            else:
                v, v1, v2 = c["in"]

            def chk(r, v=v, v1=v1, c=c, fn=fn):
                depth, d, pos = r.f(), r.v3(), r.v3()
                depth_i, dir_i, pos_i = c["out"]
                ctx.branch(fn, 0)
                if not (abs(depth - depth_i) <= CORR * scale_of(v) and close(d, dir_i, CORR)
                        and close(pos, pos_i, CORR * scale_of(v1))):
                    return "impl %s model %s" % ((depth_i, dir_i, pos_i), (depth, d, pos))
            st.add("C08.touch" if fn == "_find_penetration_touch" else "C08.segment", esp(v, v1, v2, 1), chk, seed)
        elif fn == "_find_penetration_info":
            Pin, tol, mi = c["in"][2], c["in"][3], c["in"][4]
            sups = [ch for ch in c["children"] if ch["fn"] == "support_function"]
            nexp = sum(1 for ch in c["children"] if ch["fn"] == "_expand_portal")
            toks = eportal(Pin["v"], Pin["v1"], Pin["v2"]) + [f2h(tol), str(int(mi)), str(len(sups))]
            for s in sups:
                toks += ev(s["in"][2]) + ev(s["out"][1]) + ev(s["out"][2])

            def chk(r, c=c, nexp=nexp, Pin=Pin):
                depth_i, dir_i, pos_i = c["out"]
                finite = np.isfinite(depth_i) and np.all(np.isfinite(dir_i)) and np.all(np.isfinite(pos_i))
                if not finite:
                    return None if r.err == "divZero" else "impl non-finite, model %s" % " ".join(r.t[:3])
                if not r.ok:
                    return "model %s" % " ".join(r.t[:3])
                ex, tri, cpos, touch, iters = r.int(), r.int(), r.int(), r.int(), r.int()
                depth, d, pos = r.f(), r.v3(), r.v3()
                ctx.branch("_find_penetration_info", "exit%d" % ex)
                sc = scale_of(Pin["v"])
                if iters != nexp:
                    return "expansions impl %d model %d" % (nexp, iters)
                if abs(depth - depth_i) > 1e-7 * sc:
                    return "depth impl %r model %r" % (depth_i, depth)
                if max(depth, depth_i) <= CORR * sc:
                    return "tie"        # direction of a numerically zero closest point is rounding noise
                if not close(d, dir_i, 1e-6):
                    return "impl (%r, %s) model (%r, %s)" % (depth_i, dir_i, depth, d)
            st.add("C08.find_info", toks, chk, seed)
    if scene is None:
        return
    # ---- whole run, supports answered from the trace
    sups = [c for c in calls if c["fn"] == "support_function"]
    toks = ev(c1) + ev(c2) + [f2h(tol_default), str(int(max_it)), "100000", str(len(sups))]
    for s in sups:
        toks += ev(s["in"][2]) + ev(s["out"][1]) + ev(s["out"][2])
    cl = classify(calls)
    n_ref = 0
    for c in calls:
        if c["fn"] == "_refine_portal":
            n_ref = sum(1 for ch in c["children"] if ch["fn"] == "_expand_portal")

    def chk(r, res=res, cl=cl, n_ref=n_ref):
        if not r.ok:
            inter = res[0]
            fin = (not inter) or (np.isfinite(res[1]) and np.all(np.isfinite(res[2])) and np.all(np.isfinite(res[3])))
            return None if (r.err == "divZero" and not fin) else "model %s" % " ".join(r.t[:3])
        inter, code, ref = r.int(), r.int(), r.int()
        some = r.word()
        ctx.branch("mpr_penetration", "state%d/%s" % (code, "hit" if inter else "miss"))
        if code != STATE_CODE[cl["state"]] or bool(inter) != bool(res[0]):
            return "state/intersection: impl %s %s model %d %d" % (cl["state"], res[0], code, inter)
        if ref != n_ref:
            return "refine expansions impl %d model %d" % (n_ref, ref)
        if some == "some":
            ex, tri, cpos, touch, iters = r.int(), r.int(), r.int(), r.int(), r.int()
            depth, d, pos = r.f(), r.v3(), r.v3()
            L = scene_L(scene["a"], scene["b"])
            if abs(depth - float(res[1])) > 1e-7 * L or not close(pos, res[3], 1e-7 * scale_of(res[3], L)):
                return "result: impl %s model (%r, %s, %s)" % (res[1:], depth, d, pos)
            if max(depth, float(res[1])) <= CORR * L:
                return "tie"            # direction of a numerically zero closest point is rounding noise
            if not close(d, res[2], 1e-6):
                return "direction: impl %s model %s" % (res[2], d)
    st.add("C08.pen", toks, chk, seed)


def direct_records(rng, n):
    """lattice stream on the modelled functions themselves: small half-integer coordinates, repeated
    rows, zero vectors, exact ties of every comparison — the real function is called on copies and
    the call is recorded in the format of `Trace`"""
    from distance3d import mpr
    vals = [-2.0, -1.0, -0.5, 0.0, 0.0, 0.5, 1.0, 2.0]

    def vec():
        return np.array([rng.choice(vals) for _ in range(3)])

    def arr():
        a = np.array([vec() for _ in range(4)])
        if rng.random() < 0.15:
            a[rng.randrange(1, 4)] = a[rng.randrange(1, 4)]
        return a

    def record(name, args):
        f = getattr(mpr, name)
        rec = {"fn": name, "in": [_snap(a) for a in args], "children": []}
        with np.errstate(all="ignore"):
            out = f(*args)
        rec["out"] = _snap(out)
        rec["after"] = [_snap(a) for a in args]
        return rec

    recs = []
    for _ in range(n):
        v, v1, v2 = arr(), arr(), arr()
        if rng.random() < 0.5:
            v = v1 - v2
        d = vec()
        tol = rng.choice([1e-4, 0.5, 1.0])
        k = rng.randrange(11)
        if k == 0:
            recs.append(record("_search_direction_perpendicular_to_plane_containing_v012", [v.copy(), v1.copy(), v2.copy()]))
        elif k == 1:
            recs.append(record("_iterate_discover_portal", [v.copy(), v1.copy(), v2.copy(), d.copy(), 3]))
        elif k == 2:
            recs.append(record("_portal_direction", [v.copy()]))
        elif k == 3:
            recs.append(record("_encapsulates_origin", [v[1].copy(), d.copy()]))
        elif k == 4:
            recs.append(record("_portal_reach_tolerance", [v.copy(), vec(), d.copy(), tol]))
        elif k == 5:
            recs.append(record("_expand_portal", [v.copy(), v1.copy(), v2.copy(), vec(), vec(), vec()]))
        elif k in (6, 7):
            recs.append(record("point_to_triangle", [vec() if k == 6 else np.zeros(3), np.ascontiguousarray(v[1:].copy())]))
        elif k == 8:
            recs.append(record("_contact_position", [v.copy(), v1.copy(), v2.copy(), d.copy()]))
        elif k == 9:
            recs.append(record("_penetration_info", [v.copy(), v1.copy(), v2.copy()]))
        else:
            recs.append(record("_find_penetration_segment", [v.copy(), v1.copy(), v2.copy()]))
    return recs


def gen_corr_scenes(ctx, n):
    out = []
    for i in range(n):
        u = ctx.rng.random()
        stream = "L" if u < 0.45 else "G"
        out.append(gen_scene(ctx.rng, stream))
    return out


def correspondence(ctx):
    n = ctx.budget(160, 4000)
    st = Steps(ctx, "corr")
    for scene in corpus_scenes() + gen_corr_scenes(ctx, n):
        kw = {}
        if ctx.rng.random() < 0.15:
            kw = {"mpr_tolerance": ctx.rng.choice([1e-2, 1e-6, 1e-9]), "max_iterations": ctx.rng.choice([0, 1, 3, 100])}
        try:
            res, calls = traced_mpr(scene["a"], scene["b"], **kw)
        except Exception as e:  # noqa
            ctx.broke("correspondence", "mpr_penetration", "implementation raised %r" % e,
                      {"scene": {"a": scene["a"], "b": scene["b"]}, "kw": kw})
            continue
        key = repr((clean(scene["a"]), clean(scene["b"]), sorted(kw.items())))
        ident = all(np.array_equal(np.array(s["R"]), np.eye(3)) and not np.any(np.array(s["t"])) for s in (scene["a"], scene["b"]))
        ctx.count("corr:" + scene["stream"] + ":" + scene["placement"], key=key, nontrivial=not ident,
                  sample={"a": scene["a"]["type"], "b": scene["b"]["type"], "placement": scene["placement"],
                          "calls": len(calls)})
        add_steps(st, scene, calls, res, kw)
        if len(st.plan) > 6000:
            st.finish()
    st.finish()
    # lattice stream on the functions themselves (one group per record so that ties stay local)
    for rec in direct_records(ctx.rng, ctx.budget(1500, 30000)):
        ctx.count("direct:" + rec["fn"], key=repr(rec["in"]))
        add_steps(st, None, [rec], None, {})
        if len(st.plan) > 6000:
            st.finish()
    st.finish()
    ctx.extra["step_cases"] = st.n
    ctx.extra["ties"] = st.ties


# F-mpr-degenerate-portal-nan (fixed by /repo 045c18e): an exactly touching box / 4-vertex mesh pair on which
# _discover_portal runs into its iteration cap (100 passes of _iterate_discover_portal) and declares a portal with a
# repeated vertex (v[1] == v[3]) built while v[2] is the origin up to 2e-15; both barycentric weight sums of
# _contact_position vanish and the position was 0/0 = NaN.  Found by the thorough C08 search; runs first on every run.
REGRESSION_DEGENERATE_PORTAL = {
    "a": {"type": "box", "R": [[0.9639938490441047, -0.2548393455649372, 0.07597872700411926], [-0.25563271992775277, -0.9667736868329475, 0.0007422599072390498], [0.07326507699764648, -0.02013818262568169, -0.9971091625760262]], "t": [0.0, 0.0, 0.0], "size": [0.07597102087503584, 0.033133629372878046, 0.04656290193520898]},
    "b": {"type": "mesh", "R": [[0.6983645544100368, 0.6382316045719925, 0.3239558119082457], [-0.46904793457305294, 0.06621869929583912, 0.8806867314410503], [0.5406301732389933, -0.7669912012461599, 0.34560600833108945]], "t": [0.214889105801495, -0.03161156852092972, -0.16198327630606535], "vertices": [[-0.13976063647222456, 0.0012673518799645475, 0.15453231058425626], [-0.1866220073105435, -0.10435528999031593, 0.21304289873168133], [-0.038754085013119804, -0.25413833134607755, 0.041503401495859196], [0.2558050476495335, 0.020557058567527004, -0.10488471710539338]], "triangles": [[2, 3, 1], [0, 1, 3], [0, 2, 1], [0, 3, 2]]},
    "placement": "regression:F-mpr-degenerate-portal-nan", "stream": "R", "n": [0.0, 0.0, 0.0], "target": 0.0}


def corpus_scenes():
    """minimised past failures; run first (correspondence on their traces, then the oracle)"""
    return [{k: (dict(v) if isinstance(v, dict) else v) for k, v in REGRESSION_DEGENERATE_PORTAL.items()}]


# =============================================================================== failing-input search
F_SEG = "F-mpr-segment-contact"
F_TIE = "F-mpr-expand-tie"


def segment_class(sa, sb):
    """Is this scene in the class 'origin on the ray v0 -> v1' (exit ORIGIN_ON_V0V1_SEGMENT)?
    Recomputed from the scene with own support mappings: coincident centres, or the first
    support point of A (-) B collinear with the centre difference."""
    v0 = lib_center(sa) - lib_center(sb)
    if np.all(v0 == 0):
        v0 = np.array([10 * EPSF, 0.0, 0.0])
    d = unit(-v0)
    v1 = sup(sa, d) - sup(sb, -d)
    c = np.cross(v0, v1)
    # the code's test is |v0 x v1|^2 < EPSILON; allow for the rounding of the support points
    return bool(c.dot(c) < EPSF + 1e-9 * float(v0.dot(v0) * v1.dot(v1))) and bool(np.any(v1 != 0))


def has_expand_tie(calls):
    """does the recorded run contain an `_expand_portal` decision on an exactly-zero dot product
    (the origin ray passes exactly through a vertex / an edge of the portal)?"""
    for c in calls:
        if c["fn"] == "_expand_portal":
            v, v4 = c["in"][0], c["in"][3]
            x = np.cross(v4, v[0])
            d1, d2, d3 = float(v[1].dot(x)), float(v[2].dot(x)), float(v[3].dot(x))
            used = [d1, d2] if d1 > 0 else [d1, d3]
            if min(abs(u) for u in used) <= 1e-13 * scale_of(v) ** 3:
                return True
    return False


def finding_of(scene, what, observed, info):
    """attach a known-finding id only to the exact class the finding describes"""
    if what not in ("contact position outside a collider", "intersection reported for a separated pair"):
        return None
    L, t = info["L"], info.get("depth", 0.0)
    if what == "contact position outside a collider":
        worst = max(observed["dist_to_1_at_least"], observed["dist_to_2_at_least"])
        if segment_class(scene["a"], scene["b"]) and worst <= 0.5 * t + TOLK * L:
            return F_SEG
    # tie class: read off the real run (not the model): an exact tie in _expand_portal and the
    # origin outside the portal tetrahedron (a negative barycentric weight in the main branch)
    try:
        _, calls = traced_mpr(scene["a"], scene["b"])
    except Exception:  # noqa
        return None
    if classify(calls)["contact"] == "main-negative-weight" and has_expand_tie(calls):
        return F_TIE
    return None


def report(ctx, scene, kw, bad, info):
    sc = {"a": clean(scene["a"]), "b": clean(scene["b"])}
    for what, observed, expected in bad:
        ctx.fail("mpr.mpr_penetration: " + what,
                 {"scene": sc, "kw": kw, "placement": scene.get("placement"), "stream": scene.get("stream")},
                 {"violation": observed, "result": {k: info.get(k) for k in ("intersection", "depth", "direction", "position")},
                  "L": info.get("L")},
                 expected, "rigorous bounds of the penetration depth of A (-) B (inner polytope / support values), "
                 "translate-and-requery, separating-plane certificate for the contact position",
                 finding=finding_of(scene, what, observed, info))


def minimise(scene, what):
    """cheap shrinking: move collider 1 to the origin, round the numbers, drop rotations — keep a
    step only if the same kind of violation persists"""
    def still(sc):
        try:
            bad, _ = check_scene(sc)
        except Exception:  # noqa
            return False
        return any(w == what for w, _, _ in bad)

    cur = {"a": clean(scene["a"]), "b": clean(scene["b"])}
    shift = -np.array(cur["a"]["t"])
    cand = {"a": translated(cur["a"], shift), "b": translated(cur["b"], shift)}
    if still(cand):
        cur = cand
    for digits in (2, 3, 5):
        def rnd(x):
            if isinstance(x, float):
                return float("%.*g" % (digits, x))
            if isinstance(x, list):
                return [rnd(y) for y in x]
            return x
        cand = {k: {kk: (rnd(vv) if kk not in ("R", "triangles", "type") else vv) for kk, vv in cur[k].items()}
                for k in ("a", "b")}
        if still(cand):
            cur = cand
            break
    for k in ("a", "b"):
        if cur[k]["type"] not in ("hull", "sphere"):
            cand = dict(cur)
            cand[k] = dict(cur[k], R=np.eye(3).tolist())
            if still(cand):
                cur = cand
    return cur


def oracle_selftest(ctx):
    """the depth oracle against closed forms (sphere-sphere, sphere-box face contact, axis-aligned
    boxes); a failure here is a defect of the harness, not of /repo -> infrastructure error"""
    I = np.eye(3).tolist()
    cases = []
    for _ in range(12):
        r1, r2 = ctx.rng.uniform(0.1, 3), ctx.rng.uniform(0.1, 3)
        d = ctx.rng.uniform(0.0, 1.2) * (r1 + r2)
        n = rand_unit(ctx.rng)
        cases.append(({"type": "sphere", "R": I, "t": [0.0, 0.0, 0.0], "radius": r1},
                      {"type": "sphere", "R": I, "t": (n * d).tolist(), "radius": r2}, r1 + r2 - d))
        s1 = [ctx.rng.choice([0.5, 1.0, 2.0]) for _ in range(3)]
        s2 = [ctx.rng.choice([0.5, 1.0, 2.0]) for _ in range(3)]
        off = [ctx.rng.choice([-0.75, -0.25, 0.0, 0.5, 1.0]) for _ in range(3)]
        ov = [0.5 * (s1[k] + s2[k]) - abs(off[k]) for k in range(3)]
        cases.append(({"type": "box", "R": I, "t": [0.0, 0.0, 0.0], "size": s1},
                      {"type": "box", "R": I, "t": off, "size": s2}, min(ov)))
        h = ctx.rng.uniform(0.2, 2.0)
        pen = ctx.rng.uniform(0.0, min(r1, 0.5 * h))
        cases.append(({"type": "sphere", "R": I, "t": [0.0, 0.0, 0.5 * h + r1 - pen], "radius": r1},
                      {"type": "box", "R": I, "t": [0.0, 0.0, 0.0], "size": [8 * r1 + 1, 8 * r1 + 1, h]}, pen))
    for a, b, closed in cases:
        bd = depth_bounds(a, b, 1e-6)
        if closed < 0:
            good = bd["sep"] > 0 and bd["sep"] <= -closed + 1e-9
        else:
            good = bd["lb"] - 1e-9 <= closed <= bd["ub"] + 1e-9 and bd["sep"] == 0
        if not good:
            raise core.Infra("depth oracle self-test failed: %r %r closed form %r bounds %r" % (a, b, closed, bd))
    # sign convention: direction points from collider 1 to collider 2
    res = run_mpr({"type": "sphere", "R": I, "t": [0.0, 0.0, 0.0], "radius": 1.0},
                  {"type": "sphere", "R": I, "t": [1.5, 0.25, 0.0], "radius": 1.0})
    ctx.extra["sign_convention_probe"] = [bool(res[0]), float(res[1]), [float(x) for x in res[2]]]
    ctx.extra["oracle_selftest_cases"] = len(cases)


def search(ctx):
    oracle_selftest(ctx)
    boost = 3 if ctx.extra.get("search_boost") else 1
    n = ctx.budget(2600, 60000) * boost
    pairs = [(a, b) for a in TYPES for b in TYPES]
    ctx.rng.shuffle(pairs)
    stats = {"intersections": 0, "misses": 0, "violations": 0, "missed_overlap": 0}
    minimised = 0
    for scene in corpus_scenes():
        # fixed findings: the witness must now give a finite result that satisfies the whole property
        res, calls = traced_mpr(scene["a"], scene["b"])
        bad, info = check_scene(scene, res)
        cl = classify(calls)
        ctx.count("search:regression", key=repr((clean(scene["a"]), clean(scene["b"]))))
        ctx.branch("regression", "%s/contact-%s/discover-%d" % (
            scene["placement"].split(":")[1], cl["contact"],
            sum(1 for c in calls if c["fn"] == "_iterate_discover_portal")))
        report(ctx, scene, {}, bad, info)
    for scene in known_witness_scenes():
        bad, info = check_scene(scene)
        ctx.count("search:witness", key=repr((clean(scene["a"]), clean(scene["b"]))))
        report(ctx, scene, {}, bad, info)
    for i in range(n):
        kinds = pairs[i % len(pairs)]
        placement = PLACEMENTS[(i // len(pairs)) % len(PLACEMENTS)]
        stream = "L" if ctx.rng.random() < 0.4 else "G"
        if ctx.rng.random() < 0.04:
            scene = gen_edge_scene(ctx.rng)
        else:
            scene = gen_scene(ctx.rng, stream, kinds, placement)
        bad, info = check_scene(scene)
        ident = all(np.array_equal(np.array(s["R"]), np.eye(3)) and not np.any(np.array(s["t"]))
                    for s in (scene["a"], scene["b"]))
        ctx.count("search:%s:%s" % (scene["stream"], scene["placement"]), key=repr((clean(scene["a"]), clean(scene["b"]))),
                  nontrivial=not ident)
        ctx.branch("pair", "%s/%s" % (scene["a"]["type"], scene["b"]["type"]))
        stats["intersections" if info.get("intersection") else "misses"] += 1
        stats["missed_overlap"] += int(bool(info.get("missed_overlap")))
        if bad:
            stats["violations"] += 1
            new = [b for b in bad if finding_of(scene, b[0], b[1], info) is None]
            if new and minimised < 3:
                minimised += 1
                small = minimise(scene, new[0][0])
                bad2, info2 = check_scene(small)
                if any(w == new[0][0] for w, _, _ in bad2):
                    small.update({"placement": scene["placement"], "stream": scene["stream"] + "-minimised"})
                    report(ctx, small, {}, [b for b in bad2 if b[0] == new[0][0]], info2)
            report(ctx, scene, {}, bad, info)
    ctx.extra["search_stats"] = stats


def gen_edge_scene(rng):
    """degenerate placements: coplanar flat shapes, stacked boxes sharing a face / edge / vertex,
    a shape and its copy shifted along an axis by exactly its width"""
    kind = rng.choice(["coplanar", "stack", "shifted-copy"])
    S = rng.choice([0.5, 1.0, 2.0, 8.0])
    if kind == "coplanar":
        a = gen_shape(rng, rng.choice(FLAT), S, True)
        b = gen_shape(rng, rng.choice(FLAT), S, True)
        b = translated(b, [rng.choice([0.0, 0.25, 0.5]) * S, rng.choice([0.0, 0.125]) * S, 0.0])
    elif kind == "stack":
        a = gen_shape(rng, "box", S, True)
        b = gen_shape(rng, "box", S, True)
        off = [0.5 * (a["size"][i] + b["size"][i]) * rng.choice([0, 0, 1, -1]) for i in range(3)]
        if not any(off):
            off[rng.randrange(3)] = 0.5 * (a["size"][0] + b["size"][0])
        b = translated(b, off)
    else:
        a = gen_shape(rng, rng.choice(TYPES), S, True)
        b = {k: (list(v) if isinstance(v, list) else v) for k, v in a.items()}
        ax = np.zeros(3)
        ax[rng.randrange(3)] = 1.0
        w = float((sup(a, ax) - sup(a, -ax)).dot(ax))
        b = translated(b, ax * w * rng.choice([1.0, 0.5, 0.0]))
    off = np.array([rng.choice([0.0, 4.0, -64.0]) for _ in range(3)])
    return {"a": clean(translated(a, off)), "b": clean(translated(b, off)), "placement": "edge-" + kind,
            "stream": "E", "n": [0.0, 0.0, 0.0], "target": None}


def known_witness_scenes():
    import json
    import os
    path = os.path.join(core.VERIF, "known_findings.d", "C08.json")
    out = []
    if os.path.exists(path):
        for k in json.load(open(path)):
            for key in ("witness", "witness2", "witness3"):
                w = k.get(key, {})
                if "a" in w and "b" in w:
                    out.append({"a": w["a"], "b": w["b"], "placement": "witness:" + k["id"], "stream": "W"})
    return out


def replay(ctx, payload):
    args = payload.get("args") or {}
    scene = args.get("scene")
    kw = args.get("kw") or {}
    if scene is None:
        for b in payload.get("broken", []):
            si = b.get("seed_input") or {}
            if "scene" in si:
                scene, kw = si["scene"], si.get("kw") or {}
                break
    if scene is None:
        print("replay file names no input:", str(payload.get("broken"))[:500])
        return False
    bad, info = check_scene(scene, kw=kw)
    print("result:", {k: info.get(k) for k in ("intersection", "depth", "direction", "position")}, "L =", info.get("L"))
    print("true depth in", [info.get("bounds", {}).get("lb"), info.get("bounds", {}).get("ub")],
          "proven gap", info.get("bounds", {}).get("sep"))
    for what, observed, expected in bad:
        print("FAIL", what, observed, "expected", expected)
    return not bad
