"""C17 — tetrahedral mesh factories partition the shape with valid potentials.

correspondence: Lean model (D3/Model/TetraMesh.lean) vs make_tetrahedral_cube / make_tetrahedral_box (all duplicate
classes, exact at Rat on dyadic sizes, Float on random sizes and around the relative tolerance), the three mesh helpers
on random / degenerate tetrahedra, the cylinder class decision and mesh, icosphere / ellipsoid / capsule meshes;
search: definition-level oracle on the real factories and RigidBody.make_* (own determinant, scipy ConvexHull volume,
analytic shape membership, geometric boundary/medial decision, index bookkeeping, helpers vs direct numpy).
"""
import ast
import inspect
import itertools
import math
import time
from fractions import Fraction as Fr

import numpy as np

import core
from core import f2h, h2f, q2s, s2q

RULE = ("one case = one factory call (cube, box, cylinder, capsule, sphere, ellipsoid) or one helper call with concrete "
        "parameters drawn from one PRNG: lattice stream (dyadic sizes, all class boundaries: three/two/no equal sides, "
        "length = diameter; model at Rat, compared exactly), boundary stream (sizes that differ by 0.3…3 times the "
        "relative tolerance 1e-14·max(1, min half size); cylinder half length − radius likewise), general stream "
        "(log-uniform sizes in [1e-2, 1e2], resolution hints coarse→fine, subdivision orders; model at Float, 1e-12 "
        "relative), malformed stream (zero sizes, zero hint, empty / flat meshes: compared on the error enum); a case is "
        "non-trivial unless it is the unit cube/box fixture; distinct = distinct encoded input")
EXPLANATION = ("box_tiling_exact / box_vertices_and_potentials / box_topology (all classes of make_tetrahedral_box), the "
               "cube analogues, cylinder_tiling_all_classes and the helper theorems are proved for the Lean model at exact "
               "real arithmetic for every positive size; this run compares that very model with the implementation "
               "(all six factories: vertices, tetrahedra, "
               "potentials; Rat-exact on dyadic sizes) and runs an independent oracle on all six real factories and "
               "RigidBody.make_*")
PARTIAL = {
    "sphere_ellipsoid_capsule_tiling": (
        "Σ volumes = volume of the convex hull of the vertices and strict positivity of every volume are NOT proved for "
        "make_tetrahedral_sphere / _ellipsoid / _capsule at arbitrary subdivision order / vertices per circle (convexity "
        "of the normalised icosphere, trigonometric sums of the cap rings); proved instead (sphere_structure, "
        "ellipsoid_structure, capsule_structure_thm): boundary vertices on the sphere / ellipsoid / cap spheres, all "
        "vertices on or inside the shape, potentials, element counts; the tiling statement for these three factories "
        "is covered by the oracle (scipy ConvexHull.volume, 1e-9 relative) only"),
    "cylinder_tiling_all_classes": (
        "proved for all three classes, every n >= 3 and every hint: all volumes > 0 and Σ volumes = l·½r²Σ sin Δ_k, the "
        "volume of the prism over the polygon of ring vertices; NOT formalised: that this prism is the convex hull of "
        "the vertex set (no hull-volume notion in the Lean development) — the oracle compares with scipy ConvexHull"),
    "icosphere_defined": (
        "proved for EVERY subdivision order on the position-triangle subdivision geoIco (the 20 icosahedron faces of the "
        "model's icoVertices0 / icoTriangles0, each pass replacing a triangle by the four sub-triangles of the python "
        "loop body with unnormalised midpoints 0.5·(p+q), exactly as the code stores them): every triangle keeps all "
        "three pairwise corner dot products > 0 (geoIco_posDots: base case geoIco0_posDots, every face dot = golden "
        "ratio via f² = f+1 at Real.sqrt 5, no kernel evaluation; inductive step icosphere_subdivision_step), hence no "
        "two corners antipodal and no edge midpoint is the zero vector (icosphere_midpoints_nonzero_all_orders), "
        "20·4^order triangles; and sphere_defined_of_nonzero_rows: for every order, if the cache creates at most the "
        "allocated rows, the midpoint pass returns exactly 10·4^order+2 rows and every row is non-zero, then "
        "make_tetrahedral_sphere returns a mesh (no division by zero in the final normalisation). Also proved for every "
        "order on the model's own index/cache state (icosphere_index_bookkeeping_all_orders, by induction over the "
        "fold): the midpoint pass reads only existing rows (no IndexError), returns exactly v = 12 + #created midpoints "
        "rows, every triangle index and cached index is < v (icoTopology_ok); the cache key is injective on unordered edges "
        "(cache_key_identifies_edge); consequently sphere_defined_of_count_and_nonzero_rows: v = 10·4^order+2 and all "
        "rows of the midpoint pass non-zero imply the factory returns a mesh. GLUE NOW PROVED for every order "
        "(D3/Proofs/TetraMeshIcoGlue.lean): the midpoint pass only appends, earlier rows are stable and row |vs|+i is "
        "0.5·(row a + row b) of the i-th parent pair (icosphere_midpoint_rows); cache invariant CacheOK (every cache "
        "entry (key, idx) has key = cantorKey a b with parents[idx−12] = (a, b)) is preserved by add_mid_point on hit and "
        "miss and the returned vertex has parent pair (a,b) or (b,a) (add_mid_point_returns_midpoint_of_requested_edge, "
        "uses cache_key_identifies_edge); lifted through subdivideTriangle, the fold over the triangles and Nat.repeat "
        "(icoTopology_glue): the position triangles of icoTopology's index triangles, rows looked up in the result of "
        "the model's midpoint pass, are exactly geoIco order, same order of triangles and corners "
        "(icosphere_index_triangles_are_geoIco_all_orders); every vertex index < v is a corner of a triangle of the final "
        "level (icoTopology_cover), hence every row of the midpoint pass is non-zero at every order "
        "(icosphere_rows_nonzero_all_orders), and sphere_defined_of_count / ellipsoid_defined_of_count: v = 10·4^order+2 "
        "ALONE implies make_tetrahedral_sphere (every radius > 0) / make_tetrahedral_ellipsoid (every radii) returns a "
        "mesh. Count additionally kernel-evaluated at order 3 (icosphere_vertex_count_order3: 642 vertices, cache ends "
        "empty; an evaluation of that one order, about 10 s), so sphere_defined_orders_le_3 / ellipsoid_defined_orders_le_3: both factories return "
        "a mesh for orders 0–3 unconditionally. REMAINING (not proved): only (b) that exactly 10·4^order+2 vertices are "
        "created for order > 3 (needs: every undirected edge of the level-k triangulation is shared by exactly two "
        "triangles, so the pop-on-second-hit cache creates one vertex per edge and ends empty; V' = V + 3F/2, F' = 4F; "
        "not attempted; order 4 also evaluates with decide +kernel but takes about 2 minutes and is not included). So "
        "sphere_structure / ellipsoid_structure stay conditional on the factory returning a mesh for order >= 4 (orders "
        "0–4 are exercised on the real code). The code has no per-midpoint "
        "normalisation, so 'every vertex has norm = radius' is the existing sphere_structure (any order, conditional)"),
    "capsule_boundary": (
        "proved (capsule_cap_vertices_on_surface, helper capsule_cap_vertices_core / capsule_theta_mem): for r >= 0 every "
        "vertex of the returned mesh except the two medial ones (both poles and all ring vertices of both caps) is at "
        "distance exactly r from the top cap centre with z >= h/2 or from the bottom cap centre with z <= -h/2, strictly "
        "for r > 0 (ring polar angles in (0, π/2) because the double np.pi is below π), i.e. on the capsule surface; "
        "remaining: nothing is proved about the cylindrical part of the surface because the factory places no vertices "
        "there (lowest ring has polar angle np.pi/2 < π/2, slightly above the cap centre), and that the vertex set is in "
        "convex position is not proved (see sphere_ellipsoid_capsule_tiling)"),
}
ASSUMPTIONS = [
    "float rounding is not modelled: theorems are at exact real arithmetic; the 1e-9·L tolerance of the property is the "
    "allowance of the oracle, 1e-12 relative that of the Float correspondence",
    "math.ceil / int(np.clip(…)) are modelled by counting loops (least integer ≥ x from 3; largest integer ≤ x in [3,706])",
    "np.pi, np.cos, np.sin: the model uses the double 3.141592653589793 and the scalar's cos/sin (libm at Float, "
    "Real.cos/Real.sin in theorems)",
    "scipy.spatial.ConvexHull.volume is trusted as the reference volume of the polyhedral approximation (oracle only)",
]
TRUSTED = ["_tetra_mesh_creation.py is modelled in full (icosphere with midpoint cache, sphere, ellipsoid, cube, box, "
           "_split_to_tetrahedra, cylinder incl. class decision and the three element generators, prism/pyramid "
           "splitting, capsule); _mesh_processing.py in full; of _rigid_body.py only that make_* pass the factory "
           "output through (checked by the oracle, not modelled)",
           "none of these functions is numba-compiled: the interpreted engine is the only engine"]

MANIFEST = dict(
    text=("Lean theorems for make_tetrahedral_box in all classes (one/two/three smallest sides, incl. sides closer than "
          "the relative tolerance) and make_tetrahedral_cube, for every positive size: every tetrahedron has strictly "
          "positive volume, volumes sum to sx·sy·sz exactly, vertices in the box, boundary potential 0 / medial potential "
          "min(s)/2, no repeated index, every vertex used, the ≤12 assertion unreachable; helper theorems "
          "(volume = |det|/6 ≥ 0, zero iff coplanar, AABB encloses and is tight, centre of mass is the volume-weighted "
          "mean); make_tetrahedral_cylinder in all three classes for every n >= 3: positive volumes, volumes sum to the "
          "polygonal prism volume, vertices in the cylinder, potentials, class decision; structural theorems for "
          "sphere/ellipsoid/capsule (vertices on the surface, potentials, counts; icosphere subdivision at every order: "
          "pairwise corner dot products of every triangle > 0 and no edge midpoint zero (icosphere_subdivision_step, "
          "icosphere_midpoints_nonzero_all_orders), factory defined if the rows are complete and non-zero "
          "(sphere_defined_of_nonzero_rows, sphere_defined_of_count_and_nonzero_rows), midpoint pass index-safe at every "
          "order (icosphere_index_bookkeeping_all_orders), cache key injective on unordered edges "
          "(cache_key_identifies_edge); index/cache subdivision identified with the position-triangle subdivision at "
          "every order (add_mid_point_returns_midpoint_of_requested_edge, icosphere_midpoint_rows, "
          "icosphere_index_triangles_are_geoIco_all_orders), all rows non-zero (icosphere_rows_nonzero_all_orders), "
          "factories defined given only the vertex count (sphere_defined_of_count, ellipsoid_defined_of_count), count "
          "evaluated at order 3 (icosphere_vertex_count_order3), sphere_defined_orders_le_3, ellipsoid_defined_orders_le_3; capsule_cap_vertices_on_surface: all "
          "capsule vertices but the two medial ones on the outward hemisphere of their cap sphere); model compared with the "
          "implementation (Rat-exact on dyadic sizes); oracle on the six real factories with ConvexHull volume."),
    note=("trusted: Lean kernel + Mathlib, axioms propext/Classical.choice/Quot.sound; exact-real semantics; "
          "Σ volumes = hull volume for sphere/ellipsoid/capsule is oracle-only (partial), for the cylinder the prism = "
          "hull step is oracle-only; scipy ConvexHull; "
          "correspondence harness (sampling + exhaustive dyadic lattice)."),
    technique="Lean 4 proof on hand-written model + correspondence (Rat-exact lattice, Float general) + ConvexHull oracle",
    design="§7 C17")

TOL_FACTOR = 1e-14      # the literal of the model (TetraMesh.tolFactor)
LATTICE = [Fr(1, 4), Fr(1, 2), Fr(1), Fr(3, 2), Fr(2), Fr(3)]


# ------------------------------------------------------------------ implementation access
def TM():
    from distance3d.hydroelastic_contact import _tetra_mesh_creation as m
    return m


def MP():
    from distance3d.hydroelastic_contact import _mesh_processing as m
    return m


def fl(x):
    if isinstance(x, dict):
        return {k: fl(v) for k, v in x.items()}
    if isinstance(x, (list, tuple)):
        return [fl(v) for v in x]
    if isinstance(x, Fr):
        return float(x)
    return x


def build(spf):
    """raw factory call for a float spec -> (vertices, tetrahedra, potentials)"""
    k = spf["factory"]
    t = TM()
    if k == "cube":
        return t.make_tetrahedral_cube(float(spf["size"]))
    if k == "box":
        return t.make_tetrahedral_box(np.array(spf["size"], dtype=float))
    if k == "cylinder":
        return t.make_tetrahedral_cylinder(float(spf["radius"]), float(spf["length"]), float(spf["hint"]))
    if k == "capsule":
        return t.make_tetrahedral_capsule(float(spf["radius"]), float(spf["height"]), float(spf["hint"]))
    if k == "sphere":
        return t.make_tetrahedral_sphere(float(spf["radius"]), int(spf["order"]))
    if k == "ellipsoid":
        return t.make_tetrahedral_ellipsoid(np.array(spf["radii"], dtype=float), int(spf["order"]))
    raise ValueError(k)


def build_rigid(spf, pose):
    from distance3d.hydroelastic_contact import RigidBody
    k = spf["factory"]
    if k == "cube":
        return RigidBody.make_cube(pose, float(spf["size"]))
    if k == "box":
        return RigidBody.make_box(pose, np.array(spf["size"], dtype=float))
    if k == "cylinder":
        return RigidBody.make_cylinder(pose, float(spf["radius"]), float(spf["length"]), float(spf["hint"]))
    if k == "capsule":
        return RigidBody.make_capsule(pose, float(spf["radius"]), float(spf["height"]), float(spf["hint"]))
    if k == "sphere":
        return RigidBody.make_sphere(np.ascontiguousarray(pose[:3, 3]), float(spf["radius"]), int(spf["order"]))
    if k == "ellipsoid":
        return RigidBody.make_ellipsoid(pose, np.array(spf["radii"], dtype=float), int(spf["order"]))
    raise ValueError(k)


def err_name(e):
    if isinstance(e, ZeroDivisionError):
        return "divZero"
    if isinstance(e, IndexError):
        return "indexOOB"
    if isinstance(e, AssertionError):
        return "assertFail"
    if isinstance(e, ValueError):
        return "badInput"
    return "exc:" + type(e).__name__


def n_circle_cylinder(radius, hint):
    return max(3, math.ceil(2.0 * math.pi * radius / hint))


def n_circle_capsule(radius, hint):
    return int(min(max(2.0 * math.pi * radius / hint, 3.0), 706.0))


def well_formed(spf):
    """inside the property's domain: strictly positive sizes / radii / hint, order >= 0"""
    try:
        k = spf["factory"]
        if k == "cube":
            vals = [spf["size"]]
        elif k == "box":
            vals = list(spf["size"])
        elif k == "cylinder":
            vals = [spf["radius"], spf["length"], spf["hint"]]
        elif k == "capsule":
            vals = [spf["radius"], spf["height"], spf["hint"]]
        elif k == "sphere":
            vals = [spf["radius"]]
        elif k == "ellipsoid":
            vals = list(spf["radii"])
        else:
            return False
        return all(math.isfinite(float(v)) and float(v) > 0 for v in vals) and int(spf.get("order", 0)) >= 0
    except Exception:  # noqa
        return False


def feature_scale(spf):
    """L of the property: max(1, largest feature size)"""
    k = spf["factory"]
    if k == "cube":
        return max(1.0, spf["size"])
    if k == "box":
        return max(1.0, max(spf["size"]))
    if k == "cylinder":
        return max(1.0, 2 * spf["radius"], spf["length"])
    if k == "capsule":
        return max(1.0, spf["height"] + 2 * spf["radius"])
    if k == "sphere":
        return max(1.0, 2 * spf["radius"])
    if k == "ellipsoid":
        return max(1.0, 2 * max(spf["radii"]))
    raise ValueError(k)


def inradius(spf):
    k = spf["factory"]
    if k == "cube":
        return spf["size"] / 2
    if k == "box":
        return min(spf["size"]) / 2
    if k == "cylinder":
        return min(spf["radius"], spf["length"] / 2)
    if k == "capsule":
        return spf["radius"]
    if k == "sphere":
        return spf["radius"]
    if k == "ellipsoid":
        return min(spf["radii"])
    raise ValueError(k)


def depth(spf, V):
    """signed depth of the points below the analytic surface (>= 0 inside, 0 on the surface); for the ellipsoid the
    implicit function scaled by the smallest radius"""
    k = spf["factory"]
    x, y, z = V[:, 0], V[:, 1], V[:, 2]
    rho = np.hypot(x, y)
    if k == "cube":
        h = spf["size"] / 2
        return np.min(h - np.abs(V), axis=1)
    if k == "box":
        h = np.array(spf["size"], dtype=float) / 2
        return np.min(h - np.abs(V), axis=1)
    if k == "cylinder":
        return np.minimum(spf["radius"] - rho, spf["length"] / 2 - np.abs(z))
    if k == "capsule":
        zc = np.clip(z, -spf["height"] / 2, spf["height"] / 2)
        return spf["radius"] - np.sqrt(rho ** 2 + (z - zc) ** 2)
    if k == "sphere":
        return spf["radius"] - np.sqrt(x * x + y * y + z * z)
    if k == "ellipsoid":
        r = np.array(spf["radii"], dtype=float)
        return (1.0 - np.sqrt(np.sum((V / r) ** 2, axis=1))) * r.min()
    raise ValueError(k)


def exact_volume(spf):
    """closed-form volume of the polyhedral approximation where the property demands exactness"""
    k = spf["factory"]
    if k == "cube":
        return spf["size"] ** 3
    if k == "box":
        s = spf["size"]
        return s[0] * s[1] * s[2]
    return None


# ------------------------------------------------------------------ oracle (independent of the model)
def own_dets(P):
    """a · (b × c) for every row of P (n,4,3), a/b/c the edges out of vertex 0"""
    a = P[:, 1] - P[:, 0]
    b = P[:, 2] - P[:, 0]
    c = P[:, 3] - P[:, 0]
    return (a[:, 0] * (b[:, 1] * c[:, 2] - b[:, 2] * c[:, 1])
            - a[:, 1] * (b[:, 0] * c[:, 2] - b[:, 2] * c[:, 0])
            + a[:, 2] * (b[:, 0] * c[:, 1] - b[:, 1] * c[:, 0]))


def exact_det(p):
    """exact determinant of one tetrahedron given as 4×3 floats"""
    q = [[Fr(float(x)) for x in row] for row in p]
    a = [q[1][i] - q[0][i] for i in range(3)]
    b = [q[2][i] - q[0][i] for i in range(3)]
    c = [q[3][i] - q[0][i] for i in range(3)]
    return (a[0] * (b[1] * c[2] - b[2] * c[1]) - a[1] * (b[0] * c[2] - b[2] * c[0])
            + a[2] * (b[0] * c[1] - b[1] * c[0]))


def hull_volume(V):
    from scipy.spatial import ConvexHull
    try:
        return float(ConvexHull(V).volume)
    except Exception:
        return float(ConvexHull(V, qhull_options="QJ").volume)


def oracle_overlap(TP, det, rng, k=40):
    """no overlaps: a point sampled well inside one tetrahedron (barycentric weights >= 0.05) must not lie strictly
    inside any other one.  Together with Σ volumes = hull volume this is the tiling statement of the property (the
    volume sum alone cannot see an overlap that is compensated by a gap).  Slivers (|det| <= 1e-6·edge³, e.g. the
    thin tetrahedra of the classes next to a tolerance boundary) are left out: their barycentric coordinates are
    ill-conditioned and their volume is negligible."""
    n = len(TP)
    e = TP[:, 1:] - TP[:, :1]
    edge = np.sqrt(np.max(np.sum(e * e, axis=2), axis=1))
    good = np.nonzero(np.abs(det) > 1e-6 * edge ** 3)[0]
    if len(good) < 2:
        return []
    pick = [good[rng.randrange(len(good))] for _ in range(min(k, len(good)))]
    w = np.array([[rng.random() for _ in range(4)] for _ in pick])
    w = 0.05 + 0.8 * w / w.sum(axis=1)[:, None]
    pts = np.einsum("ki,kij->kj", w, TP[pick])
    inv = np.linalg.inv(e[good])                       # rows of e are the edge vectors: lam = (p - p0) @ inv
    d = pts[:, None, :] - TP[good][None, :, 0, :]      # (k, g, 3)
    lam = np.einsum("kgi,gij->kgj", d, inv)
    lam0 = 1.0 - lam.sum(axis=2)
    inside = np.all(lam > 1e-7, axis=2) & (lam0 > 1e-7)
    bad = []
    for a, i in enumerate(pick):
        others = [int(good[j]) for j in np.nonzero(inside[a])[0] if good[j] != i]
        if others:
            bad.append("overlap: the point %s inside tetrahedron %d (weights >= 0.05) is also strictly inside "
                       "tetrahedron %d" % (pts[a].tolist(), int(i), others[0]))
            break
    return bad


def oracle_mesh(spf, V, T, P, rng=None):
    """all statements of C17 about one factory output. Returns list of problem strings."""
    bad = []
    V = np.asarray(V)
    T = np.asarray(T)
    P = np.asarray(P)
    L = feature_scale(spf)
    tol = 1e-9 * L
    if V.ndim != 2 or V.shape[1] != 3 or T.ndim != 2 or T.shape[1] != 4 or P.shape != (len(V),):
        return ["shapes: vertices %s tetrahedra %s potentials %s" % (V.shape, T.shape, P.shape)]
    if not np.issubdtype(T.dtype, np.integer):
        bad.append("tetrahedra dtype %s is not integer" % T.dtype)
        return bad
    if not (np.all(np.isfinite(V)) and np.all(np.isfinite(P))):
        return ["non-finite vertex or potential"]
    if len(T) == 0:
        return ["no tetrahedra"]
    if T.min() < 0 or T.max() >= len(V):
        return ["tetrahedron index outside [0, %d): min %d max %d" % (len(V), T.min(), T.max())]
    # index bookkeeping
    srt = np.sort(T, axis=1)
    rep = np.nonzero(np.any(srt[:, 1:] == srt[:, :-1], axis=1))[0]
    if len(rep):
        bad.append("tetrahedron %d = %s has a repeated vertex index" % (rep[0], T[rep[0]].tolist()))
    unused = sorted(set(range(len(V))) - set(T.ravel().tolist()))
    if unused:
        bad.append("vertex indices never used by a tetrahedron: %s" % unused[:8])
    # volumes by own determinant; exact re-evaluation where the float value is tiny
    TP = V[T]
    det = own_dets(TP)
    ext = float(np.max(np.abs(V))) if len(V) else 1.0
    small = np.nonzero(np.abs(det) <= 1e-9 * max(ext, 1e-300) ** 3)[0]
    n_exact = 0
    for i in small[:4000]:
        n_exact += 1
        d = exact_det(TP[i])
        if d == 0:
            bad.append("tetrahedron %d = %s has volume exactly 0 (vertices %s)" % (i, T[i].tolist(), TP[i].tolist()))
            break
        det[i] = float(d)
    vol = np.abs(det) / 6.0
    if np.any(vol <= 0) and not any("volume exactly 0" in b for b in bad):
        i = int(np.argmin(vol))
        bad.append("tetrahedron %d = %s has volume %.3g <= 0" % (i, T[i].tolist(), vol[i]))
    total = float(np.sum(vol))
    hv = hull_volume(V)
    if not abs(total - hv) <= 1e-9 * hv:
        bad.append("sum of volumes %.17g != convex hull volume %.17g (rel %.3g)" % (total, hv, (total - hv) / hv))
    if rng is not None:
        bad += oracle_overlap(TP, det, rng)
    ev = exact_volume(spf)
    if ev is not None and not abs(total - ev) <= 1e-9 * ev:
        bad.append("sum of volumes %.17g != product of sizes %.17g (rel %.3g)" % (total, ev, (total - ev) / ev))
    # membership and potentials (boundary / medial decided from the geometry)
    dp = depth(spf, V)
    out = np.nonzero(dp < -tol)[0]
    if len(out):
        i = int(out[np.argmin(dp[out])])
        bad.append("vertex %d = %s lies outside the analytic shape by %.3g (tol %.3g)" % (i, V[i].tolist(), -dp[i], tol))
    rin = inradius(spf)
    on_boundary = np.abs(dp) <= tol
    interior = dp > tol
    wb = np.nonzero(on_boundary & (np.abs(P) > tol))[0]
    if len(wb):
        bad.append("boundary vertex %d = %s has potential %.17g instead of 0" % (wb[0], V[wb[0]].tolist(), P[wb[0]]))
    wi = np.nonzero(interior & (np.abs(P - rin) > tol))[0]
    if len(wi):
        bad.append("interior vertex %d = %s has potential %.17g instead of the inradius %.17g"
                   % (wi[0], V[wi[0]].tolist(), P[wi[0]], rin))
    if not np.any(interior):
        bad.append("no interior (medial) vertex")
    return bad, dict(vol=vol, TP=TP, total=total, n_exact=n_exact)


def oracle_helpers(TP, vol, L):
    """tetrahedral_mesh_volumes / aabbs / center_of_mass_tetrahedral_mesh vs direct computation"""
    bad = []
    mp = MP()
    ext = max(1.0, float(np.max(np.abs(TP)))) if TP.size else 1.0
    with np.errstate(all="ignore"):
        hv = np.asarray(mp.tetrahedral_mesh_volumes(TP))
        hb = np.asarray(mp.tetrahedral_mesh_aabbs(TP))
        hc = np.asarray(mp.center_of_mass_tetrahedral_mesh(TP))
    if hv.shape != vol.shape or not np.all(np.abs(hv - vol) <= 1e-12 * ext ** 3 + 1e-9 * vol):
        i = int(np.argmax(np.abs(hv - vol))) if hv.shape == vol.shape else -1
        bad.append("tetrahedral_mesh_volumes[%d] = %s but |det|/6 = %s" % (
            i, hv[i] if i >= 0 else hv.shape, vol[i] if i >= 0 else vol.shape))
    mins = np.minimum(np.minimum(TP[:, 0], TP[:, 1]), np.minimum(TP[:, 2], TP[:, 3]))
    maxs = np.maximum(np.maximum(TP[:, 0], TP[:, 1]), np.maximum(TP[:, 2], TP[:, 3]))
    if hb.shape != (len(TP), 3, 2) or not (np.array_equal(hb[:, :, 0], mins) and np.array_equal(hb[:, :, 1], maxs)):
        bad.append("tetrahedral_mesh_aabbs differs from componentwise min/max of the four vertices")
    sv = float(np.sum(vol))
    if sv > 0:
        cen = (TP[:, 0] + TP[:, 1] + TP[:, 2] + TP[:, 3]) / 4.0
        com = (vol[:, None] * cen).sum(axis=0) / sv
        if hc.shape != (3,) or not np.all(np.abs(hc - com) <= 1e-9 * L):
            bad.append("center_of_mass_tetrahedral_mesh = %s but Σ vol·centroid / Σ vol = %s" % (hc.tolist(), com.tolist()))
    return bad


def oracle_rigid(spf, V, T, P, rng):
    """RigidBody.make_* must pass the raw factory output through and its derived data must be the helpers' values"""
    bad = []
    pose = np.eye(4)
    pose[:3, 3] = [rng.uniform(-1, 1) for _ in range(3)]
    a = rng.uniform(0, 2 * math.pi)
    pose[:3, :3] = [[math.cos(a), -math.sin(a), 0], [math.sin(a), math.cos(a), 0], [0, 0, 1]]
    try:
        rb = build_rigid(spf, np.ascontiguousarray(pose))
    except Exception as e:  # noqa
        return ["RigidBody.make_%s raised %r" % (spf["factory"], e)]
    if not (np.array_equal(rb.vertices_, V) and np.array_equal(rb.tetrahedra_, T) and np.array_equal(rb.potentials_, P)):
        bad.append("RigidBody.make_%s mesh differs from make_tetrahedral_%s" % (spf["factory"], spf["factory"]))
        return bad
    want_pose = pose if spf["factory"] != "sphere" else np.vstack((np.hstack((np.eye(3), pose[:3, 3:4])), [0, 0, 0, 1]))
    if not np.array_equal(np.asarray(rb.body2origin_), want_pose):
        bad.append("RigidBody.make_%s pose %s differs from the requested one" % (spf["factory"], np.asarray(rb.body2origin_).tolist()))
    TP = V[T]
    if not np.array_equal(rb.tetrahedra_points, TP):
        bad.append("RigidBody.tetrahedra_points != vertices[tetrahedra]")
    if not np.array_equal(rb.tetrahedra_potentials, P[T]):
        bad.append("RigidBody.tetrahedra_potentials != potentials[tetrahedra]")
    mins, maxs = TP.min(axis=1), TP.max(axis=1)
    ab = np.asarray(rb.aabbs)
    if ab.shape != (len(T), 3, 2) or not (np.array_equal(ab[:, :, 0], mins) and np.array_equal(ab[:, :, 1], maxs)):
        bad.append("RigidBody.aabbs differs from the per-tetrahedron min/max")
    det = own_dets(TP)
    vol = np.abs(det) / 6.0
    cen = TP.mean(axis=1)
    com = (vol[:, None] * cen).sum(axis=0) / vol.sum()
    if not np.all(np.abs(np.asarray(rb.com) - com) <= 1e-9 * feature_scale(spf)):
        bad.append("RigidBody.com = %s but direct = %s" % (np.asarray(rb.com).tolist(), com.tolist()))
    return bad


def check_spec(ctx, spf, rng, with_rigid=True):
    """run everything on one factory spec (floats); report failures; True iff the property held"""
    fn = "make_tetrahedral_" + spf["factory"]
    try:
        with np.errstate(all="ignore"):
            V, T, P = build(spf)
    except Exception as e:  # noqa
        ctx.fail(fn, {"spec": spf}, "raised %r" % (e,), "a mesh", "factory must not raise on well-formed parameters")
        return False
    res = oracle_mesh(spf, V, T, P, rng)
    if isinstance(res, list):
        bad, info = res, None
    else:
        bad, info = res
    if info is not None:
        bad += oracle_helpers(info["TP"], info["vol"], feature_scale(spf))
        if with_rigid:
            bad += oracle_rigid(spf, np.asarray(V), np.asarray(T), np.asarray(P), rng)
        ctx.extra["exact_det_reevaluations"] = ctx.extra.get("exact_det_reevaluations", 0) + info["n_exact"]
    if bad:
        ctx.fail(fn, {"spec": spf}, {"problems": bad[:6], "n_vertices": int(len(V)), "n_tetrahedra": int(len(T))},
                 "all volumes > 0; Σ volumes = ConvexHull(vertices).volume within 1e-9 rel (exact product for box/cube); no "
                 "interior sample point of one tetrahedron strictly inside another; "
                 "vertices within 1e-9·L of the shape; potential 0 on the boundary and inradius at interior vertices; "
                 "every index used, none repeated; helpers and RigidBody.make_* agree with direct computation",
                 "own determinant (exact Fraction re-evaluation of tiny ones) + scipy ConvexHull + analytic membership")
        return False
    return True


# ------------------------------------------------------------------ generators
def logu(rng, lo=-2.0, hi=2.0):
    return 10 ** rng.uniform(lo, hi)


def near(rng, base, c):
    """base + c · tolerance(base) (float), tolerance = 1e-14·max(1, base)"""
    return base + c * TOL_FACTOR * max(1.0, base)


def gen_box_boundary(rng):
    """sizes whose half sizes differ from the smallest one by 0.3…3 relative tolerances"""
    mn = rng.choice([0.005, 0.05, 0.5, 1.0, 2.5, 50.0]) if rng.random() < 0.5 else logu(rng, -2.3, 1.69)
    hs = []
    for _ in range(3):
        u = rng.random()
        if u < 0.3:
            hs.append(mn)
        elif u < 0.75:
            hs.append(near(rng, mn, rng.choice([0.3, 0.9, 0.99, 1.01, 1.1, 2.0, 3.0])))
        else:
            hs.append(mn * rng.choice([1.5, 2.0, 7.0]))
    hs[rng.randrange(3)] = mn
    return {"factory": "box", "size": [2.0 * h for h in hs]}


def gen_box_general(rng):
    u = rng.random()
    s = [logu(rng) for _ in range(3)]
    if u < 0.15:
        s[1] = s[0]
    elif u < 0.25:
        s[2] = s[0]
    elif u < 0.35:
        s[2] = s[1]
    elif u < 0.42:
        s = [s[0]] * 3
    return {"factory": "box", "size": s}


def gen_cylinder(rng, kind, nmax):
    r = logu(rng)
    if kind == "boundary":
        r = rng.choice([0.01, 0.5, 1.0, 3.0, 100.0]) if rng.random() < 0.5 else logu(rng, -2, 1.69)
        c = rng.choice([0.0, 0.3, 0.9, 1.1, 3.0, -0.3, -0.9, -1.1, -3.0])
        top = r + c * TOL_FACTOR * max(1.0, r)
        length = 2.0 * top
    elif kind == "ratio":
        length = 2.0 * r * rng.choice([0.05, 0.5, 0.9, 0.999, 1.0, 1.001, 1.1, 2.0, 20.0])
        length = min(max(length, 1e-2), 1e2)
    else:
        length = logu(rng)
    n = rng.choice([3, 3, 4, 5, 6, 7, 8, 12, 17, 24, 33, nmax])
    hint = 2.0 * math.pi * r / (n - rng.choice([0.0, 0.25, 0.5])) if rng.random() < 0.8 else r * logu(rng, -1, 1.5)
    if n == 3 and rng.random() < 0.5:
        hint = 2.0 * math.pi * r * rng.choice([0.5, 1.0, 10.0])      # coarser than a triangle: clamps to 3
    return {"factory": "cylinder", "radius": r, "length": length, "hint": hint}


def gen_capsule(rng, nmax):
    r = logu(rng)
    h = logu(rng)
    n = rng.choice([3, 3, 4, 5, 6, 7, 8, 9, 12, 15, nmax])
    hint = 2.0 * math.pi * r / (n + rng.choice([0.0, 0.25, 0.5, 0.75]))
    if rng.random() < 0.15:
        hint = 2.0 * math.pi * r * rng.choice([0.5, 1.0, 10.0])
    return {"factory": "capsule", "radius": r, "height": h, "hint": hint}


def gen_round(rng, kind, order):
    if kind == "sphere":
        return {"factory": "sphere", "radius": logu(rng), "order": order}
    radii = [logu(rng) for _ in range(3)]
    u = rng.random()
    if u < 0.2:
        radii[1] = radii[0]
    elif u < 0.3:
        radii = [radii[0]] * 3
    return {"factory": "ellipsoid", "radii": radii, "order": order}


def lattice_tet(rng):
    vals = [-2, -1, -0.5, 0, 0.5, 1, 2, 3]
    t = [[rng.choice(vals) for _ in range(3)] for _ in range(4)]
    u = rng.random()
    if u < 0.15:
        t[3] = list(t[rng.randrange(3)])               # repeated point
    elif u < 0.3:
        z = rng.choice(vals)
        for p in t:
            p[2] = z                                   # coplanar
    elif u < 0.4:
        a, b = rng.choice([(0.5, 0.5), (2, -1), (0.25, 0.75)])
        t[3] = [a * t[0][i] + b * t[1][i] + (1 - a - b) * t[2][i] for i in range(3)]   # in the plane of the others
    return t


def general_tet(rng):
    sc = logu(rng)
    off = [rng.uniform(-1, 1) * logu(rng, -1, 3) for _ in range(3)]
    return [[off[i] + rng.uniform(-1, 1) * sc for i in range(3)] for _ in range(4)]


# ------------------------------------------------------------------ driver encoding / decoding
def tk(x, mode):
    return q2s(Fr(x)) if mode == "Q" else f2h(float(x))


def enc_tet(t, mode):
    return [tk(x, mode) for p in t for x in p]


def parse_mesh(out, mode):
    """-> ("ok", branch, V (list of 3-lists), T (list of 4-tuples), P (list)) | ("err", name) | ("bad", text)"""
    if out is None:
        return ("bad", "missing")
    head = out.split(" ", 2)
    if head[0] == "err":
        return ("err", head[1])
    if head[0] != "ok":
        return ("bad", out[:200])
    parts = out.split("|")
    h = parts[0].split()
    br, nv, nt, npot = int(h[1]), int(h[2]), int(h[3]), int(h[4])
    conv = (lambda s: s2q(s)) if mode == "Q" else h2f
    vs = [conv(s) for s in parts[1].split()]
    ts = [int(s) for s in parts[2].split()]
    ps = [conv(s) for s in parts[3].split()]
    if len(vs) != 3 * nv or len(ts) != 4 * nt or len(ps) != npot:
        return ("bad", "counts")
    V = [vs[3 * i:3 * i + 3] for i in range(nv)]
    T = [tuple(ts[4 * i:4 * i + 4]) for i in range(nt)]
    return ("ok", br, V, T, ps)


def impl_mesh(spf):
    """-> ("ok", V, T, P) | ("err", name)"""
    try:
        with np.errstate(all="ignore"):
            V, T, P = build(spf)
    except Exception as e:  # noqa
        return ("err", err_name(e), str(e)[:200])
    V = np.asarray(V, dtype=float)
    P = np.asarray(P, dtype=float)
    if np.any(np.isnan(V)) or np.any(np.isnan(P)):
        return ("err", "divZero", "nan")
    return ("ok", V.tolist(), [tuple(int(i) for i in t) for t in np.asarray(T).tolist()], P.tolist())


def compare_mesh(model, impl, mode, rel):
    """None if equal, else a message. Q: exact equality of every coordinate and potential; F: |Δ| <= rel·scale.
    Tetrahedra: equal as multisets of ordered index tuples (canonical sorting), vertices in order."""
    if model[0] == "bad":
        return "model output unreadable: %s" % (model[1],)
    if model[0] == "err" or impl[0] == "err":
        if model[0] == "err" and impl[0] == "err" and model[1] == impl[1]:
            return None
        return "outcome differs: model %s, implementation %s" % (model[:2], impl[:2])
    _, _, mV, mT, mP = model
    _, iV, iT, iP = impl
    if len(mV) != len(iV) or len(mT) != len(iT) or len(mP) != len(iP):
        return "sizes differ: model %d/%d/%d implementation %d/%d/%d" % (len(mV), len(mT), len(mP), len(iV), len(iT), len(iP))
    if sorted(mT) != sorted(iT):
        d = sorted(set(mT) ^ set(iT))[:4]
        return "tetrahedra differ (symmetric difference starts with %s)" % (d,)
    if mode == "Q":
        for k, (a, b) in enumerate(zip(mV, iV)):
            if any(x != Fr(float(y)) for x, y in zip(a, b)):
                return "vertex %d: model %s implementation %s" % (k, [str(x) for x in a], b)
        for k, (a, b) in enumerate(zip(mP, iP)):
            if a != Fr(float(b)):
                return "potential %d: model %s implementation %s" % (k, a, b)
        return None
    scale = max([1e-300] + [abs(float(x)) for v in iV for x in v])
    for k, (a, b) in enumerate(zip(mV, iV)):
        if any(not abs(float(x) - float(y)) <= rel * scale for x, y in zip(a, b)):
            return "vertex %d: model %s implementation %s" % (k, a, b)
    for k, (a, b) in enumerate(zip(mP, iP)):
        if not abs(float(a) - float(b)) <= rel * scale:
            return "potential %d: model %s implementation %s" % (k, a, b)
    return None


def enc_spec(sp, mode):
    """(driver fn, tokens) for a factory spec"""
    k = sp["factory"]
    if k == "cube":
        return "C17.cube", [tk(sp["size"], mode)]
    if k == "box":
        return "C17.box", [tk(x, mode) for x in sp["size"]]
    if k == "cylinder":
        return "C17.cylinder", [tk(sp["radius"], mode), tk(sp["length"], mode), tk(sp["hint"], mode)]
    if k == "capsule":
        return "C17.capsule", [tk(sp["radius"], mode), tk(sp["height"], mode), tk(sp["hint"], mode)]
    if k == "sphere":
        return "C17.sphere", [tk(sp["radius"], mode), str(sp["order"])]
    if k == "ellipsoid":
        return "C17.ellipsoid", [tk(x, mode) for x in sp["radii"]] + [str(sp["order"])]
    raise ValueError(k)


def source_literals():
    """the `1e-14` literals of the two tolerance expressions, read from today's source (information only; the
    behavioural tie is the boundary stream)"""
    out = {}
    try:
        t = TM()
        for fn in ("make_tetrahedral_box", "make_tetrahedral_cylinder"):
            tree = ast.parse(inspect.getsource(getattr(t, fn)))
            for node in ast.walk(tree):
                if isinstance(node, ast.Assign) and isinstance(node.targets[0], ast.Name) and \
                        node.targets[0].id in ("relative_tolerance", "tolerance"):
                    out[fn] = ast.unparse(node.value)
    except Exception as e:  # noqa
        out["error"] = repr(e)
    return out


# ------------------------------------------------------------------ correspondence
def correspondence(ctx):
    rng = ctx.rng
    cases = []        # (stream, mode, spec)
    # ---- lattice: every size triple over the dyadic lattice (exhaustive, 216), cube sizes, cylinder classes
    for s in itertools.product(LATTICE, repeat=3):
        cases.append(("L:box", "Q", {"factory": "box", "size": list(s)}))
    for s in LATTICE + [Fr(1, 64), Fr(100)]:
        cases.append(("L:cube", "Q", {"factory": "cube", "size": s}))
    # ---- boundary and general streams
    for _ in range(ctx.budget(800, 12000)):
        cases.append(("B:box", "F", gen_box_boundary(rng)))
    for _ in range(ctx.budget(800, 12000)):
        cases.append(("G:box", "F", gen_box_general(rng)))
    for _ in range(ctx.budget(40, 1000)):
        cases.append(("G:cube", "F", {"factory": "cube", "size": logu(rng)}))
    nmax = ctx.budget(40, 200)
    for kind, n in (("boundary", ctx.budget(200, 3000)), ("ratio", ctx.budget(100, 1500)), ("general", ctx.budget(100, 1500))):
        for _ in range(n):
            cases.append(("%s:cylinder" % kind[0].upper(), "F", gen_cylinder(rng, kind, nmax)))
    for _ in range(ctx.budget(60, 800)):
        cases.append(("G:capsule", "F", gen_capsule(rng, ctx.budget(16, 40))))
    for order in range(0, ctx.budget(3, 4)):
        for _ in range(ctx.budget(2, 4)):
            cases.append(("G:sphere", "F", gen_round(rng, "sphere", order)))
            cases.append(("G:ellipsoid", "F", gen_round(rng, "ellipsoid", order)))
    # ---- malformed / edge
    cases.append(("M:box", "Q", {"factory": "box", "size": [Fr(0), Fr(0), Fr(0)]}))
    cases.append(("M:box", "Q", {"factory": "box", "size": [Fr(0), Fr(1), Fr(2)]}))
    cases.append(("M:cube", "Q", {"factory": "cube", "size": Fr(0)}))
    cases.append(("M:cylinder", "F", {"factory": "cylinder", "radius": 1.0, "length": 2.0, "hint": 0.0}))
    cases.append(("M:capsule", "F", {"factory": "capsule", "radius": 1.0, "length": 2.0, "height": 2.0, "hint": 0.0}))
    cases.append(("M:sphere", "F", {"factory": "sphere", "radius": 0.0, "order": 0}))

    drv = core.Driver("c17-corr")
    plan = []
    for stream, mode, sp in cases:
        fn, toks = enc_spec(sp, mode)
        ids = {"mesh": drv.add(fn, mode, toks)}
        if sp["factory"] == "cylinder":
            ids["cls"] = drv.add("C17.cylclass", mode, [tk(sp["radius"], mode), tk(sp["length"], mode)])
        plan.append((stream, mode, sp, fn, toks, ids))

    # ---- cylinder class on the dyadic lattice (exact)
    cyl_lat = []
    for r, l in itertools.product(LATTICE, [Fr(1, 4), Fr(1, 2), Fr(1), Fr(2), Fr(3), Fr(4), Fr(6)]):
        cyl_lat.append((r, l, drv.add("C17.cylclass", "Q", [q2s(r), q2s(l)]),
                        drv.add("C17.cylinderN", "Q", [q2s(r), q2s(l), "4"])))

    # ---- helpers
    helper_cases = []
    for _ in range(ctx.budget(800, 12000)):
        helper_cases.append(("L", "Q", lattice_tet(rng)))
    for _ in range(ctx.budget(800, 12000)):
        helper_cases.append(("G", "F", general_tet(rng)))
    hplan = []
    for stream, mode, t in helper_cases:
        hplan.append((stream, mode, t, drv.add("C17.vol", mode, enc_tet(t, mode)), drv.add("C17.aabb", mode, enc_tet(t, mode))))
    com_cases = []
    for _ in range(ctx.budget(200, 3000)):
        stream = "L" if rng.random() < 0.5 else "G"
        n = rng.choice([0, 1, 1, 2, 3, 5, 9])
        ts = [lattice_tet(rng) if stream == "L" else general_tet(rng) for _ in range(n)]
        if stream == "L" and n and rng.random() < 0.2:
            for t in ts:
                for p in t:
                    p[2] = 0.5                  # all flat: total volume 0
        mode = "Q" if stream == "L" else "F"
        com_cases.append((stream, mode, ts, drv.add("C17.com", mode, [str(n)] + [x for t in ts for x in enc_tet(t, mode)])))

    out = drv.run()
    ctx.extra["source_tolerance_expressions"] = source_literals()
    ctx.extra["model_tolerance_literal"] = TOL_FACTOR

    # ---- factories
    envelope = 0.0
    for stream, mode, sp, fn, toks, ids in plan:
        spf = fl(sp)
        key = fn + " " + " ".join(toks)
        trivial = sp["factory"] in ("box", "cube") and all(float(x) == 1.0 for x in (
            sp["size"] if isinstance(sp["size"], list) else [sp["size"]]))
        ctx.count(stream, key=key, nontrivial=not trivial, sample={"stream": stream, "line": key[:160]})
        model = parse_mesh(out.get(ids["mesh"]), mode)
        impl = impl_mesh(spf)
        seed_input = {"spec": spf}
        if model[0] == "ok":
            ctx.branch(fn, model[1] if sp["factory"] in ("box", "cylinder", "cube") else
                       ("order%d" % model[1] if sp["factory"] in ("sphere", "ellipsoid") else "n%s" % ("3" if model[1] == 3 else (
                           "odd" if model[1] % 2 else "even"))))
        else:
            ctx.branch(fn, model[1] if model[0] == "err" else "bad")
        msg = compare_mesh(model, impl, mode, 1e-12)
        if msg:
            ctx.broke("correspondence", fn, msg, seed_input)
        elif model[0] == "ok" and mode == "F":
            sc = max(1e-300, max(abs(x) for v in impl[1] for x in v))
            envelope = max(envelope, max(abs(float(a) - b) for va, vb in zip(model[2], impl[1]) for a, b in zip(va, vb)) / sc)
        if "cls" in ids and impl[0] == "ok":
            n = n_circle_cylinder(spf["radius"], spf["hint"])
            extra = len(impl[1]) - (2 * n + 2)
            icls = {2: 0, 1: 1, n + 1: 2}.get(extra, -1)
            mcls = (out.get(ids["cls"]) or "bad").split()
            if mcls[0] != "ok" or int(mcls[1]) != icls:
                ctx.broke("correspondence", "cylinder class", "implementation class %d (from %d vertices, n=%d), model %s"
                          % (icls, len(impl[1]), n, " ".join(mcls)), seed_input)
    for r, l, cid, mid in cyl_lat:
        spf = {"factory": "cylinder", "radius": float(r), "length": float(l), "hint": 2 * math.pi * float(r) / 4}
        ctx.count("L:cylinder", key="cyl %s %s" % (r, l))
        impl = impl_mesh(spf)
        extra = len(impl[1]) - 10
        icls = {2: 0, 1: 1, 5: 2}.get(extra, -1)
        mcls = (out.get(cid) or "bad").split()
        ctx.branch("cylinderClass", mcls[1] if len(mcls) > 1 else "bad")
        if mcls[0] != "ok" or int(mcls[1]) != icls:
            ctx.broke("correspondence", "cylinder class", "implementation class %d, model %s" % (icls, " ".join(mcls)),
                      {"spec": spf})
        # cos/sin of multiples of π/2 are not dyadic: compare the lattice mesh at 1e-12 instead of exactly
        model = parse_mesh(out.get(mid), "Q")
        if model[0] == "ok":
            model = ("ok", model[1], [[float(x) for x in v] for v in model[2]], model[3], [float(x) for x in model[4]])
        msg = compare_mesh(model, impl, "F", 1e-12)
        if msg:
            ctx.broke("correspondence", "C17.cylinderN", msg, {"spec": spf})

    # ---- helpers
    mp = MP()
    for stream, mode, t, vid, aid in hplan:
        TP = np.array([fl(t)], dtype=float)
        ctx.count(stream + ":helpers", key="tet " + " ".join(enc_tet(t, mode)))
        with np.errstate(all="ignore"):
            iv = float(mp.tetrahedral_mesh_volumes(TP)[0])
            ib = np.asarray(mp.tetrahedral_mesh_aabbs(TP))[0]
        mv = (out.get(vid) or "bad").split()
        ma = (out.get(aid) or "bad").split()
        seed_input = {"helper": "tet", "tets": [fl(t)]}
        ext = max(1.0, float(np.max(np.abs(TP))))
        if mv[0] != "ok":
            ctx.broke("correspondence", "tetrahedral_mesh_volumes", "model: %s" % " ".join(mv), seed_input)
        else:
            ctx.branch("tetrahedral_mesh_volumes", mv[1])
            val = float(s2q(mv[2])) if mode == "Q" else h2f(mv[2])
            if not abs(val - iv) <= 1e-12 * ext ** 3 + 1e-12 * abs(val):
                ctx.broke("correspondence", "tetrahedral_mesh_volumes", "implementation %.17g model %.17g" % (iv, val), seed_input)
        if ma[0] != "ok":
            ctx.broke("correspondence", "tetrahedral_mesh_aabbs", "model: %s" % " ".join(ma), seed_input)
        else:
            vals = [float(s2q(s)) if mode == "Q" else h2f(s) for s in ma[2:8]]
            want = [float(ib[0, 0]), float(ib[0, 1]), float(ib[1, 0]), float(ib[1, 1]), float(ib[2, 0]), float(ib[2, 1])]
            if vals != want:
                ctx.broke("correspondence", "tetrahedral_mesh_aabbs", "implementation %s model %s" % (want, vals), seed_input)
    for stream, mode, ts, cid in com_cases:
        TP = np.array(fl(ts), dtype=float).reshape(-1, 4, 3)
        ctx.count(stream + ":com", key="com " + repr(fl(ts)))
        with np.errstate(all="ignore"):
            ic = np.asarray(mp.center_of_mass_tetrahedral_mesh(TP), dtype=float)
        mc = (out.get(cid) or "bad").split()
        seed_input = {"helper": "com", "tets": fl(ts)}
        ext = max(1.0, float(np.max(np.abs(TP)))) if TP.size else 1.0
        if mc[0] == "err":
            ctx.branch("center_of_mass", mc[1])
            if not (mc[1] == "divZero" and np.all(np.isnan(ic))):
                ctx.broke("correspondence", "center_of_mass_tetrahedral_mesh", "model %s implementation %s" % (mc, ic.tolist()),
                          seed_input)
        elif mc[0] == "ok":
            ctx.branch("center_of_mass", "ok")
            vals = [float(s2q(s)) if mode == "Q" else h2f(s) for s in mc[2:5]]
            # condition: volumes are >= 0, so only the coordinates' magnitude enters
            if not np.all(np.abs(np.array(vals) - ic) <= 1e-9 * ext):
                ctx.broke("correspondence", "center_of_mass_tetrahedral_mesh", "model %s implementation %s" % (vals, ic.tolist()),
                          seed_input)
        else:
            ctx.broke("correspondence", "center_of_mass_tetrahedral_mesh", "model: %s" % " ".join(mc), seed_input)
    ctx.extra["rounding_envelope_rel"] = envelope


# ------------------------------------------------------------------ failing-input search
def corpus():
    """fixed inputs at every class boundary, first on every run"""
    out = []
    for s in [(1, 1, 1), (1, 2, 3), (3, 2, 1), (2, 1, 3), (1, 1, 2), (2, 2, 1), (1, 2, 1), (2, 1, 2), (1, 2, 2), (2, 1, 1),
              (0.01, 0.01, 100.0), (100.0, 0.01, 100.0), (0.01, 100.0, 3.0),
              (1, 1 + 1e-15, 2), (1, 1 + 1e-13, 2), (1, 1 + 3e-14, 1 + 1e-14), (100, 100 + 1e-12, 100 + 3e-12)]:
        out.append({"factory": "box", "size": [float(x) for x in s]})
    for s in [0.01, 0.3, 1.0, 7.0, 100.0]:
        out.append({"factory": "cube", "size": s})
    for r, l in [(1, 3), (1, 2), (1, 1), (1, 2 + 1e-15), (1, 2 - 1e-15), (1, 2 + 1e-12), (1, 2 - 1e-12), (0.5, 0.1),
                 (0.01, 100.0), (100.0, 0.01), (100.0, 200.0), (100.0, 200.0 + 1e-11), (0.01, 0.02), (0.01, 0.02 + 1e-13)]:
        for hint_n in (3, 4, 7, 16):
            out.append({"factory": "cylinder", "radius": float(r), "length": float(l),
                        "hint": 2 * math.pi * float(r) / (hint_n - 0.5)})
    for r, h in [(1, 3), (1, 0.01), (0.5, 1), (0.01, 100.0), (100.0, 0.01)]:
        for hint_n in (3, 4, 5, 6, 7, 12):
            out.append({"factory": "capsule", "radius": float(r), "height": float(h),
                        "hint": 2 * math.pi * float(r) / (hint_n + 0.5)})
    for order in range(3):
        out.append({"factory": "sphere", "radius": 0.7, "order": order})
        out.append({"factory": "ellipsoid", "radii": [0.7, 1.0, 2.0], "order": order})
        out.append({"factory": "ellipsoid", "radii": [0.01, 100.0, 1.0], "order": order})
    return out


def search(ctx):
    rng = ctx.rng
    boost = 3 if ctx.extra.get("search_boost") else 1
    t0 = time.time()
    limit = ctx.budget(45, 600) * (2 if boost > 1 else 1)
    held = 0

    def run(stream, spf):
        nonlocal held
        ctx.count("search:" + stream, key=repr(spf))
        held += bool(check_spec(ctx, spf, rng))

    for spf in corpus():
        run("corpus", spf)
    # seeds from broken correspondences first
    for b in ctx.broken:
        si = b.get("seed_input") or {}
        if "spec" in si and well_formed(si["spec"]):
            run("seed", si["spec"])
    n = ctx.budget(1600, 40000) * boost
    for i in range(n):
        if time.time() - t0 > limit:
            ctx.notes.append("search stopped by its time budget after %d random cases" % i)
            break
        u = i % 8
        if u == 0:
            run("B:box", gen_box_boundary(rng))
        elif u == 1:
            run("G:box", gen_box_general(rng))
        elif u == 2:
            run("G:cube", {"factory": "cube", "size": logu(rng)})
        elif u == 3:
            run("B:cylinder", gen_cylinder(rng, "boundary", ctx.budget(48, 300)))
        elif u == 4:
            run("G:cylinder", gen_cylinder(rng, rng.choice(["ratio", "general"]), ctx.budget(48, 300)))
        elif u == 5:
            run("G:capsule", gen_capsule(rng, ctx.budget(20, 64)))
        elif u == 6:
            run("G:sphere", gen_round(rng, "sphere", rng.choice(range(0, ctx.budget(4, 5)))))
        else:
            run("G:ellipsoid", gen_round(rng, "ellipsoid", rng.choice(range(0, ctx.budget(4, 5)))))
    # resolution hints from coarse to fine for one cylinder and one capsule of each class, within the time budget
    for r, l in [(1.0, 3.0), (1.0, 2.0), (1.0, 0.5)]:
        for n_c in [3, 5, 9, 17, 33, 65] + ([129, 257, 513] if ctx.thorough else []):
            if time.time() - t0 > limit:
                break
            run("hint:cylinder", {"factory": "cylinder", "radius": r, "length": l, "hint": 2 * math.pi * r / (n_c - 0.5)})
            run("hint:capsule", {"factory": "capsule", "radius": r, "height": l, "hint": 2 * math.pi * r / (min(n_c, 65) + 0.5)})
    if ctx.thorough and time.time() - t0 <= limit:
        run("order4:sphere", {"factory": "sphere", "radius": 1.3, "order": 4})
        run("order4:ellipsoid", {"factory": "ellipsoid", "radii": [0.3, 1.0, 2.5], "order": 4})
    # helpers on meshes that are not factory output (random soups incl. degenerate tetrahedra)
    for i in range(ctx.budget(600, 10000)):
        stream = "L" if rng.random() < 0.5 else "G"
        ts = [lattice_tet(rng) if stream == "L" else general_tet(rng) for _ in range(rng.choice([1, 2, 5, 12]))]
        TP = np.array(ts, dtype=float).reshape(-1, 4, 3)
        vol = np.abs(own_dets(TP)) / 6.0
        ctx.count("search:helpers", key=repr(ts))
        bad = oracle_helpers(TP, vol, max(1.0, float(np.max(np.abs(TP)))))
        if bad:
            ctx.fail("_mesh_processing helpers", {"helper": "soup", "tets": TP.tolist()}, {"problems": bad[:4]},
                     "volumes = |det|/6, aabbs = min/max, com = Σ vol·centroid / Σ vol", "direct numpy computation")
        else:
            held += 1
    ctx.extra["oracle_held"] = held
    ctx.extra["search_wall_s"] = round(time.time() - t0, 1)


# ------------------------------------------------------------------ replay
def replay(ctx, payload):
    import random
    rng = random.Random(0)
    items = []
    if payload.get("args"):
        items.append(payload["args"])
    for o in payload.get("others", []) or []:
        if o.get("args"):
            items.append(o["args"])
    for b in payload.get("broken", []) or []:
        if b.get("seed_input"):
            items.append(b["seed_input"])
    if not items:
        print("replay file names no input:", payload.get("broken"))
        return False
    all_ok = True
    for it in items:
        n0 = len(ctx.failing)
        if "spec" in it and not well_formed(it["spec"]):
            print("skipped (outside the property's domain, correspondence seed only):", it["spec"])
            ok = True
        elif "spec" in it:
            ok = check_spec(ctx, it["spec"], rng)
        elif "tets" in it:
            TP = np.array(it["tets"], dtype=float).reshape(-1, 4, 3)
            vol = np.abs(own_dets(TP)) / 6.0
            bad = oracle_helpers(TP, vol, max(1.0, float(np.max(np.abs(TP))) if TP.size else 1.0)) if len(TP) else []
            ok = not bad
            if bad:
                print("FAIL helpers", bad[:4])
        else:
            print("unknown replay item", it)
            ok = False
        for f in ctx.failing[n0:]:
            print("FAIL", f["function"], str(f["observed"])[:800])
        all_ok = all_ok and ok
    return all_ok
