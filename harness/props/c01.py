"""C01 — GJK distance query (gjk.gjk = gjk_distance_jolt): step-wise correspondence of the Lean model
`D3.GjkJolt` with recorded traces of the real `_distance_loop`, certificate oracle on the real code."""
import math
from fractions import Fraction

import numpy as np

import core
from core import f2h, h2f

RULE = ("collider pairs of all 10 types (+Margin) drawn from one PRNG: lattice stream (dyadic sizes, axis-aligned poses, "
        "exact contact / nested / identical / coplanar / parallel faces), general stream (log-uniform sizes in "
        "[1e-2,1e2], random poses within 1e3 of the origin, contact construction with known gap along a known "
        "separating direction), malformed stream (crafted loop states, stub solver at the exact decision boundaries, "
        "NaN point, full simplex); one evaluated case = one recorded call of _distance_loop / calculate_closest_points "
        "/ one end-to-end run / one oracle verdict; a case is non-trivial if the pair is not the identity-pose "
        "unit fixture; distinct = distinct input line")
EXPLANATION = ("S2 theorems (loop invariant, feasibility of the returned points, weak duality, progress, accuracy of "
               "every exit, clipping) are proved for the Lean model with abstract support mappings and a solver "
               "specification; this run ties the model to the code step by step: every call of _distance_loop made by "
               "gjk_distance_jolt on the generated pairs is replayed in the model (with the solver's answers from the "
               "trace: exact equality; with the C18 solver model plugged in: discrete outputs equal up to arbitrated "
               "ties, values within 1e-9*scale), calculate_closest_points and the driver loop likewise; the oracle "
               "checks the real outputs against independent membership predicates, a verified distance bracket "
               "(witness pair + separating-plane lower bound from analytic support values) and exact ground truth")
PARTIAL = {
    "VisitedGood JoltGood (hypothesis of jolt_inv/jolt_feasible/jolt_exit_*/jolt_terminates)":
        "the solver contract (min-norm point of the hull of the stored points, v_len_sq = |v|^2, success <-> |v|^2 < prev, "
        "strictly positive weights exactly on the reported feature set, 0xf only with v = 0) is no longer assumed: it is "
        "proved for the model of the real solver (joltSolver_spec : SolverSpecOn JoltGood joltSolver, joltSolver_total) on "
        "JoltGood = the conjunction of the C18 hypotheses (n=2 EdgeOK; n=3 FaceOK; n=4 TetraOK = MAX_FLOAT bounds and "
        "[consistent plane signs, no plane value in the EPSILON band, four TriRegular faces] or [exactly flat, four FaceOK "
        "faces]). The unconditional contract is false for the as-is code (joltSolver_unconditional_asIs_counterexample, the "
        "F-C18-jolt-abs-eps tetrahedron). What remains a hypothesis: every simplex the run hands to the solver is JoltGood "
        "(VisitedGood; step level: JoltGood of the one simplex). Discharged for sets whose <=4-point simplices of A-B are "
        "all exact (visitedGood_of_minkDiff; instance two_points_visitedGood); JoltGood is decided by the executable "
        "checker joltGoodB (joltGoodB_iff); that a general run (two boxes, say) stays outside the bands is not proved",
    "feasible / exit_intersection (NonDeg)":
        "BarySpec is proved for the C18 model of the three barycentric routines (joltBary_spec) outside their degenerate "
        "bands: jnd2 (|b-a|^2 >= EPSILON_SQR), jnd3 (after repair dbe9d34 scale free: the Gram determinant 4*area^2 of the "
        "two edges the routine selects exceeds EPSILON*L^4, L^2 the longest squared edge, i.e. the final triangle is not a "
        "sliver with altitude <= sqrt(EPSILON)*L; the former absolute band |den| < EPSILON, which swallowed every "
        "well-shaped triangle smaller than ~1e-4, is gone: bary_plane_band_asIs_before_fix_counterexample / "
        "bary_plane_band_fixed / bary_plane_tiny_triangle_fixed), jnd4 (non-zero volume); inside the bands the returned "
        "points are covered by the run-time oracle only",
    "exit_stall_accuracy":
        "bound proved: d - dist <= max(eps*R, sqrt(eps)*diam(A-B)) in exact arithmetic; float rounding of the "
        "termination tests (the reason the tolerance exists) is outside the model",
    "terminates":
        "proved for tolerance != 0 (fuel exhaustion unreachable); totality of the solver is proved for the real one on "
        "JoltGood (joltSolver_total, jolt_terminates); the concrete iteration count "
        "(<= 1000 support evaluations) is C19's explored part, not proved",
    "sanity_check assert":
        "modelled as assertFail in gjkFinish; every theorem assumes gjkDistance = ok, i.e. unreachability of that "
        "assert is not proved separately (in exact arithmetic |sd|^2 - v_len_sq is 0 or |v|^2 <= max(tol^2, eps*max|Y|^2))",
}
ASSUMPTIONS = [
    "support mappings of the colliders satisfy the C03 contract (IsSupport) - hypothesis of every S2 theorem",
    "every simplex handed to the solver lies outside the C18 degenerate bands (VisitedGood JoltGood); on those the "
    "solver contract is a theorem (joltSolver_spec), no longer an assumption",
    "exact real arithmetic: float effects on the termination tests are outside the model",
]
TRUSTED = ["_gjk_jolt.py: _distance_loop, update_simplex_ypq, max_y_length_squared, calculate_closest_points, "
           "gjk_distance_jolt are modelled in D3/Model/GjkJolt.lean; get_closest_point_to_origin and the "
           "barycentric routines are taken from D3/Model/Simplex.lean (property C18)"]
MANIFEST = dict(
    text=("Lean S2 theorems on the model of gjk_distance_jolt with abstract support oracles and a solver contract "
          "(inv_step/inv, feasible, exit_intersection, progress_gap, weak_duality, exit_stall_accuracy, "
          "separated_positive, clipped_only_beyond, step_no_failure, terminates; BarySpec proved for the model of the "
          "three barycentric routines outside their degenerate bands); the solver contract is proved for the model of "
          "the real solver outside the C18 bands (joltSolver_spec) and every theorem is instantiated at "
          "joltSolver/joltBary (jolt_*); "
          "step-wise correspondence on recorded traces of the real _distance_loop; certificate oracle (membership + "
          "verified distance bracket + exact ground truth) on the real gjk.gjk."),
    note=("trusted: Lean kernel + Mathlib, axioms propext/Classical.choice/Quot.sound; exact-real semantics; the support "
          "contract (C03) and 'every visited simplex is outside the C18 bands' are hypotheses; model-code tie by sampling with measured exit coverage."),
    technique="Lean 4 proof on hand-written model + step-wise correspondence on recorded traces + certificate oracle",
    design="§7 C01")

MAXF = float(np.finfo(float).max)
EPS = float(np.finfo(float).eps)
TYPES = ["sphere", "ellipsoid", "capsule", "cylinder", "cone", "box", "disk", "ellipse", "mesh", "hull"]


# ====================================================================== small linear algebra helpers
def _unit(v):
    n = np.linalg.norm(v)
    return v / n if n > 0 else v


def rot_random(rng):
    q = np.array([rng.gauss(0, 1) for _ in range(4)])
    q /= np.linalg.norm(q)
    w, x, y, z = q
    return np.array([[1 - 2 * (y * y + z * z), 2 * (x * y - z * w), 2 * (x * z + y * w)],
                     [2 * (x * y + z * w), 1 - 2 * (x * x + z * z), 2 * (y * z - x * w)],
                     [2 * (x * z - y * w), 2 * (y * z + x * w), 1 - 2 * (x * x + y * y)]])


def rot_lattice(rng):
    """signed axis permutation (proper rotation)"""
    perm = [0, 1, 2]
    rng.shuffle(perm)
    R = np.zeros((3, 3))
    for i, j in enumerate(perm):
        R[i, j] = rng.choice([-1.0, 1.0])
    if np.linalg.det(R) < 0:
        R[0] = -R[0]
    return R


def rot_345(rng):
    c, s = rng.choice([(0.6, 0.8), (0.8, 0.6), (-0.6, 0.8), (0.28, 0.96)])
    k = rng.randrange(3)
    R = np.eye(3)
    i, j = [(1, 2), (0, 2), (0, 1)][k]
    R[i, i], R[i, j], R[j, i], R[j, j] = c, -s, s, c
    return rot_lattice(rng) @ R


def pose_of(R, t):
    T = np.eye(4)
    T[:3, :3] = R
    T[:3, 3] = t
    return T


# ====================================================================== shape specs (JSON-able)
UNIT_MESHES = None


def unit_meshes():
    """small convex meshes: (vertices, triangles)"""
    global UNIT_MESHES
    if UNIT_MESHES is None:
        from scipy.spatial import ConvexHull
        out = []
        tet = np.array([[1.0, 1, 1], [1, -1, -1], [-1, 1, -1], [-1, -1, 1]])
        octa = np.array([[1.0, 0, 0], [-1, 0, 0], [0, 1, 0], [0, -1, 0], [0, 0, 1], [0, 0, -1]])
        cube = np.array([[x, y, z] for x in (-1.0, 1) for y in (-1.0, 1) for z in (-1.0, 1)])
        prism = np.array([[1.0, 0, -1], [-0.5, 1, -1], [-0.5, -1, -1], [1, 0, 1], [-0.5, 1, 1], [-0.5, -1, 1]])
        rs = np.random.RandomState(12345)
        rnd = [_unit(v) * (0.5 + 0.5 * rs.rand()) for v in rs.randn(14, 3)]
        ico = np.array(rnd)
        for v in (tet, octa, cube, prism, ico):
            hull = ConvexHull(v)
            used = sorted(set(hull.simplices.ravel().tolist()))
            remap = {o: i for i, o in enumerate(used)}
            vv = v[used]
            tri = np.array([[remap[i] for i in s] for s in hull.simplices], dtype=int)
            out.append((vv, tri))
        UNIT_MESHES = out
    return UNIT_MESHES


def gen_size(rng, lattice):
    if lattice:
        return rng.choice([0.25, 0.5, 1.0, 1.0, 2.0, 4.0])
    r = rng.random()
    if r < 0.6:
        return 10 ** rng.uniform(-1, 1)
    return 10 ** rng.uniform(-2, 2)


def gen_shape(rng, typ, lattice=False, rot=None, center=None):
    """shape spec with centre at `center` (default origin)"""
    R = rot if rot is not None else (rot_lattice(rng) if lattice else rot_random(rng))
    c = np.zeros(3) if center is None else np.array(center, dtype=float)
    s = {"type": typ, "R": R.tolist(), "t": c.tolist()}
    gs = lambda: gen_size(rng, lattice)  # noqa
    if typ == "sphere":
        s["radius"] = gs()
    elif typ == "ellipsoid":
        s["radii"] = [gs(), gs(), gs()]
    elif typ == "capsule":
        s["radius"] = gs()
        s["height"] = gs()
    elif typ == "cylinder":
        s["radius"] = gs()
        s["length"] = gs()
    elif typ == "cone":
        s["radius"] = gs()
        s["height"] = gs()
    elif typ == "box":
        s["size"] = [gs(), gs(), gs()]
    elif typ == "disk":
        s["radius"] = gs()
    elif typ == "ellipse":
        s["radii"] = [gs(), gs()]
    elif typ in ("mesh", "hull"):
        k = rng.randrange(len(unit_meshes()))
        s["mesh"] = k
        s["scale"] = [gs(), gs(), gs()] if rng.random() < 0.5 else [gs()] * 3
    else:
        raise ValueError(typ)
    return s


def with_margin(rng, s, lattice=False):
    s = dict(s)
    s["margin"] = rng.choice([0.125, 0.25, 0.5]) if lattice else 10 ** rng.uniform(-2, 0.5)
    return s


def translated(s, off):
    s = dict(s)
    s["t"] = (np.array(s["t"]) + np.array(off)).tolist()
    return s


def mesh_local(s):
    v, tri = unit_meshes()[s["mesh"]]
    return v * np.array(s["scale"]), tri


def make_collider(s):
    from distance3d import colliders as C
    R = np.array(s["R"], dtype=float)
    t = np.array(s["t"], dtype=float)
    T = pose_of(R, t)
    typ = s["type"]
    if typ == "sphere":
        c = C.Sphere(t.copy(), float(s["radius"]))
    elif typ == "ellipsoid":
        c = C.Ellipsoid(T, np.array(s["radii"], dtype=float))
    elif typ == "capsule":
        c = C.Capsule(T, float(s["radius"]), float(s["height"]))
    elif typ == "cylinder":
        c = C.Cylinder(T, float(s["radius"]), float(s["length"]))
    elif typ == "cone":
        c = C.Cone(T, float(s["radius"]), float(s["height"]))
    elif typ == "box":
        c = C.Box(T, np.array(s["size"], dtype=float))
    elif typ == "disk":
        c = C.Disk(t.copy(), float(s["radius"]), np.ascontiguousarray(R[:, 2]))
    elif typ == "ellipse":
        c = C.Ellipse(t.copy(), np.ascontiguousarray(R[:, :2].T), np.array(s["radii"], dtype=float))
    elif typ == "mesh":
        v, tri = mesh_local(s)
        c = C.MeshGraph(T, np.ascontiguousarray(v), tri)
    elif typ == "hull":
        v, _ = mesh_local(s)
        c = C.ConvexHullVertices(np.ascontiguousarray(t + v.dot(R.T)))
    else:
        raise ValueError(typ)
    if s.get("margin"):
        c = C.Margin(c, float(s["margin"]))
    return c


# ====================================================================== independent geometry (oracle side)
def minnorm(Y):
    """min-norm point of conv(rows of Y): (v, lam). NNLS on [Y^T/s; 1] lam = [0; 1], then normalise
    (the minimiser of the penalised problem is a positive multiple of the constrained one)."""
    from scipy.optimize import nnls
    Y = np.asarray(Y, dtype=float)
    s = np.max(np.abs(Y))
    if s == 0:
        lam = np.zeros(len(Y))
        lam[0] = 1.0
        return np.zeros(3), lam
    A = np.vstack([Y.T / s, np.ones(len(Y))])
    lam, _ = nnls(A, np.array([0.0, 0, 0, 1.0]), maxiter=200 * len(Y) + 200)
    tot = lam.sum()
    if tot <= 0:
        lam = np.zeros(len(Y))
        lam[int(np.argmin((Y * Y).sum(1)))] = 1.0
    else:
        lam = lam / tot
    return lam.dot(Y), lam


def _ell_closest(e, y):
    """closest point on the solid ellipsoid/ellipse with semi-axes e (axis aligned, centred) to y:
    returns distance (0 inside). Bisection on the Lagrange multiplier (Eberly)."""
    e = np.asarray(e, dtype=float)
    y = np.abs(np.asarray(y, dtype=float))
    if np.sum((y / e) ** 2) <= 1.0:
        return 0.0
    lo, hi = 0.0, float(np.linalg.norm(e * y)) + 1e-300
    for _ in range(200):
        mid = 0.5 * (lo + hi)
        f = np.sum((e * y / (mid + e * e)) ** 2) - 1.0
        if f > 0:
            lo = mid
        else:
            hi = mid
    tt = 0.5 * (lo + hi)
    x = e * e * y / (tt + e * e)
    return float(np.linalg.norm(x - y))


class OShape:
    """oracle-side shape: analytic support value/point, point distance, interior depth"""

    def __init__(self, s):
        self.s = s
        self.typ = s["type"]
        self.R = np.array(s["R"], dtype=float)
        self.t = np.array(s["t"], dtype=float)
        self.m = float(s.get("margin") or 0.0)
        if self.typ in ("mesh", "hull"):
            v, _ = mesh_local(s)
            self.W = self.t + v.dot(self.R.T)
            self.eq = None
            try:
                from scipy.spatial import ConvexHull
                self.eq = ConvexHull(self.W).equations
            except Exception:
                self.eq = None

    # ---- local frame
    def loc(self, x):
        return self.R.T.dot(np.asarray(x, dtype=float) - self.t)

    def center(self):
        if self.typ == "cone":
            return self.t + 0.5 * self.s["height"] * self.R[:, 2]
        if self.typ in ("mesh", "hull"):
            return self.W.mean(0)
        return self.t

    def size(self):
        s = self.s
        typ = self.typ
        if typ in ("sphere", "disk"):
            v = 2 * s["radius"]
        elif typ in ("ellipsoid", "ellipse"):
            v = 2 * max(s["radii"])
        elif typ == "capsule":
            v = s["height"] + 2 * s["radius"]
        elif typ == "cylinder":
            v = max(s["length"], 2 * s["radius"])
        elif typ == "cone":
            v = max(s["height"], 2 * s["radius"])
        elif typ == "box":
            v = max(s["size"])
        else:
            v = float(np.max(np.linalg.norm(self.W[:, None, :] - self.W[None, :, :], axis=2)))
        return v + 2 * self.m

    # ---- support value h(d) = max_{x in K} d.x  and a support point
    def sup(self, d):
        d = np.asarray(d, dtype=float)
        nd = np.linalg.norm(d)
        l = self.R.T.dot(d)
        s = self.s
        typ = self.typ
        if typ == "sphere":
            p = s["radius"] * d / nd if nd > 0 else np.zeros(3)
            p = self.t + p
        elif typ == "ellipsoid":
            e = np.array(s["radii"])
            w = e * l
            nw = np.linalg.norm(w)
            p = self.t + self.R.dot(e * w / nw if nw > 0 else np.zeros(3))
        elif typ == "capsule":
            z = 0.5 * s["height"] * (1.0 if l[2] >= 0 else -1.0)
            p = self.t + self.R.dot(np.array([0, 0, z])) + (s["radius"] * d / nd if nd > 0 else 0)
        elif typ == "cylinder":
            z = 0.5 * s["length"] * (1.0 if l[2] >= 0 else -1.0)
            rho = math.hypot(l[0], l[1])
            xy = s["radius"] * l[:2] / rho if rho > 0 else np.zeros(2)
            p = self.t + self.R.dot(np.array([xy[0], xy[1], z]))
        elif typ == "cone":
            rho = math.hypot(l[0], l[1])
            if s["height"] * l[2] >= s["radius"] * rho:
                pl = np.array([0, 0, s["height"]])
            else:
                pl = np.array([s["radius"] * l[0] / rho, s["radius"] * l[1] / rho, 0.0]) if rho > 0 else np.zeros(3)
            p = self.t + self.R.dot(pl)
        elif typ == "box":
            h = 0.5 * np.array(s["size"])
            p = self.t + self.R.dot(h * np.where(l >= 0, 1.0, -1.0))
        elif typ == "disk":
            rho = math.hypot(l[0], l[1])
            xy = s["radius"] * l[:2] / rho if rho > 0 else np.zeros(2)
            p = self.t + self.R.dot(np.array([xy[0], xy[1], 0.0]))
        elif typ == "ellipse":
            e = np.array(s["radii"])
            w = e * l[:2]
            nw = np.linalg.norm(w)
            xy = e * w / nw if nw > 0 else np.zeros(2)
            p = self.t + self.R.dot(np.array([xy[0], xy[1], 0.0]))
        else:
            p = self.W[int(np.argmax(self.W.dot(d)))]
        if self.m and nd > 0:
            p = p + self.m * d / nd
        return p

    def h(self, d):
        d = np.asarray(d, dtype=float)
        nd = float(np.linalg.norm(d))
        l = self.R.T.dot(d)
        s = self.s
        typ = self.typ
        base = float(d.dot(self.t))
        if typ == "sphere":
            v = base + s["radius"] * nd
        elif typ == "ellipsoid":
            v = base + float(np.linalg.norm(np.array(s["radii"]) * l))
        elif typ == "capsule":
            v = base + 0.5 * s["height"] * abs(l[2]) + s["radius"] * nd
        elif typ == "cylinder":
            v = base + 0.5 * s["length"] * abs(l[2]) + s["radius"] * math.hypot(l[0], l[1])
        elif typ == "cone":
            v = base + max(s["height"] * l[2], s["radius"] * math.hypot(l[0], l[1]))
        elif typ == "box":
            v = base + float(np.sum(0.5 * np.array(s["size"]) * np.abs(l)))
        elif typ == "disk":
            v = base + s["radius"] * math.hypot(l[0], l[1])
        elif typ == "ellipse":
            v = base + math.hypot(s["radii"][0] * l[0], s["radii"][1] * l[1])
        else:
            v = float(np.max(self.W.dot(d)))
        return v + self.m * nd

    # ---- distance from a point to the (un-margined) set: exact (or a lower bound, never larger)
    def _dist0(self, x):
        s = self.s
        typ = self.typ
        if typ in ("mesh", "hull"):
            if self.eq is not None:
                lbv = float(np.max(self.eq[:, :3].dot(x) + self.eq[:, 3]))
                if lbv <= 0:
                    return 0.0
            v, _ = minnorm(self.W - np.asarray(x, dtype=float))
            return float(np.linalg.norm(v))
        l = self.loc(x)
        if typ == "sphere":
            return max(0.0, float(np.linalg.norm(l)) - s["radius"])
        if typ == "ellipsoid":
            return _ell_closest(s["radii"], l)
        if typ == "capsule":
            z = min(max(l[2], -0.5 * s["height"]), 0.5 * s["height"])
            return max(0.0, math.sqrt(l[0] ** 2 + l[1] ** 2 + (l[2] - z) ** 2) - s["radius"])
        if typ == "cylinder":
            dr = max(0.0, math.hypot(l[0], l[1]) - s["radius"])
            dz = max(0.0, abs(l[2]) - 0.5 * s["length"])
            return math.hypot(dr, dz)
        if typ == "cone":
            rho, z = math.hypot(l[0], l[1]), l[2]
            r, hh = s["radius"], s["height"]
            if z >= 0 and z <= hh and rho <= r * (1 - z / hh):
                return 0.0

            def seg(px, py, ax, ay, bx, by):
                ux, uy = bx - ax, by - ay
                tt = ((px - ax) * ux + (py - ay) * uy) / (ux * ux + uy * uy)
                tt = min(1.0, max(0.0, tt))
                return math.hypot(px - ax - tt * ux, py - ay - tt * uy)
            return min(seg(rho, z, 0, 0, r, 0), seg(rho, z, r, 0, 0, hh))
        if typ == "box":
            q = np.abs(l) - 0.5 * np.array(s["size"])
            return float(np.linalg.norm(np.maximum(q, 0.0)))
        if typ == "disk":
            return math.hypot(max(0.0, math.hypot(l[0], l[1]) - s["radius"]), l[2])
        if typ == "ellipse":
            return math.hypot(_ell_closest(s["radii"], l[:2]), l[2])
        raise ValueError(typ)

    def dist(self, x):
        return max(0.0, self._dist0(x) - self.m)

    # ---- lower bound of the radius of a ball around x inside the set (negative: not known to be inside)
    def _depth0(self, x):
        s = self.s
        typ = self.typ
        if typ in ("mesh", "hull"):
            if self.eq is None:
                return -1.0
            return -float(np.max(self.eq[:, :3].dot(x) + self.eq[:, 3]))
        l = self.loc(x)
        if typ == "sphere":
            return s["radius"] - float(np.linalg.norm(l))
        if typ == "ellipsoid":
            e = np.array(s["radii"])
            return (1.0 - float(np.linalg.norm(l / e))) * float(np.min(e))
        if typ == "capsule":
            z = min(max(l[2], -0.5 * s["height"]), 0.5 * s["height"])
            return s["radius"] - math.sqrt(l[0] ** 2 + l[1] ** 2 + (l[2] - z) ** 2)
        if typ == "cylinder":
            return min(s["radius"] - math.hypot(l[0], l[1]), 0.5 * s["length"] - abs(l[2]))
        if typ == "cone":
            r, hh = s["radius"], s["height"]
            rho, z = math.hypot(l[0], l[1]), l[2]
            return min(z, (r * (1 - z / hh) - rho) * hh / math.hypot(hh, r))
        if typ == "box":
            return float(np.min(0.5 * np.array(s["size"]) - np.abs(l)))
        return -1.0   # disk, ellipse: empty interior

    def depth(self, x):
        d0 = self._depth0(x)
        if self.m == 0:
            return d0
        if d0 >= 0:
            return self.m + d0
        return self.m - self._dist0(x)


def scene_L(SA, SB):
    return max(1.0, SA.size(), SB.size(), float(np.linalg.norm(SA.center() - SB.center())))


def ref_bracket(SA, SB, L, iters=80):
    """independent bracket of dist(A,B): (lb, ub, a, b) with a in A, b in B (convex combinations of analytic
    support points), |a-b| = ub, and lb from the separating-plane bound -h_A(-n) - h_B(n)."""
    v = SA.center() - SB.center()
    if np.linalg.norm(v) == 0:
        v = np.array([1.0, 0, 0])
    P, Q = [], []
    best_lb = -math.inf
    a = b = None
    ub = math.inf
    for it in range(iters):
        nv = np.linalg.norm(v)
        if nv > 0:
            n = v / nv
            lb = -SA.h(-n) - SB.h(n)
            best_lb = max(best_lb, lb)
        else:
            n = np.array([1.0, 0, 0])
        p = SA.sup(-n)
        q = SB.sup(n)
        P.append(p)
        Q.append(q)
        Y = np.array(P) - np.array(Q)
        vv, lam = minnorm(Y)
        a2 = lam.dot(np.array(P))
        b2 = lam.dot(np.array(Q))
        u2 = float(np.linalg.norm(a2 - b2))
        if u2 < ub:
            ub, a, b = u2, a2, b2
        v = a2 - b2
        keep = [i for i in range(len(P)) if lam[i] > 0]
        P = [P[i] for i in keep]
        Q = [Q[i] for i in keep]
        if ub - max(best_lb, 0.0) <= 1e-9 * L or ub <= 1e-11 * L:
            break
    return max(best_lb, 0.0), ub, a, b


# ====================================================================== scene generation
def contact_scene(rng, sA, sB, n, gap):
    """translate B along unit n so that the supporting planes with normal n are `gap` apart and the support points
    are aligned: for gap >= 0 the true distance is exactly gap"""
    SA, SB = OShape(sA), OShape(sB)
    pA = SA.sup(n)
    qB = SB.sup(-n)
    off = pA + gap * n - qB
    return translated(sB, off)


def gen_pair_general(rng, tA=None, tB=None, force_edge=False):
    """(sA, sB, info) – general stream"""
    tA, tB = tA or rng.choice(TYPES), tB or rng.choice(TYPES)
    cA = np.array([rng.uniform(-1, 1) for _ in range(3)]) * (10 ** rng.uniform(-1, 2.9) if rng.random() < 0.6 else 0.0)
    sA = gen_shape(rng, tA, center=cA)
    sB = gen_shape(rng, tB)
    if rng.random() < 0.25:
        sA = with_margin(rng, sA)
    if rng.random() < 0.25:
        sB = with_margin(rng, sB)
    SA, SB = OShape(sA), OShape(sB)
    scale = max(SA.size(), SB.size())
    mode = rng.choice(["contact", "contact", "gap", "gap", "overlap", "deep", "random", "far", "veryfar"])
    info = {"mode": mode}
    n = _unit(np.array([rng.gauss(0, 1) for _ in range(3)]))
    if "R" in sA and (force_edge or rng.random() < 0.3):
        # approach direction perpendicular to one local axis of A: for a box / cylinder / mesh the closest feature of
        # A is then an EDGE (or a rim generator), not a vertex — the final simplex is a nearly collinear triple
        RA = np.array(sA["R"], dtype=float).reshape(3, 3)
        i, j = rng.sample([0, 1, 2], 2)
        th = rng.uniform(0.1, 1.47)
        n = _unit(RA[:, i] * math.cos(th) * rng.choice([-1, 1]) + RA[:, j] * math.sin(th) * rng.choice([-1, 1]))
        info["approach"] = "edge"
    if mode == "contact":
        sB = contact_scene(rng, sA, sB, n, 0.0)
        info["gt"] = 0.0
    elif mode == "gap":
        g = scale * 10 ** rng.uniform(-4, 1)
        sB = contact_scene(rng, sA, sB, n, g)
        info["gt"] = g
    elif mode == "overlap":
        g = -min(SA.size(), SB.size()) * 10 ** rng.uniform(-3, -0.3)
        sB = contact_scene(rng, sA, sB, n, g)
    elif mode == "deep":
        sB = translated(sB, SA.center() - SB.center() + 0.05 * min(SA.size(), SB.size()) *
                        np.array([rng.uniform(-1, 1) for _ in range(3)]))
    elif mode == "random":
        sB = translated(sB, SA.center() - SB.center() + scale * rng.uniform(0, 3) * n)
    elif mode == "far":
        g = rng.uniform(50, 310)
        sB = contact_scene(rng, sA, sB, n, g)
        info["gt"] = g
    else:
        g = rng.uniform(320, 1500)
        sB = contact_scene(rng, sA, sB, n, g)
        info["gt"] = g
    # keep inside the domain (within 1e3 of the origin): shift both
    cA2, cB2 = OShape(sA).center(), OShape(sB).center()
    mid = 0.5 * (cA2 + cB2)
    far = max(np.linalg.norm(cA2), np.linalg.norm(cB2))
    if far > 1000:
        sA, sB = translated(sA, -mid), translated(sB, -mid)
    return sA, sB, info


def lat_center(rng):
    return np.array([rng.choice([-2.0, -1, -0.5, 0, 0, 0.5, 1, 2, 4]) for _ in range(3)])


def gen_pair_lattice(rng):
    """lattice stream: dyadic sizes, axis-aligned / 3-4-5 poses, exact degenerate placements"""
    kind = rng.choice(["identical", "nested", "touch-axis", "gap-axis", "overlap-axis", "coplanar", "parallel-faces",
                       "aa-boxes", "spheres", "sphere-box", "capsule-sphere", "far-axis"])
    info = {"mode": "L:" + kind}
    R = rot_lattice(rng) if rng.random() < 0.7 else rot_345(rng)
    tA = rng.choice(TYPES)
    cA = lat_center(rng)
    axis = np.zeros(3)
    axis[rng.randrange(3)] = rng.choice([-1.0, 1.0])
    if kind == "identical":
        sA = gen_shape(rng, tA, lattice=True, rot=R, center=cA)
        sB = dict(sA)
    elif kind == "nested":
        sA = gen_shape(rng, tA, lattice=True, rot=R, center=cA)
        sB = gen_shape(rng, rng.choice(TYPES), lattice=True, center=cA)
        f = 0.125 * min(OShape(sA).size(), 8.0) / max(OShape(sB).size(), 0.25)
        for k in ("radius", "height", "length"):
            if k in sB:
                sB[k] = sB[k] * f
        for k in ("radii", "size", "scale"):
            if k in sB:
                sB[k] = [x * f for x in sB[k]]
        if tA == "cone":
            sB = translated(sB, OShape(sA).center() - np.array(sB["t"]))
        if tA in ("disk", "ellipse"):
            info["mode"] += "-flat"
    elif kind in ("touch-axis", "gap-axis", "overlap-axis", "far-axis"):
        sA = gen_shape(rng, tA, lattice=True, rot=R, center=cA)
        sB = gen_shape(rng, rng.choice(TYPES), lattice=True, center=cA)
        if rng.random() < 0.3:
            sA = with_margin(rng, sA, lattice=True)
        if rng.random() < 0.3:
            sB = with_margin(rng, sB, lattice=True)
        g = {"touch-axis": 0.0, "gap-axis": rng.choice([0.125, 0.5, 1.0, 3.0]),
             "overlap-axis": -rng.choice([0.0625, 0.125]), "far-axis": rng.choice([317.0, 400.0, 512.0])}[kind]
        sB = contact_scene(rng, sA, sB, axis, g)
        if g >= 0:
            info["gt"] = g
    elif kind == "coplanar":
        tA = rng.choice(["disk", "ellipse"])
        sA = gen_shape(rng, tA, lattice=True, rot=R, center=cA)
        sB = gen_shape(rng, rng.choice(["disk", "ellipse"]), lattice=True, rot=R, center=cA)
        inplane = np.array(R)[:, 0]
        g = rng.choice([-0.25, 0.0, 0.5])
        sB = contact_scene(rng, sA, sB, inplane, g)
        if g >= 0:
            info["gt"] = g
    elif kind == "parallel-faces":
        sA = gen_shape(rng, rng.choice(["box", "cylinder", "disk", "mesh", "hull", "cone"]), lattice=True, rot=R, center=cA)
        sB = gen_shape(rng, rng.choice(["box", "cylinder", "disk"]), lattice=True, rot=R, center=cA)
        nrm = np.array(R)[:, 2]
        if sA["type"] == "cone":
            nrm = -nrm
        g = rng.choice([0.0, 0.25, 1.0])
        sB = contact_scene(rng, sA, sB, nrm, g)
        info["gt"] = g
    elif kind == "aa-boxes":
        sA = gen_shape(rng, "box", lattice=True, rot=np.eye(3), center=cA)
        sB = gen_shape(rng, "box", lattice=True, rot=np.eye(3), center=lat_center(rng) * rng.choice([1, 2]))
        ha, hb = 0.5 * np.array(sA["size"]), 0.5 * np.array(sB["size"])
        gaps = np.maximum(np.abs(np.array(sA["t"]) - np.array(sB["t"])) - ha - hb, 0.0)
        info["gt"] = float(np.linalg.norm(gaps))
        if not np.any(gaps > 0):
            info.pop("gt")
            inter = np.min(ha + hb - np.abs(np.array(sA["t"]) - np.array(sB["t"])))
            if inter == 0:
                info["gt"] = 0.0
    elif kind == "spheres":
        sA = gen_shape(rng, "sphere", lattice=True, center=cA)
        sB = gen_shape(rng, "sphere", lattice=True, center=lat_center(rng) * rng.choice([1, 2, 8]))
        dd = float(np.linalg.norm(np.array(sA["t"]) - np.array(sB["t"]))) - sA["radius"] - sB["radius"]
        if dd >= 0:
            info["gt"] = dd
    elif kind == "sphere-box":
        sA = gen_shape(rng, "sphere", lattice=True, center=cA)
        sB = gen_shape(rng, "box", lattice=True, rot=R, center=lat_center(rng) * rng.choice([1, 2]))
        dd = OShape(sB)._dist0(np.array(sA["t"])) - sA["radius"]
        if dd >= 0:
            info["gt"] = dd
        if rng.random() < 0.5:
            sA, sB = sB, sA
    else:  # capsule-sphere
        sA = gen_shape(rng, "capsule", lattice=True, rot=R, center=cA)
        sB = gen_shape(rng, "sphere", lattice=True, center=lat_center(rng) * rng.choice([1, 2]))
        l = OShape(sA).loc(np.array(sB["t"]))
        z = min(max(l[2], -0.5 * sA["height"]), 0.5 * sA["height"])
        dd = math.sqrt(l[0] ** 2 + l[1] ** 2 + (l[2] - z) ** 2) - sA["radius"] - sB["radius"]
        if dd >= 0:
            info["gt"] = dd
    return sA, sB, info


def fixed_scenes():
    """hand-written scenes that steer every exit branch (run first on every run)"""
    I = np.eye(3).tolist()  # noqa
    sp = lambda c, r: {"type": "sphere", "R": I, "t": list(map(float, c)), "radius": float(r)}  # noqa
    bx = lambda c, sz: {"type": "box", "R": I, "t": list(map(float, c)), "size": list(map(float, sz))}  # noqa
    out = []
    out.append((sp([0, 0, 0], 1), sp([0, 0, 0], 1), {"mode": "F:identical-spheres"}))
    out.append((sp([0, 0, 0], 1), sp([3, 0, 0], 1), {"mode": "F:spheres-gap", "gt": 1.0}))
    out.append((sp([0, 0, 0], 1), sp([2, 0, 0], 1), {"mode": "F:spheres-touch", "gt": 0.0}))
    out.append((sp([0, 0, 0], 1), sp([1.25, 1, 0.5], 1), {"mode": "F:spheres-overlap"}))
    out.append((sp([-200, 0, 0], 1), sp([200, 0, 0], 1), {"mode": "F:spheres-clipped", "gt": 398.0}))
    out.append((bx([0, 0, 0], [1, 1, 1]), bx([0.25, 0.125, 0.0625], [1, 1, 1]), {"mode": "F:boxes-deep"}))
    out.append((bx([0, 0, 0], [1, 1, 1]), bx([3, 0.25, 0.125], [1, 2, 1]), {"mode": "F:boxes-gap", "gt": 2.0}))
    out.append((bx([0, 0, 0], [1, 1, 1]), bx([1, 0, 0], [1, 1, 1]), {"mode": "F:boxes-touch", "gt": 0.0}))
    out.append((bx([0, 0, 0], [2, 2, 2]), sp([0.25, 0.125, 0], 0.25), {"mode": "F:sphere-in-box"}))
    out.append((bx([0, 0, 0], [0.01, 100, 100]), bx([5, 3, 1], [100, 0.01, 0.01]), {"mode": "F:flat-needle"}))
    out.append((bx([500, 0, 0], [1, 1, 1]), bx([-500, 0, 0], [1, 1, 1]), {"mode": "F:boxes-clipped", "gt": 999.0}))
    # regression (repaired by ea3a5ff): flat shapes in perpendicular planes; GJK re-adds a support point that equals a
    # simplex point up to the last bits; before the repair the sliver triangle went through the face branch and the
    # query answered 0.0 for shapes 2.0 apart
    ell = {"type": "ellipse", "R": [[0.8, 0.0, 0.6], [0.0, -1.0, 0.0], [0.6, 0.0, -0.8]], "t": [1.0, -1.0, 0.5],
           "radii": [4.0, 4.0]}
    dsk = {"type": "disk", "R": [[0.0, 1.0, 0.0], [0.0, 0.0, 1.0], [1.0, 0.0, 0.0]], "t": [1.6000000000000005, -1.0, 4.7],
           "radius": 1.0}
    out.append((ell, dsk, {"mode": "F:flat-perpendicular-regression", "gt": 2.0}))
    out.append((dsk, ell, {"mode": "F:flat-perpendicular-regression", "gt": 2.0}))
    # regression (repaired by dbe9d34): ellipsoid touching a vertex of a small mesh; the final simplex is a
    # well-shaped triangle of size 1e-4 that get_barycentric_coordinates_plane declared degenerate
    # (abs(4 area^2) < EPSILON, absolute); the common point was 1.2e-5 outside the mesh (tolerance 1.17e-5)
    ella = {"type": "ellipsoid", "R": [[-0.44658985378830973, -0.8779207192020766, -0.1726635841428199], [-0.5747130509780647, 0.13356041864974366, 0.8073825138096498], [-0.6857568166112681, 0.45980085402901727, -0.5641992228861767]], "t": [0.0, -0.0, -0.0], "radii": [0.14106807927143833, 0.5833732920360251, 0.40097554341818525]}
    msh = {"type": "mesh", "R": [[0.17328403842969076, -0.7630488625413954, -0.6226789505032109], [0.3110351412767567, -0.5574868207974228, 0.7697178609907204], [-0.9344676468002759, -0.32705485474376406, 0.14073144308252483]], "t": [-0.0026750940877167152, -0.3150214598870589, 0.10781183015195309], "mesh": 1, "scale": [0.022123164011592603, 0.022123164011592603, 0.022123164011592603]}
    out.append((ella, msh, {"mode": "F:tiny-final-triangle-regression", "gt": 0.0}))
    out.append((msh, ella, {"mode": "F:tiny-final-triangle-regression", "gt": 0.0}))
    return out


# ====================================================================== recording the real loop
class Recorder:
    """wraps `_distance_loop`, `get_closest_point_to_origin`, `calculate_closest_points` of
    distance3d.gjk._gjk_jolt (interpreted mode: module globals) and stores copies of all inputs/outputs"""

    def __init__(self):
        from distance3d.gjk import _gjk_jolt as J
        self.J = J
        self.orig = (J._distance_loop, J.get_closest_point_to_origin, J.calculate_closest_points)
        self.steps = []
        self.ccp = []
        self.solver_calls = []
        self.stub = None

    def __enter__(self):
        J = self.J
        o_loop, o_solve, o_ccp = self.orig
        rec = self

        def solve(Y, n, prev):
            if rec.stub is not None:
                out = rec.stub
            else:
                out = o_solve(Y, n, prev)
            rec.solver_calls.append((np.array(Y, copy=True), int(n), float(prev),
                                     (bool(out[0]), None if out[1] is None else np.array(out[1], copy=True),
                                      None if out[2] is None else float(out[2]),
                                      None if out[3] is None else int(out[3]))))
            return out

        def loop(p, q, Y, P, Q, n_points, tol_sq, prev, vlen, sd, maxd):
            ins = dict(p=np.array(p, copy=True), q=np.array(q, copy=True), Y=Y.copy(), P=P.copy(), Q=Q.copy(),
                       n=int(n_points), tol_sq=float(tol_sq), prev=float(prev), vlen=float(vlen), sd=sd.copy(),
                       maxd=float(maxd))
            k0 = len(rec.solver_calls)
            try:
                out = o_loop(p, q, Y, P, Q, n_points, tol_sq, prev, vlen, sd, maxd)
            except Exception as e:  # noqa
                rec.steps.append(dict(ins=ins, err=err_name(e), solver=rec.solver_calls[k0:]))
                raise
            state = int(out[0].value)
            o = dict(state=state)
            if state != 3:
                o.update(n=int(out[1]), prev=float(out[2]), vlen=float(out[3]), sd=sd.copy(), Y=Y.copy(), P=P.copy(),
                         Q=Q.copy())
            rec.steps.append(dict(ins=ins, out=o, solver=rec.solver_calls[k0:]))
            return out

        def ccp(Y, P, Q, n):
            out = o_ccp(Y, P, Q, n)
            rec.ccp.append(dict(Y=Y.copy(), P=P.copy(), Q=Q.copy(), n=int(n),
                                a=None if out[0] is None else np.array(out[0], copy=True),
                                b=None if out[1] is None else np.array(out[1], copy=True)))
            return out

        J._distance_loop, J.get_closest_point_to_origin, J.calculate_closest_points = loop, solve, ccp
        return self

    def __exit__(self, *a):
        J = self.J
        J._distance_loop, J.get_closest_point_to_origin, J.calculate_closest_points = self.orig

    def take(self):
        s, c = self.steps, self.ccp
        self.steps, self.ccp, self.solver_calls = [], [], []
        return s, c


def err_name(e):
    if isinstance(e, IndexError):
        return "indexOOB"
    if isinstance(e, AssertionError):
        return "assertFail"
    if isinstance(e, ZeroDivisionError):
        return "divZero"
    if isinstance(e, TypeError):
        return "typeErr"
    if isinstance(e, ValueError):
        return "sqrtNeg"
    return "exc:" + type(e).__name__


_WARM_P = np.array([[0.36, 0.48, -0.8], [-0.8, 0.6, 0.0], [0.48, 0.64, 0.6]])


def warm_spec(s):
    """the same shape at another pose (rotated by a fixed rotation, shifted): where a collider is built and queried
    before it is moved to the pose of the scene"""
    w = dict(s)
    w["R"] = (_WARM_P @ np.array(s["R"], dtype=float)).tolist()
    t = np.array(s["t"], dtype=float)
    w["t"] = [float(-t[1] + 0.5), float(t[2] + 1.0), float(t[0] - 2.0)]
    return w


def can_move(s):
    return s["type"] != "hull"          # ConvexHullVertices has no pose


def make_moved_collider(s, other):
    """collider built at warm_spec(s), queried once against `other` (fills every cache a support function may keep),
    then moved to the pose of s by update_pose: by the library's contract it now equals make_collider(s)"""
    from distance3d import gjk
    if not can_move(s):
        return make_collider(s)
    c = make_collider(warm_spec(s))
    try:
        with np.errstate(all="ignore"):
            gjk.gjk(c, other)
    except Exception:  # noqa
        pass
    c.update_pose(pose_of(np.array(s["R"], dtype=float), np.array(s["t"], dtype=float)))
    return c


def run_gjk(sA, sB, rec=None, moved=False, **kw):
    """real gjk.gjk on a pair of specs -> dict(result|err, steps, ccp); moved: both colliders are constructed at another
    pose, queried, and brought to the scene's pose with update_pose before the query that is judged"""
    from distance3d import gjk
    if moved:
        A = make_moved_collider(sA, make_collider(sB))
        B = make_moved_collider(sB, make_collider(sA))
        if rec is not None:
            rec.take()
    else:
        A, B = make_collider(sA), make_collider(sB)
    out = {}
    try:
        with np.errstate(all="ignore"):
            d, a, b, Y = gjk.gjk(A, B, **kw)
        out["res"] = (float(d), None if a is None else np.array(a, dtype=float), None if b is None else np.array(b, dtype=float))
    except Exception as e:  # noqa
        out["err"] = err_name(e)
        out["msg"] = str(e)[:200]
    if rec is not None:
        out["steps"], out["ccp"] = rec.take()
    return out


# ====================================================================== encoding for the driver
def fr(x):
    return Fraction(float(x))


def enc(x, mode):
    return f2h(x) if mode == "F" else core.q2s(fr(x))


def clean_rows(M, n):
    """rows >= n of an np.empty array are unspecified; zero them for the exact (Q) driver and for hashing"""
    M = np.array(M, dtype=float, copy=True)
    M[n:] = 0.0
    return M


def enc_step(ins, mode):
    n = ins["n"]
    Y, P, Q = (clean_rows(ins[k], min(n, 4)) for k in ("Y", "P", "Q"))
    t = [enc(x, mode) for x in ins["p"]] + [enc(x, mode) for x in ins["q"]]
    for M in (Y, P, Q):
        t += [enc(x, mode) for x in M.ravel()]
    t += [str(n), enc(ins["tol_sq"], mode), enc(ins["prev"], mode), enc(ins["vlen"], mode)]
    t += [enc(x, mode) for x in ins["sd"]] + [enc(ins["maxd"], mode)]
    return t


def dec(tok, mode):
    return h2f(tok) if mode == "F" else float(core.s2q(tok))


def parse_step(out, mode):
    """driver line -> dict"""
    parts = out.split()
    if parts[0] == "err":
        return {"err": parts[1]}
    if parts[0] != "ok":
        return {"bad": out[:200]}
    gs, br, n, st = int(parts[1]), int(parts[2]), int(parts[3]), int(parts[4])
    vals = parts[5:]
    f = [dec(x, mode) for x in vals[:41]]
    return {"state": gs, "br": br, "n": n, "set": st, "prev": f[0], "vlen": f[1], "sd": np.array(f[2:5]),
            "Y": np.array(f[5:17]).reshape(4, 3), "P": np.array(f[17:29]).reshape(4, 3),
            "Q": np.array(f[29:41]).reshape(4, 3), "raw": vals[:41]}


# ====================================================================== python-side path of a recorded step
def py_branch(st):
    """exit branch id of a recorded step (same numbering as the model)"""
    if "err" in st:
        return "err:" + st["err"]
    o = st["out"]
    ins = st["ins"]
    if o["state"] == 3:
        return 0
    sol = st["solver"][-1][3] if st["solver"] else None
    succ = bool(sol and sol[0])
    if o["state"] == 1:
        if succ and sol[3] == 0xf:
            return 1
        vlen = sol[2] if succ else ins["vlen"]
        if vlen <= ins["tol_sq"]:
            return 2
        return 3
    if o["state"] == 0:
        return 4 if succ else 5
    return 6 if succ else 7


def exact_margins(st):
    """relative margins (exact, fractions) of the scalar decisions of `_distance_loop` on Python's own values;
    used to arbitrate a branch flip"""
    ins = st["ins"]
    m = {}
    sp = [fr(a) - fr(b) for a, b in zip(ins["p"], ins["q"])]
    sd = [fr(x) for x in ins["sd"]]
    dot = sum(a * b for a, b in zip(sd, sp))
    sc = max(abs(dot), Fraction(1, 10 ** 300))
    m["dot<0"] = abs(dot) / max(sum(abs(a * b) for a, b in zip(sd, sp)), Fraction(1, 10 ** 300))
    lhs, rhs = dot * dot, fr(ins["vlen"]) * fr(ins["maxd"])
    m["clip"] = abs(lhs - rhs) / max(lhs, rhs, sc * sc)
    sol = st["solver"][-1][3] if st["solver"] else None
    if sol is not None and sol[1] is not None:
        v = [fr(x) for x in sol[1]]
        vl = sum(x * x for x in v)
        prev = fr(ins["prev"])
        m["success"] = abs(vl - prev) / max(prev, vl, Fraction(1, 10 ** 300))
        vlen = fr(sol[2]) if sol[0] else fr(ins["vlen"])
    else:
        vlen = fr(ins["vlen"])
    prev = fr(ins["prev"])
    tol = fr(ins["tol_sq"])
    m["tol"] = abs(vlen - tol) / max(vlen, tol, Fraction(1, 10 ** 300))
    if "out" in st and st["out"]["state"] != 3:
        o = st["out"]
        my = max(sum(fr(x) ** 2 for x in o["Y"][i]) for i in range(max(1, o["n"])))
        m["relY"] = abs(vlen - fr(EPS) * my) / max(vlen, fr(EPS) * my, Fraction(1, 10 ** 300))
    m["progress"] = abs(prev - vlen - fr(EPS) * prev) / max(prev, Fraction(1, 10 ** 300))
    # the same margins relative to the scale of the simplex (DESIGN 3.1: a flip whose exact margin is below
    # 1e-12*scale is a tie): |v|^2 near tol^2 / eps*max|Y|^2 / eps*prev is far below the solver's resolution
    sc2 = fr(scale_of(ins)) ** 2
    m["tol/scale"] = abs(vlen - tol) / sc2
    if "relY" in m:
        m["relY/scale"] = abs(vlen - fr(EPS) * my) / sc2
    m["progress/scale"] = abs(prev - vlen - fr(EPS) * prev) / sc2 if prev < fr(1e300) else Fraction(1)
    return {k: float(v) for k, v in m.items()}


# ====================================================================== correspondence
def scale_of(ins):
    n = ins["n"]
    vals = [1.0, float(np.max(np.abs(ins["p"] - ins["q"])))]
    if n > 0:
        vals.append(float(np.max(np.abs(ins["Y"][:n]))))
    return max(vals)


def compare_steps(ctx, steps, tag, lattice_q=False):
    """steps: list of (recorded step, seed_input)"""
    if not steps:
        return
    drv = core.Driver("c01-" + tag)
    plan = []
    for st, seed in steps:
        ins = st["ins"]
        sol = st["solver"][-1][3] if st["solver"] else None
        ids = {}
        toks = enc_step(ins, "F")
        ids["F"] = drv.add("C01.step", "F", toks)
        if sol is not None:
            succ, v, vl, bits = sol
            sw = toks + ["1" if succ else "0"] + [f2h(x) for x in (v if v is not None else np.zeros(3))] + \
                [f2h(vl if vl is not None else 0.0), str(bits if bits is not None else 0)]
            ids["W"] = drv.add("C01.stepWith", "F", sw)
        elif "out" in st and st["out"]["state"] == 3:
            ids["W"] = drv.add("C01.stepWith", "F", toks + ["0"] + [f2h(0.0)] * 4 + ["0"])
        if lattice_q and all(np.all(np.isfinite(ins[k])) for k in ("p", "q", "sd")) and np.isfinite(ins["prev"]):
            ids["Q"] = drv.add("C01.step", "Q", enc_step(ins, "Q"))
        plan.append((st, seed, ids))
    out = drv.run()
    for st, seed, ids in plan:
        ins = st["ins"]
        pb = py_branch(st)
        ctx.branch("_distance_loop", pb)
        key = " ".join(enc_step(ins, "F"))
        ctx.count("step:" + tag, key=key, nontrivial=True)
        sc = scale_of(ins)
        # ---------- (A) abstract solver answered from the trace: exact equality
        if "W" in ids:
            r = parse_step(out.get(ids["W"], "bad missing"), "F")
            msg = diff_step(st, r, exact=True, sc=sc)
            if msg:
                mg = exact_margins(st)
                tie = [k for k in ("dot<0", "clip", "relY") if mg.get(k, 1) < 1e-9]
                if tie and "state" in r:
                    ctx.branch("ties", "stepWith:" + tie[0])
                else:
                    ctx.broke("correspondence", "_distance_loop (solver answers from trace)",
                              "%s | python branch %s | margins %s" % (msg, pb, mg), seed)
                    continue
        # ---------- (B) C18 solver model plugged in
        for mode in ("F", "Q"):
            if mode not in ids:
                continue
            r = parse_step(out.get(ids[mode], "bad missing"), mode)
            tolv = 1e-9 if mode == "F" else 1e-11
            msg = diff_step(st, r, exact=False, sc=sc, tolv=tolv)
            if not msg:
                ctx.branch("model-branch:" + mode, r.get("br", "err:" + str(r.get("err"))))
                continue
            # arbitration: numerically equivalent solver answers / exactly computed margins of the deciding test
            mg = exact_margins(st)
            why = arbitrate(st, r, mg, sc, tolv)
            if why:
                ctx.branch("ties", "step%s:%s" % (mode, why))
                ctx.extra["ties"] = ctx.extra.get("ties", 0) + 1
            else:
                ctx.broke("correspondence", "_distance_loop (C18 solver model, mode %s)" % mode,
                          "%s | python branch %s | model branch %s | margins %s" % (msg, pb, r.get("br"), mg), seed)


def visited_good(ctx, steps, cap=3000):
    """Run-time evidence for the hypothesis VisitedGood JoltGood of the C01.jolt_* theorems: the Lean checker joltGoodB
    (D3.Gjk.joltGoodB_iff: it decides JoltGood) evaluated at exact rationals on the simplices the recorded runs handed
    to get_closest_point_to_origin. Evidence only: a simplex inside a C18 band is not a violation (the oracle judges
    the answers there), it is a call the solver theorems do not cover."""
    drv = core.Driver("c01-good")
    plan = []
    for st, seed in steps[:cap]:
        ins = st["ins"]
        n = ins["n"]
        if not st["solver"] or n > 3:
            continue
        if not all(np.all(np.isfinite(ins[k])) for k in ("p", "q")):
            continue
        Y = clean_rows(ins["Y"], min(n, 4)).copy()
        Y[n] = np.asarray(ins["p"], dtype=float) - np.asarray(ins["q"], dtype=float)
        if not np.all(np.isfinite(Y)):
            continue
        plan.append((n + 1, drv.add("C01.good", "Q", [enc(x, "Q") for x in Y.ravel()] + [str(n + 1)])))
    if not plan:
        return
    out = drv.run()
    tot, good = {}, {}
    for n, cid in plan:
        parts = out.get(cid, "bad").split()
        if parts[:1] != ["ok"]:
            ctx.broke("correspondence", "C01.good", "driver: %s" % " ".join(parts)[:100])
            continue
        tot[n] = tot.get(n, 0) + 1
        good[n] = good.get(n, 0) + int(parts[1])
    ctx.extra["visited_simplices"] = {str(k): tot[k] for k in sorted(tot)}
    ctx.extra["visited_jolt_good"] = {str(k): good.get(k, 0) for k in sorted(tot)}
    ctx.extra["visited_jolt_good_fraction"] = sum(good.values()) / max(1, sum(tot.values()))


def diff_step(st, r, exact, sc, tolv=1e-9):
    """None if the model's step output agrees with the recorded one"""
    if "bad" in r:
        return "driver: " + r["bad"]
    if "err" in st:
        if r.get("err") != st["err"]:
            return "implementation raised %s, model %s" % (st["err"], r.get("err", "ok br %s" % r.get("br")))
        return None
    if "err" in r:
        return "model error %s, implementation returned state %d" % (r["err"], st["out"]["state"])
    o = st["out"]
    if r["state"] != o["state"]:
        return "exit state: impl %d model %d" % (o["state"], r["state"])
    if o["state"] == 3:
        return None
    if r["n"] != o["n"]:
        return "n_points: impl %d model %d" % (o["n"], r["n"])
    n = o["n"]
    for k in ("Y", "P", "Q"):
        if n > 0 and not np.array_equal(np.asarray(o[k][:n]), r[k][:n]):
            return "%s rows differ: impl %s model %s" % (k, o[k][:n].tolist(), r[k][:n].tolist())
    if exact:
        for k in ("prev", "vlen"):
            if f2h(o[k]) != f2h(r[k]) and not (o[k] == r[k]):
                return "%s: impl %r model %r" % (k, o[k], r[k])
        if not all((a == b) or (math.isnan(a) and math.isnan(b)) for a, b in zip(o["sd"], r["sd"])):
            return "search_direction: impl %s model %s" % (o["sd"].tolist(), r["sd"].tolist())
        return None
    for k in ("prev", "vlen"):
        a, b = o[k], r[k]
        if not (abs(a - b) <= tolv * max(sc * sc, abs(a)) or a == b):
            return "%s: impl %r model %r" % (k, a, b)
    if not np.all(np.abs(o["sd"] - r["sd"]) <= tolv * sc):
        return "search_direction: impl %s model %s" % (o["sd"].tolist(), r["sd"].tolist())
    return None


def arbitrate(st, r, mg, sc, tolv):
    """a discrete difference between the recorded step and the model (C18 solver plugged in) is a tie if the
    deciding scalar test has an exact relative margin below 1e-9, or if the two solver answers are numerically
    the same point (closest point is unique; the feature set is not)"""
    if "err" in st or "err" in r or "bad" in r:
        return None
    o = st["out"]
    pb = py_branch(st)
    mb = r["br"]
    pair = {pb, mb}
    if pair <= {4, 6} and mg["progress"] < 1e-9:
        return "progress"
    if (pair <= {4, 5, 6} or pair <= {5, 6}) and mg.get("success", 1) < 1e-9:
        return "success"
    if 2 in pair and mg["tol"] < 1e-9:
        return "tol"
    if 3 in pair and mg.get("relY", 1) < 1e-9:
        return "relY"
    if 0 in pair and (mg["clip"] < 1e-9 or mg["dot<0"] < 1e-9):
        return "clip"
    # same exit, different feature set: compare the points
    if o["state"] == r["state"] and o["state"] != 3:
        if np.all(np.abs(o["sd"] - r["sd"]) <= 10 * tolv * sc) and abs(o["vlen"] - r["vlen"]) <= 10 * tolv * max(sc * sc, abs(o["vlen"])):
            return "feature-set"
    if pair <= {4, 5, 6} and mg["progress"] < 1e-9:
        return "progress"
    # below the numerical resolution of the solver: the two |v|^2 agree within tolv*scale^2 (checked by the caller
    # for equal exits) and the deciding test compares quantities that are < 1e-12*scale^2 apart
    close = abs(o.get("vlen", 0.0) - r.get("vlen", 0.0)) <= 10 * tolv * sc * sc or o["state"] == 1 or r["state"] == 1
    if close:
        if pair & {2} and mg["tol/scale"] < 1e-12:
            return "tol/scale"
        if pair & {3} and mg.get("relY/scale", 1) < 1e-12:
            return "relY/scale"
        if pair <= {4, 5, 6} and mg["progress/scale"] < 1e-12:
            return "progress/scale"
    return None


def compare_ccp(ctx, recs, tag):
    if not recs:
        return
    drv = core.Driver("c01-ccp-" + tag)
    plan = []
    for rc, seed in recs:
        n = rc["n"]
        toks = []
        for k in ("Y", "P", "Q"):
            toks += [f2h(x) for x in clean_rows(rc[k], min(n, 4)).ravel()]
        toks.append(str(n))
        plan.append((rc, seed, drv.add("C01.ccp", "F", toks), " ".join(toks)))
    out = drv.run()
    for rc, seed, cid, key in plan:
        ctx.count("ccp:" + tag, key=key)
        ctx.branch("calculate_closest_points", rc["n"])
        parts = out.get(cid, "bad missing").split()
        if rc["a"] is None:
            if parts[:2] != ["ok", "0"]:
                ctx.broke("correspondence", "calculate_closest_points", "impl None, model %s" % parts[:3], seed)
            continue
        if parts[:2] != ["ok", "1"]:
            if parts[0] == "err" and not (np.all(np.isfinite(rc["a"])) and np.all(np.isfinite(rc["b"]))):
                continue   # model: divZero, implementation: inf/nan
            ctx.broke("correspondence", "calculate_closest_points", "impl %s, model %s" % (rc["a"].tolist(), parts[:3]), seed)
            continue
        a = np.array([h2f(x) for x in parts[2:5]])
        b = np.array([h2f(x) for x in parts[5:8]])
        n = rc["n"]
        sc = max(1.0, float(np.max(np.abs(rc["P"][:n]))), float(np.max(np.abs(rc["Q"][:n]))))
        # conditioning of the barycentric solve: spread of Y relative to its smallest edge
        Y = rc["Y"][:n]
        cond = 1.0
        if n >= 2:
            ed = [float(np.linalg.norm(Y[i] - Y[j])) for i in range(n) for j in range(i)]
            cond = max(1.0, (max(ed) / max(min(ed), 1e-300)) ** 2) if min(ed) > 0 else 1e16
        tol = min(1e-9 * sc * cond, 1e-5 * sc)
        if not (np.all(np.abs(a - rc["a"]) <= tol) and np.all(np.abs(b - rc["b"]) <= tol)):
            ctx.broke("correspondence", "calculate_closest_points",
                      "n=%d impl a=%s b=%s model a=%s b=%s tol=%g" % (n, rc["a"].tolist(), rc["b"].tolist(),
                                                                      a.tolist(), b.tolist(), tol), seed)


def compare_runs(ctx, runs, tag):
    """driver loop + finish on the recorded support trace (end to end, C18 solver model plugged in)"""
    if not runs:
        return
    drv = core.Driver("c01-run-" + tag)
    plan = []
    for res, seed, L in runs:
        steps = res["steps"]
        if not steps:
            continue
        toks = [f2h(1e-10), f2h(100000.0), f2h(1e-8), str(len(steps))]
        for st in steps:
            toks += [f2h(x) for x in st["ins"]["p"]] + [f2h(x) for x in st["ins"]["q"]]
        plan.append((res, seed, L, drv.add("C01.run", "F", toks)))
    out = drv.run()
    for res, seed, L, cid in plan:
        ctx.count("run:" + tag, key=cid + str(seed)[:200])
        line = out.get(cid, "bad missing")
        parts = line.split()
        steps = res["steps"]
        if "err" in res:
            # implementation raised (sanity check / assertion): the model must raise the same error
            if parts[0] == "err" and parts[1] == res["err"]:
                ctx.branch("gjk_distance_jolt", "err:" + res["err"])
            else:
                ctx.broke("correspondence", "gjk_distance_jolt", "impl raised %s (%s), model: %s" % (
                    res["err"], res.get("msg"), line[:100]), seed)
            continue
        if parts[0] == "err" and parts[1] == "fuel":
            # model needs one more iteration than the implementation made: a tie at the last exit test
            ctx.branch("gjk_distance_jolt", "trace-short")
            ctx.extra["run_path_ties"] = ctx.extra.get("run_path_ties", 0) + 1
            continue
        if parts[0] != "ok":
            ctx.broke("correspondence", "gjk_distance_jolt", "model: %s, implementation returned %r" % (line[:100], res["res"][0]), seed)
            continue
        clipped, gs, iters, n = int(parts[1]), int(parts[2]), int(parts[3]), int(parts[4])
        d, a, b = res["res"]
        ctx.branch("gjk_distance_jolt", "exit%d" % gs)
        if clipped:
            if d != MAXF:
                ctx.broke("correspondence", "gjk_distance_jolt", "model Clipped, impl d=%r" % d, seed)
            continue
        dm = h2f(parts[5])
        k = 6
        am = bm = None
        if parts[k] == "none":
            k += 1
        else:
            am = np.array([h2f(x) for x in parts[k:k + 3]])
            k += 3
        if parts[k] == "none":
            k += 1
        else:
            bm = np.array([h2f(x) for x in parts[k:k + 3]])
            k += 3
        left = int(parts[k])
        same_path = (left == 0 and iters == len(steps))
        tol = 1e-9 * L if same_path else 1e-6 * L
        if not same_path:
            ctx.extra["run_path_ties"] = ctx.extra.get("run_path_ties", 0) + 1
        okd = abs(dm - d) <= tol
        if not okd and min(dm, d) == 0.0 and max(dm, d) <= 1e-7 * L:
            # exit-threshold tie on the last step: one side left through an Intersection exit (d := 0), the other one
            # through NoIntersection with |v| a few 1e-8 L — both answers are far inside the property's 1e-5 L
            ctx.extra["run_exit_ties"] = ctx.extra.get("run_exit_ties", 0) + 1
            continue
        oka = a is not None and am is not None and np.all(np.abs(am - a) <= max(tol, 1e-7 * L)) and \
            np.all(np.abs(bm - b) <= max(tol, 1e-7 * L))
        if not okd:
            ctx.broke("correspondence", "gjk_distance_jolt", "distance: impl %r model %r (iterations %d vs %d)" % (
                d, dm, len(steps), iters), seed)
        elif not oka and same_path and a is not None and am is not None and \
                np.all(np.abs((a - am) - (b - bm)) <= max(tol, 1e-7 * L)) and \
                float(np.max(np.abs(a - am))) <= 1e-5 * L:
            # parallel features: the optimum is a whole set; both sides moved BOTH points by the same small vector
            # (a - b unchanged): the last bits of an ill-conditioned barycentric solve, not a different answer.
            # Feasibility of the implementation's points is judged by the independent oracle, not here.
            ctx.extra["run_point_shift_ties"] = ctx.extra.get("run_point_shift_ties", 0) + 1
        elif not oka and same_path:
            # closest points are not unique for parallel features: only a same-path difference counts
            ctx.broke("correspondence", "gjk_distance_jolt", "closest points: impl %s %s model %s %s" % (
                None if a is None else a.tolist(), None if b is None else b.tolist(),
                None if am is None else am.tolist(), None if bm is None else bm.tolist()), seed)
        # search directions asked by the model vs recorded
        if same_path and ";" in parts:
            dirs = parts[parts.index(";") + 1:]
            for i, st in enumerate(steps):
                dv = np.array([h2f(x) for x in dirs[3 * i:3 * i + 3]])
                sc = scale_of(st["ins"])
                # the model's own state drifts from the recorded one by the solver's last bits per iteration
                # (support points come from the trace): loose tolerance here, the step-wise tie is the exact one
                if not np.all(np.abs(dv - st["ins"]["sd"]) <= 1e-6 * max(sc, float(np.max(np.abs(dv))))):
                    ctx.broke("correspondence", "gjk_distance_jolt search direction",
                              "iteration %d: impl %s model %s" % (i, st["ins"]["sd"].tolist(), dv.tolist()), seed)
                    break


def compare_hull_e2e(ctx, pairs):
    """vertex hulls end to end in the model (its own first-argmax support), F and Q"""
    drv = core.Driver("c01-hull")
    plan = []
    for sA, sB, info in pairs:
        VA = np.array(make_collider(sA).vertices, dtype=float)
        VB = np.array(make_collider(sB).vertices, dtype=float)
        from distance3d import colliders as C, gjk
        from distance3d.gjk import _gjk_jolt as J
        A, B = C.ConvexHullVertices(np.ascontiguousarray(VA)), C.ConvexHullVertices(np.ascontiguousarray(VB))
        try:
            d, a, b, _ = gjk.gjk(A, B)
            it = J.gjk_distance_jolt_iterations(A, B)
            res = (float(d), a, b, it)
        except Exception as e:  # noqa
            res = ("err", err_name(e))
        ids = {}
        for mode in ("F", "Q"):
            toks = [enc(1e-10, mode), enc(100000.0, mode), enc(1e-8, mode), "64", str(len(VA))]
            toks += [enc(x, mode) for x in VA.ravel()] + [str(len(VB))] + [enc(x, mode) for x in VB.ravel()]
            ids[mode] = drv.add("C01.hull", mode, toks)
        plan.append((sA, sB, info, res, ids))
    out = drv.run()
    for sA, sB, info, res, ids in plan:
        seed = {"A": sA, "B": sB, "info": info}
        for mode in ("F", "Q"):
            ctx.count("hull-e2e:" + mode, key=ids[mode] + str(seed)[:300])
            parts = out.get(ids[mode], "bad missing").split()
            if res[0] == "err":
                if not (parts[0] == "err" and parts[1] == res[1]):
                    ctx.broke("correspondence", "gjk on vertex hulls (end to end, %s)" % mode,
                              "impl raised %s, model %s" % (res[1], parts[:3]), seed)
                continue
            if parts[0] != "ok":
                ctx.broke("correspondence", "gjk on vertex hulls (end to end, %s)" % mode,
                          "model %s, impl d=%r" % (parts[:3], res[0]), seed)
                continue
            clipped, gs, iters = int(parts[1]), int(parts[2]), int(parts[3])
            ctx.branch("hull-e2e:" + mode, "exit%d" % gs)
            d = res[0]
            if clipped:
                if d != MAXF:
                    ctx.broke("correspondence", "gjk on vertex hulls (end to end, %s)" % mode, "model clipped, impl %r" % d, seed)
                continue
            dm = dec(parts[5], mode)
            L = scene_L(OShape(sA), OShape(sB))
            if abs(dm - d) > 1e-9 * L or abs(iters - res[3]) > 1:
                ctx.broke("correspondence", "gjk on vertex hulls (end to end, %s)" % mode,
                          "impl d=%r it=%d, model d=%r it=%d" % (d, res[3], dm, iters), seed)


# ---------------------------------------------------------------------- crafted single steps (stub solver)
def crafted_steps(ctx, rec):
    """calls of the real `_distance_loop` on hand-made loop states with a stub solver, sitting exactly on / next to
    every scalar decision of the loop, plus the malformed states (full simplex, NaN point, violated assertion)"""
    from distance3d.gjk import _gjk_jolt as J
    cases = []
    e1 = np.array([1.0, 0, 0])
    base = dict(Y=np.zeros((4, 3)), P=np.zeros((4, 3)), Q=np.zeros((4, 3)), n=1, tol_sq=1e-20, prev=4.0, vlen=4.0,
                sd=np.array([-2.0, 0, 0]), maxd=100000.0, p=np.array([2.0, 1, 0]), q=np.array([0.0, 0, 0]))
    base["Y"][0] = base["P"][0] = [2.0, 0, 0]

    def mk(**kw):
        c = {k: (v.copy() if isinstance(v, np.ndarray) else v) for k, v in base.items()}
        stub = kw.pop("stub")
        for k, v in kw.items():
            c[k] = np.array(v, dtype=float) if isinstance(v, (list, tuple, np.ndarray)) else v
        cases.append((c, stub))

    one = 1.0
    below = float(np.nextafter(1.0, 0.0))       # 1 - 2^-53
    two_below = 1.0 - 2.0 ** -52                # prev - vlen == EPS * prev exactly for prev = 1
    # relative-progress test  prev - vlen <= EPS * prev   (prev = 1)
    for vl in (one, below, two_below, float(np.nextafter(two_below, 0.0)), 0.75):
        mk(prev=1.0, vlen=1.0, sd=[-1.0, 0, 0], p=[1.0, 0.5, 0], stub=(vl < 1.0, np.array([math.sqrt(vl), 0, 0]), vl, 0b11))
    # tolerance test vlen <= tol_sq
    for vl in (1e-20, float(np.nextafter(1e-20, 1.0)), float(np.nextafter(1e-20, 0.0)), 0.0):
        mk(stub=(True, np.array([math.sqrt(vl), 0, 0]), vl, 0b01))
    # the same test where it is the only one that can fire (tol^2 = 1/4 >> eps*max|Y|^2): `<=` vs `<` is observable
    for vl in (0.25, float(np.nextafter(0.25, 1.0)), float(np.nextafter(0.25, 0.0))):
        for bits in (0b01, 0b11):
            mk(tol_sq=0.25, stub=(True, np.array([math.sqrt(vl), 0, 0]), vl, bits))
    # relative-to-Y test vlen <= EPS * max|Y|^2 ; Y0 = (2,0,0), new point (2,1,0): max|Y|^2 = 5 (both kept) or 4
    for bits, my in ((0b11, 5.0), (0b01, 4.0), (0b10, 5.0)):
        for vl in (EPS * my, float(np.nextafter(EPS * my, 1.0)), float(np.nextafter(EPS * my, 0.0))):
            mk(stub=(True, np.array([math.sqrt(vl), 0, 0]), vl, bits))
    # clipping test: dot < 0 and dot*dot > vlen * maxd ; sd = (-1,0,0), vlen = 1
    for x in (math.sqrt(100000.0), 316.0, 317.0, 316.22776601683796, 316.2277660168379, 316.227766016838, 0.0, -1.0):
        mk(prev=1.0, vlen=1.0, sd=[-1.0, 0, 0], p=[x, 0, 0], stub=(True, np.array([0.5, 0, 0]), 0.25, 0b10))
    mk(prev=1.0, vlen=1.0, sd=[-1.0, 0, 0], p=[4.0, 0, 0], maxd=16.0, stub=(True, np.array([0.5, 0, 0]), 0.25, 0b10))
    mk(prev=1.0, vlen=1.0, sd=[-1.0, 0, 0], p=[4.0, 0, 0], maxd=15.5, stub=(True, np.array([0.5, 0, 0]), 0.25, 0b10))
    # simplex 0xf and every feature set for n_points = 3 -> compaction
    Y3 = np.array([[2.0, 0, 0], [0, 3.0, 0], [0, 0, 5.0], [9, 9, 9]])
    P3 = Y3 + 1
    Q3 = np.ones((4, 3))
    for bits in range(1, 16):
        mk(Y=Y3, P=P3, Q=Q3, n=3, p=[-1.0, -2, -3], q=[0.5, 0.25, 0.125], prev=4.0, vlen=4.0, sd=[1.0, 1, 1],
           stub=(True, np.array([0.5, 0.25, 0.125]), 0.328125, bits))
    for n in (0, 1, 2, 3):
        # solver reports no improvement: undo, all bits
        mk(Y=Y3, P=P3, Q=Q3, n=n, p=[-1.0, -2, -3], q=[0.5, 0.25, 0.125], prev=4.0, vlen=4.0, sd=[1.0, 1, 1],
           stub=(False, None, None, None))
        mk(Y=Y3, P=P3, Q=Q3, n=n, p=[-1.0, -2, -3], q=[0.5, 0.25, 0.125], prev=4.0, vlen=3.0, sd=[1.0, 1, 1],
           stub=(False, None, None, None))
    # malformed: full simplex (IndexError), violated assertion, NaN
    mk(Y=Y3, P=P3, Q=Q3, n=4, stub=(True, np.array([0.5, 0, 0]), 0.25, 0b1))
    mk(prev=1.0, vlen=2.0, stub=(False, None, None, None))
    mk(prev=1.0, vlen=1.0, stub=(True, np.array([2.0, 0, 0]), 4.0, 0b1))
    mk(prev=float("nan"), vlen=1.0, stub=(False, None, None, None))
    mk(prev=MAXF, vlen=1.0, n=0, sd=[1.0, 0, 0], p=[float("nan"), 0, 0], stub=(False, None, None, None))
    # random lattice states with random stub answers
    for _ in range(ctx.budget(150, 1500)):
        n = ctx.rng.randrange(4)
        Yr = np.array([[ctx.rng.choice([-2.0, -1, -0.5, 0, 0.5, 1, 2]) for _ in range(3)] for _ in range(4)])
        Pr = Yr + np.array([[ctx.rng.choice([-1.0, 0, 1]) for _ in range(3)] for _ in range(4)])
        Qr = Pr - Yr
        vl = ctx.rng.choice([0.0, 1e-21, 1e-20, 1e-16, 2.0 ** -52, 0.25, 1.0, below, 4.0])
        prev = ctx.rng.choice([vl, 1.0, 4.0, MAXF, float(np.nextafter(vl, 10.0))])
        succ = ctx.rng.random() < 0.7
        bits = ctx.rng.randrange(0, 16)
        mk(Y=Yr, P=Pr, Q=Qr, n=n, prev=prev, vlen=ctx.rng.choice([prev, 1.0, vl]),
           sd=[ctx.rng.choice([-1.0, 0, 1, 2]) for _ in range(3)],
           p=[ctx.rng.choice([-400.0, -2, -1, 0, 1, 2, 400]) for _ in range(3)],
           q=[ctx.rng.choice([-1.0, 0, 0.5, 1]) for _ in range(3)],
           stub=((True, np.array([math.sqrt(vl), 0, 0]), vl, bits) if succ else (False, None, None, None)))
    steps = []
    for c, stub in cases:
        rec.stub = stub
        Y, P, Q, sd = c["Y"].copy(), c["P"].copy(), c["Q"].copy(), c["sd"].copy()
        try:
            with np.errstate(all="ignore"):
                J._distance_loop(c["p"].copy(), c["q"].copy(), Y, P, Q, c["n"], c["tol_sq"], c["prev"], c["vlen"], sd, c["maxd"])
        except Exception:  # noqa  (recorded by the wrapper)
            pass
        rec.stub = None
        got, _ = rec.take()
        for st in got:
            steps.append((st, {"crafted": {k: (v.tolist() if isinstance(v, np.ndarray) else v) for k, v in c.items()},
                               "stub": [stub[0], None if stub[1] is None else stub[1].tolist(), stub[2], stub[3]]}))
    return steps


def compare_crafted(ctx, steps):
    """crafted steps: solver answers from the stub -> exact equality required, no arbitration"""
    drv = core.Driver("c01-crafted")
    plan = []
    for st, seed in steps:
        ins = st["ins"]
        sol = st["solver"][-1][3] if st["solver"] else (False, None, None, None)
        succ, v, vl, bits = sol
        toks = enc_step(ins, "F") + ["1" if succ else "0"] + [f2h(x) for x in (v if v is not None else np.zeros(3))] + \
            [f2h(vl if vl is not None else 0.0), str(bits if bits is not None else 0)]
        plan.append((st, seed, drv.add("C01.stepWith", "F", toks), " ".join(toks)))
    out = drv.run()
    for st, seed, cid, key in plan:
        ctx.count("M:crafted-step", key=key)
        pb = py_branch(st)
        ctx.branch("_distance_loop(crafted)", pb)
        r = parse_step(out.get(cid, "bad missing"), "F")
        msg = diff_step(st, r, exact=True, sc=1.0)
        if msg is None and "br" in r and isinstance(pb, int) and r["br"] != pb:
            msg = "branch id: impl %s model %s" % (pb, r["br"])
        if msg:
            ctx.broke("correspondence", "_distance_loop (crafted state, stub solver)", msg, seed)


def gen_scenes(ctx, n_general, n_lattice):
    sc = [(a, b, i, "F") for a, b, i in fixed_scenes()]
    for _ in range(n_lattice):
        a, b, i = gen_pair_lattice(ctx.rng)
        sc.append((a, b, i, "L"))
    for _ in range(n_general):
        a, b, i = gen_pair_general(ctx.rng)
        sc.append((a, b, i, "G"))
    # two FLAT shapes (disk, ellipse, planar mesh) on lattice placements: parallel, perpendicular, coplanar, crossing
    flat_types = [t for t in TYPES if t in ("disk", "ellipse")]
    for k in range(max(20, n_lattice // 8)):
        a = gen_shape(ctx.rng, ctx.rng.choice(flat_types), lattice=True, center=lat_center(ctx.rng))
        b = gen_shape(ctx.rng, ctx.rng.choice(flat_types), lattice=True,
                      center=lat_center(ctx.rng) + np.array([0.0, 0.0, ctx.rng.choice([0.0, 0.2, 4.2, 6.0])]))
        sc.append((a, b, {"mode": "flat-pair"}, "L"))
    # curved shape next to an EDGE of a polytope (closest feature = edge: nearly collinear final triple), both orders
    polys = [t for t in TYPES if t in ("box", "mesh", "hull")] or TYPES
    curved = [t for t in TYPES if t in ("sphere", "capsule", "ellipsoid", "cylinder")] or TYPES
    for k in range(max(20, n_general // 6)):
        a, b, i = gen_pair_general(ctx.rng, tA=ctx.rng.choice(polys), tB=ctx.rng.choice(curved), force_edge=True)
        if "R" not in a:
            continue
        sc.append(((a, b, i, "G")) if k % 2 == 0 else ((b, a, dict(i, swapped=True), "G")))
    return sc


def is_exact_lattice(s):
    """all vertices / parameters dyadic and pose a signed permutation: every support point is exact"""
    R = np.array(s["R"])
    return s["type"] in ("box", "hull", "mesh") and np.all(np.isin(R, (-1.0, 0.0, 1.0))) and not s.get("margin") \
        and s.get("mesh", 0) != 4


def correspondence(ctx):
    with Recorder() as rec:
        # crafted states / stub solver (malformed + decision-boundary stream)
        compare_crafted(ctx, crafted_steps(ctx, rec))
        scenes = gen_scenes(ctx, ctx.budget(260, 4000), ctx.budget(260, 4000))
        steps_by = {"L": [], "G": [], "Lq": []}
        ccps, runs, hull_pairs = [], [], []
        for sA, sB, info, stream in scenes:
            res = run_gjk(sA, sB, rec)
            seed = {"A": sA, "B": sB, "info": info}
            L = scene_L(OShape(sA), OShape(sB))
            key = "G" if stream == "G" else ("Lq" if (is_exact_lattice(sA) and is_exact_lattice(sB)) else "L")
            for st in res["steps"]:
                steps_by[key].append((st, seed))
            for rc in res["ccp"]:
                ccps.append((rc, seed))
            runs.append((res, seed, L))
            if key == "Lq" and sA["type"] in ("hull", "box") and sB["type"] in ("hull", "box") and len(hull_pairs) < 60:
                hull_pairs.append((sA, sB, info))
        compare_steps(ctx, steps_by["L"], "L")
        compare_steps(ctx, steps_by["Lq"], "Lq", lattice_q=True)
        compare_steps(ctx, steps_by["G"], "G")
        k = ctx.budget(1000, 20000)
        visited_good(ctx, steps_by["Lq"][:k] + steps_by["L"][:k] + steps_by["G"][:k], cap=3 * k)
        compare_ccp(ctx, ccps, "all")
        compare_runs(ctx, runs, "all")
        compare_hull_e2e(ctx, hull_pairs)
    nsteps = sum(len(v) for v in steps_by.values())
    ties = ctx.extra.get("ties", 0)
    ctx.extra["step_ties_fraction"] = ties / max(1, nsteps)
    if ties > 0.05 * nsteps + 5:
        ctx.broke("correspondence", "_distance_loop", "too many arbitrated ties: %d of %d steps" % (ties, nsteps))
    hist = ctx.branches.get("_distance_loop", {})
    missing = [b for b in range(7) if str(b) not in hist]
    ctx.extra["exit_histogram"] = dict(hist)
    ctx.extra["exits_not_exercised"] = missing
    if missing:
        ctx.broke("correspondence", "exit coverage", "exit branches never taken in this run: %s" % missing)


# ====================================================================== oracle (real code only)
def oracle_pair(sA, sB, info, res=None):
    """returns list of (what, observed, expected) – empty if the property holds on this pair"""
    SA, SB = OShape(sA), OShape(sB)
    L = scene_L(SA, SB)
    tol = 1e-5 * L
    if res is None:
        res = run_gjk(sA, sB)
    bad = []
    if "err" in res:
        return [("raised", res["err"] + ": " + res.get("msg", ""), "a distance")], {}
    d, a, b = res["res"]
    lb, ub, wa, wb = ref_bracket(SA, SB, L)
    # the bracket is only used when its own witnesses verify
    wit_ok = wa is not None and SA.dist(wa) <= 1e-7 * L and SB.dist(wb) <= 1e-7 * L
    if not wit_ok:
        ub = math.inf
    gt = info.get("gt")
    if gt is not None:
        if not (lb - 1e-6 * L <= gt <= ub + 1e-6 * L):
            raise core.Infra("oracle self-check: ground truth %r outside verified bracket [%r, %r] for %s" % (
                gt, lb, ub, {"A": sA, "B": sB}))
        lb = max(lb, gt)
        ub = min(ub, gt)
    facts = {"L": L, "lb": lb, "ub": ub, "d": d}
    maxd = math.sqrt(100000.0)
    if d == MAXF:
        if ub < maxd - tol:
            bad.append(("clipped-within-max-distance", "MAX_FLOAT", "distance <= %r" % ub))
        return bad, facts
    if a is None or b is None or not (np.all(np.isfinite(a)) and np.all(np.isfinite(b)) and math.isfinite(d)):
        return [("non-finite", repr((d, a, b)), "finite")], facts
    da, db = SA.dist(a), SB.dist(b)
    if da > tol:
        bad.append(("a-not-in-A", "dist(a, A) = %r" % da, "<= %r" % tol))
    if db > tol:
        bad.append(("b-not-in-B", "dist(b, B) = %r" % db, "<= %r" % tol))
    ab = float(np.linalg.norm(a - b))
    if abs(ab - d) > tol:
        bad.append(("|a-b|!=d", "|a-b| = %r, d = %r" % (ab, d), "equal within %r" % tol))
    if d < lb - tol:
        bad.append(("d-below-lower-bound", d, ">= %r (separating plane)" % lb))
    if d > ub + tol:
        bad.append(("d-above-witness", d, "<= %r (witness pair)" % ub))
    if lb > maxd + tol:
        bad.append(("not-clipped-beyond-max", d, "MAX_FLOAT"))
    if lb > tol and not d > 0:
        bad.append(("separated-but-zero", d, "> 0"))
    # deep overlap: a witness point at least tol inside both
    if ub <= tol:
        cands = [wa, wb, 0.5 * (wa + wb)] if wa is not None else []
        cands += [SA.center(), SB.center(), 0.5 * (SA.center() + SB.center())]
        if wa is not None:
            for c in (SA.center(), SB.center()):
                for f in (0.01, 0.1, 0.5):
                    cands.append(wa + f * (c - wa))
        deep = any(min(SA.depth(x), SB.depth(x)) >= tol for x in cands)
        facts["deep"] = deep
        if deep:
            if d != 0.0:
                bad.append(("overlap-but-positive", d, "0"))
            if not np.array_equal(a, b):
                bad.append(("overlap-but-a!=b", (a - b).tolist(), "a = b"))
    return bad, facts


def search(ctx):
    n = ctx.budget(700, 12000) * (2 if ctx.extra.get("search_boost") else 1)
    scenes = gen_scenes(ctx, n // 2, n // 2)
    hist = {}
    for idx, (sA, sB, info, stream) in enumerate(scenes):
        moved = idx % 4 == 3 and (can_move(sA) or can_move(sB))
        if moved:
            info = dict(info, moved=True)
        res = run_gjk(sA, sB, moved=moved)
        ctx.branch("collider-history", "moved-by-update_pose" if moved else "fresh")
        bad, facts = oracle_pair(sA, sB, info, res)
        key = (stream, sA["type"] + ("+m" if sA.get("margin") else ""), sB["type"] + ("+m" if sB.get("margin") else ""))
        ctx.count("search:" + stream, key=str((sA, sB)), nontrivial=(info.get("mode") != "F:identical-spheres"),
                  sample={"A": sA["type"], "B": sB["type"], "mode": info.get("mode"), "d": facts.get("d")})
        hist[info.get("mode", "?").split(":")[0] + ":" + ("gt" if "gt" in info else "bracket")] = \
            hist.get(info.get("mode", "?").split(":")[0] + ":" + ("gt" if "gt" in info else "bracket"), 0) + 1
        ctx.branch("pair-types", key[1] + "|" + key[2])
        if facts.get("ub", 0) - facts.get("lb", 0) > 0.25e-5 * facts.get("L", 1):
            ctx.extra["inconclusive_brackets"] = ctx.extra.get("inconclusive_brackets", 0) + 1
        for what, obs, exp in bad:
            ctx.fail("gjk.gjk%s:" % (" after update_pose" if moved else "") + what, {"A": sA, "B": sB, "info": info}, obs, exp,
                     "membership predicates + verified bracket [lb=%r, ub=%r], L=%r" % (
                         facts.get("lb"), facts.get("ub"), facts.get("L")))
    ctx.extra["search_modes"] = hist


def replay(ctx, payload):
    args = payload.get("args")
    if not args:
        for bk in payload.get("broken", []):
            si = bk.get("seed_input")
            if si and "A" in si:
                args = si
                break
    if not args or "A" not in args:
        print("replay file names no collider pair:", [b.get("name") for b in payload.get("broken", [])])
        return False
    sA, sB, info = args["A"], args["B"], args.get("info", {})
    res = run_gjk(sA, sB, moved=bool(info.get("moved")))
    bad, facts = oracle_pair(sA, sB, info, res)
    print("result:", res.get("res", res.get("err")), "facts:", facts)
    for what, obs, exp in bad:
        print("FAIL", what, "observed", obs, "expected", exp)
    return not bad
