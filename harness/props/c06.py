"""C06 — BVH broad phase + self-collision: correspondence with the Lean model (exact, incl. dict
order and tree arrays), Lean-run linkCheck (= C05 wfCheck + leaf/collider link) on the
implementation's state after every operation, all-pairs brute-force / narrow-phase oracle."""
import itertools
import os
import re

import numpy as np

import core
from core import f2h

RULE = ("scenarios drawn from one PRNG: (U) URDF strings for random kinematic chains/trees (2..8 links, 0..2 "
        "sphere/box/cylinder collision objects per link, revolute/prismatic/fixed/continuous joints with limits, "
        "random branching) loaded into UrdfTransformManager + fill_tree_with_colliders(fill_self_collision_whitelists) "
        "with random joint histories; (A) BVHs built only with add_collider (sphere/box/cylinder/capsule, random or "
        "hand-made asymmetric whitelists, tm.add_transform histories); (L) lattice variant of A (dyadic positions, "
        "axis-permutation rotations: touching/nested/duplicate AABBs); (M) edge: empty BVH, single collider, duplicate "
        "add_collider without update, missing whitelist; (X) exhaustive whitelist logic: 3 spheres, 2 geometries, all 512 "
        "whitelist assignments; (T) generated whitelists on every kinematic tree with <= 5 links; the repository's robot.urdf "
        "fixture with joint histories. After every update: poses, 3 broad-phase queries, detect, "
        "detect_any. A case is non-trivial if it has >= 2 colliders and >= 1 update; distinct = distinct driver line")
EXPLANATION = ("the broad-phase theorems are proved for every state accepted by the decidable linkCheck (proved sound); "
               "this run executes linkCheck in Lean on the implementation's tree arrays / external_data_list / colliders_ "
               "after every operation, compares every result of the faithful model (dict order included) with the "
               "implementation exactly, and checks the implementation against brute force and an all-pairs GJK table")
PARTIAL = {
    "poses_current_tree (closed; admissibility remains)":
        "closed in D3.C06Link: the rebuild loop of update_collider_poses is the C05 insertion history of one-box "
        "batches (rebuild_is_insertion_history), so by C05Insert.insertLeaf_refines the ARRAYS pass wfCheck, encode "
        "exactly buildT of the current AABBs and linkCheck holds by proof (poses_current_arrays, "
        "update_poses_current_arrays); the C06 query/self-collision/detect theorems are restated without the linkCheck "
        "hypothesis (synced_*_exact, synced_detect_eq_brute_force*). Remaining hypothesis: every AABB function returns "
        "lo <= hi (Op.ValidAabb; discharged from C04 by c04_box_valid_encloses); a duplicate add_collider frame leaves "
        "the synced states until the next update (real code behaviour, stated in the doc comment); linkCheck is still "
        "executed on the implementation's arrays as the run-time tie",
}
ASSUMPTIONS = ["tm.get_transform(frame, 'origin') (pytransform3d kinematics, URDF parsing) is a parameter getT of the model",
               "gjk_intersection is an abstract predicate hit on frames; 'hit implies AABB overlap' (C04 + C02) is a "
               "hypothesis of detect_complete / detect_any_iff",
               "bvh.self_collision_whitelists_ has an entry for every collider frame (otherwise KeyError, modelled)",
               "URDF naming convention collision:<link>/<k>; no link is called 'None'; link names contain no regex metacharacters"]
TRUSTED = ["broad_phase.BoundingVolumeHierarchy (add_collider, update_collider_poses, the three query methods), "
           "self_collision.detect/detect_any, urdf_utils.LinkInfo/self_collision_whitelists are modelled; "
           "_make_collider (URDF geometry -> collider), get_colliders/get_artists/get_collider_frames, "
           "fast_transform_manager_initialization are not modelled (the harness exercises _make_collider through URDF scenarios)"]
LEAN_TARGETS = []

MANIFEST = dict(
    text=("Lean theorems poses_current / overlapping_colliders_exact / other_bvh_exact / self_exact hold for every BVH state "
          "accepted by the decidable linkCheck (C05 wfCheck + leaf-to-collider link, proved sound), detect_complete / "
          "detect_sound / detect_any_iff by induction over the dict iteration order for an abstract narrow phase and "
          "arbitrary (also asymmetric) whitelists; the faithful model is compared exactly with the implementation on URDF "
          "and add_collider histories, linkCheck is executed in Lean on the implementation's state after every "
          "operation; brute-force AABB and all-pairs GJK oracle on the real code."),
    note=("trusted: Lean kernel + Mathlib, axioms propext/Classical.choice/Quot.sound; pytransform3d kinematics and the "
          "narrow phase are parameters; array-level tree insertion is tied at run time (C05), not proved; "
          "correspondence harness (sampling)."),
    technique="Lean 4 proof on hand-written model + correspondence (exact results incl. dict order, Lean-run linkCheck on impl state)",
    design="§7 C06")

TOL_POSE = 1e-12


# ------------------------------------------------------------------ small helpers
def norm(s):
    return " ".join(s.split())


def rot_axis_angle(axis, angle):
    axis = np.asarray(axis, dtype=float)
    axis = axis / np.linalg.norm(axis)
    x, y, z = axis
    c, s = np.cos(angle), np.sin(angle)
    C = 1 - c
    return np.array([[c + x * x * C, x * y * C - z * s, x * z * C + y * s],
                     [y * x * C + z * s, c + y * y * C, y * z * C - x * s],
                     [z * x * C - y * s, z * y * C + x * s, c + z * z * C]])


def rand_pose(rng, scale):
    A = np.eye(4)
    axis = [rng.gauss(0, 1) for _ in range(3)]
    if np.linalg.norm(axis) < 1e-6:
        axis = [0, 0, 1]
    A[:3, :3] = rot_axis_angle(axis, rng.uniform(-np.pi, np.pi))
    A[:3, 3] = [rng.uniform(-scale, scale) for _ in range(3)]
    return A.tolist()


SIGNED_PERMS = None


def lattice_pose(rng):
    global SIGNED_PERMS
    if SIGNED_PERMS is None:
        import itertools
        SIGNED_PERMS = []
        for perm in itertools.permutations(range(3)):
            for signs in itertools.product([1, -1], repeat=3):
                R = np.zeros((3, 3))
                for i, p in enumerate(perm):
                    R[i, p] = signs[i]
                if np.linalg.det(R) > 0:
                    SIGNED_PERMS.append(R)
    A = np.eye(4)
    A[:3, :3] = rng.choice(SIGNED_PERMS)
    A[:3, 3] = [rng.choice([-1, -0.5, -0.25, 0, 0.25, 0.5, 1]) for _ in range(3)]
    return A.tolist()


def rand_shape(rng, lattice=False, kinds=("sphere", "box", "cylinder", "capsule")):
    kind = rng.choice(kinds)
    if lattice:
        v = lambda: rng.choice([0.25, 0.5, 0.5, 1.0])  # noqa
    else:
        v = lambda: rng.uniform(0.05, 0.6)  # noqa
    if kind == "sphere":
        return {"shape": "sphere", "radius": v()}
    if kind == "box":
        return {"shape": "box", "size": [v(), v(), v()]}
    if kind == "cylinder":
        return {"shape": "cylinder", "radius": v(), "length": v()}
    return {"shape": "capsule", "radius": v(), "height": v()}


def make_collider(spec, pose):
    from distance3d import colliders
    A = np.asarray(pose, dtype=float)      # no copy: scenarios decide who shares pose arrays
    if spec["shape"] == "sphere":
        return colliders.Sphere(center=A[:3, 3].copy(), radius=spec["radius"])
    if spec["shape"] == "box":
        return colliders.Box(A, np.array(spec["size"], dtype=float))
    if spec["shape"] == "cylinder":
        return colliders.Cylinder(A, spec["radius"], spec["length"])
    if spec["shape"] == "capsule":
        return colliders.Capsule(A, spec["radius"], spec["height"])
    raise ValueError(spec["shape"])


# ------------------------------------------------------------------ scenario generation
def gen_urdf(rng):
    """random kinematic chain/tree as a URDF string + joint list"""
    nlinks = rng.choice([2, 3, 4, 5, 6, 7, 8])
    branching = rng.random() < 0.7
    links, joints = [], []
    for i in range(nlinks):
        ncol = rng.choice([0, 1, 1, 1, 2])
        cols = []
        for _ in range(ncol):
            sh = rand_shape(rng, kinds=("sphere", "box", "cylinder"))
            xyz = [rng.uniform(-0.3, 0.3) for _ in range(3)]
            rpy = [rng.uniform(-1.5, 1.5) if rng.random() < 0.5 else 0.0 for _ in range(3)]
            if sh["shape"] == "sphere":
                g = '<sphere radius="%r"/>' % sh["radius"]
            elif sh["shape"] == "box":
                g = '<box size="%r %r %r"/>' % tuple(sh["size"])
            else:
                g = '<cylinder radius="%r" length="%r"/>' % (sh["radius"], sh["length"])
            cols.append('<collision><origin xyz="%r %r %r" rpy="%r %r %r"/><geometry>%s</geometry></collision>'
                        % (tuple(xyz) + tuple(rpy) + (g,)))
        links.append('<link name="l%d">%s</link>' % (i, "".join(cols)))
        if i > 0:
            parent = rng.randrange(0, i) if branching else i - 1
            jt = rng.choice(["revolute", "revolute", "prismatic", "fixed", "continuous"])
            axis = rng.choice([[1, 0, 0], [0, 1, 0], [0, 0, 1], [0.6, 0.8, 0.0]])
            xyz = [rng.uniform(-0.4, 0.4) for _ in range(3)]
            rpy = [rng.uniform(-1.0, 1.0) if rng.random() < 0.3 else 0.0 for _ in range(3)]
            lo, hi = (-rng.uniform(0.2, 2.5), rng.uniform(0.2, 2.5)) if jt == "revolute" else (-0.5, 0.5)
            lim = '<limit lower="%r" upper="%r"/>' % (lo, hi) if jt in ("revolute", "prismatic") else ""
            joints.append({"name": "j%d" % i, "type": jt, "lo": lo if jt != "continuous" else -3.1,
                           "hi": hi if jt != "continuous" else 3.1})
            links.append('<joint name="j%d" type="%s"><parent link="l%d"/><child link="l%d"/>'
                         '<origin xyz="%r %r %r" rpy="%r %r %r"/><axis xyz="%r %r %r"/>%s</joint>'
                         % ((i, jt, parent, i) + tuple(xyz) + tuple(rpy) + tuple(axis) + (lim,)))
    urdf = '<?xml version="1.0"?><robot name="rob">%s</robot>' % "".join(links)
    return urdf, joints


def gen_queries(rng, lattice, frames, scale):
    qs = []
    for _ in range(rng.choice([1, 2, 3])):
        sh = rand_shape(rng, lattice)
        pose = lattice_pose(rng) if lattice else rand_pose(rng, scale)
        k = rng.choice([0, 0, 1, 2, len(frames)])
        wl = rng.sample(frames, min(k, len(frames))) if frames else []
        if rng.random() < 0.2:
            wl = wl + ["not-a-frame"]
        qs.append({"spec": sh, "pose": pose, "whitelist": wl})
    return qs


def gen_add_part(rng, lattice, nmax, prefix="c"):
    n = rng.choice([1, 2, 3, 4, 5, 6, nmax])
    cols = []
    for i in range(n):
        pose = lattice_pose(rng) if lattice else rand_pose(rng, 0.8)
        cols.append({"frame": "%s%d" % (prefix, i), "spec": rand_shape(rng, lattice), "pose": pose})
    if lattice and n >= 2 and rng.random() < 0.3:
        cols[-1]["spec"] = dict(cols[0]["spec"])
        cols[-1]["pose"] = [list(r) for r in cols[0]["pose"]]   # coincident collider
    if not lattice and rng.random() < 0.5:
        # probes at extreme points: a small sphere centred on a corner of a (non-cubic, generally rotated) box, or on the
        # rim of a cylinder — a real collision that the broad phase only keeps if the AABB reaches its extreme points
        extra = []
        for c in cols:
            if len(extra) >= 2:
                break
            A = np.array(c["pose"], dtype=float)
            sp = c["spec"]
            if sp["shape"] == "box":
                loc = 0.5 * np.array(sp["size"]) * np.array([rng.choice([-1, 1]) for _ in range(3)])
            elif sp["shape"] == "cylinder":
                a_ = rng.uniform(0, 2 * np.pi)
                loc = np.array([sp["radius"] * np.cos(a_), sp["radius"] * np.sin(a_), rng.choice([-0.5, 0.5]) * sp["length"]])
            else:
                continue
            P = np.eye(4)
            P[:3, 3] = A[:3, :3].dot(loc) + A[:3, 3]
            c["static"] = True      # the pair keeps its relative placement through every step of the scenario
            extra.append({"frame": "%sp%d" % (prefix, len(extra)), "spec": {"shape": "sphere", "radius": rng.uniform(0.02, 0.06)},
                          "pose": P.tolist(), "static": True})
        cols += extra
    if lattice and n >= 3 and rng.random() < 0.2:
        # planar scene: the leading colliders are zero-thickness tiles in one plane (floor tiles, a printed circuit):
        # every AABB that encloses several of them has volume 0 however far it extends
        k = rng.choice([3, n, n])
        for i in range(k):
            A = np.eye(4)
            A[:3, 3] = [rng.choice([-2, -1, 0, 1, 2, 3]), rng.choice([-2, -1, 0, 1, 2]), 0.5]
            cols[i]["spec"] = {"shape": "box", "size": [rng.choice([0.5, 1.0]), rng.choice([0.5, 1.0]), 0.0]}
            cols[i]["pose"] = A.tolist()
    return cols


def gen_whitelists(rng, frames):
    mode = rng.choice(["self", "none", "random", "sym", "chain"])
    wl = {}
    for i, f in enumerate(frames):
        if mode == "self":
            wl[f] = [f]
        elif mode == "none":
            wl[f] = []
        elif mode == "random":
            wl[f] = [g for g in frames if rng.random() < 0.3]
        elif mode == "sym":
            wl[f] = [f]
        else:  # chain like the URDF generator: self + predecessor + (asymmetric) successor only sometimes
            wl[f] = [f] + ([frames[i - 1]] if i > 0 else []) + ([frames[i + 1]] if i + 1 < len(frames) and rng.random() < 0.5 else [])
    if mode == "sym":
        for f in frames:
            for g in frames:
                if f < g and rng.random() < 0.3:
                    wl[f].append(g)
                    wl[g].append(f)
    return wl


def gen_scenario(rng, stream):
    if stream == "U":
        urdf, joints = gen_urdf(rng)
        steps = []
        for _ in range(rng.choice([1, 2, 3])):
            st = {}
            for j in joints:
                if j["type"] != "fixed" and rng.random() < 0.8:
                    st[j["name"]] = rng.uniform(j["lo"], j["hi"]) * rng.choice([1.0, 1.0, 1.3])  # sometimes beyond limits (clipped by tm)
            steps.append(st)
            # creeping motion: the same joints moved again by a tiny increment (1e-4 … 1e-9); a pose refresh that
            # skips "unchanged" poses by a tolerance test drops these
            if st and rng.random() < 0.6:
                for _k in range(rng.choice([1, 2])):
                    eps = 10.0 ** (-rng.randrange(4, 10))
                    st = {k: v + eps for k, v in st.items()}
                    steps.append(st)
        sc = {"kind": "urdf", "urdf": urdf, "steps": steps}
        nq = len(steps) + 1
        sc["queries"] = [gen_queries(rng, False, [], 0.8) for _ in range(nq)]
        sc["other"] = gen_add_part(rng, False, 4, prefix="o") if rng.random() < 0.5 else []
        return sc
    lattice = stream == "L"
    cols = gen_add_part(rng, lattice, 8)
    frames = [c["frame"] for c in cols]
    steps = []
    for _ in range(rng.choice([1, 2, 3])):
        st = {}
        for c in cols:
            if c.get("static"):
                continue
            if rng.random() < 0.7:
                st[c["frame"]] = lattice_pose(rng) if lattice else rand_pose(rng, 0.8)
        steps.append(st)
        if st and not lattice and rng.random() < 0.5:
            # creeping motion: a tiny extra translation/rotation of the same frames
            eps = 10.0 ** (-rng.randrange(4, 10))
            st2 = {}
            for f, A in st.items():
                B = np.array(A, dtype=float)
                B[:3, 3] += eps
                c_, s_ = np.cos(eps), np.sin(eps)
                B[:3, :3] = B[:3, :3].dot(np.array([[c_, -s_, 0.0], [s_, c_, 0.0], [0.0, 0.0, 1.0]]))
                st2[f] = B.tolist() if isinstance(A, list) else B
            steps.append(st2)
    sc = {"kind": "add", "colliders": cols, "whitelists": gen_whitelists(rng, frames), "steps": steps,
          # initial collider pose differs from the manager's transform in some scenarios
          "stale_init": rng.random() < 0.3, "dup": None}
    # who owns the pose arrays: "own" (every collider gets its own array), "shared" (all colliders are constructed from
    # ONE array object, e.g. a module-level identity; implies stale initial poses), "alias_tm" (the collider is built
    # from the very array that is registered in the transform manager)
    sc["init_arrays"] = rng.choice(["own", "own", "shared", "alias_tm"])
    if sc["init_arrays"] == "shared":
        sc["stale_init"] = True
    elif sc["init_arrays"] == "alias_tm":
        sc["stale_init"] = False
    if stream == "M":
        edge = rng.choice(["empty", "single", "dup", "nowl", "empty-other"])
        sc["edge"] = edge
        if edge == "empty":
            sc["colliders"], sc["whitelists"], sc["steps"] = [], {}, [{}]
        elif edge == "single":
            sc["colliders"] = cols[:1]
            sc["whitelists"] = {frames[0]: rng.choice([[], [frames[0]]])}
            sc["steps"] = [{frames[0]: rand_pose(rng, 0.5)}]
        elif edge == "dup":
            # add_collider twice for the same frame before any update: stale leaf in the tree
            sc["dup"] = {"frame": frames[0], "spec": rand_shape(rng), "pose": rand_pose(rng, 0.5)}
        elif edge == "nowl":
            sc["whitelists"].pop(frames[-1], None)
    sc["queries"] = [gen_queries(rng, lattice, frames, 0.8) for _ in range(len(sc["steps"]) + 1)]
    sc["other"] = [] if sc.get("edge") == "empty-other" else (gen_add_part(rng, lattice, 4, prefix="o") if rng.random() < 0.6 else [])
    return sc


# ------------------------------------------------------------------ implementation run
def err_name(e):
    for t, n in ((IndexError, "indexOOB"), (AssertionError, "assertFail"), (KeyError, "keyError"),
                 (AttributeError, "attrErr"), (ZeroDivisionError, "divZero"), (TypeError, "typeErr")):
        if isinstance(e, t):
            return n
    return "exc:" + type(e).__name__


def aabb_of(c):
    return np.asarray(c.aabb(), dtype=float).tolist()


def dump_bvh(bvh):
    t = bvh.aabbtree_
    ext = []
    for e in t.external_data_list:
        if e is None:
            ext.append(None)
        else:
            ext.append({"frame": e[0], "aabb": aabb_of(e[1]), "same_object": bvh.colliders_.get(e[0]) is e[1]})
    return {"root": int(t.root), "filled": int(t.filled_len),
            "nodes": np.asarray(t.nodes).astype(int).tolist(),
            "aabbs": np.asarray(t.aabbs, dtype=float).tolist(),
            "ext": ext,
            "colliders": [[f, aabb_of(c)] for f, c in bvh.colliders_.items()]}


def observe(bvh, tm, other, queries, wl_present=True):
    """all observations after one update (or after the initial fill)"""
    from distance3d import self_collision, gjk
    ob = {"state": dump_bvh(bvh)}
    frames = list(bvh.colliders_.keys())
    ob["frames"] = frames
    ob["tm_pose"] = {f: np.asarray(tm.get_transform(f, "origin"), dtype=float).tolist() for f in frames}
    ob["col_pose"] = {f: np.asarray(c.collider2origin(), dtype=float).tolist() for f, c in bvh.colliders_.items()}
    ob["is_sphere"] = {f: type(c).__name__ == "Sphere" for f, c in bvh.colliders_.items()}
    ob["aabb"] = {f: aabb_of(c) for f, c in bvh.colliders_.items()}
    ob["qc"] = []
    for q in queries:
        qc = make_collider(q["spec"], q["pose"])
        try:
            r = bvh.aabb_overlapping_colliders(qc, whitelist=q["whitelist"])
            ob["qc"].append({"ok": True, "qaabb": aabb_of(qc), "res": list(r.keys()),
                             "same_object": all(bvh.colliders_.get(f) is c for f, c in r.items())})
        except Exception as e:  # noqa
            ob["qc"].append({"ok": False, "qaabb": aabb_of(qc), "err": err_name(e), "msg": str(e)[:200]})
    try:
        r = bvh.aabb_overlapping_with_self()
        ob["self"] = {"ok": True, "res": [[None if a is None else a[0], None if b is None else b[0]] for a, b in r]}
    except Exception as e:  # noqa
        ob["self"] = {"ok": False, "err": err_name(e), "msg": str(e)[:200]}
    if other is not None:
        try:
            r = bvh.aabb_overlapping_with_other_bvh(other)
            ob["oth"] = {"ok": True, "res": [[None if a is None else a[0], None if b is None else b[0]] for a, b in r]}
        except Exception as e:  # noqa
            ob["oth"] = {"ok": False, "err": err_name(e), "msg": str(e)[:200]}
        ob["other_aabb"] = {f: aabb_of(c) for f, c in other.colliders_.items()}
    # all-pairs narrow phase (the oracle's table; also fed to the model as `hit`)
    cols = bvh.colliders_
    ob["hits"] = [[f, g] for f in frames for g in frames if gjk.gjk_intersection(cols[f], cols[g])]
    ob["wl"] = {f: list(w) for f, w in bvh.self_collision_whitelists_.items()}
    try:
        r = self_collision.detect(bvh)
        ob["det"] = {"ok": True, "res": [[f, bool(v)] for f, v in r.items()]}
    except Exception as e:  # noqa
        ob["det"] = {"ok": False, "err": err_name(e), "msg": str(e)[:200]}
    try:
        ob["any"] = {"ok": True, "res": bool(self_collision.detect_any(bvh))}
    except Exception as e:  # noqa
        ob["any"] = {"ok": False, "err": err_name(e), "msg": str(e)[:200]}
    return ob


def build_other(sc):
    from pytransform3d.transform_manager import TransformManager
    from distance3d.broad_phase import BoundingVolumeHierarchy
    tm2 = TransformManager(check=False)
    other = BoundingVolumeHierarchy(tm2, "base2")
    for c in sc.get("other", []):
        tm2.add_transform(c["frame"], "base2", np.array(c["pose"], dtype=float))
        other.add_collider(c["frame"], make_collider(c["spec"], c["pose"]))
    if sc.get("other"):
        other.update_collider_poses()
    return other


def impl_run(sc):
    """Run a scenario on the real code. Returns a JSON-able record of everything observed."""
    from pytransform3d.transform_manager import TransformManager
    from pytransform3d.urdf import UrdfTransformManager
    from distance3d.broad_phase import BoundingVolumeHierarchy
    from distance3d import urdf_utils
    rec = {"obs": [], "error": None}
    try:
        other = build_other(sc)
        rec["other_state"] = dump_bvh(other)
        if sc["kind"] == "urdf":
            tm = UrdfTransformManager()
            tm.load_urdf(sc["urdf"])
            bvh = BoundingVolumeHierarchy(tm, "rob")
            bvh.fill_tree_with_colliders(tm, fill_self_collision_whitelists=True)
            rec["wl_info"] = {"transforms": [list(k) for k in tm.transforms.keys()], "nodes": list(tm.nodes),
                              "collision_frames": [o.frame for o in tm.collision_objects],
                              "generated": [[f, list(w)] for f, w in urdf_utils.self_collision_whitelists(tm).items()]}
            rec["obs"].append(observe(bvh, tm, other, sc["queries"][0]))
            for k, st in enumerate(sc["steps"]):
                for j, v in st.items():
                    tm.set_joint(j, v)
                bvh.update_collider_poses()
                rec["obs"].append(observe(bvh, tm, other, sc["queries"][k + 1]))
        else:
            tm = TransformManager(check=False)
            bvh = BoundingVolumeHierarchy(tm, "base")
            rec["init"] = []
            shared = np.eye(4)
            for c in sc["colliders"]:
                reg = np.array(c["pose"], dtype=float)
                tm.add_transform(c["frame"], "base", reg)
                pose0 = np.array(c["pose"], dtype=float)
                if sc.get("init_arrays") == "shared":
                    pose0 = shared
                elif sc.get("init_arrays") == "alias_tm":
                    pose0 = reg
                elif sc.get("stale_init"):
                    pose0 = pose0.copy()
                    pose0[:3, 3] += 0.25
                col = make_collider(c["spec"], pose0)
                rec["init"].append({"frame": c["frame"], "pose": pose0.tolist(), "aabb": aabb_of(col)})
                bvh.add_collider(c["frame"], col)
            if sc.get("dup"):
                d = sc["dup"]
                col = make_collider(d["spec"], d["pose"])
                rec["dup_init"] = {"frame": d["frame"], "pose": np.array(d["pose"], dtype=float).tolist(), "aabb": aabb_of(col)}
                bvh.add_collider(d["frame"], col)
            bvh.self_collision_whitelists_.update({f: list(w) for f, w in sc["whitelists"].items()})
            rec["obs"].append(observe(bvh, tm, other, sc["queries"][0]))
            for k, st in enumerate(sc["steps"]):
                for f, pose in st.items():
                    tm.add_transform(f, "base", np.array(pose, dtype=float))
                bvh.update_collider_poses()
                rec["obs"].append(observe(bvh, tm, other, sc["queries"][k + 1]))
    except Exception as e:  # noqa
        import traceback
        rec["error"] = {"err": err_name(e), "msg": str(e)[:300], "tb": traceback.format_exc()[-800:]}
    return rec


# ------------------------------------------------------------------ oracle (independent of the model)
def overlap(a, b):
    return all(a[k][0] <= b[k][1] and a[k][1] >= b[k][0] for k in range(3))


def aabb_gap(a, b):
    return max(max(a[k][0] - b[k][1], b[k][0] - a[k][1]) for k in range(3))


def oracle(sc, rec):
    """Returns list of (function, detail). `after_update` observations must satisfy the property; the
    observation before the first update_collider_poses of an add_collider scenario is outside the
    property's precondition when the initial collider poses are stale or a frame was added twice."""
    bad = []
    if rec.get("error"):
        return [("scenario raised", rec["error"])]
    for k, ob in enumerate(rec["obs"]):
        updated = (sc["kind"] == "urdf") or k >= 1
        if not updated and (sc.get("stale_init") or sc.get("dup")):
            continue
        frames = ob["frames"]
        # (0) the transform manager still holds what the scenario registered (update_collider_poses only reads it)
        if sc["kind"] == "add":
            want_pose = {c["frame"]: c["pose"] for c in sc["colliders"]}
            for st in sc["steps"][:k]:
                for f, pose in st.items():
                    want_pose[f] = pose
            for f in frames:
                if f in want_pose and f in ob["tm_pose"]:
                    d0 = np.abs(np.array(ob["tm_pose"][f], dtype=float) - np.array(want_pose[f], dtype=float)).max()
                    if not d0 <= TOL_POSE:
                        bad.append(("update_collider_poses:transform manager changed",
                                    {"step": k, "frame": f, "registered": np.array(want_pose[f], dtype=float).tolist(),
                                     "tm": ob["tm_pose"][f]}))
        # (1) poses
        for f in frames:
            A, B = np.array(ob["tm_pose"][f]), np.array(ob["col_pose"][f])
            d = np.abs(A[:3, 3] - B[:3, 3]).max() if ob["is_sphere"][f] else np.abs(A - B).max()
            if not d <= TOL_POSE:
                bad.append(("update_collider_poses:pose", {"step": k, "frame": f, "tm": A.tolist(), "collider": B.tolist()}))
        # (2) aabb_overlapping_colliders
        for q, r in zip(sc["queries"][k], ob["qc"]):
            if not r["ok"]:
                bad.append(("aabb_overlapping_colliders:raised", {"step": k, "err": r["err"], "msg": r.get("msg")}))
                continue
            want = sorted(f for f in frames if overlap(ob["aabb"][f], r["qaabb"]) and f not in q["whitelist"])
            if sorted(r["res"]) != want or len(set(r["res"])) != len(r["res"]):
                bad.append(("aabb_overlapping_colliders", {"step": k, "got": sorted(r["res"]), "want": want, "query": q}))
            elif not r["same_object"]:
                bad.append(("aabb_overlapping_colliders:payload", {"step": k, "what": "returned collider is not colliders_[frame]"}))
        # (3) self
        if not ob["self"]["ok"]:
            bad.append(("aabb_overlapping_with_self:raised", {"step": k, "err": ob["self"]["err"]}))
        else:
            want = sorted([f, g] for f in frames for g in frames if f != g and overlap(ob["aabb"][f], ob["aabb"][g]))
            got = sorted([str(a), str(b)] for a, b in ob["self"]["res"])
            if got != want:
                bad.append(("aabb_overlapping_with_self", {"step": k, "got": got, "want": want}))
        # (4) other
        if "oth" in ob:
            if not ob["oth"]["ok"]:
                bad.append(("aabb_overlapping_with_other_bvh:raised", {"step": k, "err": ob["oth"]["err"]}))
            else:
                oa = ob["other_aabb"]
                want = sorted([f, g] for f in frames for g in oa if overlap(ob["aabb"][f], oa[g]))
                got = sorted([str(a), str(b)] for a, b in ob["oth"]["res"])
                if got != want:
                    bad.append(("aabb_overlapping_with_other_bvh", {"step": k, "got": got, "want": want}))
        # (5) detect / detect_any against the all-pairs narrow-phase table
        wl = ob["wl"]
        if any(f not in wl for f in frames):
            continue   # precondition of detect not met (KeyError is the documented behaviour; compared with the model)
        H = set((f, g) for f, g in ob["hits"])
        # hits whose AABBs do not overlap (cannot happen in exact arithmetic for enclosing AABBs) are rounding ties
        # — but only when the boxes miss each other by rounding (gap <= 1e-9): a colliding pair whose AABBs are clearly
        # apart means that an AABB does not enclose its collider, and then detect's miss is a violation
        tie = set((f, g) for (f, g) in H if not overlap(ob["aabb"][f], ob["aabb"][g])
                  and aabb_gap(ob["aabb"][f], ob["aabb"][g]) <= 1e-9)
        if not ob["det"]["ok"]:
            bad.append(("detect:raised", {"step": k, "err": ob["det"]["err"], "msg": ob["det"].get("msg")}))
        else:
            contacts = dict((f, v) for f, v in ob["det"]["res"])
            if sorted(contacts) != sorted(frames):
                bad.append(("detect:keys", {"step": k, "got": sorted(contacts), "want": sorted(frames)}))
            for f in frames:
                must = [g for g in frames if g != f and (f, g) in H and (f, g) not in tie and g not in wl[f]]
                may = [g for g in frames if ((f, g) in H and g not in wl[f]) or ((g, f) in H and f not in wl[g])]
                if must and not contacts.get(f, False):
                    bad.append(("detect:incomplete", {"step": k, "frame": f, "collides_with": must, "whitelist": wl[f],
                                                      "contacts": ob["det"]["res"]}))
                if contacts.get(f, False) and not may:
                    bad.append(("detect:unsound", {"step": k, "frame": f, "whitelist": wl[f], "contacts": ob["det"]["res"],
                                                   "hits": ob["hits"]}))
        if not ob["any"]["ok"]:
            bad.append(("detect_any:raised", {"step": k, "err": ob["any"]["err"]}))
        else:
            strict = any(g not in wl[f] and (f, g) not in tie for (f, g) in H)
            loose = any(g not in wl[f] for (f, g) in H)
            if ob["any"]["res"] != strict and ob["any"]["res"] != loose:
                bad.append(("detect_any", {"step": k, "got": ob["any"]["res"], "want": strict, "hits": ob["hits"], "wl": wl}))
    return bad


# ------------------------------------------------------------------ encoding for the driver
def enc_box(b):
    return [f2h(b[0][0]), f2h(b[0][1]), f2h(b[1][0]), f2h(b[1][1]), f2h(b[2][0]), f2h(b[2][1])]


def enc_pose(A):
    A = np.asarray(A, dtype=float)
    return [f2h(A[i, j]) for i in range(3) for j in range(3)] + [f2h(A[i, 3]) for i in range(3)]


class Ids:
    def __init__(self):
        self.d = {}

    def __call__(self, name):
        if name not in self.d:
            self.d[name] = len(self.d)
        return self.d[name]


def enc_state(st, ids):
    """implementation dump for C06.link"""
    n = len(st["nodes"])
    t = [str(st["root"]), str(st["filled"]), str(n)]
    for row in st["nodes"]:
        t += [str(int(x)) for x in row]
    for b in st["aabbs"]:
        t += enc_box(b)
    for e in st["ext"]:
        if e is None:
            t.append("-1")
        else:
            t += [str(ids(e["frame"]))] + enc_box(e["aabb"])
    t.append(str(len(st["colliders"])))
    for f, b in st["colliders"]:
        t += [str(ids(f))] + enc_box(b)
    return t


def dump_string(st, ids):
    """the `dump` string the Lean driver prints for a state equal to the implementation's"""
    nodes = " ".join(" ".join(str(int(x)) for x in row) for row in st["nodes"])
    boxes = " ".join(" ".join(enc_box(b)) for b in st["aabbs"])
    ext = " ".join("-1" if e is None else str(ids(e["frame"])) for e in st["ext"])
    cols = " ".join("%d %s" % (ids(f), " ".join(enc_box(b))) for f, b in st["colliders"])
    return norm("ok %d %d %d %s ; %s ; %s ; %d %s" % (st["root"], st["filled"], len(st["nodes"]), nodes, boxes, ext,
                                                     len(st["colliders"]), cols))


def enc_history(sc, rec):
    """driver tokens for C06.hist + the list of expected outputs (one per op; None = not compared)"""
    ids = Ids()
    obs = rec["obs"]
    # per-frame tables pose -> aabb
    tables = {}

    tkey = {}   # frame -> key of the table of the collider object currently stored for that frame

    def tab(f, pose, aabb):
        k = tkey.setdefault(f, f)
        tables.setdefault(k, []).append((pose, aabb))
        return [str(ids(k)), str(len(tables[k]) - 1)]

    ops, expect = [], []

    def op(tokens, exp):
        ops.extend(tokens)
        expect.append(exp)

    # the other BVH (index 1)
    op(["bvh", "1"], "ok")
    oinit = {c["frame"]: c for c in sc.get("other", [])}
    ost = rec["other_state"]
    oaabb = dict((f, b) for f, b in ost["colliders"])
    for f, c in oinit.items():
        op(["add", str(ids(f))] + tab(f, c["pose"], oaabb[f]), "ok")
    if oinit:
        op(["upd", str(len(oinit))] + [x for f in oinit for x in (str(ids(f)), str(ids(f)), "0")], "ok")
    op(["dump"], dump_string(ost, ids))
    op(["bvh", "0"], "ok")
    first = obs[0]
    if sc["kind"] == "urdf":
        for f in first["frames"]:
            op(["add", str(ids(f))] + tab(f, first["tm_pose"][f], first["aabb"][f]), "ok")
        op(["upd", str(len(first["frames"]))] + [x for f in first["frames"] for x in (str(ids(f)), str(ids(f)), "0")], "ok")
    else:
        for ini in rec["init"]:
            op(["add", str(ids(ini["frame"]))] + tab(ini["frame"], ini["pose"], ini["aabb"]), "ok")
        if rec.get("dup_init"):
            ini = rec["dup_init"]
            tkey[ini["frame"]] = "dup:" + ini["frame"]     # a second collider object (other shape) for this frame
            op(["add", str(ids(ini["frame"]))] + tab(ini["frame"], ini["pose"], ini["aabb"]), "ok")

    def enc_obs(k, ob):
        op(["dump"], dump_string(ob["state"], ids))
        op(["link"], None)
        for q, r in zip(sc["queries"][k], ob["qc"]):
            wl = [str(ids(w)) for w in q["whitelist"]]
            exp = ("ok %d %s" % (len(r["res"]), " ".join(str(ids(f)) for f in r["res"]))) if r["ok"] else "err " + r["err"]
            op(["qc"] + enc_box(r["qaabb"]) + [str(len(wl))] + wl, norm(exp))
        r = ob["self"]
        fid = lambda a: -1 if a is None else ids(a)  # noqa
        flat = lambda res: " ".join("%d %d" % (fid(a), fid(b)) for a, b in res)  # noqa
        op(["self"], norm("ok %d %s" % (len(r["res"]), flat(r["res"]))) if r["ok"] else "err " + r["err"])
        if "oth" in ob:
            r = ob["oth"]
            op(["oth"], norm("ok %d %s" % (len(r["res"]), flat(r["res"]))) if r["ok"] else "err " + r["err"])
        hits = [str(len(ob["hits"]))] + [x for f, g in ob["hits"] for x in (str(ids(f)), str(ids(g)))]
        # the model's narrow phase is a predicate on frames: only meaningful when every tree payload is the
        # collider object of colliders_[frame] (always true after update_collider_poses; checked below)
        by_frame = all(e is None or e["same_object"] for e in ob["state"]["ext"])
        r = ob["det"]
        op(["det"] + hits, "SKIP" if not by_frame else
           norm("ok %d %s" % (len(r["res"]), " ".join("%d %d" % (ids(f), 1 if v else 0) for f, v in r["res"])))
           if r["ok"] else "err " + r["err"])
        r = ob["any"]
        op(["any"] + hits, "SKIP" if not by_frame else ("ok %d" % (1 if r["res"] else 0)) if r["ok"] else "err " + r["err"])

    enc_obs(0, first)
    for k in range(1, len(obs)):
        ob = obs[k]
        upd = []
        for f in ob["frames"]:
            upd += [str(ids(f))] + tab(f, ob["tm_pose"][f], ob["aabb"][f])
        op(["upd", str(len(ob["frames"]))] + upd, "ok")
        enc_obs(k, ob)
    # header
    wl = obs[-1]["wl"] if obs else {}
    for f in wl:
        ids(f)
        for g in wl[f]:
            ids(g)
    allf = list(ids.d.keys())
    head = [str(len(allf))]
    for f in allf:
        tb = tables.get(f, [])
        head += [str(ids(f)), str(len(tb))]
        for pose, aabb in tb:
            head += enc_pose(pose) + enc_box(aabb)
        if f in wl:
            head += ["1", str(len(wl[f]))] + [str(ids(g)) for g in wl[f]]
        else:
            head += ["0"]
    return head + ops, expect, ids


LINK_RE = re.compile(r"collision:(.*)\/.*")


def enc_wl(info):
    ids = Ids()
    for n in info["nodes"]:
        ids(n)
    t = [str(len(info["transforms"]))]
    for c, p in info["transforms"]:
        t += [str(ids(c)), str(ids(p))]
    t += [str(len(info["nodes"]))] + [str(ids(n)) for n in info["nodes"]]
    t += [str(len(info["collision_frames"]))] + [str(ids(f)) for f in info["collision_frames"]]
    links = []
    for n in list(ids.d.keys()):
        m = LINK_RE.match(n) if isinstance(n, str) else None
        if m is not None:
            links.append((ids(n), ids(m.group(1))))
    t += [str(len(links))] + [x for a, b in links for x in (str(a), str(b))]
    want = "ok %d %s" % (len(info["generated"]),
                         " ".join("%d %d %s" % (ids(f), len(w), " ".join(str(ids(g)) for g in w)) for f, w in info["generated"]))
    return t, norm(want)


# ------------------------------------------------------------------ check steps
def state_should_link(sc, k):
    """is the observation k inside the property's precondition (tree built from current poses)?"""
    if sc["kind"] == "urdf" or k >= 1:
        return True
    return not sc.get("dup")   # stale initial poses are still linked: the tree holds each collider's own aabb()


def run_scenarios(ctx, scs, engine_results=None, tag="interp"):
    drv = core.Driver("c06-" + tag)
    plan = []
    for stream, sc in scs:
        rec = engine_results[len(plan)] if engine_results is not None else impl_run(sc)
        item = {"stream": stream, "sc": sc, "rec": rec, "hist": None, "links": [], "wl": None}
        if not rec.get("error") and rec["obs"]:
            tokens, expect, ids = enc_history(sc, rec)
            item["hist"] = (drv.add("C06.hist", "F", tokens), expect, tokens)
            for k, ob in enumerate(rec["obs"]):
                item["links"].append(drv.add("C06.link", "F", enc_state(ob["state"], Ids())))
            if "wl_info" in rec:
                t, want = enc_wl(rec["wl_info"])
                item["wl"] = (drv.add("C06.wl", "F", t), want)
        plan.append(item)
    out = drv.run()
    for it in plan:
        sc, rec, stream = it["sc"], it["rec"], it["stream"]
        ncol = len(rec["obs"][-1]["frames"]) if rec["obs"] else 0
        key = norm(" ".join(it["hist"][2])) if it["hist"] else repr(sc)[:2000]
        ctx.count(stream + ":" + tag, key=key, nontrivial=(ncol >= 2 and len(rec["obs"]) >= 2),
                  sample={"stream": stream, "kind": sc["kind"], "edge": sc.get("edge"), "colliders": ncol,
                          "updates": len(sc["steps"])})
        # --- oracle first (independent of the model)
        for what, detail in oracle(sc, rec):
            ctx.fail(what, {"scenario": sc}, detail, "see oracle", "brute-force AABB / all-pairs gjk_intersection",
                     engine=tag)
        if rec.get("error") or it["hist"] is None:
            continue
        for ob in rec["obs"]:
            H = set(map(tuple, ob["hits"]))
            nt = sum(1 for (f, g) in H if not overlap(ob["aabb"][f], ob["aabb"][g]))
            if nt:
                ctx.extra["hit_without_aabb_overlap"] = ctx.extra.get("hit_without_aabb_overlap", 0) + nt
            if ob["det"]["ok"]:
                ctx.branch("detect", "some-contact" if any(v for _, v in ob["det"]["res"]) else "no-contact")
                wl = ob["wl"]
                asym = any((g in wl.get(f, [])) != (f in wl.get(g, [])) for f in ob["frames"] for g in ob["frames"])
                ctx.branch("whitelists", "asymmetric" if asym else "symmetric")
            else:
                ctx.branch("detect", "err-" + ob["det"]["err"])
        # --- correspondence with the model
        cid, expect, tokens = it["hist"]
        mout = out.get(cid, "bad missing")
        mparts = [norm(x) for x in mout.split(" | ")]
        if len(mparts) != len(expect):
            ctx.broke("correspondence", "C06.hist", "model output has %d parts, expected %d: %s" % (
                len(mparts), len(expect), mout[:300]), {"scenario": sc})
            continue
        nlink = 0
        for k, (m, e) in enumerate(zip(mparts, expect)):
            if e is None:     # model's own link verdict: must agree with linkCheck on the implementation's state
                lid = it["links"][nlink]
                w = norm(out.get(lid, "bad missing"))
                should = state_should_link(sc, nlink)
                ctx.branch("linkCheck", w.split()[1] if len(w.split()) > 1 else w)
                if m != w:
                    ctx.broke("correspondence", "linkCheck", "model state: %s, implementation state: %s (observation %d)"
                              % (m, w, nlink), {"scenario": sc})
                    break
                if should and not all(e is None or e["same_object"] for e in rec["obs"][nlink]["state"]["ext"]):
                    ctx.broke("correspondence", "payload identity", "after update a tree payload is not the collider "
                              "object of colliders_[frame] (observation %d)" % nlink, {"scenario": sc})
                    break
                nfr = len(rec["obs"][nlink]["frames"])
                good = (w == "ok empty") if nfr == 0 else (w == "ok linked %d" % nfr)
                if should and not good:
                    ctx.broke("correspondence", "linkCheck(implementation state)",
                              "linkCheck says '%s' after update %d with %d colliders: the hypothesis of the broad-phase "
                              "theorems is not met" % (w, nlink, nfr), {"scenario": sc})
                    break
                nlink += 1
                continue
            if e == "SKIP":
                continue
            if m != e:
                ctx.broke("correspondence", "BVH op #%d" % k, "impl=%s model=%s" % (e[:300], m[:300]), {"scenario": sc})
                break
        if it["wl"] is not None:
            wid, want = it["wl"]
            got = norm(out.get(wid, "bad missing"))
            ctx.branch("whitelist-gen", "checked")
            if got != want:
                ctx.broke("correspondence", "self_collision_whitelists", "impl=%s model=%s" % (want[:300], got[:300]),
                          {"scenario": sc})


def corpus():
    """hand-written scenarios; run first"""
    I = np.eye(4).tolist()  # noqa

    def at(x, y=0.0, z=0.0):
        A = np.eye(4)
        A[:3, 3] = [x, y, z]
        return A.tolist()
    sph = {"shape": "sphere", "radius": 0.5}
    q = [{"spec": {"shape": "box", "size": [1, 1, 1]}, "pose": I, "whitelist": []}]
    # three spheres in a row, a|b overlap, b|c overlap, asymmetric whitelist: a ignores b, b does not ignore a
    asym = {"kind": "add", "colliders": [{"frame": "a", "spec": sph, "pose": at(0)}, {"frame": "b", "spec": sph, "pose": at(0.75)},
                                          {"frame": "c", "spec": sph, "pose": at(3)}],
            "whitelists": {"a": ["a", "b"], "b": ["b"], "c": ["c"]}, "steps": [{"c": at(1.5)}, {"c": at(5)}],
            "stale_init": False, "dup": None, "queries": [q, q, q], "other": [{"frame": "o0", "spec": sph, "pose": at(0.5)}]}
    # no self entry in the whitelist: every frame "collides" with itself
    noself = dict(asym, whitelists={"a": [], "b": [], "c": []})
    touching = {"kind": "add", "colliders": [{"frame": "a", "spec": {"shape": "box", "size": [1, 1, 1]}, "pose": at(0)},
                                              {"frame": "b", "spec": {"shape": "box", "size": [1, 1, 1]}, "pose": at(1)}],
                "whitelists": {"a": ["a"], "b": ["b"]}, "steps": [{"b": at(1, 1, 1)}, {"b": at(2)}],
                "stale_init": False, "dup": None, "queries": [q, q, q], "other": []}
    empty = {"kind": "add", "edge": "empty", "colliders": [], "whitelists": {}, "steps": [{}], "stale_init": False,
             "dup": None, "queries": [q, q], "other": [{"frame": "o0", "spec": sph, "pose": at(0.5)}]}
    urdf = ('<?xml version="1.0"?><robot name="rob">'
            '<link name="l0"><collision><origin xyz="0 0 0"/><geometry><box size="0.2 0.2 0.2"/></geometry></collision></link>'
            '<link name="l1"><collision><origin xyz="0 0 0.2"/><geometry><sphere radius="0.1"/></geometry></collision>'
            '<collision><origin xyz="0 0 0.3"/><geometry><cylinder radius="0.1" length="0.3"/></geometry></collision></link>'
            '<link name="l2"><collision><origin xyz="0 0 0.2"/><geometry><sphere radius="0.1"/></geometry></collision></link>'
            '<link name="l3"><collision><origin xyz="0 0 0.2"/><geometry><sphere radius="0.15"/></geometry></collision></link>'
            '<joint name="j1" type="revolute"><parent link="l0"/><child link="l1"/><origin xyz="0 0 0.1"/><axis xyz="0 1 0"/><limit lower="-3" upper="3"/></joint>'
            '<joint name="j2" type="prismatic"><parent link="l0"/><child link="l2"/><origin xyz="0.3 0 0.1"/><axis xyz="1 0 0"/><limit lower="-1" upper="1"/></joint>'
            '<joint name="j3" type="revolute"><parent link="l1"/><child link="l3"/><origin xyz="0 0 0.4"/><axis xyz="0 1 0"/><limit lower="-3" upper="3"/></joint>'
            '</robot>')
    branch = {"kind": "urdf", "urdf": urdf, "steps": [{"j1": 1.2, "j2": -0.2}, {"j1": 0.0, "j3": 2.9}, {"j2": -0.35}],
              "queries": [q, q, q, q], "other": []}
    return [("A", asym), ("A", noself), ("L", touching), ("M", empty), ("U", branch)]


def fixture_scenarios(rng):
    """the repository's own robot.urdf (6 revolute joints, 8 primitive colliders) with joint histories,
    including the three configurations of test_self_collision.py"""
    path = os.path.join(core.REPO, "test", "data", "robot.urdf")
    if not os.path.exists(path):
        return []
    urdf = open(path).read().replace('<robot name="robot_arm">', '<robot name="rob">')
    if '<robot name="rob">' not in urdf:
        return []
    steps = [{"joint2": 1.57, "joint3": 1.57, "joint5": 1.93}, {"joint2": 1.57, "joint3": 1.57, "joint5": 2.05}]
    for _ in range(3):
        steps.append({"joint%d" % j: rng.uniform(-3.0, 3.0) for j in range(1, 7) if rng.random() < 0.8})
    sc = {"kind": "urdf", "urdf": urdf, "steps": steps,
          "queries": [gen_queries(rng, False, [], 0.8) for _ in range(len(steps) + 1)],
          "other": gen_add_part(rng, False, 4, prefix="o")}
    return [("U", sc)]


def whitelist_exhaustive(ctx):
    """whitelist logic, exhaustively: three spheres a, b, c; two geometries (chain: a|b and b|c collide;
    clique: all collide); every assignment of whitelists wl[f] subset of {a, b, c} (8^3 = 512, symmetric and
    asymmetric, with and without the frame itself); quick: one dict order per geometry plus a random sample of
    the other orders, thorough: all 6 insertion orders"""
    def at(x):
        A = np.eye(4)
        A[0, 3] = x
        return A.tolist()
    sph = {"shape": "sphere", "radius": 0.5}
    geoms = {"chain": {"a": 0.0, "b": 0.75, "c": 1.5}, "clique": {"a": 0.0, "b": 0.25, "c": 0.5}}
    subsets = [list(c) for k in range(4) for c in itertools.combinations("abc", k)]
    orders = list(itertools.permutations("abc"))
    scs = []
    for gname, pos in geoms.items():
        for wa in subsets:
            for wb in subsets:
                for wc in subsets:
                    if ctx.thorough:
                        use = orders
                    else:
                        use = [orders[0]] + ([ctx.rng.choice(orders[1:])] if ctx.rng.random() < 0.25 else [])
                    for order in use:
                        scs.append(("X", {"kind": "add", "colliders": [{"frame": f, "spec": sph, "pose": at(pos[f])} for f in order],
                                          "whitelists": {"a": wa, "b": wb, "c": wc}, "steps": [{}], "stale_init": False,
                                          "dup": None, "queries": [[], []], "other": []}))
    return scs


def whitelist_topologies(ctx):
    """urdf_utils.self_collision_whitelists vs the model on every kinematic tree with <= 5 links
    (parent[i] < i: 1 + 1 + 2 + 6 + 24 topologies), 0..2 collision objects per link"""
    from pytransform3d.urdf import UrdfTransformManager
    from distance3d import urdf_utils
    drv = core.Driver("c06-topo")
    plan = []
    for n in range(1, 6):
        for parents in itertools.product(*[range(i) for i in range(1, n)]):
            ncols = [ctx.rng.choice([0, 1, 1, 2]) for _ in range(n)]
            parts = []
            for i in range(n):
                cols = "".join('<collision><origin xyz="0 0 %d"/><geometry><sphere radius="0.1"/></geometry></collision>' % k
                               for k in range(ncols[i]))
                parts.append('<link name="l%d">%s</link>' % (i, cols))
            for i, p in enumerate(parents, start=1):
                parts.append('<joint name="j%d" type="revolute"><parent link="l%d"/><child link="l%d"/><origin xyz="0 0 1"/>'
                             '<axis xyz="0 1 0"/><limit lower="-1" upper="1"/></joint>' % (i, p, i))
            urdf = '<?xml version="1.0"?><robot name="rob">%s</robot>' % "".join(parts)
            tm = UrdfTransformManager()
            tm.load_urdf(urdf)
            info = {"transforms": [list(k) for k in tm.transforms.keys()], "nodes": list(tm.nodes),
                    "collision_frames": [o.frame for o in tm.collision_objects],
                    "generated": [[f, list(w)] for f, w in urdf_utils.self_collision_whitelists(tm).items()]}
            t, want = enc_wl(info)
            plan.append((urdf, drv.add("C06.wl", "F", t), want, info))
            ctx.count("T:topo", key=urdf, nontrivial=n >= 2)
    out = drv.run()
    for urdf, cid, want, info in plan:
        got = norm(out.get(cid, "bad missing"))
        gen = dict((f, w) for f, w in info["generated"])
        asym = any((g in gen.get(f, [])) != (f in gen.get(g, [])) for f in gen for g in gen)
        ctx.branch("whitelist-gen", "asymmetric" if asym else "symmetric")
        if got != want:
            ctx.broke("correspondence", "self_collision_whitelists", "impl=%s model=%s" % (want[:300], got[:300]),
                      {"urdf": urdf})


def gen_all(ctx, n):
    scs = []
    for _ in range(n):
        r = ctx.rng.random()
        stream = "U" if r < 0.4 else ("A" if r < 0.65 else ("L" if r < 0.85 else "M"))
        scs.append((stream, gen_scenario(ctx.rng, stream)))
    return scs


def correspondence(ctx):
    run_scenarios(ctx, corpus() + fixture_scenarios(ctx.rng))
    run_scenarios(ctx, whitelist_exhaustive(ctx), tag="wl")
    whitelist_topologies(ctx)
    n = ctx.budget(220, 3000)
    for k in range(0, n, 300):  # batches keep the driver input small
        run_scenarios(ctx, gen_all(ctx, min(300, n - k)))


def search(ctx):
    """oracle only, larger scenarios and longer joint histories (real code only)"""
    n = ctx.budget(110, 2000) * (3 if ctx.extra.get("search_boost") else 1)
    for _ in range(n):
        stream = ctx.rng.choice(["U", "U", "A", "L"])
        sc = gen_scenario(ctx.rng, stream)
        if stream == "U":
            # longer joint history
            extra = []
            names = sorted(set(re.findall(r'joint name="(j\d+)"', sc["urdf"])))
            for _k in range(3):
                extra.append({j: ctx.rng.uniform(-2.5, 2.5) for j in names if ctx.rng.random() < 0.7})
            sc["steps"] += extra
            sc["queries"] += [gen_queries(ctx.rng, False, [], 0.8) for _ in extra]
        rec = impl_run(sc)
        ctx.count("search:" + stream, key=repr(sc)[:3000])
        for what, detail in oracle(sc, rec):
            ctx.fail(what, {"scenario": sc}, detail, "see oracle", "brute-force AABB / all-pairs gjk_intersection")


def replay(ctx, payload):
    sc = (payload.get("args") or {}).get("scenario")
    if sc is None:
        for b in payload.get("broken", []):
            if b.get("seed_input") and "scenario" in b["seed_input"]:
                sc = b["seed_input"]["scenario"]
                break
    if sc is None:
        print("replay file names no input:", payload.get("broken"))
        return False
    rec = impl_run(sc)
    bad = oracle(sc, rec)
    for what, detail in bad:
        print("FAIL", what, str(detail)[:600])
    return not bad
