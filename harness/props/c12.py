"""C12 — results are symmetric in the arguments, invariant under a common rigid motion and homogeneous
under uniform scaling.

Python half of the vertical:
* `correspondence`: the Lean model of the utils.py pose helpers and of the small kernels of
  `D3.Model.PoseAlg` against the implementation (lattice rotations exactly in Q mode, general inputs in F mode);
* `search`: metamorphic testing of the REAL code — every query family (GJK flavours, MPR, EPA on collider pairs
  of all types; all 34 functions of distance3d.distance on primitive pairs) is re-queried on the swapped scene,
  on the scene moved by a random proper rigid motion and on the uniformly scaled scene, and the results are
  compared within the tolerance of the respective property.
"""
import math
import signal
from fractions import Fraction

import numpy as np

import core
from core import f2h

# ============================================================================ manifest texts
RULE = ("scenes from one PRNG, two streams per query family: lattice 'L' (half-integer coordinates, sizes from "
        "{0.5,1,2,4}, signed axis permutations / 3-4-5 rotations, second shape attached to the first with aligned frame: "
        "touching, parallel, coplanar, nested, coincident) and general 'G' (sizes log-uniform over the domain, random "
        "rotations, offsets overlapping / near / far, scene centre up to 500 from the origin); every scene is re-queried "
        "(a) with swapped arguments, (b) moved by a random proper rigid motion (random rotation or signed axis "
        "permutation with det +1, translation up to 1e3, moved scene kept within 1e3 of the origin), (c) scaled by "
        "s in [1e-2,1e2] (clipped so that the scaled scene stays in the domain); a case is non-trivial if the base "
        "query returns; distinct = distinct (function, relation, scene)")
EXPLANATION = ("Lean: pose algebra of utils.py, spec-level invariance of attained distance / penetration depth for "
               "arbitrary point sets (every function with an optimality theorem inherits C12 for its scalar), direct "
               "equivariance of the dot-product kernels. This run: the pose helpers and kernels of the Lean model are "
               "compared with the implementation, and the metamorphic relations are checked on the real code for all "
               "query families; failures are failures of the queried function and are classified by function, "
               "relation and input class")
PARTIAL = {
    "iterative_outputs_equivariant": "equivariance of the outputs of gjk*/mpr*/epa is not proved directly; the Lean "
                                     "result is scalar_inherits_approx (|d(g.scene) - d(scene)| <= sum of the two "
                                     "C01/C09 bounds) and pen_depth_inherits, conditional on the C01/C07/C09 theorems of "
                                     "the other verticals; checked metamorphically on the real code here",
    "closed_form_distance_functions (closed where C10/C11 prove optimality)":
        "direct equivariance is proved for the kernels modelled in D3.Model.PoseAlg; D3.C12Link adds _inherits (rigid "
        "and scale invariance of the distance) for point_to_{triangle, rectangle, box, disk, cylinder}, line_to_plane, "
        "segment_to_plane, plane_to_{plane, triangle, rectangle, box, ellipsoid, cylinder}, segment_to_segment_swap, "
        "line_to_line_swap_dist; point_to_circle and line_to_segment carry explicit band provisos; functions without an "
        "optimality theorem (polygon pairs, iterative ones) are checked metamorphically only",
    "point_outputs_nonunique": "returned points are only related by g where the optimum is unique "
                               "(closest_pair_equivariant); elsewhere only the scalar outputs are compared",
    "seg_to_seg_scale": "scale homogeneity of _line_segment_to_line_segment holds under the explicit branch-stability "
                        "hypothesis on the absolute epsilon tests (shown necessary by "
                        "seg_to_seg_scale_needs_branch_stability); inside the primitive domain P the hypothesis holds",
}
ASSUMPTIONS = [
    "tolerance of a relation = sum of the tolerances the respective property grants the two compared results (each is "
    "within k*L of the common true value; Lean: scalar_inherits_approx): |d' - d| <= k*(L' + L) for swap / rigid motion, "
    "|d' - s*d| <= k*(L' + s*L) for scaling by s, with k = 1e-5 gjk (C01); 1e-3 gjk_distance_original and the Nesterov "
    "distances (C09); 1e-6 EPA translation length when both calls report success (C07); 2e-3 mpr_penetration depth (C08); "
    "1e-6 distance3d.distance (C10/C11), 5e-3 for line_to_circle / line_segment_to_circle (bisection); "
    "L = max(1, largest feature size, centre distance) of the respective scene",
    "booleans are compared only outside the C02 band: clear gap = gjk distance of the base scene > 2e-3*L, clear "
    "overlap = witness point at least 1e-3*L inside both shapes (inscribed balls around the centres); flat shapes have "
    "no interior, so only the gap side applies to them",
    "returned points are compared (mapped by g, swapped, scaled; tolerance 10x the scalar tolerance) on general-position "
    "scenes of families whose optimum is generically unique; on lattice scenes (ties by construction), for "
    "plane_to_plane and for overlapping collider pairs (any common point is a valid answer) only the scalar outputs are "
    "compared; a point mismatch is reported only when the transformed scene's answer is not itself an equally good answer "
    "(members of the transformed shapes at the same distance); EPA / MPR direction vectors are counted, not judged "
    "(the minimising direction need not be unique)",
    "a call that raises / times out / returns non-finite values is C10/C19's subject, not C12's: such scenes are counted "
    "(extra.raised) and skipped; epa is only called on GJK simplices whose four rows were all written by that GJK call "
    "(gjk returns np.empty rows otherwise, see the notes)",
    "scaled scenes stay in the domain (feature sizes in [1e-2,1e2] for colliders, [0.2,1e2] for primitives, positions "
    "within 1e3): the scale factor drawn from [1e-2,1e2] is clipped accordingly; moved scenes stay within 1e3 of the origin",
]
TRUSTED = ["generators, scene transformers (per shape type: points, directions, poses, axes, normals) and comparison "
           "code of harness/props/c12.py (numpy float64)",
           "signal.setitimer watchdog (5 s per call)"]
MANIFEST = dict(
    text=("Lean theorems: invert_transform is the inverse, composition, rigid motions preserve Gram entries / norms / "
          "distances, cross products under proper rotations (utils.py pose helpers as computed); attained distance and "
          "penetration depth of arbitrary point sets are invariant under common rigid motion, swap-symmetric, "
          "scale-homogeneous and unique, hence every function with an optimality theorem inherits C12 for its scalar "
          "output (exactly or within the sum of tolerances); direct equivariance / swap symmetry / homogeneity of the "
          "dot-product kernels incl. the absolute-epsilon caveat. Harness: correspondence of the pose helpers and "
          "kernels, metamorphic re-query (swap, random proper rigid motion, uniform scale) of all query families on "
          "the real code."),
    note=("trusted: Lean kernel + Mathlib (axioms propext/Classical.choice/Quot.sound); exact-real semantics; the "
          "metamorphic search samples scenes and motions; outputs of the iterative algorithms are related to C12 only "
          "through the optimality theorems of C01/C07/C09/C11 (other verticals); known defects of individual functions "
          "are listed in known_findings.d/C12.json with narrow input classes."),
    technique="Lean 4 proof (pose algebra, spec-level invariance, kernel equivariance) + metamorphic testing of the real code",
    design="§7 C12")

# ============================================================================ small linear algebra
_PERMS = []
for _p in ((0, 1, 2), (0, 2, 1), (1, 0, 2), (1, 2, 0), (2, 0, 1), (2, 1, 0)):
    for _s0 in (1.0, -1.0):
        for _s1 in (1.0, -1.0):
            for _s2 in (1.0, -1.0):
                _M = np.zeros((3, 3))
                for _i, (_j, _s) in enumerate(zip(_p, (_s0, _s1, _s2))):
                    _M[_i, _j] = _s
                if abs(np.linalg.det(_M) - 1.0) < 1e-9:
                    _PERMS.append(_M)
assert len(_PERMS) == 24


def _rot_axis(i, c, s):
    """rotation about coordinate axis i with cos c, sin s"""
    j, k = (i + 1) % 3, (i + 2) % 3
    R = np.eye(3)
    R[j, j], R[j, k], R[k, j], R[k, k] = c, -s, s, c
    return R


_PYTH = [(0.6, 0.8), (0.8, 0.6), (0.28, 0.96), (-0.6, 0.8), (0.6, -0.8), (5.0 / 13.0, 12.0 / 13.0)]


def lattice_rotation(rng):
    """signed axis permutation (det +1), optionally times one 3-4-5-type rotation about an axis"""
    R = _PERMS[rng.randrange(24)].copy()
    if rng.random() < 0.5:
        c, s = rng.choice(_PYTH[:5])
        R = R.dot(_rot_axis(rng.randrange(3), c, s))
    return R


def random_rotation(rng):
    q = np.array([rng.gauss(0, 1) for _ in range(4)])
    q /= np.linalg.norm(q)
    w, x, y, z = q
    return np.array([
        [1 - 2 * (y * y + z * z), 2 * (x * y - z * w), 2 * (x * z + y * w)],
        [2 * (x * y + z * w), 1 - 2 * (x * x + z * z), 2 * (y * z - x * w)],
        [2 * (x * z - y * w), 2 * (y * z + x * w), 1 - 2 * (x * x + y * y)]])


def random_unit(rng):
    v = np.array([rng.gauss(0, 1) for _ in range(3)])
    return v / np.linalg.norm(v)


def pose_of(R, t):
    T = np.eye(4)
    T[:3, :3] = R
    T[:3, 3] = t
    return T


def apply_pt(g, p):
    return g[:3, :3].dot(p) + g[:3, 3]


def apply_inv_pt(g, p):
    return g[:3, :3].T.dot(p - g[:3, 3])


def A(x):
    return np.ascontiguousarray(np.array(x, dtype=np.float64))


# ============================================================================ shapes (colliders and primitives)
# A shape spec is a JSON-able dict {"kind": ..., fields}.  Field roles decide how g and s act:
#   P point (g p ; s p)   D direction/normal/axes rows (R d ; unchanged)   T 4x4 pose (g T ; translation scaled)
#   S size/length/radius scalars or arrays (unchanged ; s S)   V rows of points   X nested shape
ROLES = {
    # primitives of distance3d.distance
    "point": [("p", "P")],
    "line": [("p", "P"), ("d", "D")],
    "segment": [("a", "P"), ("b", "P")],
    "plane": [("p", "P"), ("n", "D")],
    "triangle": [("v", "V")],
    "rectangle": [("c", "P"), ("axes", "D"), ("lengths", "S")],
    "circle": [("c", "P"), ("r", "S"), ("n", "D")],
    "disk": [("c", "P"), ("r", "S"), ("n", "D")],
    "box": [("pose", "T"), ("size", "S")],
    "ellipsoid": [("pose", "T"), ("radii", "S")],
    "cylinder": [("pose", "T"), ("r", "S"), ("l", "S")],
    # colliders only
    "sphere": [("c", "P"), ("r", "S")],
    "capsule": [("pose", "T"), ("r", "S"), ("h", "S")],
    "cone": [("pose", "T"), ("r", "S"), ("h", "S")],
    "ellipse": [("c", "P"), ("axes", "D"), ("radii", "S")],
    "mesh": [("pose", "T"), ("v", "VL"), ("tri", "I")],     # vertices in the local frame: only scaled
    "hull": [("v", "V")],
    "margin": [("inner", "X"), ("m", "S")],
}


def move_shape(sh, g):
    R = g[:3, :3]
    out = {"kind": sh["kind"]}
    for name, role in ROLES[sh["kind"]]:
        v = sh[name]
        if role == "P":
            out[name] = apply_pt(g, A(v)).tolist()
        elif role == "D":
            out[name] = A(v).dot(R.T).tolist()
        elif role == "V":
            out[name] = (A(v).dot(R.T) + g[:3, 3]).tolist()
        elif role == "T":
            out[name] = g.dot(A(v)).tolist()
        elif role == "X":
            out[name] = move_shape(v, g)
        else:
            out[name] = v
    return out


def scale_shape(sh, s):
    out = {"kind": sh["kind"]}
    for name, role in ROLES[sh["kind"]]:
        v = sh[name]
        if role in ("P", "V", "VL"):
            out[name] = (s * A(v)).tolist()
        elif role == "S":
            out[name] = (s * A(v)).tolist() if isinstance(v, (list, tuple)) else s * float(v)
        elif role == "T":
            T = A(v).copy()
            T[:3, 3] *= s
            out[name] = T.tolist()
        elif role == "X":
            out[name] = scale_shape(v, s)
        else:
            out[name] = v
    return out


def shape_center(sh):
    k = sh["kind"]
    if k == "margin":
        return shape_center(sh["inner"])
    if k in ("point", "line", "plane"):
        return A(sh["p"])
    if k == "segment":
        return 0.5 * (A(sh["a"]) + A(sh["b"]))
    if k in ("triangle", "hull"):
        return A(sh["v"]).mean(axis=0)
    if k == "mesh":
        T = A(sh["pose"])
        return apply_pt(T, A(sh["v"]).mean(axis=0))
    if "pose" in sh:
        T = A(sh["pose"])
        if k == "cone":
            return T[:3, 3] + 0.5 * float(sh["h"]) * T[:3, 2]
        return T[:3, 3].copy()
    return A(sh["c"])


def shape_sizes(sh):
    """feature sizes (for L and for the domain clipping of the scale factor)"""
    k = sh["kind"]
    if k == "margin":
        return shape_sizes(sh["inner"]) + [float(sh["m"])]
    if k in ("point", "line", "plane"):
        return []
    if k == "segment":
        return [float(np.linalg.norm(A(sh["b"]) - A(sh["a"])))]
    if k in ("triangle", "hull", "mesh"):
        V = A(sh["v"])
        d = [float(np.linalg.norm(V[i] - V[j])) for i in range(len(V)) for j in range(i)]
        return [max(d), min(d)] if d else []
    out = []
    for name, role in ROLES[k]:
        if role == "S":
            v = sh[name]
            out += [float(x) for x in v] if isinstance(v, (list, tuple)) else [float(v)]
    return out


def shape_anchor_points(sh):
    """points whose norm must stay within 1e3"""
    k = sh["kind"]
    if k == "margin":
        return shape_anchor_points(sh["inner"])
    if k == "segment":
        return [A(sh["a"]), A(sh["b"])]
    if k in ("triangle", "hull"):
        return list(A(sh["v"]))
    return [shape_center(sh)]


def scene_L(s1, s2):
    sizes = shape_sizes(s1) + shape_sizes(s2)
    cd = float(np.linalg.norm(shape_center(s1) - shape_center(s2)))
    return max([1.0, cd] + sizes)


def inscribed_radius(sh):
    """radius of a ball around shape_center that lies inside the shape (0 for flat shapes)"""
    k = sh["kind"]
    if k == "margin":
        return inscribed_radius(sh["inner"]) + float(sh["m"])
    if k == "sphere":
        return float(sh["r"])
    if k == "ellipsoid":
        return float(min(sh["radii"]))
    if k == "capsule":
        return float(sh["r"])
    if k == "cylinder":
        return min(float(sh["r"]), 0.5 * float(sh["l"]))
    if k == "cone":
        r, h = float(sh["r"]), float(sh["h"])
        return min(0.5 * h, 0.5 * r * h / math.hypot(r, h))
    if k == "box":
        return 0.5 * float(min(sh["size"]))
    if k in ("mesh", "hull"):
        from scipy.spatial import ConvexHull
        V = A(sh["v"])
        try:
            ch = ConvexHull(V)
        except Exception:  # noqa
            return 0.0
        c = V.mean(axis=0)
        # equations: n.x + b <= 0 inside
        return float(max(0.0, np.min(-(ch.equations[:, :3].dot(c) + ch.equations[:, 3]))))
    return 0.0


# ---------------------------------------------------------------------------- building library objects
def make_collider(sh):
    import distance3d.colliders as col
    k = sh["kind"]
    if k == "sphere":
        return col.Sphere(A(sh["c"]), float(sh["r"]))
    if k == "ellipsoid":
        return col.Ellipsoid(A(sh["pose"]), A(sh["radii"]))
    if k == "capsule":
        return col.Capsule(A(sh["pose"]), float(sh["r"]), float(sh["h"]))
    if k == "cylinder":
        return col.Cylinder(A(sh["pose"]), float(sh["r"]), float(sh["l"]))
    if k == "cone":
        return col.Cone(A(sh["pose"]), float(sh["r"]), float(sh["h"]))
    if k == "box":
        return col.Box(A(sh["pose"]), A(sh["size"]))
    if k == "disk":
        return col.Disk(A(sh["c"]), float(sh["r"]), A(sh["n"]))
    if k == "ellipse":
        return col.Ellipse(A(sh["c"]), A(sh["axes"]), A(sh["radii"]))
    if k == "mesh":
        return col.MeshGraph(A(sh["pose"]), A(sh["v"]), np.array(sh["tri"], dtype=int))
    if k == "hull":
        return col.ConvexHullVertices(A(sh["v"]))
    if k == "margin":
        return col.Margin(make_collider(sh["inner"]), float(sh["m"]))
    raise ValueError(k)


def prim_args(sh):
    k = sh["kind"]
    out = []
    for name, role in ROLES[k]:
        v = sh[name]
        if role == "S" and not isinstance(v, (list, tuple)):
            out.append(float(v))
        else:
            out.append(A(v))
    return out


# ============================================================================ calling the implementation
class _Watchdog(Exception):
    pass


def _on_alarm(signum, frame):
    raise _Watchdog()


def guarded(fn, *args, timeout_s=5):
    old = signal.signal(signal.SIGALRM, _on_alarm)
    signal.setitimer(signal.ITIMER_REAL, timeout_s)
    try:
        with np.errstate(all="ignore"):
            return True, fn(*args)
    except _Watchdog:
        return False, "timeout"
    except Exception as e:  # noqa
        return False, "%s: %s" % (type(e).__name__, str(e)[:200])
    finally:
        signal.setitimer(signal.ITIMER_REAL, 0)
        signal.signal(signal.SIGALRM, old)


# ---- the 34 distance functions: name -> (kind1, kind2, returns)
DFUNCS = {
    "point_to_line": ("point", "line", "d,p2"),
    "point_to_line_segment": ("point", "segment", "d,p2"),
    "point_to_plane": ("point", "plane", "d,p2"),
    "point_to_triangle": ("point", "triangle", "d,p2"),
    "point_to_rectangle": ("point", "rectangle", "d,p2"),
    "point_to_disk": ("point", "disk", "d,p2"),
    "point_to_circle": ("point", "circle", "d,p2"),
    "point_to_box": ("point", "box", "d,p2"),
    "point_to_ellipsoid": ("point", "ellipsoid", "d,p2"),
    "point_to_cylinder": ("point", "cylinder", "d,p2"),
    "line_to_line": ("line", "line", "d,p1,p2"),
    "line_to_line_segment": ("line", "segment", "d,p1,p2"),
    "line_to_plane": ("line", "plane", "d,p1,p2"),
    "line_to_triangle": ("line", "triangle", "d,p1,p2"),
    "line_to_rectangle": ("line", "rectangle", "d,p1,p2"),
    "line_to_circle": ("line", "circle", "d,p1,p2"),
    "line_to_box": ("line", "box", "d,p1,p2"),
    "line_segment_to_line_segment": ("segment", "segment", "d,p1,p2"),
    "line_segment_to_plane": ("segment", "plane", "d,p1,p2"),
    "line_segment_to_triangle": ("segment", "triangle", "d,p1,p2"),
    "line_segment_to_rectangle": ("segment", "rectangle", "d,p1,p2"),
    "line_segment_to_circle": ("segment", "circle", "d,p1,p2"),
    "line_segment_to_box": ("segment", "box", "d,p1,p2"),
    "plane_to_plane": ("plane", "plane", "d,p1,p2"),
    "plane_to_triangle": ("plane", "triangle", "d,p1,p2"),
    "plane_to_rectangle": ("plane", "rectangle", "d,p1,p2"),
    "plane_to_box": ("plane", "box", "d,p1,p2"),
    "plane_to_ellipsoid": ("plane", "ellipsoid", "d,p1,p2"),
    "plane_to_cylinder": ("plane", "cylinder", "d,p1,p2"),
    "triangle_to_triangle": ("triangle", "triangle", "d,p1,p2"),
    "triangle_to_rectangle": ("triangle", "rectangle", "d,p1,p2"),
    "rectangle_to_rectangle": ("rectangle", "rectangle", "d,p1,p2"),
    "rectangle_to_box": ("rectangle", "box", "d,p1,p2"),
    "disk_to_disk": ("disk", "disk", "d,p1,p2"),
}
assert len(DFUNCS) == 34
DIST_TOL = {"line_to_circle": 5e-3, "line_segment_to_circle": 5e-3}
# families whose optimum is never unique (point outputs not compared): both sets unbounded & flat
NONUNIQUE_FAMILIES = {"plane_to_plane"}


def call_dist(fname, s1, s2):
    import distance3d.distance as dd
    ok, raw = guarded(getattr(dd, fname), *(prim_args(s1) + prim_args(s2)))
    if not ok:
        return {"ok": False, "err": raw}
    ret = DFUNCS[fname][2]
    try:
        d = float(raw[0])
        if ret == "d,p2":
            p1, p2 = A(s1["p"]), A(raw[1])
        else:
            p1, p2 = A(raw[1]), A(raw[2])
    except Exception as e:  # noqa
        return {"ok": False, "err": "bad return: %s" % str(e)[:100]}
    if not (math.isfinite(d) and np.all(np.isfinite(p1)) and np.all(np.isfinite(p2))):
        return {"ok": False, "err": "non-finite"}
    return {"ok": True, "d": d, "p1": p1, "p2": p2}


# ---- collider queries: name -> (kind of result, tolerance factor k (k*L), property)
CFUNCS = {
    "gjk": ("dist", 1e-5, "C01"),
    "gjk_distance_original": ("dist", 1e-3, "C09"),
    "gjk_nesterov_accelerated_distance": ("dist_scalar", 1e-3, "C09"),
    "gjk_nesterov_accelerated_distance(nesterov)": ("dist_scalar", 1e-3, "C09"),
    "gjk_nesterov_accelerated_primitives_distance": ("dist_scalar", 1e-3, "C09"),
    "gjk_intersection": ("bool", None, "C02"),
    "gjk_intersection_libccd": ("bool", None, "C02"),
    "gjk_nesterov_accelerated_intersection": ("bool", None, "C02"),
    "gjk_nesterov_accelerated_primitives_intersection": ("bool", None, "C02"),
    "mpr_intersection": ("bool", None, "C02"),
    "mpr_penetration": ("mpr", 2e-3, "C08"),
    "epa": ("epa", 1e-6, "C07"),
}
PRIMITIVE_KINDS = {"sphere", "capsule", "box", "ellipsoid", "cylinder"}


class _Recorder:
    """recording proxy: notes every support point a collider hands out (no change to the library)"""

    def __init__(self, col):
        self.col = col
        self.log = []

    def support_function(self, d):
        p = self.col.support_function(d)
        self.log.append(np.array(p, dtype=float))
        return p

    def __getattr__(self, name):
        return getattr(self.col, name)


def call_collider(fname, s1, s2):
    import distance3d.gjk as G
    import distance3d.mpr as M
    from distance3d.epa import epa
    if fname.startswith("gjk_nesterov_accelerated_primitives") and not (
            s1["kind"] in PRIMITIVE_KINDS and s2["kind"] in PRIMITIVE_KINDS):
        return {"ok": False, "err": "unsupported"}
    c1, c2 = make_collider(s1), make_collider(s2)
    if fname == "gjk":
        ok, raw = guarded(G.gjk, c1, c2)
        if not ok:
            return {"ok": False, "err": raw}
        if raw[1] is None:
            return {"ok": False, "err": "clipped"}
        return {"ok": True, "d": float(raw[0]), "p1": A(raw[1]), "p2": A(raw[2])}
    if fname == "gjk_distance_original":
        ok, raw = guarded(G.gjk_distance_original, c1, c2)
        if not ok:
            return {"ok": False, "err": raw}
        return {"ok": True, "d": float(raw[0]), "p1": A(raw[1]), "p2": A(raw[2])}
    if fname == "gjk_nesterov_accelerated_distance":
        ok, raw = guarded(G.gjk_nesterov_accelerated_distance, c1, c2)
        return {"ok": True, "d": float(raw)} if ok else {"ok": False, "err": raw}
    if fname == "gjk_nesterov_accelerated_distance(nesterov)":
        ok, raw = guarded(lambda a, b: max(G.gjk_nesterov_accelerated(a, b, use_nesterov_acceleration=True)[1], 0.0),
                          c1, c2)
        return {"ok": True, "d": float(raw)} if ok else {"ok": False, "err": raw}
    if fname == "gjk_nesterov_accelerated_primitives_distance":
        ok, raw = guarded(G.gjk_nesterov_accelerated_primitives_distance, c1, c2)
        return {"ok": True, "d": float(raw)} if ok else {"ok": False, "err": raw}
    if fname in ("gjk_intersection", "gjk_intersection_libccd", "gjk_nesterov_accelerated_intersection",
                 "gjk_nesterov_accelerated_primitives_intersection"):
        ok, raw = guarded(getattr(G, fname), c1, c2)
        return {"ok": True, "b": bool(raw)} if ok else {"ok": False, "err": raw}
    if fname == "mpr_intersection":
        ok, raw = guarded(M.mpr_intersection, c1, c2)
        return {"ok": True, "b": bool(raw)} if ok else {"ok": False, "err": raw}
    if fname == "mpr_penetration":
        ok, raw = guarded(M.mpr_penetration, c1, c2)
        if not ok:
            return {"ok": False, "err": raw}
        inter, depth, pdir, pos = raw
        if not inter:
            return {"ok": True, "b": False}
        return {"ok": True, "b": True, "d": float(depth), "dir": A(pdir), "pos": A(pos)}
    if fname == "epa":
        # gjk returns `Y = np.empty((4, 3))`: rows that were never written hold uninitialised memory when GJK stops
        # with fewer than 4 points (e.g. touching contact found at the first support point).  epa() on such a
        # simplex is not even reproducible, so those scenes are skipped (counted under raised["epa"]): a recording
        # proxy notes every support difference p - q of this call and all four rows must be among them.
        r1, r2 = _Recorder(c1), _Recorder(c2)
        ok, raw = guarded(G.gjk, r1, r2)
        if not ok or raw[1] is None:
            return {"ok": False, "err": "gjk: %s" % (raw if not ok else "clipped")}
        dist, simplex = float(raw[0]), raw[3]
        if dist > 1e-12:
            return {"ok": True, "overlap": False}
        diffs = [a - b for a, b in zip(r1.log, r2.log)]
        if not all(any(np.array_equal(row, d) for d in diffs) for row in simplex):
            return {"ok": False, "err": "gjk simplex has uninitialised rows"}
        ok, raw = guarded(epa, simplex, c1, c2)
        if not ok:
            return {"ok": False, "err": raw}
        mtv, _faces, success = raw
        mtv = A(mtv)
        if not np.all(np.isfinite(mtv)):
            return {"ok": False, "err": "non-finite"}
        return {"ok": True, "overlap": True, "success": bool(success), "mtv": mtv, "d": float(np.linalg.norm(mtv))}
    raise ValueError(fname)


# ============================================================================ generators
def _loguniform(rng, lo, hi):
    return math.exp(rng.uniform(math.log(lo), math.log(hi)))


_LAT_SIZES = [0.5, 1.0, 2.0, 4.0]
_LAT_COORD = [-4.0, -2.0, -1.5, -1.0, -0.5, 0.0, 0.5, 1.0, 1.5, 2.0, 4.0]


def _lat_vec(rng):
    return np.array([rng.choice(_LAT_COORD) for _ in range(3)])


def _lat_offset(rng):
    """lattice offsets between the two shapes: touching / overlapping / separated along axes"""
    v = np.zeros(3)
    for i in range(3):
        if rng.random() < 0.5:
            v[i] = rng.choice([-3.0, -2.0, -1.0, -0.5, 0.5, 1.0, 2.0, 3.0])
    return v


def _convex_vertices(rng, stream, size):
    if stream == "L":
        n = rng.choice([4, 5, 6, 8])
        pts = set()
        guard = 0
        while len(pts) < n and guard < 200:
            guard += 1
            pts.add(tuple(rng.choice([-1.0, -0.5, 0.0, 0.5, 1.0]) for _ in range(3)))
        V = np.array(sorted(pts)) * size
    else:
        n = rng.choice([4, 6, 10, 20])
        V = np.array([random_unit(rng) * size * rng.uniform(0.5, 1.0) for _ in range(n)])
    # non-degenerate?
    c = V - V.mean(axis=0)
    if np.linalg.matrix_rank(c, tol=1e-9) < 3:
        V = np.vstack([V, V.mean(axis=0) + size * np.eye(3), V.mean(axis=0) - size * np.array([1.0, 1.0, 1.0])])
    return V


def _domain_vertices(rng, stream, size, lo, hi):
    """vertex cloud whose edge sizes (all pairwise vertex distances) lie in [lo, hi] (domain D: 'edge sizes, vertex
    spread'); the cloud is rescaled / redrawn until it fits"""
    for _ in range(20):
        V = _convex_vertices(rng, stream, size)
        D = [float(np.linalg.norm(V[i] - V[j])) for i in range(len(V)) for j in range(i)]
        dmin, dmax = min(D), max(D)
        if dmin <= 0.0 or dmax / dmin > 0.9 * hi / lo:
            continue
        f = 1.0
        if dmin < lo:
            f = 1.05 * lo / dmin
        if dmax * f > hi:
            f = 0.95 * hi / dmax
        if dmin * f >= lo and dmax * f <= hi:
            return V * f
    return np.array([[0.0, 0.0, 0.0], [1.0, 0.0, 0.0], [0.0, 1.0, 0.0], [0.0, 0.0, 1.0]]) * max(lo, min(hi, size))


COLLIDER_KINDS = ["sphere", "ellipsoid", "capsule", "cylinder", "cone", "box", "disk", "ellipse", "mesh", "hull"]


def gen_shape(rng, kind, stream, center, R, lo=1e-2, hi=1e2):
    """a well-formed shape of the given kind with frame R at `center` (feature sizes in [lo, hi])"""
    def size():
        return rng.choice(_LAT_SIZES) if stream == "L" else _loguniform(rng, lo, hi)

    def rel_size(base):
        if stream == "L":
            return rng.choice(_LAT_SIZES)
        return min(hi, max(lo, base * _loguniform(rng, 0.2, 5.0)))
    T = pose_of(R, center).tolist()
    c = np.array(center, dtype=float).tolist()
    if kind == "point":
        return {"kind": kind, "p": c}
    if kind == "line":
        return {"kind": kind, "p": c, "d": R[:, 2].tolist()}
    if kind == "segment":
        h = 0.5 * size()
        return {"kind": kind, "a": (np.array(center) - h * R[:, 2]).tolist(), "b": (np.array(center) + h * R[:, 2]).tolist()}
    if kind == "plane":
        return {"kind": kind, "p": c, "n": R[:, 2].tolist()}
    if kind == "triangle":
        s = size()
        if stream == "L":
            loc = np.array([[-0.5, -0.5, 0.0], [0.5, -0.5, 0.0], [rng.choice([-0.5, 0.0, 0.5]), 0.5, 0.0]]) * s
        else:
            # all edges and altitudes within [lo, hi]: near-equilateral with jitter
            ang = [rng.uniform(0, 0.6), rng.uniform(2.0, 2.3), rng.uniform(4.0, 4.4)]
            rad = max(s, 1.2 * lo) / 1.2
            rad = min(rad, hi / 2.0)
            loc = np.array([[rad * math.cos(a), rad * math.sin(a), 0.0] for a in ang])
        return {"kind": kind, "v": (loc.dot(R.T) + np.array(center)).tolist()}
    if kind == "rectangle":
        s = size()
        return {"kind": kind, "c": c, "axes": [R[:, 0].tolist(), R[:, 1].tolist()], "lengths": [s, rel_size(s)]}
    if kind in ("circle", "disk"):
        return {"kind": kind, "c": c, "r": size(), "n": R[:, 2].tolist()}
    if kind == "box":
        s = size()
        return {"kind": kind, "pose": T, "size": [s, rel_size(s), rel_size(s)]}
    if kind == "ellipsoid":
        s = size()
        return {"kind": kind, "pose": T, "radii": [s, rel_size(s), rel_size(s)]}
    if kind == "cylinder":
        s = size()
        return {"kind": kind, "pose": T, "r": s, "l": rel_size(s)}
    if kind == "sphere":
        return {"kind": kind, "c": c, "r": size()}
    if kind == "capsule":
        s = size()
        return {"kind": kind, "pose": T, "r": s, "h": rel_size(s)}
    if kind == "cone":
        s = size()
        return {"kind": kind, "pose": T, "r": s, "h": rel_size(s)}
    if kind == "ellipse":
        s = size()
        return {"kind": kind, "c": c, "axes": [R[:, 0].tolist(), R[:, 1].tolist()], "radii": [s, rel_size(s)]}
    if kind == "hull":
        V = _domain_vertices(rng, stream, 0.5 * size(), lo, hi)
        return {"kind": kind, "v": (V.dot(R.T) + np.array(center)).tolist()}
    if kind == "mesh":
        from distance3d.mesh import make_convex_mesh
        from scipy.spatial import ConvexHull
        V = _domain_vertices(rng, stream, 0.5 * size(), lo, hi)
        V = V[ConvexHull(V).vertices]       # MeshGraph needs every vertex on the hull (C17: unused vertices)
        tri = make_convex_mesh(V)
        return {"kind": kind, "pose": T, "v": V.tolist(), "tri": np.asarray(tri).tolist()}
    raise ValueError(kind)


def extent(sh):
    s = shape_sizes(sh)
    return max(s) if s else 0.0


def gen_scene(rng, k1, k2, stream, lo, hi, margin_prob=0.0):
    """two shapes in a relative placement; returns (s1, s2, info)"""
    if stream == "L":
        base = _lat_vec(rng) if rng.random() < 0.7 else np.zeros(3)
        R1 = lattice_rotation(rng) if rng.random() < 0.5 else _PERMS[rng.randrange(24)]
        s1 = gen_shape(rng, k1, "L", base, R1, lo, hi)
        # second shape: aligned or permuted frame, lattice offset in the frame of the first
        r = rng.random()
        R2 = R1 if r < 0.5 else R1.dot(_PERMS[rng.randrange(24)]) if r < 0.85 else lattice_rotation(rng)
        off = R1.dot(_lat_offset(rng))
        s2 = gen_shape(rng, k2, "L", base + off, R2, lo, hi)
        place = "lattice"
    else:
        scene_c = random_unit(rng) * rng.choice([0.0, 1.0, 30.0, 500.0]) * rng.random()
        R1 = random_rotation(rng)
        s1 = gen_shape(rng, k1, "G", scene_c, R1, lo, hi)
        R2 = random_rotation(rng)
        tmp = gen_shape(rng, k2, "G", np.zeros(3), R2, lo, hi)
        e = 0.5 * (extent(s1) + extent(tmp))
        e = e if e > 0 else 1.0
        place = rng.choice(["overlap", "overlap", "near", "near", "far"])
        if place == "overlap":
            dist = e * rng.uniform(0.0, 0.6)
        elif place == "near":
            dist = e * rng.uniform(0.8, 2.5)
        else:
            dist = min(e * rng.uniform(3.0, 30.0), 250.0)
        c2 = scene_c + random_unit(rng) * dist
        s2 = move_shape(tmp, pose_of(np.eye(3), c2))
    if margin_prob and rng.random() < margin_prob:
        m = rng.choice([0.5, 1.0]) if stream == "L" else _loguniform(rng, lo, min(hi, 1.0))
        if rng.random() < 0.5:
            s1 = {"kind": "margin", "inner": s1, "m": m}
        else:
            s2 = {"kind": "margin", "inner": s2, "m": m}
    return s1, s2, place


def gen_motion(rng, shapes, lattice=False):
    """proper rigid motion g with |t| <= 1e3 such that the moved scene stays within 1e3 of the origin"""
    pts = [p for sh in shapes for p in shape_anchor_points(sh)]
    for _ in range(50):
        r = rng.random()
        if lattice:
            R = lattice_rotation(rng)
        else:
            R = _PERMS[rng.randrange(24)].copy() if r < 0.25 else random_rotation(rng)
        mag = rng.choice([0.0, 1.0, 10.0, 100.0, 1000.0]) * (1.0 if lattice else rng.random())
        if lattice:
            t = np.array([float(rng.choice([-1, 0, 1])) for _ in range(3)]) * rng.choice([0.0, 0.5, 1.0, 8.0, 64.0, 512.0])
        else:
            t = random_unit(rng) * mag
        if np.linalg.norm(t) > 1e3:
            continue
        g = pose_of(R, t)
        if all(np.linalg.norm(apply_pt(g, p)) <= 1e3 for p in pts):
            return g
    return pose_of(_PERMS[rng.randrange(24)], np.zeros(3))


def gen_scale(rng, shapes, lo, hi, lattice=False):
    """s in [1e-2, 1e2], clipped so that sizes stay in [lo, hi] and positions within 1e3"""
    sizes = [x for sh in shapes for x in shape_sizes(sh) if x > 0]
    pts = [float(np.linalg.norm(p)) for sh in shapes for p in shape_anchor_points(sh)]
    smin, smax = 1e-2, 1e2
    if sizes:
        smin = max(smin, lo / min(sizes))
        smax = min(smax, hi / max(sizes))
    if pts and max(pts) > 0:
        smax = min(smax, 1e3 / max(pts))
    if smin > smax:
        return 1.0
    if lattice:
        cands = [s for s in (0.125, 0.25, 0.5, 2.0, 4.0, 8.0, 16.0) if smin <= s <= smax]
        return rng.choice(cands) if cands else 1.0
    return _loguniform(rng, smin, smax)


# ============================================================================ metamorphic relations
def _jsonable_scene(s1, s2):
    return {"s1": s1, "s2": s2}


class Stats:
    def __init__(self):
        self.rel = {}
        self.raised = {}
        self.points = {}

    def hit(self, fname, rel, outcome):
        d = self.rel.setdefault(fname, {})
        k = rel + ":" + outcome
        d[k] = d.get(k, 0) + 1


def classify(fname, rel, s1, s2, detail):
    """finding id for a failing metamorphic relation, or None.  Narrow: function + relation + input class."""
    for fid, pred in _FINDING_CLASSES:
        try:
            if pred(fname, rel, s1, s2, detail):
                return fid
        except Exception:  # noqa
            continue
    return None


# ---------------------------------------------------------------------------- input classes of the recorded findings
CURVED_KINDS = {"sphere", "ellipsoid", "capsule", "cylinder", "cone", "disk", "ellipse"}


def _is_curved(sh):
    return True if sh["kind"] == "margin" else sh["kind"] in CURVED_KINDS


def feature_dirs(sh):
    """unit directions of the shape's features: frame axes / normals / edge directions"""
    k = sh["kind"]
    if k == "margin":
        return feature_dirs(sh["inner"])
    if k == "mesh":
        V = A(sh["v"]).dot(A(sh["pose"])[:3, :3].T)
    elif k in ("hull", "triangle"):
        V = A(sh["v"])
    else:
        V = None
    if V is not None:
        out = []
        for i in range(len(V)):
            for j in range(i):
                e = V[i] - V[j]
                n = float(np.linalg.norm(e))
                if n > 0:
                    out.append(e / n)
        return out[:80]
    if "pose" in sh:
        return list(A(sh["pose"])[:3, :3].T)
    if k in ("disk", "circle", "plane"):
        return [A(sh["n"])]
    if k in ("ellipse", "rectangle"):
        ax = A(sh["axes"])
        return [ax[0], ax[1], np.cross(ax[0], ax[1])]
    if k == "line":
        return [A(sh["d"])]
    if k == "segment":
        e = A(sh["b"]) - A(sh["a"])
        return [e / np.linalg.norm(e)]
    return []


def degenerate_placement(s1, s2, eps=1e-9):
    """exactly aligned features: coincident centres, or a feature direction of one shape exactly parallel or
    perpendicular to a feature direction of the other (ties in support functions / simplex solvers)"""
    if float(np.linalg.norm(shape_center(s1) - shape_center(s2))) <= eps:
        return True
    for a in feature_dirs(s1):
        for b in feature_dirs(s2):
            c = abs(float(np.dot(a, b)))
            if c >= 1.0 - eps or c <= eps:
                return True
    return False


def _numbers(sh):
    out = []
    for name, role in ROLES[sh["kind"]]:
        v = sh[name]
        if role == "X":
            out += _numbers(v)
        elif role == "I":
            continue
        elif role == "T":
            out += [float(x) for x in np.asarray(v, dtype=float)[:3, :].ravel()]
        else:
            out += [float(x) for x in np.asarray(v, dtype=float).ravel()]
    return out


def lattice_scene(s1, s2):
    """every defining number of the scene (coordinates, pose entries, sizes) is an integer multiple of 1/1000 (up to
    rounding): small-denominator rational data, as produced by half-integer coordinates and 3-4-5 rotations; exact
    ties in support functions / face selection are the rule there"""
    for x in _numbers(s1) + _numbers(s2):
        y = x * 1000.0
        if abs(y - round(y)) > 1e-6:
            return False
    return True


def _supporting_dir(sh):
    if sh["kind"] == "line":
        return A(sh["d"])
    e = A(sh["b"]) - A(sh["a"])
    return e / np.linalg.norm(e)


# ---- helpers for the mechanism signatures (only evaluated on failing inputs)
def _transformed_scene(rel, s1, s2, det):
    """(t1, t2, factor): the second scene of the failing relation"""
    motion = det.get("motion") or {}
    if rel == "swap":
        return s2, s1, 1.0
    if rel == "rigid":
        g = A(motion["g"])
        return move_shape(s1, g), move_shape(s2, g), 1.0
    f = float(motion["s"])
    return scale_shape(s1, f), scale_shape(s2, f), f


def _fib_dirs(n=600):
    i = np.arange(n) + 0.5
    phi = np.arccos(1.0 - 2.0 * i / n)
    th = np.pi * (1.0 + 5.0 ** 0.5) * i
    return np.stack([np.cos(th) * np.sin(phi), np.sin(th) * np.sin(phi), np.cos(phi)], 1)


def sampled_depth(s1, s2, effort=0):
    """penetration depth of an overlapping pair from the definition: minimum over unit directions n of the support
    value h_A(n) + h_B(-n) of A (-) B; sampled directions (600, or 4000 and their negatives with effort=1) +
    Nelder-Mead refinement of the best ones: an upper bound of the true depth that is tight up to the refinement"""
    from scipy.optimize import minimize
    c1, c2 = make_collider(s1), make_collider(s2)

    def h(n):
        n = n / np.linalg.norm(n)
        return float(n.dot(c1.support_function(A(n)) - c2.support_function(A(-n))))
    D = _fib_dirs(600)
    nbest = 4
    if effort:
        D = _fib_dirs(4000)
        D = np.vstack([D, -D])
        nbest = 16
    vals = np.array([h(n) for n in D])
    best = np.argsort(vals)[:nbest]
    U = float(vals[best[0]])
    for b in best:
        x = D[b]
        for _ in range(1 + effort):
            r = minimize(h, x, method="Nelder-Mead", options={"xatol": 1e-8, "fatol": 1e-11, "maxiter": 600})
            x = r.x
            U = min(U, float(r.fun))
    return U


def not_below_true_depth(s1, s2, dmin, slack):
    """dmin >= true depth - slack, judged with the sampled depth (cheap pass first, thorough sampling if that fails)"""
    if dmin >= sampled_depth(s1, s2) - slack:
        return True
    return dmin >= sampled_depth(s1, s2, effort=1) - slack


def gjk_simplex_orientation(s1, s2):
    """<(B-A)x(C-A), D-A> of the simplex gjk hands to epa (its sign is the row order; |.| ~ 0 means a flat simplex)"""
    import distance3d.gjk as G
    ok, raw = guarded(G.gjk, make_collider(s1), make_collider(s2))
    if not ok or raw[3] is None:
        return None
    Y = np.asarray(raw[3], dtype=float)
    return float(np.linalg.det(np.array([Y[1] - Y[0], Y[2] - Y[0], Y[3] - Y[0]])))


def _d01(det, factor):
    """the two compared scalars in the units of the base scene"""
    return float(det["d0"]), float(det["d1"]) / factor


def _cls_disk_parallel(fname, rel, s1, s2, det):
    """disk_to_disk, parallel normals (|n1 x n2|^2 < 1e-8): plane_intersects_plane / line_from_pluecker work with the
    Pluecker moment of the planes' common line w.r.t. the WORLD origin, so coplanar / parallel disks are answered
    differently in different frames (and orders / scales).
    Same defect as F-c10-disk-parallel-origin, F-c10-disk-near-coplanar, F-C11-disk-coplanar, F-C11-disk-parallel."""
    if fname != "disk_to_disk" or det["what"] != "d":
        return False
    cr = np.cross(A(s1["n"]), A(s2["n"]))
    return float(cr.dot(cr)) < 1e-8


def _cls_disk_order(fname, rel, s1, s2, det):
    """disk_to_disk, non-parallel planes, swapped arguments: the alternating projection (<= 20 sweeps, stops when the
    progress is < 1e-8) starts from center1, so the early-stopped (too large) iterate depends on the order of the
    arguments.  Mechanism signature: neither answer is below the true distance (gjk on the two Disk colliders), i.e.
    the discrepancy is an over-estimate.  Same defect as F-C11-disk-early-stop, seen through the swap relation."""
    if fname != "disk_to_disk" or rel != "swap" or det["what"] != "d":
        return False
    cr = np.cross(A(s1["n"]), A(s2["n"]))
    if float(cr.dot(cr)) < 1e-8:
        return False
    ref = call_collider("gjk", dict(s1, kind="disk"), dict(s2, kind="disk"))
    if not ref["ok"]:
        return False
    d0, d1 = _d01(det, 1.0)
    return min(d0, d1) >= ref["d"] - 1e-4 * scene_L(s1, s2)


def _linecircle_aligned(s1, s2):
    d, n = _supporting_dir(s1), A(s2["n"])
    p = A(s1["p"]) if s1["kind"] == "line" else A(s1["a"])
    through_centre = float(np.linalg.norm(np.cross(p - A(s2["c"]), d))) <= 1e-9
    return float(np.linalg.norm(np.cross(d, n))) <= 1e-6 or abs(float(d.dot(n))) <= 1e-9 or through_centre


def _cls_linecircle_aligned(fname, rel, s1, s2, det):
    """line_to_circle / line_segment_to_circle with the (supporting) line exactly parallel to the circle's normal
    (axis direction), exactly parallel to the circle's plane, or exactly through the circle's centre: branches are
    selected by exact floating comparisons (`m0_squared > 0.0`, `b1_squared > 0.0`, `any(... != 0.0)`, first non-zero
    component of the segment direction), which rounding residues of a rotated / scaled frame decide differently, and
    the segment version clamps ONE of several tying local minima.
    Same defects as F-c10-linecircle-axis-rounding, F-c10-segcircle-param-illcond, F-C11-segcircle-clamp."""
    if fname not in ("line_to_circle", "line_segment_to_circle") or det["what"] != "d":
        return False
    return _linecircle_aligned(s1, s2)


def _cls_linecircle_inhomogeneous(fname, rel, s1, s2, det):
    """line_to_circle / line_segment_to_circle, general position, uniform scaling: `_case_general` computes
    s_hat2 = |m0^2 * b1^2 ** (2/3) - b1^2| (the radius factor of Eberly's formula is missing, the two terms have
    different physical dimension), so the bisection brackets - and the returned local minimum - change with the unit
    of length.  Mechanism signature: the scene takes that branch (radius * m0^2 > b1, a scale-invariant condition).
    Same defect as F-C11-line-circle-shat, seen through the scale relation."""
    if fname not in ("line_to_circle", "line_segment_to_circle") or det["what"] != "d" or rel != "scale":
        return False
    if _linecircle_aligned(s1, s2):
        return False
    d, n, r = _supporting_dir(s1), A(s2["n"]), float(s2["r"])
    lp = (A(s1["p"]) if s1["kind"] == "line" else A(s1["a"])) - A(s2["c"])
    dxn, pxn = np.cross(d, n), np.cross(lp, n)
    m0sq = float(dxn.dot(dxn))
    lam = -float(dxn.dot(pxn)) / m0sq
    b1 = float(np.linalg.norm(pxn + lam * dxn))
    return r * m0sq > b1


def _cls_mpr_depth(fname, rel, s1, s2, det):
    """mpr_penetration, depth output: the depth is the distance of the origin to the LAST portal triangle; which
    portal is reached depends on the order of the arguments (every orientation test of _expand_portal flips), on
    support-function ties / the world-frame nudge for coincident centres, and on the absolute mpr_tolerance.  C08 only
    bounds the depth from below, and that is all the code delivers.  Mechanism signature: neither of the two depths
    is below the true penetration depth (sampled from the definition) by more than the C08 tolerance, i.e. the
    discrepancy is an over-estimate along a non-optimal portal.  Related: F-mpr-expand-tie, F-mpr-segment-contact
    (C08), F-mpr-origin-on-portal-side-plane (C02)."""
    if fname != "mpr_penetration" or det["what"] != "d":
        return False
    _t1, _t2, factor = _transformed_scene(rel, s1, s2, det)
    d0, d1 = _d01(det, factor)
    return not_below_true_depth(s1, s2, min(d0, d1), 4e-3 * scene_L(s1, s2))


def _cls_epa_degenerate(fname, rel, s1, s2, det):
    """epa answers success=True with a (numerically) zero translation vector in one of the two scenes and a positive
    depth in the other.  Mechanism signature: in the zero scene gjk handed over a flat simplex (stale / duplicate rows,
    origin on a face: zero volume), from which epa builds zero-area initial faces.
    Same defect as F-epa-degenerate-simplex (C07) / F-epa-incomplete-simplex (C19)."""
    if fname != "epa" or det["what"] != "d":
        return False
    t1, t2, factor = _transformed_scene(rel, s1, s2, det)
    d0, d1 = _d01(det, factor)
    L = scene_L(s1, s2)
    if min(d0, d1) > 1e-9 * L:
        return False
    zs1, zs2, Lz = (s1, s2, L) if d0 <= d1 else (t1, t2, scene_L(t1, t2))
    o = gjk_simplex_orientation(zs1, zs2)
    return o is not None and abs(o) <= 1e-9 * Lz ** 3


# (F-c12-epa-inward-winding -- epa over-estimates from a start polytope whose rows gjk handed over with
#  <(B-A)x(C-A), D-A> > 0 -- was repaired upstream together with C07's F-epa-inward-winding: epa orients the simplex
#  itself now.  Its witness is replayed as a regression input, see known_witnesses(); no classifier is left for it.)


def _cls_nesterov_momentum(fname, rel, s1, s2, det):
    """gjk_nesterov_accelerated(use_nesterov_acceleration=True), distance output.  Mechanism signature: the same two
    scenes satisfy the relation with the default use_nesterov_acceleration=False, i.e. the momentum direction (which
    mixes in the world-frame start ray) is what breaks it.
    Same defect as F-nesterov-accel-projection / F-nesterov-cap-zero (C09)."""
    if fname != "gjk_nesterov_accelerated_distance(nesterov)" or det["what"] != "d":
        return False
    t1, t2, factor = _transformed_scene(rel, s1, s2, det)
    r0 = call_collider("gjk_nesterov_accelerated_distance", s1, s2)
    r1 = call_collider("gjk_nesterov_accelerated_distance", t1, t2)
    if not (r0["ok"] and r1["ok"]):
        return False
    return abs(r1["d"] - factor * r0["d"]) <= 1e-3 * (scene_L(t1, t2) + factor * scene_L(s1, s2))


def _one_matches_reference(ref_fn, rel, s1, s2, det, k):
    """the reference algorithm satisfies the relation on the two scenes and agrees with one of the two answers"""
    t1, t2, factor = _transformed_scene(rel, s1, s2, det)
    r0, r1 = call_collider(ref_fn, s1, s2), call_collider(ref_fn, t1, t2)
    if not (r0["ok"] and r1["ok"]):
        return False
    L = scene_L(s1, s2)
    if abs(r1["d"] / factor - r0["d"]) > 2 * k * L:
        return False
    d0, d1 = _d01(det, factor)
    return min(abs(d0 - r0["d"]), abs(d1 - r0["d"])) <= 2 * k * L


def _cls_gjk_original_zero(fname, rel, s1, s2, det):
    """gjk_distance_original answers exactly 0.0 (overlap) in one of the two scenes and a clearly positive distance
    in the other.  Mechanism signature: gjk (jolt) satisfies the relation on the same scenes and agrees with one of the
    two answers.  Same defect as F-orig-degenerate-tetra-zero (C09) / F-C18-orig-abs-eps."""
    if fname != "gjk_distance_original" or det["what"] != "d":
        return False
    if not (det.get("d0") == 0.0 or det.get("d1") == 0.0):
        return False
    return _one_matches_reference("gjk", rel, s1, s2, det, 1e-3)


def _cls_nesterov_degenerate(fname, rel, s1, s2, det):
    """gjk_nesterov_accelerated_distance (default arguments) on exactly aligned features / lattice scenes: a few
    1e-3*L off in some frames.  Mechanism signature: gjk (jolt) satisfies the relation and agrees with one of the two
    answers.  Related: F-nesterov-tetra-region (C09), F-nesterov-project-tetra-outside-simplex (C02)."""
    if fname != "gjk_nesterov_accelerated_distance" or det["what"] != "d":
        return False
    if not (degenerate_placement(s1, s2) or lattice_scene(s1, s2)):
        return False
    return _one_matches_reference("gjk", rel, s1, s2, det, 1e-3)


# list of (id, predicate(fname, relation, s1, s2, detail) -> bool); first match wins
_FINDING_CLASSES = [
    ("F-c12-disk-parallel-frame", _cls_disk_parallel),
    ("F-c12-disk-order", _cls_disk_order),
    ("F-c12-linecircle-aligned", _cls_linecircle_aligned),
    ("F-c12-linecircle-inhomogeneous", _cls_linecircle_inhomogeneous),
    ("F-c12-mpr-depth-path", _cls_mpr_depth),
    ("F-c12-epa-degenerate-simplex", _cls_epa_degenerate),
    ("F-c12-nesterov-momentum", _cls_nesterov_momentum),
    ("F-c12-nesterov-degenerate", _cls_nesterov_degenerate),
    ("F-c12-gjk-original-zero", _cls_gjk_original_zero),
]


def _report(ctx, fname, rel, s1, s2, motion, observed, expected, oracle, detail, stream="G"):
    detail = dict(detail)
    detail["motion"] = motion
    fid = classify(fname, rel, s1, s2, detail)
    ctx.fail(fname, {"relation": rel, "s1": s1, "s2": s2, "motion": motion, "stream": stream},
             observed, expected, oracle, finding=fid)


def relate_dist(ctx, st, fname, s1, s2, stream, rng, lo, hi, fixed=None):
    """all metamorphic relations of one distance-function scene.  `fixed` = {"g":…, "s":…} for replays."""
    kinds = DFUNCS[fname]
    k = DIST_TOL.get(fname, 1e-6)
    r0 = call_dist(fname, s1, s2)
    ctx.count("dist:" + stream, key=(fname, repr(s1), repr(s2)), nontrivial=r0["ok"],
              sample={"fn": fname, "stream": stream, "s1": s1, "s2": s2} if rng.random() < 0.01 else None)
    if not r0["ok"]:
        st.raised[fname] = st.raised.get(fname, 0) + 1
        return True
    L0 = scene_L(s1, s2)
    good = True
    compare_points = (stream == "G" and fname not in NONUNIQUE_FAMILIES)

    def check(rel, t1, t2, rr, factor, Lmax, mapper, motion):
        nonlocal good
        if not rr["ok"]:
            st.raised[fname] = st.raised.get(fname, 0) + 1
            st.hit(fname, rel, "raised")
            return
        # both results are within k*L of the common truth (C10/C11): they differ by at most the sum of the two
        # tolerances (Lean: scalar_inherits_approx); for the scale relation the base tolerance is scaled too
        tol = k * (scene_L(t1, t2) + factor * L0)
        if abs(rr["d"] - factor * r0["d"]) > tol:
            st.hit(fname, rel, "FAIL-d")
            good = False
            _report(ctx, fname, rel, s1, s2, motion, {"d_base": r0["d"], "d_transformed": rr["d"]},
                    {"d_transformed": factor * r0["d"], "tol": tol},
                    "metamorphic %s: distance must be %s" % (rel, "unchanged" if factor == 1.0 else "scaled"),
                    {"what": "d", "diff": abs(rr["d"] - factor * r0["d"]), "L": Lmax, "d0": r0["d"], "d1": rr["d"]}, stream=stream)
            return
        st.hit(fname, rel, "ok-d")
        if not compare_points:
            return
        e1, e2 = mapper(r0["p1"], r0["p2"])
        ptol = 10.0 * tol
        m1 = float(np.linalg.norm(rr["p1"] - e1))
        m2 = float(np.linalg.norm(rr["p2"] - e2))
        if m1 <= ptol and m2 <= ptol:
            st.hit(fname, rel, "ok-points")
            return
        # alternative optimum?  the transformed scene's points must then be members of the transformed primitives
        mem1 = member_dist(t1, rr["p1"])
        mem2 = member_dist(t2, rr["p2"])
        if mem1 is not None and mem2 is not None and mem1 <= ptol and mem2 <= ptol and \
                abs(float(np.linalg.norm(rr["p1"] - rr["p2"])) - rr["d"]) <= ptol:
            st.hit(fname, rel, "alt-optimum")
            return
        st.hit(fname, rel, "FAIL-points")
        good = False
        _report(ctx, fname, rel, s1, s2, motion,
                {"p1": rr["p1"].tolist(), "p2": rr["p2"].tolist()},
                {"p1": e1.tolist(), "p2": e2.tolist(), "tol": ptol},
                "metamorphic %s: returned points must be the transformed points (or an equally valid optimum)" % rel,
                {"what": "points", "m1": m1, "m2": m2, "mem1": mem1, "mem2": mem2, "L": Lmax}, stream=stream)

    # (a) swap
    if kinds[0] == kinds[1]:
        rr = call_dist(fname, s2, s1)
        check("swap", s2, s1, rr, 1.0, L0, lambda p1, p2: (p2, p1), None)
    # (b) rigid motion
    g = A(fixed["g"]) if fixed and fixed.get("g") is not None else gen_motion(rng, [s1, s2], lattice=(stream == "L"))
    t1, t2 = move_shape(s1, g), move_shape(s2, g)
    rr = call_dist(fname, t1, t2)
    check("rigid", t1, t2, rr, 1.0, L0, lambda p1, p2: (apply_pt(g, p1), apply_pt(g, p2)), {"g": g.tolist()})
    # (c) scale
    s = float(fixed["s"]) if fixed and fixed.get("s") is not None else gen_scale(rng, [s1, s2], lo, hi, lattice=(stream == "L"))
    if s != 1.0:
        t1, t2 = scale_shape(s1, s), scale_shape(s2, s)
        rr = call_dist(fname, t1, t2)
        check("scale", t1, t2, rr, s, max(L0, scene_L(t1, t2)), lambda p1, p2: (s * p1, s * p2), {"s": s})
    return good


def member_dist(sh, p):
    """distance of p to the primitive, by the library's own point_to_<kind> (None if not available)"""
    import distance3d.distance as dd
    k = sh["kind"]
    name = {"line": "point_to_line", "segment": "point_to_line_segment", "plane": "point_to_plane",
            "triangle": "point_to_triangle", "rectangle": "point_to_rectangle", "disk": "point_to_disk",
            "circle": "point_to_circle", "box": "point_to_box", "ellipsoid": "point_to_ellipsoid",
            "cylinder": "point_to_cylinder"}.get(k)
    if k == "point":
        return float(np.linalg.norm(A(sh["p"]) - p))
    if name is None:
        return None
    ok, raw = guarded(getattr(dd, name), A(p), *prim_args(sh))
    if not ok:
        return None
    return float(raw[0])


def support_value(col, n):
    return float(np.dot(n, col.support_function(A(n))))


def collider_outside(col, p, tol, dirs):
    """True if p is certainly not in the collider (some sampled direction separates it by more than tol)"""
    for n in dirs:
        if float(np.dot(n, p)) - support_value(col, n) > tol:
            return True
    return False


_DIRS = None


def sample_dirs():
    global _DIRS
    if _DIRS is None:
        rs = np.random.RandomState(12345)
        D = rs.randn(96, 3)
        D /= np.linalg.norm(D, axis=1)[:, None]
        _DIRS = np.vstack([D, np.eye(3), -np.eye(3)])
    return _DIRS


def relate_colliders(ctx, st, s1, s2, stream, rng, lo, hi, funcs=None, fixed=None):
    """all metamorphic relations of one collider scene, for every query family"""
    funcs = list(funcs or CFUNCS)
    L0 = scene_L(s1, s2)
    good = True
    g = A(fixed["g"]) if fixed and fixed.get("g") is not None else gen_motion(rng, [s1, s2], lattice=(stream == "L"))
    s = float(fixed["s"]) if fixed and fixed.get("s") is not None else gen_scale(rng, [s1, s2], lo, hi, lattice=(stream == "L"))
    variants = [("swap", s2, s1, 1.0, None),
                ("rigid", move_shape(s1, g), move_shape(s2, g), 1.0, {"g": g.tolist()})]
    if s != 1.0:
        variants.append(("scale", scale_shape(s1, s), scale_shape(s2, s), s, {"s": s}))

    # band decision on the base scene (C02): clear gap / clear overlap / inside the band (booleans not compared)
    base_gjk = call_collider("gjk", s1, s2)
    cd = float(np.linalg.norm(shape_center(s1) - shape_center(s2)))
    rho1, rho2 = inscribed_radius(s1), inscribed_radius(s2)
    witness_depth = min(rho1, rho2, 0.5 * (rho1 + rho2 - cd))
    band = "band"
    if base_gjk["ok"] and base_gjk["d"] > 2e-3 * L0:
        band = "gap"
    elif witness_depth >= 1e-3 * L0:
        band = "overlap"
    ctx.count("colliders:" + stream, key=("scene", repr(s1), repr(s2)), nontrivial=base_gjk["ok"],
              sample={"stream": stream, "s1": s1, "s2": s2, "band": band} if rng.random() < 0.02 else None)
    ctx.branch("band", band)

    def mapped(rel, v, is_dir=False):
        if rel == "rigid":
            return g[:3, :3].dot(v) if is_dir else apply_pt(g, v)
        if rel == "scale":
            return v if is_dir else s * v
        return v

    for fname in funcs:
        kind, k, _prop = CFUNCS[fname]
        r0 = base_gjk if fname == "gjk" else call_collider(fname, s1, s2)
        if not r0["ok"]:
            if r0.get("err") != "unsupported":
                st.raised[fname] = st.raised.get(fname, 0) + 1
                key = fname + ": " + str(r0.get("err"))[:40]
                st.raised[key] = st.raised.get(key, 0) + 1
            continue
        for rel, t1, t2, factor, motion in variants:
            rr = call_collider(fname, t1, t2)
            ctx.count("colliders:" + stream + ":" + rel, key=(fname, rel, repr(s1), repr(s2)))
            if not rr["ok"]:
                st.raised[fname] = st.raised.get(fname, 0) + 1
                st.hit(fname, rel, "raised")
                continue
            Lmax = max(L0, scene_L(t1, t2))
            # ---------------- booleans
            if kind in ("bool", "mpr"):
                if band == "band":
                    st.hit(fname, rel, "band-skip")
                else:
                    want = (band == "overlap")
                    bad = [x for x in (("base", r0["b"]), (rel, rr["b"])) if x[1] != want]
                    if r0["b"] != rr["b"]:
                        st.hit(fname, rel, "FAIL-bool")
                        good = False
                        _report(ctx, fname, rel, s1, s2, motion, {"base": r0["b"], "transformed": rr["b"]},
                                {"both": want, "band": band},
                                "metamorphic %s: boolean answer must not change outside the C02 band" % rel,
                                {"what": "bool", "band": band, "L": Lmax, "gjk_d": base_gjk.get("d"),
                                 "witness_depth": witness_depth, "bad": bad}, stream=stream)
                        continue
                    st.hit(fname, rel, "ok-bool")
                if kind == "bool":
                    continue
                if not (r0["b"] and rr["b"]):
                    continue
            if kind == "epa":
                if not (r0.get("overlap") and rr.get("overlap")):
                    st.hit(fname, rel, "no-overlap")
                    continue
                if not (r0["success"] and rr["success"]):
                    st.hit(fname, rel, "no-success")
                    continue
            # ---------------- scalar: sum of the two scenes' tolerances (Lean: scalar_inherits_approx)
            tol = k * (scene_L(t1, t2) + factor * L0)
            if abs(rr["d"] - factor * r0["d"]) > tol:
                st.hit(fname, rel, "FAIL-d")
                good = False
                _report(ctx, fname, rel, s1, s2, motion, {"d_base": r0["d"], "d_transformed": rr["d"]},
                        {"d_transformed": factor * r0["d"], "tol": tol},
                        "metamorphic %s: %s must be %s" % (rel, "depth" if kind in ("mpr", "epa") else "distance",
                                                          "unchanged" if factor == 1.0 else "scaled"),
                        {"what": "d", "diff": abs(rr["d"] - factor * r0["d"]), "L": Lmax, "d0": r0["d"], "d1": rr["d"],
                         "band": band}, stream=stream)
                continue
            st.hit(fname, rel, "ok-d")
            # ---------------- points / vectors (general stream only; alternative optima tolerated)
            if stream != "G" or kind == "dist_scalar":
                continue
            ptol = 10.0 * tol
            if kind == "dist":
                if r0["d"] <= tol:
                    st.hit(fname, rel, "points-skip-overlap")     # any common point is a valid answer
                    continue
                e1, e2 = mapped(rel, r0["p1"]), mapped(rel, r0["p2"])
                if rel == "swap":
                    e1, e2 = e2, e1
                m1, m2 = float(np.linalg.norm(rr["p1"] - e1)), float(np.linalg.norm(rr["p2"] - e2))
                # closest points of convex sets: conditioning ~ sqrt(tol * size); accept alternative optimum
                if m1 <= ptol and m2 <= ptol:
                    st.hit(fname, rel, "ok-points")
                    continue
                c1, c2 = make_collider(t1), make_collider(t2)
                dirs = sample_dirs()
                if (not collider_outside(c1, rr["p1"], ptol, dirs) and not collider_outside(c2, rr["p2"], ptol, dirs)
                        and abs(float(np.linalg.norm(rr["p1"] - rr["p2"])) - rr["d"]) <= ptol):
                    st.hit(fname, rel, "alt-optimum")
                    continue
                st.hit(fname, rel, "FAIL-points")
                good = False
                _report(ctx, fname, rel, s1, s2, motion, {"p1": rr["p1"].tolist(), "p2": rr["p2"].tolist()},
                        {"p1": e1.tolist(), "p2": e2.tolist(), "tol": ptol},
                        "metamorphic %s: closest points must be the transformed points (or an equally valid optimum)" % rel,
                        {"what": "points", "m1": m1, "m2": m2, "L": Lmax}, stream=stream)
            elif kind == "epa":
                e = mapped(rel, r0["mtv"], is_dir=True) * (s if rel == "scale" else 1.0)
                if rel == "swap":
                    e = -e
                m = float(np.linalg.norm(rr["mtv"] - e))
                st.hit(fname, rel, "ok-vector" if m <= ptol else "vector-differs")     # direction may be non-unique
            elif kind == "mpr":
                e = mapped(rel, r0["dir"], is_dir=True)
                if rel == "swap":
                    e = -e
                m = float(np.linalg.norm(rr["dir"] - e))
                st.hit(fname, rel, "ok-vector" if m <= 1e-2 else "vector-differs")
    return good


# ============================================================================ correspondence (Lean model vs code)
def _q(x):
    return core.q2s(Fraction(float(x)))


def _enc(vals, mode):
    return [(_q(v) if mode == "Q" else f2h(v)) for v in np.asarray(vals, dtype=float).ravel()]


def _dec(tokens, mode):
    if mode == "Q":
        return [float(core.s2q(t)) for t in tokens]
    return [core.h2f(t) for t in tokens]


def _pose_tokens(T, mode):
    return _enc(T[:3, :3], mode) + _enc(T[:3, 3], mode)


def correspondence(ctx):
    import distance3d.utils as U
    import distance3d.distance as dd
    from distance3d.distance._line import _line_to_line, _point_to_line
    from distance3d.distance._plane import _point_to_plane
    from distance3d.geometry import support_function_capsule
    rng = ctx.rng
    drv = core.Driver("c12-corr")
    plan = []
    n = ctx.budget(220, 3000)

    def add(fn, mode, tokens, impl, scale, name, seed_input, exact):
        cid = drv.add(fn, mode, tokens)
        plan.append((cid, mode, impl, scale, name, seed_input, exact))

    for i in range(n):
        lattice = rng.random() < 0.5
        mode = "Q" if lattice else "F"
        stream = "L" if lattice else "G"
        if lattice:
            pure = rng.random() < 0.5          # signed permutations only: every operation is exact in binary
            R = _PERMS[rng.randrange(24)].copy() if pure else lattice_rotation(rng)
            t = _lat_vec(rng) * rng.choice([1.0, 8.0, 64.0])
            R2, t2 = (_PERMS[rng.randrange(24)].copy() if pure else lattice_rotation(rng)), _lat_vec(rng)
            pts = [_lat_vec(rng) for _ in range(4)]
            dirs = [_PERMS[rng.randrange(24)][:, 2] if rng.random() < 0.7 else lattice_rotation(rng)[:, 2] for _ in range(2)]
            size = np.array([rng.choice(_LAT_SIZES) for _ in range(3)])
            rad, hgt = rng.choice(_LAT_SIZES), rng.choice(_LAT_SIZES)
        else:
            R = random_rotation(rng)
            t = random_unit(rng) * rng.choice([0.0, 1.0, 1e3]) * rng.random()
            R2, t2 = random_rotation(rng), random_unit(rng) * 10 * rng.random()
            sc = _loguniform(rng, 1e-2, 1e2)
            pts = [t + random_unit(rng) * sc * rng.uniform(0, 3) for _ in range(4)]
            dirs = [random_unit(rng) for _ in range(2)]
            if rng.random() < 0.15:
                dirs[1] = dirs[0] * rng.choice([1.0, -1.0])      # parallel branch of _line_to_line
            size = np.array([_loguniform(rng, 1e-2, 1e2) for _ in range(3)])
            rad, hgt = _loguniform(rng, 1e-2, 1e2), _loguniform(rng, 1e-2, 1e2)
        T, T2 = pose_of(R, t), pose_of(R2, t2)
        scale = max(1.0, float(np.max(np.abs(t))), max(float(np.max(np.abs(p))) for p in pts))
        exact = lattice and pure       # 0.6 / 0.8 are not dyadic: 3-4-5 rotations are compared at 1e-12*scale
        ctx.count("corr:" + stream, key=("corr", i, stream))
        si = {"T": T.tolist(), "T2": T2.tolist(), "pts": [p.tolist() for p in pts], "dirs": [d.tolist() for d in dirs]}
        p = A(pts[0])
        add("C12.transform_point", mode, _pose_tokens(T, mode) + _enc(p, mode), U.transform_point(T, p), scale,
            "transform_point", si, exact)
        add("C12.inverse_transform_point", mode, _pose_tokens(T, mode) + _enc(p, mode),
            U.inverse_transform_point(T, p), scale, "inverse_transform_point", si, exact)
        inv = U.invert_transform(T)
        add("C12.invert_transform", mode, _pose_tokens(T, mode), np.concatenate([inv[:3, :3].ravel(), inv[:3, 3]]),
            scale, "invert_transform", si, exact)
        P = A(np.array(pts))
        add("C12.transform_points", mode, _pose_tokens(T, mode) + [str(len(pts))] + _enc(P, mode),
            U.transform_points(T, P).ravel(), scale, "transform_points", si, exact)
        add("C12.transform_directions", mode, _pose_tokens(T, mode) + [str(len(pts))] + _enc(P, mode),
            U.transform_directions(T, P).ravel(), scale, "transform_directions", si, exact)
        comp = T.dot(T2)
        add("C12.compose", mode, _pose_tokens(T, mode) + _pose_tokens(T2, mode),
            np.concatenate([comp[:3, :3].ravel(), comp[:3, 3]]), scale, "np.dot(A2B, B2C)", si, exact)
        oR1 = np.dot(T[:3, :3].T, T2[:3, :3])
        ot1 = np.dot(T[:3, :3].T, T2[:3, 3] - T[:3, 3])
        add("C12.relative_pose", mode, _pose_tokens(T, mode) + _pose_tokens(T2, mode),
            np.concatenate([oR1.ravel(), ot1]), scale, "nesterov relative pose", si, exact)
        # kernels (sqrt/division: exact comparison only where the result is representable; use tolerance)
        d0, d1 = A(dirs[0]), A(dirs[1])
        kscale = max(1.0, max(float(np.linalg.norm(a - b)) for a in pts for b in pts))
        r = _point_to_line(A(pts[0]), A(pts[1]), d0)
        add("C12.point_to_line", mode, _enc(pts[0], mode) + _enc(pts[1], mode) + _enc(d0, mode),
            np.concatenate([[r[0]], r[1], [r[2]]]), kscale, "_point_to_line", si, False)
        if np.linalg.norm(pts[2] - pts[1]) > 0:
            r = dd.point_to_line_segment(A(pts[0]), A(pts[1]), A(pts[2]))
            add("C12.point_to_segment", mode, _enc(pts[0], mode) + _enc(pts[1], mode) + _enc(pts[2], mode),
                ("pl4", np.concatenate([[r[0]], r[1]])), kscale, "point_to_line_segment", si, False)
        r = _line_to_line(A(pts[0]), d0, A(pts[1]), d1, 1e-6)
        add("C12.line_to_line", mode, _enc(pts[0], mode) + _enc(d0, mode) + _enc(pts[1], mode) + _enc(d1, mode),
            ("res", np.concatenate([[r[0]], r[1], r[2], [r[3], r[4]]])), kscale, "_line_to_line", si, False)
        sg = [A(pts[0]), A(pts[1]), A(pts[2]), A(pts[3])]
        if lattice and rng.random() < 0.3:
            sg[3] = sg[2] + (sg[1] - sg[0]) * rng.choice([1.0, -1.0, 0.5])     # parallel segments
        if lattice and rng.random() < 0.12:
            sg[1] = sg[0].copy()                                              # degenerate first segment
        if lattice and rng.random() < 0.12:
            sg[3] = sg[2].copy()                                              # degenerate second segment
        if True:
            ok, r = guarded(dd.line_segment_to_line_segment, *sg)
            if ok and np.all(np.isfinite(np.concatenate([[r[0]], r[1], r[2]]))):
                add("C12.seg_to_seg", mode, sum((_enc(x, mode) for x in sg), []),
                    ("res3", np.concatenate([[r[0]], r[1], r[2]])), kscale, "line_segment_to_line_segment", si, False)
        for signed in (False, True):
            r = _point_to_plane(A(pts[0]), A(pts[1]), d0, signed)
            add("C12.point_to_plane", mode, _enc(pts[0], mode) + _enc(pts[1], mode) + _enc(d0, mode) + ["1" if signed else "0"],
                np.concatenate([[r[0]], r[1]]), kscale, "_point_to_plane", si, False)
        r = dd.point_to_box(A(pts[0]), T, A(size))
        add("C12.point_to_box", mode, _enc(pts[0], mode) + _pose_tokens(T, mode) + _enc(size, mode),
            np.concatenate([[r[0]], r[1]]), max(scale, kscale, float(np.max(size))), "point_to_box", si, False)
        r = support_function_capsule(d0, T, float(rad), float(hgt))
        # `local_dir[2] > 0.0` decides between +h/2 and -h/2: when the exact value is 0 (or below rounding), BLAS/FMA
        # rounding residues and the exact model may legitimately take different branches (DESIGN 3.1: tie)
        tie = abs(float(np.dot(T[:3, 2], d0))) <= 1e-12
        add("C12.support_capsule", mode, _enc(d0, mode) + _pose_tokens(T, mode) + _enc([rad, hgt], mode),
            ("sup-tie" if tie else "sup", A(r)), max(scale, rad, hgt), "support_function_capsule", si, False)

    # fixed corpus: both segments degenerate (branch 0 of _line_segment_to_line_segment)
    sg = [A([0.0, 0.0, 0.0]), A([0.0, 0.0, 0.0]), A([1.0, 2.0, 2.0]), A([1.0, 2.0, 2.0])]
    r = dd.line_segment_to_line_segment(*sg)
    add("C12.seg_to_seg", "Q", sum((_enc(x, "Q") for x in sg), []), ("res3", np.concatenate([[r[0]], r[1], r[2]])), 3.0,
        "line_segment_to_line_segment", {"segments": [x.tolist() for x in sg]}, False)
    ctx.count("corr:L", key=("corr", "corpus-seg-degenerate"))
    out = drv.run()
    tag_of = {cid: (impl[0] if isinstance(impl, tuple) else None) for cid, _m, impl, _s, _n, _si, _e in plan}
    for cid, mode, impl, scale, name, si, exact in plan:
        m = out.get(cid, "bad missing")
        parts = m.split()
        if parts[0] != "ok":
            ctx.broke("correspondence", name, "model says %s, implementation returned a value" % m[:120], si)
            continue
        toks = parts[1:]
        if isinstance(impl, tuple):
            tag, impl = impl
            if tag == "pl4":
                toks = toks[:4]          # the clamped parameter is not returned by the Python
            else:
                ctx.branch(name, toks[0])
                toks = toks[1:]
            if tag == "res3":
                toks = toks[:7]
        vals = np.array(_dec(toks, mode))
        impl = np.asarray(impl, dtype=float).ravel()
        if len(vals) != len(impl):
            ctx.broke("correspondence", name, "arity: model %d values, implementation %d" % (len(vals), len(impl)), si)
            continue
        tol = 0.0 if exact else 1e-12 * scale
        if name in ("_line_to_line",):
            tol = 1e-7 * scale        # sqrt(|cancelling quadratic form|): the model's exact value vs float rounding
        if mode == "Q" and name in ("_point_to_line", "point_to_line_segment", "line_segment_to_line_segment",
                                    "point_to_box", "support_function_capsule"):
            tol = max(tol, 1e-9 * scale)     # Rat sqrt is an enclosure; float rounding of sqrt / division
        err = float(np.max(np.abs(vals - impl))) if len(vals) else 0.0
        if not (err <= tol) and isinstance(tag_of.get(cid), str) and tag_of[cid] == "sup-tie":
            ctx.branch(name, "tie")
            continue
        if not (err <= tol):
            ctx.broke("correspondence", name,
                      "model and implementation differ by %.3g (tolerance %.3g, mode %s): model=%s impl=%s"
                      % (err, tol, mode, vals.tolist(), impl.tolist()), si)


# ============================================================================ search
def search(ctx):
    rng = ctx.rng
    st = Stats()
    boost = 2 if ctx.extra.get("search_boost") else 1
    # ---- known-finding witnesses are replayed first
    for w in known_witnesses():
        _run_payload(ctx, st, w, rng, only=w.get("relation"))
    # ---- the 34 distance functions
    per_fn = ctx.budget(60, 400) * boost
    for fname, (k1, k2, _ret) in DFUNCS.items():
        for i in range(per_fn):
            stream = "L" if i % 3 == 0 else "G"
            s1, s2, _place = gen_scene(rng, k1, k2, stream, 0.2, 1e2)
            relate_dist(ctx, st, fname, s1, s2, stream, rng, 0.2, 1e2)
    # ---- collider pairs, all query families
    n_scenes = ctx.budget(1200, 4000) * boost
    pairs = [(a, b) for a in COLLIDER_KINDS for b in COLLIDER_KINDS]
    rng.shuffle(pairs)
    for i in range(n_scenes):
        k1, k2 = pairs[i % len(pairs)]
        stream = "L" if i % 3 == 0 else "G"
        s1, s2, _place = gen_scene(rng, k1, k2, stream, 1e-2, 1e2, margin_prob=0.15)
        relate_colliders(ctx, st, s1, s2, stream, rng, 1e-2, 1e2)
    ctx.extra["relations"] = st.rel
    ctx.extra["raised"] = st.raised
    n_uninit = st.raised.get("epa: gjk simplex has uninitialised rows", 0)
    if n_uninit:
        ctx.notes.append("gjk (gjk_distance_jolt) returned a simplex with rows that were never written (Y = np.empty((4, 3)), "
                         "GJK stopped with fewer than 4 points) in %d overlapping scenes of this run; epa() on such a simplex is "
                         "not reproducible and was not called there (recorded by C07 as F-epa-degenerate-simplex and by C19 as "
                         "F-epa-incomplete-simplex)" % n_uninit)
    ctx.branches["relations"] = {fn + "/" + kk: v for fn, d in st.rel.items() for kk, v in d.items()}


def known_witnesses():
    """concrete inputs of the recorded findings (known_findings.d/C12.json), replayed on every run: `known` ones
    reproduce the finding, `fixed` ones are regression inputs (a failure there is a VIOLATION)"""
    out = []
    for k in core.load_known():
        w = k.get("witness")
        if k.get("property") == "C12" and k.get("status") in ("known", "fixed") and isinstance(w, dict) and "s1" in w:
            out.append(w)
            out += [x for x in k.get("more_witnesses", []) if isinstance(x, dict) and "s1" in x]
        # findings of other properties repaired upstream that C12 had met too (e.g. F-epa-inward-winding of C07)
        if k.get("status") == "fixed" and "C12" in (k.get("also") or []):
            out += [x for x in k.get("c12_witnesses", []) if isinstance(x, dict) and "s1" in x]
    return out


def _run_payload(ctx, st, args, rng, only=None):
    """re-run one recorded scene (known-finding witness or replay file); `only`: keep failures of that relation"""
    fname = args["function"]
    fixed = dict(args.get("motion") or {})
    s1, s2 = args["s1"], args["s2"]
    n0 = len(ctx.failing)
    if fname in DFUNCS:
        relate_dist(ctx, st, fname, s1, s2, args.get("stream", "G"), rng, 0.2, 1e2, fixed=fixed)
    else:
        relate_colliders(ctx, st, s1, s2, args.get("stream", "G"), rng, 1e-2, 1e2, funcs=[fname], fixed=fixed)
    if only is not None:
        ctx.failing[n0:] = [f for f in ctx.failing[n0:] if f["args"]["relation"] == only]
    return len(ctx.failing) == n0


def replay(ctx, payload):
    args = payload.get("args")
    if not args or "s1" not in args:
        for b in payload.get("broken", []):
            print("replay file names no failing input of the real code; broken:", b.get("name"), str(b.get("message"))[:300])
        return False
    st = Stats()
    n0 = len(ctx.failing)
    a = {"function": payload["function"], "s1": args["s1"], "s2": args["s2"], "motion": args.get("motion"),
         "stream": args.get("stream", "G")}
    rel = args.get("relation")
    _run_payload(ctx, st, a, ctx.rng, only=rel)
    bad = ctx.failing[n0:]
    for f in bad:
        print("FAIL", f["function"], f["args"]["relation"], "observed", str(f["observed"])[:300], "expected",
              str(f["expected"])[:300])
    return not bad
