"""C03 — support mappings: correspondence of every collider's support_function / first_vertex / center
(and of the geometry/utils kernels behind them) with the executable Lean model, plus an independent
oracle on the real code (analytic support value, membership predicate, dense surface sweep, brute force
over vertices, history independence of the hill-climbing mesh support)."""
import itertools
import math
from fractions import Fraction

import numpy as np

import core
from core import f2h, h2f, q2s, s2q

RULE = ("cases = (collider, direction) pairs drawn from one PRNG: lattice stream (signed axis permutations and "
        "3-4-5 rotations, dyadic sizes/translations, directions from {-2..2}^3 plus directions exactly parallel / "
        "orthogonal to the shape axes, cone rim/apex ties, sign(0), s==0, norm==0; F mode and exact Q mode), general "
        "stream (random orthonormal poses, sizes 10^U(-2,2), |t| <= 1e3, |d| = 10^U(-3,3), zero components), "
        "malformed stream (zero direction, empty hull, zero normal, unreferenced mesh vertices); query histories of "
        "3..12 directions on one MeshGraph / hull / box object; a case is non-trivial unless the pose is the identity "
        "and the direction is axis-aligned; distinct = distinct driver input line")
EXPLANATION = ("the support theorems are proved for the Lean model at exact reals; this run compares the model "
               "(Float and exact Rat arithmetic) with the real collider classes on branch id, support value, support "
               "point and cached mesh vertex index, and runs an oracle that does not use the model on the real code")
PARTIAL = {
    "hillClimb_global / mesh_call / mesh_history / mesh_history_independent (global part)":
        "global optimality of hill climbing rests on the explicit hypothesis `Unimodal tau tau' d mesh` (every vertex "
        "more than tau' below the best has a neighbour better by more than PROJECTION_LENGTH_EPSILON); it is NOT "
        "derived from convexity of the mesh. Its decidable form `unimodalCheck` (proved sound: unimodal_of_check) is "
        "evaluated in Lean by the driver (C03.unimodal; exactly, at Rat, on lattice meshes; at Float with "
        "tau' = 1e-9*L*max(1,|d|) on general poses) for every mesh/direction of the correspondence run; termination, "
        "local optimality, membership and the KeyError precondition are proved without it",
    "neighbour order of `connections`":
        "the iteration order of the Python sets is taken from the implementation (parameter of the model); all mesh "
        "theorems hold for every order",
    "floating point":
        "the support/optimality theorems are at exact reals; rounding of the returned points/values is covered only by "
        "the correspondence run (tolerance 1e-9*L) and the oracle on the real code. TERMINATION of the mesh climb "
        "(after repair e900ae9) is no longer in this item: it is proved for every scalar type and every arithmetic whose "
        "`<` is irreflexive and transitive and whose subtraction satisfies `tau < a - b -> b < a` "
        "(hillClimb_terminates_anyArith / _strictOrder / _floatLike: at most #vertices-1 accepted moves, model fuel "
        "never hit; nothing assumed about + and *, i.e. about how dot rounds; NaN: every comparison false, no move "
        "accepted). Not proved: that Lean's opaque `Float`/the hardware satisfies these three IEEE-754 facts (stated as "
        "hypotheses), and nothing about the QUALITY of the float answer beyond the run-time tolerance",
}
ASSUMPTIONS = [
    "iteration order of a Python set of ints (neighbour order inside MeshHillClimbingSupportFunction.connections) is "
    "taken from the implementation and handed to the model; the theorems hold for every order",
    "exact-real semantics for the support/optimality statements: float rounding is not modelled; model(Float) and code "
    "are compared with the property's tolerance 1e-9*L (exactly only on lattice inputs where every operation is exact); "
    "termination of the mesh climb is proved for any arithmetic under three IEEE-754 facts taken as hypotheses: `<` "
    "irreflexive, `<` transitive, `tau < a - b -> b < a` for tau >= 0 or NaN",
    "underflow of |d| (|d|^2 below the smallest normal double) is not modelled; the domain has |d| >= 1e-3",
    "np.linalg.norm(v) = sqrt(v.v) and np.dot evaluate the mathematically same expression as the model (BLAS order / "
    "FMA differences are rounding-level)",
]
TRUSTED = [
    "modelled: geometry.support_function_{sphere,capsule,cylinder,ellipsoid,box,disk,ellipse,cone}, "
    "geometry.convert_box_to_vertices, utils.norm_vector, utils.plane_basis_from_normal, utils.transform_point, "
    "support_function/first_vertex/center of Sphere, Capsule, Ellipsoid, Cylinder, Disk, Ellipse, Cone, Box, "
    "ConvexHullVertices, MeshGraph, Margin, MeshHillClimbingSupportFunction.__init__/__call__, hill_climb_mesh_extreme",
    "not modelled: make_artist, aabb (C04), update_pose (C14), collider2origin, MeshSupportFunction, make_convex_mesh",
]
MANIFEST = dict(
    text=("Lean theorems: for every shape of colliders.py the modelled support function returns a point of the shape's "
          "point set that maximises the projection on d (all sign-boundary branches included), first_vertex/center "
          "are members, Margin adds m*d/|d|, hill climbing (after repair e900ae9 of the cycling defect F-mesh-hill-climb-"
          "cycle: one computed projection per vertex) terminates in ANY arithmetic with a strict `<` and "
          "`tau < a-b -> b < a` (floating point and NaN included; <= #vertices-1 moves; before/after counterexample pair "
          "on a noisy arithmetic), at exact reals at a local maximum for every start index and "
          "at the global one on unimodal (convex) meshes (precondition MeshWF and hypothesis Unimodal have decidable "
          "forms wfCheck / unimodalCheck, proved sound and evaluated in Lean on every mesh of the run; __init__ is "
          "proved to produce MeshWF data iff-style under the KeyError precondition); the model is tied to the code by a correspondence harness "
          "(branch ids, points, cached vertex index, F and exact Q arithmetic) and an independent oracle runs on the "
          "real code. " 
          "Link theorems (regenerated from today's source by py2lean on every run, D3/Gen/Link03*.lean) tie utils.norm_vector, utils.transform_point, utils.plane_basis_from_normal and geometry.support_function_{sphere,box,ellipsoid,cylinder,capsule,cone,disk} to the model's support functions (point component) by rfl / unfold-split-rfl for every input (plane basis: on the model's non-error case). "),
    note=("trusted: Lean kernel + Mathlib, axioms propext/Classical.choice/Quot.sound; exact-real semantics; order of "
          "Python set iteration taken from the implementation; correspondence harness (sampling)."),
    technique="Lean 4 proof on hand-written model + correspondence (branch ids, exact on lattice inputs) + oracle + py2lean-regenerated kernels linked to the model by theorem",
    design="§7 C03")

TIE = 1e-12      # relative margin of a branch decision below which model/code may legitimately differ
COND = 1e-6      # relative size of a divisor below which the maximiser is ill-conditioned (value only)
REL = 1e-9       # the property's tolerance factor
INF = float("inf")

BASE_KINDS = ["sphere", "capsule", "ellipsoid", "cylinder", "disk", "ellipse", "cone", "box", "hull", "mesh"]
POSE_KINDS = ("capsule", "ellipsoid", "cylinder", "cone", "box", "mesh")
EXPECTED_BRANCHES = {
    "sphere": [0, 1], "capsule": [0, 1, 2], "cylinder": [0, 1, 2, 3], "ellipsoid": [0, 1], "disk": [0, 1, 2, 3],
    "ellipse": [0, 1], "cone": [0, 1, 2, 3], "planebasis": [0, 1], "boxfn": list(range(27)), "box": list(range(8)),
}


# ------------------------------------------------------------------ small helpers
def arr(x):
    return np.array(x, dtype=float)


def vnorm(v):
    v = np.asarray(v, dtype=float)
    return float(math.sqrt(float(np.sum(v * v))))


def unit(v):
    v = arr(v)
    return v / vnorm(v)


def base_of(spec):
    """strip Margin wrappers: (inner spec, list of margins)"""
    ms = []
    while spec["kind"] == "margin":
        ms.append(float(spec["m"]))
        spec = spec["inner"]
    return spec, ms


def pose_of(spec):
    return arr(spec["pose"]).reshape(4, 4)


def make_pose(R, t):
    A = np.eye(4)
    A[:3, :3] = R
    A[:3, 3] = t
    return A


def err_name(e):
    if isinstance(e, KeyError):
        return "keyError"
    if isinstance(e, IndexError):
        return "indexOOB"
    if isinstance(e, ValueError):
        return "badInput"
    if isinstance(e, ZeroDivisionError):
        return "divZero"
    if isinstance(e, AssertionError):
        return "assertFail"
    if isinstance(e, TypeError):
        return "typeErr"
    return "exc:" + type(e).__name__


def one_nonzero(v):
    return sum(1 for x in np.asarray(v, dtype=float).ravel() if x != 0.0) <= 1


def axis_aligned(d):
    return one_nonzero(d)


def is_identity_pose(spec):
    base, _ = base_of(spec)
    k = base["kind"]
    if k in POSE_KINDS:
        return bool(np.array_equal(pose_of(base), np.eye(4)))
    if k == "disk":
        return list(base["n"]) == [0.0, 0.0, 1.0]
    if k == "ellipse":
        return [list(a) for a in base["axes"]] == [[1.0, 0.0, 0.0], [0.0, 1.0, 0.0]]
    return True


# ------------------------------------------------------------------ building real colliders
def build(spec):
    from distance3d import colliders as C
    k = spec["kind"]
    if k == "sphere":
        return C.Sphere(arr(spec["c"]), float(spec["r"]))
    if k == "capsule":
        return C.Capsule(pose_of(spec), float(spec["r"]), float(spec["h"]))
    if k == "ellipsoid":
        return C.Ellipsoid(pose_of(spec), arr(spec["radii"]))
    if k == "cylinder":
        return C.Cylinder(pose_of(spec), float(spec["r"]), float(spec["l"]))
    if k == "disk":
        return C.Disk(arr(spec["c"]), float(spec["r"]), arr(spec["n"]))
    if k == "ellipse":
        return C.Ellipse(arr(spec["c"]), arr(spec["axes"]).reshape(2, 3), arr(spec["radii"]))
    if k == "cone":
        return C.Cone(pose_of(spec), float(spec["r"]), float(spec["h"]))
    if k == "box":
        return C.Box(pose_of(spec), arr(spec["size"]))
    if k == "hull":
        return C.ConvexHullVertices(arr(spec["verts"]).reshape(-1, 3))
    if k == "mesh":
        return C.MeshGraph(pose_of(spec), arr(spec["verts"]).reshape(-1, 3),
                           np.array(spec["tris"], dtype=int).reshape(-1, 3))
    if k == "margin":
        return C.Margin(build(spec["inner"]), float(spec["m"]))
    raise ValueError("unknown kind " + str(k))


def inner_obj(obj):
    while hasattr(obj, "margin") and hasattr(obj, "collider"):
        obj = obj.collider
    return obj


def mesh_idx_of(obj):
    o = inner_obj(obj)
    sf = getattr(o, "_support_function", None)
    return int(sf.first_idx) if sf is not None else -1


CALL_LIMIT_S = 20    # per-call watchdog: a support call that does not return is a failing input, not a hang


class NoReturn(BaseException):
    """raised by the SIGALRM watchdog inside an implementation call"""


def _alarm(signum, frame):
    raise NoReturn()


def watchdog_call(fn, *a):
    """fn(*a) under a SIGALRM limit of CALL_LIMIT_S seconds (interpreted engine: the alarm interrupts the Python
    loop; main thread only). Raises NoReturn."""
    import signal
    try:
        old = signal.signal(signal.SIGALRM, _alarm)
    except ValueError:      # not the main thread: no watchdog
        return fn(*a)
    signal.setitimer(signal.ITIMER_REAL, CALL_LIMIT_S)
    try:
        return fn(*a)
    finally:
        signal.setitimer(signal.ITIMER_REAL, 0)
        signal.signal(signal.SIGALRM, old)


def impl_support(obj, d):
    """one support query on the real object -> JSON-able result (err "noReturn" after CALL_LIMIT_S seconds)"""
    dd = arr(d)
    try:
        with np.errstate(all="ignore"):
            p = np.array(watchdog_call(obj.support_function, dd), dtype=float)
    except NoReturn:
        return {"ok": False, "err": "noReturn", "msg": "support_function did not return within %g s" % CALL_LIMIT_S}
    except Exception as e:  # noqa
        return {"ok": False, "err": err_name(e), "msg": str(e)[:120]}
    if np.any(np.isnan(p)):
        return {"ok": False, "err": "divZero", "msg": "NaN in result %s" % p.tolist()}
    res = {"ok": True, "p": p.tolist(), "idx": mesh_idx_of(obj)}
    io = inner_obj(obj)
    if hasattr(io, "vertices") and not hasattr(io, "_support_function") and len(io.vertices):
        res["arg"] = int(np.argmax(io.vertices.dot(dd)))
    return res


def impl_point(fn):
    """first_vertex() / center() -> result"""
    import warnings
    try:
        with np.errstate(all="ignore"), warnings.catch_warnings():
            warnings.simplefilter("ignore")
            p = np.array(fn(), dtype=float)
    except Exception as e:  # noqa
        return {"ok": False, "err": err_name(e), "msg": str(e)[:120]}
    if np.any(np.isnan(p)):
        return {"ok": False, "err": "divZero", "msg": "NaN"}
    return {"ok": True, "p": p.tolist()}


# ------------------------------------------------------------------ encoding for the driver
def sc(x, mode):
    return f2h(x) if mode == "F" else q2s(Fraction(float(x)))


def enc_vec(v, mode):
    return [sc(x, mode) for x in np.asarray(v, dtype=float).ravel()]


def enc_pose(A, mode):
    A = np.asarray(A, dtype=float)
    return enc_vec(A[:3, :3], mode) + enc_vec(A[:3, 3], mode)


def mesh_conn_tokens(obj):
    sf = inner_obj(obj)._support_function
    toks = [str(len(sf.connections))]
    for k, nb in sf.connections.items():
        toks += [str(int(k)), str(len(nb))] + [str(int(x)) for x in nb]
    return toks


def enc_mesh_data(spec, mode):
    v = arr(spec["verts"]).reshape(-1, 3)
    tr = np.array(spec["tris"], dtype=int).reshape(-1, 3)
    return [str(len(v))] + enc_vec(v, mode) + [str(len(tr))] + [str(int(x)) for x in tr.ravel()]


def enc_collider(spec, mode, obj=None):
    k = spec["kind"]
    if k == "sphere":
        return ["sphere"] + enc_vec(spec["c"], mode) + [sc(spec["r"], mode)]
    if k == "capsule":
        return ["capsule"] + enc_pose(pose_of(spec), mode) + [sc(spec["r"], mode), sc(spec["h"], mode)]
    if k == "ellipsoid":
        return ["ellipsoid"] + enc_pose(pose_of(spec), mode) + enc_vec(spec["radii"], mode)
    if k == "cylinder":
        return ["cylinder"] + enc_pose(pose_of(spec), mode) + [sc(spec["r"], mode), sc(spec["l"], mode)]
    if k == "disk":
        return ["disk"] + enc_vec(spec["c"], mode) + [sc(spec["r"], mode)] + enc_vec(spec["n"], mode)
    if k == "ellipse":
        return ["ellipse"] + enc_vec(spec["c"], mode) + enc_vec(spec["axes"], mode) + enc_vec(spec["radii"], mode)
    if k == "cone":
        return ["cone"] + enc_pose(pose_of(spec), mode) + [sc(spec["r"], mode), sc(spec["h"], mode)]
    if k == "box":
        return ["box"] + enc_pose(pose_of(spec), mode) + enc_vec(spec["size"], mode)
    if k == "hull":
        v = arr(spec["verts"]).reshape(-1, 3)
        return ["hull", str(len(v))] + enc_vec(v, mode)
    if k == "mesh":
        if obj is None:
            obj = build(spec)
        return ["mesh"] + enc_pose(pose_of(spec), mode) + enc_mesh_data(spec, mode) + mesh_conn_tokens(obj)
    if k == "margin":
        return ["margin", sc(spec["m"], mode)] + enc_collider(spec["inner"], mode,
                                                              None if obj is None else obj.collider)
    raise ValueError(k)


def val(tok, mode):
    return h2f(tok) if mode == "F" else s2q(tok)


def parse_support(text, mode):
    """`ok <branch> x y z <meshidx>` | `err <Err>` | anything else"""
    t = text.split()
    if len(t) >= 2 and t[0] == "err":
        return {"ok": False, "err": t[1]}
    if len(t) == 6 and t[0] == "ok":
        return {"ok": True, "branch": int(t[1]), "p": [val(x, mode) for x in t[2:5]], "idx": int(t[5])}
    return {"ok": False, "err": "bad:" + text[:80]}


def parse_point(text, mode, skip=0):
    t = text.split()
    if len(t) >= 2 and t[0] == "err":
        return {"ok": False, "err": t[1]}
    if t and t[0] == "ok" and len(t) == 4 + skip:
        r = {"ok": True, "p": [val(x, mode) for x in t[1 + skip:4 + skip]]}
        if skip:
            r["branch"] = int(t[1])
        return r
    return {"ok": False, "err": "bad:" + text[:80]}


def fl(p):
    return [float(x) for x in p]


# ------------------------------------------------------------------ generators: poses
def _signed_perms():
    rots, refl = [], []
    for perm in itertools.permutations(range(3)):
        for signs in itertools.product([1.0, -1.0], repeat=3):
            M = np.zeros((3, 3))
            for i in range(3):
                M[i, perm[i]] = signs[i]
            (rots if round(float(np.linalg.det(M))) == 1 else refl).append(M)
    return rots, refl


SP_ROT, SP_REFL = _signed_perms()
CS345 = [(0.6, 0.8), (0.8, 0.6), (-0.6, 0.8), (0.6, -0.8), (-0.8, -0.6), (0.8, -0.6)]
LAT_T = [-2.0, -1.0, -0.5, 0.0, 0.0, 0.25, 0.5, 1.0, 3.0]
LAT_SIZE = [0.25, 0.5, 1.0, 2.0, 4.0]
LAT_DIR = [-2.0, -1.0, -0.5, 0.0, 0.5, 1.0, 2.0]


def rot_axis(axis, c, s):
    i, j = [(1, 2), (2, 0), (0, 1)][axis]
    M = np.eye(3)
    M[i, i] = c
    M[j, j] = c
    M[i, j] = -s
    M[j, i] = s
    return M


def lattice_rotation(rng):
    """(R, exact): exact = signed permutation (every product with it is exact)"""
    r = rng.random()
    if r < 0.08:
        return np.eye(3), True
    if r < 0.55:
        return rng.choice(SP_ROT).copy(), True
    if r < 0.58:
        return rng.choice(SP_REFL).copy(), True
    R = rot_axis(rng.randrange(3), *rng.choice(CS345))
    if rng.random() < 0.5:
        R = R @ rot_axis(rng.randrange(3), *rng.choice(CS345))
    if rng.random() < 0.4:
        R = rng.choice(SP_ROT) @ R
    return R, False


def lattice_t(rng):
    return [rng.choice(LAT_T) for _ in range(3)]


def general_rotation(rng):
    M = np.array([[rng.gauss(0, 1) for _ in range(3)] for _ in range(3)])
    Q, _ = np.linalg.qr(M)
    if np.linalg.det(Q) < 0:
        Q[:, 0] = -Q[:, 0]
    return np.ascontiguousarray(Q)


def general_t(rng):
    if rng.random() < 0.1:
        return [0.0, 0.0, 0.0]
    u = unit([rng.gauss(0, 1) for _ in range(3)])
    return (u * min(999.0, 10 ** rng.uniform(-1, 3))).tolist()


def gsize(rng):
    return 10 ** rng.uniform(-2, 2)


# ------------------------------------------------------------------ generators: meshes
_MESH_CACHE = {}


def hull_tris(verts):
    from scipy.spatial import ConvexHull
    return [[int(x) for x in s] for s in ConvexHull(np.asarray(verts, dtype=float)).simplices]


def base_mesh(name):
    """(vertices, triangles) of a named convex polyhedron (integer coordinates except 'icosa')"""
    if name in _MESH_CACHE:
        return _MESH_CACHE[name]
    if name == "tetra":
        v = [[1, 1, 1], [1, -1, -1], [-1, 1, -1], [-1, -1, 1]]
    elif name == "cube":
        v = [list(p) for p in itertools.product([-1, 1], repeat=3)]
    elif name == "octa":
        v = [[1, 0, 0], [-1, 0, 0], [0, 1, 0], [0, -1, 0], [0, 0, 1], [0, 0, -1]]
    elif name == "icosa":
        g = (1.0 + math.sqrt(5.0)) / 2.0
        v = ([[0, a, b * g] for a in (-1, 1) for b in (-1, 1)] + [[a, b * g, 0] for a in (-1, 1) for b in (-1, 1)]
             + [[b * g, 0, a] for a in (-1, 1) for b in (-1, 1)])
    elif name == "icolat":
        v = ([[0, a, 2 * b] for a in (-1, 1) for b in (-1, 1)] + [[a, 2 * b, 0] for a in (-1, 1) for b in (-1, 1)]
             + [[2 * b, 0, a] for a in (-1, 1) for b in (-1, 1)])
    else:
        raise ValueError(name)
    v = [[float(x) for x in p] for p in v]
    _MESH_CACHE[name] = (v, hull_tris(v))
    return _MESH_CACHE[name]


def sphere9_points():
    pts = set()
    for p in itertools.product(range(-3, 4), repeat=3):
        if p[0] * p[0] + p[1] * p[1] + p[2] * p[2] == 9:
            pts.add(p)
    return sorted(pts)


S9 = sphere9_points()


def gen_mesh_shape(rng, stream):
    """(verts, tris, lattice?) of a convex mesh in its own frame, extent about 1..3"""
    r = rng.random()
    if r < 0.6:
        name = rng.choice(["tetra", "cube", "octa", "icolat", "icolat"] + (["icosa"] if stream != "L" else []))
        v, tr = base_mesh(name)
        v = [list(p) for p in v]
        perm = list(range(len(v)))
        if rng.random() < 0.5:
            rng.shuffle(perm)
            inv = {old: new for new, old in enumerate(perm)}
            v = [v[old] for old in perm]
            tr = [[inv[i] for i in t] for t in tr]
        return v, [list(t) for t in tr], name != "icosa"
    for _ in range(20):
        if stream == "L" or rng.random() < 0.4:
            pts = [list(map(float, p)) for p in rng.sample(S9, rng.randint(4, 12))]
            lat = True
        else:
            pts = [unit([rng.gauss(0, 1) for _ in range(3)]).tolist() for _ in range(rng.randint(4, 20))]
            lat = False
        try:
            tr = hull_tris(pts)
        except Exception:  # coplanar sample
            continue
        used = sorted(set(i for t in tr for i in t))
        if len(used) == len(pts):
            return pts, tr, lat
    v, tr = base_mesh("tetra")
    return [list(p) for p in v], [list(t) for t in tr], True


# ------------------------------------------------------------------ generators: colliders
def gen_spec(rng, stream, kind):
    """(spec, exact) — exact: signed-permutation pose and dyadic data (all model operations that do not
    involve a non-square sqrt are exact in floats)"""
    L = stream == "L"
    size = (lambda: rng.choice(LAT_SIZE)) if L else (lambda: gsize(rng))
    if kind in POSE_KINDS:
        if L:
            R, exact = lattice_rotation(rng)
            t = lattice_t(rng)
        else:
            R, exact = general_rotation(rng), False
            t = general_t(rng)
        pose = make_pose(R, t).tolist()
    if kind == "sphere":
        return {"kind": kind, "c": lattice_t(rng) if L else general_t(rng), "r": size()}, L
    if kind == "capsule":
        return {"kind": kind, "pose": pose, "r": size(), "h": size()}, exact
    if kind == "ellipsoid":
        return {"kind": kind, "pose": pose, "radii": [size(), size(), size()]}, exact
    if kind == "cylinder":
        return {"kind": kind, "pose": pose, "r": size(), "l": size()}, exact
    if kind == "cone":
        r = size()
        h = r if (L and rng.random() < 0.4) else size()
        return {"kind": kind, "pose": pose, "r": r, "h": h}, exact
    if kind == "box":
        return {"kind": kind, "pose": pose, "size": [size(), size(), size()]}, exact
    if kind == "disk":
        if L:
            R, exact = lattice_rotation(rng)
            col = rng.randrange(3)
            n = R[:, col].tolist()
            if rng.random() < 0.2:
                n = rng.choice([[2 / 3, 2 / 3, 1 / 3], [2 / 3, -2 / 3, 1 / 3], [1 / 3, 2 / 3, 2 / 3],
                                [-2 / 3, 1 / 3, 2 / 3], [2 / 3, 1 / 3, -2 / 3]])
                exact = False
            c = lattice_t(rng)
        else:
            exact = False
            c = general_t(rng)
            r = rng.random()
            if r < 0.6:
                n = unit([rng.gauss(0, 1) for _ in range(3)]).tolist()
            elif r < 0.8:
                v = [rng.gauss(0, 1) for _ in range(3)]
                v[rng.randrange(3)] = 0.0
                n = unit(v).tolist()
            else:
                a, b = rng.gauss(0, 1), rng.gauss(0, 1)
                n = unit([a, rng.choice([-1, 1]) * a, b]).tolist()
        return {"kind": kind, "c": c, "r": size(), "n": [float(x) for x in n]}, exact
    if kind == "ellipse":
        if L:
            R, exact = lattice_rotation(rng)
            c = lattice_t(rng)
        else:
            R, exact = general_rotation(rng), False
            c = general_t(rng)
        axes = np.ascontiguousarray(R[:, :2].T).tolist()
        return {"kind": kind, "c": c, "axes": axes, "radii": [size(), size()]}, exact
    if kind == "hull":
        if L:
            n = rng.choice([1, 2, 3, 4, 5, 8])
            vs = [[rng.choice([-2.0, -1.0, -0.5, 0.0, 0.5, 1.0, 2.0, 3.0]) for _ in range(3)] for _ in range(n)]
            if n >= 3 and rng.random() < 0.3:
                vs[-1] = list(vs[0])
            return {"kind": kind, "verts": vs}, True
        n = rng.randint(1, 12)
        s = gsize(rng)
        c = arr(general_t(rng))
        vs = [(c + s * arr([rng.uniform(-1, 1) for _ in range(3)])).tolist() for _ in range(n)]
        return {"kind": kind, "verts": vs}, False
    if kind == "mesh":
        v, tr, lat = gen_mesh_shape(rng, stream)
        if L:
            sc_ = rng.choice(LAT_SIZE)
        else:
            ext = max(max(abs(x) for x in p) for p in v)
            sc_ = gsize(rng) / (2.0 * ext)
            sc_ = max(sc_, 1e-2 / (2.0 * ext))
        v = [[x * sc_ for x in p] for p in v]
        return {"kind": kind, "pose": pose, "verts": v, "tris": tr}, bool(exact and lat)
    raise ValueError(kind)


def maybe_margin(rng, stream, spec, p=0.25):
    if rng.random() >= p:
        return spec
    m = rng.choice([0.1, 0.5, 2.0]) if (stream == "L" or rng.random() < 0.5) else 10 ** rng.uniform(-2, 1)
    out = {"kind": "margin", "m": m, "inner": spec}
    if rng.random() < 0.1:
        out = {"kind": "margin", "m": rng.choice([0.5, 0.25]), "inner": out}
    return out


def frame_of(spec):
    """orthonormal frame (3x3, columns) attached to the shape, used to aim directions at its axes"""
    base, _ = base_of(spec)
    k = base["kind"]
    if k in POSE_KINDS:
        return pose_of(base)[:3, :3]
    if k == "disk":
        n = arr(base["n"])
        if vnorm(n) == 0:
            return np.eye(3)
        a = np.eye(3)[int(np.argmin(np.abs(n)))]
        x = np.cross(n, a)
        x = x / vnorm(x)
        y = np.cross(n, x)
        return np.column_stack((x, y, n))
    if k == "ellipse":
        ax = arr(base["axes"]).reshape(2, 3)
        return np.column_stack((ax[0], ax[1], np.cross(ax[0], ax[1])))
    return np.eye(3)


def special_local_dirs(spec, rng):
    """local directions aimed at the branch boundaries of the model for this shape"""
    base, _ = base_of(spec)
    k = base["kind"]
    out = []
    e = np.eye(3)
    for i in range(3):
        out += [e[i], -e[i]]
    for i, j in ((0, 1), (0, 2), (1, 2)):
        out += [e[i] + e[j], e[i] - e[j], -e[i] - e[j]]
    if k == "cone":
        r, h = float(base["r"]), float(base["h"])
        # rim/apex tie: r*|xy| == z*h
        out += [arr([h, 0.0, r]), arr([0.0, -h, r]), arr([h, 0.0, 2 * r]), arr([2 * h, 0.0, r]),
                arr([0.6 * h, 0.8 * h, r]), arr([1.0, 0.0, 1.0]), arr([0.0, 0.5, 2.0]), arr([0.5, 0.0, -1.0])]
    if k in ("cylinder", "capsule"):
        out += [arr([1.0, 2.0, 0.0]), arr([0.0, 0.0, 0.5]), arr([0.0, 0.0, -2.0]), arr([-0.5, 0.0, 1.0])]
    if k in ("disk", "ellipse"):
        out += [arr([0.6, 0.8, 0.0]), arr([1.0, -2.0, 0.0]), arr([0.0, 0.0, 2.0]), arr([0.0, 0.0, -0.5]),
                arr([0.0, 1.0, 1.0])]
    if k == "box":
        out += [arr(s) for s in itertools.product([-1.0, 0.0, 1.0], repeat=3) if any(s)]
    return out


def lattice_dir(rng):
    while True:
        d = [rng.choice(LAT_DIR) for _ in range(3)]
        if any(d):
            return d


def general_dir(rng):
    v = unit([rng.gauss(0, 1) for _ in range(3)]) * 10 ** rng.uniform(-3, 3)
    r = rng.random()
    if r < 0.15:
        v[rng.randrange(3)] = 0.0
    elif r < 0.3:
        keep = rng.randrange(3)
        v = arr([v[i] if i == keep else 0.0 for i in range(3)])
    if not np.any(v):
        v[0] = 1.0
    return v.tolist()


def gen_dirs(rng, stream, spec, k):
    """k directions in world coordinates for this shape"""
    F = frame_of(spec)
    spec_l = special_local_dirs(spec, rng)
    dirs = []
    for _ in range(k):
        r = rng.random()
        if stream == "L":
            if r < 0.5:
                d = lattice_dir(rng)
            else:
                ld = rng.choice(spec_l) * rng.choice([0.5, 1.0, 1.0, 2.0])
                d = (F @ ld).tolist()
        else:
            if r < 0.6:
                d = general_dir(rng)
            elif r < 0.8:
                ld = rng.choice(spec_l) * 10 ** rng.uniform(-3, 3)
                d = (F @ ld).tolist()
            else:
                # NEARLY special: a branch-boundary direction tilted by 1e-3 … 1e-13 (a threshold such as
                # `s < eps` instead of `s == 0` only shows for tilts below its square root)
                ld = unit(rng.choice(spec_l))
                pert = unit([rng.gauss(0, 1) for _ in range(3)])
                ld = ld + pert * 10 ** (-rng.randrange(3, 14))
                d = (F @ (ld * 10 ** rng.uniform(-1, 1))).tolist()
        dirs.append([float(x) for x in d])
    return dirs


# ------------------------------------------------------------------ tolerances
def feature_L(spec):
    """L = max(1, largest feature size, centre distance from the origin)"""
    base, ms = base_of(spec)
    k = base["kind"]
    f = [1.0] + [abs(m) for m in ms]
    if k == "sphere":
        f += [base["r"], vnorm(base["c"])]
    elif k == "capsule":
        f += [base["r"], base["h"], vnorm(pose_of(base)[:3, 3])]
    elif k == "ellipsoid":
        f += list(base["radii"]) + [vnorm(pose_of(base)[:3, 3])]
    elif k == "cylinder":
        f += [base["r"], base["l"], vnorm(pose_of(base)[:3, 3])]
    elif k == "disk":
        f += [base["r"], vnorm(base["c"])]
    elif k == "ellipse":
        f += list(base["radii"]) + [vnorm(base["c"])]
    elif k == "cone":
        f += [base["r"], base["h"], vnorm(pose_of(base)[:3, 3])]
    elif k == "box":
        f += list(base["size"]) + [vnorm(pose_of(base)[:3, 3])]
    elif k == "hull":
        v = arr(base["verts"]).reshape(-1, 3)
        if len(v):
            f += [float(np.max(np.ptp(v, axis=0))), vnorm(np.mean(v, axis=0))]
    elif k == "mesh":
        v = arr(base["verts"]).reshape(-1, 3)
        A = pose_of(base)
        f += [float(np.max(np.ptp(v, axis=0))), vnorm(A[:3, 3] + A[:3, :3] @ np.mean(v, axis=0))]
    return float(max(abs(x) for x in f))


def tol_proj(spec, d):
    return REL * feature_L(spec) * max(1.0, vnorm(d))


# ------------------------------------------------------------------ branch mirror of the implementation
def gap_to_second(V, vals, idx):
    """vals[idx] - best value among vertices that differ from V[idx] as points"""
    other = [vals[j] for j in range(len(V)) if j != idx and np.any(V[j] != V[idx])]
    return float(vals[idx] - max(other)) if other else INF


def py_branch(spec, d, obj):
    """Re-evaluate the implementation's case analysis on (spec, d) with the same numpy expressions.
    Returns (branch or None, tie, cond): tie = relative margin of the closest branch decision (a model/code
    difference is legitimate rounding only if tie < TIE), cond = relative size of the smallest non-zero divisor
    (the maximiser is ill-conditioned, i.e. compared by value only, if cond < COND)."""
    from distance3d.utils import plane_basis_from_normal
    base, _ = base_of(spec)
    k = base["kind"]
    d = arr(d)
    nd = vnorm(d)
    s_ = nd if nd > 0 else 1.0
    if k == "sphere":
        return (1 if np.linalg.norm(d) == 0.0 else 0), INF, INF
    if k in POSE_KINDS:
        A = pose_of(base)
        ld = np.dot(A[:3, :3].T, d)
    if k == "capsule":
        s = math.sqrt(ld[0] * ld[0] + ld[1] * ld[1] + ld[2] * ld[2])
        return (1 if ld[2] > 0.0 else 0) + (2 if s == 0.0 else 0), abs(ld[2]) / s_, INF
    if k == "cylinder":
        s = math.sqrt(ld[0] * ld[0] + ld[1] * ld[1])
        return ((0 if ld[2] < 0.0 else 1) + (2 if s == 0.0 else 0), min(abs(ld[2]), s) / s_,
                (s / s_ if s > 0 else INF))
    if k == "ellipsoid":
        n = np.linalg.norm(ld * arr(base["radii"]))
        return (1 if n == 0.0 else 0), INF, INF
    if k == "cone":
        r, h = float(base["r"]), float(base["h"])
        dp = np.array([ld[0], ld[1], 0.0])
        norm = np.linalg.norm(dp)
        if norm == 0.0:
            dp = np.zeros(3)
        else:
            dp = dp * (r / norm)
        lhs, rhs = np.dot(ld, dp), ld[2] * h
        b = (2 if norm == 0.0 else 0) + (0 if lhs >= rhs else 1)
        return b, min(norm / s_, abs(lhs - rhs) / (s_ * max(r, h))), (norm / s_ if norm > 0 else INF)
    if k == "disk":
        n = arr(base["n"])
        with np.errstate(all="ignore"):
            x, y = plane_basis_from_normal(n)
            R = np.column_stack((x, y, n))
            pt = np.dot(R.T, d)
            pt[2] = 0.0
            norm = float(np.linalg.norm(pt))
        pb = 0 if abs(n[0]) >= abs(n[1]) else 1
        return 2 * pb + (1 if norm == 0.0 else 0), norm / s_, (norm / s_ if norm > 0 else INF)
    if k == "ellipse":
        rad = arr(base["radii"])
        n = float(np.linalg.norm(rad * arr(base["axes"]).reshape(2, 3).dot(d)))
        rel = n / (s_ * float(np.max(rad)))
        return (1 if n == 0.0 else 0), rel, (rel if n > 0 else INF)
    if k in ("box", "hull"):
        V = inner_obj(obj).vertices
        if len(V) == 0:
            return None, INF, INF
        vals = V.dot(d)
        idx = int(np.argmax(vals))
        scale = s_ * max(float(np.max(np.abs(V))), 1e-300)
        return idx, gap_to_second(V, vals, idx) / scale, INF
    if k == "mesh":
        V = arr(base["verts"]).reshape(-1, 3)
        vals = V.dot(ld)
        idx = int(np.argmax(vals))
        gap = gap_to_second(V, vals, idx)
        scale = s_ * max(float(np.max(np.abs(V))), 1e-300)
        return None, (gap / scale if gap > 1e-13 else 0.0), INF
    raise ValueError(k)


def simple_dyadic(x):
    fr = Fraction(float(x))
    return fr.denominator <= 64 and abs(fr.numerator) <= 4096


def must_exact(spec, d, exact):
    """True if every float operation of model and code on this input is exact (then F-mode bits and the
    Q-mode rationals have to coincide with the implementation's doubles)"""
    if not exact:
        return False
    base, ms = base_of(spec)
    d = arr(d)
    if not all(simple_dyadic(x) for x in d):
        return False
    if ms and not (one_nonzero(d) and all(simple_dyadic(m) for m in ms)):
        return False
    k = base["kind"]
    if k in ("box", "hull", "mesh"):
        return True
    if k == "sphere":
        return one_nonzero(d)
    if k in POSE_KINDS:
        ld = pose_of(base)[:3, :3].T @ d
        return one_nonzero(ld) if k in ("capsule", "ellipsoid") else one_nonzero(ld[:2])
    if k == "disk":
        n = arr(base["n"])
        return one_nonzero(d - np.dot(d, n) * n)
    if k == "ellipse":
        return one_nonzero(arr(base["axes"]).reshape(2, 3).dot(d))
    return False


# ------------------------------------------------------------------ correspondence: jobs
class Job:
    def __init__(self, stream, spec, dirs, exact, single=False, q=False):
        self.stream, self.spec, self.dirs, self.exact, self.single, self.q = stream, spec, dirs, exact, single, q

    def seed(self, at=None, mode="F"):
        return {"spec": self.spec, "dirs": self.dirs, "single": self.single, "at": at, "mode": mode,
                "stream": self.stream}


def fn_name(spec):
    return base_of(spec)[0]["kind"]


def eq_exact(pm, pi, mode):
    if mode == "F":
        return all(float(a) == float(b) for a, b in zip(pm, pi))
    return all(a == Fraction(float(b)) for a, b in zip(pm, pi))


class Runner:
    """collects driver lines of many jobs, runs the driver once, compares"""

    def __init__(self, ctx, tag):
        self.ctx = ctx
        self.drv = core.Driver("c03-" + tag)
        self.plan = []
        self.aux = []
        self.nbroke = 0

    # ---- reporting
    def broke(self, name, msg, seed):
        self.nbroke += 1
        if len(self.ctx.broken) < 25:
            self.ctx.broke("correspondence", name, msg, seed)

    # ---- jobs
    def add(self, job):
        spec = job.spec
        try:
            obj = build(spec)
        except Exception as e:  # noqa
            self.broke("build", "cannot construct %s: %r" % (spec.get("kind"), e), job.seed())
            return
        modes = ["F", "Q"] if job.q else ["F"]
        ctoks = {m: enc_collider(spec, m, obj) for m in modes}
        impl, pbs, ids = [], [], {}
        for i, d in enumerate(job.dirs):
            o = build(spec) if (job.single and i > 0) else obj
            pbs.append(py_branch(spec, d, o))
            impl.append(impl_support(o, d))
        for m in modes:
            if job.single:
                ids[m] = [self.drv.add("C03.support", m, ctoks[m] + enc_vec(d, m)) for d in job.dirs]
            else:
                toks = ctoks[m] + [str(len(job.dirs))]
                for d in job.dirs:
                    toks += enc_vec(d, m)
                ids[m] = self.drv.add("C03.hist", m, toks)
        fresh = build(spec)
        fv = impl_point(fresh.first_vertex)
        ce = impl_point(fresh.center)
        pid = {m: (self.drv.add("C03.first", m, ctoks[m]), self.drv.add("C03.center", m, ctoks[m])) for m in modes}
        self.plan.append((job, modes, ctoks["F"], impl, pbs, ids, fv, ce, pid))

    def add_aux(self, kind, fn, toks_by_mode, impl, seed, stream, extra=None):
        ids = {m: self.drv.add(fn, m, t) for m, t in toks_by_mode.items()}
        self.aux.append((kind, fn, toks_by_mode, impl, seed, stream, ids, extra))

    # ---- run + compare
    def run(self):
        out = self.drv.run()
        for item in self.plan:
            self.compare_job(out, *item)
        for item in self.aux:
            self.compare_aux(out, *item)
        self.plan, self.aux = [], []

    def model_results(self, out, job, ids, mode):
        if job.single:
            return [parse_support(out.get(i, "bad missing"), mode) for i in ids]
        text = out.get(ids, "bad missing")
        parts = text.split(" ; ")
        if not parts[0].startswith("ok"):
            return [parse_support(text, mode) for _ in job.dirs]
        res = [parse_support(p, mode) for p in parts[1:]]
        while len(res) < len(job.dirs):
            res.append({"ok": False, "err": "bad:short"})
        return res

    def compare_job(self, out, job, modes, ctF, impl, pbs, ids, fv, ce, pid):
        ctx = self.ctx
        spec = job.spec
        name = fn_name(spec)
        L = feature_L(spec)
        ident = is_identity_pose(spec)
        ckey = " ".join(ctF)
        for m in modes:
            stream = job.stream + ("" if m == "F" else ":Q") + ("" if job.single else "-hist")
            mres = self.model_results(out, job, ids[m], m)
            bad = False
            for i, d in enumerate(job.dirs):
                ctx.count(stream, key=m + ckey + " " + " ".join(enc_vec(d, "F")) + (" @%d" % i if not job.single else ""),
                          nontrivial=not (ident and axis_aligned(d)),
                          sample=None if len(ctx.samples) >= 6 else {
                              "stream": stream, "kind": spec["kind"], "line": ("C03.support %s %s %s" % (
                                  m, ckey, " ".join(enc_vec(d, "F"))))[:400]})
                mr = mres[i]
                if mr.get("ok"):
                    ctx.branch(name, mr["branch"])
                    if spec["kind"] == "margin":
                        ctx.branch("margin", name)
                else:
                    ctx.branch(name, "err:" + str(mr.get("err")))
                if not bad:
                    msg = self.cmp_support(job, i, d, impl[i], mr, m, pbs[i], L)
                    if msg:
                        bad = True
                        self.broke("%s.support_function" % name, "query %d d=%s mode=%s: %s" % (i, d, m, msg),
                                   job.seed(i, m))
            for what, ir, cid in (("first_vertex", fv, pid[m][0]), ("center", ce, pid[m][1])):
                ctx.count(stream.replace("-hist", "") + ":" + what, key=m + what + ckey, nontrivial=not ident)
                mr = parse_point(out.get(cid, "bad missing"), m)
                msg = self.cmp_point(ir, mr, m, REL * L, job.exact)
                if msg:
                    self.broke("%s.%s" % (name, what), "mode=%s: %s" % (m, msg), job.seed(None, m))

    def cmp_point(self, ir, mr, mode, tol, exact):
        if not ir["ok"]:
            if mr.get("ok") and any(isinstance(x, float) and math.isnan(x) for x in mr["p"]):
                return None     # NaN on both sides (mean of an empty array)
            if mr.get("ok") or mr.get("err") != ir["err"]:
                return "implementation: %s (%s), model: %s" % (ir["err"], ir.get("msg"), mr)
            return None
        if not mr.get("ok"):
            return "implementation ok %s, model: %s" % (ir["p"], mr.get("err"))
        pm, pi = mr["p"], ir["p"]
        if exact and simple_point(pi):
            if not eq_exact(pm, pi, mode):
                return "points differ on an exact input: impl=%s model=%s" % (pi, fl(pm))
            return None
        if max(abs(float(a) - b) for a, b in zip(pm, pi)) > tol:
            return "points differ by more than %g: impl=%s model=%s" % (tol, pi, fl(pm))
        return None

    def cmp_support(self, job, i, d, ir, mr, mode, pb, L):
        """None if model and implementation agree on this query, else a message"""
        ctx = self.ctx
        spec = job.spec
        kind = base_of(spec)[0]["kind"]
        if not ir["ok"]:
            if mr.get("ok") or mr.get("err") != ir["err"]:
                return "implementation: %s (%s), model: %s" % (ir["err"], ir.get("msg"), mr)
            return None
        if not mr.get("ok"):
            return "implementation ok %s, model: %s" % (ir["p"], mr.get("err"))
        branch, tie, cond = pb
        if kind in ("box", "hull") and "arg" in ir:
            branch = ir["arg"]
        dd = arr(d)
        tp = REL * L * max(1.0, vnorm(dd))
        pm, pi = fl(mr["p"]), ir["p"]
        same = True
        if branch is not None and branch != mr["branch"]:
            same = False
        if kind == "mesh" and ir["idx"] != mr["idx"]:
            same = False
        if not same:
            if job.exact or tie >= TIE:
                return ("branch/index differs: impl branch=%s idx=%s p=%s, model branch=%s idx=%s p=%s (decision "
                        "margin %.3g)" % (branch, ir["idx"], pi, mr["branch"], mr["idx"], pm, tie))
            ctx.extra["ties"] = ctx.extra.get("ties", 0) + 1
            bad = oracle_point(spec, d, pi, sweep=0)
            for b in bad:
                ctx.fail("%s.support_function" % ("Margin(%s)" % kind if spec["kind"] == "margin" else kind),
                         {"spec": spec, "dirs": [d], "sweep_seed": 0, "at": 0}, b["observed"],
                         b["expected"], b["oracle"])
        dv = abs(float(np.dot(dd, arr(pm))) - float(np.dot(dd, arr(pi))))
        if dv > tp:
            return "support values differ by %.3g > %.3g: impl p=%s, model p=%s" % (dv, tp, pi, pm)
        if not same:
            return None
        if must_exact(spec, d, job.exact):
            if not eq_exact(mr["p"], pi, mode):
                return "points differ on an exact input: impl=%s model=%s" % (pi, pm)
            ctx.extra["exact_points"] = ctx.extra.get("exact_points", 0) + 1
            return None
        if job.exact or cond >= COND:
            dp = max(abs(a - b) for a, b in zip(pm, pi))
            if dp > REL * L:
                return "points differ by %.3g > %.3g: impl=%s model=%s" % (dp, REL * L, pi, pm)
        else:
            ctx.extra["value_only"] = ctx.extra.get("value_only", 0) + 1
        return None

    # ---- auxiliary kernels
    def compare_aux(self, out, kind, fn, toks_by_mode, impl, seed, stream, ids, extra):
        ctx = self.ctx
        for m, cid in ids.items():
            text = out.get(cid, "bad missing")
            ctx.count(stream + ":" + kind + ("" if m == "F" else ":Q"), key=m + fn + " ".join(toks_by_mode.get("F") or toks_by_mode[m]),
                      nontrivial=True)
            msg = AUX_CMP[kind](ctx, text, m, impl, extra)
            if msg:
                self.broke(fn, "mode=%s: %s" % (m, msg), seed)


def simple_point(p):
    return all(math.isfinite(x) and simple_dyadic(x) for x in p)


# ------------------------------------------------------------------ auxiliary kernels (boxfn, planebasis, ...)
def cmp_boxfn(ctx, text, mode, impl, extra):
    mr = parse_point(text, mode, skip=1)
    if not mr.get("ok"):
        return "model: %s" % mr.get("err")
    ctx.branch("boxfn", mr["branch"])
    pm, pi = fl(mr["p"]), impl["p"]
    d = arr(extra["d"])
    if mr["branch"] != impl["branch"]:
        if extra["exact"] or impl["tie"] >= TIE:
            return "branch differs: impl %s p=%s, model %s p=%s" % (impl["branch"], pi, mr["branch"], pm)
        ctx.extra["ties"] = ctx.extra.get("ties", 0) + 1
        # sign(0) = 0 returns a face/edge centre: still a maximiser, compare the value only
        dv = abs(float(np.dot(d, arr(pm))) - float(np.dot(d, arr(pi))))
        return None if dv <= extra["tp"] else "support values differ by %.3g" % dv
    if extra["exact"]:
        return None if eq_exact(mr["p"], pi, mode) else "points differ on an exact input: impl=%s model=%s" % (pi, pm)
    dp = max(abs(a - b) for a, b in zip(pm, pi))
    return None if dp <= extra["tm"] else "points differ by %.3g: impl=%s model=%s" % (dp, pi, pm)


def cmp_planebasis(ctx, text, mode, impl, extra):
    t = text.split()
    if not impl["ok"]:
        ctx.branch("planebasis", "err:divZero")
        return None if t[:2] == ["err", impl["err"]] else "implementation %s, model %s" % (impl["err"], text[:80])
    if len(t) != 8 or t[0] != "ok":
        return "implementation ok, model %s" % text[:80]
    ctx.branch("planebasis", int(t[1]))
    if int(t[1]) != impl["branch"]:
        return "branch differs: impl %d model %s" % (impl["branch"], t[1])
    vm = [val(x, mode) for x in t[2:8]]
    vi = impl["x"] + impl["y"]
    if extra["exact"] and simple_point(vi):
        return None if eq_exact(vm, vi, mode) else "basis differs on an exact input: impl=%s model=%s" % (vi, fl(vm))
    dp = max(abs(float(a) - b) for a, b in zip(vm, vi))
    return None if dp <= 1e-12 else "basis differs by %.3g: impl=%s model=%s" % (dp, vi, fl(vm))


def cmp_normvec(ctx, text, mode, impl, extra):
    mr = parse_point(text, mode)
    if not mr.get("ok"):
        return "model: %s" % mr.get("err")
    if extra["exact"] and simple_point(impl["p"]):
        return None if eq_exact(mr["p"], impl["p"], mode) else "differs on exact input: %s vs %s" % (impl["p"], fl(mr["p"]))
    dp = max(abs(float(a) - b) for a, b in zip(mr["p"], impl["p"]))
    return None if dp <= 1e-12 else "norm_vector differs by %.3g: impl=%s model=%s" % (dp, impl["p"], fl(mr["p"]))


def cmp_meshbuild(ctx, text, mode, impl, extra):
    t = text.split()
    if not impl["ok"]:
        return None if t[:2] == ["err", impl["err"]] else "implementation %s (%s), model %s" % (
            impl["err"], impl.get("msg"), text[:80])
    if not t or t[0] != "ok":
        return "implementation ok, model %s" % text[:80]
    want = [impl["first_idx"]] + impl["shortcuts"] + [len(impl["conn"])]
    for k, nb in impl["conn"]:
        want += [k, len(nb)] + nb
    got = [int(x) for x in t[1:]]
    return None if got == want else "construction differs: impl=%s model=%s" % (want, got)


def cmp_meshwf(ctx, text, mode, impl, extra):
    """`MeshData.wfCheck` (Lean, proved sound: meshWF_of_check) on the data the model climbs on; expected value is
    recomputed here from the implementation's object: every shortcut vertex has an entry in `connections`"""
    t = text.split()
    if len(t) != 3 or t[0] != "ok":
        return "model: %s" % text[:80]
    ctx.branch("meshwf", t[1])
    if int(t[1]) != impl["wf"]:
        return "wfCheck=%s but implementation data well-formed=%s (shortcuts %s, keys %s)" % (
            t[1], impl["wf"], impl["shortcuts"], impl["keys"])
    if int(t[2]) != impl["first_idx"]:
        return "first_idx: model %s implementation %s" % (t[2], impl["first_idx"])
    return None


def cmp_unimodal(ctx, text, mode, impl, extra):
    """`unimodalCheck` (Lean, proved sound: unimodal_of_check): hypothesis of the global-optimality theorems"""
    t = text.split()
    if len(t) != 2 or t[0] != "ok":
        return "model: %s" % text[:80]
    ctx.branch("unimodal", t[1] + ("" if mode == "F" else ":Q"))
    if t[1] != "1":
        return ("hypothesis Unimodal(tau=PROJECTION_LENGTH_EPSILON, tau'=%r) of mesh_call/mesh_history does not hold "
                "for this mesh and direction %s" % (extra["tau2"], extra["d"]))
    return None


AUX_CMP = {"boxfn": cmp_boxfn, "planebasis": cmp_planebasis, "normvec": cmp_normvec, "meshbuild": cmp_meshbuild,
           "meshwf": cmp_meshwf, "unimodal": cmp_unimodal}


def add_lean_mesh_checks(run, job, expect_wf=True):
    """run the two Lean-verified decidable checks on a mesh job: wfCheck on the constructed data (precondition
    MeshWF of every mesh theorem) and, for well-formed meshes, unimodalCheck per direction (hypothesis of the
    global statements): exactly (Q) with tau' = tau on exact lattice meshes, at Float with tau' = the property's
    projection tolerance otherwise"""
    from distance3d.mesh import PROJECTION_LENGTH_EPSILON as TAU
    base, _ = base_of(job.spec)
    if base["kind"] != "mesh":
        return
    try:
        obj = build(base)
    except Exception:  # noqa
        return
    sf = obj._support_function
    keys = sorted(int(k) for k in sf.connections)
    shortcuts = [int(x) for x in sf.shortcut_connections]
    nv = len(arr(base["verts"]).reshape(-1, 3))
    wf = int(all(sh in keys for sh in shortcuts) and all(k < nv for k in keys))
    impl = {"wf": wf, "shortcuts": shortcuts, "keys": keys, "first_idx": int(sf.first_idx)}

    def toks(m):
        return enc_pose(pose_of(base), m) + enc_mesh_data(base, m) + mesh_conn_tokens(obj)
    run.add_aux("meshwf", "C03.meshwf", {"F": toks("F")}, impl, job.seed(), job.stream)
    if not wf:
        return
    m = "Q" if job.exact else "F"
    seen = set()
    for d in job.dirs:
        if tuple(d) in seen or not any(d):
            continue
        seen.add(tuple(d))
        tau2 = float(TAU) if job.exact else tol_proj(base, d)
        run.add_aux("unimodal", "C03.unimodal", {m: toks(m) + [sc(tau2, m)] + enc_vec(d, m)}, None,
                    job.seed(), job.stream, extra={"tau2": tau2, "d": list(d)})


def add_boxfn(run, rng, stream, pose, half, d, exact):
    from distance3d.geometry import support_function_box
    A = arr(pose).reshape(4, 4)
    dd, hh = arr(d), arr(half)
    p = np.array(support_function_box(dd, A, hh), dtype=float)
    ld = np.dot(A[:3, :3].T, dd)
    dg = [0 if x < 0 else (2 if x > 0 else 1) for x in ld]
    nd = vnorm(dd) or 1.0
    L = max(1.0, float(np.max(hh)) * 2, vnorm(A[:3, 3]))
    impl = {"p": p.tolist(), "branch": dg[0] + 3 * dg[1] + 9 * dg[2], "tie": float(np.min(np.abs(ld))) / nd}
    modes = ["F", "Q"] if exact else ["F"]
    toks = {m: enc_pose(A, m) + enc_vec(hh, m) + enc_vec(dd, m) for m in modes}
    run.add_aux("boxfn", "C03.boxfn", toks, impl, {"fn": "support_function_box", "pose": A.tolist(),
                                                     "half": hh.tolist(), "d": dd.tolist()}, stream,
                {"d": dd.tolist(), "exact": exact, "tp": REL * L * max(1.0, vnorm(dd)), "tm": REL * L})


def add_planebasis(run, stream, n, exact):
    from distance3d.utils import plane_basis_from_normal
    nn = arr(n)
    try:
        with np.errstate(all="ignore"):
            x, y = plane_basis_from_normal(nn)
        x, y = np.array(x, dtype=float), np.array(y, dtype=float)
        if np.any(np.isnan(x)) or np.any(np.isnan(y)):
            impl = {"ok": False, "err": "divZero"}
        else:
            impl = {"ok": True, "x": x.tolist(), "y": y.tolist(), "branch": 0 if abs(nn[0]) >= abs(nn[1]) else 1}
    except Exception as e:  # noqa
        impl = {"ok": False, "err": err_name(e)}
    modes = ["F", "Q"] if exact else ["F"]
    run.add_aux("planebasis", "C03.planebasis", {m: enc_vec(nn, m) for m in modes}, impl,
                {"fn": "plane_basis_from_normal", "n": nn.tolist()}, stream, {"exact": exact})


def add_normvec(run, stream, v, exact):
    from distance3d.utils import norm_vector
    vv = arr(v)
    impl = {"p": np.array(norm_vector(vv), dtype=float).tolist()}
    modes = ["F", "Q"] if exact else ["F"]
    run.add_aux("normvec", "C03.normvec", {m: enc_vec(vv, m) for m in modes}, impl,
                {"fn": "norm_vector", "v": vv.tolist()}, stream, {"exact": exact})


def add_meshbuild(run, stream, spec):
    from distance3d.mesh import MeshHillClimbingSupportFunction
    v = arr(spec["verts"]).reshape(-1, 3)
    tr = np.array(spec["tris"], dtype=int).reshape(-1, 3)
    try:
        sf = MeshHillClimbingSupportFunction(np.eye(4), v, tr)
        impl = {"ok": True, "first_idx": int(sf.first_idx), "shortcuts": [int(x) for x in sf.shortcut_connections],
                "conn": [[int(k), sorted(int(x) for x in sf.connections[k])] for k in sorted(sf.connections.keys())]}
    except Exception as e:  # noqa
        impl = {"ok": False, "err": err_name(e), "msg": str(e)[:100]}
    run.add_aux("meshbuild", "C03.meshbuild", {"F": enc_mesh_data(spec, "F")}, impl,
                {"fn": "MeshHillClimbingSupportFunction.__init__", "verts": v.tolist(), "tris": tr.tolist()},
                stream, None)


# ------------------------------------------------------------------ oracle (independent of the model)
def world_vertices(base):
    """vertices of a polytope collider in world coordinates, computed here (not by the library)"""
    k = base["kind"]
    if k == "hull":
        return arr(base["verts"]).reshape(-1, 3)
    A = pose_of(base)
    R, t = A[:3, :3], A[:3, 3]
    if k == "box":
        s = arr(base["size"])
        loc = np.array([[sx * s[0] / 2, sy * s[1] / 2, sz * s[2] / 2]
                        for sx in (-1, 1) for sy in (-1, 1) for sz in (-1, 1)])
    else:
        loc = arr(base["verts"]).reshape(-1, 3)
    return t + loc @ R.T


def support_value(spec, d):
    """analytic h(d) = max over the point set of d.x"""
    base, ms = base_of(spec)
    k = base["kind"]
    d = arr(d)
    nd = vnorm(d)
    extra = sum(ms) * nd
    return float(_support_value(base, k, d, nd) + extra)


def _support_value(base, k, d, nd):
    extra = 0.0
    if k == "sphere":
        return float(np.dot(arr(base["c"]), d)) + base["r"] * nd + extra
    if k == "disk":
        n, c = arr(base["n"]), arr(base["c"])
        return float(np.dot(c, d)) + base["r"] * vnorm(d - np.dot(d, n) * n) + extra
    if k == "ellipse":
        ax, rad, c = arr(base["axes"]).reshape(2, 3), arr(base["radii"]), arr(base["c"])
        return float(np.dot(c, d)) + math.hypot(rad[0] * np.dot(d, ax[0]), rad[1] * np.dot(d, ax[1])) + extra
    if k in ("hull", "mesh"):
        return float(np.max(world_vertices(base) @ d)) + extra
    A = pose_of(base)
    R, t = A[:3, :3], A[:3, 3]
    ld = R.T @ d
    td = float(np.dot(t, d))
    if k == "box":
        return td + float(np.sum(np.abs(ld) * arr(base["size"]) / 2)) + extra
    if k == "capsule":
        return td + base["r"] * nd + abs(ld[2]) * base["h"] / 2 + extra
    if k == "cylinder":
        return td + base["r"] * math.hypot(ld[0], ld[1]) + abs(ld[2]) * base["l"] / 2 + extra
    if k == "cone":
        return td + max(base["r"] * math.hypot(ld[0], ld[1]), ld[2] * base["h"]) + extra
    if k == "ellipsoid":
        return td + vnorm(arr(base["radii"]) * ld) + extra
    raise ValueError(k)


_HULL_CACHE = {}


def hull_halfspaces(base):
    """(mean, scale, equations) of the convex hull of the (world) vertices, None if degenerate"""
    key = id(base)
    if key in _HULL_CACHE and _HULL_CACHE[key][0] is base:
        return _HULL_CACHE[key][1]
    from scipy.spatial import ConvexHull
    V = world_vertices(base)
    res = None
    if len(V) >= 4:
        m = np.mean(V, axis=0)
        s = float(np.max(np.ptp(V, axis=0))) or 1.0
        try:
            res = (m, s, ConvexHull((V - m) / s).equations)
        except Exception:  # degenerate (coplanar) input
            res = None
    if len(_HULL_CACHE) > 50:
        _HULL_CACHE.clear()
    _HULL_CACHE[key] = (base, res)
    return res


def local_of(base, p):
    A = pose_of(base)
    return A[:3, :3].T @ (arr(p) - A[:3, 3])


def dist_to(base, p):
    """exact Euclidean distance of p to the point set (only for the shapes where that is elementary)"""
    k = base["kind"]
    p = arr(p)
    if k == "sphere":
        return max(0.0, vnorm(p - arr(base["c"])) - base["r"])
    if k == "capsule":
        q = local_of(base, p)
        zc = min(max(q[2], -base["h"] / 2), base["h"] / 2)
        return max(0.0, vnorm(q - arr([0, 0, zc])) - base["r"])
    if k == "box":
        q = local_of(base, p)
        return vnorm(np.maximum(np.abs(q) - arr(base["size"]) / 2, 0.0))
    if k == "cylinder":
        q = local_of(base, p)
        return math.hypot(max(0.0, math.hypot(q[0], q[1]) - base["r"]), max(0.0, abs(q[2]) - base["l"] / 2))
    if k == "disk":
        n, v = arr(base["n"]), p - arr(base["c"])
        z = float(np.dot(v, n))
        return math.hypot(z, max(0.0, vnorm(v - z * n) - base["r"]))
    return None


def member(spec, p, tol, vertex_ok=True):
    """definition-level membership of p in the collider's point set, inflated by tol; None = not decidable here"""
    base, ms = base_of(spec)
    p = arr(p)
    if ms:
        dist = dist_to(base, p)
        return None if dist is None else bool(dist <= sum(ms) + tol)
    k = base["kind"]
    if k == "sphere":
        return vnorm(p - arr(base["c"])) <= base["r"] + tol
    if k == "disk":
        v, n = p - arr(base["c"]), arr(base["n"])
        return abs(float(np.dot(v, n))) <= tol and vnorm(v) <= base["r"] + tol
    if k == "ellipse":
        ax, rad, v = arr(base["axes"]).reshape(2, 3), arr(base["radii"]), p - arr(base["c"])
        a, b = float(np.dot(v, ax[0])), float(np.dot(v, ax[1]))
        out = v - a * ax[0] - b * ax[1]
        return vnorm(out) <= tol and math.hypot(a / rad[0], b / rad[1]) <= 1.0 + tol / float(np.min(rad))
    if k in ("hull", "mesh"):
        hs = hull_halfspaces(base)
        if hs is None:
            V = world_vertices(base)
            if not vertex_ok or len(V) == 0:
                return None
            return bool(np.min(np.sqrt(np.sum((V - p) ** 2, axis=1))) <= tol)
        m, s, eq = hs
        return bool(np.all(eq[:, :3] @ ((p - m) / s) + eq[:, 3] <= tol / s))
    q = local_of(base, p)
    rad = math.hypot(q[0], q[1])
    if k == "capsule":
        zc = min(max(q[2], -base["h"] / 2), base["h"] / 2)
        return vnorm(q - arr([0, 0, zc])) <= base["r"] + tol
    if k == "cylinder":
        return rad <= base["r"] + tol and abs(q[2]) <= base["l"] / 2 + tol
    if k == "cone":
        return (-tol <= q[2] <= base["h"] + tol) and rad <= base["r"] * (1.0 - q[2] / base["h"]) + tol
    if k == "ellipsoid":
        radii = arr(base["radii"])
        return vnorm(q / radii) <= 1.0 + tol / float(np.min(radii))
    if k == "box":
        return bool(np.all(np.abs(q) <= arr(base["size"]) / 2 + tol))
    raise ValueError(k)


def lib_contains(base, p, tol):
    """distance3d.containment_test on the same point with sizes inflated by tol (cross-check only; C13)"""
    from distance3d import containment_test as ct
    k = base["kind"]
    P = arr([p])
    if k == "sphere":
        return bool(ct.points_in_sphere(P, arr(base["c"]), base["r"] + tol)[0])
    if k == "disk":
        return bool(ct.points_in_disk(P, arr(base["c"]), base["r"] + tol, arr(base["n"]))[0])
    if k not in ("capsule", "ellipsoid", "cone", "cylinder", "box"):
        return None
    A = pose_of(base)
    if k == "capsule":
        return bool(ct.points_in_capsule(P, A, base["r"] + tol, base["h"])[0])
    if k == "ellipsoid":
        return bool(ct.points_in_ellipsoid(P, A, arr(base["radii"]) + tol)[0])
    if k == "cone":
        return bool(ct.points_in_cone(P, A, base["r"] + tol, base["h"] + tol)[0])
    if k == "cylinder":
        return bool(ct.points_in_cylinder(P, A, base["r"] + tol, base["l"] + 2 * tol)[0])
    return bool(ct.points_in_box(P, A, arr(base["size"]) + 2 * tol)[0])


def _unit_rows(rs, n):
    u = rs.normal(size=(n, 3))
    return u / np.sqrt(np.sum(u * u, axis=1))[:, None]


def surface_points(spec, d, n, seed):
    """>= n points of the point set (mostly on its boundary), from the shape's parametrisation; includes the
    parameter values aligned with d so that the sweep is sharp"""
    base, ms = base_of(spec)
    k = base["kind"]
    rs = np.random.RandomState(seed % (2 ** 32))
    d = arr(d)
    du = d / vnorm(d)
    th = rs.uniform(0, 2 * math.pi, size=n)
    if k == "sphere":
        u = np.vstack([_unit_rows(rs, n), du])
        pts = arr(base["c"]) + base["r"] * u
    elif k == "disk" or k == "ellipse":
        if k == "disk":
            F = frame_of(base)
            a0, a1, r0, r1 = F[:, 0], F[:, 1], base["r"], base["r"]
        else:
            ax = arr(base["axes"]).reshape(2, 3)
            a0, a1, (r0, r1) = ax[0], ax[1], base["radii"]
        th = np.concatenate([th, [math.atan2(r1 * np.dot(d, a1), r0 * np.dot(d, a0))], np.arange(8) * math.pi / 4])
        rho = np.where(rs.uniform(size=len(th)) < 0.8, 1.0, rs.uniform(size=len(th)))
        rho[n] = 1.0
        pts = arr(base["c"]) + (rho * r0 * np.cos(th))[:, None] * a0 + (rho * r1 * np.sin(th))[:, None] * a1
    elif k in ("hull", "mesh"):
        V = world_vertices(base)
        w = rs.dirichlet(np.ones(len(V)) * 0.3, size=n)
        pts = np.vstack([V, w @ V])
    else:
        A = pose_of(base)
        R, t = A[:3, :3], A[:3, 3]
        ld = R.T @ d
        ths = math.atan2(ld[1], ld[0])
        th = np.concatenate([th, [ths], np.arange(8) * math.pi / 4])
        m = len(th)
        if k == "capsule":
            u = np.vstack([_unit_rows(rs, m - 2), ld / vnorm(ld), ld / vnorm(ld)])
            z = rs.choice([-0.5, 0.5, 0.0, 0.25], size=m) * base["h"]
            z[-2:] = [-base["h"] / 2, base["h"] / 2]
            loc = base["r"] * u + np.column_stack([np.zeros(m), np.zeros(m), z])
        elif k == "cylinder":
            z = rs.choice([-0.5, 0.5, 0.5, -0.5, 0.1], size=m) * base["l"]
            z[n] = math.copysign(base["l"] / 2, ld[2])
            rho = np.where(rs.uniform(size=m) < 0.8, 1.0, rs.uniform(size=m))
            rho[n] = 1.0
            loc = np.column_stack([rho * base["r"] * np.cos(th), rho * base["r"] * np.sin(th), z])
        elif k == "cone":
            z = np.where(rs.uniform(size=m) < 0.6, 0.0, rs.uniform(size=m)) * base["h"]
            z[n] = 0.0
            rr = base["r"] * (1.0 - z / base["h"])
            loc = np.column_stack([rr * np.cos(th), rr * np.sin(th), z])
            loc = np.vstack([loc, [0.0, 0.0, base["h"]], [0.0, 0.0, 0.0]])
        elif k == "ellipsoid":
            radii = arr(base["radii"])
            w = radii * ld
            u = np.vstack([_unit_rows(rs, n), w / vnorm(w)])
            loc = u * radii
        elif k == "box":
            s = arr(base["size"]) / 2
            u = rs.uniform(-1, 1, size=(n, 3))
            u[np.arange(n), rs.randint(0, 3, size=n)] = rs.choice([-1.0, 1.0], size=n)
            corners = np.array(list(itertools.product([-1.0, 0.0, 1.0], repeat=3)))
            loc = np.vstack([u, corners]) * s
        else:
            raise ValueError(k)
        pts = t + loc @ R.T
    if ms:
        mm = sum(ms)
        u = _unit_rows(rs, len(pts))
        u[::2] = du
        pts = np.vstack([pts + mm * u, pts[:8] + mm * du])
    return pts


def oracle_point(spec, d, p, sweep=200, seed=0, notes=None):
    """Property check of one answer p = support_function(d) of the real code. Returns violations."""
    bad = []
    d = arr(d)
    L = feature_L(spec)
    tm = REL * L
    tp = REL * L * max(1.0, vnorm(d))
    if p is None or not np.all(np.isfinite(arr(p))):
        return [{"observed": str(p), "expected": "a finite point", "oracle": "finite result"}]
    p = arr(p)
    dp = float(np.dot(d, p))
    h = support_value(spec, d)
    if abs(dp - h) > tp:
        bad.append({"observed": {"p": p.tolist(), "d.p": dp}, "expected": {"h(d)": h, "tol": tp},
                    "oracle": "analytic support value / brute force over vertices"})
    mem = member(spec, p, tm)
    if mem is False:
        bad.append({"observed": {"p": p.tolist()}, "expected": "point of the set within %g" % tm,
                    "oracle": "definition-level membership predicate"})
    base, ms = base_of(spec)
    if notes is not None and not ms and mem is not None:
        lc = lib_contains(base, p, tm)
        if lc is not None:
            notes["checked"] = notes.get("checked", 0) + 1
            if lc != mem:
                notes.setdefault(base["kind"], []).append({"spec": base, "p": p.tolist(), "lib": lc, "own": mem})
    if sweep:
        pts = surface_points(spec, d, sweep, seed)
        proj = pts @ d
        j = int(np.argmax(proj))
        if proj[j] > dp + tp:
            bad.append({"observed": {"p": p.tolist(), "d.p": dp},
                        "expected": {"point of the set": pts[j].tolist(), "projects to": float(proj[j]), "tol": tp},
                        "oracle": "surface sweep (%d points)" % len(pts)})
    return bad


_WARM = np.array([[0.36, 0.48, -0.8, 0.5], [-0.8, 0.6, 0.0, -1.0], [0.48, 0.64, 0.6, 2.0], [0.0, 0.0, 0.0, 1.0]])
POSE_KINDS = ("capsule", "ellipsoid", "cylinder", "cone", "box", "mesh")


def build_moved(spec, dirs, alias):
    """The object of `spec` obtained the other way the library offers: constructed at ANOTHER pose, asked the same
    directions there (so that anything a support function remembers is filled), then brought to the pose of `spec`
    with update_pose — with a fresh pose array, or (alias) by overwriting the pose array the collider was built from
    and handing it in again, as a caller that keeps one pose buffer does. Kinds without a pose matrix: build(spec)."""
    import copy
    base, _ms = base_of(spec)
    if base["kind"] in ("sphere", "disk", "ellipse"):
        # these classes are constructed from centre / normal / axes but moved with a 4x4 pose: the centre is its
        # translation, the disk normal its z column, the ellipse axes its x and y columns
        T = np.eye(4)
        T[:3, 3] = arr(base["c"])
        if base["kind"] == "disk":
            n = unit(arr(base["n"]))
            h = np.array([1.0, 0.0, 0.0]) if abs(n[0]) < 0.9 else np.array([0.0, 1.0, 0.0])
            x = unit(np.cross(h, n))
            T[:3, 0], T[:3, 1], T[:3, 2] = x, np.cross(n, x), n
        elif base["kind"] == "ellipse":
            ax = arr(base["axes"]).reshape(2, 3)
            T[:3, 0], T[:3, 1], T[:3, 2] = ax[0], ax[1], np.cross(ax[0], ax[1])
        wspec = copy.deepcopy(spec)
        wb, _ = base_of(wspec)
        W = _WARM.dot(T)
        wb["c"] = W[:3, 3].tolist()
        if base["kind"] == "disk":
            wb["n"] = W[:3, 2].tolist()
        elif base["kind"] == "ellipse":
            wb["axes"] = np.ascontiguousarray(W[:3, :2].T).ravel().tolist()
        obj = build(wspec)
        for d in dirs:
            if any(d):
                impl_support(obj, d)
        obj.update_pose(T.copy())
        return obj
    if base["kind"] not in POSE_KINDS:
        return build(spec)
    wspec = copy.deepcopy(spec)
    wb, _ = base_of(wspec)
    T = pose_of(base)
    wb["pose"] = _WARM.dot(T).ravel().tolist()
    obj = build(wspec)
    for d in dirs:
        if any(d):
            impl_support(obj, d)
    held = inner_obj(obj).collider2origin()
    if alias and isinstance(held, np.ndarray) and held.shape == (4, 4):
        held[...] = T
        obj.update_pose(held)
    else:
        obj.update_pose(T.copy())
    return obj


def oracle_job(spec, dirs, sweep=200, seed=0, notes=None, moved=None, start=None):
    """Oracle on a whole job: history of queries on ONE object, fresh-object queries, first_vertex, center.
    Returns a list of violations (dicts with function/args-extra/observed/expected/oracle).
    moved: None | "fresh" | "alias" — the object is brought to its pose by update_pose (build_moved)."""
    out = []
    base, ms = base_of(spec)
    kind = base["kind"]
    label = "Margin(%s)" % kind if ms else kind
    if moved:
        label += " after update_pose"
    L = feature_L(spec)
    obj = build_moved(spec, dirs, moved == "alias") if moved else build(spec)
    if start is not None and kind == "mesh":
        inner_obj(obj)._support_function.first_idx = int(start)   # the cached vertex a query history left behind
    vals = []
    for i, d in enumerate(dirs):
        if not any(d):
            vals.append(None)
            continue
        r = impl_support(obj, d)
        if not r["ok"] and r.get("err") == "noReturn":
            out.append({"function": "%s.support_function: no return" % ("MeshGraph" if kind == "mesh" else label),
                        "at": i, "observed": r, "expected": "a support point (the call must return)",
                        "oracle": "per-call watchdog (%g s)" % CALL_LIMIT_S})
            vals += [None] * (len(dirs) - i)
            break       # the object was interrupted in the middle of a call; do not go on with it
        if not r["ok"]:
            out.append({"function": "%s.support_function" % label, "at": i, "observed": r,
                        "expected": "a support point", "oracle": "no exception / NaN for a well-formed input"})
            vals.append(None)
            continue
        vals.append(float(np.dot(arr(d), arr(r["p"]))))
        for b in oracle_point(spec, d, r["p"], sweep, seed + i, notes):
            b.update({"function": "%s.support_function" % label, "at": i})
            out.append(b)
    if kind == "mesh":
        # history independence: same direction on a fresh object
        for i, d in enumerate(dirs):
            if vals[i] is None:
                continue
            r = impl_support(build(spec), d)
            tp = REL * L * max(1.0, vnorm(d))
            if r.get("err") == "noReturn":
                out.append({"function": "MeshGraph.support_function: no return", "at": i, "observed": r,
                            "expected": "a support point (the call must return)",
                            "oracle": "per-call watchdog (%g s)" % CALL_LIMIT_S})
                continue
            if not r["ok"] or abs(float(np.dot(arr(d), arr(r["p"]))) - vals[i]) > tp:
                out.append({"function": "MeshGraph.support_function", "at": i,
                            "observed": {"after history": vals[i], "fresh object": r},
                            "expected": "same support value within %g" % tp, "oracle": "history independence"})
    fresh = build(spec)
    for what, fn in (("first_vertex", fresh.first_vertex), ("center", fresh.center)):
        r = impl_point(fn)
        if not r["ok"]:
            out.append({"function": "%s.%s" % (label, what), "at": None, "observed": r, "expected": "a point",
                        "oracle": "no exception / NaN for a well-formed input"})
            continue
        mem = member(spec if not ms else base, r["p"], REL * L, vertex_ok=(what == "first_vertex"))
        if mem is False:
            out.append({"function": "%s.%s" % (label, what), "at": None, "observed": r["p"],
                        "expected": "point of the set within %g" % (REL * L),
                        "oracle": "definition-level membership predicate"})
    return out


# ------------------------------------------------------------------ regression inputs (fixed finding F-mesh-hill-climb-cycle)
_W_MESH = {"kind": "mesh", "pose": [[-0.10966894913031311, 0.6324592283517531, -0.7667907446424727, 19.28351920246887], [-0.6628226925221764, 0.5283434976440056, 0.5305838546120218, 4.759683153429734], [0.7407015592492736, 0.5664348797258196, 0.36126545248015485, -28.008247653780774], [0.0, 0.0, 0.0, 1.0]],
           "verts": [[-3.78512628971234, -16.601875570384927, 16.88597561025981], [-9.607604402191436, -17.408859556673708, 12.501779876495267], [-0.7345686878099724, -13.801944192192568, -21.587406053314755], [-24.40967886124935, 11.66998012168632, 1.4264037689047169], [10.395744034613372, -14.241016995489666, 18.402034053525597], [-23.97498950318238, 11.830048091421386, -3.8468143259886034], [21.494978728017855, 0.7137184386945459, -19.939179490073027], [26.673365097695786, 8.183461355926632, -5.239724659398261]],
           "tris": [[4, 7, 3], [4, 2, 1], [6, 4, 7], [6, 4, 2], [0, 1, 3], [0, 4, 3], [0, 4, 1], [5, 6, 2], [5, 1, 3], [5, 2, 1], [5, 7, 3], [5, 6, 7]]}
REGRESSION = [
    # found by the C09 search: gjk.gjk(Ellipse, MeshGraph) never returned; the hanging support call. Before repair
    # e900ae9 hill_climb_mesh_extreme went 5 -> 6 -> 2 -> 5 forever around the face orthogonal to d.
    {"id": "F-mesh-hill-climb-cycle/C09-witness", "spec": _W_MESH, "start": 5,
     "d": [8.714251772551416, -0.9657313965830795, -2.1248286835733947], "asis_model": None},
    # same mesh, same face, direction found for the Lean model: here the pre-repair code AND its Float model
    # (left-to-right dot; numpy's BLAS dot rounds differently, which is why the first witness does not cycle in the
    # model) both never converge: the driver must answer `err fuel` for C03.climb.asis with any fuel.
    {"id": "F-mesh-hill-climb-cycle/model-witness", "spec": _W_MESH, "start": 5,
     "d": [14.85783145216329, -1.6465755974241905, -3.622840752053705], "asis_model": "err fuel"},
]


def regression_search(ctx):
    """the witnesses of the fixed finding, run FIRST, each support call under the watchdog"""
    for w in REGRESSION:
        viol = oracle_job(w["spec"], [w["d"]], 200, 0, None, start=w["start"])
        ctx.count("search:regression", key="R" + w["id"])
        for v in viol:
            ctx.fail(v["function"], {"spec": w["spec"], "dirs": [w["d"]], "sweep_seed": 0, "at": v.get("at"),
                                     "moved": None, "start": w["start"], "regression": w["id"]},
                     v["observed"], v["expected"], v["oracle"])


def regression_correspondence(ctx):
    """the witnesses through the Float driver: the repaired model must return an index whose projection agrees with
    the implementation, the model of the code BEFORE the repair must run out of every fuel on the model witness"""
    drv = core.Driver("c03-R")
    plan = []
    for w in REGRESSION:
        spec = w["spec"]
        obj = build(spec)
        toks = enc_collider(spec, "F", obj)[1:]
        nv = len(spec["verts"])
        dt = enc_vec(w["d"], "F")
        a = drv.add("C03.climb", "F", toks + [str(w["start"]), str(nv)] + dt)
        b = drv.add("C03.climb.asis", "F", toks + [str(w["start"]), str(nv)] + dt)
        c = drv.add("C03.climb.asis", "F", toks + [str(w["start"]), "100000"] + dt)
        obj._support_function.first_idx = w["start"]
        plan.append((w, a, b, c, impl_support(obj, w["d"])))
    out = drv.run()
    for w, a, b, c, ir in plan:
        ctx.count("R:climb", key="RC" + w["id"])
        seed = {"spec": w["spec"], "dirs": [w["d"]], "start": w["start"], "regression": w["id"]}
        ta, tb, tc = (out.get(x, "bad missing") for x in (a, b, c))
        ctx.branch("climb-regression", "%s: fixed=%s asis(fuel n)=%s asis(fuel 1e5)=%s" % (
            w["id"].split("/")[1], ta.split()[0], " ".join(tb.split()[:2]), " ".join(tc.split()[:2])))
        t = ta.split()
        if len(t) != 4 or t[0] != "ok":
            ctx.broke("correspondence", "hill_climb_mesh_extreme (regression %s)" % w["id"],
                      "repaired model: %s" % ta[:80], seed)
            continue
        nv = len(w["spec"]["verts"])
        if int(t[3]) + 1 > nv:
            ctx.broke("link", "hillClimb_terminates_strictOrder", "model reports %s moves on %d vertices"
                      % (t[3], nv), seed)
        if not ir["ok"]:
            ctx.broke("correspondence", "hill_climb_mesh_extreme (regression %s)" % w["id"],
                      "implementation: %s, repaired model: %s" % (ir, ta), seed)
            continue
        V = arr(w["spec"]["verts"]).reshape(-1, 3)
        ld = pose_of(w["spec"])[:3, :3].T @ arr(w["d"])
        dv = abs(float(V[int(t[1])] @ ld) - float(V[ir["idx"]] @ ld))
        if dv > tol_proj(w["spec"], w["d"]):
            ctx.broke("correspondence", "hill_climb_mesh_extreme (regression %s)" % w["id"],
                      "projections differ by %.3g: impl idx %d, model idx %s" % (dv, ir["idx"], t[1]), seed)
        if w["asis_model"] is not None and not (tb.startswith(w["asis_model"]) and tc.startswith(w["asis_model"])):
            ctx.broke("link", "hillClimb_asIs_before_fix on the model witness",
                      "expected `%s` from the model of the code before e900ae9, got %r / %r" % (w["asis_model"], tb, tc),
                      seed)


# ------------------------------------------------------------------ correspondence
def exact_pose(rng):
    R = rng.choice(SP_ROT).copy()
    return R, make_pose(R, lattice_t(rng)).tolist()


def targeted(rng, fn, b):
    """a lattice job (exact pose) whose query hits branch b of model function fn; None if there is none"""
    R, pose = exact_pose(rng)
    s = lambda: rng.choice(LAT_SIZE)  # noqa
    mag = rng.choice([0.5, 1.0, 2.0])
    x, y = rng.choice([(1.0, 0.0), (0.0, -1.0), (1.0, 1.0), (-0.5, 2.0)])
    ld = None
    if fn == "sphere":
        return Job("T", {"kind": "sphere", "c": lattice_t(rng), "r": s()}, [[0.0, 0.0, 0.0] if b else lattice_dir(rng)],
                   True, single=True, q=True)
    if fn == "capsule":
        spec = {"kind": fn, "pose": pose, "r": s(), "h": s()}
        ld = {0: [x, y, rng.choice([0.0, -1.0])], 1: [x, y, 0.5], 2: [0.0, 0.0, 0.0]}.get(b)
    elif fn == "cylinder":
        spec = {"kind": fn, "pose": pose, "r": s(), "l": s()}
        ld = {0: [x, y, -1.0], 1: [x, y, rng.choice([0.0, 2.0])], 2: [0.0, 0.0, -mag], 3: [0.0, 0.0, mag]}.get(b)
    elif fn == "ellipsoid":
        spec = {"kind": fn, "pose": pose, "radii": [s(), s(), s()]}
        ld = {0: [x, y, 1.0], 1: [0.0, 0.0, 0.0]}.get(b)
    elif fn == "cone":
        r = s()
        spec = {"kind": fn, "pose": pose, "r": r, "h": r * rng.choice([1.0, 2.0])}
        ld = {0: [x, y, rng.choice([0.0, -1.0, 0.25])], 1: [x * 0.25, y * 0.25, 4.0], 2: [0.0, 0.0, -mag],
              3: [0.0, 0.0, mag]}.get(b)
    elif fn == "ellipse":
        spec = {"kind": fn, "c": lattice_t(rng), "axes": np.ascontiguousarray(R[:, :2].T).tolist(), "radii": [s(), s()]}
        ld = {0: [x, y, 1.0], 1: [0.0, 0.0, rng.choice([mag, -mag, 0.0])]}.get(b)
        return None if ld is None else Job("T", spec, [(frame_of(spec) @ arr(ld)).tolist()], True, single=True, q=True)
    elif fn == "disk":
        if b not in (0, 1, 2, 3):
            return None
        n = rng.choice([[0.0, 0.0, 1.0], [1.0, 0.0, 0.0], [0.0, 0.0, -1.0], [-1.0, 0.0, 0.0]] if b < 2 else
                       [[0.0, 1.0, 0.0], [0.0, -1.0, 0.0]])
        spec = {"kind": fn, "c": lattice_t(rng), "r": s(), "n": n}
        ld = [x, y, 1.0] if b % 2 == 0 else [0.0, 0.0, rng.choice([mag, -mag])]
        return Job("T", spec, [(frame_of(spec) @ arr(ld)).tolist()], True, single=True, q=True)
    elif fn == "box":
        spec = {"kind": fn, "pose": pose, "size": [s(), s(), s()]}
        if not 0 <= b < 8:
            return None
        ld = [(-1.0 if not (b >> 2) & 1 else 1.0) * mag, -1.0 if not (b >> 1) & 1 else 1.0, -2.0 if not b & 1 else 2.0]
    else:
        return None
    if ld is None:
        return None
    return Job("T", spec, [(R @ arr(ld)).tolist()], True, single=True, q=True)


def targeted_boxfn(run, rng, b):
    R, pose = exact_pose(rng)
    dg = [b % 3, (b // 3) % 3, b // 9]
    ld = arr([(g - 1) * rng.choice([0.5, 1.0, 2.0]) for g in dg])
    add_boxfn(run, rng, "T", pose, [rng.choice(LAT_SIZE) for _ in range(3)], (R @ ld).tolist(), True)


def unit_normals(rng, stream, n=0):
    if stream == "L":
        out = [[1.0, 0, 0], [0, 1.0, 0], [0, 0, 1.0], [-1.0, 0, 0], [0, -1.0, 0], [0, 0, -1.0],
               [0.6, 0.8, 0], [0.8, 0.6, 0], [0, 0.6, 0.8], [0, -0.8, 0.6], [0.6, 0, 0.8], [-0.8, 0, 0.6],
               [2 / 3, 2 / 3, 1 / 3], [2 / 3, -2 / 3, 1 / 3], [1 / 3, 2 / 3, 2 / 3], [2 / 3, 1 / 3, 2 / 3],
               [0.6, -0.6, math.sqrt(0.28)], [0.0, 0.0, 0.0]]
        return [[float(x) for x in n] for n in out]
    out = []
    for _ in range(max(12, n // 3)):
        v = [rng.gauss(0, 1) for _ in range(3)]
        r = rng.random()
        if r < 0.2:
            v[rng.randrange(3)] = 0.0
        elif r < 0.4:
            v[1] = rng.choice([-1, 1]) * v[0]
        out.append(unit(v).tolist())
    return out


def add_aux_cases(run, rng, stream, n):
    for _ in range(n):
        if stream == "L":
            R, exact = lattice_rotation(rng)
            pose = make_pose(R, lattice_t(rng))
            half = [rng.choice(LAT_SIZE) for _ in range(3)]
            spec = {"kind": "box", "pose": pose.tolist(), "size": half}
            d = gen_dirs(rng, "L", spec, 1)[0]
        else:
            exact = False
            pose = make_pose(general_rotation(rng), general_t(rng))
            half = [gsize(rng) for _ in range(3)]
            spec = {"kind": "box", "pose": pose.tolist(), "size": half}
            d = gen_dirs(rng, "G", spec, 1)[0]
        add_boxfn(run, rng, stream, pose, half, d, exact and all(simple_dyadic(x) for x in d))
    for nrm in unit_normals(rng, stream, n):
        add_planebasis(run, stream, nrm, stream == "L" and one_nonzero(nrm))
    for _ in range(max(4, n // 4)):
        v = lattice_dir(rng) if stream == "L" else general_dir(rng)
        if rng.random() < 0.15:
            v = [0.0, 0.0, 0.0]
        add_normvec(run, stream, v, stream == "L" and one_nonzero(v))
    for _ in range(max(4, n // 4)):
        v, tr, _lat = gen_mesh_shape(rng, stream)
        add_meshbuild(run, stream, {"verts": v, "tris": tr})


def stream_jobs(ctx, stream, n):
    rng = ctx.rng
    kinds = BASE_KINDS + ["mesh", "hull", "box", "cone", "cylinder"]
    for i in range(n):
        kind = kinds[i % len(kinds)]
        spec, exact = gen_spec(rng, stream, kind)
        spec = maybe_margin(rng, stream, spec)
        poly = kind in ("mesh", "hull", "box")
        k = rng.randint(3, 12) if poly else rng.randint(4, 8)
        dirs = gen_dirs(rng, stream, spec, k)
        if poly and rng.random() < 0.5:
            # interleave repeats so that the cached start vertex matters
            for _ in range(rng.randint(1, 3)):
                dirs.insert(rng.randrange(len(dirs) + 1), list(rng.choice(dirs)))
            dirs = dirs[:12]
        yield Job(stream, spec, dirs, exact, single=(not poly and i % 4 == 0), q=(exact and i % 2 == 0))


def malformed_jobs(ctx):
    rng = ctx.rng
    jobs = []
    z = [0.0, 0.0, 0.0]
    for kind in BASE_KINDS:
        for _ in range(2):
            spec, exact = gen_spec(rng, "L", kind)
            jobs.append(Job("M", spec, [z, lattice_dir(rng), z], exact, single=False, q=exact))
            jobs.append(Job("M", {"kind": "margin", "m": rng.choice([0.0, 0.5]), "inner": spec}, [z], exact,
                            single=True, q=exact))
    jobs.append(Job("M", {"kind": "hull", "verts": []}, [[1.0, 0.0, 0.0], z], True, single=True))
    jobs.append(Job("M", {"kind": "margin", "m": 0.5, "inner": {"kind": "hull", "verts": []}}, [[0.0, 2.0, 0.0]], True))
    jobs.append(Job("M", {"kind": "hull", "verts": [[1.0, 2.0, 3.0]]}, [[1.0, 0.0, 0.0], [-1.0, 0.5, 0.0]], True, q=True))
    for c in ([0.0, 0.0, 0.0], [1.0, -2.0, 0.5]):
        dsk = {"kind": "disk", "c": c, "r": 2.0, "n": z}
        jobs.append(Job("M", dsk, [[1.0, 0.0, 0.0], [0.0, 0.0, 1.0], z], True, single=True))
        jobs.append(Job("M", {"kind": "margin", "m": 0.5, "inner": dsk}, [[1.0, 1.0, 0.0]], True))
    for name in ("tetra", "cube", "octa", "icolat"):
        v, tr = base_mesh(name)
        for far, where in ((True, "end"), (False, "end"), (True, "front"), (False, "front")):
            extra = [rng.choice([3.0, 5.0]), rng.choice([-4.0, 4.0, 6.0]), 7.0] if far else [0.25, 0.125, -0.25]
            if where == "end":
                vv, tt = [list(p) for p in v] + [extra], [list(t) for t in tr]
            else:
                vv, tt = [extra] + [list(p) for p in v], [[i + 1 for i in t] for t in tr]
            R, pose = exact_pose(rng)
            spec = {"kind": "mesh", "pose": pose, "verts": vv, "tris": tt}
            dirs = [(R @ arr(extra)).tolist(), (R @ -arr(extra)).tolist(), lattice_dir(rng), (R @ arr(extra)).tolist(),
                    lattice_dir(rng)]
            jobs.append(Job("M", spec, dirs, True, q=True))
            jobs.append(Job("M", {"kind": "margin", "m": 0.5, "inner": spec}, dirs[:3], True))
    return jobs


def malformed_aux(run, ctx):
    rng = ctx.rng
    for _ in range(6):
        R, pose = exact_pose(rng)
        add_boxfn(run, rng, "M", pose, [rng.choice(LAT_SIZE) for _ in range(3)], [0.0, 0.0, 0.0], True)
    add_planebasis(run, "M", [0.0, 0.0, 0.0], True)
    add_normvec(run, "M", [0.0, 0.0, 0.0], True)
    v, tr = base_mesh("tetra")
    add_meshbuild(run, "M", {"verts": v, "tris": []})
    add_meshbuild(run, "M", {"verts": v + [[9.0, 9.0, 9.0]], "tris": tr})
    add_meshbuild(run, "M", {"verts": [[9.0, 9.0, 9.0]] + v, "tris": [[i + 1 for i in t] for t in tr]})


def low_branches(ctx, least=5):
    low = {}
    for fn, ids in EXPECTED_BRANCHES.items():
        have = ctx.branches.get(fn, {})
        miss = [b for b in ids if have.get(str(b), 0) < least]
        if miss:
            low[fn] = miss
    return low


def check_unimodal(ctx, job):
    """hypothesis `Unimodal` of hillClimb_global, evaluated exactly on lattice meshes: every vertex that is not
    within tau of the maximum has a neighbour that is better by more than tau"""
    from distance3d.mesh import PROJECTION_LENGTH_EPSILON as TAU
    base, _ = base_of(job.spec)
    V = arr(base["verts"]).reshape(-1, 3)
    nb = {}
    for t in base["tris"]:
        for a in t:
            nb.setdefault(a, set()).update(x for x in t if x != a)
    R = pose_of(base)[:3, :3]
    for d in job.dirs:
        vals = V @ (R.T @ arr(d))
        best = max(vals[i] for i in nb)
        for i in nb:
            ctx.extra["unimodal_checked"] = ctx.extra.get("unimodal_checked", 0) + 1
            if best - vals[i] > TAU and not any(vals[j] - vals[i] > TAU for j in nb[i]):
                ctx.broke("link", "Unimodal hypothesis of hillClimb_global",
                          "vertex %d (value %r, max %r) has no neighbour better by more than tau=%r for d=%s" % (
                              i, float(vals[i]), float(best), float(TAU), d),
                          job.seed())
                return


def correspondence(ctx):
    rng = ctx.rng
    ctx.extra.setdefault("ties", 0)
    regression_correspondence(ctx)
    chunk = 500
    for stream, n in (("L", ctx.budget(700, 10000)), ("G", ctx.budget(700, 10000))):
        run = Runner(ctx, stream)
        if stream == "L":
            for fn, ids in EXPECTED_BRANCHES.items():
                for b in ids:
                    if fn == "boxfn":
                        targeted_boxfn(run, rng, b)
                    elif fn != "planebasis":
                        job = targeted(rng, fn, b)
                        if job is not None:
                            job.stream = "L"
                            run.add(job)
        add_aux_cases(run, rng, stream, ctx.budget(120, 2400))
        for i, job in enumerate(stream_jobs(ctx, stream, n)):
            run.add(job)
            if base_of(job.spec)[0]["kind"] == "mesh":
                add_lean_mesh_checks(run, job)
            if job.exact and base_of(job.spec)[0]["kind"] == "mesh":
                check_unimodal(ctx, job)
            if (i + 1) % chunk == 0:
                run.run()
        run.run()
    run = Runner(ctx, "M")
    for job in malformed_jobs(ctx):
        run.add(job)
        add_lean_mesh_checks(run, job)
    malformed_aux(run, ctx)
    run.run()
    # coverage steering: aim at branch ids with few hits
    low = low_branches(ctx)
    if low:
        run = Runner(ctx, "T")
        for fn, miss in low.items():
            for b in miss:
                for _ in range(6):
                    if fn == "boxfn":
                        targeted_boxfn(run, rng, b)
                    elif fn == "planebasis":
                        add_planebasis(run, "T", [0.0, 0.0, 1.0] if b == 0 else [0.0, 1.0, 0.0], True)
                    else:
                        job = targeted(rng, fn, b)
                        if job is not None:
                            run.add(job)
        run.run()
    ctx.extra["unreached_branches"] = {fn: [b for b in ids if ctx.branches.get(fn, {}).get(str(b), 0) == 0]
                                       for fn, ids in EXPECTED_BRANCHES.items()
                                       if any(ctx.branches.get(fn, {}).get(str(b), 0) == 0 for b in ids)}
    ctx.extra["low_branches_before_steering"] = low


# ------------------------------------------------------------------ failing-input search (real code only)
def aux_oracle(seed):
    """property-level check of the auxiliary kernels (used by replay of correspondence seeds)"""
    fn = seed.get("fn")
    bad = []
    if fn == "support_function_box":
        from distance3d.geometry import support_function_box
        A, half, d = arr(seed["pose"]).reshape(4, 4), arr(seed["half"]), arr(seed["d"])
        if not np.any(d):
            return bad
        spec = {"kind": "box", "pose": A.tolist(), "size": (2 * half).tolist()}
        p = np.array(support_function_box(d, A, half), dtype=float)
        bad = oracle_point(spec, d, p, 200, 0)
    elif fn == "plane_basis_from_normal":
        from distance3d.utils import plane_basis_from_normal
        n = arr(seed["n"])
        if abs(vnorm(n) - 1.0) < 1e-9:
            with np.errstate(all="ignore"):
                x, y = plane_basis_from_normal(n)
            M = np.column_stack((x, y, n))
            if not np.allclose(M.T @ M, np.eye(3), atol=1e-9):
                bad.append({"observed": [list(x), list(y)], "expected": "orthonormal basis with n",
                            "oracle": "orthonormality"})
    elif fn == "norm_vector":
        from distance3d.utils import norm_vector
        v = arr(seed["v"])
        u = np.array(norm_vector(v), dtype=float)
        want = v / vnorm(v) if np.any(v) else v
        if not np.allclose(u, want, atol=1e-12):
            bad.append({"observed": u.tolist(), "expected": want.tolist(), "oracle": "v/|v|"})
    return bad


def search(ctx):
    rng = ctx.rng
    regression_search(ctx)
    n = ctx.budget(2500, 40000) * (3 if ctx.extra.get("search_boost") else 1)
    sweep = 200
    kinds = BASE_KINDS + ["mesh", "mesh", "cone", "cylinder", "capsule"]
    notes = {}
    nfail = 0
    for i in range(n):
        stream = "L" if i % 2 == 0 else "G"
        kind = kinds[i % len(kinds)]
        spec, _exact = gen_spec(rng, stream, kind)
        spec = maybe_margin(rng, stream, spec, 0.3)
        k = rng.randint(3, 12) if kind == "mesh" else rng.randint(4, 8)
        dirs = gen_dirs(rng, stream, spec, k)
        if kind == "mesh":
            target = list(rng.choice(dirs))
            for _ in range(rng.randint(1, 3)):
                dirs.insert(rng.randrange(len(dirs) + 1), target)
            dirs = dirs[:12]
        seed = rng.randrange(2 ** 31)
        moved = (None, None, "fresh", "alias")[i % 4] if base_of(spec)[0]["kind"] in POSE_KINDS + (
            "sphere", "disk", "ellipse") else None
        ctx.branch("collider-history", moved or "constructed-at-pose")
        viol = oracle_job(spec, dirs, sweep, seed, notes, moved=moved)
        ident = is_identity_pose(spec)
        ckey = " ".join(enc_collider(spec, "F"))
        for j, d in enumerate(dirs):
            ctx.count("search:" + stream, key="S" + ckey + " ".join(enc_vec(d, "F")) + "@%d" % j,
                      nontrivial=not (ident and axis_aligned(d)))
        for v in viol:
            nfail += 1
            if nfail <= 40:
                ctx.fail(v["function"], {"spec": spec, "dirs": dirs, "sweep_seed": seed, "at": v.get("at"), "moved": moved},
                         v["observed"], v["expected"], v["oracle"])
    needle_meshes(ctx)
    chk = notes.pop("checked", 0)
    ctx.extra["containment_test_crosschecks"] = chk
    dis = {k: len(v) for k, v in notes.items()}
    ctx.extra["containment_test_disagreements"] = dis
    if dis:
        ex = {k: v[0] for k, v in notes.items()}
        ctx.notes.append("distance3d.containment_test (property C13) disagrees with the C03 membership predicate on "
                         "support points (sizes inflated by 1e-9*L): %s; first examples: %s" % (dis, core.jsonable(ex)))
    ctx.notes.append("Margin: point membership is checked where the distance to the inner set is elementary (sphere, "
                     "capsule, box, cylinder, disk); for the other inner shapes only the support value h_K(d)+m|d| and "
                     "the surface sweep are checked")


def needle_meshes(ctx):
    """slender, finely tessellated convex meshes (a spindle of ~900 vertices, 100 : 0.3): the hill climb has to walk
    hundreds of edges; judged against the brute-force maximum over the vertices (light oracle, no model)"""
    from scipy.spatial import ConvexHull
    from distance3d import colliders as C
    rng = ctx.rng
    for k in range(ctx.budget(2, 12)):
        m, per = rng.choice([300, 400]), 3
        half, rad = 50.0, 0.15
        V = [[half, 0.0, 0.0], [-half, 0.0, 0.0]]
        for i in range(1, m + 1):
            th = math.pi * i / (m + 1)               # rings uniform in the polar angle: a point cloud of an ellipsoid
            for jj in range(per):
                a = 2 * math.pi * jj / per + (i % 2) * math.pi / per
                V.append([half * math.cos(th), rad * math.sin(th) * math.cos(a), rad * math.sin(th) * math.sin(a)])
        V = np.array(V)
        hull = ConvexHull(V)
        keep = np.unique(hull.simplices)
        remap = -np.ones(len(V), dtype=int)
        remap[keep] = np.arange(len(keep))
        V, T = V[keep], remap[hull.simplices]
        A = make_pose(general_rotation(rng), general_t(rng))
        mesh = C.MeshGraph(A, np.ascontiguousarray(V), np.ascontiguousarray(T))
        W = V.dot(A[:3, :3].T) + A[:3, 3]
        for q in range(6):
            # directions whose extreme vertex lies part of the way along the spindle (nearly across the axis)
            th, ph = rng.choice([0.25, 0.75, 0.3, 0.6, 0.4]) * math.pi, rng.uniform(0, 2 * math.pi)
            d = A[:3, :3].dot(unit(np.array([math.cos(th) / 50.0, math.sin(th) * math.cos(ph) / 0.15,
                                             math.sin(th) * math.sin(ph) / 0.15])))
            r = impl_support(mesh, d.tolist())
            ctx.count("search:needle-mesh", key=("needle", k, q))
            best = float(np.max(W.dot(d)))
            tol = REL * 100.0
            if not r["ok"] or float(np.dot(d, arr(r["p"]))) < best - tol:
                ctx.fail("mesh.support_function", {"needle_mesh": {"rings": int(m), "per_ring": per, "pose": A.tolist()},
                                                   "direction": d.tolist(), "query": q},
                         r if not r["ok"] else {"d.p": float(np.dot(d, arr(r["p"])))},
                         "brute-force maximum over the %d vertices: %r (tolerance %g)" % (len(V), best, tol),
                         "brute force over the vertices of a slender convex mesh")
                return


# ------------------------------------------------------------------ replay
def replay(ctx, payload):
    cases, aux = [], []
    args = payload.get("args") or {}
    if isinstance(args, dict) and "needle_mesh" in args:
        from scipy.spatial import ConvexHull
        from distance3d import colliders as C
        nm = args["needle_mesh"]
        m, per, half, rad = int(nm["rings"]), int(nm["per_ring"]), 50.0, 0.15
        V = [[half, 0.0, 0.0], [-half, 0.0, 0.0]]
        for i in range(1, m + 1):
            th = math.pi * i / (m + 1)
            for jj in range(per):
                a = 2 * math.pi * jj / per + (i % 2) * math.pi / per
                V.append([half * math.cos(th), rad * math.sin(th) * math.cos(a), rad * math.sin(th) * math.sin(a)])
        V = np.array(V)
        hull = ConvexHull(V)
        keep = np.unique(hull.simplices)
        remap = -np.ones(len(V), dtype=int)
        remap[keep] = np.arange(len(keep))
        V, T = V[keep], remap[hull.simplices]
        A = np.array(nm["pose"], dtype=float)
        mesh = C.MeshGraph(A, np.ascontiguousarray(V), np.ascontiguousarray(T))
        d = np.array(args["direction"], dtype=float)
        r = impl_support(mesh, d.tolist())
        best = float(np.max((V.dot(A[:3, :3].T) + A[:3, 3]).dot(d)))
        got = float(np.dot(d, arr(r["p"]))) if r["ok"] else None
        print("needle mesh (%d vertices): support value %r, brute-force maximum %r" % (len(V), got, best))
        return bool(r["ok"] and got >= best - REL * 100.0)
    if isinstance(args, dict) and "spec" in args:
        cases.append((args["spec"], args["dirs"], args.get("sweep_seed", 0), args.get("moved"), args.get("start")))
    for o in payload.get("others", []) or []:
        a = o.get("args") or {}
        if "spec" in a:
            cases.append((a["spec"], a["dirs"], a.get("sweep_seed", 0), a.get("moved"), a.get("start")))
    if not cases:
        for b in payload.get("broken", []) or []:
            si = b.get("seed_input")
            if isinstance(si, dict) and "spec" in si:
                cases.append((si["spec"], si["dirs"], 0, None, si.get("start")))
            elif isinstance(si, dict) and "fn" in si:
                aux.append(si)
    if not cases and not aux:
        print("replay file names no input:", payload.get("broken"))
        return False
    ok = True
    for spec, dirs, seed, moved, start in cases:
        try:
            viol = oracle_job(spec, [[float(x) for x in d] for d in dirs], 400, seed, moved=moved, start=start)
        except Exception as e:  # noqa
            print("FAIL cannot evaluate %s: %r" % (spec.get("kind"), e))
            ok = False
            continue
        for v in viol:
            ok = False
            print("FAIL %s query %s d=%s: observed %s expected %s [%s]" % (
                v["function"], v.get("at"), dirs[v["at"]] if v.get("at") is not None else None,
                str(v["observed"])[:300], str(v["expected"])[:300], v["oracle"]))
    for si in aux:
        for v in aux_oracle(si):
            ok = False
            print("FAIL %s: observed %s expected %s [%s]" % (si["fn"], str(v["observed"])[:300],
                                                              str(v["expected"])[:300], v["oracle"]))
    if ok:
        print("oracle passes on %d collider case(s), %d kernel case(s)" % (len(cases), len(aux)))
    return ok
