"""C14 — a collider after update_pose behaves like a freshly built one at that pose.

correspondence: the Lean state machine (D3/Model/ColliderState.lean: every collider class as a
record of its cached fields with numba layout tags, engine as a parameter) is executed by the
driver on the same op sequence as the real class, in BOTH engines (interpreted in-process, JIT
in one subprocess): cached fields (pose copies/slices with their layouts, Box.vertices,
MeshGraph first_idx) after every op, ok/TypeError status of every op, and the closed-form
observations written inside colliders.py.
search/oracle (independent of the model): after every op a fresh collider of the same shape is
built at the last pose and asked the same question; any difference beyond the property's
tolerance or any exception in a call whose pose was a C-contiguous float64 4x4 array is a
violation.
"""
import itertools
import json
import math

import numpy as np

import core
from core import f2h, h2f

RULE = ("one case = one collider (Box, Sphere, Capsule, Ellipsoid, Cylinder, Disk, Ellipse, Cone, MeshGraph with a small "
        "convex mesh, each possibly wrapped in one or two Margins) built at a pose plus a random sequence of "
        "update_pose / support_function / aabb / center / first_vertex / collider2origin / gjk(collider, fixed sphere) "
        "calls, drawn from one PRNG; poses are fresh arrays, items of one C-contiguous (n,4,4) stack or arrays returned by a pytransform3d TransformManager; lattice stream "
        "(signed axis permutations, dyadic offsets/sizes/directions incl. ties and the zero direction: compared "
        "exactly), general stream (random rotations, sizes 1e-2..1e2, offsets to 1e3: compared at 1e-12*scale), "
        "malformed stream (Fortran-ordered / strided poses, strided directions and size arrays: compared on the error "
        "enum only, outside the property's domain); every case is run in the interpreted and (a subset) in the JIT "
        "engine; a case is non-trivial if it has >= 1 update_pose followed by >= 1 query; distinct = distinct case")
EXPLANATION = ("update_refines_fresh / cache_invariant / no_typeErr_contiguous_pose are proved for the Lean state machine "
               "with the geometric kernels as parameters; this run executes that state machine (driver) on the same "
               "histories as the real classes in both engines and compares cached fields, layouts and ok/TypeError "
               "per call; independently every observation is compared with a freshly constructed collider")
PARTIAL = {
    "update_refines_fresh (MeshGraph.support_function)":
        "proved up to the hill-climbing start index (runFresh threads it). Linked to C03 in D3.C14Link: C14's mesh "
        "support IS C03's meshCall (meshSupport_is_meshCall); under C03's Unimodal EPS 0 with a unique maximiser the "
        "climb is start independent (hillClimb_startIndependent_of_unique) and run = runFreshPlain "
        "(update_refines_fresh_mesh_unique); without uniqueness only the value-level link holds (support_values_close, "
        "mesh_support_vertices_close). Unimodal and the unique maximiser stay hypotheses as in C03; exact index "
        "equality is false under ties",
    "no_exception_contiguous_pose (MeshGraph) (closed)":
        "closed in D3.C14Link: for the kernel whose hill climb is C03's model, on MeshWF data with a valid start (or "
        "raw TrianglesOk via mesh_build_wf) every call of every history returns normally "
        "(no_exception_contiguous_pose_mesh/_mesh_raw/_on); the old HillClimbTotal hypothesis (false for the real "
        "kernel on malformed meshes) is no longer used; unconditional for all other classes as before",
}
ASSUMPTIONS = [
    "arrays are values: nobody writes into a pose array after passing it to update_pose/the constructor (most classes "
    "keep the caller's array itself; see the aliasing note in D3/Model/ColliderState.lean)",
    "the support/AABB kernels, plane_basis_from_normal, hill climbing, np.mean, np.argmax are parameters of the model "
    "(total functions of the cached fields; C03/C04 model their insides); the hill-climb result is taken from the "
    "implementation's trace in the correspondence run",
    "MeshGraph: equality with a fresh collider holds up to the hill-climbing start index (update_refines_fresh threads "
    "it; full equality is conditional on start-independence of the hill climb, C03); the oracle therefore compares "
    "the support VALUE d.p within 1e-9*L for meshes, and GJK distances of meshes within 2e-5*L (two answers that are "
    "each within C01's 1e-5*L of the true distance; observed differences are ~1e-9)",
    "artists are None (the set_data lines of update_pose are not exercised)",
]
TRUSTED = ["colliders.py is modelled class by class (constructor, update_pose, the five query methods, Margin delegation, "
           "ConvexHullVertices.update_pose); of mesh.py the state of MeshHillClimbingSupportFunction; of geometry.py "
           "convert_box_to_vertices and the typed signatures (which array arguments must be C-contiguous)",
           "numba's dispatch rule for explicit signatures (TypeError on a layout mismatch, no recompilation) is modelled "
           "by typedCall, and checked against the real dispatcher by the JIT engine run"]

MANIFEST = dict(
    text=("Lean theorems update_refines_fresh (all classes with update_pose, Margin-wrapped to any depth, every history of "
          "update_pose/support/aabb/center/first_vertex/collider2origin: outputs equal those on colliders built afresh at "
          "the last pose; MeshGraph up to the hill-climbing start index, unconditionally for the four non-support "
          "queries and under start-independence for support), cache_invariant / box_vertices_current, "
          "no_typeErr_contiguous_pose and no_exception_contiguous_pose (JIT, contiguous poses), counterexample theorems "
          "disk_/ellipse_asIs_before_fix_typeErr for the code before the repair commit; the state machine is executed on "
          "the histories run on the real classes in both engines (cached fields, layouts, ok/TypeError per call); "
          "fresh-object differential oracle on the real code incl. gjk against a fixed sphere."),
    note=("trusted: Lean kernel + Mathlib, axioms propext/Classical.choice/Quot.sound; geometric kernels are parameters "
          "(the theorems hold whatever they compute); numba's typed dispatch modelled by layout tags; arrays as values "
          "(no claim about callers mutating a pose array afterwards); correspondence harness (sampling, both engines)."),
    technique="Lean 4 proof by history induction on a state-machine model with layout tags + two-engine correspondence + fresh-object differential",
    design="§7 C14")

PRIMS = ["box", "sphere", "capsule", "ellipsoid", "cylinder", "disk", "ellipse", "cone", "mesh"]
GJK_SPHERE = ([0.5, 0.25, -0.125], 0.5)


# ------------------------------------------------------------------ generation
def _perms():
    out = []
    for p in itertools.permutations(range(3)):
        for sg in itertools.product([1.0, -1.0], repeat=3):
            M = np.zeros((3, 3))
            for i in range(3):
                M[i, p[i]] = sg[i]
            if round(np.linalg.det(M)) == 1:
                out.append(M)
    return out


PERMS = _perms()
DY = [-2.0, -1.0, -0.5, 0.0, 0.25, 0.5, 1.0, 1.5, 2.0, 3.0]
DYPOS = [0.25, 0.5, 1.0, 1.5, 2.0]


def rand_rot(rng):
    q = np.array([rng.gauss(0, 1) for _ in range(4)])
    q /= np.linalg.norm(q)
    w, x, y, z = q
    return np.array([[1 - 2 * (y * y + z * z), 2 * (x * y - z * w), 2 * (x * z + y * w)],
                     [2 * (x * y + z * w), 1 - 2 * (x * x + z * z), 2 * (y * z - x * w)],
                     [2 * (x * z - y * w), 2 * (y * z + x * w), 1 - 2 * (x * x + y * y)]])


def gen_pose(rng, stream, malformed=False):
    M = np.eye(4)
    if stream == "L":
        M[:3, :3] = rng.choice(PERMS)
        M[:3, 3] = [rng.choice(DY) for _ in range(3)]
    else:
        M[:3, :3] = rand_rot(rng)
        M[:3, 3] = np.array([rng.uniform(-1, 1) for _ in range(3)]) * 10 ** rng.uniform(-1, 3)
    # "reuse": one 4x4 buffer per case, overwritten in place before every update_pose (a caller that keeps a
    # pose buffer); the collider may keep a reference to it, so an "unchanged pose" shortcut comparing against
    # the stored reference would compare the buffer with itself
    kind = rng.choice(["fresh", "stack", "stack", "tm", "reuse"])
    if malformed and rng.random() < 0.6:
        kind = rng.choice(["fortran", "strided"])
    return {"M": M.tolist(), "kind": kind}


def gen_dir(rng, stream, malformed=False):
    if stream == "L":
        d = [rng.choice([-1.0, 0.0, 1.0, 0.5, 2.0, 0.0]) for _ in range(3)]
    else:
        d = [rng.gauss(0, 1) for _ in range(3)]
    lay = "A" if (malformed and rng.random() < 0.4) else "C"
    return d, lay


CUBE_V = [[x, y, z] for x in (-0.5, 0.5) for y in (-0.5, 0.5) for z in (-0.5, 0.5)]
CUBE_T = [[0, 1, 3], [0, 3, 2], [4, 6, 7], [4, 7, 5], [0, 4, 5], [0, 5, 1], [2, 3, 7], [2, 7, 6],
          [0, 2, 6], [0, 6, 4], [1, 5, 7], [1, 7, 3]]
TETRA_V = [[0.0, 0.0, 0.0], [1.0, 0.0, 0.0], [0.0, 1.0, 0.0], [0.0, 0.0, 1.0]]
TETRA_T = [[0, 2, 1], [0, 1, 3], [0, 3, 2], [1, 2, 3]]


def gen_mesh(rng, stream):
    r = rng.random()
    if stream == "L" or r < 0.3:
        if rng.random() < 0.6:
            s = rng.choice(DYPOS)
            return [[c * 2 * s for c in v] for v in CUBE_V], CUBE_T
        return [list(v) for v in TETRA_V], TETRA_T
    from distance3d.mesh import make_convex_mesh
    n = rng.choice([6, 8, 12])
    scale = 10 ** rng.uniform(-1, 1)
    V = np.array([[rng.gauss(0, 1) * scale for _ in range(3)] for _ in range(n)])
    T = make_convex_mesh(V)
    return V.tolist(), np.asarray(T).astype(int).tolist()


def gen_shape(rng, stream, malformed=False, cls=None):
    cls = cls or rng.choice(PRIMS)

    def sz():
        return rng.choice(DYPOS) if stream == "L" else 10 ** rng.uniform(-2, 2)

    lay = "A" if (malformed and rng.random() < 0.4) else "C"
    if cls == "box":
        sh = {"cls": "box", "size": [sz(), sz(), sz()], "lay": lay}
    elif cls == "sphere":
        sh = {"cls": "sphere", "r": sz()}
    elif cls in ("capsule", "cylinder", "cone"):
        sh = {"cls": cls, "r": sz(), "h": sz()}
    elif cls == "ellipsoid":
        sh = {"cls": "ellipsoid", "radii": [sz(), sz(), sz()], "lay": lay}
    elif cls == "disk":
        sh = {"cls": "disk", "r": sz()}
    elif cls == "ellipse":
        sh = {"cls": "ellipse", "radii": [sz(), sz()], "lay": lay}
    else:
        V, T = gen_mesh(rng, stream)
        sh = {"cls": "mesh", "V": V, "T": T}
    k = rng.random()
    nm = 0 if k < 0.65 else (1 if k < 0.93 else 2)
    for _ in range(nm):
        sh = {"cls": "margin", "m": (rng.choice([0.25, 0.5, 0.0]) if stream == "L" else 10 ** rng.uniform(-3, 0)),
              "inner": sh}
    return sh


QUERIES = ["s", "a", "c", "f", "o", "g"]


def gen_case(rng, stream, cls=None, with_gjk=True, nops=None):
    malformed = stream == "M"
    base = "L" if (stream == "L" or (malformed and rng.random() < 0.5)) else "G"
    shape = gen_shape(rng, base, malformed, cls)
    ops = []
    n = nops or rng.choice([3, 5, 8, 12])
    dirs = []
    for k in range(n):
        r = rng.random()
        if r < 0.35 or k == 0:
            ops.append({"op": "u", "pose": gen_pose(rng, base, malformed)})
        else:
            q = rng.choice(QUERIES if with_gjk else QUERIES[:5])
            if q == "s":
                # half of the support queries repeat a direction asked earlier in the history (before an update):
                # an answer remembered per direction must not survive update_pose
                if dirs and rng.random() < 0.5:
                    d, lay = rng.choice(dirs)
                else:
                    d, lay = gen_dir(rng, base, malformed)
                    dirs.append((d, lay))
                ops.append({"op": "s", "d": d, "lay": lay})
            else:
                ops.append({"op": q})
    # every history ends with the full battery so that the last update is always observed
    if dirs and rng.random() < 0.5:
        d, lay = rng.choice(dirs)
    else:
        d, lay = gen_dir(rng, base, malformed)
    ops += [{"op": "s", "d": d, "lay": lay}, {"op": "f"}, {"op": "a"}, {"op": "c"}, {"op": "o"}]
    if with_gjk:
        ops.append({"op": "g"})
    case = {"stream": stream, "base": base, "shape": shape, "pose0": gen_pose(rng, base, malformed), "ops": ops}
    if base == "G" and not malformed and rng.random() < 0.2:
        # creeping motion far from the origin: the whole history lives at coordinates of a few hundred units and
        # consecutive poses differ by translation steps of 1e-5 … 1e-7 of the coordinates (a slow conveyor, a simulation
        # step): a pose update that is skipped because "nothing changed" relative to the size of the entries is visible
        off = np.array([rng.choice([-1, 1]) * rng.uniform(150, 600) for _ in range(3)])
        M = np.array(case["pose0"]["M"], dtype=float)
        M[:3, 3] = off
        case["pose0"]["M"] = M.tolist()
        for o in ops:
            if o["op"] == "u":
                M = M.copy()
                M[:3, 3] += np.abs(off) * np.array([rng.uniform(-1, 1) for _ in range(3)]) * 10 ** rng.uniform(-7, -5.2)
                o["pose"]["M"] = M.tolist()
        case["far"] = True
    # a second collider constructed from the very same arrays (pose matrix / centre / normal / axes objects); it is moved
    # elsewhere after every update of the collider under test (`[Disk(c, r, normal) for c in centers]`)
    case["sibling"] = (not malformed) and rng.random() < 0.25
    return case


def inner_cls(shape):
    while shape["cls"] == "margin":
        shape = shape["inner"]
    return shape["cls"]


# ------------------------------------------------------------------ implementation side
def layout(a):
    if a.flags.c_contiguous:
        return "C"
    if a.flags.f_contiguous:
        return "F"
    return "A"


def err_name(e):
    for t, n in ((TypeError, "typeErr"), (IndexError, "indexOOB"), (KeyError, "keyError"),
                 (NotImplementedError, "notImplemented"), (AssertionError, "assertFail"), (ValueError, "badInput"),
                 (AttributeError, "attrErr"), (ZeroDivisionError, "divZero")):
        if isinstance(e, t):
            return n
    return "exc:" + type(e).__name__


def strided_vec(v):
    """1-D view with a stride of two elements (numba layout 'A')"""
    big = np.zeros((len(v), 2))
    big[:, 0] = v
    return big[:, 0]


def vec_arr(v, lay):
    return strided_vec(v) if lay == "A" else np.array(v, dtype=float)


class PoseSource:
    """poses of one case: fresh arrays, items of ONE C-contiguous (n,4,4) stack (what pytransform3d's
    TransformManager hands out), or (malformed stream) Fortran-ordered / strided 4x4 views"""

    def __init__(self, case):
        mats = [case["pose0"]] + [o["pose"] for o in case["ops"] if o["op"] == "u"]
        st = [p["M"] for p in mats if p["kind"] == "stack"]
        self.stack = np.array(st, dtype=float).reshape(-1, 4, 4) if st else None
        self.k = 0
        self.buf = np.eye(4)

    def get(self, p):
        M = np.array(p["M"], dtype=float)
        if p["kind"] == "fresh":
            return M
        if p["kind"] == "reuse":
            self.buf[...] = M
            return self.buf
        if p["kind"] == "stack":
            a = self.stack[self.k]
            self.k += 1
            return a
        if p["kind"] == "tm":
            # what pytransform3d's TransformManager hands out for a two-edge path (identity second edge: same entries)
            from pytransform3d.transform_manager import TransformManager
            tm = TransformManager(check=False)
            tm.add_transform("collider", "mid", M)
            tm.add_transform("mid", "world", np.eye(4))
            return tm.get_transform("collider", "world")
        if p["kind"] == "fortran":
            return np.asfortranarray(M)
        big = np.zeros((5, 5))
        big[:4, :4] = M
        return big[:4, :4]


def build(shape, P, fresh=False, rng_bit=0, share=None):
    """the constructor call that places `shape` at pose array P (as `atPose` in the Lean model:
    Sphere gets the view P[:3, 3] like broad_phase.py does, Disk/Ellipse contiguous copies of the slices);
    fresh=True: the oracle's object (its own arrays; Sphere alternately from a copy);
    share: dict filled by the first call and read by the second one, so that two colliders are constructed from
    the SAME array objects"""
    from distance3d import colliders as C
    cls = shape["cls"]
    if cls == "margin":
        return C.Margin(build(shape["inner"], P, fresh, rng_bit, share), shape["m"])
    if share is not None and cls in ("disk", "ellipse"):
        if cls not in share:
            share[cls] = (np.ascontiguousarray(P[:3, 3]), np.ascontiguousarray(P[:3, 2]) if cls == "disk"
                          else np.ascontiguousarray(P[:3, :2].T), vec_arr(shape["radii"], shape["lay"]) if cls == "ellipse" else None)
        c_, a_, r_ = share[cls]
        if cls == "disk":
            return C.Disk(c_, shape["r"], a_)
        return C.Ellipse(c_, a_, r_)
    if cls == "box":
        return C.Box(P, vec_arr(shape["size"], shape["lay"]))
    if cls == "sphere":
        c = P[:3, 3].copy() if (fresh and rng_bit) else P[:3, 3]
        return C.Sphere(c, shape["r"])
    if cls == "capsule":
        return C.Capsule(P, shape["r"], shape["h"])
    if cls == "cylinder":
        return C.Cylinder(P, shape["r"], shape["h"])
    if cls == "cone":
        return C.Cone(P, shape["r"], shape["h"])
    if cls == "ellipsoid":
        return C.Ellipsoid(P, vec_arr(shape["radii"], shape["lay"]))
    if cls == "disk":
        return C.Disk(np.ascontiguousarray(P[:3, 3]), shape["r"], np.ascontiguousarray(P[:3, 2]))
    if cls == "ellipse":
        return C.Ellipse(np.ascontiguousarray(P[:3, 3]), np.ascontiguousarray(P[:3, :2].T),
                         vec_arr(shape["radii"], shape["lay"]))
    if cls == "mesh":
        return C.MeshGraph(P, np.array(shape["V"], dtype=float), np.array(shape["T"], dtype=int))
    raise ValueError(cls)


def arr_dump(a):
    a = np.asarray(a)
    return [layout(a), np.array(a, dtype=float).ravel().tolist()]


def dump(c):
    """the cached fields the object holds right now (with the numba layout of every array)"""
    n = type(c).__name__
    if n == "Margin":
        return {"cls": "margin", "inner": dump(c.collider)}
    if n == "Box":
        return {"cls": "box", "pose": arr_dump(c.box2origin), "size": arr_dump(c.size),
                "vertices": np.array(c.vertices, dtype=float).ravel().tolist()}
    if n == "Sphere":
        return {"cls": "sphere", "c": arr_dump(c.c)}
    if n == "Capsule":
        return {"cls": "capsule", "pose": arr_dump(c.capsule2origin)}
    if n == "Cylinder":
        return {"cls": "cylinder", "pose": arr_dump(c.cylinder2origin)}
    if n == "Cone":
        return {"cls": "cone", "pose": arr_dump(c.cone2origin)}
    if n == "Ellipsoid":
        return {"cls": "ellipsoid", "pose": arr_dump(c.ellipsoid2origin), "radii": arr_dump(c.radii)}
    if n == "Disk":
        return {"cls": "disk", "c": arr_dump(c.c), "normal": arr_dump(c.normal)}
    if n == "Ellipse":
        return {"cls": "ellipse", "c": arr_dump(c.c), "axes": arr_dump(c.axes)}
    if n == "MeshGraph":
        return {"cls": "mesh", "pose": arr_dump(c.mesh2origin), "sfpose": arr_dump(c._support_function.mesh2origin),
                "first_idx": int(c._support_function.first_idx)}
    raise ValueError(n)


def mesh_of(c):
    while type(c).__name__ == "Margin":
        c = c.collider
    return c if type(c).__name__ == "MeshGraph" else None


class Rec:
    """recording proxy (no repo change): logs every support_function call GJK makes"""

    def __init__(self, c):
        self.c = c
        self.calls = []
        self.mesh = mesh_of(c)

    def support_function(self, d):
        rec = {"d": np.array(d, dtype=float).tolist(), "lay": layout(d), "err": None, "idx": -1}
        self.calls.append(rec)
        try:
            p = self.c.support_function(d)
        except Exception as e:  # noqa
            rec["err"] = err_name(e)
            raise
        finally:
            if self.mesh is not None:
                rec["idx"] = int(self.mesh._support_function.first_idx)
        return p

    def first_vertex(self):
        return self.c.first_vertex()

    def center(self):
        return self.c.center()


def do_query(c, op, sphere):
    """returns (value as nested lists / None, extra)"""
    k = op["op"]
    if k == "s":
        return np.array(c.support_function(vec_arr(op["d"], op["lay"])), dtype=float).tolist(), None
    if k == "a":
        return np.array(c.aabb(), dtype=float).tolist(), None
    if k == "c":
        return np.array(c.center(), dtype=float).tolist(), None
    if k == "f":
        return np.array(c.first_vertex(), dtype=float).tolist(), None
    if k == "o":
        return np.array(c.collider2origin(), dtype=float).tolist(), None
    if k == "g":
        from distance3d import gjk
        rec = Rec(c)
        try:
            res = gjk.gjk(rec, sphere)
        except Exception as e:  # noqa
            e._c14_calls = rec.calls
            raise
        dist, p1, p2 = res[0], res[1], res[2]
        val = {"dist": float(dist), "p1": None if p1 is None else np.array(p1, dtype=float).tolist(),
               "p2": None if p2 is None else np.array(p2, dtype=float).tolist()}
        return val, rec.calls
    raise ValueError(k)


def impl_run(case):
    """Run one case on the real classes in THIS interpreter's engine. Per step: status, value, cached fields,
    and the same question asked of a freshly constructed collider at the last pose."""
    from distance3d import colliders as C
    if case.get("hull"):
        h = C.ConvexHullVertices(np.array(TETRA_V, dtype=float))
        try:
            h.update_pose(np.eye(4))
            return {"hull": "no exception"}
        except Exception as e:  # noqa
            return {"hull": err_name(e)}
    src = PoseSource(case)
    sphere = C.Sphere(np.array(GJK_SPHERE[0], dtype=float), GJK_SPHERE[1])
    P0 = src.get(case["pose0"])
    lastM = case["pose0"]["M"]
    sib = None
    try:
        if case.get("sibling"):
            cache = {}
            c = build(case["shape"], P0, share=cache)
            try:
                sib = build(case["shape"], P0, share=cache)
            except Exception:  # noqa
                sib = None
        else:
            c = build(case["shape"], P0)
    except Exception as e:  # noqa
        return {"ctor_err": err_name(e), "msg": str(e)[:200], "steps": []}
    steps = [{"op": "new", "err": None, "val": None, "fields": dump(c), "m": mesh_of(c) is not None}]
    for k, op in enumerate(case["ops"]):
        st = {"op": op["op"], "err": None, "msg": None, "val": None, "calls": None, "fresh": None}
        if op["op"] == "u":
            P = src.get(op["pose"])
            lastM = op["pose"]["M"]
            st["pose_lay"] = layout(P)
            st["pose_same"] = bool(np.array_equal(np.asarray(P), np.array(lastM, dtype=float)))
            try:
                c.update_pose(P)
            except Exception as e:  # noqa
                st["err"], st["msg"] = err_name(e), str(e)[:200]
            if sib is not None:
                # the sibling goes somewhere else (its own fresh pose array)
                Q = np.array(lastM, dtype=float)
                Q[:3, 3] += [1.0 + k, -2.0, 3.0]
                Q[:3, :3] = Q[:3, :3].dot(np.array([[0.0, -1.0, 0.0], [1.0, 0.0, 0.0], [0.0, 0.0, 1.0]]))
                try:
                    sib.update_pose(Q)
                except Exception:  # noqa
                    pass
        else:
            mesh = mesh_of(c)
            try:
                st["val"], st["calls"] = do_query(c, op, sphere)
            except Exception as e:  # noqa
                st["err"], st["msg"] = err_name(e), str(e)[:200]
                st["calls"] = getattr(e, "_c14_calls", None)
            if mesh is not None:
                st["idx"] = int(mesh._support_function.first_idx)
            # the oracle's reference: a brand-new collider at the last pose, same question
            fr = {"err": None, "val": None}
            try:
                f = build(case["shape"], np.array(lastM, dtype=float), fresh=True, rng_bit=k % 2)
                fr["val"], _ = do_query(f, op, sphere)
            except Exception as e:  # noqa
                fr["err"], fr["msg"] = err_name(e), str(e)[:200]
            st["fresh"] = fr
        st["fields"] = dump(c)
        steps.append(st)
    return {"ctor_err": None, "steps": steps}


# ------------------------------------------------------------------ oracle (independent of the model)
def case_scale(case):
    vals = [1.0]
    for p in [case["pose0"]] + [o["pose"] for o in case["ops"] if o["op"] == "u"]:
        vals += [abs(x) for x in np.array(p["M"])[:3, 3]]

    def sh(s):
        if s["cls"] == "margin":
            return [abs(s["m"])] + sh(s["inner"])
        out = []
        for k in ("size", "radii"):
            out += [abs(x) for x in s.get(k, [])]
        for k in ("r", "h"):
            if k in s:
                out.append(abs(s[k]))
        if "V" in s:
            out.append(float(np.max(np.abs(np.array(s["V"])))))
        return out
    return max(vals + sh(case["shape"]))


def flat(v):
    return np.array(v, dtype=float).ravel()


def in_domain(case):
    """the property's domain: every pose a C-contiguous float64 4x4 array, contiguous directions/parameters"""
    return case["stream"] != "M"


def oracle_case(case, res):
    """list of (what, detail, observed, expected) — violations of C14 on the real code"""
    bad = []
    if not in_domain(case):
        return bad
    if res.get("ctor_err"):
        bad.append(("constructor raised", {"err": res["ctor_err"], "msg": res.get("msg")}, res["ctor_err"], "no exception"))
        return bad
    L = case_scale(case)
    is_mesh = inner_cls(case["shape"]) == "mesh"
    tol = 1e-12 * L
    seen_update = False
    for k, (op, st) in enumerate(zip(case["ops"], res["steps"][1:])):
        if op["op"] == "u":
            seen_update = True
            if st["err"]:
                bad.append(("update_pose raised", {"step": k, "err": st["err"], "msg": st["msg"]}, st["err"], "no exception"))
            continue
        fr = st["fresh"]
        both_sanity = (op["op"] == "g" and st["err"] == "assertFail" and fr["err"] == "assertFail")
        if both_sanity:
            continue  # GJK's own sanity assertion on this configuration, fresh collider too: not C14's business
        if st["err"] or fr["err"]:
            if True:
                bad.append(("%s raised after update_pose" % op["op"] if seen_update else "%s raised" % op["op"],
                            {"step": k, "updated": [st["err"], st["msg"]], "fresh": [fr["err"], fr.get("msg")]},
                            st["err"] or "ok", fr["err"] or "ok (fresh collider)"))
            continue
        a, b = st["val"], fr["val"]
        if op["op"] == "g":
            da, db = a["dist"], b["dist"]
            # mesh: the start vertex of the hill climb is history-dependent, tied/near-tied support vertices steer GJK
            # through different iterates; both answers are the true distance up to GJK's own accuracy (C01: 1e-5*L)
            dtol = 2e-5 * L if is_mesh else tol
            if not (da == db or abs(da - db) <= dtol):
                bad.append(("gjk distance differs from fresh collider", {"step": k}, da, db))
            elif not is_mesh:
                for key in ("p1", "p2"):
                    if (a[key] is None) != (b[key] is None) or (a[key] is not None and
                                                                np.max(np.abs(flat(a[key]) - flat(b[key]))) > tol):
                        bad.append(("gjk closest point differs from fresh collider", {"step": k}, a[key], b[key]))
            continue
        fa, fb = flat(a), flat(b)
        if fa.shape != fb.shape or not np.all(np.isfinite(fa) == np.isfinite(fb)):
            bad.append(("%s: shape/finite mismatch" % op["op"], {"step": k}, a, b))
            continue
        if op["op"] == "s" and is_mesh:
            d = np.array(op["d"], dtype=float)
            va, vb = float(d.dot(fa)), float(d.dot(fb))
            if abs(va - vb) > 1e-9 * L * max(1.0, float(np.linalg.norm(d))):
                bad.append(("mesh support value differs from fresh collider", {"step": k, "d": op["d"]}, va, vb))
            continue
        with np.errstate(invalid="ignore"):
            diff = np.where(np.isfinite(fa), np.abs(fa - fb), 0.0)
        if diff.size and float(np.max(diff)) > tol:
            bad.append(("%s differs from fresh collider" % {"s": "support point", "a": "aabb", "c": "center",
                                                             "f": "first_vertex", "o": "collider2origin"}[op["op"]],
                        {"step": k, "max_abs_diff": float(np.max(diff)), "tol": tol}, a, b))
    return bad


# ------------------------------------------------------------------ encoding for the Lean driver
def enc_pose(M, lay):
    return [lay] + [f2h(x) for x in np.array(M, dtype=float).ravel()]


def enc_shape(s):
    c = s["cls"]
    if c == "margin":
        return ["margin", f2h(s["m"])] + enc_shape(s["inner"])
    if c == "box":
        return ["box", s["lay"]] + [f2h(x) for x in s["size"]]
    if c == "sphere":
        return ["sphere", f2h(s["r"])]
    if c in ("capsule", "cylinder", "cone"):
        return [c, f2h(s["r"]), f2h(s["h"])]
    if c == "ellipsoid":
        return ["ellipsoid", s["lay"]] + [f2h(x) for x in s["radii"]]
    if c == "disk":
        return ["disk", f2h(s["r"])]
    if c == "ellipse":
        return ["ellipse", s["lay"]] + [f2h(x) for x in s["radii"]]
    V, T = s["V"], s["T"]
    return (["mesh", str(len(V))] + [f2h(x) for v in V for x in v] + [str(len(T))]
            + [str(int(i)) for t in T for i in t])


POSE_LAY = {"fresh": "C", "stack": "C", "tm": "C", "fortran": "F", "strided": "A", "reuse": "C"}


def enc_case(case, res, engine, variant="now"):
    """driver line + for every driver op the index of the implementation step it belongs to"""
    toks = [engine, variant] + enc_shape(case["shape"]) + enc_pose(case["pose0"]["M"], POSE_LAY[case["pose0"]["kind"]])
    ops, owner = [], []
    steps = res["steps"][1:] if res["steps"] else []
    for k, op in enumerate(case["ops"]):
        st = steps[k] if k < len(steps) else None
        if op["op"] == "u":
            ops.append(["u"] + enc_pose(op["pose"]["M"], POSE_LAY[op["pose"]["kind"]]))
            owner.append((k, None))
        elif op["op"] == "s":
            idx = st.get("idx", -1) if st is not None else -1
            if st is not None and st["err"] == "keyError":
                idx = -1
            ops.append(["s", op["lay"]] + [f2h(x) for x in op["d"]] + [str(idx)])
            owner.append((k, None))
        elif op["op"] == "g":
            for j, call in enumerate((st or {}).get("calls") or []):
                ops.append(["s", call["lay"]] + [f2h(x) for x in call["d"]] + [str(call["idx"])])
                owner.append((k, j))
        else:
            ops.append([op["op"]])
            owner.append((k, None))
    toks += [str(len(ops))] + [t for o in ops for t in o]
    return toks, owner


def exp_fields(f):
    """expected token list of the driver's dump; entries are str (exact) or ('~', float) (numeric)"""
    c = f["cls"]

    def ex(a):  # exact copy of array entries
        return [a[0]] + [("=", x) for x in a[1]]
    if c == "margin":
        return ["margin"] + exp_fields(f["inner"])
    if c == "box":
        return ["box"] + ex(f["pose"]) + ex(f["size"]) + [str(len(f["vertices"]) // 3)] + [("~", x) for x in f["vertices"]]
    if c == "sphere":
        return ["sphere"] + ex(f["c"])
    if c in ("capsule", "cylinder", "cone"):
        return [c] + ex(f["pose"])
    if c == "ellipsoid":
        return ["ellipsoid"] + ex(f["pose"]) + ex(f["radii"])
    if c == "disk":
        return ["disk"] + ex(f["c"]) + ex(f["normal"])
    if c == "ellipse":
        return ["ellipse"] + ex(f["c"]) + ex(f["axes"])
    return ["mesh"] + ex(f["pose"]) + ex(f["sfpose"]) + [str(f["first_idx"])]


def cmp_tokens(exp, got, tol, exact):
    """compare expected entries with driver tokens; returns None or a message"""
    if len(exp) != len(got):
        return "length %d vs %d: exp=%s got=%s" % (len(exp), len(got), str(exp)[:200], " ".join(got)[:200])
    for i, (e, g) in enumerate(zip(exp, got)):
        if isinstance(e, str):
            if e != g:
                return "token %d: implementation %s, model %s" % (i, e, g)
        else:
            try:
                x = h2f(g)
            except Exception:  # noqa
                return "token %d: not a scalar: %s" % (i, g)
            y = e[1]
            if x == y or (math.isnan(x) and math.isnan(y)):
                continue
            if e[0] == "=" or exact:
                return "entry %d: implementation %r, model %r (exact comparison)" % (i, y, x)
            if not abs(x - y) <= tol:
                return "entry %d: implementation %r, model %r (tol %g)" % (i, y, x, tol)
    return None


def split_step(s):
    parts = [p.strip() for p in s.split(" ; ")]
    while len(parts) < 3:
        parts.append("")
    return parts[0], parts[1], parts[2]


def compare_with_model(ctx, case, res, engine, mout, owner, variant_note=""):
    """correspondence of one case in one engine; returns None or (name, message)"""
    L = case_scale(case)
    exact = case["base"] == "L" and case["stream"] != "M"
    tol = 1e-9 * L
    if mout is None or mout.startswith("bad"):
        return ("driver", "driver output: %s" % (mout,))
    if res.get("ctor_err"):
        if mout.split()[:2] != ["err", res["ctor_err"]]:
            return ("constructor", "implementation raised %s (%s), model: %s" % (res["ctor_err"], res.get("msg"), mout[:80]))
        ctx.branch("ctor", "%s/err/%s" % (inner_cls(case["shape"]), engine))
        return None
    if not mout.startswith("ok "):
        return ("constructor", "implementation constructed the collider, model: %s" % mout[:80])
    msteps = [x for x in mout[3:].split(" | ")]
    steps = res["steps"]
    if len(msteps) != len(owner) + 1:
        return ("driver", "model returned %d steps, expected %d" % (len(msteps), len(owner) + 1))
    # state after construction
    st0, _, d0 = split_step(msteps[0])
    m = cmp_tokens(exp_fields(steps[0]["fields"]), d0.split(), tol, exact)
    if m:
        return ("constructor: cached fields", m)
    cls = inner_cls(case["shape"])
    for j, (k, sub) in enumerate(owner):
        op, st = case["ops"][k], steps[k + 1]
        status, val, dmp = split_step(msteps[j + 1])
        if op["op"] == "u" and (st.get("pose_lay") != POSE_LAY[op["pose"]["kind"]] or not st.get("pose_same")):
            return ("harness: pose source", "step %d: a pose of kind %s arrived with layout %s / same entries: %s"
                    % (k, op["pose"]["kind"], st.get("pose_lay"), st.get("pose_same")))
        if sub is not None:
            call = st["calls"][sub]
            want = "err " + call["err"] if call["err"] else "ok"
            ctx.branch("step", "%s/g.support/%s/%s" % (cls, "err" if call["err"] else "ok", engine))
            if status != want:
                return ("%s.support_function (inside gjk)" % cls, "call %d of gjk at step %d: implementation %s, model %s"
                        % (sub, k, want, status))
            last = sub == len(st["calls"]) - 1
            if not last:
                continue
        else:
            want = "err " + st["err"] if st["err"] else "ok"
            ctx.branch("step", "%s/%s/%s/%s" % (cls, op["op"], "err" if st["err"] else "ok", engine))
            if status != want:
                return ("%s.%s" % (cls, {"u": "update_pose", "s": "support_function", "a": "aabb", "c": "center",
                                         "f": "first_vertex", "o": "collider2origin"}[op["op"]]),
                        "step %d (%s): implementation %s (%s), model %s" % (k, engine, want, st["msg"], status))
            # observation values the model computes concretely
            if not st["err"] and val not in ("-", ""):
                vt = val.split()
                got = np.array([h2f(x) for x in vt[1:]])
                imp = flat(st["val"])
                if vt[0] == "b":  # model prints mins then maxs; implementation array is [[min,max]]*3
                    imp = np.concatenate([np.array(st["val"])[:, 0], np.array(st["val"])[:, 1]])
                if op["op"] == "s" and cls == "box":
                    d = np.array(op["d"], dtype=float)
                    if abs(d.dot(got) - d.dot(imp)) > tol * max(1.0, np.linalg.norm(d)):
                        return ("box.support_function", "step %d: support value impl %r model %r" % (k, d.dot(imp), d.dot(got)))
                else:
                    if got.shape != imp.shape:
                        return ("%s.%s value" % (cls, op["op"]), "step %d: shapes %s vs %s" % (k, got.shape, imp.shape))
                    with np.errstate(invalid="ignore"):
                        dd = np.where(np.isfinite(imp) | np.isfinite(got), np.abs(imp - got), 0.0)
                    inexact = cls == "disk" or (op["op"] == "s" and case["shape"]["cls"] == "margin")
                    lim = 0.0 if (exact and not inexact) else tol
                    if dd.size and not float(np.nanmax(dd)) <= lim:
                        return ("%s.%s value" % (cls, op["op"]), "step %d (%s): implementation %s, model %s (max diff %g)"
                                % (k, engine, imp.tolist(), got.tolist(), float(np.nanmax(dd))))
        # cached fields after the op (after the last recorded support call for gjk)
        m = cmp_tokens(exp_fields(st["fields"]), dmp.split(), tol, exact)
        if m:
            return ("%s: cached fields after %s" % (cls, op["op"]), "step %d (%s): %s" % (k, engine, m))
    return None


# ------------------------------------------------------------------ check steps
def case_key(case):
    return json.dumps(case, sort_keys=True)


def nontrivial(case):
    seen_u = False
    for o in case["ops"]:
        if o["op"] == "u":
            seen_u = True
        elif seen_u:
            return True
    return False


def process(ctx, cases, results, engine):
    """oracle + correspondence for a list of cases whose implementation results are given"""
    drv = core.Driver("c14-" + engine)
    plan = []
    for case, res in zip(cases, results):
        if case.get("hull"):
            ctx.count("hull:" + engine, key=("hull", engine))
            ctx.branch("hull.update_pose", "%s/%s" % (res.get("hull"), engine))
            if res.get("hull") != "notImplemented":
                ctx.broke("correspondence", "ConvexHullVertices.update_pose",
                          "model (hull_update_notImplemented): NotImplementedError; implementation: %s" % res.get("hull"),
                          {"case": case, "engine": engine})
            continue
        if not isinstance(res, dict) or "steps" not in res:
            ctx.broke("correspondence", "impl_run", "engine %s returned %s" % (engine, str(res)[:300]),
                      {"case": case, "engine": engine})
            continue
        ctx.count("%s:%s" % (case["stream"], engine), key=case_key(case), nontrivial=nontrivial(case),
                  sample={"engine": engine, "stream": case["stream"], "shape": describe(case["shape"]),
                          "ops": "".join(o["op"] for o in case["ops"])})
        for what, detail, obs, exp in oracle_case(case, res):
            ctx.fail("%s: %s" % (describe(case["shape"]), what), {"case": case, "engine": engine, "detail": detail},
                     obs, exp, "fresh collider of the same shape at the last pose (tolerance 1e-12*scale; mesh 1e-9*L)",
                     engine=engine)
        toks, owner = enc_case(case, res, engine)
        cid = drv.add("C14.run", "F", toks)
        plan.append((case, res, cid, owner, toks))
    out = drv.run()
    mism = []
    for case, res, cid, owner, toks in plan:
        r = compare_with_model(ctx, case, res, engine, out.get(cid), owner)
        if r is not None:
            mism.append((case, res, r))
    # a mismatch may be the documented regression: does the pre-repair model explain it?
    if mism:
        drv2 = core.Driver("c14-before-" + engine)
        ids = []
        for case, res, r in mism:
            toks, owner = enc_case(case, res, engine, variant="before")
            ids.append((drv2.add("C14.run", "F", toks), owner))
        out2 = drv2.run()

        class _Null:
            def branch(self, *a):
                pass
        for (case, res, r), (cid, owner) in zip(mism, ids):
            r2 = compare_with_model(_Null(), case, res, engine, out2.get(cid), owner)
            note = ""
            if r2 is None:
                note = (" — the implementation matches the model of the code BEFORE the repair "
                        "(updatePose_asIs_before_fix: Disk/Ellipse store strided views): regression of commit "
                        "'fix: Disk/Ellipse.update_pose stored strided views'")
            ctx.broke("correspondence", r[0], r[1] + note, {"case": case, "engine": engine})


def describe(s):
    return "Margin(%s)" % describe(s["inner"]) if s["cls"] == "margin" else s["cls"]


def run_jit(ctx, cases):
    res = core.run_engine("c14", cases, jit=True, timeout=1500)
    if isinstance(res, dict):
        ctx.broke("correspondence", "JIT engine", res.get("engine_error"))
        return None
    return res


def corpus():
    """hand-written histories run first: the repaired defect (Disk/Ellipse update then every query, pose from a
    stack), Box with a half-integer pose, Margin(Box) as in the upstream test, mesh with ties"""
    rot = np.eye(4)
    rot[:3, :3] = PERMS[5]
    rot[:3, 3] = [1.0, -2.0, 0.5]
    P = {"M": rot.tolist(), "kind": "stack"}
    P2 = {"M": np.eye(4).tolist(), "kind": "fresh"}
    battery = [{"op": "s", "d": [1.0, 0.5, -2.0], "lay": "C"}, {"op": "f"}, {"op": "o"}, {"op": "a"}, {"op": "c"},
               {"op": "g"}]
    out = []
    for sh in ({"cls": "disk", "r": 0.5}, {"cls": "ellipse", "radii": [0.5, 1.5], "lay": "C"},
               {"cls": "margin", "m": 0.25, "inner": {"cls": "disk", "r": 2.0}},
               {"cls": "box", "size": [1.0, 2.0, 3.0], "lay": "C"},
               {"cls": "margin", "m": 0.5, "inner": {"cls": "box", "size": [1.0, 2.0, 3.0], "lay": "C"}},
               {"cls": "sphere", "r": 1.5},
               {"cls": "mesh", "V": [[2 * c for c in v] for v in CUBE_V], "T": CUBE_T}):
        out.append({"stream": "L", "base": "L", "shape": sh, "pose0": P2,
                    "ops": [{"op": "u", "pose": P}] + battery + [{"op": "u", "pose": P2}] + battery})
    return out


def corpus_malformed():
    """outside the property's domain, correspondence only: for every class a strided pose, a Fortran-ordered pose,
    a strided direction (typed kernels raise TypeError under the JIT, run interpreted; Box.update_pose raises after
    storing the pose), and strided shape arrays (constructor of Box raises under the JIT)"""
    rot = np.eye(4)
    rot[:3, :3] = PERMS[7]
    rot[:3, 3] = [0.5, 1.0, -2.0]
    out = []
    qs = [{"op": "s", "d": [1.0, -0.5, 2.0], "lay": "C"}, {"op": "f"}, {"op": "o"}, {"op": "a"}, {"op": "c"}]
    for cls in PRIMS:
        for lay in ("C", "A"):
            if cls == "box":
                sh = {"cls": "box", "size": [1.0, 2.0, 0.5], "lay": lay}
            elif cls == "sphere":
                sh = {"cls": "sphere", "r": 1.5}
            elif cls in ("capsule", "cylinder", "cone"):
                sh = {"cls": cls, "r": 0.5, "h": 2.0}
            elif cls == "ellipsoid":
                sh = {"cls": "ellipsoid", "radii": [0.5, 1.0, 2.0], "lay": lay}
            elif cls == "disk":
                sh = {"cls": "disk", "r": 1.5}
            elif cls == "ellipse":
                sh = {"cls": "ellipse", "radii": [0.5, 2.0], "lay": lay}
            else:
                sh = {"cls": "mesh", "V": [list(v) for v in TETRA_V], "T": TETRA_T}
            if lay == "A" and "lay" not in sh:
                sh = {"cls": "margin", "m": 0.25, "inner": sh}
            ops = []
            for kind in ("strided", "fortran", "fresh"):
                ops += [{"op": "u", "pose": {"M": rot.tolist(), "kind": kind}}] + qs
            ops += [{"op": "s", "d": [0.0, 1.0, 1.0], "lay": "A"}]
            out.append({"stream": "M", "base": "L", "shape": sh, "pose0": {"M": np.eye(4).tolist(), "kind": "fresh"},
                        "ops": ops})
    return out


def gen_cases(ctx, n, streams=("L", "G", "M"), weights=(0.4, 0.4, 0.2), with_gjk=True):
    cases = []
    for i in range(n):
        r = ctx.rng.random()
        acc = 0.0
        stream = streams[-1]
        for s, w in zip(streams, weights):
            acc += w
            if r < acc:
                stream = s
                break
        cls = PRIMS[i % len(PRIMS)]  # every class in every run
        cases.append(gen_case(ctx.rng, stream, cls=cls, with_gjk=with_gjk))
    return cases


def correspondence(ctx):
    hull = {"hull": True}
    fixed = corpus() + corpus_malformed()
    cases = fixed + gen_cases(ctx, ctx.budget(260, 8000)) + [hull]
    # interpreted engine, in-process
    res_i = [impl_run(c) for c in cases]
    process(ctx, cases, res_i, "interp")
    # JIT engine: one subprocess (cold numba cache: ~40 s compile) — the TypeError class only exists here
    njit = ctx.budget(170, 4000)
    jcases = cases[:len(fixed) + njit] + [hull]
    res_j = run_jit(ctx, jcases)
    if res_j is not None:
        process(ctx, jcases, res_j, "jit")
    ctx.extra["engines"] = {"interp": len(cases), "jit": len(jcases) if res_j is not None else 0}
    box_lattice(ctx)


def box_lattice(ctx):
    """convert_box_to_vertices on all 24 axis rotations x dyadic sizes: exact equality with the model (BOX_COORDS order)"""
    from distance3d.geometry import convert_box_to_vertices
    drv = core.Driver("c14-box")
    plan = []
    for R in PERMS:
        for _ in range(ctx.budget(2, 20)):
            M = np.eye(4)
            M[:3, :3] = R
            M[:3, 3] = [ctx.rng.choice(DY) for _ in range(3)]
            size = np.array([ctx.rng.choice(DYPOS) for _ in range(3)])
            V = convert_box_to_vertices(M, size)
            cid = drv.add("C14.box", "F", enc_pose(M, "C") + [f2h(x) for x in size])
            plan.append((M, size, V, cid))
            ctx.count("box-lattice", key=("box", M.tobytes(), size.tobytes()))
    out = drv.run()
    for M, size, V, cid in plan:
        got = out.get(cid, "bad")
        m = cmp_tokens(["ok"] + [("=", x) for x in np.array(V).ravel()], got.split(), 0.0, True)
        if m:
            ctx.broke("correspondence", "convert_box_to_vertices", m, {"pose": M.tolist(), "size": size.tolist()})


def search(ctx):
    """fresh-object differential on longer histories, every class, both engines (in-domain streams only)"""
    boost = 3 if ctx.extra.get("search_boost") else 1
    n = ctx.budget(120, 5000) * boost
    cases = []
    for i in range(n):
        stream = "L" if ctx.rng.random() < 0.4 else "G"
        cases.append(gen_case(ctx.rng, stream, cls=PRIMS[i % len(PRIMS)], nops=ctx.rng.choice([10, 16, 24])))
    for case in cases:
        res = impl_run(case)
        ctx.count("search:%s:interp" % case["stream"], key=case_key(case), nontrivial=nontrivial(case))
        for what, detail, obs, exp in oracle_case(case, res):
            ctx.fail("%s: %s" % (describe(case["shape"]), what), {"case": case, "engine": "interp", "detail": detail},
                     obs, exp, "fresh collider of the same shape at the last pose", engine="interp")
    if ctx.thorough or boost > 1:
        res = run_jit(ctx, cases)
        if res is not None:
            for case, r in zip(cases, res):
                ctx.count("search:%s:jit" % case["stream"], key=case_key(case), nontrivial=nontrivial(case))
                if not isinstance(r, dict) or "steps" not in r:
                    continue
                for what, detail, obs, exp in oracle_case(case, r):
                    ctx.fail("%s: %s" % (describe(case["shape"]), what), {"case": case, "engine": "jit", "detail": detail},
                             obs, exp, "fresh collider of the same shape at the last pose", engine="jit")


def replay(ctx, payload):
    args = payload.get("args") or {}
    case, engine = args.get("case"), args.get("engine") or payload.get("engine") or "interp"
    if case is None:
        for b in payload.get("broken", []):
            si = b.get("seed_input") or {}
            if "case" in si:
                case, engine = si["case"], si.get("engine", "interp")
                break
    if case is None:
        print("replay file names no input:", str(payload.get("broken"))[:500])
        return False
    if engine == "jit":
        res = core.run_engine("c14", [case], jit=True, timeout=1500)
        if isinstance(res, dict):
            print("JIT engine failed:", res.get("engine_error"))
            return False
        res = res[0]
    else:
        res = impl_run(case)
    if case.get("hull"):
        print("ConvexHullVertices.update_pose:", res.get("hull"))
        return res.get("hull") == "notImplemented"
    bad = oracle_case(case, res)
    for what, detail, obs, exp in bad:
        print("FAIL [%s engine] %s: %s  %s  observed=%s expected=%s" % (engine, describe(case["shape"]), what,
                                                                       str(detail)[:300], str(obs)[:200], str(exp)[:200]))
    return not bad
