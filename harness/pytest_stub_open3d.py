"""pytest plugin (`-p pytest_stub_open3d`, PYTHONPATH=/verif/harness): puts the stub open3d module into
sys.modules so that the upstream hydroelastic / aabb-tree test modules can be collected in this sandbox.
Used only to vet repairs against the whole upstream suite; never part of the pinned baseline."""
import os
import sys
sys.path.insert(0, os.path.dirname(os.path.abspath(__file__)))
import core  # noqa: E402

_jit = os.environ.get("NUMBA_DISABLE_JIT") != "1"
_keep = {k: os.environ.get(k) for k in ("NUMBA_DISABLE_JIT", "NUMBA_CACHE_DIR")}
core.setup_impl(jit=_jit)
for k, v in _keep.items():
    if v is None:
        os.environ.pop(k, None)
    else:
        os.environ[k] = v
