"""worker.py <prop> <in.pkl> <out.pkl> — runs props.<prop>.impl_run on every case in this
interpreter (engine chosen by the environment: NUMBA_DISABLE_JIT / NUMBA_CACHE_DIR)."""
import importlib
import os
import pickle
import sys

HERE = os.path.dirname(os.path.abspath(__file__))
sys.path.insert(0, HERE)
import core  # noqa: E402


def main():
    prop, inp, outp = sys.argv[1:4]
    core.setup_impl(jit=(os.environ.get("D3_ENGINE") == "jit"))
    mod = importlib.import_module("props." + prop.lower())
    cases = pickle.load(open(inp, "rb"))
    fn = getattr(mod, "impl_run_engine", None) or mod.impl_run
    res = []
    for c in cases:
        try:
            res.append(fn(c))
        except Exception as e:  # noqa
            res.append({"ok": False, "err": "exc:" + type(e).__name__, "msg": str(e)[:300]})
    pickle.dump(res, open(outp, "wb"))


if __name__ == "__main__":
    main()
