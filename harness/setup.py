"""setup: regenerate lean/D3/Gen from /repo and build the Lean modules of every claimed property
(harness/claimed.json). Offline; reads nothing outside /verif, /repo and the toolchain."""
import json
import os
import subprocess
import sys

HERE = os.path.dirname(os.path.abspath(__file__))
sys.path.insert(0, HERE)
import core  # noqa: E402


def main():
    core.regenerate()
    claimed = json.load(open(os.path.join(HERE, "claimed.json")))
    targets = []
    for p in claimed:
        targets += ["D3.Audit." + p, "D3.Driver." + p]
    r = subprocess.run(["lake", "build"] + targets, cwd=core.LEAN)
    return r.returncode


if __name__ == "__main__":
    sys.exit(main())
