"""Rebuild harness/source_map.json: normalised-AST hashes of every modelled Python function
(`MODELLED` lists in harness/props/cXX.py) as of the current /repo. Run when a model is (re)written."""
import importlib
import json
import os
import sys

HERE = os.path.dirname(os.path.abspath(__file__))
sys.path.insert(0, HERE)
import core  # noqa: E402


def main():
    core.setup_impl()
    out = {}
    for f in sorted(os.listdir(os.path.join(HERE, "props"))):
        if f.startswith("c") and f.endswith(".py") and f[1:3].isdigit():
            try:
                mod = importlib.import_module("props." + f[:-3])
            except Exception as e:  # noqa
                print("skip", f, e)
                continue
            m = [x for x in (getattr(mod, "MODELLED", None) or []) if isinstance(x, str) and x.count(":") == 1] \
                or core.anchor_functions(f[:-3].upper())
            if m:
                fp = core.current_fingerprints(m)
                missing = [k for k, v in fp.items() if v is None]
                if missing:
                    print(f, "MISSING functions:", missing)
                out[f[:-3].upper()] = fp
    json.dump(out, open(os.path.join(HERE, "source_map.json"), "w"), indent=1, sort_keys=True)
    print({k: len(v) for k, v in out.items()})


if __name__ == "__main__":
    main()
