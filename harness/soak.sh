#!/bin/bash
# soak.sh <seed-from> <seed-to> [props...] : run quick checks (without Lean rebuild) for several seeds on the unchanged
# tree; prints every non-OK verdict. Used to look for flaky alarms.
A=$1; B=$2; shift 2
PROPS=${@:-C01 C02 C03 C04 C05 C06 C07 C08 C09 C10 C11 C12 C13 C14 C15 C16 C17 C18 C19 C20}
for p in $PROPS; do for s in $(seq $A $B); do
  out=$(VERIF_SEED=$s /venv/bin/python harness/check.py $p --no-lean 2>&1 | grep -E "^(OK|VIOLATION|INFRA)" | cut -c1-160)
  echo "$p seed=$s: $out"
done; done
