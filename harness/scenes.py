"""Shared scene generators (used by C20, C19): primitives for distance3d.distance by
parameter name, collider specs (picklable tuples) and their construction."""
import math

import numpy as np

# ------------------------------------------------------------------ rotations
_PERMS = []
for perm in ((0, 1, 2), (1, 2, 0), (2, 0, 1)):
    for sx in (1, -1):
        for sy in (1, -1):
            R = np.zeros((3, 3))
            R[0, perm[0]] = sx
            R[1, perm[1]] = sy
            R[2] = np.cross(R[0], R[1])
            _PERMS.append(R)


def rot_345(axis):
    c, s = 0.6, 0.8
    R = np.eye(3)
    i, j = [(1, 2), (2, 0), (0, 1)][axis]
    R[i, i], R[i, j], R[j, i], R[j, j] = c, -s, s, c
    return R


def lattice_rotation(rng):
    R = _PERMS[rng.randrange(len(_PERMS))].copy()
    if rng.random() < 0.4:
        R = R.dot(rot_345(rng.randrange(3)))
    return R


def random_rotation(rng):
    q = np.array([rng.gauss(0, 1) for _ in range(4)])
    q /= np.linalg.norm(q)
    w, x, y, z = q
    return np.array([
        [1 - 2 * (y * y + z * z), 2 * (x * y - z * w), 2 * (x * z + y * w)],
        [2 * (x * y + z * w), 1 - 2 * (x * x + z * z), 2 * (y * z - x * w)],
        [2 * (x * z - y * w), 2 * (y * z + x * w), 1 - 2 * (x * x + y * y)]])


def rotation(rng, lattice):
    return lattice_rotation(rng) if lattice else random_rotation(rng)


def vec(rng, lattice, scale=1.0):
    if lattice:
        return np.array([rng.choice([-2, -1, -0.5, 0, 0, 0.5, 1, 2]) for _ in range(3)], dtype=float) * scale
    return np.array([rng.uniform(-1, 1) for _ in range(3)]) * scale


def unit(rng, lattice):
    if lattice:
        R = lattice_rotation(rng)
        return np.ascontiguousarray(R[:, rng.randrange(3)])
    v = np.array([rng.gauss(0, 1) for _ in range(3)])
    return v / np.linalg.norm(v)


def pose(rng, lattice, scale=1.0):
    A = np.eye(4)
    A[:3, :3] = rotation(rng, lattice)
    A[:3, 3] = vec(rng, lattice, scale)
    return A


def size_scalar(rng, lattice, lo=0.2, hi=3.0):
    if lattice:
        return float(rng.choice([0.25, 0.5, 1.0, 1.5, 2.0]))
    return float(math.exp(rng.uniform(math.log(lo), math.log(hi))))


# ------------------------------------------------------------------ distance primitives by parameter name
def dist_args(rng, names, lattice):
    """arguments for a distance3d.distance function, generated from its parameter names
    (defaults such as epsilon/signed/max_iter are left out)."""
    out = []
    for n in names:
        base = n.rstrip("12")
        if base in ("epsilon", "signed", "distance_to_surface", "max_iter"):
            break
        if base in ("point", "line_point", "plane_point", "segment_start", "segment_end", "center",
                    "rectangle_center"):
            out.append(vec(rng, lattice, 2.0))
        elif base in ("line_direction", "plane_normal", "normal"):
            out.append(unit(rng, lattice))
        elif base == "triangle_points":
            while True:
                T = np.array([vec(rng, lattice, 2.0) for _ in range(3)])
                if np.linalg.norm(np.cross(T[1] - T[0], T[2] - T[0])) > 0.2:
                    break
            out.append(T)
        elif base == "rectangle_axes":
            R = rotation(rng, lattice)
            out.append(np.ascontiguousarray(R[:, :2].T))
        elif base == "rectangle_lengths":
            out.append(np.array([size_scalar(rng, lattice), size_scalar(rng, lattice)]))
        elif base in ("radius", "length"):
            out.append(size_scalar(rng, lattice))
        elif base in ("box2origin", "ellipsoid2origin", "cylinder2origin"):
            out.append(pose(rng, lattice, 2.0))
        elif base in ("size", "radii"):
            out.append(np.array([size_scalar(rng, lattice) for _ in range(3)]))
        else:
            raise KeyError("no generator for parameter " + n)
    # segments must not be degenerate
    for i, n in enumerate(names[:len(out)]):
        if n.rstrip("12") == "segment_end":
            while np.linalg.norm(out[i] - out[i - 1]) < 0.2:
                out[i] = vec(rng, lattice, 2.0)
    return out


# ------------------------------------------------------------------ colliders
COLLIDER_TYPES = ["Sphere", "Ellipsoid", "Capsule", "Cylinder", "Cone", "Box", "Disk", "Ellipse",
                  "ConvexHullVertices", "MeshGraph"]

_OCTA = np.array([[1, 0, 0], [-1, 0, 0], [0, 1, 0], [0, -1, 0], [0, 0, 1], [0, 0, -1]], dtype=float)
_OCTA_TRI = np.array([[0, 2, 4], [2, 1, 4], [1, 3, 4], [3, 0, 4], [2, 0, 5], [1, 2, 5], [3, 1, 5], [0, 3, 5]])
_CUBE = np.array([[x, y, z] for x in (-1, 1) for y in (-1, 1) for z in (-1, 1)], dtype=float)
_CUBE_TRI = None


def collider_spec(rng, lattice, types=None, margin_prob=0.0, scale=1.0):
    t = rng.choice(types or COLLIDER_TYPES)
    A = pose(rng, lattice, 1.5 * scale)
    s = lambda: size_scalar(rng, lattice, 0.2, 2.0) * scale  # noqa
    if t == "Sphere":
        spec = (t, A[:3, 3].copy(), s())
    elif t == "Ellipsoid":
        spec = (t, A, np.array([s(), s(), s()]))
    elif t in ("Capsule", "Cone"):
        spec = (t, A, s(), s())
    elif t == "Cylinder":
        spec = (t, A, s(), s())
    elif t == "Box":
        spec = (t, A, np.array([s(), s(), s()]))
    elif t == "Disk":
        spec = (t, A[:3, 3].copy(), s(), np.ascontiguousarray(A[:3, 2]))
    elif t == "Ellipse":
        spec = (t, A[:3, 3].copy(), np.ascontiguousarray(A[:3, :2].T), np.array([s(), s()]))
    elif t == "ConvexHullVertices":
        verts = _CUBE * np.array([s(), s(), s()]) * 0.5
        spec = (t, np.ascontiguousarray(verts.dot(A[:3, :3].T) + A[:3, 3]))
    elif rng.random() < 0.35:
        # a cube mesh whose vertex array starts with a point that no triangle references (a vertex list that carries an
        # interior point of the scanned cloud): it sits inside the cube near one corner, outside the hull of the six
        # axis-extreme vertices. The shape is the cube; index 0 is not part of the surface.
        global _CUBE_TRI
        if _CUBE_TRI is None:
            from scipy.spatial import ConvexHull
            _CUBE_TRI = np.asarray(ConvexHull(_CUBE).simplices, dtype=int)
        half = 0.5 * np.array([s(), s(), s()])
        corner = _CUBE[rng.randrange(8)]
        verts = np.vstack((0.9 * corner * half, _CUBE * half))
        spec = (t, A, np.ascontiguousarray(verts), _CUBE_TRI + 1)
    else:
        spec = (t, A, np.ascontiguousarray(_OCTA * np.array([s(), s(), s()])), _OCTA_TRI.copy())
    if rng.random() < margin_prob:
        spec = ("Margin", spec, 0.1 * scale)
    return spec


def build(spec):
    from distance3d import colliders
    t = spec[0]
    if t == "Margin":
        return colliders.Margin(build(spec[1]), spec[2])
    if t == "Sphere":
        return colliders.Sphere(np.array(spec[1], dtype=float), float(spec[2]))
    if t == "Ellipsoid":
        return colliders.Ellipsoid(np.array(spec[1]), np.array(spec[2]))
    if t == "Capsule":
        return colliders.Capsule(np.array(spec[1]), float(spec[2]), float(spec[3]))
    if t == "Cone":
        return colliders.Cone(np.array(spec[1]), float(spec[2]), float(spec[3]))
    if t == "Cylinder":
        return colliders.Cylinder(np.array(spec[1]), float(spec[2]), float(spec[3]))
    if t == "Box":
        return colliders.Box(np.array(spec[1]), np.array(spec[2]))
    if t == "Disk":
        return colliders.Disk(np.array(spec[1]), float(spec[2]), np.array(spec[3]))
    if t == "Ellipse":
        return colliders.Ellipse(np.array(spec[1]), np.array(spec[2]), np.array(spec[3]))
    if t == "ConvexHullVertices":
        return colliders.ConvexHullVertices(np.array(spec[1]))
    if t == "MeshGraph":
        return colliders.MeshGraph(np.array(spec[1]), np.array(spec[2]), np.array(spec[3]))
    raise KeyError(t)


def spec_json(spec):
    return [x.tolist() if isinstance(x, np.ndarray) else (spec_json(x) if isinstance(x, tuple) else x)
            for x in spec]


def spec_from_json(j):
    t = j[0]
    if t == "Margin":
        return ("Margin", spec_from_json(j[1]), j[2])
    return tuple([t] + [np.array(x, dtype=(int if (t == "MeshGraph" and k == 2) else float))
                        if isinstance(x, list) else x for k, x in enumerate(j[1:])])


def translate(spec, delta):
    """spec moved by delta (world frame)"""
    delta = np.asarray(delta, dtype=float)
    t = spec[0]
    if t == "Margin":
        return ("Margin", translate(spec[1], delta), spec[2])
    if t in ("Sphere", "Disk", "Ellipse"):
        return (t, spec[1] + delta) + tuple(spec[2:])
    if t == "ConvexHullVertices":
        return (t, spec[1] + delta)
    A = np.array(spec[1])
    A[:3, 3] += delta
    return (t, A) + tuple(spec[2:])
