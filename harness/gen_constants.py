"""Regenerate lean/D3/Gen/Constants.lean from /repo's current source (AST only, no import).

Every module-level numeric constant and every numeric/bool default argument of every
function in distance3d (tests, plotting, visualization aside) becomes a Lean `def`.
Floats are emitted as scientific literals polymorphic in the scalar (`[OfScientific α]`),
using Python's shortest round-trip repr, so that at `Float` the value is bit-identical to
the module's value and at `ℝ`/`Rat` it is that decimal.  Integers become `Nat`/`Int`.
The file is rewritten only when its content changes (so an unchanged /repo never
invalidates an .olean).
"""
import ast
import math
import os
import sys

REPO = os.environ.get("D3_REPO", "/repo")
SKIP = {"plotting.py", "visualization.py", "benchmark.py", "io.py", "random.py"}

_EPS = sys.float_info.epsilon


class NotConst(Exception):
    pass


def _eval(node, env):
    if isinstance(node, ast.Constant):
        if isinstance(node.value, bool):
            return node.value
        if isinstance(node.value, (int, float)):
            return node.value
        raise NotConst
    if isinstance(node, ast.Name):
        if node.id in env:
            return env[node.id]
        raise NotConst
    if isinstance(node, ast.UnaryOp) and isinstance(node.op, (ast.USub, ast.UAdd)):
        v = _eval(node.operand, env)
        return -v if isinstance(node.op, ast.USub) else v
    if isinstance(node, ast.BinOp):
        a, b = _eval(node.left, env), _eval(node.right, env)
        if isinstance(node.op, ast.Add):
            return a + b
        if isinstance(node.op, ast.Sub):
            return a - b
        if isinstance(node.op, ast.Mult):
            return a * b
        if isinstance(node.op, ast.Div):
            return a / b
        if isinstance(node.op, ast.Pow):
            return a ** b
        raise NotConst
    src = ast.unparse(node)
    if src in ("np.finfo(float).eps", "np.finfo(np.float64).eps", "sys.float_info.epsilon"):
        return _EPS
    if src in ("np.finfo(float).max", "np.finfo(np.float64).max", "sys.float_info.max"):
        return sys.float_info.max
    if isinstance(node, ast.Call) and ast.unparse(node.func) in ("math.sqrt", "np.sqrt"):
        return math.sqrt(_eval(node.args[0], env))
    if src in ("np.inf", "math.inf", "float('inf')"):
        return math.inf
    raise NotConst


def _lean_name(*parts):
    s = "__".join(p.strip("_").replace(".", "_") for p in parts if p)
    return s


def _emit(name, v, origin):
    doc = f"/-- `{origin}` -/\n"
    if isinstance(v, bool):
        return doc + f"def {name} : Bool := {'true' if v else 'false'}\n"
    if isinstance(v, int):
        if v >= 0:
            return doc + f"def {name} : Nat := {v}\n"
        return doc + f"def {name} : Int := {v}\n"
    if isinstance(v, float):
        if math.isinf(v) or math.isnan(v):
            return None
        r = repr(abs(v))
        if "e" not in r and "." not in r:
            r += ".0"
        body = r if v >= 0 else f"-{r}"
        if v >= 0:
            return doc + f"def {name} {{α : Type}} [OfScientific α] : α := {body}\n"
        return doc + f"def {name} {{α : Type}} [OfScientific α] [Neg α] : α := {body}\n"
    return None


def collect():
    out = []   # (lean name, value, origin)
    base = os.path.join(REPO, "distance3d")
    files = []
    for root, dirs, fs in os.walk(base):
        dirs[:] = sorted(d for d in dirs if d not in ("test", "__pycache__"))
        for f in sorted(fs):
            if f.endswith(".py") and f not in SKIP:
                files.append(os.path.join(root, f))
    # first pass: module-level constants of utils / mesh etc. so that imports by name resolve
    global_env = {}
    trees = {}
    for path in files:
        try:
            trees[path] = ast.parse(open(path).read())
        except SyntaxError:
            continue
    for _ in range(2):
        for path, tree in trees.items():
            env = dict(global_env)
            for st in tree.body:
                if isinstance(st, ast.Assign) and len(st.targets) == 1 and isinstance(st.targets[0], ast.Name):
                    try:
                        v = _eval(st.value, env)
                    except (NotConst, ZeroDivisionError, OverflowError, TypeError):
                        continue
                    env[st.targets[0].id] = v
                    global_env.setdefault(st.targets[0].id, v)
    for path, tree in trees.items():
        rel = os.path.relpath(path, base)[:-3].replace(os.sep, ".")
        if rel.endswith(".__init__"):
            rel = rel[: -len(".__init__")]
        env = dict(global_env)
        for st in tree.body:
            if isinstance(st, ast.Assign) and len(st.targets) == 1 and isinstance(st.targets[0], ast.Name):
                try:
                    v = _eval(st.value, env)
                except (NotConst, ZeroDivisionError, OverflowError, TypeError):
                    continue
                env[st.targets[0].id] = v
                out.append((_lean_name(rel, st.targets[0].id), v, f"{rel}.{st.targets[0].id}"))
        for fn in ast.walk(tree):
            if isinstance(fn, (ast.FunctionDef,)):
                args = fn.args.args
                defaults = fn.args.defaults
                for a, d in zip(args[len(args) - len(defaults):], defaults):
                    try:
                        v = _eval(d, env)
                    except (NotConst, ZeroDivisionError, OverflowError, TypeError):
                        continue
                    out.append((_lean_name(rel, fn.name, a.arg), v, f"{rel}.{fn.name}({a.arg}=…)"))
                for a, d in zip(fn.args.kwonlyargs, fn.args.kw_defaults):
                    if d is None:
                        continue
                    try:
                        v = _eval(d, env)
                    except (NotConst, ZeroDivisionError, OverflowError, TypeError):
                        continue
                    out.append((_lean_name(rel, fn.name, a.arg), v, f"{rel}.{fn.name}({a.arg}=…)"))
    return out


def render():
    seen = set()
    chunks = ["/- GENERATED by harness/gen_constants.py from /repo — do not edit. -/\n",
              "namespace D3.Gen\n"]
    consts = {}
    for name, v, origin in collect():
        if name in seen:
            continue
        s = _emit(name, v, origin)
        if s is None:
            continue
        seen.add(name)
        consts[name] = v
        chunks.append(s)
    chunks.append("end D3.Gen\n")
    return "\n".join(chunks), consts


def write(target):
    text, consts = render()
    old = open(target).read() if os.path.exists(target) else None
    changed = old != text
    if changed:
        os.makedirs(os.path.dirname(target), exist_ok=True)
        with open(target, "w") as f:
            f.write(text)
    return changed, consts


if __name__ == "__main__":
    here = os.path.dirname(os.path.abspath(__file__))
    tgt = os.path.join(here, "..", "lean", "D3", "Gen", "Constants.lean")
    ch, consts = write(os.path.normpath(tgt))
    print("changed" if ch else "unchanged", len(consts), "constants")
