#!/venv/bin/python
"""try_harmless.py <dir with patch.diff, meta.json> <name> <PROP> [PROP...]
Applies a behaviour-preserving rewrite to a scratch copy of /repo and runs the given checks against it: every check
must exit 0 (no alarm on code where the property holds). Result recorded in /verif/seeded/<name>/meta.json."""
import json
import os
import shutil
import subprocess
import sys
import time

VERIF = os.path.normpath(os.path.join(os.path.dirname(os.path.abspath(__file__)), ".."))


def sh(cmd, **kw):
    return subprocess.run(cmd, shell=True, capture_output=True, text=True, **kw)


def main():
    src, name = sys.argv[1:3]
    props = sys.argv[3:]
    w = "/tmp/harmless_%d" % os.getpid()
    os.makedirs(w)
    try:
        sh("rsync -a --exclude .git --exclude htmlcov --exclude doc --exclude __pycache__ /repo/ %s/mut/" % w)
        r = sh("patch -p1 -s < %s/patch.diff" % src, cwd=w + "/mut")
        if r.returncode != 0:
            print("PATCH DOES NOT APPLY", r.stdout, r.stderr)
            return 3
        checks = {}
        for p in props:
            t0 = time.time()
            r = sh("D3_REPO=%s/mut /venv/bin/python harness/check.py %s" % (w, p), cwd=VERIF, timeout=7200)
            verdict = [l[:220] for l in r.stdout.splitlines() if l.startswith(("OK", "VIOLATION", "INFRA"))]
            info = None
            for l in verdict:
                if "replay=" in l:
                    try:
                        rp = json.load(open(l.split("replay=")[1].split()[0]))
                        info = {"kind": rp.get("kind"), "function": rp.get("function"),
                                "broken": [(b.get("kind"), b.get("name"), str(b.get("message"))[:200]) for b in rp.get("broken", [])][:3]}
                    except Exception as e:  # noqa
                        info = {"error": str(e)}
            checks[p] = {"exit": r.returncode, "verdict": verdict, "replay": info, "wall_s": round(time.time() - t0, 1)}
            print(name, p, "exit", r.returncode, verdict[:1], info or "")
        out = os.path.join(VERIF, "seeded", name)
        os.makedirs(out, exist_ok=True)
        shutil.copy(src + "/patch.diff", out + "/patch.diff")
        meta = json.load(open(src + "/meta.json")) if os.path.exists(src + "/meta.json") else {}
        meta.update({"kind": "behaviour-preserving rewrite (false-alarm probe)", "checks": checks,
                     "alarm_raised": any(c["exit"] != 0 for c in checks.values()),
                     "what_was_run": ["scratch copy of /repo + patch -p1",
                                      "D3_REPO=<copy> /venv/bin/python harness/check.py " + " / ".join(props)]})
        json.dump(meta, open(out + "/meta.json", "w"), indent=1)
        return 0
    finally:
        shutil.rmtree(w, ignore_errors=True)
        sh("/venv/bin/python harness/gen_constants.py; /venv/bin/python harness/py2lean.py", cwd=VERIF)


if __name__ == "__main__":
    sys.exit(main())
