"""Writes MANIFEST.json from the table below (one place to keep it consistent)."""
import json
import os

HERE = os.path.dirname(os.path.abspath(__file__))
VERIF = os.path.normpath(os.path.join(HERE, ".."))

import importlib
import sys
sys.path.insert(0, HERE)


def load_checks():
    """each harness/props/cXX.py carries MANIFEST = dict(text=, note=, technique=, design=)"""
    checks = {}
    claimed = json.load(open(os.path.join(HERE, "claimed.json")))  # integrated verticals only
    for f in sorted(os.listdir(os.path.join(HERE, "props"))):
        if f.startswith("c") and f.endswith(".py") and f[1:3].isdigit() and f[:-3].upper() in claimed:
            mod = importlib.import_module("props." + f[:-3])
            if getattr(mod, "MANIFEST", None):
                checks[f[:-3].upper()] = mod.MANIFEST
    return checks


CHECKS = load_checks()

NOT_APPLICABLE = []


def main():
    checks = []
    for pid in sorted(CHECKS):
        c = CHECKS[pid]
        checks.append({
            "property_id": pid,
            "quick_cmd": "/venv/bin/python harness/check.py %s --tier quick" % pid,
            "thorough_cmd": "/venv/bin/python harness/check.py %s --tier thorough" % pid,
            "evidence_file": "evidence/%s.json" % pid,
            "replay_cmd_template": "/venv/bin/python harness/check.py %s --replay {path}" % pid,
            "engine": "lean-proof+correspondence",
            "level_claimed": {"category": "proof", "text": c["text"], "design_ref": c["design"]},
            "level_note": c["note"],
            "technique": c["technique"],
        })
    claimed = set(CHECKS)
    na = [x for x in NOT_APPLICABLE if x["property_id"] not in claimed]
    listed = {x["property_id"] for x in na}
    for line in open(os.path.join(VERIF, "properties.jsonl")):
        pid = json.loads(line)["id"]
        if pid not in claimed and pid not in listed:
            na.append({"property_id": pid,
                       "reason": "no check registered yet (framework under construction; the technique applies, "
                                 "see DESIGN.md §7) — not a claim that the property is out of reach"})
    m = {
        "version": 1,
        "setup_cmd": "/venv/bin/python harness/setup.py",
        "hooks": {
            "guard": "DISTANCE3D_VERIF",
            "enable": "no hooks are compiled into /repo: the harness wraps colliders in recording/counting proxies in-process",
            "baseline_off_cmd": "cd /repo && /venv/bin/python -m pytest -ra -q -p no:cacheprovider --timeout=900 --continue-on-collection-errors",
            "source_commits": [],
            "add_only": True,
        },
        "engines": [{"name": "lean-proof+correspondence", "path": "harness/check.py",
                     "serves_properties": sorted(claimed),
                     "kind_free_text": "Lean 4 theorems about an executable model (lean/D3) + differential correspondence "
                                       "harness against /repo + failing-input search with per-property oracles"}],
        "checks": checks,
        "not_applicable": na,
        "notes": "See DESIGN.md. Exit 0 / 1 (VIOLATION line) / 2 (infrastructure).",
    }
    with open(os.path.join(VERIF, "MANIFEST.json"), "w") as f:
        json.dump(m, f, indent=1)
    print("wrote MANIFEST.json with", len(checks), "checks;", len(na), "not_applicable")


if __name__ == "__main__":
    main()
