"""Writes MANIFEST.json from the table below (one place to keep it consistent)."""
import json
import os

HERE = os.path.dirname(os.path.abspath(__file__))
VERIF = os.path.normpath(os.path.join(HERE, ".."))

CHECKS = {
    "C05": dict(
        text=("Lean theorems query_exact / query_tree_exact / empty_query_ok hold for every array state accepted by the "
              "decidable wfCheck (proved sound), history_leaves for every insertion history on the tree layer; the "
              "array model of aabb_tree.py is compared exactly (full arrays after every op) with the implementation and "
              "wfCheck is executed in Lean on the implementation's arrays after every operation; brute-force oracle on "
              "the real code."),
        note=("trusted: Lean kernel + Mathlib, axioms propext/Classical.choice/Quot.sound; exact-real semantics of box "
              "coordinates (only min/max/≤/-/* are used; min/max/≤ are exact in floats); insertLeaf_refines is checked at "
              "run time, not proved; correspondence harness (sampling + corpus)."),
        technique="Lean 4 proof on hand-written model + correspondence (exact state equality, Lean-run wfCheck on impl arrays)",
        design="§7 C05"),
}

NOT_APPLICABLE = []


def main():
    checks = []
    for pid in sorted(CHECKS):
        c = CHECKS[pid]
        checks.append({
            "property_id": pid,
            "quick_cmd": "/venv/bin/python harness/check.py %s --tier quick" % pid,
            "thorough_cmd": "/venv/bin/python harness/check.py %s --tier thorough" % pid,
            "evidence_file": "evidence/%s.json" % pid,
            "replay_cmd_template": "/venv/bin/python harness/check.py %s --replay {path}" % pid,
            "engine": "lean-proof+correspondence",
            "level_claimed": {"category": "proof", "text": c["text"], "design_ref": c["design"]},
            "level_note": c["note"],
            "technique": c["technique"],
        })
    claimed = set(CHECKS)
    na = [x for x in NOT_APPLICABLE if x["property_id"] not in claimed]
    m = {
        "version": 1,
        "setup_cmd": "cd lean && lake build",
        "hooks": {
            "guard": "DISTANCE3D_VERIF",
            "enable": "no hooks are compiled into /repo: the harness wraps colliders in recording/counting proxies in-process",
            "baseline_off_cmd": "cd /repo && /venv/bin/python -m pytest -ra -q -p no:cacheprovider --timeout=900 --continue-on-collection-errors",
            "source_commits": [],
            "add_only": True,
        },
        "engines": [{"name": "lean-proof+correspondence", "path": "harness/check.py",
                     "serves_properties": sorted(claimed),
                     "kind_free_text": "Lean 4 theorems about an executable model (lean/D3) + differential correspondence "
                                       "harness against /repo + failing-input search with per-property oracles"}],
        "checks": checks,
        "not_applicable": na,
        "notes": "See DESIGN.md. Exit 0 / 1 (VIOLATION line) / 2 (infrastructure).",
    }
    with open(os.path.join(VERIF, "MANIFEST.json"), "w") as f:
        json.dump(m, f, indent=1)
    print("wrote MANIFEST.json with", len(checks), "checks;", len(na), "not_applicable")


if __name__ == "__main__":
    main()
