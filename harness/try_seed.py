#!/venv/bin/python
"""try_seed.py <PROP> <dir with patch.diff, demo.py, meta.json> <name> [--tier quick] [--also Cxx ...]

Confirms a seeded change and runs the registered check(s) against it:
  1. scratch copies of /repo (outside /repo and /verif): clean and changed (patch applied);
  2. the demonstration must PASS on the clean copy and FAIL on the changed copy;
  3. the pinned baseline tests named in the change's own meta are NOT re-run here (the seeding agent ran
     the suite; the lead re-runs the pinned 62 separately with --baseline);
  4. `check.py PROP` (and --also) with D3_REPO pointing at the changed copy;
  5. writes /verif/seeded/<name>/{patch.diff, demo.py, meta.json} and removes the scratch copies.
"""
import json
import os
import shutil
import subprocess
import sys
import time

VERIF = os.path.normpath(os.path.join(os.path.dirname(os.path.abspath(__file__)), ".."))


def sh(cmd, **kw):
    return subprocess.run(cmd, shell=True, capture_output=True, text=True, **kw)


def main():
    prop, src, name = sys.argv[1:4]
    src = os.path.abspath(src)
    rest = sys.argv[4:]
    also = []
    baseline = "--baseline" in rest
    if "--also" in rest:
        also = [x for x in rest[rest.index("--also") + 1:] if not x.startswith("--")]
    w = "/tmp/seedtry_%d" % os.getpid()
    os.makedirs(w)
    try:
        for d in ("clean", "mut"):
            sh("rsync -a --exclude .git --exclude htmlcov --exclude doc --exclude __pycache__ /repo/ %s/%s/" % (w, d))
        r = sh("patch -p1 -s < %s/patch.diff" % src, cwd=w + "/mut")
        if r.returncode != 0:
            print("PATCH DOES NOT APPLY", r.stdout, r.stderr)
            return 3
        res = {}
        for d in ("clean", "mut"):
            r = sh("D3_PATH=%s/%s /venv/bin/python %s/demo.py %s/%s" % (w, d, src, w, d), timeout=1800)
            res[d] = (r.returncode, (r.stdout + r.stderr).strip().splitlines()[-1:] or [""])
        print("demo clean:", res["clean"], " demo changed:", res["mut"])
        confirmed = res["clean"][0] == 0 and res["mut"][0] != 0
        base = None
        if baseline:
            r = sh("/venv/bin/python -m pytest -q -p no:cacheprovider --no-cov --timeout=900 --continue-on-collection-errors "
                   "--junitxml=%s/junit.xml > %s/pytest.log 2>&1" % (w, w), cwd=w + "/mut", timeout=3600)
            import xml.etree.ElementTree as ET
            ok = {}
            for tc in ET.parse(w + "/junit.xml").iter("testcase"):
                ok[tc.get("classname") + "::" + tc.get("name")] = not any(c.tag in ("failure", "error", "skipped") for c in tc)
            pinned = json.load(open("/root/.vp/BASELINE.json"))["stable_pass"]
            base = [t for t in pinned if not ok.get(t)]
            print("pinned tests failing with the change:", base)
        checks = {}
        for p in [prop] + also:
            t0 = time.time()
            r = sh("D3_REPO=%s/mut /venv/bin/python harness/check.py %s" % (w, p), cwd=VERIF, timeout=7200)
            lines = [l for l in r.stdout.splitlines() if l.startswith(("OK", "VIOLATION", "KNOWN", "INFRA"))]
            verdict = [l for l in lines if l.startswith(("VIOLATION", "OK", "INFRA"))]
            replay = None
            for l in verdict:
                if "replay=" in l:
                    path = l.split("replay=")[1].split()[0]
                    try:
                        rp = json.load(open(path))
                        replay = {"kind": rp.get("kind"), "function": rp.get("function"),
                                  "observed": str(rp.get("observed"))[:300],
                                  "broken": [(b.get("kind"), b.get("name"), str(b.get("message"))[:160])
                                             for b in rp.get("broken", [])][:3]}
                    except Exception as e:  # noqa
                        replay = {"error": str(e)}
            checks[p] = {"exit": r.returncode, "verdict": [v[:200] for v in verdict], "replay": replay,
                         "wall_s": round(time.time() - t0, 1)}
            print(p, "exit", r.returncode, verdict[:1], replay)
        out = os.path.join(VERIF, "seeded", name)
        os.makedirs(out, exist_ok=True)
        if os.path.realpath(src) != os.path.realpath(out):
            shutil.copy(src + "/patch.diff", out + "/patch.diff")
            shutil.copy(src + "/demo.py", out + "/demo.py")
        meta = {}
        if os.path.exists(src + "/meta.json"):
            try:
                meta = json.load(open(src + "/meta.json"))
            except Exception:  # noqa
                meta = {"raw_meta": open(src + "/meta.json").read()[:2000]}
        meta.update({
            "property": prop,
            "seeded_by": "independent sub-agent given only the property text and a scratch worktree",
            "demo_confirmed": confirmed,
            "demo_result": {"clean": res["clean"], "changed": res["mut"]},
            "pinned_tests_failing_with_change": base,
            "what_was_run": ["scratch copy of /repo + patch -p1", "demo.py on clean and changed copy",
                             "D3_REPO=<changed copy> /venv/bin/python harness/check.py %s" % " / ".join([prop] + also)],
            "checks": checks,
            "caught": any(c["exit"] == 1 for c in checks.values()),
        })
        json.dump(meta, open(out + "/meta.json", "w"), indent=1)
        return 0
    finally:
        shutil.rmtree(w, ignore_errors=True)
        sh("/venv/bin/python harness/gen_constants.py; /venv/bin/python harness/py2lean.py", cwd=VERIF)


if __name__ == "__main__":
    sys.exit(main())
