#!/bin/bash
# try_seed.sh <PROP> <dir with patch.diff + demo.py> [extra props...]
# Applies the patch to a scratch copy of /repo (outside /repo and /verif), confirms the demonstration
# (PASS on the clean copy, FAIL with the change), runs the quick check(s) against the scratch copy via D3_REPO,
# and removes the copy.
set -u
PROP=$1; DIR=$2; shift 2
W=/tmp/seedtry_$$
mkdir -p $W
rsync -a --exclude .git --exclude htmlcov --exclude doc --exclude '__pycache__' /repo/ $W/clean/
rsync -a $W/clean/ $W/mut/
( cd $W/mut && patch -p1 -s < $DIR/patch.diff ) || { echo "PATCH DOES NOT APPLY"; rm -rf $W; exit 3; }
echo "--- demo on clean copy"; D3_PATH=$W/clean /venv/bin/python $DIR/demo.py 2>&1 | tail -2; echo "exit=$?"
echo "--- demo on changed copy"; D3_PATH=$W/mut /venv/bin/python $DIR/demo.py 2>&1 | tail -2; echo "exit=$?"
for P in $PROP "$@"; do
  echo "--- check $P on changed copy"
  ( cd /verif && D3_REPO=$W/mut /venv/bin/python harness/check.py $P 2>&1 | grep -E "^(OK|VIOLATION|KNOWN|INFRA)" | cut -c1-220 )
  ls -t /verif/replays/$P-*.json 2>/dev/null | head -1 | xargs -r -I{} /venv/bin/python -c "
import json,sys; r=json.load(open('{}')); print('   replay:', r.get('kind'), '|', r.get('function'), '|', str(r.get('observed'))[:160]); print('   broken:', [(b.get('kind'), b.get('name'), str(b.get('message'))[:120]) for b in r.get('broken',[])][:3])"
done
rm -rf $W
# restore generated constants from the real repo
( cd /verif && /venv/bin/python harness/gen_constants.py >/dev/null && /venv/bin/python harness/py2lean.py >/dev/null )
