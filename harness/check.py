#!/venv/bin/python
"""check.py Cxx [--tier quick|thorough] [--replay path]

One entry point for every property.  See core.py for the verdict protocol.
"""
import argparse
import importlib
import json
import os
import sys
import time
import traceback

HERE = os.path.dirname(os.path.abspath(__file__))
sys.path.insert(0, HERE)
import core  # noqa: E402


def main():
    ap = argparse.ArgumentParser()
    ap.add_argument("prop")
    ap.add_argument("--tier", default=os.environ.get("VERIF_TIER", "quick"))
    ap.add_argument("--replay", default=None)
    ap.add_argument("--no-lean", action="store_true", help="development only: skip build+audit")
    a = ap.parse_args()
    prop = a.prop.upper()
    tier = a.tier if a.tier in ("quick", "thorough") else "quick"
    try:
        seed = int(os.environ.get("VERIF_SEED", "0"))
    except ValueError:
        seed = 0
    core.setup_impl(jit=False)
    mod = importlib.import_module("props." + prop.lower())
    ctx = core.Ctx(prop, tier, seed)

    if a.replay:
        payload = json.load(open(a.replay))
        ok = mod.replay(ctx, payload)
        print("REPLAY %s: %s" % (a.replay, "property holds on this input" if ok else "FAILS"))
        return 0 if ok else 1

    try:
        return run(ctx, mod, a)
    except core.Infra as e:
        print("INFRASTRUCTURE ERROR: %s" % e)
        return 2
    except Exception:
        traceback.print_exc()
        print("INFRASTRUCTURE ERROR (exception in check)")
        return 2


def guarded_phase(ctx, name, fn):
    """An exception while the harness digests what the implementation returned is not an infrastructure error:
    on the unchanged tree these phases run clean, so it means the implementation produced something the model of
    the code does not produce (wrong shapes, missing attributes, out-of-range indices …). It is recorded as a broken
    correspondence (the failing-input search still decides whether a concrete violating input is reported)."""
    # phase watchdog: a phase that runs far beyond its budget means a call into the implementation does not return
    # (the per-call watchdogs of the harness modules catch most of these; this is the safety net). The timer
    # interrupts the main thread; pure-Python loops (interpreted engine) are interruptible.
    import _thread
    import threading
    limit = float(os.environ.get("D3_PHASE_LIMIT_S", "600" if ctx.tier == "quick" else "14400"))
    fired = []

    def _fire():
        fired.append(True)
        _thread.interrupt_main()
    timer = threading.Timer(limit, _fire)
    timer.daemon = True
    timer.start()
    try:
        fn(ctx)
    except core.Infra:
        raise
    except KeyboardInterrupt:
        if not fired:
            raise
        ctx.broke("correspondence", "phase watchdog: " + name,
                  "the %s phase did not finish within %.0f s (quick runs take well under two minutes on the unchanged "
                  "tree): a call into the implementation does not return; interrupted at:\n%s"
                  % (name, limit, traceback.format_exc()[-1500:]))
        ctx.fail("non-termination during " + name, {"phase": name, "limit_s": limit,
                                                    "input_being_processed": core.jsonable(getattr(ctx, "current_input", None))},
                 "no return within %.0f s" % limit, "every call returns (C19) and the check completes",
                 "phase watchdog")
    except Exception as e:  # noqa
        tb = traceback.format_exc()
        ctx.broke("correspondence", "harness exception in " + name,
                  "%s: %s\n%s" % (type(e).__name__, e, tb[-1200:]))
        ctx.notes.append("exception in %s phase: %s" % (name, type(e).__name__))
    finally:
        timer.cancel()


def run(ctx, mod, a):
    prop = ctx.prop
    theorems, audit_problems = {}, []
    checker = ("cd lean && lake build D3.Driver.%s D3.Audit.%s && LEAN_PATH=.lake/build/lib/lean lean D3/Audit/%s.lean  "
               "(#print axioms of every property theorem; thorough: lake env leanchecker D3.Properties.%s)"
               % (prop, prop, prop, prop))
    gen_info = {}
    driver_ok = True
    if not a.no_lean:
        with core.LeanLock():
            gen = core.regenerate()
            gen_info = {k: bool(v[0]) for k, v in gen.items()}
            ok_drv, log_drv = core.lake_build(["D3.Driver." + prop] + list(getattr(mod, "LEAN_TARGETS", [])))
            if not ok_drv:
                errs = core.build_errors(log_drv)
                ctx.broke("theorem", (errs[0]["file"] if errs else "lake build driver"), errs[:5] or log_drv[-1500:])
            driver_ok = ok_drv
            ok, log = core.lake_build(["D3.Audit." + prop])
            if not ok:
                errs = core.build_errors(log)
                name = errs[0]["file"] if errs else "lake build"
                ctx.broke("theorem", name, errs[:5] or log[-1500:])
            else:
                theorems, audit_problems = core.audit(prop)
                for pr in audit_problems:
                    ctx.broke("theorem", "audit", pr)
                if ctx.thorough and getattr(mod, "LEANCHECKER", True):
                    mods = ["D3.Properties." + prop]
                    okc, logc = core.leanchecker(mods)
                    ctx.extra["leanchecker"] = "ok" if okc else logc[-400:]
                    if not okc:
                        ctx.broke("theorem", "leanchecker", logc[-800:])
    model_usable = driver_ok

    # 4. correspondence (needs the driver, i.e. a model that builds)
    if model_usable or a.no_lean:
        guarded_phase(ctx, "correspondence", mod.correspondence)
    else:
        ctx.notes.append("model does not build: correspondence skipped, search only")
    # source fingerprints of the modelled functions: a changed function multiplies the search budget
    modelled = [m for m in getattr(mod, "MODELLED", []) if isinstance(m, str) and m.count(":") == 1] \
        or core.anchor_functions(ctx.prop)
    changed, unsnapped = core.changed_sources(ctx.prop, modelled)
    ctx.extra["modelled_functions"] = len(modelled)
    ctx.extra["modelled_functions_changed_since_snapshot"] = changed
    if unsnapped:
        ctx.extra["modelled_functions_without_snapshot"] = unsnapped
    # 5. property oracle on the real code (always run; deeper when something broke or a modelled function changed)
    ctx.extra["search_boost"] = bool(ctx.broken) or bool(changed) or bool(os.environ.get("D3_FORCE_BOOST"))
    guarded_phase(ctx, "search", mod.search)

    # ---- verdict
    known = [k for k in core.load_known() if k.get("property") == prop and k.get("status") == "known"]
    lines = []
    new_fail = []
    seen_known = {}
    for f in ctx.failing:
        fid = f.get("finding")
        if fid and any(k["id"] == fid for k in known):
            seen_known.setdefault(fid, f)
        else:
            new_fail.append(f)
    for k in known:
        if k["id"] in seen_known:
            lines.append("KNOWN-FINDING: property=%s %s [%s]" % (prop, k["what"], k["id"]))
    # broken proof/correspondence entries that are explained by a known finding are not violations
    broken = [b for b in ctx.broken if not (b.get("finding") and any(k["id"] == b["finding"] for k in known))]

    violation = False
    if new_fail:
        violation = True
        f = new_fail[0]
        path = ctx.write_replay({"kind": "failing-input", **core.jsonable(f),
                                 "others": core.jsonable(new_fail[1:6]),
                                 "broken": core.jsonable(broken[:5])})
        lines.append("VIOLATION property=%s replay=%s" % (prop, path))
    elif broken:
        violation = True
        path = ctx.write_replay({"kind": "no-failing-input-found", "broken": core.jsonable(broken[:10])})
        lines.append("VIOLATION property=%s replay=%s no-failing-input-found" % (prop, path))

    write_evidence(ctx, mod, theorems, checker, gen_info, seen_known, violation, len(new_fail))
    for ln in lines:
        print(ln)
    if not violation:
        print("OK property=%s tier=%s seed=%d theorems=%d evaluations=%d wall=%.1fs" % (
            prop, ctx.tier, ctx.seed, len(theorems), ctx.evaluations, time.time() - ctx.t0))
    return 1 if violation else 0


def write_evidence(ctx, mod, theorems, checker, gen_info, seen_known, violation, n_new):
    obligations = len(theorems)
    discharged = sum(1 for t, ax in theorems.items() if set(ax) <= core.ALLOWED_AXIOMS)
    if any(b["kind"] == "theorem" for b in ctx.broken):
        discharged = min(discharged, max(0, obligations - 1)) if obligations else 0
    cov = {
        "obligations": max(obligations, 1),
        "discharged": discharged if obligations else 0,
        "checker_cmd": checker,
        "trusted_base": [
            "Lean 4.33 kernel; Mathlib v4.33; axioms ⊆ {propext, Classical.choice, Quot.sound} (audited by #print axioms on every run)",
            "theorems are about the executable Lean model at exact real arithmetic; float rounding is not modelled",
            "model↔code tie: correspondence harness (this run's counts below) + regenerated D3/Gen/Constants.lean",
            "python harness, numpy; oracles of the failing-input search",
        ] + list(getattr(mod, "TRUSTED", [])),
        "theorems": {k: v for k, v in sorted(theorems.items())},
        "partial_theorems": getattr(mod, "PARTIAL", {}),
        "evaluations": max(ctx.evaluations, 1),
        "distinct_nontrivial": len(ctx.distinct),
        "rule": getattr(mod, "RULE", ""),
        "samples": ctx.samples or ["(none)"],
        "streams": ctx.streams,
        "branch_coverage": ctx.branches,
        "regenerated": gen_info,
        "broken": core.jsonable(ctx.broken[:10]),
        "known_findings_reproduced": sorted(seen_known),
        "new_failing_inputs": n_new,
        "notes": ctx.notes,
        "explanation": getattr(mod, "EXPLANATION", ""),
    }
    if cov["discharged"] < 1:
        # no theorem was checked in this run (build broke, or a development run with --no-lean): the proof keys
        # would be meaningless, report the exploration keys only and say so
        cov["proof_obligations_note"] = ("no proof obligation was discharged in this run (obligations=%d): "
                                         "the model did not build or Lean was skipped" % obligations)
        del cov["obligations"], cov["discharged"]
        cov["distinct_nontrivial"] = max(cov["distinct_nontrivial"], 0)
    cov.update(core.jsonable(ctx.extra))
    ev = {
        "property_id": ctx.prop,
        "tier": ctx.tier,
        "seed": ctx.seed,
        "level": "proof",
        "coverage": cov,
        "assumptions": list(getattr(mod, "ASSUMPTIONS", [])),
        "wall_s": round(time.time() - ctx.t0, 2),
        "violations": 1 if violation else 0,
    }
    d = os.path.join(core.VERIF, "evidence")
    if os.environ.get("D3_REPO"):
        # development runs against a scratch copy of the repository (seeded changes, rewrites) must not overwrite the
        # evidence of the registered checks, which describes /repo itself
        d = os.path.join(core.VERIF, ".scratch", "evidence-scratch-repo")
    os.makedirs(d, exist_ok=True)
    with open(os.path.join(d, ctx.prop + ".json"), "w") as f:
        json.dump(ev, f, indent=1, default=str)


if __name__ == "__main__":
    sys.exit(main())
