import D3.Model.Scalar
import D3.Gen.Constants
import D3.Driver.All
import D3.Audit.C05
