-- GENERATED from Driver.lean by harness/gen_driver_all.py (driver of one property only)
/-
Line-protocol driver: `lake env lean --run Driver.lean < cases > results`.
Each input line:  <case-id> <fn> <F|Q> <args…>
Each output line: <case-id> <result…>      (result starts with `ok` or `err`)
-/
import D3.Driver.C12

open D3

def runLine (line : String) : String :=
  match (line.splitOn " ").filter (· ≠ "") with
  | id :: fn :: arith :: args =>
    let p : Option (P String) :=
      if arith = "F" then Drv12.dispatch (α := Float) fn
      else if arith = "Q" then Drv12.dispatch (α := Rat) fn
      else none
    match p with
    | none => s!"{id} bad unknown-fn-or-arith {fn} {arith}"
    | some p =>
      match p.run args with
      | .ok (out, _) => s!"{id} {out}"
      | .error e => s!"{id} bad {e}"
  | _ => "? bad line"

partial def loop (h : IO.FS.Stream) (out : IO.FS.Stream) : IO Unit := do
  let line ← h.getLine
  if line.isEmpty then return ()
  let line := line.trimAscii.toString
  if !line.isEmpty then
    out.putStrLn (runLine line)
  loop h out

def main : IO Unit := do
  let out ← IO.getStdout
  loop (← IO.getStdin) out
  out.flush
