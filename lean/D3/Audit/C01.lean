import D3.Properties.C01
#print axioms D3.Gjk.progress_gap
#print axioms D3.Gjk.weak_duality
