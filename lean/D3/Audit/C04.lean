import D3.Model.Containment
