import D3.Properties.C20
#print axioms D3.C20.query_index_safe
#print axioms D3.C20.query_tree_index_safe
#print axioms D3.C20.empty_tree_no_read
#print axioms D3.C20.empty_other_tree_no_read
#print axioms D3.C20.insert_assert_never_fires
#print axioms D3.C20.typed_signatures_ok
#print axioms D3.C20.insert_index_safe
#print axioms D3.C20.halfplane_buffer_index_safe
