import D3.Properties.C19
#print axioms D3.C19.capped_loop_bound
#print axioms D3.C19.libccd_support_evals_le
#print axioms D3.C19.mpr_discover_support_evals_le
#print axioms D3.C19.mpr_penetration_capped_evals_le
#print axioms D3.C19.epa_support_evals_le
#print axioms D3.C19.nesterov_support_evals_le
#print axioms D3.C19.jolt_distance_terminates
#print axioms D3.C19.jolt_intersection_terminates
#print axioms D3.C19.jolt_no_infinite_run
#print axioms D3.C19.hill_climbing_bound
#print axioms D3.C19.hill_climbing_bound_anyArith
#print axioms D3.C19.hill_climbing_asIs_before_fix_counterexample
#print axioms D3.Term.hillClimb_terminates_any
#print axioms D3.Term.distStep_unknown
#print axioms D3.Term.interStep_unknown
