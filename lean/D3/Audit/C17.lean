import D3.Properties.C17
#print axioms D3.C17.volume_nonneg
#print axioms D3.C17.volume_zero_iff_coplanar
#print axioms D3.C17.volume_pos_iff_not_coplanar
#print axioms D3.C17.aabb_helper_encloses_tight
#print axioms D3.C17.com_is_weighted_mean
#print axioms D3.C17.com_undefined_iff
#print axioms D3.C17.box_tiling_exact
#print axioms D3.C17.box_vertices_and_potentials
#print axioms D3.C17.box_topology
#print axioms D3.C17.box_assert_only_without_zero_axis
#print axioms D3.C17.cube_tiling_exact
#print axioms D3.C17.cube_vertices_and_potentials
#print axioms D3.C17.cube_topology
#print axioms D3.TetraMesh.makeTetrahedralBox_good
#print axioms D3.TetraMesh.boxFromCentral_good
