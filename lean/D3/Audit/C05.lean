import D3.Properties.C05
import D3.Gen.Link05
#print axioms D3.C05.query_exact
#print axioms D3.C05.query_tree_exact
#print axioms D3.C05.empty_query_ok
#print axioms D3.C05.history_leaves
#print axioms D3.Aabb.queryLoop_eq
#print axioms D3.Aabb.queryLoop_break_eq
#print axioms D3.Aabb.queryTreeLoop_eq
#print axioms D3.Aabb.collect_exact
#print axioms D3.Aabb.collectTree_exact
#print axioms D3.Aabb.wfCheck_sound
#print axioms D3.Aabb.insert_spec
#print axioms D3.Gen.K05.aabb_overlap_link
#print axioms D3.Gen.K05.merge_aabb_link
#print axioms D3.Gen.K05.aabb_volume_link
