import D3.Properties.C05
import D3.Gen.Link05
import D3.Properties.C05Insert
#print axioms D3.C05.query_exact
#print axioms D3.C05.query_tree_exact
#print axioms D3.C05.empty_query_ok
#print axioms D3.C05.history_leaves
#print axioms D3.Aabb.queryLoop_eq
#print axioms D3.Aabb.queryLoop_break_eq
#print axioms D3.Aabb.queryTreeLoop_eq
#print axioms D3.Aabb.collect_exact
#print axioms D3.Aabb.collectTree_exact
#print axioms D3.Aabb.wfCheck_sound
#print axioms D3.Aabb.insert_spec
#print axioms D3.Gen.K05.aabb_overlap_link
#print axioms D3.Gen.K05.merge_aabb_link
#print axioms D3.Gen.K05.aabb_volume_link
#print axioms D3.C05Insert.insertLeaf_refines
#print axioms D3.C05Insert.insertLeaf_refines_checked
#print axioms D3.C05Insert.insertLeaf_refines_empty
#print axioms D3.C05Insert.insertMany_refines
#print axioms D3.C05Insert.insertMany_refines_empty
#print axioms D3.C05Insert.history_wf
#print axioms D3.C05Insert.history_query_exact
#print axioms D3.C05Insert.history_wf_asIs
#print axioms D3.Aabb.rd_upd
#print axioms D3.Aabb.descend_eq
#print axioms D3.Aabb.fixUpward_graft
#print axioms D3.Aabb.insertLeaf_exec
#print axioms D3.Aabb.relink5_relinked
#print axioms D3.Aabb.graft_rep
#print axioms D3.Aabb.insertLeaf_refines_struct
#print axioms D3.Aabb.insertLeaf_empty_struct
#print axioms D3.Aabb.wfCheck_complete
#print axioms D3.Aabb.argsortLo0_perm
#print axioms D3.Aabb.insertAabbs_step
#print axioms D3.Aabb.history_from
#print axioms D3.Aabb.insertPreB_sound
