/-
ℝ-level lemmas about the mesh helpers of `D3/Model/TetraMesh.lean`
(`tetrahedral_mesh_volumes`, `tetrahedral_mesh_aabbs`, `center_of_mass_tetrahedral_mesh`,
`vertices[tetrahedra]`).
-/
import D3.Model.TetraMesh
import D3.Spec.Vec
import Mathlib.Tactic.NormNum
import Mathlib.Tactic.FieldSimp

namespace D3
namespace TetraMesh

theorem six_lit : (6.0 : ℝ) = 6 := by norm_num
theorem four_lit : (4.0 : ℝ) = 4 := by norm_num
theorem half_lit : (0.5 : ℝ) = 1 / 2 := by norm_num

/-! ### volumes -/

theorem det3_def (t : TetPts ℝ) : det3 t =
    ((t.p1.y - t.p0.y) * (t.p2.z - t.p0.z) - (t.p1.z - t.p0.z) * (t.p2.y - t.p0.y)) * (t.p3.x - t.p0.x) +
    ((t.p1.z - t.p0.z) * (t.p2.x - t.p0.x) - (t.p1.x - t.p0.x) * (t.p2.z - t.p0.z)) * (t.p3.y - t.p0.y) +
    ((t.p1.x - t.p0.x) * (t.p2.y - t.p0.y) - (t.p1.y - t.p0.y) * (t.p2.x - t.p0.x)) * (t.p3.z - t.p0.z) := by
  simp only [det3, V3.dot_def, V3.cross, V3.sub_x, V3.sub_y, V3.sub_z]

theorem tetraVolume_eq (t : TetPts ℝ) : tetraVolume t = |det3 t| / 6 := by
  unfold tetraVolume; rw [absS_real, six_lit]

theorem tetraVolume_nonneg (t : TetPts ℝ) : 0 ≤ tetraVolume t := by
  rw [tetraVolume_eq]; positivity

theorem tetraVolume_of_pos {t : TetPts ℝ} (h : 0 < det3 t) : tetraVolume t = det3 t / 6 := by
  rw [tetraVolume_eq, abs_of_pos h]

theorem tetraVolume_of_neg {t : TetPts ℝ} (h : det3 t < 0) : tetraVolume t = -det3 t / 6 := by
  rw [tetraVolume_eq, abs_of_neg h]

theorem tetraVolume_eq_zero_iff (t : TetPts ℝ) : tetraVolume t = 0 ↔ det3 t = 0 := by
  rw [tetraVolume_eq]
  constructor
  · intro h
    have : |det3 t| = 0 := by linarith
    exact abs_eq_zero.mp this
  · intro h; rw [h]; simp

theorem tetraVolume_pos_iff (t : TetPts ℝ) : 0 < tetraVolume t ↔ det3 t ≠ 0 := by
  rw [← not_iff_not]
  simp only [not_lt, ne_eq, not_not]
  rw [← tetraVolume_eq_zero_iff]
  constructor
  · intro h; exact le_antisymm h (tetraVolume_nonneg t)
  · intro h; rw [h]

/-- the four points lie in a common plane: some non-zero normal is orthogonal to all three edge
vectors emanating from `p0` -/
def Coplanar (t : TetPts ℝ) : Prop :=
  ∃ n : V3 ℝ, n ≠ ⟨0, 0, 0⟩ ∧ V3.dot n (t.p1 - t.p0) = 0 ∧ V3.dot n (t.p2 - t.p0) = 0 ∧
    V3.dot n (t.p3 - t.p0) = 0

/-- a non-zero vector orthogonal to three vectors forces their determinant to vanish -/
theorem det_zero_of_normal (a b c n : V3 ℝ) (hn : n ≠ ⟨0, 0, 0⟩)
    (ha : V3.dot n a = 0) (hb : V3.dot n b = 0) (hc : V3.dot n c = 0) :
    V3.dot (V3.cross a b) c = 0 := by
  simp only [V3.dot_def, V3.cross] at *
  have hx : (V3.dot (V3.cross a b) c) * n.x = 0 := by
    simp only [V3.dot_def, V3.cross]
    linear_combination (b.y * c.z - b.z * c.y) * ha + (a.z * c.y - a.y * c.z) * hb +
      (a.y * b.z - a.z * b.y) * hc
  have hy : (V3.dot (V3.cross a b) c) * n.y = 0 := by
    simp only [V3.dot_def, V3.cross]
    linear_combination (b.z * c.x - b.x * c.z) * ha + (a.x * c.z - a.z * c.x) * hb +
      (a.z * b.x - a.x * b.z) * hc
  have hz : (V3.dot (V3.cross a b) c) * n.z = 0 := by
    simp only [V3.dot_def, V3.cross]
    linear_combination (b.x * c.y - b.y * c.x) * ha + (a.y * c.x - a.x * c.y) * hb +
      (a.x * b.y - a.y * b.x) * hc
  simp only [V3.dot_def, V3.cross] at hx hy hz
  by_contra hd
  have nx : n.x = 0 := (mul_eq_zero.mp hx).resolve_left hd
  have ny : n.y = 0 := (mul_eq_zero.mp hy).resolve_left hd
  have nz : n.z = 0 := (mul_eq_zero.mp hz).resolve_left hd
  exact hn (V3.ext' nx ny nz)

/-- for a non-zero vector `e` there is a non-zero vector orthogonal to it and to everything
parallel to it -/
theorem exists_normal_of_parallel (e a b : V3 ℝ) (he : e ≠ ⟨0, 0, 0⟩)
    (ha : V3.cross e a = ⟨0, 0, 0⟩) (hb : V3.cross e b = ⟨0, 0, 0⟩) :
    ∃ n : V3 ℝ, n ≠ ⟨0, 0, 0⟩ ∧ V3.dot n e = 0 ∧ V3.dot n a = 0 ∧ V3.dot n b = 0 := by
  simp only [V3.cross, V3.mk.injEq] at ha hb
  obtain ⟨ha1, ha2, ha3⟩ := ha
  obtain ⟨hb1, hb2, hb3⟩ := hb
  by_cases hxy : e.x = 0 ∧ e.y = 0
  · obtain ⟨ex, ey⟩ := hxy
    have ez : e.z ≠ 0 := by
      intro h; exact he (V3.ext' ex ey h)
    refine ⟨⟨1, 0, 0⟩, by simp, ?_, ?_, ?_⟩
    · simp [V3.dot_def, ex]
    · simp only [V3.dot_def]
      rw [ex] at ha2
      have : e.z * a.x = 0 := by linarith
      have := (mul_eq_zero.mp this).resolve_left ez
      simp [this]
    · simp only [V3.dot_def]
      rw [ex] at hb2
      have : e.z * b.x = 0 := by linarith
      have := (mul_eq_zero.mp this).resolve_left ez
      simp [this]
  · refine ⟨⟨-e.y, e.x, 0⟩, ?_, ?_, ?_, ?_⟩
    · intro h
      simp only [V3.mk.injEq] at h
      exact hxy ⟨h.2.1, by linarith [h.1]⟩
    · simp only [V3.dot_def]; ring
    · simp only [V3.dot_def]; linarith
    · simp only [V3.dot_def]; linarith

theorem det_zero_imp_coplanar (t : TetPts ℝ) (h : det3 t = 0) : Coplanar t := by
  unfold Coplanar
  unfold det3 at h
  generalize t.p1 - t.p0 = a at *
  generalize t.p2 - t.p0 = b at *
  generalize t.p3 - t.p0 = c at *
  by_cases h1 : V3.cross a b = ⟨0, 0, 0⟩
  · by_cases h2 : V3.cross a c = ⟨0, 0, 0⟩
    · by_cases ha : a = ⟨0, 0, 0⟩
      · -- a = 0: any normal of b and c
        by_cases h3 : V3.cross b c = ⟨0, 0, 0⟩
        · by_cases hb : b = ⟨0, 0, 0⟩
          · by_cases hc : c = ⟨0, 0, 0⟩
            · refine ⟨⟨1, 0, 0⟩, by simp, ?_, ?_, ?_⟩ <;> simp [ha, hb, hc, V3.dot_def]
            · obtain ⟨n, hn, h1', h2', h3'⟩ := exists_normal_of_parallel c c c hc
                (by simp [V3.cross, mul_comm]) (by simp [V3.cross, mul_comm])
              exact ⟨n, hn, by simp [ha, V3.dot_def], by simp [hb, V3.dot_def], h1'⟩
          · obtain ⟨n, hn, h1', h2', h3'⟩ := exists_normal_of_parallel b b c hb
              (by simp [V3.cross, mul_comm]) h3
            exact ⟨n, hn, by simp [ha, V3.dot_def], h1', h3'⟩
        · refine ⟨V3.cross b c, h3, ?_, ?_, ?_⟩
          · simp [ha, V3.dot_def]
          · simp only [V3.dot_def, V3.cross]; ring
          · simp only [V3.dot_def, V3.cross]; ring
      · obtain ⟨n, hn, h1', h2', h3'⟩ := exists_normal_of_parallel a b c ha h1 h2
        exact ⟨n, hn, h1', h2', h3'⟩
    · refine ⟨V3.cross a c, h2, ?_, ?_, ?_⟩
      · simp only [V3.dot_def, V3.cross]; ring
      · simp only [V3.dot_def, V3.cross] at h ⊢; linarith
      · simp only [V3.dot_def, V3.cross]; ring
  · refine ⟨V3.cross a b, h1, ?_, ?_, h⟩
    · simp only [V3.dot_def, V3.cross]; ring
    · simp only [V3.dot_def, V3.cross]; ring

theorem det3_eq_zero_iff_coplanar (t : TetPts ℝ) : det3 t = 0 ↔ Coplanar t := by
  constructor
  · exact det_zero_imp_coplanar t
  · rintro ⟨n, hn, h1, h2, h3⟩
    exact det_zero_of_normal _ _ _ n hn h1 h2 h3

/-! ### `vertices[tetrahedra]` -/

/-- total version of `tetPoints` (default `0` outside the array; only used in range) -/
def tetPtsD (vs : List (V3 ℝ)) (t : Tet) : TetPts ℝ :=
  ⟨vs.getD t.i0 V3.zero, vs.getD t.i1 V3.zero, vs.getD t.i2 V3.zero, vs.getD t.i3 V3.zero⟩

def Tet.inRange (t : Tet) (n : Nat) : Prop := t.i0 < n ∧ t.i1 < n ∧ t.i2 < n ∧ t.i3 < n

instance (t : Tet) (n : Nat) : Decidable (t.inRange n) := by unfold Tet.inRange; infer_instance

theorem getV_of_lt (vs : List (V3 ℝ)) (i : Nat) (h : i < vs.length) :
    getV vs i = .ok (vs.getD i V3.zero) := by
  unfold getV
  rw [List.getElem?_eq_getElem h]
  simp [List.getD_eq_getElem?_getD, List.getElem?_eq_getElem h]

theorem getV_ok {vs : List (V3 ℝ)} {i : Nat} {p : V3 ℝ} (h : getV vs i = .ok p) :
    vs[i]? = some p := by
  unfold getV at h
  split at h
  · rename_i q hq; cases h; exact hq
  · cases h

theorem tetPoints_of_inRange (vs : List (V3 ℝ)) (t : Tet) (h : t.inRange vs.length) :
    tetPoints vs t = .ok (tetPtsD vs t) := by
  obtain ⟨h0, h1, h2, h3⟩ := h
  unfold tetPoints
  rw [getV_of_lt vs _ h0, getV_of_lt vs _ h1, getV_of_lt vs _ h2, getV_of_lt vs _ h3]
  rfl

theorem mapM_tetPoints (vs : List (V3 ℝ)) : ∀ (ts : List Tet), (∀ t ∈ ts, t.inRange vs.length) →
    ts.mapM (tetPoints vs) = .ok (ts.map (tetPtsD vs))
  | [], _ => rfl
  | t :: ts, h => by
    rw [List.mapM_cons, tetPoints_of_inRange vs t (h t (by simp)),
      mapM_tetPoints vs ts (fun t' ht' => h t' (by simp [ht']))]
    rfl

theorem tetrahedraPoints_of_inRange (m : Mesh ℝ) (h : ∀ t ∈ m.tets, t.inRange m.vertices.length) :
    m.tetrahedraPoints = .ok (m.tets.map (tetPtsD m.vertices)) :=
  mapM_tetPoints m.vertices m.tets h

theorem volumes_of_inRange (m : Mesh ℝ) (h : ∀ t ∈ m.tets, t.inRange m.vertices.length) :
    m.volumes = .ok (meshVolumes (m.tets.map (tetPtsD m.vertices))) := by
  unfold Mesh.volumes
  rw [tetrahedraPoints_of_inRange m h]
  rfl

/-! ### sums -/

theorem sumS_foldl (l : List ℝ) (a : ℝ) : l.foldl (· + ·) a = a + l.sum := by
  induction l generalizing a with
  | nil => simp
  | cons x xs ih => simp [List.foldl_cons, ih, add_assoc]

theorem sumS_eq_sum (l : List ℝ) : sumS l = l.sum := by
  unfold sumS; rw [sumS_foldl]; simp

theorem sumS_cons (x : ℝ) (l : List ℝ) : sumS (x :: l) = x + sumS l := by
  simp [sumS_eq_sum]

theorem sumS_nil : sumS ([] : List ℝ) = 0 := by simp [sumS_eq_sum]

theorem sumS_map_div (l : List ℝ) (c : ℝ) : sumS (l.map (· / c)) = sumS l / c := by
  induction l with
  | nil => simp [sumS_nil]
  | cons x xs ih => simp only [List.map_cons, sumS_cons, ih]; ring

theorem sumS_nonneg (l : List ℝ) (h : ∀ x ∈ l, 0 ≤ x) : 0 ≤ sumS l := by
  induction l with
  | nil => simp [sumS_nil]
  | cons x xs ih =>
    rw [sumS_cons]
    have := h x (by simp)
    have := ih (fun y hy => h y (by simp [hy]))
    linarith

/-- volumes of a list of positively oriented tetrahedra: `det/6` each -/
theorem meshVolumes_of_pos (ts : List (TetPts ℝ)) (h : ∀ t ∈ ts, 0 < det3 t) :
    meshVolumes ts = (ts.map det3).map (· / 6) := by
  unfold meshVolumes
  rw [List.map_map]
  apply List.map_congr_left
  intro t ht
  simp [tetraVolume_of_pos (h t ht)]

theorem meshVolumes_of_neg (ts : List (TetPts ℝ)) (h : ∀ t ∈ ts, det3 t < 0) :
    meshVolumes ts = (ts.map fun t => -det3 t).map (· / 6) := by
  unfold meshVolumes
  rw [List.map_map]
  apply List.map_congr_left
  intro t ht
  simp [tetraVolume_of_neg (h t ht)]

/-! ### AABBs -/

theorem min4_le (a b c d : ℝ) : min4 a b c d ≤ a ∧ min4 a b c d ≤ b ∧ min4 a b c d ≤ c ∧ min4 a b c d ≤ d := by
  unfold min4
  refine ⟨?_, ?_, ?_, ?_⟩
  · exact le_trans (min_le_left _ _) (le_trans (min_le_left _ _) (min_le_left _ _))
  · exact le_trans (min_le_left _ _) (le_trans (min_le_left _ _) (min_le_right _ _))
  · exact le_trans (min_le_left _ _) (min_le_right _ _)
  · exact min_le_right _ _

theorem le_max4 (a b c d : ℝ) : a ≤ max4 a b c d ∧ b ≤ max4 a b c d ∧ c ≤ max4 a b c d ∧ d ≤ max4 a b c d := by
  unfold max4
  refine ⟨?_, ?_, ?_, ?_⟩
  · exact le_trans (le_trans (le_max_left _ _) (le_max_left _ _)) (le_max_left _ _)
  · exact le_trans (le_trans (le_max_right _ _) (le_max_left _ _)) (le_max_left _ _)
  · exact le_trans (le_max_right _ _) (le_max_left _ _)
  · exact le_max_right _ _

theorem min4_mem (a b c d : ℝ) : min4 a b c d = a ∨ min4 a b c d = b ∨ min4 a b c d = c ∨ min4 a b c d = d := by
  unfold min4
  rcases min_choice (min (min a b) c) d with h | h
  · rw [h]
    rcases min_choice (min a b) c with h' | h'
    · rw [h']
      rcases min_choice a b with h'' | h'' <;> simp [h'']
    · simp [h']
  · simp [h]

theorem max4_mem (a b c d : ℝ) : max4 a b c d = a ∨ max4 a b c d = b ∨ max4 a b c d = c ∨ max4 a b c d = d := by
  unfold max4
  rcases max_choice (max (max a b) c) d with h | h
  · rw [h]
    rcases max_choice (max a b) c with h' | h'
    · rw [h']
      rcases max_choice a b with h'' | h'' <;> simp [h'']
    · simp [h']
  · simp [h]

/-! ### centre of mass -/

theorem weightedSum_foldl (ts : List (TetPts ℝ)) (a : V3 ℝ) :
    ts.foldl (fun acc t => acc + (tetraVolume t) * (centroid t)) a =
      ⟨a.x + (ts.map fun t => tetraVolume t * (centroid t).x).sum,
       a.y + (ts.map fun t => tetraVolume t * (centroid t).y).sum,
       a.z + (ts.map fun t => tetraVolume t * (centroid t).z).sum⟩ := by
  induction ts generalizing a with
  | nil => simp
  | cons t ts ih =>
    rw [List.foldl_cons, ih]
    apply V3.ext' <;> simp [add_assoc]

theorem weightedSum_eq (ts : List (TetPts ℝ)) :
    weightedSum ts =
      ⟨(ts.map fun t => tetraVolume t * (centroid t).x).sum,
       (ts.map fun t => tetraVolume t * (centroid t).y).sum,
       (ts.map fun t => tetraVolume t * (centroid t).z).sum⟩ := by
  unfold weightedSum
  rw [weightedSum_foldl]
  apply V3.ext' <;> simp [V3.zero]

theorem centroid_x (t : TetPts ℝ) : (centroid t).x = (t.p0.x + t.p1.x + t.p2.x + t.p3.x) / 4 := by
  simp [centroid, V3.sdiv, four_lit]
theorem centroid_y (t : TetPts ℝ) : (centroid t).y = (t.p0.y + t.p1.y + t.p2.y + t.p3.y) / 4 := by
  simp [centroid, V3.sdiv, four_lit]
theorem centroid_z (t : TetPts ℝ) : (centroid t).z = (t.p0.z + t.p1.z + t.p2.z + t.p3.z) / 4 := by
  simp [centroid, V3.sdiv, four_lit]

end TetraMesh
end D3
