/-
A concrete run of `_find_penetration_info` through the tolerance exit (non-vacuity of the
hypotheses of the accuracy theorems): the nested balls of `MprPenCex` with their exact support
oracle, a portal triangle in the plane `x = 3` (the boundary of `A ⊖ B` along the portal normal
is at `x = 13/4`), `mpr_tolerance = 1`.
-/
import D3.Proofs.MprPenCex

set_option linter.unusedSectionVars false
set_option linter.unusedVariables false

namespace D3
namespace MprPen
namespace Ex
open Cex

noncomputable def q1 : SP ℝ := ⟨⟨3, 1 / 2, 0⟩, ⟨15 / 4, 1 / 2, 0⟩, ⟨3 / 4, 0, 0⟩⟩
noncomputable def q2 : SP ℝ := ⟨⟨3, -1 / 2, 1 / 2⟩, ⟨15 / 4, -1 / 2, 1 / 2⟩, ⟨3 / 4, 0, 0⟩⟩
noncomputable def q3 : SP ℝ := ⟨⟨3, -1 / 2, -1 / 2⟩, ⟨15 / 4, -1 / 2, -1 / 2⟩, ⟨3 / 4, 0, 0⟩⟩
noncomputable def P : Portal ℝ := ⟨Cex.p0, q1, q2, q3⟩

theorem rows : SPIn A B q1 ∧ SPIn A B q2 ∧ SPIn A B q3 := by
  refine ⟨⟨?_, ?_, ?_⟩, ⟨?_, ?_, ?_⟩, ⟨?_, ?_, ?_⟩⟩
  all_goals first
    | (show V3.normSq (_ - c1) ≤ 4 * 4
       simp only [V3.normSq_def, sub_def, q1, q2, q3, c1]; norm_num)
    | (show V3.normSq (_ - c2) ≤ 1 / 4 * (1 / 4)
       simp only [V3.normSq_def, sub_def, q1, q2, q3, c2]; norm_num)
    | (apply V3.ext' <;> simp only [sub_def, q1, q2, q3] <;> norm_num)

theorem nondegenerate : V3.cross (P.p2.v - P.p1.v) (P.p3.v - P.p1.v) ≠ V3.zero := by
  intro h
  have := congrArg V3.x h
  simp only [cross_def, sub_def, zero_def, P, q1, q2, q3] at this
  norm_num at this

theorem dir : portalDirection q1 q2 q3 = ⟨1, 0, 0⟩ := by
  unfold portalDirection
  have : V3.cross (q2.v - q1.v) (q3.v - q1.v) = (⟨1, 0, 0⟩ : V) := by
    apply V3.ext' <;> simp only [cross_def, sub_def, q1, q2, q3] <;> norm_num
  rw [this]; exact normVector_ex 1 (by norm_num)

theorem reach : portalReachTolerance q1 q2 q3 Cex.p1.v ⟨1, 0, 0⟩ 1 = true := by
  unfold portalReachTolerance min3
  simp only [V3.dot_def, q1, q2, q3, Cex.p1]
  have := EPS_pos
  norm_num
  linarith

theorem ptt : pointToTriangle (V3.zero : V) q1.v q2.v q3.v =
    .ok (6, V3.norm ((V3.zero : V) - ⟨3, 0, 0⟩), ⟨3, 0, 0⟩) := by
  unfold pointToTriangle ptRes
  simp only [isZero_iff, V3.dot_def, sub_def, add_def, hsmul_def, zero_def, q1, q2, q3]
  norm_num

theorem depth3 : V3.norm ((V3.zero : V) - ⟨3, 0, 0⟩) = 3 := by
  rw [norm_neg, V3.norm_def]
  have : V3.normSq (⟨3, 0, 0⟩ : V) = 3 * 3 := by simp [V3.normSq_def]
  rw [this]; exact Real.sqrt_mul_self (by norm_num)

theorem weights : contactWeights P.p0.v P.p1.v P.p2.v P.p3.v ⟨1, 0, 0⟩ =
    .ok ((3 / 4, 1 / 8, 1 / 16, 1 / 16), 0) := by
  have hE : (EPS : ℝ) < 1 := by unfold EPS D3.Gen.utils__EPSILON; norm_num
  have hs : sum4 (baryMain P.p0.v P.p1.v P.p2.v P.p3.v) = 4 := by
    simp only [sum4, baryMain, V3.dot_def, cross_def, P, Cex.p0, q1, q2, q3]; norm_num
  unfold contactWeights
  simp only [hs]
  have h1 : ¬ ((4 : ℝ) < EPS) := by linarith
  have h2 : ¬ isZero (4 : ℝ) := by rw [isZero_iff]; norm_num
  simp only [h1, h2, if_false]
  simp only [baryMain, V3.dot_def, cross_def, P, Cex.p0, q1, q2, q3]
  norm_num

theorem main_sum : sum4 (baryMain P.p0.v P.p1.v P.p2.v P.p3.v) = 4 := by
  simp only [sum4, baryMain, V3.dot_def, cross_def, P, Cex.p0, q1, q2, q3]; norm_num

/-- the portal is not degenerate in the sense of the repaired `_contact_position` -/
theorem not_degenerate : ¬ ContactDegenerate P ⟨1, 0, 0⟩ := by
  have hE : (EPS : ℝ) < 1 := by unfold EPS D3.Gen.utils__EPSILON; norm_num
  intro h
  have := h.1
  rw [main_sum] at this
  linarith

theorem contact : contactPosition P ⟨1, 0, 0⟩ = .ok
    (V3.smul 0.5 (comb4 (3 / 4, 1 / 8, 1 / 16, 1 / 16) P.p0.a P.p1.a P.p2.a P.p3.a +
      comb4 (3 / 4, 1 / 8, 1 / 16, 1 / 16) P.p0.b P.p1.b P.p2.b P.p3.b), 0) := by
  rw [contactPosition_split, if_neg not_degenerate]
  unfold contactPosition_asIs_before_fix
  rw [weights]
  rfl

/-- the run: one pass through the loop, tolerance exit, face region, main contact branch -/
theorem run (maxIter : ℕ) : ∃ i : PenInfo ℝ,
    findPenetrationInfo Cex.sup P 1 maxIter = .ok i ∧ i.exit = 0 ∧ i.tri = 6 ∧ i.cpos = 0 ∧
    i.touch = false ∧ i.depth = 3 ∧ i.dir = ⟨1, 0, 0⟩ ∧ i.portal = P := by
  have hE : (EPS : ℝ) < 1 := by unfold EPS D3.Gen.utils__EPSILON; norm_num
  have hpen : penetrationInfo P = .ok (3, ⟨3, 0, 0⟩,
      V3.smul 0.5 (comb4 (3 / 4, 1 / 8, 1 / 16, 1 / 16) P.p0.a P.p1.a P.p2.a P.p3.a +
        comb4 (3 / 4, 1 / 8, 1 / 16, 1 / 16) P.p0.b P.p1.b P.p2.b P.p3.b), 6, 0, false) := by
    unfold penetrationInfo
    have hp : pointToTriangle (V3.zero : V) P.p1.v P.p2.v P.p3.v =
        .ok (6, V3.norm ((V3.zero : V) - ⟨3, 0, 0⟩), ⟨3, 0, 0⟩) := ptt
    have hd : portalDirection P.p1 P.p2 P.p3 = ⟨1, 0, 0⟩ := dir
    rw [hp, hd, contact, depth3]
    have habs : ¬ absS (3 : ℝ) < EPS := by rw [absS_real]; norm_num; linarith
    simp only [bind, Except.bind, pure, Except.pure, habs, decide_false, Bool.false_eq_true, if_false]
  have hrun : findPenetrationInfo Cex.sup P 1 maxIter =
      finishPenetration P 0 ⟨1, 0, 0⟩ Cex.p1 0 := by
    unfold findPenetrationInfo
    rw [show maxIter + 2 = (maxIter + 1) + 1 from rfl, findPenInfoLoop]
    have hd : portalDirection P.p1 P.p2 P.p3 = ⟨1, 0, 0⟩ := dir
    simp only [hd, first_support]
    have hr : portalReachTolerance P.p1 P.p2 P.p3 Cex.p1.v ⟨1, 0, 0⟩ 1 = true := reach
    simp only [hr, Bool.true_or, if_true]
  have hfin : finishPenetration P 0 ⟨1, 0, 0⟩ Cex.p1 0 = .ok
      { depth := 3, dir := normVector ⟨3, 0, 0⟩,
        pos := V3.smul 0.5 (comb4 (3 / 4, 1 / 8, 1 / 16, 1 / 16) P.p0.a P.p1.a P.p2.a P.p3.a +
          comb4 (3 / 4, 1 / 8, 1 / 16, 1 / 16) P.p0.b P.p1.b P.p2.b P.p3.b),
        exit := 0, tri := 6, cpos := 0, touch := false, portal := P, n := ⟨1, 0, 0⟩, w := Cex.p1,
        iters := 0 } := by
    unfold finishPenetration
    rw [hpen]
    rfl
  refine ⟨_, hrun.trans hfin, rfl, rfl, rfl, rfl, rfl, ?_, rfl⟩
  exact normVector_ex 3 (by norm_num)

/-! ### a small exact degenerate portal (before / after the repair 045c18e)

The shape of the witness of F-mpr-degenerate-portal-nan: `_discover_portal` ran into its
iteration cap with a repeated vertex (`v[1] = v[3]`) while `v[2]` is the origin (the support
point of `A ⊖ B` in the contact direction of an exactly touching pair). -/
namespace Deg

def r0 : SP ℝ := ⟨⟨-1, 0, 0⟩, ⟨0, 0, 0⟩, ⟨1, 0, 0⟩⟩
def r1 : SP ℝ := ⟨⟨1, 0, 0⟩, ⟨2, 0, 0⟩, ⟨1, 0, 0⟩⟩
def r2 : SP ℝ := ⟨⟨0, 0, 0⟩, ⟨1, 1, 0⟩, ⟨1, 1, 0⟩⟩
/-- rows 1 and 3 coincide, row 2 is the origin -/
def P : Portal ℝ := ⟨r0, r1, r2, r1⟩

theorem dir : portalDirection P.p1 P.p2 P.p3 = V3.zero := by
  unfold portalDirection
  have : V3.cross (P.p2.v - P.p1.v) (P.p3.v - P.p1.v) = (V3.zero : V) := by
    apply V3.ext' <;> simp [cross_def, sub_def, zero_def, P, r1, r2]
  rw [this]; exact normVector_of_zero

theorem main_sum : sum4 (baryMain P.p0.v P.p1.v P.p2.v P.p3.v) = 0 := by
  simp [sum4, baryMain, V3.dot_def, cross_def, P, r0, r1, r2]

theorem fallback_sum : sum4 (baryFallback P.p1.v P.p2.v P.p3.v V3.zero) = 0 := by
  simp [sum4, baryFallback, V3.dot_def, cross_def, zero_def, P, r1, r2]

/-- before the repair: `0 / 0` -/
theorem before : contactPosition_asIs_before_fix P (portalDirection P.p1 P.p2 P.p3) = .error .divZero := by
  rw [dir]
  exact contactPosition_before_fix_divZero P V3.zero (by rw [main_sum]; exact EPS_pos) fallback_sum

theorem closest : closestRow P.p1 P.p2 P.p3 = (r2, 2) := by
  unfold closestRow
  simp [V3.dot_def, P, r1, r2]

/-- after the repair: the touching point (row 2 is the origin, its two pre-images coincide) -/
theorem after : contactPosition P (portalDirection P.p1 P.p2 P.p3) = .ok (⟨1, 1, 0⟩, 2) := by
  have hdeg : ContactDegenerate P V3.zero := by
    refine ⟨by rw [main_sum]; exact EPS_pos, ?_⟩
    rw [fallback_sum, absS_real, abs_zero]; exact EPS_pos
  rw [dir, contactPosition_split, if_pos hdeg]
  unfold degeneratePos
  rw [closest]
  congr 2
  apply V3.ext' <;> simp only [smul_def, add_def, r2, half_real] <;> norm_num

/-- the rows have the form `a − b` (as every row produced by `minkowski.support_function`) -/
theorem rows_diff : r1.v = r1.a - r1.b ∧ r2.v = r2.a - r2.b := by
  constructor <;> apply V3.ext' <;> norm_num [sub_def, r1, r2]

end Deg

end Ex
end MprPen
end D3
