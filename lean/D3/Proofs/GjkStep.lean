/-
Structural lemmas about the model `D3.GjkJolt` at `α := ℝ`:
* `updateSimplexYPQ` compacts the three arrays to the sub-list selected by the set bits;
* `maxYLengthSquared` is the maximum squared norm of the valid prefix;
* inversion lemmas for `stepTail` / `distanceLoopStep` (which tests hold on which exit).
-/
import D3.Proofs.GjkHull
import D3.Model.GjkJolt
import Mathlib.Tactic.IntervalCases

namespace D3
namespace Gjk
open GjkJolt

/-- sub-list selected by the set bits `i, i+1, …` of `set` -/
def keep {β : Type} (set : Nat) : Nat → List β → List β
  | _, [] => []
  | i, y :: ys => if set &&& (1 <<< i) ≠ 0 then y :: keep set (i + 1) ys else keep set (i + 1) ys

theorem keep_sublist {β : Type} (set : Nat) : ∀ (i : Nat) (ys : List β), (keep set i ys).Sublist ys
  | _, [] => List.Sublist.slnil
  | i, y :: ys => by
    unfold keep
    split
    · exact List.Sublist.cons_cons y (keep_sublist set (i + 1) ys)
    · exact List.Sublist.cons y (keep_sublist set (i + 1) ys)

theorem keep_zipWith {β γ δ : Type} (f : β → γ → δ) (set : Nat) : ∀ (i : Nat) (ps : List β) (qs : List γ),
    keep set i (List.zipWith f ps qs) = List.zipWith f (keep set i ps) (keep set i qs)
  | _, [], _ => by simp [keep]
  | _, _ :: _, [] => by
    simp only [List.zipWith_nil_right, keep]
  | i, p :: ps, q :: qs => by
    simp only [List.zipWith_cons_cons, keep]
    split
    · simp [keep_zipWith f set (i + 1) ps qs]
    · exact keep_zipWith f set (i + 1) ps qs

theorem keep_length {β γ : Type} (set : Nat) : ∀ (i : Nat) (ps : List β) (qs : List γ),
    ps.length = qs.length → (keep set i ps).length = (keep set i qs).length
  | _, [], [], _ => rfl
  | _, [], _ :: _, h => by simp at h
  | _, _ :: _, [], h => by simp at h
  | i, p :: ps, q :: qs, h => by
    simp only [keep]
    split
    · simp [keep_length set (i + 1) ps qs (by simpa using h)]
    · exact keep_length set (i + 1) ps qs (by simpa using h)

theorem pre_length {β : Type} (Y : A4 β) (n : Nat) (hn : n ≤ 4) : (Y.pre n).length = n := by
  simp [A4.pre, A4.toList]; omega

/-- `update_simplex_ypq` compacts `Y`, `P`, `Q` to the points whose bit is set (same selection
in all three arrays, order preserved); it cannot fail for `n ≤ 4` -/
theorem updateSimplex_spec {β : Type} (Y P Q : A4 β) (n s : Nat) (hn : n ≤ 4) (hs : s < 16) :
    ∃ Y' P' Q' k, updateSimplexYPQ Y P Q n s = .ok (Y', P', Q', k) ∧ k ≤ n ∧ (s ≠ 15 → k ≤ 3) ∧
      Y'.pre k = keep s 0 (Y.pre n) ∧ P'.pre k = keep s 0 (P.pre n) ∧ Q'.pre k = keep s 0 (Q.pre n) := by
  obtain ⟨y0, y1, y2, y3⟩ := Y
  obtain ⟨p0, p1, p2, p3⟩ := P
  obtain ⟨q0, q1, q2, q3⟩ := Q
  interval_cases n <;> interval_cases s <;>
    exact ⟨_, _, _, _, rfl, by decide, by decide, rfl, rfl, rfl⟩

theorem keep_allBits {β : Type} (ys : List β) (n : Nat) (hn : n ≤ 3) (hl : ys.length = n) :
    keep (allBits n) 0 ys = ys := by
  interval_cases n
  · match ys, hl with
    | [], _ => rfl
  · match ys, hl with
    | [a], _ => rfl
  · match ys, hl with
    | [a, b], _ => rfl
  · match ys, hl with
    | [a, b, c], _ => rfl

theorem allBits_lt (n : Nat) (hn : n ≤ 3) : allBits n < 15 := by
  interval_cases n <;> decide

/-- `max_y_length_squared` of a non-empty prefix is the maximum squared norm over it -/
theorem maxY_spec (Y : A4 V) (n : Nat) (h1 : 1 ≤ n) (hn : n ≤ 4) :
    ∃ my, maxYLengthSquared Y n = .ok my ∧ (∀ y ∈ Y.pre n, V3.normSq y ≤ my) ∧
      (∃ y ∈ Y.pre n, my = V3.normSq y) := by
  obtain ⟨y0, y1, y2, y3⟩ := Y
  have hmax : ∀ a b : ℝ, max a b = a ∨ max a b = b := fun a b => by
    rcases le_total a b with h | h
    · right; exact max_eq_right h
    · left; exact max_eq_left h
  interval_cases n
  · refine ⟨_, rfl, ?_, ?_⟩ <;> simp [A4.pre, A4.toList, V3.normSq]
  · refine ⟨_, rfl, ?_, ?_⟩
    · simp only [A4.pre, A4.toList, List.take, List.mem_cons, List.not_mem_nil, or_false]
      rintro y (rfl | rfl)
      · exact le_max_left _ _
      · exact le_max_right _ _
    · simp only [A4.pre, A4.toList, List.take, List.mem_cons, List.not_mem_nil, or_false,
        exists_eq_or_imp, exists_eq_left]
      exact hmax _ _
  · refine ⟨_, rfl, ?_, ?_⟩
    · simp only [A4.pre, A4.toList, List.take, List.mem_cons, List.not_mem_nil, or_false]
      rintro y (rfl | rfl | rfl)
      · exact le_trans (le_max_left _ _) (le_max_left _ _)
      · exact le_trans (le_max_right _ _) (le_max_left _ _)
      · exact le_max_right _ _
    · simp only [A4.pre, A4.toList, List.take, List.mem_cons, List.not_mem_nil, or_false,
        exists_eq_or_imp, exists_eq_left]
      rcases hmax (max (V3.dot y0 y0) (V3.dot y1 y1)) (V3.dot y2 y2) with h | h
      · rcases hmax (V3.dot y0 y0) (V3.dot y1 y1) with h' | h'
        · left; rw [h, h']; rfl
        · right; left; rw [h, h']; rfl
      · right; right; rw [h]; rfl
  · refine ⟨_, rfl, ?_, ?_⟩
    · simp only [A4.pre, A4.toList, List.take, List.mem_cons, List.not_mem_nil, or_false]
      rintro y (rfl | rfl | rfl | rfl)
      · exact le_trans (le_trans (le_max_left _ _) (le_max_left _ _)) (le_max_left _ _)
      · exact le_trans (le_trans (le_max_right _ _) (le_max_left _ _)) (le_max_left _ _)
      · exact le_trans (le_max_right _ _) (le_max_left _ _)
      · exact le_max_right _ _
    · simp only [A4.pre, A4.toList, List.take, List.mem_cons, List.not_mem_nil, or_false,
        exists_eq_or_imp, exists_eq_left]
      rcases hmax (max (max (V3.dot y0 y0) (V3.dot y1 y1)) (V3.dot y2 y2)) (V3.dot y3 y3) with h | h
      · rcases hmax (max (V3.dot y0 y0) (V3.dot y1 y1)) (V3.dot y2 y2) with h2 | h2
        · rcases hmax (V3.dot y0 y0) (V3.dot y1 y1) with h' | h'
          · left; rw [h, h2, h']; rfl
          · right; left; rw [h, h2, h']; rfl
        · right; right; left; rw [h, h2]; rfl
      · right; right; right; rw [h]; rfl

/-- storing at index `n < 4` appends to the valid prefix -/
theorem pre_set {β : Type} (Y Y' : A4 β) (n : Nat) (x : β) (h : Y.set n x = .ok Y') :
    n ≤ 3 ∧ Y'.pre (n + 1) = Y.pre n ++ [x] := by
  obtain ⟨y0, y1, y2, y3⟩ := Y
  match n, h with
  | 0, h => cases h; exact ⟨by omega, rfl⟩
  | 1, h => cases h; exact ⟨by omega, rfl⟩
  | 2, h => cases h; exact ⟨by omega, rfl⟩
  | 3, h => cases h; exact ⟨by omega, rfl⟩

/-- storing at index `n` does not change the prefix of length `n` -/
theorem pre_set_same {β : Type} (Y Y' : A4 β) (n : Nat) (x : β) (h : Y.set n x = .ok Y') :
    Y'.pre n = Y.pre n := by
  obtain ⟨y0, y1, y2, y3⟩ := Y
  match n, h with
  | 0, h => cases h; rfl
  | 1, h => cases h; rfl
  | 2, h => cases h; rfl
  | 3, h => cases h; rfl

/-! ### inversion of the step function -/

/-- what `stepTail` can return, with the tests that hold on each path -/
theorem stepTail_cases {Y P Q : A4 V} {n : Nat} {prev tolSq : ℝ} {ok : Bool} {sd : V} {vl : ℝ}
    {s : Nat} {out : StepOut ℝ} (h : stepTail Y P Q n prev tolSq ok sd vl s = .ok out) :
    (s = 15 ∧ out = ⟨.intersection, ⟨Y, P, Q, n, prev, 0, sd⟩, 1, s⟩) ∨
    (s ≠ 15 ∧ ∃ Y' P' Q' k, updateSimplexYPQ Y P Q n s = .ok (Y', P', Q', k) ∧
      ((vl ≤ tolSq ∧ out = ⟨.intersection, ⟨Y', P', Q', k, prev, 0, sd⟩, 2, s⟩) ∨
       (tolSq < vl ∧ ∃ my, maxYLengthSquared Y' k = .ok my ∧
         ((vl ≤ EPS * my ∧ out = ⟨.intersection, ⟨Y', P', Q', k, prev, 0, sd⟩, 3, s⟩) ∨
          (EPS * my < vl ∧ vl ≤ prev ∧
            ((prev - vl ≤ EPS * prev ∧
                out = ⟨.noIntersection, ⟨Y', P', Q', k, prev, vl, (-1 : ℝ) * sd⟩,
                  if ok then 4 else 5, s⟩) ∨
             (EPS * prev < prev - vl ∧
                out = ⟨.unknown, ⟨Y', P', Q', k, vl, vl, (-1 : ℝ) * sd⟩,
                  if ok then 6 else 7, s⟩))))))) := by
  unfold stepTail at h
  split at h
  · rename_i hs
    left; exact ⟨hs, by cases h; rfl⟩
  · rename_i hs
    right
    refine ⟨hs, ?_⟩
    split at h
    · cases h
    · rename_i Y' P' Q' k hupd
      refine ⟨Y', P', Q', k, hupd, ?_⟩
      split at h
      · rename_i ht
        left; exact ⟨ht, by cases h; rfl⟩
      · rename_i ht
        right
        refine ⟨not_le.mp ht, ?_⟩
        split at h
        · cases h
        · rename_i my hmy
          refine ⟨my, hmy, ?_⟩
          split at h
          · rename_i hy
            left; exact ⟨hy, by cases h; rfl⟩
          · rename_i hy
            right
            refine ⟨not_le.mp hy, ?_⟩
            split at h
            · cases h
            · rename_i hp
              have hp' : vl ≤ prev := not_not.mp hp
              refine ⟨hp', ?_⟩
              split at h
              · rename_i hq
                left; exact ⟨hq, by cases h; rfl⟩
              · rename_i hq
                right; exact ⟨not_le.mp hq, by cases h; rfl⟩

/-- what `distanceLoopStep` can return -/
theorem step_cases {solve : Solver ℝ} {p q : V} {st : State ℝ} {tolSq maxD : ℝ} {out : StepOut ℝ}
    (h : distanceLoopStep solve p q st tolSq maxD = .ok out) :
    ((V3.dot st.sd (p - q) < 0 ∧
        st.vLenSq * maxD < V3.dot st.sd (p - q) * V3.dot st.sd (p - q)) ∧
      out = ⟨.clipped, st, 0, 0⟩) ∨
    (¬ (V3.dot st.sd (p - q) < 0 ∧
        st.vLenSq * maxD < V3.dot st.sd (p - q) * V3.dot st.sd (p - q)) ∧
      ∃ Y P Q r, st.Y.set st.nPoints (p - q) = .ok Y ∧ st.P.set st.nPoints p = .ok P ∧
        st.Q.set st.nPoints q = .ok Q ∧ solve Y (st.nPoints + 1) st.prevVLenSq = .ok r ∧
        ((r.success = true ∧
            stepTail Y P Q (st.nPoints + 1) st.prevVLenSq tolSq true r.v r.vLenSq r.set = .ok out) ∨
         (r.success = false ∧
            stepTail Y P Q st.nPoints st.prevVLenSq tolSq false st.sd st.vLenSq
              (allBits st.nPoints) = .ok out))) := by
  unfold distanceLoopStep at h
  simp only at h
  split at h
  · rename_i hc
    left; exact ⟨hc, by cases h; rfl⟩
  · rename_i hc
    right
    refine ⟨hc, ?_⟩
    split at h
    · rename_i Y P Q hY hP hQ
      split at h
      · cases h
      · rename_i r hr
        refine ⟨Y, P, Q, r, hY, hP, hQ, hr, ?_⟩
        split at h
        · rename_i hsucc
          left; exact ⟨hsucc, h⟩
        · rename_i hsucc
          right; exact ⟨by simpa using hsucc, h⟩
    · cases h

end Gjk
end D3
