/-
Broad phase and narrow-phase loop of `find_contact_surface` at ℝ:
`all_aabbs_overlap` enumerates exactly the overlapping index pairs, each once; the run-time
check `leavesMatch` is sound; `narrowPhase` on valid pairs is a `filterMap`; the wrench sums do
not depend on the order of the contacts.
-/
import D3.Proofs.AabbExact
import D3.Proofs.HydroForceWrench
import Mathlib.Data.List.Nodup
import Mathlib.Data.List.Perm.Basic

set_option linter.unusedSectionVars false

namespace D3
namespace HydroForce
open Aabb

/-- `all_aabbs_overlap` returns `(i, j)` iff box `i` of the first list overlaps box `j` of the
second (closed-interval test) -/
theorem mem_allPairs (a1 a2 : List (Box ℝ)) (i j : Nat) :
    (i, j) ∈ allPairs a1 a2 ↔ ∃ b1 b2, a1[i]? = some b1 ∧ a2[j]? = some b2 ∧ overlap b1 b2 = true := by
  simp only [allPairs, List.mem_flatMap, List.mem_filterMap, List.mem_zipIdx_iff_getElem?, Prod.exists]
  constructor
  · rintro ⟨b1, i', h1, b2, j', h2, h⟩
    split at h
    · rename_i ho
      simp only [Option.some.injEq, Prod.mk.injEq] at h
      obtain ⟨rfl, rfl⟩ := h
      exact ⟨b1, b2, h1, h2, ho⟩
    · cases h
  · rintro ⟨b1, b2, h1, h2, ho⟩
    exact ⟨b1, i, h1, b2, j, h2, by simp [ho]⟩

theorem allPairs_inner_eq (a2 : List (Box ℝ)) (b1 : Box ℝ) (i : Nat) (k : Nat) :
    ((a2.zipIdx k).filterMap fun (x : Box ℝ × Nat) => if overlap b1 x.1 then some (i, x.2) else none)
      = ((((a2.zipIdx k).filter fun x => overlap b1 x.1).map Prod.snd).map fun j => (i, j)) := by
  induction a2 generalizing k with
  | nil => simp
  | cons b bs ih =>
    simp only [List.zipIdx_cons, List.filterMap_cons, List.filter_cons]
    by_cases h : overlap b1 b = true
    · simp [h, ih]
    · simp [h, ih]

/-- every pair is reported once -/
theorem allPairs_nodup (a1 a2 : List (Box ℝ)) : (allPairs a1 a2).Nodup := by
  unfold allPairs
  rw [List.nodup_flatMap]
  constructor
  · rintro ⟨b1, i⟩ _
    show (List.filterMap (fun (x : Box ℝ × Nat) => if overlap b1 x.1 then some (i, x.2) else none)
      (a2.zipIdx)).Nodup
    rw [allPairs_inner_eq]
    apply List.Nodup.map (fun a b h => by simpa using h)
    have hs : (((a2.zipIdx).filter fun x => overlap b1 x.1).map Prod.snd).Sublist
        ((a2.zipIdx).map Prod.snd) := List.Sublist.map _ List.filter_sublist
    rw [List.zipIdx_map_snd] at hs
    exact List.Nodup.sublist hs (List.nodup_range' 1)
  · have hn : ((a1.zipIdx).map Prod.snd).Nodup := by
      rw [List.zipIdx_map_snd]; exact List.nodup_range' 1
    have hp : (a1.zipIdx).Pairwise (fun x y => x.2 ≠ y.2) := List.pairwise_map.mp hn
    refine hp.imp ?_
    rintro ⟨b1, i⟩ ⟨b1', i'⟩ hne
    simp only [Function.onFun]
    intro p hp1 hp2
    simp only [List.mem_filterMap] at hp1 hp2
    obtain ⟨x, _, hx⟩ := hp1
    obtain ⟨y, _, hy⟩ := hp2
    split at hx
    · split at hy
      · simp at hx hy
        apply hne
        show i = i'
        have := congrArg Prod.fst (hx.trans hy.symm)
        simpa using this
      · cases hy
    · cases hx

/-- the pairs lie inside the index ranges -/
theorem allPairs_bounds {a1 a2 : List (Box ℝ)} {i j : Nat} (h : (i, j) ∈ allPairs a1 a2) :
    i < a1.length ∧ j < a2.length := by
  obtain ⟨b1, b2, h1, h2, _⟩ := (mem_allPairs a1 a2 i j).mp h
  exact ⟨(List.getElem?_eq_some_iff.mp h1).1, (List.getElem?_eq_some_iff.mp h2).1⟩

/-! ### the run-time leaf check -/

/-- leaf `k` of the tree carries `boxes[k]`, and the tree has no other leaves -/
def LeavesAre (t : T ℝ) (boxes : List (Box ℝ)) : Prop :=
  ∀ (i : Int) (b : Box ℝ), (i, b) ∈ t.leaves ↔ ∃ k : Nat, i = (k : Int) ∧ boxes[k]? = some b

theorem leavesMatch_sound (t : T ℝ) (boxes : List (Box ℝ)) (h : leavesMatch t boxes = true) :
    LeavesAre t boxes := by
  unfold leavesMatch at h
  simp only [Bool.and_eq_true, List.all_eq_true, List.contains_iff_mem, decide_eq_true_eq, beq_iff_eq,
    Prod.forall, List.mem_zipIdx_iff_getElem?] at h
  obtain ⟨ha, hb⟩ := h
  intro i b
  constructor
  · intro hm
    obtain ⟨h0, hbx⟩ := hb i b hm
    exact ⟨i.toNat, (Int.toNat_of_nonneg h0).symm, hbx⟩
  · rintro ⟨k, rfl, hk⟩
    exact ha b k hk

/-! ### index conversion of the tree pairs -/

theorem pairsToNat_ok : ∀ (l : List (Int × Int)), (∀ p ∈ l, 0 ≤ p.1 ∧ 0 ≤ p.2) →
    pairsToNat l = .ok (l.map fun p => (p.1.toNat, p.2.toNat))
  | [], _ => rfl
  | (i, j) :: rest, h => by
    have h0 := h (i, j) (by simp)
    have hr := pairsToNat_ok rest (fun p hp => h p (by simp [hp]))
    have hneg : ¬ (i < 0 ∨ j < 0) := by
      have h1 : (0:Int) ≤ i := h0.1
      have h2 : (0:Int) ≤ j := h0.2
      omega
    simp only [pairsToNat, hneg, if_false, hr, List.map_cons]
    rfl

/-! ### narrow-phase loop -/

/-- what the loop body yields for one valid pair -/
def lookPair (pairFn : PairFn ℝ) (tp1 : List (Tet ℝ)) (ep1 : List (Eps ℝ))
    (tp2 : List (Tet ℝ)) (ep2 : List (Eps ℝ)) (p : Nat × Nat) : Option (Contact ℝ) :=
  match tp1[p.1]?, ep1[p.1]?, tp2[p.2]?, ep2[p.2]? with
  | some t1, some e1, some t2, some e2 =>
    match pairFn t1 e1 t2 e2 with
    | some (c, f) => some ⟨p.1, p.2, c, f⟩
    | none => none
  | _, _, _, _ => none

theorem rdL_ok {β : Type} (l : List β) (i : Nat) (h : i < l.length) : rdL l i = .ok l[i] := by
  simp [rdL, List.getElem?_eq_getElem h]

/-- on in-range pairs the loop cannot raise and is a `filterMap` in the order of the pairs -/
theorem narrowPhase_ok (pairFn : PairFn ℝ) (tp1 : List (Tet ℝ)) (ep1 : List (Eps ℝ))
    (tp2 : List (Tet ℝ)) (ep2 : List (Eps ℝ)) :
    ∀ (pairs : List (Nat × Nat)),
      (∀ p ∈ pairs, p.1 < tp1.length ∧ p.1 < ep1.length ∧ p.2 < tp2.length ∧ p.2 < ep2.length) →
      narrowPhase pairFn tp1 ep1 tp2 ep2 pairs = .ok (pairs.filterMap (lookPair pairFn tp1 ep1 tp2 ep2))
  | [], _ => rfl
  | (i, j) :: rest, h => by
    obtain ⟨h1, h2, h3, h4⟩ := h (i, j) (by simp)
    have hr := narrowPhase_ok pairFn tp1 ep1 tp2 ep2 rest (fun p hp => h p (by simp [hp]))
    simp only [narrowPhase, rdL_ok _ _ h1, rdL_ok _ _ h2, rdL_ok _ _ h3, rdL_ok _ _ h4, hr,
      List.filterMap_cons, lookPair, List.getElem?_eq_getElem h1, List.getElem?_eq_getElem h2,
      List.getElem?_eq_getElem h3, List.getElem?_eq_getElem h4]
    cases hp : pairFn tp1[i] ep1[i] tp2[j] ep2[j] with
    | none => simp [bind, Except.bind, hp, pure, Except.pure]
    | some cf => obtain ⟨c, f⟩ := cf; simp [bind, Except.bind, hp, pure, Except.pure]

/-! ### order independence of the wrench sums -/

theorem totalForce21_perm {c1 c2 : List (Contact ℝ)} (h : c1.Perm c2) :
    totalForce21 c1 = totalForce21 c2 := sumV_perm (h.map _)

theorem totalTorque21_perm {c1 c2 : List (Contact ℝ)} (h : c1.Perm c2) (com : V) :
    totalTorque21 c1 com = totalTorque21 c2 com := sumV_perm (h.map _)

theorem totalTorque12_perm {c1 c2 : List (Contact ℝ)} (h : c1.Perm c2) (com : V) :
    totalTorque12 c1 com = totalTorque12 c2 com := sumV_perm (h.map _)

theorem accumulateWrenchesAt_perm (P : Pose ℝ) {c1 c2 : List (Contact ℝ)} (h : c1.Perm c2)
    (com1 com2 : V) : accumulateWrenchesAt P c1 com1 com2 = accumulateWrenchesAt P c2 com1 com2 := by
  unfold accumulateWrenchesAt
  rw [totalForce21_perm h, totalTorque12_perm h, totalTorque21_perm h]

end HydroForce
end D3
