/-
ℝ-level facts about the straight-line pieces of the MPR penetration model
(`D3/Model/MprPen.lean`): `norm_vector`, `_portal_direction`, `_portal_reach_tolerance`,
`point_to_triangle` (the closest point is an affine combination of the triangle's vertices),
the vocabulary of the property (Minkowski difference, penetration depth as inscribed ball,
translation of a collider, convexity).
-/
import D3.Spec.Vec
import D3.Model.MprPen
import Mathlib.Tactic.NormNum
import Mathlib.Tactic.NormNum.OfScientific

set_option linter.unusedSectionVars false
set_option linter.unusedVariables false

namespace D3
namespace MprPen

/-! ### vocabulary -/

/-- the Minkowski difference as `minkowski.make_support_point` defines it: `{a − b}` -/
def Mink (A B : V → Prop) : V → Prop := fun m => ∃ a b, A a ∧ B b ∧ m = a - b

/-- `K` translated by `τ` (collider 2 after `update_pose` / fresh construction at `pose + τ`) -/
def translate (K : V → Prop) (τ : V) : V → Prop := fun x => K (x - τ)

/-- closed under segments -/
def ConvexSet (K : V → Prop) : Prop :=
  ∀ x y, K x → K y → ∀ s : ℝ, 0 ≤ s → s ≤ 1 → K (s * x + (1 - s) * y)

/-- the ball of radius `r` around the origin lies in `M`.  For `M = A ⊖ B` this says
"the penetration depth of the pair is at least `r`": no translation shorter than `r` separates
the two sets.  Statements of the form `∀ r, DepthAtLeast M r → r ≤ d` therefore read
"the penetration depth is at most `d`" without any `sInf`. -/
def DepthAtLeast (M : V → Prop) (r : ℝ) : Prop := ∀ x : V, V3.normSq x ≤ r * r → M x

/-- contract of the support oracle (C03): for every direction the first component is a support
point of `A` along `d` and the second a support point of `B` along `-d` -/
def SupOK (A B : V → Prop) (sup : Sup ℝ) : Prop :=
  ∀ d, IsSupport A d (sup d).1 ∧ IsSupport B (-d) (sup d).2

/-- a simplex row made of a point of `A`, a point of `B` and their difference -/
def SPIn (A B : V → Prop) (p : SP ℝ) : Prop := A p.a ∧ B p.b ∧ p.v = p.a - p.b

/-! ### scalars and vectors -/

theorem isZero_iff (x : ℝ) : isZero x ↔ x = 0 := by
  unfold isZero
  constructor
  · rintro ⟨h1, h2⟩; exact le_antisymm (not_lt.mp h2) (not_lt.mp h1)
  · rintro rfl; exact ⟨lt_irrefl _, lt_irrefl _⟩

theorem zero_def : (V3.zero : V) = ⟨0, 0, 0⟩ := rfl

theorem vecIsZero_iff (v : V) : vecIsZero v ↔ v = V3.zero := by
  unfold vecIsZero
  rw [isZero_iff, isZero_iff, isZero_iff, zero_def]
  constructor
  · rintro ⟨h1, h2, h3⟩; exact V3.ext' h1 h2 h3
  · intro h; rw [h]; exact ⟨rfl, rfl, rfl⟩

theorem EPS_pos : (0 : ℝ) < EPS := by
  unfold EPS D3.Gen.utils__EPSILON
  norm_num

theorem half_real : (0.5 : ℝ) = 1 / 2 := by norm_num

theorem smul_def (s : ℝ) (a : V) : V3.smul s a = ⟨s * a.x, s * a.y, s * a.z⟩ := rfl
theorem hsmul_def (s : ℝ) (a : V) : s * a = ⟨s * a.x, s * a.y, s * a.z⟩ := rfl
theorem add_def (a b : V) : a + b = ⟨a.x + b.x, a.y + b.y, a.z + b.z⟩ := rfl
theorem sub_def (a b : V) : a - b = ⟨a.x - b.x, a.y - b.y, a.z - b.z⟩ := rfl
theorem neg_def (a : V) : -a = ⟨-a.x, -a.y, -a.z⟩ := rfl
theorem sdiv_def (a : V) (s : ℝ) : V3.sdiv a s = ⟨a.x / s, a.y / s, a.z / s⟩ := rfl
theorem cross_def (a b : V) : V3.cross a b =
    ⟨a.y * b.z - a.z * b.y, a.z * b.x - a.x * b.z, a.x * b.y - a.y * b.x⟩ := rfl

theorem normSq_eq_dot (a : V) : V3.normSq a = V3.dot a a := rfl

theorem norm_eq_zero_iff (v : V) : V3.norm v = 0 ↔ v = V3.zero := by
  rw [V3.norm_def]
  constructor
  · intro h
    have h0 : V3.normSq v = 0 := by
      have := Real.sqrt_eq_zero (V3.normSq_nonneg v)
      exact this.mp h
    exact V3.normSq_eq_zero h0
  · intro h; rw [h, zero_def]; simp [V3.normSq_def]

theorem norm_pos_of_ne {v : V} (h : v ≠ V3.zero) : 0 < V3.norm v := by
  rcases (V3.norm_nonneg v).lt_or_eq with h1 | h1
  · exact h1
  · exact absurd ((norm_eq_zero_iff v).mp h1.symm) h

/-- `⟨x, n⟩ ≤ |x|` for a unit vector `n` -/
theorem dot_le_norm_of_unit {x n : V} (hn : V3.normSq n = 1) : V3.dot x n ≤ V3.norm x := by
  have h := V3.dot_le_norm_mul x n
  have : V3.norm n = 1 := by rw [V3.norm_def, hn, Real.sqrt_one]
  rw [this, mul_one] at h
  exact h

theorem norm_neg (x : V) : V3.norm (V3.zero - x) = V3.norm x := by
  rw [V3.norm_def, V3.norm_def]
  congr 1
  simp only [V3.normSq_def, sub_def, zero_def]; ring

/-! ### `norm_vector` -/

theorem normVector_of_zero : normVector (V3.zero : V) = V3.zero := by
  unfold normVector
  have : V3.norm (V3.zero : V) = 0 := (norm_eq_zero_iff _).mpr rfl
  simp only [this, (isZero_iff 0).mpr rfl, if_true]

theorem normVector_of_ne {v : V} (h : v ≠ V3.zero) : normVector v = V3.sdiv v (V3.norm v) := by
  unfold normVector
  have hn : ¬ isZero (V3.norm v) := by
    rw [isZero_iff]; exact fun h0 => h ((norm_eq_zero_iff v).mp h0)
  simp only [hn, if_false]

theorem normVector_unit {v : V} (h : v ≠ V3.zero) : V3.normSq (normVector v) = 1 := by
  rw [normVector_of_ne h]
  have hp := norm_pos_of_ne h
  have hs := V3.norm_sq v
  simp only [V3.normSq_def, sdiv_def] at *
  field_simp
  nlinarith [hs]

theorem dot_normVector {v : V} (h : v ≠ V3.zero) (x : V) :
    V3.dot x (normVector v) = V3.dot x v / V3.norm v := by
  rw [normVector_of_ne h]
  have hp := norm_pos_of_ne h
  simp only [V3.dot_def, sdiv_def]
  field_simp

/-- `|v| · norm_vector(v) = v` (also for `v = 0`) -/
theorem norm_smul_normVector (v : V) : V3.norm v * normVector v = v := by
  by_cases h : v = V3.zero
  · rw [h, normVector_of_zero]; simp [hsmul_def, zero_def]
  · rw [normVector_of_ne h]
    have hp := norm_pos_of_ne h
    apply V3.ext' <;> simp only [hsmul_def, sdiv_def] <;> field_simp

/-! ### `_portal_direction` -/

theorem dot_cross_left (a b : V) : V3.dot a (V3.cross a b) = 0 := by
  simp only [V3.dot_def, cross_def]; ring

theorem dot_cross_right (a b : V) : V3.dot b (V3.cross a b) = 0 := by
  simp only [V3.dot_def, cross_def]; ring

/-- for a non-degenerate portal triangle the portal direction is a unit normal of its plane:
all three vertices have the same height along it -/
theorem portalDirection_spec (p1 p2 p3 : SP ℝ)
    (h : V3.cross (p2.v - p1.v) (p3.v - p1.v) ≠ V3.zero) :
    V3.normSq (portalDirection p1 p2 p3) = 1 ∧
    V3.dot p2.v (portalDirection p1 p2 p3) = V3.dot p1.v (portalDirection p1 p2 p3) ∧
    V3.dot p3.v (portalDirection p1 p2 p3) = V3.dot p1.v (portalDirection p1 p2 p3) := by
  unfold portalDirection
  refine ⟨normVector_unit h, ?_, ?_⟩
  · rw [dot_normVector h, dot_normVector h]
    have := dot_cross_left (p2.v - p1.v) (p3.v - p1.v)
    congr 1
    simp only [V3.dot_def, cross_def, sub_def] at *
    linarith
  · rw [dot_normVector h, dot_normVector h]
    have := dot_cross_right (p2.v - p1.v) (p3.v - p1.v)
    congr 1
    simp only [V3.dot_def, cross_def, sub_def] at *
    linarith

/-- `_portal_reach_tolerance` on a non-degenerate portal: the three differences coincide -/
theorem reach_iff (p1 p2 p3 : SP ℝ) (w n : V) (tol : ℝ)
    (h2 : V3.dot p2.v n = V3.dot p1.v n) (h3 : V3.dot p3.v n = V3.dot p1.v n) :
    portalReachTolerance p1 p2 p3 w n tol = true ↔ V3.dot w n - V3.dot p1.v n < tol + EPS := by
  unfold portalReachTolerance min3
  simp only [h2, h3, min_self, decide_eq_true_eq]

/-! ### `point_to_triangle` -/

/-- affine combination of three points -/
def aff3 (α β γ : ℝ) (a b c : V) : V :=
  ⟨α * a.x + β * b.x + γ * c.x, α * a.y + β * b.y + γ * c.y, α * a.z + β * b.z + γ * c.z⟩

theorem ptRes_eq {br : ℕ} {p cp : V} {r : ℕ × ℝ × V} (h : ptRes br p cp = .ok r) :
    r = (br, V3.norm (p - cp), cp) := by
  unfold ptRes at h
  injection h with h
  exact h.symm

/-- whatever region `point_to_triangle` ends in, the returned point is an affine combination of
the three vertices and the returned distance is the distance to that point -/
theorem pointToTriangle_affine (p a b c : V) (r : ℕ × ℝ × V)
    (h : pointToTriangle p a b c = .ok r) :
    ∃ α β γ : ℝ, α + β + γ = 1 ∧ r.2.2 = aff3 α β γ a b c ∧ r.2.1 = V3.norm (p - r.2.2) := by
  unfold pointToTriangle at h
  simp only [isZero_iff] at h
  split_ifs at h with c0 c1 c2 z2 c3 c4 z4 c5 z5 z6
  · rw [ptRes_eq h]
    exact ⟨1, 0, 0, by ring, by apply V3.ext' <;> simp [aff3], rfl⟩
  · rw [ptRes_eq h]
    exact ⟨0, 1, 0, by ring, by apply V3.ext' <;> simp [aff3], rfl⟩
  · rw [ptRes_eq h]
    refine ⟨1 - V3.dot (b - a) (p - a) / (V3.dot (b - a) (p - a) - V3.dot (b - a) (p - b)),
      V3.dot (b - a) (p - a) / (V3.dot (b - a) (p - a) - V3.dot (b - a) (p - b)), 0, by ring, ?_, rfl⟩
    apply V3.ext' <;> simp only [aff3, add_def, hsmul_def, sub_def] <;> ring
  · rw [ptRes_eq h]
    exact ⟨0, 0, 1, by ring, by apply V3.ext' <;> simp [aff3], rfl⟩
  · rw [ptRes_eq h]
    refine ⟨1 - V3.dot (c - a) (p - a) / (V3.dot (c - a) (p - a) - V3.dot (c - a) (p - c)), 0,
      V3.dot (c - a) (p - a) / (V3.dot (c - a) (p - a) - V3.dot (c - a) (p - c)), by ring, ?_, rfl⟩
    apply V3.ext' <;> simp only [aff3, add_def, hsmul_def, sub_def] <;> ring
  · rw [ptRes_eq h]
    refine ⟨0, 1 - (V3.dot (c - a) (p - b) - V3.dot (b - a) (p - b)) /
        ((V3.dot (c - a) (p - b) - V3.dot (b - a) (p - b)) + (V3.dot (b - a) (p - c) - V3.dot (c - a) (p - c))),
      (V3.dot (c - a) (p - b) - V3.dot (b - a) (p - b)) /
        ((V3.dot (c - a) (p - b) - V3.dot (b - a) (p - b)) + (V3.dot (b - a) (p - c) - V3.dot (c - a) (p - c))),
      by ring, ?_, rfl⟩
    apply V3.ext' <;> simp only [aff3, add_def, hsmul_def, sub_def] <;> ring
  · rw [ptRes_eq h]
    generalize hD : (1 : ℝ) / (V3.dot (b - a) (p - b) * V3.dot (c - a) (p - c) -
        V3.dot (b - a) (p - c) * V3.dot (c - a) (p - b) +
        (V3.dot (b - a) (p - c) * V3.dot (c - a) (p - a) -
          V3.dot (b - a) (p - a) * V3.dot (c - a) (p - c)) +
        (V3.dot (b - a) (p - a) * V3.dot (c - a) (p - b) -
          V3.dot (b - a) (p - b) * V3.dot (c - a) (p - a))) = D
    generalize (V3.dot (b - a) (p - c) * V3.dot (c - a) (p - a) -
          V3.dot (b - a) (p - a) * V3.dot (c - a) (p - c)) = vb
    generalize (V3.dot (b - a) (p - a) * V3.dot (c - a) (p - b) -
          V3.dot (b - a) (p - b) * V3.dot (c - a) (p - a)) = vc
    refine ⟨1 - vb * D - vc * D, vb * D, vc * D, by ring, ?_, rfl⟩
    apply V3.ext' <;> simp only [aff3, add_def, hsmul_def, sub_def] <;> ring

/-- the distance `point_to_triangle(0, ·)` returns is non-negative -/
theorem pointToTriangle_dist_nonneg (p a b c : V) (r : ℕ × ℝ × V)
    (h : pointToTriangle p a b c = .ok r) : 0 ≤ r.2.1 := by
  obtain ⟨_, _, _, _, _, hd⟩ := pointToTriangle_affine p a b c r h
  rw [hd]; exact V3.norm_nonneg _

/-- an affine combination of three points of equal height `δ` along `n` has height `δ` -/
theorem dot_aff3 {α β γ : ℝ} (a b c n : V) (hs : α + β + γ = 1)
    (hb : V3.dot b n = V3.dot a n) (hc : V3.dot c n = V3.dot a n) :
    V3.dot (aff3 α β γ a b c) n = V3.dot a n := by
  simp only [V3.dot_def, aff3] at *
  have : α = 1 - β - γ := by linarith
  subst this
  linear_combination β * hb + γ * hc

end MprPen
end D3
