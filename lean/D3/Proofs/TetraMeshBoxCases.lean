/-
GENERATED (once, by a script; static text afterwards) — explicit evaluation of
`TetraMesh.boxFromCentral` for each of the seven duplicate-flag classes of `make_tetrahedral_box`
and the facts `BoxGood` about each explicit mesh.  A class is named by three letters for the axes
x, y, z: `T` = `half_central[a] == 0.0` (medial vertices duplicated along that axis), `F` otherwise.
The determinants of all surviving tetrahedra are products `4·A·B·C` with
`A ∈ {hx, cx, hx − cx}` etc.; they sum to `48·hx·hy·hz`.
-/
import D3.Proofs.TetraMeshHelpers

namespace D3
namespace TetraMesh

/-- on the boundary of the box `[-hx,hx]×[-hy,hy]×[-hz,hz]` (for a point of the box) -/
def OnBdry (hx hy hz : ℝ) (p : V3 ℝ) : Prop :=
  p.x = hx ∨ p.x = -hx ∨ p.y = hy ∨ p.y = -hy ∨ p.z = hz ∨ p.z = -hz

/-- strictly inside the box -/
def Inside (hx hy hz : ℝ) (p : V3 ℝ) : Prop :=
  -hx < p.x ∧ p.x < hx ∧ -hy < p.y ∧ p.y < hy ∧ -hz < p.z ∧ p.z < hz

/-- what is proved about each explicit box mesh -/
structure BoxGood (hx hy hz mn : ℝ) (m : Mesh ℝ) : Prop where
  inRange : ∀ t ∈ m.tets, t.inRange m.vertices.length
  distinct : ∀ t ∈ m.tets, t.distinct = true
  used : ∀ i, i < m.vertices.length → ∃ t ∈ m.tets, i ∈ t.toList
  det_pos : ∀ t ∈ m.tets, 0 < det3 (tetPtsD m.vertices t)
  det_sum : sumS ((m.tets.map (tetPtsD m.vertices)).map det3) = 48 * hx * hy * hz
  in_box : ∀ p ∈ m.vertices, -hx ≤ p.x ∧ p.x ≤ hx ∧ -hy ≤ p.y ∧ p.y ≤ hy ∧ -hz ≤ p.z ∧ p.z ≤ hz
  pots : ∀ pq ∈ m.vertices.zip m.potentials,
    (OnBdry hx hy hz pq.1 ∧ pq.2 = 0) ∨ (Inside hx hy hz pq.1 ∧ pq.2 = mn)
  pot_len : m.potentials.length = m.vertices.length
  n_vertices : 9 ≤ m.vertices.length ∧ m.vertices.length ≤ 12

/-- class FFT (T = medial vertices duplicated along that axis): 12 vertices, 24 tetrahedra -/
def boxVertsFFT (hx hy hz cx cy : ℝ) : List (V3 ℝ) :=
  [⟨-hx, -hy, -hz⟩, ⟨-hx, -hy, hz⟩, ⟨-hx, hy, -hz⟩, ⟨-hx, hy, hz⟩, ⟨hx, -hy, -hz⟩, ⟨hx, -hy, hz⟩, ⟨hx, hy, -hz⟩, ⟨hx, hy, hz⟩, ⟨-cx, -cy, 0⟩, ⟨-cx, cy, 0⟩, ⟨cx, -cy, 0⟩, ⟨cx, cy, 0⟩]
def boxTetsFFT : List Tet :=
  [⟨5, 4, 10, 7⟩, ⟨4, 6, 10, 7⟩, ⟨6, 11, 10, 7⟩, ⟨9, 2, 8, 3⟩, ⟨2, 0, 8, 3⟩, ⟨0, 1, 8, 3⟩, ⟨11, 6, 9, 7⟩, ⟨6, 2, 9, 7⟩, ⟨2, 3, 9, 7⟩, ⟨1, 0, 8, 5⟩, ⟨0, 4, 8, 5⟩, ⟨4, 10, 8, 5⟩, ⟨10, 11, 8, 7⟩, ⟨11, 9, 8, 7⟩, ⟨9, 3, 8, 7⟩, ⟨3, 1, 8, 7⟩, ⟨1, 5, 8, 7⟩, ⟨5, 10, 8, 7⟩, ⟨9, 11, 8, 6⟩, ⟨11, 10, 8, 6⟩, ⟨10, 4, 8, 6⟩, ⟨4, 0, 8, 6⟩, ⟨0, 2, 8, 6⟩, ⟨2, 9, 8, 6⟩]
theorem boxFromCentral_FFT (hx hy hz cx cy mn : ℝ) (ex : cx ≠ 0) (ey : cy ≠ 0) :
    boxFromCentral ⟨hx, hy, hz⟩ ⟨cx, cy, 0⟩ mn =
      .ok ⟨boxVertsFFT hx hy hz cx cy, boxTetsFFT, [0, 0, 0, 0, 0, 0, 0, 0, mn, mn, mn, mn]⟩ := by
  simp [boxFromCentral, boxVertsFFT, boxTetsFFT, ex, ey, medialPass, medialStep, ijkOrder, outerVertices, corner, sgn,
    mGet, flat, boxElements, splitToTetrahedra, distinct4, boxPotentials, List.range, List.range.loop]

/-- class FTF (T = medial vertices duplicated along that axis): 12 vertices, 24 tetrahedra -/
def boxVertsFTF (hx hy hz cx cz : ℝ) : List (V3 ℝ) :=
  [⟨-hx, -hy, -hz⟩, ⟨-hx, -hy, hz⟩, ⟨-hx, hy, -hz⟩, ⟨-hx, hy, hz⟩, ⟨hx, -hy, -hz⟩, ⟨hx, -hy, hz⟩, ⟨hx, hy, -hz⟩, ⟨hx, hy, hz⟩, ⟨-cx, 0, -cz⟩, ⟨-cx, 0, cz⟩, ⟨cx, 0, -cz⟩, ⟨cx, 0, cz⟩]
def boxTetsFTF : List Tet :=
  [⟨11, 5, 10, 7⟩, ⟨5, 4, 10, 7⟩, ⟨4, 6, 10, 7⟩, ⟨2, 0, 8, 3⟩, ⟨0, 1, 8, 3⟩, ⟨1, 9, 8, 3⟩, ⟨9, 11, 8, 7⟩, ⟨11, 10, 8, 7⟩, ⟨10, 6, 8, 7⟩, ⟨6, 2, 8, 7⟩, ⟨2, 3, 8, 7⟩, ⟨3, 9, 8, 7⟩, ⟨10, 11, 8, 5⟩, ⟨11, 9, 8, 5⟩, ⟨9, 1, 8, 5⟩, ⟨1, 0, 8, 5⟩, ⟨0, 4, 8, 5⟩, ⟨4, 10, 8, 5⟩, ⟨3, 1, 9, 7⟩, ⟨1, 5, 9, 7⟩, ⟨5, 11, 9, 7⟩, ⟨10, 4, 8, 6⟩, ⟨4, 0, 8, 6⟩, ⟨0, 2, 8, 6⟩]
theorem boxFromCentral_FTF (hx hy hz cx cz mn : ℝ) (ex : cx ≠ 0) (ez : cz ≠ 0) :
    boxFromCentral ⟨hx, hy, hz⟩ ⟨cx, 0, cz⟩ mn =
      .ok ⟨boxVertsFTF hx hy hz cx cz, boxTetsFTF, [0, 0, 0, 0, 0, 0, 0, 0, mn, mn, mn, mn]⟩ := by
  simp [boxFromCentral, boxVertsFTF, boxTetsFTF, ex, ez, medialPass, medialStep, ijkOrder, outerVertices, corner, sgn,
    mGet, flat, boxElements, splitToTetrahedra, distinct4, boxPotentials, List.range, List.range.loop]

/-- class FTT (T = medial vertices duplicated along that axis): 10 vertices, 16 tetrahedra -/
def boxVertsFTT (hx hy hz cx : ℝ) : List (V3 ℝ) :=
  [⟨-hx, -hy, -hz⟩, ⟨-hx, -hy, hz⟩, ⟨-hx, hy, -hz⟩, ⟨-hx, hy, hz⟩, ⟨hx, -hy, -hz⟩, ⟨hx, -hy, hz⟩, ⟨hx, hy, -hz⟩, ⟨hx, hy, hz⟩, ⟨-cx, 0, 0⟩, ⟨cx, 0, 0⟩]
def boxTetsFTT : List Tet :=
  [⟨5, 4, 9, 7⟩, ⟨4, 6, 9, 7⟩, ⟨2, 0, 8, 3⟩, ⟨0, 1, 8, 3⟩, ⟨9, 6, 8, 7⟩, ⟨6, 2, 8, 7⟩, ⟨2, 3, 8, 7⟩, ⟨1, 0, 8, 5⟩, ⟨0, 4, 8, 5⟩, ⟨4, 9, 8, 5⟩, ⟨3, 1, 8, 7⟩, ⟨1, 5, 8, 7⟩, ⟨5, 9, 8, 7⟩, ⟨9, 4, 8, 6⟩, ⟨4, 0, 8, 6⟩, ⟨0, 2, 8, 6⟩]
theorem boxFromCentral_FTT (hx hy hz cx mn : ℝ) (ex : cx ≠ 0) :
    boxFromCentral ⟨hx, hy, hz⟩ ⟨cx, 0, 0⟩ mn =
      .ok ⟨boxVertsFTT hx hy hz cx, boxTetsFTT, [0, 0, 0, 0, 0, 0, 0, 0, mn, mn]⟩ := by
  simp [boxFromCentral, boxVertsFTT, boxTetsFTT, ex, medialPass, medialStep, ijkOrder, outerVertices, corner, sgn,
    mGet, flat, boxElements, splitToTetrahedra, distinct4, boxPotentials, List.range, List.range.loop]

/-- class TFF (T = medial vertices duplicated along that axis): 12 vertices, 24 tetrahedra -/
def boxVertsTFF (hx hy hz cy cz : ℝ) : List (V3 ℝ) :=
  [⟨-hx, -hy, -hz⟩, ⟨-hx, -hy, hz⟩, ⟨-hx, hy, -hz⟩, ⟨-hx, hy, hz⟩, ⟨hx, -hy, -hz⟩, ⟨hx, -hy, hz⟩, ⟨hx, hy, -hz⟩, ⟨hx, hy, hz⟩, ⟨0, -cy, -cz⟩, ⟨0, -cy, cz⟩, ⟨0, cy, -cz⟩, ⟨0, cy, cz⟩]
def boxTetsTFF : List Tet :=
  [⟨10, 11, 8, 7⟩, ⟨11, 9, 8, 7⟩, ⟨9, 5, 8, 7⟩, ⟨5, 4, 8, 7⟩, ⟨4, 6, 8, 7⟩, ⟨6, 10, 8, 7⟩, ⟨9, 11, 8, 3⟩, ⟨11, 10, 8, 3⟩, ⟨10, 2, 8, 3⟩, ⟨2, 0, 8, 3⟩, ⟨0, 1, 8, 3⟩, ⟨1, 9, 8, 3⟩, ⟨6, 2, 10, 7⟩, ⟨2, 3, 10, 7⟩, ⟨3, 11, 10, 7⟩, ⟨9, 1, 8, 5⟩, ⟨1, 0, 8, 5⟩, ⟨0, 4, 8, 5⟩, ⟨11, 3, 9, 7⟩, ⟨3, 1, 9, 7⟩, ⟨1, 5, 9, 7⟩, ⟨4, 0, 8, 6⟩, ⟨0, 2, 8, 6⟩, ⟨2, 10, 8, 6⟩]
theorem boxFromCentral_TFF (hx hy hz cy cz mn : ℝ) (ey : cy ≠ 0) (ez : cz ≠ 0) :
    boxFromCentral ⟨hx, hy, hz⟩ ⟨0, cy, cz⟩ mn =
      .ok ⟨boxVertsTFF hx hy hz cy cz, boxTetsTFF, [0, 0, 0, 0, 0, 0, 0, 0, mn, mn, mn, mn]⟩ := by
  simp [boxFromCentral, boxVertsTFF, boxTetsTFF, ey, ez, medialPass, medialStep, ijkOrder, outerVertices, corner, sgn,
    mGet, flat, boxElements, splitToTetrahedra, distinct4, boxPotentials, List.range, List.range.loop]

/-- class TFT (T = medial vertices duplicated along that axis): 10 vertices, 16 tetrahedra -/
def boxVertsTFT (hx hy hz cy : ℝ) : List (V3 ℝ) :=
  [⟨-hx, -hy, -hz⟩, ⟨-hx, -hy, hz⟩, ⟨-hx, hy, -hz⟩, ⟨-hx, hy, hz⟩, ⟨hx, -hy, -hz⟩, ⟨hx, -hy, hz⟩, ⟨hx, hy, -hz⟩, ⟨hx, hy, hz⟩, ⟨0, -cy, 0⟩, ⟨0, cy, 0⟩]
def boxTetsTFT : List Tet :=
  [⟨5, 4, 8, 7⟩, ⟨4, 6, 8, 7⟩, ⟨6, 9, 8, 7⟩, ⟨9, 2, 8, 3⟩, ⟨2, 0, 8, 3⟩, ⟨0, 1, 8, 3⟩, ⟨6, 2, 9, 7⟩, ⟨2, 3, 9, 7⟩, ⟨1, 0, 8, 5⟩, ⟨0, 4, 8, 5⟩, ⟨9, 3, 8, 7⟩, ⟨3, 1, 8, 7⟩, ⟨1, 5, 8, 7⟩, ⟨4, 0, 8, 6⟩, ⟨0, 2, 8, 6⟩, ⟨2, 9, 8, 6⟩]
theorem boxFromCentral_TFT (hx hy hz cy mn : ℝ) (ey : cy ≠ 0) :
    boxFromCentral ⟨hx, hy, hz⟩ ⟨0, cy, 0⟩ mn =
      .ok ⟨boxVertsTFT hx hy hz cy, boxTetsTFT, [0, 0, 0, 0, 0, 0, 0, 0, mn, mn]⟩ := by
  simp [boxFromCentral, boxVertsTFT, boxTetsTFT, ey, medialPass, medialStep, ijkOrder, outerVertices, corner, sgn,
    mGet, flat, boxElements, splitToTetrahedra, distinct4, boxPotentials, List.range, List.range.loop]

/-- class TTF (T = medial vertices duplicated along that axis): 10 vertices, 16 tetrahedra -/
def boxVertsTTF (hx hy hz cz : ℝ) : List (V3 ℝ) :=
  [⟨-hx, -hy, -hz⟩, ⟨-hx, -hy, hz⟩, ⟨-hx, hy, -hz⟩, ⟨-hx, hy, hz⟩, ⟨hx, -hy, -hz⟩, ⟨hx, -hy, hz⟩, ⟨hx, hy, -hz⟩, ⟨hx, hy, hz⟩, ⟨0, 0, -cz⟩, ⟨0, 0, cz⟩]
def boxTetsTTF : List Tet :=
  [⟨9, 5, 8, 7⟩, ⟨5, 4, 8, 7⟩, ⟨4, 6, 8, 7⟩, ⟨2, 0, 8, 3⟩, ⟨0, 1, 8, 3⟩, ⟨1, 9, 8, 3⟩, ⟨6, 2, 8, 7⟩, ⟨2, 3, 8, 7⟩, ⟨3, 9, 8, 7⟩, ⟨9, 1, 8, 5⟩, ⟨1, 0, 8, 5⟩, ⟨0, 4, 8, 5⟩, ⟨3, 1, 9, 7⟩, ⟨1, 5, 9, 7⟩, ⟨4, 0, 8, 6⟩, ⟨0, 2, 8, 6⟩]
theorem boxFromCentral_TTF (hx hy hz cz mn : ℝ) (ez : cz ≠ 0) :
    boxFromCentral ⟨hx, hy, hz⟩ ⟨0, 0, cz⟩ mn =
      .ok ⟨boxVertsTTF hx hy hz cz, boxTetsTTF, [0, 0, 0, 0, 0, 0, 0, 0, mn, mn]⟩ := by
  simp [boxFromCentral, boxVertsTTF, boxTetsTTF, ez, medialPass, medialStep, ijkOrder, outerVertices, corner, sgn,
    mGet, flat, boxElements, splitToTetrahedra, distinct4, boxPotentials, List.range, List.range.loop]

/-- class TTT (T = medial vertices duplicated along that axis): 9 vertices, 12 tetrahedra -/
def boxVertsTTT (hx hy hz : ℝ) : List (V3 ℝ) :=
  [⟨-hx, -hy, -hz⟩, ⟨-hx, -hy, hz⟩, ⟨-hx, hy, -hz⟩, ⟨-hx, hy, hz⟩, ⟨hx, -hy, -hz⟩, ⟨hx, -hy, hz⟩, ⟨hx, hy, -hz⟩, ⟨hx, hy, hz⟩, ⟨0, 0, 0⟩]
def boxTetsTTT : List Tet :=
  [⟨5, 4, 8, 7⟩, ⟨4, 6, 8, 7⟩, ⟨2, 0, 8, 3⟩, ⟨0, 1, 8, 3⟩, ⟨6, 2, 8, 7⟩, ⟨2, 3, 8, 7⟩, ⟨1, 0, 8, 5⟩, ⟨0, 4, 8, 5⟩, ⟨3, 1, 8, 7⟩, ⟨1, 5, 8, 7⟩, ⟨4, 0, 8, 6⟩, ⟨0, 2, 8, 6⟩]
theorem boxFromCentral_TTT (hx hy hz mn : ℝ)  :
    boxFromCentral ⟨hx, hy, hz⟩ ⟨0, 0, 0⟩ mn =
      .ok ⟨boxVertsTTT hx hy hz, boxTetsTTT, [0, 0, 0, 0, 0, 0, 0, 0, mn]⟩ := by
  simp [boxFromCentral, boxVertsTTT, boxTetsTTT, medialPass, medialStep, ijkOrder, outerVertices, corner, sgn,
    mGet, flat, boxElements, splitToTetrahedra, distinct4, boxPotentials, List.range, List.range.loop]

theorem boxGood_FFT (hx hy hz cx cy mn : ℝ) (h1 : 0 < hx) (h2 : 0 < hy) (h3 : 0 < hz) (px : 0 < cx) (lx : cx < hx) (py : 0 < cy) (ly : cy < hy) :
    BoxGood hx hy hz mn ⟨boxVertsFFT hx hy hz cx cy, boxTetsFFT, [0, 0, 0, 0, 0, 0, 0, 0, mn, mn, mn, mn]⟩ := by
  refine ⟨?_, ?_, ?_, ?_, ?_, ?_, ?_, rfl, ?_⟩
  · show ∀ t ∈ boxTetsFFT, t.inRange 12
    decide
  · show ∀ t ∈ boxTetsFFT, t.distinct = true
    decide
  · show ∀ i, i < 12 → ∃ t ∈ boxTetsFFT, i ∈ t.toList
    decide
  · simp only [boxTetsFFT, boxVertsFFT, List.forall_mem_cons, tetPtsD, List.getD_cons_zero, List.getD_cons_succ,
      det3_def, List.not_mem_nil, IsEmpty.forall_iff, implies_true, and_true]
    refine ⟨?_, ?_, ?_, ?_, ?_, ?_, ?_, ?_, ?_, ?_, ?_, ?_, ?_, ?_, ?_, ?_, ?_, ?_, ?_, ?_, ?_, ?_, ?_, ?_⟩ <;>
    nlinarith [mul_pos (mul_pos h1 h2) h3,
      mul_pos (mul_pos h1 py) h3,
      mul_pos (mul_pos h1 (sub_pos.2 ly)) h3,
      mul_pos (mul_pos px h2) h3,
      mul_pos (mul_pos px py) h3,
      mul_pos (mul_pos px (sub_pos.2 ly)) h3,
      mul_pos (mul_pos (sub_pos.2 lx) h2) h3,
      mul_pos (mul_pos (sub_pos.2 lx) py) h3,
      mul_pos (mul_pos (sub_pos.2 lx) (sub_pos.2 ly)) h3]
  · simp only [boxTetsFFT, boxVertsFFT, List.map_cons, List.map_nil, tetPtsD, List.getD_cons_zero, List.getD_cons_succ,
      det3_def, sumS_cons, sumS_nil]
    ring
  · intro p hp
    simp only [boxVertsFFT, List.mem_cons, List.not_mem_nil, or_false] at hp
    rcases hp with rfl | rfl | rfl | rfl | rfl | rfl | rfl | rfl | rfl | rfl | rfl | rfl <;>
    (refine ⟨?_, ?_, ?_, ?_, ?_, ?_⟩ <;> simp only [] <;> linarith)
  · intro pq hpq
    simp only [boxVertsFFT, List.zip_cons_cons, List.zip_nil_right, List.mem_cons, List.not_mem_nil, or_false] at hpq
    rcases hpq with rfl | rfl | rfl | rfl | rfl | rfl | rfl | rfl | rfl | rfl | rfl | rfl
    · exact Or.inl ⟨by simp [OnBdry], rfl⟩
    · exact Or.inl ⟨by simp [OnBdry], rfl⟩
    · exact Or.inl ⟨by simp [OnBdry], rfl⟩
    · exact Or.inl ⟨by simp [OnBdry], rfl⟩
    · exact Or.inl ⟨by simp [OnBdry], rfl⟩
    · exact Or.inl ⟨by simp [OnBdry], rfl⟩
    · exact Or.inl ⟨by simp [OnBdry], rfl⟩
    · exact Or.inl ⟨by simp [OnBdry], rfl⟩
    · exact Or.inr ⟨by refine ⟨?_, ?_, ?_, ?_, ?_, ?_⟩ <;> simp only [] <;> linarith, rfl⟩
    · exact Or.inr ⟨by refine ⟨?_, ?_, ?_, ?_, ?_, ?_⟩ <;> simp only [] <;> linarith, rfl⟩
    · exact Or.inr ⟨by refine ⟨?_, ?_, ?_, ?_, ?_, ?_⟩ <;> simp only [] <;> linarith, rfl⟩
    · exact Or.inr ⟨by refine ⟨?_, ?_, ?_, ?_, ?_, ?_⟩ <;> simp only [] <;> linarith, rfl⟩
  · show 9 ≤ 12 ∧ 12 ≤ 12
    decide

theorem boxGood_FTF (hx hy hz cx cz mn : ℝ) (h1 : 0 < hx) (h2 : 0 < hy) (h3 : 0 < hz) (px : 0 < cx) (lx : cx < hx) (pz : 0 < cz) (lz : cz < hz) :
    BoxGood hx hy hz mn ⟨boxVertsFTF hx hy hz cx cz, boxTetsFTF, [0, 0, 0, 0, 0, 0, 0, 0, mn, mn, mn, mn]⟩ := by
  refine ⟨?_, ?_, ?_, ?_, ?_, ?_, ?_, rfl, ?_⟩
  · show ∀ t ∈ boxTetsFTF, t.inRange 12
    decide
  · show ∀ t ∈ boxTetsFTF, t.distinct = true
    decide
  · show ∀ i, i < 12 → ∃ t ∈ boxTetsFTF, i ∈ t.toList
    decide
  · simp only [boxTetsFTF, boxVertsFTF, List.forall_mem_cons, tetPtsD, List.getD_cons_zero, List.getD_cons_succ,
      det3_def, List.not_mem_nil, IsEmpty.forall_iff, implies_true, and_true]
    refine ⟨?_, ?_, ?_, ?_, ?_, ?_, ?_, ?_, ?_, ?_, ?_, ?_, ?_, ?_, ?_, ?_, ?_, ?_, ?_, ?_, ?_, ?_, ?_, ?_⟩ <;>
    nlinarith [mul_pos (mul_pos h1 h2) h3,
      mul_pos (mul_pos h1 h2) pz,
      mul_pos (mul_pos h1 h2) (sub_pos.2 lz),
      mul_pos (mul_pos px h2) h3,
      mul_pos (mul_pos px h2) pz,
      mul_pos (mul_pos px h2) (sub_pos.2 lz),
      mul_pos (mul_pos (sub_pos.2 lx) h2) h3,
      mul_pos (mul_pos (sub_pos.2 lx) h2) pz,
      mul_pos (mul_pos (sub_pos.2 lx) h2) (sub_pos.2 lz)]
  · simp only [boxTetsFTF, boxVertsFTF, List.map_cons, List.map_nil, tetPtsD, List.getD_cons_zero, List.getD_cons_succ,
      det3_def, sumS_cons, sumS_nil]
    ring
  · intro p hp
    simp only [boxVertsFTF, List.mem_cons, List.not_mem_nil, or_false] at hp
    rcases hp with rfl | rfl | rfl | rfl | rfl | rfl | rfl | rfl | rfl | rfl | rfl | rfl <;>
    (refine ⟨?_, ?_, ?_, ?_, ?_, ?_⟩ <;> simp only [] <;> linarith)
  · intro pq hpq
    simp only [boxVertsFTF, List.zip_cons_cons, List.zip_nil_right, List.mem_cons, List.not_mem_nil, or_false] at hpq
    rcases hpq with rfl | rfl | rfl | rfl | rfl | rfl | rfl | rfl | rfl | rfl | rfl | rfl
    · exact Or.inl ⟨by simp [OnBdry], rfl⟩
    · exact Or.inl ⟨by simp [OnBdry], rfl⟩
    · exact Or.inl ⟨by simp [OnBdry], rfl⟩
    · exact Or.inl ⟨by simp [OnBdry], rfl⟩
    · exact Or.inl ⟨by simp [OnBdry], rfl⟩
    · exact Or.inl ⟨by simp [OnBdry], rfl⟩
    · exact Or.inl ⟨by simp [OnBdry], rfl⟩
    · exact Or.inl ⟨by simp [OnBdry], rfl⟩
    · exact Or.inr ⟨by refine ⟨?_, ?_, ?_, ?_, ?_, ?_⟩ <;> simp only [] <;> linarith, rfl⟩
    · exact Or.inr ⟨by refine ⟨?_, ?_, ?_, ?_, ?_, ?_⟩ <;> simp only [] <;> linarith, rfl⟩
    · exact Or.inr ⟨by refine ⟨?_, ?_, ?_, ?_, ?_, ?_⟩ <;> simp only [] <;> linarith, rfl⟩
    · exact Or.inr ⟨by refine ⟨?_, ?_, ?_, ?_, ?_, ?_⟩ <;> simp only [] <;> linarith, rfl⟩
  · show 9 ≤ 12 ∧ 12 ≤ 12
    decide

theorem boxGood_FTT (hx hy hz cx mn : ℝ) (h1 : 0 < hx) (h2 : 0 < hy) (h3 : 0 < hz) (px : 0 < cx) (lx : cx < hx) :
    BoxGood hx hy hz mn ⟨boxVertsFTT hx hy hz cx, boxTetsFTT, [0, 0, 0, 0, 0, 0, 0, 0, mn, mn]⟩ := by
  refine ⟨?_, ?_, ?_, ?_, ?_, ?_, ?_, rfl, ?_⟩
  · show ∀ t ∈ boxTetsFTT, t.inRange 10
    decide
  · show ∀ t ∈ boxTetsFTT, t.distinct = true
    decide
  · show ∀ i, i < 10 → ∃ t ∈ boxTetsFTT, i ∈ t.toList
    decide
  · simp only [boxTetsFTT, boxVertsFTT, List.forall_mem_cons, tetPtsD, List.getD_cons_zero, List.getD_cons_succ,
      det3_def, List.not_mem_nil, IsEmpty.forall_iff, implies_true, and_true]
    refine ⟨?_, ?_, ?_, ?_, ?_, ?_, ?_, ?_, ?_, ?_, ?_, ?_, ?_, ?_, ?_, ?_⟩ <;>
    nlinarith [mul_pos (mul_pos h1 h2) h3,
      mul_pos (mul_pos px h2) h3,
      mul_pos (mul_pos (sub_pos.2 lx) h2) h3]
  · simp only [boxTetsFTT, boxVertsFTT, List.map_cons, List.map_nil, tetPtsD, List.getD_cons_zero, List.getD_cons_succ,
      det3_def, sumS_cons, sumS_nil]
    ring
  · intro p hp
    simp only [boxVertsFTT, List.mem_cons, List.not_mem_nil, or_false] at hp
    rcases hp with rfl | rfl | rfl | rfl | rfl | rfl | rfl | rfl | rfl | rfl <;>
    (refine ⟨?_, ?_, ?_, ?_, ?_, ?_⟩ <;> simp only [] <;> linarith)
  · intro pq hpq
    simp only [boxVertsFTT, List.zip_cons_cons, List.zip_nil_right, List.mem_cons, List.not_mem_nil, or_false] at hpq
    rcases hpq with rfl | rfl | rfl | rfl | rfl | rfl | rfl | rfl | rfl | rfl
    · exact Or.inl ⟨by simp [OnBdry], rfl⟩
    · exact Or.inl ⟨by simp [OnBdry], rfl⟩
    · exact Or.inl ⟨by simp [OnBdry], rfl⟩
    · exact Or.inl ⟨by simp [OnBdry], rfl⟩
    · exact Or.inl ⟨by simp [OnBdry], rfl⟩
    · exact Or.inl ⟨by simp [OnBdry], rfl⟩
    · exact Or.inl ⟨by simp [OnBdry], rfl⟩
    · exact Or.inl ⟨by simp [OnBdry], rfl⟩
    · exact Or.inr ⟨by refine ⟨?_, ?_, ?_, ?_, ?_, ?_⟩ <;> simp only [] <;> linarith, rfl⟩
    · exact Or.inr ⟨by refine ⟨?_, ?_, ?_, ?_, ?_, ?_⟩ <;> simp only [] <;> linarith, rfl⟩
  · show 9 ≤ 10 ∧ 10 ≤ 12
    decide

theorem boxGood_TFF (hx hy hz cy cz mn : ℝ) (h1 : 0 < hx) (h2 : 0 < hy) (h3 : 0 < hz) (py : 0 < cy) (ly : cy < hy) (pz : 0 < cz) (lz : cz < hz) :
    BoxGood hx hy hz mn ⟨boxVertsTFF hx hy hz cy cz, boxTetsTFF, [0, 0, 0, 0, 0, 0, 0, 0, mn, mn, mn, mn]⟩ := by
  refine ⟨?_, ?_, ?_, ?_, ?_, ?_, ?_, rfl, ?_⟩
  · show ∀ t ∈ boxTetsTFF, t.inRange 12
    decide
  · show ∀ t ∈ boxTetsTFF, t.distinct = true
    decide
  · show ∀ i, i < 12 → ∃ t ∈ boxTetsTFF, i ∈ t.toList
    decide
  · simp only [boxTetsTFF, boxVertsTFF, List.forall_mem_cons, tetPtsD, List.getD_cons_zero, List.getD_cons_succ,
      det3_def, List.not_mem_nil, IsEmpty.forall_iff, implies_true, and_true]
    refine ⟨?_, ?_, ?_, ?_, ?_, ?_, ?_, ?_, ?_, ?_, ?_, ?_, ?_, ?_, ?_, ?_, ?_, ?_, ?_, ?_, ?_, ?_, ?_, ?_⟩ <;>
    nlinarith [mul_pos (mul_pos h1 h2) h3,
      mul_pos (mul_pos h1 h2) pz,
      mul_pos (mul_pos h1 h2) (sub_pos.2 lz),
      mul_pos (mul_pos h1 py) h3,
      mul_pos (mul_pos h1 py) pz,
      mul_pos (mul_pos h1 py) (sub_pos.2 lz),
      mul_pos (mul_pos h1 (sub_pos.2 ly)) h3,
      mul_pos (mul_pos h1 (sub_pos.2 ly)) pz,
      mul_pos (mul_pos h1 (sub_pos.2 ly)) (sub_pos.2 lz)]
  · simp only [boxTetsTFF, boxVertsTFF, List.map_cons, List.map_nil, tetPtsD, List.getD_cons_zero, List.getD_cons_succ,
      det3_def, sumS_cons, sumS_nil]
    ring
  · intro p hp
    simp only [boxVertsTFF, List.mem_cons, List.not_mem_nil, or_false] at hp
    rcases hp with rfl | rfl | rfl | rfl | rfl | rfl | rfl | rfl | rfl | rfl | rfl | rfl <;>
    (refine ⟨?_, ?_, ?_, ?_, ?_, ?_⟩ <;> simp only [] <;> linarith)
  · intro pq hpq
    simp only [boxVertsTFF, List.zip_cons_cons, List.zip_nil_right, List.mem_cons, List.not_mem_nil, or_false] at hpq
    rcases hpq with rfl | rfl | rfl | rfl | rfl | rfl | rfl | rfl | rfl | rfl | rfl | rfl
    · exact Or.inl ⟨by simp [OnBdry], rfl⟩
    · exact Or.inl ⟨by simp [OnBdry], rfl⟩
    · exact Or.inl ⟨by simp [OnBdry], rfl⟩
    · exact Or.inl ⟨by simp [OnBdry], rfl⟩
    · exact Or.inl ⟨by simp [OnBdry], rfl⟩
    · exact Or.inl ⟨by simp [OnBdry], rfl⟩
    · exact Or.inl ⟨by simp [OnBdry], rfl⟩
    · exact Or.inl ⟨by simp [OnBdry], rfl⟩
    · exact Or.inr ⟨by refine ⟨?_, ?_, ?_, ?_, ?_, ?_⟩ <;> simp only [] <;> linarith, rfl⟩
    · exact Or.inr ⟨by refine ⟨?_, ?_, ?_, ?_, ?_, ?_⟩ <;> simp only [] <;> linarith, rfl⟩
    · exact Or.inr ⟨by refine ⟨?_, ?_, ?_, ?_, ?_, ?_⟩ <;> simp only [] <;> linarith, rfl⟩
    · exact Or.inr ⟨by refine ⟨?_, ?_, ?_, ?_, ?_, ?_⟩ <;> simp only [] <;> linarith, rfl⟩
  · show 9 ≤ 12 ∧ 12 ≤ 12
    decide

theorem boxGood_TFT (hx hy hz cy mn : ℝ) (h1 : 0 < hx) (h2 : 0 < hy) (h3 : 0 < hz) (py : 0 < cy) (ly : cy < hy) :
    BoxGood hx hy hz mn ⟨boxVertsTFT hx hy hz cy, boxTetsTFT, [0, 0, 0, 0, 0, 0, 0, 0, mn, mn]⟩ := by
  refine ⟨?_, ?_, ?_, ?_, ?_, ?_, ?_, rfl, ?_⟩
  · show ∀ t ∈ boxTetsTFT, t.inRange 10
    decide
  · show ∀ t ∈ boxTetsTFT, t.distinct = true
    decide
  · show ∀ i, i < 10 → ∃ t ∈ boxTetsTFT, i ∈ t.toList
    decide
  · simp only [boxTetsTFT, boxVertsTFT, List.forall_mem_cons, tetPtsD, List.getD_cons_zero, List.getD_cons_succ,
      det3_def, List.not_mem_nil, IsEmpty.forall_iff, implies_true, and_true]
    refine ⟨?_, ?_, ?_, ?_, ?_, ?_, ?_, ?_, ?_, ?_, ?_, ?_, ?_, ?_, ?_, ?_⟩ <;>
    nlinarith [mul_pos (mul_pos h1 h2) h3,
      mul_pos (mul_pos h1 py) h3,
      mul_pos (mul_pos h1 (sub_pos.2 ly)) h3]
  · simp only [boxTetsTFT, boxVertsTFT, List.map_cons, List.map_nil, tetPtsD, List.getD_cons_zero, List.getD_cons_succ,
      det3_def, sumS_cons, sumS_nil]
    ring
  · intro p hp
    simp only [boxVertsTFT, List.mem_cons, List.not_mem_nil, or_false] at hp
    rcases hp with rfl | rfl | rfl | rfl | rfl | rfl | rfl | rfl | rfl | rfl <;>
    (refine ⟨?_, ?_, ?_, ?_, ?_, ?_⟩ <;> simp only [] <;> linarith)
  · intro pq hpq
    simp only [boxVertsTFT, List.zip_cons_cons, List.zip_nil_right, List.mem_cons, List.not_mem_nil, or_false] at hpq
    rcases hpq with rfl | rfl | rfl | rfl | rfl | rfl | rfl | rfl | rfl | rfl
    · exact Or.inl ⟨by simp [OnBdry], rfl⟩
    · exact Or.inl ⟨by simp [OnBdry], rfl⟩
    · exact Or.inl ⟨by simp [OnBdry], rfl⟩
    · exact Or.inl ⟨by simp [OnBdry], rfl⟩
    · exact Or.inl ⟨by simp [OnBdry], rfl⟩
    · exact Or.inl ⟨by simp [OnBdry], rfl⟩
    · exact Or.inl ⟨by simp [OnBdry], rfl⟩
    · exact Or.inl ⟨by simp [OnBdry], rfl⟩
    · exact Or.inr ⟨by refine ⟨?_, ?_, ?_, ?_, ?_, ?_⟩ <;> simp only [] <;> linarith, rfl⟩
    · exact Or.inr ⟨by refine ⟨?_, ?_, ?_, ?_, ?_, ?_⟩ <;> simp only [] <;> linarith, rfl⟩
  · show 9 ≤ 10 ∧ 10 ≤ 12
    decide

theorem boxGood_TTF (hx hy hz cz mn : ℝ) (h1 : 0 < hx) (h2 : 0 < hy) (h3 : 0 < hz) (pz : 0 < cz) (lz : cz < hz) :
    BoxGood hx hy hz mn ⟨boxVertsTTF hx hy hz cz, boxTetsTTF, [0, 0, 0, 0, 0, 0, 0, 0, mn, mn]⟩ := by
  refine ⟨?_, ?_, ?_, ?_, ?_, ?_, ?_, rfl, ?_⟩
  · show ∀ t ∈ boxTetsTTF, t.inRange 10
    decide
  · show ∀ t ∈ boxTetsTTF, t.distinct = true
    decide
  · show ∀ i, i < 10 → ∃ t ∈ boxTetsTTF, i ∈ t.toList
    decide
  · simp only [boxTetsTTF, boxVertsTTF, List.forall_mem_cons, tetPtsD, List.getD_cons_zero, List.getD_cons_succ,
      det3_def, List.not_mem_nil, IsEmpty.forall_iff, implies_true, and_true]
    refine ⟨?_, ?_, ?_, ?_, ?_, ?_, ?_, ?_, ?_, ?_, ?_, ?_, ?_, ?_, ?_, ?_⟩ <;>
    nlinarith [mul_pos (mul_pos h1 h2) h3,
      mul_pos (mul_pos h1 h2) pz,
      mul_pos (mul_pos h1 h2) (sub_pos.2 lz)]
  · simp only [boxTetsTTF, boxVertsTTF, List.map_cons, List.map_nil, tetPtsD, List.getD_cons_zero, List.getD_cons_succ,
      det3_def, sumS_cons, sumS_nil]
    ring
  · intro p hp
    simp only [boxVertsTTF, List.mem_cons, List.not_mem_nil, or_false] at hp
    rcases hp with rfl | rfl | rfl | rfl | rfl | rfl | rfl | rfl | rfl | rfl <;>
    (refine ⟨?_, ?_, ?_, ?_, ?_, ?_⟩ <;> simp only [] <;> linarith)
  · intro pq hpq
    simp only [boxVertsTTF, List.zip_cons_cons, List.zip_nil_right, List.mem_cons, List.not_mem_nil, or_false] at hpq
    rcases hpq with rfl | rfl | rfl | rfl | rfl | rfl | rfl | rfl | rfl | rfl
    · exact Or.inl ⟨by simp [OnBdry], rfl⟩
    · exact Or.inl ⟨by simp [OnBdry], rfl⟩
    · exact Or.inl ⟨by simp [OnBdry], rfl⟩
    · exact Or.inl ⟨by simp [OnBdry], rfl⟩
    · exact Or.inl ⟨by simp [OnBdry], rfl⟩
    · exact Or.inl ⟨by simp [OnBdry], rfl⟩
    · exact Or.inl ⟨by simp [OnBdry], rfl⟩
    · exact Or.inl ⟨by simp [OnBdry], rfl⟩
    · exact Or.inr ⟨by refine ⟨?_, ?_, ?_, ?_, ?_, ?_⟩ <;> simp only [] <;> linarith, rfl⟩
    · exact Or.inr ⟨by refine ⟨?_, ?_, ?_, ?_, ?_, ?_⟩ <;> simp only [] <;> linarith, rfl⟩
  · show 9 ≤ 10 ∧ 10 ≤ 12
    decide

theorem boxGood_TTT (hx hy hz mn : ℝ) (h1 : 0 < hx) (h2 : 0 < hy) (h3 : 0 < hz) :
    BoxGood hx hy hz mn ⟨boxVertsTTT hx hy hz, boxTetsTTT, [0, 0, 0, 0, 0, 0, 0, 0, mn]⟩ := by
  refine ⟨?_, ?_, ?_, ?_, ?_, ?_, ?_, rfl, ?_⟩
  · show ∀ t ∈ boxTetsTTT, t.inRange 9
    decide
  · show ∀ t ∈ boxTetsTTT, t.distinct = true
    decide
  · show ∀ i, i < 9 → ∃ t ∈ boxTetsTTT, i ∈ t.toList
    decide
  · simp only [boxTetsTTT, boxVertsTTT, List.forall_mem_cons, tetPtsD, List.getD_cons_zero, List.getD_cons_succ,
      det3_def, List.not_mem_nil, IsEmpty.forall_iff, implies_true, and_true]
    refine ⟨?_, ?_, ?_, ?_, ?_, ?_, ?_, ?_, ?_, ?_, ?_, ?_⟩ <;>
    nlinarith [mul_pos (mul_pos h1 h2) h3]
  · simp only [boxTetsTTT, boxVertsTTT, List.map_cons, List.map_nil, tetPtsD, List.getD_cons_zero, List.getD_cons_succ,
      det3_def, sumS_cons, sumS_nil]
    ring
  · intro p hp
    simp only [boxVertsTTT, List.mem_cons, List.not_mem_nil, or_false] at hp
    rcases hp with rfl | rfl | rfl | rfl | rfl | rfl | rfl | rfl | rfl <;>
    (refine ⟨?_, ?_, ?_, ?_, ?_, ?_⟩ <;> simp only [] <;> linarith)
  · intro pq hpq
    simp only [boxVertsTTT, List.zip_cons_cons, List.zip_nil_right, List.mem_cons, List.not_mem_nil, or_false] at hpq
    rcases hpq with rfl | rfl | rfl | rfl | rfl | rfl | rfl | rfl | rfl
    · exact Or.inl ⟨by simp [OnBdry], rfl⟩
    · exact Or.inl ⟨by simp [OnBdry], rfl⟩
    · exact Or.inl ⟨by simp [OnBdry], rfl⟩
    · exact Or.inl ⟨by simp [OnBdry], rfl⟩
    · exact Or.inl ⟨by simp [OnBdry], rfl⟩
    · exact Or.inl ⟨by simp [OnBdry], rfl⟩
    · exact Or.inl ⟨by simp [OnBdry], rfl⟩
    · exact Or.inl ⟨by simp [OnBdry], rfl⟩
    · exact Or.inr ⟨by refine ⟨?_, ?_, ?_, ?_, ?_, ?_⟩ <;> simp only [] <;> linarith, rfl⟩
  · show 9 ≤ 9 ∧ 9 ≤ 12
    decide

/-- with no exactly-zero central half size the second pass appends eight vertices and the
`assert len(mesh_vertices) <= 12` fires -/
theorem boxFromCentral_FFF (hx hy hz cx cy cz mn : ℝ) (ex : cx ≠ 0) (ey : cy ≠ 0) (ez : cz ≠ 0) :
    boxFromCentral ⟨hx, hy, hz⟩ ⟨cx, cy, cz⟩ mn = .error .assertFail := by
  simp [boxFromCentral, ex, ey, ez, medialPass, medialStep, ijkOrder, outerVertices, corner, sgn]

end TetraMesh
end D3
