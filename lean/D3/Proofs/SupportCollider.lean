/-
C03 — the collider classes: point set and well-formedness of every collider, support /
first_vertex / center of the `Collider` sum type.
-/
import D3.Proofs.SupportMeshBuild

namespace D3
namespace Support

/-- the point set of a collider -/
def Collider.pointSet : Collider ℝ → V → Prop
  | .sphere c r => ballSet c r
  | .capsule A r h => poseImage A (capsuleLocalSet r h)
  | .ellipsoid A radii => poseImage A (ellipsoidLocalSet radii)
  | .cylinder A r l => poseImage A (cylinderLocalSet r l)
  | .disk c r n => diskSet c r n
  | .ellipse c a0 a1 r0 r1 => ellipseSet c a0 a1 r0 r1
  | .cone A r h => poseImage A (coneLocalSet r h)
  | .box A size => poseImage A (boxSizeSet size)
  | .hull vs => hullSet vs
  | .mesh A m _ => meshSet A m
  | .margin c m => marginSet c.pointSet m

/-- well-formedness the property grants: strictly positive sizes, unit normal, non-empty vertex
list, mesh data on which hill climbing cannot raise; **no** condition on the pose matrix -/
def Collider.WF : Collider ℝ → Prop
  | .sphere _ r => 0 < r
  | .capsule _ r h => 0 < r ∧ 0 < h
  | .ellipsoid _ radii => 0 < radii.x ∧ 0 < radii.y ∧ 0 < radii.z
  | .cylinder _ r l => 0 < r ∧ 0 < l
  | .disk _ r n => 0 < r ∧ V3.normSq n = 1
  | .ellipse _ _ _ r0 r1 => 0 < r0 ∧ 0 < r1
  | .cone _ r h => 0 < r ∧ 0 < h
  | .box _ size => 0 < size.x ∧ 0 < size.y ∧ 0 < size.z
  | .hull vs => vs ≠ []
  | .mesh _ m fi => MeshWF m ∧ Valid m fi
  | .margin c m => c.WF ∧ 0 ≤ m

/-- no `MeshGraph` inside (those colliders are stateless and exact) -/
def Collider.meshFree : Collider ℝ → Prop
  | .mesh _ _ _ => False
  | .margin c _ => c.meshFree
  | _ => True

/-- **support_function of every stateless collider** (all closed forms, Box, vertex hull, and
Margin around any of them, nested arbitrarily): the call succeeds, leaves the object unchanged
and returns a support point of the collider's point set — for every direction (also `d = 0`),
every pose matrix, every positive size -/
theorem collider_support : ∀ (c : Collider ℝ), c.WF → c.meshFree → ∀ d : V,
    ∃ br p, c.support d = .ok (br, p, c) ∧ IsSupport c.pointSet d p := by
  intro c
  induction c with
  | sphere c r =>
    intro h _ d
    exact ⟨_, _, rfl, supportSphere_isSupport d c r (le_of_lt h)⟩
  | capsule A r h =>
    intro hw _ d
    exact ⟨_, _, rfl, supportCapsule_isSupport d A r h hw.1.le hw.2.le⟩
  | ellipsoid A radii =>
    intro hw _ d
    exact ⟨_, _, rfl, supportEllipsoid_isSupport d A radii hw.1 hw.2.1 hw.2.2⟩
  | cylinder A r l =>
    intro hw _ d
    exact ⟨_, _, rfl, supportCylinder_isSupport d A r l hw.1.le hw.2.le⟩
  | disk c r n =>
    intro hw _ d
    obtain ⟨b, p, h1, h2⟩ := supportDisk_isSupport d c r hw.1.le n hw.2
    refine ⟨b, p, ?_, h2⟩
    simp only [Collider.support]; rw [h1]
  | ellipse c a0 a1 r0 r1 =>
    intro hw _ d
    exact ⟨_, _, rfl, supportEllipse_isSupport d c a0 a1 r0 r1 hw.1 hw.2⟩
  | cone A r h =>
    intro hw _ d
    exact ⟨_, _, rfl, supportCone_isSupport d A r h hw.1.le hw.2⟩
  | box A size =>
    intro hw _ d
    obtain ⟨i, p, h1, _, h3⟩ := supportBox_isSupport d A size hw.1.le hw.2.1.le hw.2.2.le
    refine ⟨i, p, ?_, h3⟩
    simp only [Collider.support]; rw [h1]
  | hull vs =>
    intro hw _ d
    obtain ⟨i, p, h1, _, h3⟩ := supportHull_isSupport d vs hw
    refine ⟨i, p, ?_, h3⟩
    simp only [Collider.support]; rw [h1]
  | mesh A m fi => intro _ hf; exact absurd hf (by simp [Collider.meshFree])
  | margin c m ih =>
    intro hw hf d
    obtain ⟨br, p, h1, h2⟩ := ih hw.1 hf d
    refine ⟨br, p + m * normVector d, ?_, margin_support _ m hw.2 d p h2⟩
    simp only [Collider.support]; rw [h1]

/-! ### first_vertex and center -/

theorem apply_zero (A : Pose ℝ) : A.apply ⟨0, 0, 0⟩ = A.t := by
  apply V3.ext' <;> simp [Pose.apply, M3.mulVec, V3.dot_def]

theorem apply_ez (A : Pose ℝ) (z : ℝ) : A.apply ⟨0, 0, z⟩ = A.t + z * A.R.col2 := by
  apply V3.ext' <;> simp [Pose.apply, M3.mulVec, V3.dot_def, M3.col2] <;> ring

theorem apply_ez_neg (A : Pose ℝ) (z : ℝ) : A.apply ⟨0, 0, -z⟩ = A.t - z * A.R.col2 := by
  apply V3.ext' <;> simp [Pose.apply, M3.mulVec, V3.dot_def, M3.col2] <;> ring

/-- **center() is a point of the collider** -/
theorem collider_center_mem : ∀ (c : Collider ℝ), c.WF → c.pointSet c.center := by
  intro c
  induction c with
  | sphere c r =>
    intro _
    show V3.normSq (c - c) ≤ r * r
    simp only [V3.normSq_def, V3.sub_x, V3.sub_y, V3.sub_z, sub_self, mul_zero, add_zero]
    exact mul_self_nonneg r
  | capsule A r h =>
    intro hw
    refine ⟨⟨0, 0, 0⟩, ⟨0, by linarith [hw.2], by linarith [hw.2], ?_⟩, (apply_zero A).symm⟩
    simp only [sub_self, mul_zero, add_zero]; exact mul_self_nonneg r
  | ellipsoid A radii =>
    intro _
    refine ⟨⟨0, 0, 0⟩, ?_, (apply_zero A).symm⟩
    simp [ellipsoidLocalSet]
  | cylinder A r l =>
    intro hw
    refine ⟨⟨0, 0, 0⟩, ⟨?_, by linarith [hw.2], by linarith [hw.2]⟩, (apply_zero A).symm⟩
    simp only [mul_zero, add_zero]; exact mul_self_nonneg r
  | disk c r n =>
    intro _
    refine ⟨?_, ?_⟩
    · simp [Collider.center, V3.dot_def]
    · simp only [Collider.center, V3.normSq_def, V3.sub_x, V3.sub_y, V3.sub_z, sub_self, mul_zero, add_zero]
      exact mul_self_nonneg r
  | ellipse c a0 a1 r0 r1 =>
    intro _
    refine ⟨0, 0, by simp, ?_⟩
    apply V3.ext' <;> simp [Collider.center]
  | cone A r h =>
    intro hw
    refine ⟨⟨0, 0, 0.5 * h⟩, ⟨?_, ?_, ?_⟩, ?_⟩
    · simp only [half_real]; linarith [hw.2]
    · simp only [half_real]; linarith [hw.2]
    · simp only [half_real, mul_zero, add_zero]
      nlinarith [mul_self_nonneg r, mul_self_nonneg (h - 1 / 2 * h)]
    · rw [apply_ez]; rfl
  | box A size =>
    intro hw
    refine ⟨⟨0, 0, 0⟩, ⟨⟨?_, ?_⟩, ⟨?_, ?_⟩, ⟨?_, ?_⟩⟩, (apply_zero A).symm⟩ <;>
      simp only <;> linarith [hw.1, hw.2.1, hw.2.2]
  | hull vs => intro hw; exact meanV_mem vs hw
  | mesh A m fi =>
    intro hw
    have hne : m.verts.toList ≠ [] := by
      intro h
      have : m.verts.size = 0 := by simpa using congrArg List.length h
      exact absurd hw.2.1 (by omega)
    exact ⟨_, meanV_mem _ hne, transformPoint_eq A _⟩
  | margin c m ih => intro hw; exact margin_superset _ m _ (ih hw.1)

/-- **first_vertex() succeeds and is a point of the collider** -/
theorem collider_firstVertex_mem : ∀ (c : Collider ℝ), c.WF →
    ∃ p, c.firstVertex = .ok p ∧ c.pointSet p := by
  intro c
  induction c with
  | sphere c r =>
    intro _
    refine ⟨_, rfl, ?_⟩
    show V3.normSq (c + ⟨0, 0, r⟩ - c) ≤ r * r
    simp [V3.normSq_def]
  | capsule A r h =>
    intro hw
    refine ⟨_, rfl, ⟨0, 0, -(r + 0.5 * h)⟩, ⟨-(h / 2), le_refl _, by linarith [hw.2], ?_⟩, ?_⟩
    · simp only [half_real, mul_zero, add_zero, zero_add]
      have : (-(r + 1 / 2 * h) - -(h / 2)) = -r := by ring
      rw [this]; linarith [neg_mul_neg r r]
    · rw [apply_ez_neg]
  | ellipsoid A radii =>
    intro hw
    refine ⟨_, rfl, ⟨0, 0, radii.z⟩, ?_, by rw [apply_ez]⟩
    have : radii.z ≠ 0 := ne_of_gt hw.2.2
    simp [ellipsoidLocalSet, this]
  | cylinder A r l =>
    intro hw
    refine ⟨_, rfl, ⟨0, 0, 0.5 * l⟩, ⟨?_, ?_, ?_⟩, by rw [apply_ez]⟩
    · simp only [mul_zero, add_zero]; exact mul_self_nonneg r
    · simp only [half_real]; linarith [hw.2]
    · simp only [half_real]; linarith [hw.2]
  | disk c r n =>
    intro hw
    obtain ⟨b, x, y, hb, hO⟩ := planeBasis_orthonormal n hw.2
    refine ⟨c + r * x, by simp only [Collider.firstVertex]; rw [hb], ?_, ?_⟩
    · have h02 := hO.c02
      simp only [columnStack, M3.col0, M3.col2, V3.dot_def] at h02
      simp only [V3.dot_def, V3.sub_x, V3.sub_y, V3.sub_z, V3.add_x, V3.add_y, V3.add_z, V3.smul_x,
        V3.smul_y, V3.smul_z]
      linear_combination r * h02
    · have h00 := hO.c00
      simp only [columnStack, M3.col0, V3.dot_def] at h00
      simp only [V3.normSq_def, V3.sub_x, V3.sub_y, V3.sub_z, V3.add_x, V3.add_y, V3.add_z, V3.smul_x,
        V3.smul_y, V3.smul_z]
      have : (c.x + r * x.x - c.x) * (c.x + r * x.x - c.x) + (c.y + r * x.y - c.y) * (c.y + r * x.y - c.y)
          + (c.z + r * x.z - c.z) * (c.z + r * x.z - c.z) = r * r := by
        linear_combination (r * r) * h00
      exact le_of_eq this
  | ellipse c a0 a1 r0 r1 =>
    intro hw
    refine ⟨_, rfl, r0, 0, ?_, ?_⟩
    · have : r0 ≠ 0 := ne_of_gt hw.1
      simp [this]
    · apply V3.ext' <;> simp [mul_comm]
  | cone A r h =>
    intro hw
    refine ⟨_, rfl, ⟨0, 0, h⟩, ⟨hw.2.le, le_refl _, ?_⟩, by rw [apply_ez]⟩
    simp
  | box A size =>
    intro hw
    have hne : boxVertices A size ≠ [] := by simp [boxVertices, boxCoords]
    cases hbv : boxVertices A size with
    | nil => exact absurd hbv hne
    | cons v rest =>
      refine ⟨v, by simp only [Collider.firstVertex]; rw [hbv], ?_⟩
      exact boxVertices_mem A size hw.1.le hw.2.1.le hw.2.2.le v (by rw [hbv]; exact List.mem_cons_self)
  | hull vs =>
    intro hw
    cases vs with
    | nil => exact absurd rfl hw
    | cons v rest => exact ⟨v, rfl, hullSet.vertex List.mem_cons_self⟩
  | mesh A m fi =>
    intro hw
    have h0 : 0 < m.verts.size := by have := hw.2.1; omega
    refine ⟨transformPoint A m.verts[0], ?_, ?_⟩
    · simp only [Collider.firstVertex]; rw [Array.getElem?_eq_getElem h0]
    · exact ⟨_, hullSet.vertex (getElem_mem_toList h0), transformPoint_eq A _⟩
  | margin c m ih =>
    intro hw
    obtain ⟨p, h1, h2⟩ := ih hw.1
    exact ⟨p, h1, margin_superset _ m _ h2⟩

/-! ### approximate support (meshes, Margin around meshes) -/

/-- `p ∈ K` and no point of `K` projects more than `ε` beyond `p` -/
def IsSupportWithin (K : V → Prop) (d p : V) (ε : ℝ) : Prop :=
  K p ∧ ∀ x, K x → V3.dot d x ≤ V3.dot d p + ε

theorem isSupportWithin_zero {K : V → Prop} {d p : V} :
    IsSupportWithin K d p 0 ↔ IsSupport K d p := by
  unfold IsSupportWithin IsSupport; simp

/-- Margin preserves the slack: `Margin(MeshGraph)` is as good as the mesh it wraps -/
theorem margin_support_within (K : V → Prop) (m : ℝ) (hm : 0 ≤ m) (d p : V) (ε : ℝ)
    (h : IsSupportWithin K d p ε) :
    IsSupportWithin (marginSet K m) d (p + m * normVector d) ε := by
  -- reuse the exact statement on the singleton-free formulation: shift by the slack
  have hnn := V3.norm_sq d
  have hn0 := V3.norm_nonneg d
  refine ⟨?_, ?_⟩
  · exact (margin_support (fun x => x = p) m hm d p ⟨rfl, by intro x hx; rw [hx]⟩).1 |>
      fun ⟨x, u, hx, hu, he⟩ => ⟨x, u, hx ▸ h.1, hu, he⟩
  · rintro q ⟨x, u, hx, hu, rfl⟩
    have h1 := h.2 x hx
    have h2 := cs3 hn0 hnn hm hu
    have h3 := (margin_support (fun x => x = p) m hm d p ⟨rfl, by intro x hx; rw [hx]⟩).2
      (p + u) ⟨p, u, rfl, hu, rfl⟩
    have e1 : V3.dot d (x + u) = V3.dot d x + V3.dot d u := by
      simp only [V3.dot_def, V3.add_x, V3.add_y, V3.add_z]; ring
    have e2 : V3.dot d (p + u) = V3.dot d p + V3.dot d u := by
      simp only [V3.dot_def, V3.add_x, V3.add_y, V3.add_z]; ring
    -- d·(p + m·d/|d|) = d·p + |d| m  ≥ d·p + d·u for every |u| ≤ m; combine with the slack of p
    have h4 : ∀ u' : V, V3.normSq u' ≤ m * m →
        V3.dot d p + V3.dot d u' ≤ V3.dot d (p + m * normVector d) := by
      intro u' hu'
      have := (margin_support (fun x => x = p) m hm d p ⟨rfl, by intro x hx; rw [hx]⟩).2
        (p + u') ⟨p, u', rfl, hu', rfl⟩
      have e : V3.dot d (p + u') = V3.dot d p + V3.dot d u' := by
        simp only [V3.dot_def, V3.add_x, V3.add_y, V3.add_z]; ring
      linarith
    have := h4 u hu
    linarith

end Support
end D3
