/-
The code after the loop of `gjk_distance_jolt` (C01): `calculate_closest_points` returns
pre-images `a ∈ A`, `b ∈ B` of the closest point under a specification of the barycentric
routines (`BarySpec`), `gjkFinish` returns them (or their midpoint when `dist < EPSILON`);
`joltBary`'s line routine is shown to meet the specification outside its degenerate band.
-/
import D3.Proofs.GjkExit

namespace D3
namespace Gjk
open GjkJolt

/-- **specification of the barycentric routines** used by `calculate_closest_points`, relative
to non-degeneracy predicates `nd2/nd3/nd4` (the bands in which the routines fall back to
lower-dimensional formulas are excluded by name): on a simplex whose closest point `x` has
positive weights on all vertices they return non-negative weights summing to one that
reproduce `x`. -/
structure BarySpec (bary : Bary ℝ) (nd2 : V → V → Prop) (nd3 : V → V → V → Prop)
    (nd4 : V → V → V → V → Prop) : Prop where
  line : ∀ a b u v x, nd2 a b → bary.line a b = .ok (u, v) → Closest [a, b] x →
    0 ≤ u ∧ 0 ≤ v ∧ u + v = 1 ∧ u * a + v * b = x
  plane : ∀ a b c u v w x, nd3 a b c → bary.plane a b c = .ok (u, v, w) → Closest [a, b, c] x →
    0 ≤ u ∧ 0 ≤ v ∧ 0 ≤ w ∧ u + v + w = 1 ∧ u * a + v * b + w * c = x
  tetra : ∀ a b c d u v w t x, nd4 a b c d → bary.tetra a b c d = .ok (u, v, w, t) →
    Closest [a, b, c, d] x →
    0 ≤ u ∧ 0 ≤ v ∧ 0 ≤ w ∧ 0 ≤ t ∧ u + v + w + t = 1 ∧ u * a + v * b + w * c + t * d = x

/-- the final simplex is outside the degenerate bands of the barycentric routines -/
def NonDeg (nd2 : V → V → Prop) (nd3 : V → V → V → Prop) (nd4 : V → V → V → V → Prop)
    (st : State ℝ) : Prop :=
  (st.nPoints = 2 → nd2 st.Y.r0 st.Y.r1) ∧ (st.nPoints = 3 → nd3 st.Y.r0 st.Y.r1 st.Y.r2) ∧
    (st.nPoints = 4 → nd4 st.Y.r0 st.Y.r1 st.Y.r2 st.Y.r3)

theorem zipWith_eq_1 {a : V} {p q : V} (h : [a] = List.zipWith (· - ·) [p] [q]) : a = p - q := by
  simpa using h

/-- **(2) feasibility of `calculate_closest_points`.**  With `Y = P − Q`, `P ⊆ A`, `Q ⊆ B`
(convex), and `x` the closest point of the simplex with positive weights, the returned points
satisfy `a ∈ A`, `b ∈ B`, `a − b = x`. -/
theorem ccp_feasible {A B : V → Prop} (hA : ConvexSet A) (hB : ConvexSet B) {bary : Bary ℝ}
    {nd2 : V → V → Prop} {nd3 : V → V → V → Prop} {nd4 : V → V → V → V → Prop}
    (hb : BarySpec bary nd2 nd3 nd4) {st : State ℝ} (hst : Stored A B st 4) {x : V}
    (hx : Closest (st.Y.pre st.nPoints) x) (hnd : NonDeg nd2 nd3 nd4 st)
    {ab : Option (V × V)}
    (h : calculateClosestPoints bary st.Y st.P st.Q st.nPoints = .ok ab) :
    ∃ a b, ab = some (a, b) ∧ A a ∧ B b ∧ a - b = x := by
  obtain ⟨hn4, hs⟩ := hst
  obtain ⟨Y, P, Q, n, prev, vl, sd⟩ := st
  obtain ⟨y0, y1, y2, y3⟩ := Y
  obtain ⟨p0, p1, p2, p3⟩ := P
  obtain ⟨q0, q1, q2, q3⟩ := Q
  simp only at hn4 hs hx hnd h
  have hne := relint_ne_nil hx.relint
  obtain ⟨hyeq, hpm, hqm⟩ := hs
  unfold calculateClosestPoints at h
  interval_cases n
  · exact absurd rfl hne
  · -- one point
    simp only [A4.pre, A4.toList, List.take] at hyeq hpm hqm hx
    simp at h
    subst h
    obtain ⟨ws, hl, _, hsum, he⟩ := hx.relint
    match ws, hl with
    | [w0], _ =>
      simp at hsum
      subst hsum
      refine ⟨p0, q0, rfl, hpm p0 (by simp), hqm q0 (by simp), ?_⟩
      rw [he]
      have := zipWith_eq_1 hyeq
      simp [lincomb, add_zeroV, one_smul_vec, this]
  · -- two points
    simp only [A4.pre, A4.toList, List.take] at hyeq hpm hqm hx
    simp only [show (2 : Nat) ≠ 1 by decide, if_false, if_true] at h
    cases hbl : bary.line y0 y1 with
    | error e => simp [hbl, bind, Except.bind] at h
    | ok uv =>
      obtain ⟨u, v⟩ := uv
      simp [hbl, bind, Except.bind] at h
      subst h
      obtain ⟨hu, hv, huv, hxe⟩ := hb.line y0 y1 u v x (hnd.1 rfl) hbl hx
      have hY : y0 = p0 - q0 ∧ y1 = p1 - q1 := by simpa using hyeq
      have hw : ∀ w ∈ [u, v], 0 ≤ w := by
        intro w hw; simp at hw; rcases hw with rfl | rfl <;> assumption
      obtain ⟨ha, hb', _⟩ := hull_pre_images hA hB (ps := [p0, p1]) (qs := [q0, q1]) rfl hpm hqm
        (ws := [u, v]) rfl hw (by simp [huv])
      refine ⟨_, _, rfl, ?_, ?_, ?_⟩
      · simpa [lincomb, add_zeroV] using ha
      · simpa [lincomb, add_zeroV] using hb'
      · rw [← hxe, hY.1, hY.2]
        apply V3.ext' <;> simp <;> ring
  · -- three points
    simp only [A4.pre, A4.toList, List.take] at hyeq hpm hqm hx
    simp only [show (3 : Nat) ≠ 1 by decide, show (3 : Nat) ≠ 2 by decide, if_false, if_true] at h
    cases hbl : bary.plane y0 y1 y2 with
    | error e => simp [hbl, bind, Except.bind] at h
    | ok uvw =>
      obtain ⟨u, v, w⟩ := uvw
      simp [hbl, bind, Except.bind] at h
      subst h
      obtain ⟨hu, hv, hw', huvw, hxe⟩ := hb.plane y0 y1 y2 u v w x (hnd.2.1 rfl) hbl hx
      have hY : y0 = p0 - q0 ∧ y1 = p1 - q1 ∧ y2 = p2 - q2 := by simpa using hyeq
      have hw : ∀ z ∈ [u, v, w], 0 ≤ z := by
        intro z hz; simp at hz; rcases hz with rfl | rfl | rfl <;> assumption
      obtain ⟨ha, hb', _⟩ := hull_pre_images hA hB (ps := [p0, p1, p2]) (qs := [q0, q1, q2]) rfl
        hpm hqm (ws := [u, v, w]) rfl hw (by simp; linarith)
      refine ⟨_, _, rfl, ?_, ?_, ?_⟩
      · have e : u * p0 + v * p1 + w * p2 = lincomb [u, v, w] [p0, p1, p2] := by
          apply V3.ext' <;> simp [lincomb] <;> ring
        rw [e]; exact ha
      · have e : u * q0 + v * q1 + w * q2 = lincomb [u, v, w] [q0, q1, q2] := by
          apply V3.ext' <;> simp [lincomb] <;> ring
        rw [e]; exact hb'
      · rw [← hxe, hY.1, hY.2.1, hY.2.2]
        apply V3.ext' <;> simp <;> ring
  · -- four points
    simp only [A4.pre, A4.toList, List.take] at hyeq hpm hqm hx
    simp only [show (4 : Nat) ≠ 1 by decide, show (4 : Nat) ≠ 2 by decide,
      show (4 : Nat) ≠ 3 by decide, if_false, if_true] at h
    cases hbl : bary.tetra y0 y1 y2 y3 with
    | error e => simp [hbl, bind, Except.bind] at h
    | ok uvwt =>
      obtain ⟨u, v, w, t⟩ := uvwt
      simp [hbl, bind, Except.bind] at h
      subst h
      obtain ⟨hu, hv, hw', ht', hsum, hxe⟩ :=
        hb.tetra y0 y1 y2 y3 u v w t x (hnd.2.2 rfl) hbl hx
      have hY : y0 = p0 - q0 ∧ y1 = p1 - q1 ∧ y2 = p2 - q2 ∧ y3 = p3 - q3 := by simpa using hyeq
      have hw : ∀ z ∈ [u, v, w, t], 0 ≤ z := by
        intro z hz; simp at hz; rcases hz with rfl | rfl | rfl | rfl <;> assumption
      obtain ⟨ha, hb', _⟩ := hull_pre_images hA hB (ps := [p0, p1, p2, p3])
        (qs := [q0, q1, q2, q3]) rfl hpm hqm (ws := [u, v, w, t]) rfl hw (by simp; linarith)
      refine ⟨_, _, rfl, ?_, ?_, ?_⟩
      · have e : u * p0 + v * p1 + w * p2 + t * p3 = lincomb [u, v, w, t] [p0, p1, p2, p3] := by
          apply V3.ext' <;> simp [lincomb] <;> ring
        rw [e]; exact ha
      · have e : u * q0 + v * q1 + w * q2 + t * q3 = lincomb [u, v, w, t] [q0, q1, q2, q3] := by
          apply V3.ext' <;> simp [lincomb] <;> ring
        rw [e]; exact hb'
      · rw [← hxe, hY.1, hY.2.1, hY.2.2.1, hY.2.2.2]
        apply V3.ext' <;> simp <;> ring

/-- inversion of `gjkFinish` -/
theorem finish_cases {bary : Bary ℝ} {sanity : ℝ} {gs : GjkState} {st : State ℝ} {it : Nat}
    {res : Result ℝ} (h : gjkFinish bary sanity gs st it = .ok res) :
    ∃ ab, calculateClosestPoints bary st.Y st.P st.Q st.nPoints = .ok ab ∧
      absS (V3.dot st.sd st.sd - st.vLenSq) < sanity ∧ 0 ≤ st.vLenSq ∧
      res.clipped = false ∧ res.dist = Real.sqrt st.vLenSq ∧ res.exit = gs ∧ res.st = st ∧
      ((Real.sqrt st.vLenSq < EPS ∧ ∃ a b, ab = some (a, b) ∧
          res.a = some ((0.5 : ℝ) * (a + b)) ∧ res.b = some ((0.5 : ℝ) * (a + b))) ∨
       (EPS ≤ Real.sqrt st.vLenSq ∧ res.a = ab.map (·.1) ∧ res.b = ab.map (·.2))) := by
  unfold gjkFinish at h
  simp only [bind, Except.bind] at h
  split at h
  · cases h
  · rename_i ab hab
    refine ⟨ab, hab, ?_⟩
    split at h
    · cases h
    · rename_i hsan
      split at h
      · cases h
      · rename_i hneg
        split at h
        · rename_i hd
          split at h
          · cases h
          · rename_i a b
            cases h
            exact ⟨not_not.mp hsan, not_lt.mp hneg, rfl, rfl, rfl, rfl,
              Or.inl ⟨hd, a, b, rfl, rfl, rfl⟩⟩
        · rename_i hd
          cases h
          exact ⟨not_not.mp hsan, not_lt.mp hneg, rfl, rfl, rfl, rfl,
            Or.inr ⟨not_lt.mp hd, rfl, rfl⟩⟩

/-! ### `joltBary.line` meets `BarySpec.line` outside its degenerate band -/

/-- the closest point of a segment with positive weights on both ends is orthogonal to it -/
theorem closest2_orth {a b x : V} (h : Closest [a, b] x) :
    ∃ l0 l1 : ℝ, 0 < l0 ∧ 0 < l1 ∧ l0 + l1 = 1 ∧ x = l0 * a + l1 * b ∧ V3.dot x (b - a) = 0 := by
  obtain ⟨ws, hl, hpos, hsum, he⟩ := h.relint
  match ws, hl with
  | [l0, l1], _ =>
    have h0 : 0 < l0 := hpos l0 (by simp)
    have h1 : 0 < l1 := hpos l1 (by simp)
    have hs : l0 + l1 = 1 := by simpa using hsum
    have hx : x = l0 * a + l1 * b := by rw [he]; simp [lincomb, add_zeroV]
    refine ⟨l0, l1, h0, h1, hs, hx, ?_⟩
    -- move along the segment by ±t
    have hmove : ∀ t : ℝ, -l1 ≤ t → t ≤ l0 →
        V3.normSq x ≤ V3.normSq x + 2 * t * V3.dot x (b - a) + t * t * V3.normSq (b - a) := by
      intro t ht1 ht2
      have hin : InHull [a, b] ((l0 - t) * a + (l1 + t) * b) :=
        ⟨[l0 - t, l1 + t], rfl, by
          intro w hw; simp at hw; rcases hw with rfl | rfl <;> linarith, by simp; linarith,
          by simp [lincomb, add_zeroV]⟩
      have := h.minnorm.2 _ hin
      have e : V3.normSq ((l0 - t) * a + (l1 + t) * b)
          = V3.normSq x + 2 * t * V3.dot x (b - a) + t * t * V3.normSq (b - a) := by
        rw [hx]
        simp only [V3.normSq_def, V3.dot_def, V3.add_x, V3.add_y, V3.add_z, V3.smul_x, V3.smul_y,
          V3.smul_z, V3.sub_x, V3.sub_y, V3.sub_z]
        ring
      rw [e] at this
      exact this
    set c := V3.dot x (b - a) with hc
    set D := V3.normSq (b - a) with hD
    have hD0 : 0 ≤ D := V3.normSq_nonneg _
    by_contra hne
    rcases lt_or_gt_of_ne hne with hneg | hpos'
    · -- c < 0: move forward by a small t > 0
      by_cases hDz : D = 0
      · have := hmove l0 (by linarith) le_rfl
        rw [hDz] at this; nlinarith
      · have hDp : 0 < D := lt_of_le_of_ne hD0 (Ne.symm hDz)
        have ht : 0 < min l0 (-c / D) := lt_min h0 (div_pos (by linarith) hDp)
        have := hmove (min l0 (-c / D)) (by linarith) (min_le_left _ _)
        have h2 : min l0 (-c / D) * D ≤ -c := by
          calc min l0 (-c / D) * D ≤ (-c / D) * D := by
                apply mul_le_mul_of_nonneg_right (min_le_right _ _) hD0
            _ = -c := by field_simp
        nlinarith
    · by_cases hDz : D = 0
      · have := hmove (-l1) le_rfl (by linarith)
        rw [hDz] at this; nlinarith
      · have hDp : 0 < D := lt_of_le_of_ne hD0 (Ne.symm hDz)
        have ht : 0 < min l1 (c / D) := lt_min h1 (div_pos hpos' hDp)
        have := hmove (-(min l1 (c / D))) (by linarith [min_le_left l1 (c / D)]) (by linarith)
        have h2 : min l1 (c / D) * D ≤ c := by
          calc min l1 (c / D) * D ≤ (c / D) * D := by
                apply mul_le_mul_of_nonneg_right (min_le_right _ _) hD0
            _ = c := by field_simp
        nlinarith

/-- non-degenerate band of `get_barycentric_coordinates_line`: `|b − a|² ≥ EPSILON²` -/
def jnd2 (a b : V) : Prop := (Simplex.EPS2 : ℝ) ≤ V3.normSq (b - a)

theorem EPS2_pos : (0 : ℝ) < Simplex.EPS2 := by
  unfold Simplex.EPS2 D3.Gen.gjk__gjk_jolt__EPSILON_SQR; norm_num

/-- `joltBary.line` (the C18 model of `get_barycentric_coordinates_line`) returns exactly the
weights of the closest point when the segment is not in the degenerate band -/
theorem joltBary_line_spec (a b : V) (u v : ℝ) (x : V) (hnd : jnd2 a b)
    (h : (joltBary (α := ℝ)).line a b = .ok (u, v)) (hx : Closest [a, b] x) :
    0 ≤ u ∧ 0 ≤ v ∧ u + v = 1 ∧ u * a + v * b = x := by
  obtain ⟨l0, l1, h0, h1, hs, hxe, horth⟩ := closest2_orth hx
  have hD : 0 < V3.normSq (b - a) := lt_of_lt_of_le EPS2_pos hnd
  have hDne : V3.dot (b - a) (b - a) ≠ 0 := ne_of_gt hD
  simp only [joltBary, Simplex.baryLine, bind, Except.bind] at h
  have hnot : ¬ V3.dot (b - a) (b - a) < (Simplex.EPS2 : ℝ) := not_lt.mpr hnd
  simp only [hnot, if_false, Simplex.cdiv] at h
  have hor : V3.dot (b - a) (b - a) < 0 ∨ 0 < V3.dot (b - a) (b - a) := Or.inr hD
  simp only [hor, if_true] at h
  have hv : v = -(V3.dot a (b - a)) / V3.dot (b - a) (b - a) := by
    have := congrArg (fun r : Except Err (ℝ × ℝ) => match r with | .ok p => p.2 | .error _ => 0) h
    simpa using this.symm
  have hu : u = 1 - v := by
    have := congrArg (fun r : Except Err (ℝ × ℝ) => match r with | .ok p => p.1 | .error _ => 0) h
    simp at this
    rw [hv]; exact this.symm
  -- l1 is the same quotient: x ⟂ (b − a) with x = a + l1 (b − a)
  have hl1 : l1 = -(V3.dot a (b - a)) / V3.dot (b - a) (b - a) := by
    rw [eq_div_iff hDne]
    have hl0 : l0 = 1 - l1 := by linarith
    rw [hxe, hl0] at horth
    simp only [V3.dot_def, V3.add_x, V3.add_y, V3.add_z, V3.smul_x, V3.smul_y, V3.smul_z,
      V3.sub_x, V3.sub_y, V3.sub_z] at horth ⊢
    linarith
  have hvl : v = l1 := by rw [hv, hl1]
  have hul : u = l0 := by rw [hu, hvl]; linarith
  refine ⟨by rw [hul]; exact h0.le, by rw [hvl]; exact h1.le, by rw [hul, hvl]; exact hs, ?_⟩
  rw [hul, hvl, hxe]

end Gjk
end D3
