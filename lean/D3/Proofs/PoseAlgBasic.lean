/-
C12 helper lemmas, part 1: linearity of `mulVec`/`tmulVec`, the pose helpers of `utils.py` at ℝ,
rigid motions preserve Gram entries / norms / distances, cross products under proper rotations.
-/
import D3.Model.PoseAlg
import D3.Spec.Vec
import Mathlib.Tactic.NormNum

namespace D3
namespace PoseAlg

/-! ### linearity -/

theorem mulVec_add (R : Mat) (a b : V) : R.mulVec (a + b) = R.mulVec a + R.mulVec b := by
  apply V3.ext' <;> simp [M3.mulVec, V3.dot_def] <;> ring

theorem mulVec_sub (R : Mat) (a b : V) : R.mulVec (a - b) = R.mulVec a - R.mulVec b := by
  apply V3.ext' <;> simp [M3.mulVec, V3.dot_def] <;> ring

theorem mulVec_smul (R : Mat) (s : ℝ) (a : V) : R.mulVec (s * a) = s * R.mulVec a := by
  apply V3.ext' <;> simp [M3.mulVec, V3.dot_def] <;> ring

theorem mulVec_neg (R : Mat) (a : V) : R.mulVec (-a) = -(R.mulVec a) := by
  apply V3.ext' <;> simp [M3.mulVec, V3.dot_def] <;> ring

theorem tmulVec_add (R : Mat) (a b : V) : R.tmulVec (a + b) = R.tmulVec a + R.tmulVec b := by
  apply V3.ext' <;> simp [M3.tmulVec, V3.dot_def] <;> ring

theorem tmulVec_sub (R : Mat) (a b : V) : R.tmulVec (a - b) = R.tmulVec a - R.tmulVec b := by
  apply V3.ext' <;> simp [M3.tmulVec, V3.dot_def] <;> ring

theorem tmulVec_neg (R : Mat) (a : V) : R.tmulVec (-a) = -(R.tmulVec a) := by
  apply V3.ext' <;> simp [M3.tmulVec, V3.dot_def] <;> ring

/-- `(A B) v = A (B v)` -/
theorem mul_mulVec (A B : Mat) (v : V) : (A.mul B).mulVec v = A.mulVec (B.mulVec v) := by
  apply V3.ext' <;>
    simp [M3.mul, M3.mulVec, M3.transpose, M3.col0, M3.col1, M3.col2, V3.dot_def] <;> ring

/-- `Rᵀ` as a matrix acts like `tmulVec` -/
theorem transpose_mulVec (R : Mat) (v : V) : R.transpose.mulVec v = R.tmulVec v := rfl

theorem transpose_tmulVec (R : Mat) (v : V) : R.transpose.tmulVec v = R.mulVec v := by
  apply V3.ext' <;>
    simp [M3.tmulVec, M3.mulVec, M3.transpose, M3.col0, M3.col1, M3.col2, V3.dot_def]

theorem transpose_transpose (R : Mat) : R.transpose.transpose = R := by
  cases R with | mk r0 r1 r2 => cases r0; cases r1; cases r2; rfl

/-- `(A B)ᵀ v = Bᵀ (Aᵀ v)` -/
theorem mul_tmulVec (A B : Mat) (v : V) : (A.mul B).tmulVec v = B.tmulVec (A.tmulVec v) := by
  apply V3.ext' <;>
    simp [M3.mul, M3.tmulVec, M3.transpose, M3.col0, M3.col1, M3.col2, V3.dot_def] <;> ring

theorem mul_transpose (A B : Mat) : (A.mul B).transpose = B.transpose.mul A.transpose := by
  cases A with | mk a0 a1 a2 => cases B with | mk b0 b1 b2 =>
  cases a0; cases a1; cases a2; cases b0; cases b1; cases b2
  simp only [M3.mul, M3.transpose, M3.col0, M3.col1, M3.col2, V3.dot_def, M3.mk.injEq, V3.mk.injEq]
  refine ⟨⟨?_, ?_, ?_⟩, ⟨?_, ?_, ?_⟩, ⟨?_, ?_, ?_⟩⟩ <;> ring

/-! ### vector identities used when rewriting kernels -/

theorem add_sub_add_left (t a b : V) : (t + a) - (t + b) = a - b := by
  apply V3.ext' <;> simp

theorem add_sub_add_right (t a b : V) : (a + t) - (b + t) = a - b := by
  apply V3.ext' <;> simp

theorem smul_sub (s : ℝ) (a b : V) : s * (a - b) = s * a - s * b := by
  apply V3.ext' <;> simp <;> ring

theorem smul_add (s : ℝ) (a b : V) : s * (a + b) = s * a + s * b := by
  apply V3.ext' <;> simp <;> ring

theorem smul_smul (s t : ℝ) (a : V) : s * (t * a) = (s * t) * a := by
  apply V3.ext' <;> simp <;> ring

theorem dot_smul_left (s : ℝ) (a b : V) : V3.dot (s * a) b = s * V3.dot a b := by
  simp only [V3.dot_def, V3.smul_x, V3.smul_y, V3.smul_z]; ring

theorem dot_smul_right (s : ℝ) (a b : V) : V3.dot a (s * b) = s * V3.dot a b := by
  simp only [V3.dot_def, V3.smul_x, V3.smul_y, V3.smul_z]; ring

theorem dot_neg_neg (a b : V) : V3.dot (-a) (-b) = V3.dot a b := by
  simp only [V3.dot_def, V3.neg_x, V3.neg_y, V3.neg_z]; ring

theorem neg_sub' (a b : V) : -(a - b) = b - a := by
  apply V3.ext' <;> simp

theorem norm_neg (a : V) : V3.norm (-a) = V3.norm a := by
  simp only [V3.norm_def, V3.normSq, dot_neg_neg]

theorem norm_sub_comm (a b : V) : V3.norm (a - b) = V3.norm (b - a) := by
  rw [← neg_sub' b a, norm_neg]

theorem norm_smul (s : ℝ) (hs : 0 ≤ s) (a : V) : V3.norm (s * a) = s * V3.norm a := by
  simp only [V3.norm_def, V3.normSq, dot_smul_left, dot_smul_right]
  rw [← mul_assoc, Real.sqrt_mul (mul_self_nonneg s), Real.sqrt_mul_self hs]

/-! ### `utils.py` helpers at ℝ -/

theorem transformPoint_eq_apply (A : Pose ℝ) (p : V) : transformPoint A p = A.apply p := by
  apply V3.ext' <;> simp [transformPoint, Pose.apply] <;> ring

theorem rowTimesRT_eq_mulVec (R : Mat) (p : V) : rowTimesRT R p = R.mulVec p := by
  apply V3.ext' <;> simp [rowTimesRT, M3.mulVec, V3.dot_def] <;> ring

/-- `transform_points` is `transform_point` mapped over the rows -/
theorem transformPoints_eq_map (A : Pose ℝ) (ps : List V) :
    transformPoints A ps = ps.map (transformPoint A) := by
  unfold transformPoints
  apply List.map_congr_left
  intro p _
  rw [rowTimesRT_eq_mulVec, transformPoint_eq_apply]; rfl

theorem transformDirections_eq_map (A : Pose ℝ) (ds : List V) :
    transformDirections A ds = ds.map A.R.mulVec := by
  unfold transformDirections
  apply List.map_congr_left
  intro p _
  rw [rowTimesRT_eq_mulVec]

theorem invertTransform_eq_inv (A : Pose ℝ) : invertTransform A = A.inv := rfl

theorem compose_eq_comp (A B : Pose ℝ) : compose A B = A.comp B := rfl

/-- `inverse_transform_point(A, p) = transform_point(invert_transform(A), p)` — for every matrix -/
theorem inverseTransformPoint_eq (A : Pose ℝ) (p : V) :
    inverseTransformPoint A p = transformPoint (invertTransform A) p := by
  apply V3.ext' <;> simp [inverseTransformPoint, transformPoint, invertTransform, transpose_mulVec] <;> ring

theorem inverseTransformPoint_eq_applyInv (A : Pose ℝ) (p : V) :
    inverseTransformPoint A p = A.applyInv p := by
  unfold inverseTransformPoint Pose.applyInv
  rw [tmulVec_sub]

/-- `transform_point(np.dot(A, B), p) = transform_point(A, transform_point(B, p))` — for every matrix -/
theorem compose_transformPoint (A B : Pose ℝ) (p : V) :
    transformPoint (compose A B) p = transformPoint A (transformPoint B p) := by
  simp only [transformPoint, compose, mul_mulVec, mulVec_add]
  apply V3.ext' <;> simp <;> ring

/-! ### orthonormal matrices -/

theorem orthonormal_transpose {R : Mat} (h : Orthonormal R) : Orthonormal R.transpose := by
  obtain ⟨r00, r11, r22, r01, r02, r12, c00, c11, c22, c01, c02, c12⟩ := h
  constructor <;>
    simp only [M3.transpose, M3.col0, M3.col1, M3.col2, V3.dot_def] at * <;> assumption

theorem orthonormal_mul {A B : Mat} (hA : Orthonormal A) (hB : Orthonormal B) :
    Orthonormal (A.mul B) := by
  -- rows of A B : (A B)ᵀ e_i ; use ⟨(AB) x, (AB) y⟩ = ⟨x, y⟩ on the unit vectors
  have key : ∀ x y : V, V3.dot ((A.mul B).mulVec x) ((A.mul B).mulVec y) = V3.dot x y := by
    intro x y; rw [mul_mulVec, mul_mulVec, hA.dot_mulVec, hB.dot_mulVec]
  have keyT : ∀ x y : V, V3.dot ((A.mul B).tmulVec x) ((A.mul B).tmulVec y) = V3.dot x y := by
    intro x y; rw [mul_tmulVec, mul_tmulVec, hB.dot_tmulVec, hA.dot_tmulVec]
  have e0 : ∀ M : Mat, M.tmulVec ⟨1, 0, 0⟩ = M.r0 := by
    intro M; apply V3.ext' <;> simp [M3.tmulVec, M3.col0, M3.col1, M3.col2, V3.dot_def]
  have e1 : ∀ M : Mat, M.tmulVec ⟨0, 1, 0⟩ = M.r1 := by
    intro M; apply V3.ext' <;> simp [M3.tmulVec, M3.col0, M3.col1, M3.col2, V3.dot_def]
  have e2 : ∀ M : Mat, M.tmulVec ⟨0, 0, 1⟩ = M.r2 := by
    intro M; apply V3.ext' <;> simp [M3.tmulVec, M3.col0, M3.col1, M3.col2, V3.dot_def]
  have f0 : ∀ M : Mat, M.mulVec ⟨1, 0, 0⟩ = M.col0 := by
    intro M; apply V3.ext' <;> simp [M3.mulVec, M3.col0, V3.dot_def]
  have f1 : ∀ M : Mat, M.mulVec ⟨0, 1, 0⟩ = M.col1 := by
    intro M; apply V3.ext' <;> simp [M3.mulVec, M3.col1, V3.dot_def]
  have f2 : ∀ M : Mat, M.mulVec ⟨0, 0, 1⟩ = M.col2 := by
    intro M; apply V3.ext' <;> simp [M3.mulVec, M3.col2, V3.dot_def]
  constructor
  · rw [← e0, keyT]; simp [V3.dot_def]
  · rw [← e1, keyT]; simp [V3.dot_def]
  · rw [← e2, keyT]; simp [V3.dot_def]
  · rw [← e0, ← e1, keyT]; simp [V3.dot_def]
  · rw [← e0, ← e2, keyT]; simp [V3.dot_def]
  · rw [← e1, ← e2, keyT]; simp [V3.dot_def]
  · rw [← f0, key]; simp [V3.dot_def]
  · rw [← f1, key]; simp [V3.dot_def]
  · rw [← f2, key]; simp [V3.dot_def]
  · rw [← f0, ← f1, key]; simp [V3.dot_def]
  · rw [← f0, ← f2, key]; simp [V3.dot_def]
  · rw [← f1, ← f2, key]; simp [V3.dot_def]

theorem orthonormal_one : Orthonormal (M3.one : Mat) := by
  constructor <;> simp [M3.one, M3.col0, M3.col1, M3.col2, V3.dot_def]

/-! ### `invert_transform` is the inverse; composition -/

theorem invertTransform_orthonormal {A : Pose ℝ} (h : Orthonormal A.R) :
    Orthonormal (invertTransform A).R := orthonormal_transpose h

theorem compose_orthonormal {A B : Pose ℝ} (hA : Orthonormal A.R) (hB : Orthonormal B.R) :
    Orthonormal (compose A B).R := orthonormal_mul hA hB

/-- `transform_point(invert_transform(A), transform_point(A, p)) = p` -/
theorem invertTransform_left {A : Pose ℝ} (h : Orthonormal A.R) (p : V) :
    transformPoint (invertTransform A) (transformPoint A p) = p := by
  rw [← inverseTransformPoint_eq, inverseTransformPoint_eq_applyInv, transformPoint_eq_apply,
    Pose.applyInv_apply h]

/-- `transform_point(A, transform_point(invert_transform(A), p)) = p` -/
theorem invertTransform_right {A : Pose ℝ} (h : Orthonormal A.R) (p : V) :
    transformPoint A (transformPoint (invertTransform A) p) = p := by
  rw [← inverseTransformPoint_eq, inverseTransformPoint_eq_applyInv, transformPoint_eq_apply,
    Pose.apply_applyInv h]

/-- `invert_transform(invert_transform(A)) = A` -/
theorem invertTransform_involutive {A : Pose ℝ} (h : Orthonormal A.R) :
    invertTransform (invertTransform A) = A := by
  cases A with | mk R t =>
  simp only [invertTransform, transpose_transpose, Pose.mk.injEq, true_and]
  rw [transpose_tmulVec, mulVec_neg, h.mulVec_tmulVec]
  apply V3.ext' <;> simp

/-- `invert_transform(np.dot(A, B)) = np.dot(invert_transform(B), invert_transform(A))` -/
theorem invertTransform_compose {A B : Pose ℝ} (hA : Orthonormal A.R) :
    invertTransform (compose A B) = compose (invertTransform B) (invertTransform A) := by
  simp only [invertTransform, compose, Pose.mk.injEq]
  refine ⟨mul_transpose _ _, ?_⟩
  rw [mul_tmulVec, tmulVec_add, hA.tmulVec_mulVec, transpose_mulVec, tmulVec_neg, tmulVec_add]
  apply V3.ext' <;> simp

/-- `np.dot(invert_transform(A), A) = I` -/
theorem invertTransform_compose_self {A : Pose ℝ} (h : Orthonormal A.R) (p : V) :
    transformPoint (compose (invertTransform A) A) p = p := by
  rw [compose_transformPoint, invertTransform_left h]

/-- the relative pose used by the Nesterov support function is `invert_transform(A0) · A1` -/
theorem relativePose_eq (A0 A1 : Pose ℝ) :
    relativePose A0 A1 = compose (invertTransform A0) A1 := by
  simp only [relativePose, compose, invertTransform, Pose.mk.injEq, true_and, transpose_mulVec,
    tmulVec_sub]
  apply V3.ext' <;> simp <;> ring

/-! ### rigid motions preserve Gram entries, norms, distances -/

theorem apply_sub (g : Pose ℝ) (x y : V) : g.apply x - g.apply y = g.R.mulVec (x - y) := by
  unfold Pose.apply; rw [add_sub_add_right, mulVec_sub]

theorem apply_add_smul (g : Pose ℝ) (p d : V) (t : ℝ) :
    g.apply (p + t * d) = g.apply p + t * g.R.mulVec d := by
  unfold Pose.apply; rw [mulVec_add, mulVec_smul]
  apply V3.ext' <;> simp <;> ring

theorem apply_sub_smul (g : Pose ℝ) (p d : V) (t : ℝ) :
    g.apply (p - t * d) = g.apply p - t * g.R.mulVec d := by
  unfold Pose.apply; rw [mulVec_sub, mulVec_smul]
  apply V3.ext' <;> simp <;> ring

/-- `⟨g x − g y, g z − g w⟩ = ⟨x − y, z − w⟩` -/
theorem dot_rigid {g : Pose ℝ} (h : Orthonormal g.R) (x y z w : V) :
    V3.dot (g.apply x - g.apply y) (g.apply z - g.apply w) = V3.dot (x - y) (z - w) := by
  rw [apply_sub, apply_sub, h.dot_mulVec]

theorem norm_mulVec {R : Mat} (h : Orthonormal R) (a : V) : V3.norm (R.mulVec a) = V3.norm a := by
  simp only [V3.norm_def, V3.normSq, h.dot_mulVec]

theorem norm_tmulVec {R : Mat} (h : Orthonormal R) (a : V) : V3.norm (R.tmulVec a) = V3.norm a := by
  simp only [V3.norm_def, V3.normSq, h.dot_tmulVec]

/-- `|g x − g y| = |x − y|` -/
theorem dist_rigid {g : Pose ℝ} (h : Orthonormal g.R) (x y : V) :
    V3.norm (g.apply x - g.apply y) = V3.norm (x - y) := by
  rw [apply_sub, norm_mulVec h]

/-- `⟨R d, g x − g y⟩ = ⟨d, x − y⟩` (directions rotate, points move) -/
theorem dot_dir_rigid {g : Pose ℝ} (h : Orthonormal g.R) (d x y : V) :
    V3.dot (g.R.mulVec d) (g.apply x - g.apply y) = V3.dot d (x - y) := by
  rw [apply_sub, h.dot_mulVec]

/-! ### cross products under proper rotations -/

/-- proper rotation: orthonormal and right-handed (`r0 × r1 = r2`, i.e. `det R = +1`) -/
structure ProperRot (R : Mat) : Prop where
  orth : Orthonormal R
  hand : V3.cross R.r0 R.r1 = R.r2

theorem cross_def (a b : V) :
    V3.cross a b = ⟨a.y * b.z - a.z * b.y, a.z * b.x - a.x * b.z, a.x * b.y - a.y * b.x⟩ := rfl

/-- for every matrix: `(R a) × (R b) = cof(R) (a × b)`; rows of the cofactor matrix are
`r1 × r2`, `r2 × r0`, `r0 × r1` -/
theorem cross_mulVec_cofactor (R : Mat) (a b : V) :
    V3.cross (R.mulVec a) (R.mulVec b) =
      (⟨V3.cross R.r1 R.r2, V3.cross R.r2 R.r0, V3.cross R.r0 R.r1⟩ : Mat).mulVec (V3.cross a b) := by
  apply V3.ext' <;> simp only [cross_def, M3.mulVec, V3.dot_def] <;> ring

theorem ProperRot.cross12 {R : Mat} (h : ProperRot R) : V3.cross R.r1 R.r2 = R.r0 := by
  obtain ⟨⟨r00, r11, r22, r01, r02, r12, _, _, _, _, _, _⟩, hand⟩ := h
  rw [← hand]
  simp only [V3.dot_def] at r00 r11 r01
  apply V3.ext' <;> simp only [cross_def]
  · linear_combination R.r0.x * r11 - R.r1.x * r01
  · linear_combination R.r0.y * r11 - R.r1.y * r01
  · linear_combination R.r0.z * r11 - R.r1.z * r01

theorem ProperRot.cross20 {R : Mat} (h : ProperRot R) : V3.cross R.r2 R.r0 = R.r1 := by
  obtain ⟨⟨r00, r11, r22, r01, r02, r12, _, _, _, _, _, _⟩, hand⟩ := h
  rw [← hand]
  simp only [V3.dot_def] at r00 r11 r01
  apply V3.ext' <;> simp only [cross_def]
  · linear_combination R.r1.x * r00 - R.r0.x * r01
  · linear_combination R.r1.y * r00 - R.r0.y * r01
  · linear_combination R.r1.z * r00 - R.r0.z * r01

/-- `(R a) × (R b) = R (a × b)` for proper rotations -/
theorem cross_rotate {R : Mat} (h : ProperRot R) (a b : V) :
    V3.cross (R.mulVec a) (R.mulVec b) = R.mulVec (V3.cross a b) := by
  rw [cross_mulVec_cofactor, h.cross12, h.cross20, h.hand]

/-- a concrete proper rotation (3-4-5 about z) and pose used by the non-vacuity examples -/
noncomputable def rot345 : Mat := ⟨⟨0.6, -0.8, 0⟩, ⟨0.8, 0.6, 0⟩, ⟨0, 0, 1⟩⟩

theorem rot345_orth : Orthonormal rot345 := by
  constructor <;> simp only [rot345, M3.col0, M3.col1, M3.col2, V3.dot_def] <;> norm_num

theorem rot345_proper : ProperRot rot345 :=
  ⟨rot345_orth, by apply V3.ext' <;> simp only [rot345, cross_def] <;> norm_num⟩

noncomputable def pose345 : Pose ℝ := ⟨rot345, ⟨10, -20, 30⟩⟩

end PoseAlg
end D3
