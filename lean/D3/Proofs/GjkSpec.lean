/-
ℝ-level vocabulary of the GJK theorems (C01) and the pure-algebra lemmas
(`progress_gap`, `weak_duality`, support point of a Minkowski difference).
-/
import D3.Spec.Vec
import Mathlib.Tactic.NormNum
import Mathlib.Analysis.SpecialFunctions.Sqrt

namespace D3
namespace Gjk

/-- closed under segments -/
def ConvexSet (K : V → Prop) : Prop :=
  ∀ x y, K x → K y → ∀ t : ℝ, 0 ≤ t → t ≤ 1 → K ((1 - t) * x + t * y)

/-- Minkowski difference `A ⊖ B = {a − b}` -/
def MinkDiff (A B : V → Prop) : V → Prop := fun y => ∃ a b, A a ∧ B b ∧ y = a - b

/-- `v` is a point of `H` of minimum norm -/
def IsMinNorm (H : V → Prop) (v : V) : Prop := H v ∧ ∀ y, H y → V3.normSq v ≤ V3.normSq y

/-- `dist(A, B) ≥ d` stated against all competing point pairs (for `d ≥ 0`) -/
def LowerBoundDist (A B : V → Prop) (d : ℝ) : Prop :=
  ∀ a b, A a → B b → d ≤ V3.norm (a - b)

theorem V3.normSq_eq_dot (a : V) : V3.normSq a = V3.dot a a := rfl

theorem smul_add_vec (s : ℝ) (a b : V) : s * (a + b) = s * a + s * b := by
  apply V3.ext' <;> simp <;> ring

theorem sub_self_vec (a : V) : a - a = (⟨0, 0, 0⟩ : V) := by
  apply V3.ext' <;> simp

/-- the squared norm along the segment from `v` to `w` -/
theorem normSq_segment (v w : V) (t : ℝ) :
    V3.normSq ((1 - t) * v + t * w)
      = V3.normSq v - 2 * t * V3.dot v (v - w) + t * t * V3.normSq (v - w) := by
  simp only [V3.normSq_def, V3.dot_def, V3.add_x, V3.add_y, V3.add_z, V3.smul_x, V3.smul_y,
    V3.smul_z, V3.sub_x, V3.sub_y, V3.sub_z]
  ring

theorem normSq_pos_of_dot_pos {v u : V} (h : 0 < V3.dot v u) : 0 < V3.normSq u := by
  rcases (V3.normSq_nonneg u).lt_or_eq with h1 | h1
  · exact h1
  · have := V3.normSq_eq_zero h1.symm
    rw [this] at h
    simp [V3.dot_def] at h

/-- **progress of one GJK iteration** (pure algebra).  If the hull `H'` contains the segment
from the current point `v` to a new point `w` and `v'` has minimum norm in `H'`, then with the
duality gap `g = ⟨v, v − w⟩ > 0` the squared norm drops by at least `min(g, g²/|v−w|²)`. -/
theorem progress_gap (H' : V → Prop) (v w v' : V)
    (hseg : ∀ t : ℝ, 0 ≤ t → t ≤ 1 → H' ((1 - t) * v + t * w))
    (hmin : ∀ y, H' y → V3.normSq v' ≤ V3.normSq y)
    (hg : 0 < V3.dot v (v - w)) :
    min (V3.dot v (v - w)) (V3.dot v (v - w) * V3.dot v (v - w) / V3.normSq (v - w))
      ≤ V3.normSq v - V3.normSq v' := by
  have hD : 0 < V3.normSq (v - w) := normSq_pos_of_dot_pos hg
  set g := V3.dot v (v - w) with hgdef
  set D := V3.normSq (v - w) with hDdef
  by_cases hc : g ≤ D
  · -- the unconstrained minimiser t = g / D lies on the segment
    have ht0 : 0 ≤ g / D := div_nonneg hg.le hD.le
    have ht1 : g / D ≤ 1 := (div_le_one hD).mpr hc
    have h1 := hmin _ (hseg (g / D) ht0 ht1)
    rw [normSq_segment] at h1
    have e : V3.normSq v - 2 * (g / D) * g + g / D * (g / D) * D = V3.normSq v - g * g / D := by
      field_simp
      ring
    rw [← hgdef, ← hDdef, e] at h1
    calc min g (g * g / D) ≤ g * g / D := min_le_right _ _
      _ ≤ V3.normSq v - V3.normSq v' := by linarith
  · -- t = 1 : the new point itself
    have hc' : D < g := not_le.mp hc
    have h1 := hmin _ (hseg 1 (by norm_num) (by norm_num))
    rw [normSq_segment] at h1
    rw [← hgdef, ← hDdef] at h1
    calc min g (g * g / D) ≤ g := min_le_left _ _
      _ ≤ V3.normSq v - V3.normSq v' := by nlinarith

/-- support point of a Minkowski difference from support points of the two sets -/
theorem IsSupport.minkDiff {A B : V → Prop} {d p q : V}
    (hp : IsSupport A d p) (hq : IsSupport B (-d) q) : IsSupport (MinkDiff A B) d (p - q) := by
  refine ⟨⟨p, q, hp.1, hq.1, rfl⟩, ?_⟩
  rintro x ⟨a, b, ha, hb, rfl⟩
  have h1 := hp.2 a ha
  have h2 := hq.2 b hb
  simp only [V3.dot_def, V3.sub_x, V3.sub_y, V3.sub_z, V3.neg_x, V3.neg_y, V3.neg_z] at *
  nlinarith

/-- **weak duality, inner-product form.**  If `w` is a support point of `M` in direction `−v`
then every `y ∈ M` has `⟨v, y⟩ ≥ ⟨v, w⟩ = |v|² − g` with `g = ⟨v, v − w⟩`. -/
theorem weak_duality_dot (M : V → Prop) (v w : V) (hw : IsSupport M (-v) w) :
    ∀ y, M y → V3.normSq v - V3.dot v (v - w) ≤ V3.dot v y := by
  intro y hy
  have h := hw.2 y hy
  simp only [V3.dot_def, V3.normSq_def, V3.sub_x, V3.sub_y, V3.sub_z, V3.neg_x, V3.neg_y,
    V3.neg_z] at *
  nlinarith

/-- **weak duality.**  If `w` is a support point of `M` in direction `−v` (`v ≠ 0`) then every
`y ∈ M` has `|y| ≥ |v| − g/|v|` with `g = ⟨v, v − w⟩`. -/
theorem weak_duality (M : V → Prop) (v w : V) (hv : 0 < V3.norm v) (hw : IsSupport M (-v) w) :
    ∀ y, M y → V3.norm v - V3.dot v (v - w) / V3.norm v ≤ V3.norm y := by
  intro y hy
  have h1 := weak_duality_dot M v w hw y hy
  have h2 := V3.dot_le_norm_mul v y
  have h3 : V3.norm v * V3.norm v - V3.dot v (v - w) ≤ V3.norm v * V3.norm y := by
    rw [V3.norm_sq]; linarith
  have : V3.norm v - V3.dot v (v - w) / V3.norm v
      = (V3.norm v * V3.norm v - V3.dot v (v - w)) / V3.norm v := by
    field_simp
  rw [this, div_le_iff₀ hv]
  linarith

theorem norm_pos_of_normSq_pos {v : V} (h : 0 < V3.normSq v) : 0 < V3.norm v := by
  rw [V3.norm_def]; exact Real.sqrt_pos.mpr h

theorem norm_le_of_normSq_le {a : V} {r : ℝ} (hr : 0 ≤ r) (h : V3.normSq a ≤ r * r) :
    V3.norm a ≤ r := by
  rw [V3.norm_def]
  calc Real.sqrt (V3.normSq a) ≤ Real.sqrt (r * r) := Real.sqrt_le_sqrt h
    _ = r := Real.sqrt_mul_self hr

theorem normSq_le_of_norm_le {a : V} {r : ℝ} (h : V3.norm a ≤ r) : V3.normSq a ≤ r * r := by
  have h0 := V3.norm_nonneg a
  rw [← V3.norm_sq]
  nlinarith

end Gjk
end D3
