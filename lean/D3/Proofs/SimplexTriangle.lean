/-
C18, Jolt solver, triangle: the seven Voronoi regions of `closestPointTriangle` (Ericson) are
exhaustive for a non-degenerate triangle and each returns the minimum-norm point of the
triangle; all divisions are by non-zero quantities.
-/
import D3.Proofs.SimplexLine

set_option linter.unusedSectionVars false
set_option linter.unusedVariables false

namespace D3
namespace Simplex

/-! ### scalar core of the exhaustiveness argument

With `e1 = |ab|²`, `e2 = |ac|²`, `g = ab·ac`, `d1 = ab·(−a)`, `d2 = ac·(−a)` one has
`d3 = d1 − e1`, `d4 = d2 − g`, `d5 = d1 − g`, `d6 = d2 − e2`; the (unnormalised) barycentric
coordinates of the projection of the origin are `vc = e1 d2 − g d1`, `vb = e2 d1 − g d2`,
`va = N − vb − vc` with `N = e1 e2 − g² = |n|²`. -/

/-- sub-lemma L: coefficient of the third vertex ≤ 0, `d1 < 0`, tests A, C, AC fail → False -/
theorem exh_aux (d1 d2 e1 e2 g : ℝ) (he1 : 0 < e1) (he2 : 0 < e2) (hN : 0 < e1 * e2 - g * g)
    (hvc : e1 * d2 - g * d1 ≤ 0) (hd1 : d1 < 0)
    (hA : ¬ (d1 ≤ 0 ∧ d2 ≤ 0))
    (hC : ¬ (0 ≤ d2 - e2 ∧ d1 - g ≤ d2 - e2))
    (hAC : ¬ (e2 * d1 - g * d2 ≤ 0 ∧ 0 ≤ d2 ∧ d2 - e2 ≤ 0)) : False := by
  have hd2 : 0 < d2 := by
    by_contra hh; exact hA ⟨hd1.le, not_lt.mp hh⟩
  have hg : g < 0 := by
    by_contra hh
    have hg0 : 0 ≤ g := not_lt.mp hh
    nlinarith [mul_pos he1 hd2, mul_nonneg hg0 (neg_nonneg.mpr hd1.le)]
  by_cases h6 : d2 - e2 ≤ 0
  · -- AC fails → vb > 0
    have hvb : 0 < e2 * d1 - g * d2 := by
      by_contra hh; exact hAC ⟨not_lt.mp hh, hd2.le, h6⟩
    -- N d1 = vb e1 + vc g
    have : (e1 * e2 - g * g) * d1 = (e2 * d1 - g * d2) * e1 + (e1 * d2 - g * d1) * g := by ring
    have h1 : 0 < (e2 * d1 - g * d2) * e1 := mul_pos hvb he1
    have h2 : 0 ≤ (e1 * d2 - g * d1) * g := mul_nonneg_of_nonpos_of_nonpos hvc hg.le
    have h3 : (e1 * e2 - g * g) * d1 < 0 := mul_neg_of_pos_of_neg hN hd1
    linarith
  · have h6' : 0 < d2 - e2 := not_le.mp h6
    have h56 : d2 - e2 < d1 - g := by
      by_contra hh; exact hC ⟨h6'.le, not_lt.mp hh⟩
    -- G = -g > D = -d1 > 0;  e1 e2 < e1 d2 ≤ g d1 = G D < G²
    have hGD : -d1 < -g := by linarith
    have h1 : e1 * e2 < e1 * d2 := by nlinarith
    have h2 : g * d1 < g * g := by nlinarith
    nlinarith


/-- all six tests fail ⇒ the coefficient of the third vertex is positive -/
theorem exh_vc (d1 d2 e1 e2 g : ℝ) (he1 : 0 < e1) (he2 : 0 < e2) (hN : 0 < e1 * e2 - g * g)
    (hA : ¬ (d1 ≤ 0 ∧ d2 ≤ 0))
    (hB : ¬ (0 ≤ d1 - e1 ∧ d2 - g ≤ d1 - e1))
    (hAB : ¬ (e1 * d2 - g * d1 ≤ 0 ∧ 0 ≤ d1 ∧ d1 - e1 ≤ 0))
    (hC : ¬ (0 ≤ d2 - e2 ∧ d1 - g ≤ d2 - e2))
    (hAC : ¬ (e2 * d1 - g * d2 ≤ 0 ∧ 0 ≤ d2 ∧ d2 - e2 ≤ 0))
    (hBC : ¬ ((e1 * e2 - g * g) - (e2 * d1 - g * d2) - (e1 * d2 - g * d1) ≤ 0 ∧
      0 ≤ (d2 - g) - (d1 - e1) ∧ 0 ≤ (d1 - g) - (d2 - e2))) :
    0 < e1 * d2 - g * d1 := by
  by_contra hcon
  have hvc : e1 * d2 - g * d1 ≤ 0 := not_lt.mp hcon
  by_cases hd1 : d1 < 0
  · exact exh_aux d1 d2 e1 e2 g he1 he2 hN hvc hd1 hA hC hAC
  · have hd1' : 0 ≤ d1 := not_lt.mp hd1
    have hd3 : 0 < d1 - e1 := by
      by_contra hh; exact hAB ⟨hvc, hd1', not_lt.mp hh⟩
    -- the system centred at b: (d1', d2', e1', e2', g') = (−d3, d4 − d3, e1, |bc|², e1 − g)
    have he2' : 0 < e1 + e2 - 2 * g := by nlinarith [mul_self_nonneg (e1 - g), mul_self_nonneg (e2 - g)]
    refine exh_aux (-(d1 - e1)) ((d2 - g) - (d1 - e1)) e1 (e1 + e2 - 2 * g) (e1 - g) he1 he2'
      (by nlinarith) (by nlinarith) (by linarith) ?_ ?_ ?_
    · rintro ⟨h1, h2⟩; exact hB ⟨by linarith, by linarith⟩
    · rintro ⟨h1, h2⟩; exact hC ⟨by linarith, by linarith⟩
    · rintro ⟨h1, h2, h3⟩
      refine hBC ⟨?_, by linarith, by linarith⟩
      have : (e1 + e2 - 2 * g) * (-(d1 - e1)) - (e1 - g) * ((d2 - g) - (d1 - e1)) =
          (e1 * e2 - g * g) - (e2 * d1 - g * d2) - (e1 * d2 - g * d1) := by ring
      linarith

theorem tri_exhaustive_scalar (d1 d2 d3 d4 d5 d6 e1 e2 g : ℝ)
    (h3 : d3 = d1 - e1) (h4 : d4 = d2 - g) (h5 : d5 = d1 - g) (h6 : d6 = d2 - e2)
    (he1 : 0 < e1) (he2 : 0 < e2) (hN : 0 < e1 * e2 - g * g)
    (hA : ¬ (d1 ≤ 0 ∧ d2 ≤ 0)) (hB : ¬ (0 ≤ d3 ∧ d4 ≤ d3))
    (hAB : ¬ (d1 * d4 - d3 * d2 ≤ 0 ∧ 0 ≤ d1 ∧ d3 ≤ 0))
    (hC : ¬ (0 ≤ d6 ∧ d5 ≤ d6))
    (hAC : ¬ (d5 * d2 - d1 * d6 ≤ 0 ∧ 0 ≤ d2 ∧ d6 ≤ 0))
    (hBC : ¬ (d3 * d6 - d5 * d4 ≤ 0 ∧ 0 ≤ d4 - d3 ∧ 0 ≤ d5 - d6)) :
    0 < d3 * d6 - d5 * d4 ∧ 0 < d5 * d2 - d1 * d6 ∧ 0 < d1 * d4 - d3 * d2 ∧
      (d3 * d6 - d5 * d4) + (d5 * d2 - d1 * d6) + (d1 * d4 - d3 * d2) = e1 * e2 - g * g := by
  subst h3 h4 h5 h6
  have eva : (d1 - e1) * (d2 - e2) - (d1 - g) * (d2 - g) =
      (e1 * e2 - g * g) - (e2 * d1 - g * d2) - (e1 * d2 - g * d1) := by ring
  have evb : (d1 - g) * d2 - d1 * (d2 - e2) = e2 * d1 - g * d2 := by ring
  have evc : d1 * (d2 - g) - (d1 - e1) * d2 = e1 * d2 - g * d1 := by ring
  rw [evc] at hAB
  rw [evb] at hAC
  rw [eva] at hBC
  rw [eva, evb, evc]
  have hA' := hA
  have hvc : 0 < e1 * d2 - g * d1 := exh_vc d1 d2 e1 e2 g he1 he2 hN hA hB hAB hC hAC hBC
  -- swap b ↔ c
  have hvb : 0 < e2 * d1 - g * d2 :=
    exh_vc d2 d1 e2 e1 g he2 he1 (by linarith) (fun h => hA ⟨h.2, h.1⟩) hC hAC hB hAB
      (fun h => hBC ⟨by linarith [h.1], h.2.2, h.2.1⟩)
  -- system centred at b with third vertex a: (d1', d2', e1', e2', g') = (d4 − d3, −d3, |bc|², e1, e1 − g)
  have he2' : 0 < e1 + e2 - 2 * g := by nlinarith [mul_self_nonneg (e1 - g), mul_self_nonneg (e2 - g)]
  have hva := exh_vc ((d2 - g) - (d1 - e1)) (-(d1 - e1)) (e1 + e2 - 2 * g) e1 (e1 - g) he2' he1
    (by nlinarith)
    (fun h => hB ⟨by linarith [h.2], by linarith [h.1]⟩)
    (fun h => hC ⟨by linarith [h.1, h.2], by linarith [h.1, h.2]⟩)
    (fun h => hBC ⟨by nlinarith [h.1], by linarith [h.2.1], by linarith [h.2.2]⟩)
    (fun h => hA ⟨by linarith [h.1, h.2], by linarith [h.1, h.2]⟩)
    (fun h => hAB ⟨by nlinarith [h.1], by linarith [h.2.1, h.2.2], by linarith [h.2.1, h.2.2]⟩)
    (fun h => hAC ⟨by nlinarith [h.1], by linarith [h.2.1, h.2.2], by linarith [h.2.1, h.2.2]⟩)
  refine ⟨by nlinarith [hva], hvb, hvc, by ring⟩

/-! ### vector identities -/

theorem triNormal_eq (a b c : V) : triNormal a b c = V3.cross (b - a) (c - a) := by
  simp only [triNormal]
  split
  · apply V3.ext' <;> simp [V3.cross] <;> ring
  · rfl

theorem cross_x (p q : V) : (V3.cross p q).x = p.y * q.z - p.z * q.y := rfl
theorem cross_y (p q : V) : (V3.cross p q).y = p.z * q.x - p.x * q.z := rfl
theorem cross_z (p q : V) : (V3.cross p q).z = p.x * q.y - p.y * q.x := rfl

/-- Lagrange: `|ab × ac|² = |ab|² |ac|² − (ab·ac)²` -/
theorem lagrange (p q : V) :
    V3.dot (V3.cross p q) (V3.cross p q) = V3.dot p p * V3.dot q q - V3.dot p q * V3.dot p q := by
  simp only [V3.dot_def, cross_x, cross_y, cross_z]; ring

theorem tri_d3 (a b : V) : V3.dot (b - a) (-b) = V3.dot (b - a) (-a) - V3.dot (b - a) (b - a) := by
  simp only [V3.dot_def, V3.sub_x, V3.sub_y, V3.sub_z, V3.neg_x, V3.neg_y, V3.neg_z]; ring
theorem tri_d4 (a b c : V) : V3.dot (c - a) (-b) = V3.dot (c - a) (-a) - V3.dot (b - a) (c - a) := by
  simp only [V3.dot_def, V3.sub_x, V3.sub_y, V3.sub_z, V3.neg_x, V3.neg_y, V3.neg_z]; ring
theorem tri_d5 (a b c : V) : V3.dot (b - a) (-c) = V3.dot (b - a) (-a) - V3.dot (b - a) (c - a) := by
  simp only [V3.dot_def, V3.sub_x, V3.sub_y, V3.sub_z, V3.neg_x, V3.neg_y, V3.neg_z]; ring
theorem tri_d6 (a c : V) : V3.dot (c - a) (-c) = V3.dot (c - a) (-a) - V3.dot (c - a) (c - a) := by
  simp only [V3.dot_def, V3.sub_x, V3.sub_y, V3.sub_z, V3.neg_x, V3.neg_y, V3.neg_z]; ring

/-- non-degenerate triangle ⇒ all three edges have positive length -/
theorem tri_edges_pos (a b c : V)
    (hN : 0 < V3.dot (V3.cross (b - a) (c - a)) (V3.cross (b - a) (c - a))) :
    0 < V3.dot (b - a) (b - a) ∧ 0 < V3.dot (c - a) (c - a) ∧ 0 < V3.dot (c - b) (c - b) := by
  rw [lagrange] at hN
  have h1 : 0 ≤ V3.dot (b - a) (b - a) := V3.normSq_nonneg _
  have h2 : 0 ≤ V3.dot (c - a) (c - a) := V3.normSq_nonneg _
  have h3 : V3.dot (c - b) (c - b) = V3.dot (b - a) (b - a) + V3.dot (c - a) (c - a)
      - 2 * V3.dot (b - a) (c - a) := by
    simp only [V3.dot_def, V3.sub_x, V3.sub_y, V3.sub_z]; ring
  refine ⟨?_, ?_, ?_⟩
  · by_contra hh
    have : V3.dot (b - a) (b - a) = 0 := le_antisymm (not_lt.mp hh) h1
    rw [this] at hN; nlinarith [mul_self_nonneg (V3.dot (b - a) (c - a))]
  · by_contra hh
    have : V3.dot (c - a) (c - a) = 0 := le_antisymm (not_lt.mp hh) h2
    rw [this] at hN; nlinarith [mul_self_nonneg (V3.dot (b - a) (c - a))]
  · rw [h3]
    nlinarith [mul_self_nonneg (V3.dot (b - a) (b - a) - V3.dot (b - a) (c - a)),
      mul_self_nonneg (V3.dot (c - a) (c - a) - V3.dot (b - a) (c - a))]

/-! ### the regions, one theorem each -/

/-- vertex region A -/
theorem tri_regionA (a b c : V) (h1 : V3.dot (b - a) (-a) ≤ 0) (h2 : V3.dot (c - a) (-a) ≤ 0) :
    IsMinNorm (hullSet [a, b, c]) a := by
  refine isMinNorm_hull_of_vertices (hull_sublist (by simp) _ (hull1_intro a)) ?_
  intro p hp
  simp only [List.mem_cons, List.not_mem_nil, or_false] at hp
  simp only [V3.dot_def, V3.sub_x, V3.sub_y, V3.sub_z, V3.neg_x, V3.neg_y, V3.neg_z] at *
  rcases hp with hp | hp | hp <;> rw [hp] <;> nlinarith

/-- vertex region B -/
theorem tri_regionB (a b c : V) (h3 : 0 ≤ V3.dot (b - a) (-b))
    (h4 : V3.dot (c - a) (-b) ≤ V3.dot (b - a) (-b)) :
    IsMinNorm (hullSet [a, b, c]) b := by
  refine isMinNorm_hull_of_vertices (hull_sublist (by simp) _ (hull1_intro b)) ?_
  intro p hp
  simp only [List.mem_cons, List.not_mem_nil, or_false] at hp
  simp only [V3.dot_def, V3.sub_x, V3.sub_y, V3.sub_z, V3.neg_x, V3.neg_y, V3.neg_z] at *
  rcases hp with hp | hp | hp <;> rw [hp] <;> nlinarith

/-- vertex region C -/
theorem tri_regionC (a b c : V) (h6 : 0 ≤ V3.dot (c - a) (-c))
    (h5 : V3.dot (b - a) (-c) ≤ V3.dot (c - a) (-c)) :
    IsMinNorm (hullSet [a, b, c]) c := by
  refine isMinNorm_hull_of_vertices (hull_sublist (by simp) _ (hull1_intro c)) ?_
  intro p hp
  simp only [List.mem_cons, List.not_mem_nil, or_false] at hp
  simp only [V3.dot_def, V3.sub_x, V3.sub_y, V3.sub_z, V3.neg_x, V3.neg_y, V3.neg_z] at *
  rcases hp with hp | hp | hp <;> rw [hp] <;> nlinarith

/-- generic edge region: `x = p + t (q − p)`, `0 ≤ t ≤ 1`, `x ⟂ (q − p)`, and the third
vertex on the far side -/
theorem edge_region (p q r : V) (t : ℝ) (ht0 : 0 ≤ t) (ht1 : t ≤ 1)
    (hperp : V3.dot (p + t * (q - p)) (q - p) = 0)
    (hr : 0 ≤ V3.dot (p + t * (q - p)) (r - p)) :
    V3.dot (p + t * (q - p)) (p + t * (q - p)) ≤ V3.dot (p + t * (q - p)) p ∧
    V3.dot (p + t * (q - p)) (p + t * (q - p)) ≤ V3.dot (p + t * (q - p)) q ∧
    V3.dot (p + t * (q - p)) (p + t * (q - p)) ≤ V3.dot (p + t * (q - p)) r ∧
    hullSet [p, q] (p + t * (q - p)) := by
  have e1 : V3.dot (p + t * (q - p)) p - V3.dot (p + t * (q - p)) (p + t * (q - p)) =
      -t * V3.dot (p + t * (q - p)) (q - p) := by
    simp only [V3.dot_def, V3.sub_x, V3.sub_y, V3.sub_z, V3.add_x, V3.add_y, V3.add_z,
      V3.smul_x, V3.smul_y, V3.smul_z]; ring
  have e2 : V3.dot (p + t * (q - p)) q - V3.dot (p + t * (q - p)) (p + t * (q - p)) =
      (1 - t) * V3.dot (p + t * (q - p)) (q - p) := by
    simp only [V3.dot_def, V3.sub_x, V3.sub_y, V3.sub_z, V3.add_x, V3.add_y, V3.add_z,
      V3.smul_x, V3.smul_y, V3.smul_z]; ring
  have e3 : V3.dot (p + t * (q - p)) r - V3.dot (p + t * (q - p)) (p + t * (q - p)) =
      V3.dot (p + t * (q - p)) (r - p) - t * V3.dot (p + t * (q - p)) (q - p) := by
    simp only [V3.dot_def, V3.sub_x, V3.sub_y, V3.sub_z, V3.add_x, V3.add_y, V3.add_z,
      V3.smul_x, V3.smul_y, V3.smul_z]; ring
  rw [hperp] at e1 e2 e3
  refine ⟨by linarith, by linarith, by linarith, ?_⟩
  have : p + t * (q - p) = (1 - t) * p + t * q := by
    apply V3.ext' <;> simp <;> ring
  rw [this]
  exact hull2_intro p q (by linarith) ht0 (by ring)

/-- a quotient `num / den` with `0 ≤ num ≤ den`, `0 < den` lies in `[0, 1]` -/
theorem quot_unit {num den : ℝ} (h0 : 0 ≤ num) (h1 : num ≤ den) (hd : 0 < den) :
    0 ≤ num / den ∧ num / den ≤ 1 ∧ num / den * den = num := by
  refine ⟨div_nonneg h0 hd.le, (div_le_one hd).mpr h1, ?_⟩
  field_simp

/-- edge region AB -/
theorem tri_regionAB (a b c : V) (he : 0 < V3.dot (b - a) (b - a))
    (hvc : V3.dot (b - a) (-a) * V3.dot (c - a) (-b) - V3.dot (b - a) (-b) * V3.dot (c - a) (-a) ≤ 0)
    (h1 : 0 ≤ V3.dot (b - a) (-a)) (h3 : V3.dot (b - a) (-b) ≤ 0) :
    V3.dot (b - a) (-a) - V3.dot (b - a) (-b) ≠ 0 ∧
    IsMinNorm (hullSet [a, b, c])
      (a + (V3.dot (b - a) (-a) / (V3.dot (b - a) (-a) - V3.dot (b - a) (-b))) * (b - a)) ∧
    hullSet [a, b]
      (a + (V3.dot (b - a) (-a) / (V3.dot (b - a) (-a) - V3.dot (b - a) (-b))) * (b - a)) := by
  have hden : V3.dot (b - a) (-a) - V3.dot (b - a) (-b) = V3.dot (b - a) (b - a) := by
    rw [tri_d3]; ring
  rw [hden]
  obtain ⟨ht0, ht1, ht⟩ := quot_unit h1 (by rw [← hden]; linarith) he
  set t := V3.dot (b - a) (-a) / V3.dot (b - a) (b - a) with htdef
  have hperp : V3.dot (a + t * (b - a)) (b - a) = 0 := by
    have : V3.dot (a + t * (b - a)) (b - a) = t * V3.dot (b - a) (b - a) - V3.dot (b - a) (-a) := by
      simp only [V3.dot_def, V3.sub_x, V3.sub_y, V3.sub_z, V3.add_x, V3.add_y, V3.add_z,
        V3.smul_x, V3.smul_y, V3.smul_z, V3.neg_x, V3.neg_y, V3.neg_z]; ring
    rw [this, ht]; ring
  have hr : 0 ≤ V3.dot (a + t * (b - a)) (c - a) := by
    have hx : V3.dot (a + t * (b - a)) (c - a) =
        t * V3.dot (b - a) (c - a) - V3.dot (c - a) (-a) := by
      simp only [V3.dot_def, V3.sub_x, V3.sub_y, V3.sub_z, V3.add_x, V3.add_y, V3.add_z,
        V3.smul_x, V3.smul_y, V3.smul_z, V3.neg_x, V3.neg_y, V3.neg_z]; ring
    rw [tri_d4 a b c, tri_d3 a b] at hvc
    have hk : V3.dot (b - a) (b - a) * (t * V3.dot (b - a) (c - a) - V3.dot (c - a) (-a)) =
        -(V3.dot (b - a) (-a) * (V3.dot (c - a) (-a) - V3.dot (b - a) (c - a)) -
          (V3.dot (b - a) (-a) - V3.dot (b - a) (b - a)) * V3.dot (c - a) (-a)) := by
      linear_combination (V3.dot (b - a) (c - a)) * ht
    rw [hx]
    by_contra hneg
    have := mul_neg_of_pos_of_neg he (not_le.mp hneg)
    linarith
  obtain ⟨k1, k2, k3, kh⟩ := edge_region a b c t ht0 ht1 hperp hr
  refine ⟨ne_of_gt he, ?_, kh⟩
  refine isMinNorm_hull_of_vertices (hull_sublist (by simp) _ kh) ?_
  intro p hp
  simp only [List.mem_cons, List.not_mem_nil, or_false] at hp
  rcases hp with hp | hp | hp <;> rw [hp] <;> assumption

/-- edge region AC -/
theorem tri_regionAC (a b c : V) (he : 0 < V3.dot (c - a) (c - a))
    (hvb : V3.dot (b - a) (-c) * V3.dot (c - a) (-a) - V3.dot (b - a) (-a) * V3.dot (c - a) (-c) ≤ 0)
    (h2 : 0 ≤ V3.dot (c - a) (-a)) (h6 : V3.dot (c - a) (-c) ≤ 0) :
    V3.dot (c - a) (-a) - V3.dot (c - a) (-c) ≠ 0 ∧
    IsMinNorm (hullSet [a, b, c])
      (a + (V3.dot (c - a) (-a) / (V3.dot (c - a) (-a) - V3.dot (c - a) (-c))) * (c - a)) ∧
    hullSet [a, c]
      (a + (V3.dot (c - a) (-a) / (V3.dot (c - a) (-a) - V3.dot (c - a) (-c))) * (c - a)) := by
  have hden : V3.dot (c - a) (-a) - V3.dot (c - a) (-c) = V3.dot (c - a) (c - a) := by
    rw [tri_d6]; ring
  rw [hden]
  obtain ⟨ht0, ht1, ht⟩ := quot_unit h2 (by rw [← hden]; linarith) he
  set t := V3.dot (c - a) (-a) / V3.dot (c - a) (c - a) with htdef
  have hperp : V3.dot (a + t * (c - a)) (c - a) = 0 := by
    have : V3.dot (a + t * (c - a)) (c - a) = t * V3.dot (c - a) (c - a) - V3.dot (c - a) (-a) := by
      simp only [V3.dot_def, V3.sub_x, V3.sub_y, V3.sub_z, V3.add_x, V3.add_y, V3.add_z,
        V3.smul_x, V3.smul_y, V3.smul_z, V3.neg_x, V3.neg_y, V3.neg_z]; ring
    rw [this, ht]; ring
  have hr : 0 ≤ V3.dot (a + t * (c - a)) (b - a) := by
    have hx : V3.dot (a + t * (c - a)) (b - a) =
        t * V3.dot (b - a) (c - a) - V3.dot (b - a) (-a) := by
      simp only [V3.dot_def, V3.sub_x, V3.sub_y, V3.sub_z, V3.add_x, V3.add_y, V3.add_z,
        V3.smul_x, V3.smul_y, V3.smul_z, V3.neg_x, V3.neg_y, V3.neg_z]; ring
    rw [tri_d5 a b c, tri_d6 a c] at hvb
    have hk : V3.dot (c - a) (c - a) * (t * V3.dot (b - a) (c - a) - V3.dot (b - a) (-a)) =
        -((V3.dot (b - a) (-a) - V3.dot (b - a) (c - a)) * V3.dot (c - a) (-a) -
          V3.dot (b - a) (-a) * (V3.dot (c - a) (-a) - V3.dot (c - a) (c - a))) := by
      linear_combination (V3.dot (b - a) (c - a)) * ht
    rw [hx]
    by_contra hneg
    have := mul_neg_of_pos_of_neg he (not_le.mp hneg)
    linarith
  obtain ⟨k1, k2, k3, kh⟩ := edge_region a c b t ht0 ht1 hperp hr
  refine ⟨ne_of_gt he, ?_, kh⟩
  refine isMinNorm_hull_of_vertices (hull_sublist (by simp) _ kh) ?_
  intro p hp
  simp only [List.mem_cons, List.not_mem_nil, or_false] at hp
  rcases hp with hp | hp | hp <;> rw [hp] <;> assumption

/-- edge region BC -/
theorem tri_regionBC (a b c : V) (he : 0 < V3.dot (c - b) (c - b))
    (hva : V3.dot (b - a) (-b) * V3.dot (c - a) (-c) - V3.dot (b - a) (-c) * V3.dot (c - a) (-b) ≤ 0)
    (h43 : 0 ≤ V3.dot (c - a) (-b) - V3.dot (b - a) (-b))
    (h56 : 0 ≤ V3.dot (b - a) (-c) - V3.dot (c - a) (-c)) :
    (V3.dot (c - a) (-b) - V3.dot (b - a) (-b)) + (V3.dot (b - a) (-c) - V3.dot (c - a) (-c)) ≠ 0 ∧
    IsMinNorm (hullSet [a, b, c])
      (b + ((V3.dot (c - a) (-b) - V3.dot (b - a) (-b)) /
        ((V3.dot (c - a) (-b) - V3.dot (b - a) (-b)) + (V3.dot (b - a) (-c) - V3.dot (c - a) (-c)))) *
        (c - b)) ∧
    hullSet [b, c]
      (b + ((V3.dot (c - a) (-b) - V3.dot (b - a) (-b)) /
        ((V3.dot (c - a) (-b) - V3.dot (b - a) (-b)) + (V3.dot (b - a) (-c) - V3.dot (c - a) (-c)))) *
        (c - b)) := by
  have hden : (V3.dot (c - a) (-b) - V3.dot (b - a) (-b)) +
      (V3.dot (b - a) (-c) - V3.dot (c - a) (-c)) = V3.dot (c - b) (c - b) := by
    simp only [V3.dot_def, V3.sub_x, V3.sub_y, V3.sub_z, V3.neg_x, V3.neg_y, V3.neg_z]; ring
  rw [hden]
  obtain ⟨ht0, ht1, ht⟩ := quot_unit h43 (by rw [← hden]; linarith) he
  set num := V3.dot (c - a) (-b) - V3.dot (b - a) (-b) with hnum
  set t := num / V3.dot (c - b) (c - b) with htdef
  have hperp : V3.dot (b + t * (c - b)) (c - b) = 0 := by
    have : V3.dot (b + t * (c - b)) (c - b) = t * V3.dot (c - b) (c - b) - num := by
      simp only [hnum, V3.dot_def, V3.sub_x, V3.sub_y, V3.sub_z, V3.add_x, V3.add_y, V3.add_z,
        V3.smul_x, V3.smul_y, V3.smul_z, V3.neg_x, V3.neg_y, V3.neg_z]; ring
    rw [this, ht]; ring
  have hr : 0 ≤ V3.dot (b + t * (c - b)) (a - b) := by
    -- |bc|² · x·(a − b) = −va
    have hk : V3.dot (c - b) (c - b) * V3.dot (b + t * (c - b)) (a - b) =
        -(V3.dot (b - a) (-b) * V3.dot (c - a) (-c) - V3.dot (b - a) (-c) * V3.dot (c - a) (-b))
        + (V3.dot (c - b) (a - b)) * (t * V3.dot (c - b) (c - b) - num) := by
      simp only [hnum, V3.dot_def, V3.sub_x, V3.sub_y, V3.sub_z, V3.add_x, V3.add_y, V3.add_z,
        V3.smul_x, V3.smul_y, V3.smul_z, V3.neg_x, V3.neg_y, V3.neg_z]; ring
    rw [ht] at hk
    by_contra hneg
    have := mul_neg_of_pos_of_neg he (not_le.mp hneg)
    linarith
  obtain ⟨k1, k2, k3, kh⟩ := edge_region b c a t ht0 ht1 hperp hr
  refine ⟨ne_of_gt he, ?_, kh⟩
  refine isMinNorm_hull_of_vertices (hull_sublist (by simp) _ kh) ?_
  intro p hp
  simp only [List.mem_cons, List.not_mem_nil, or_false] at hp
  rcases hp with hp | hp | hp <;> rw [hp] <;> assumption

/-- the three vertices have the same component along the normal -/
theorem normal_dot (a b c : V) :
    V3.dot (V3.cross (b - a) (c - a)) b = V3.dot (V3.cross (b - a) (c - a)) a ∧
    V3.dot (V3.cross (b - a) (c - a)) c = V3.dot (V3.cross (b - a) (c - a)) a ∧
    V3.dot (a + b + c) (V3.cross (b - a) (c - a)) = 3 * V3.dot (V3.cross (b - a) (c - a)) a := by
  refine ⟨?_, ?_, ?_⟩ <;>
  · simp only [V3.dot_def, cross_x, cross_y, cross_z, V3.sub_x, V3.sub_y, V3.sub_z, V3.add_x,
      V3.add_y, V3.add_z]; ring

/-- face region: the projection of the origin onto the plane, written with the (positive)
unnormalised barycentric coordinates `va, vb, vc` of the code -/
theorem tri_regionFace (a b c : V)
    (hN : 0 < V3.dot (V3.cross (b - a) (c - a)) (V3.cross (b - a) (c - a)))
    (hva : 0 < V3.dot (b - a) (-b) * V3.dot (c - a) (-c) - V3.dot (b - a) (-c) * V3.dot (c - a) (-b))
    (hvb : 0 < V3.dot (b - a) (-c) * V3.dot (c - a) (-a) - V3.dot (b - a) (-a) * V3.dot (c - a) (-c))
    (hvc : 0 < V3.dot (b - a) (-a) * V3.dot (c - a) (-b) - V3.dot (b - a) (-b) * V3.dot (c - a) (-a)) :
    IsMinNorm (hullSet [a, b, c])
      (V3.sdiv (V3.dot (a + b + c) (V3.cross (b - a) (c - a)) * V3.cross (b - a) (c - a))
        (3 * V3.dot (V3.cross (b - a) (c - a)) (V3.cross (b - a) (c - a)))) := by
  set n := V3.cross (b - a) (c - a) with hn
  set N := V3.dot n n with hNdef
  set va := V3.dot (b - a) (-b) * V3.dot (c - a) (-c) - V3.dot (b - a) (-c) * V3.dot (c - a) (-b) with hvadef
  set vb := V3.dot (b - a) (-c) * V3.dot (c - a) (-a) - V3.dot (b - a) (-a) * V3.dot (c - a) (-c) with hvbdef
  set vc := V3.dot (b - a) (-a) * V3.dot (c - a) (-b) - V3.dot (b - a) (-b) * V3.dot (c - a) (-a) with hvcdef
  obtain ⟨hnb, hnc, hs⟩ := normal_dot a b c
  rw [← hn] at hnb hnc hs
  have hNne : N ≠ 0 := ne_of_gt hN
  have hsum : va + vb + vc = N := by
    simp only [hvadef, hvbdef, hvcdef, hNdef, hn, V3.dot_def, cross_x, cross_y, cross_z, V3.sub_x,
      V3.sub_y, V3.sub_z, V3.neg_x, V3.neg_y, V3.neg_z]; ring
  -- barycentric form
  have hbary : V3.sdiv (V3.dot (a + b + c) n * n) (3 * N) =
      (va / N) * a + (vb / N) * b + (vc / N) * c := by
    have kx : V3.dot (a + b + c) n * n.x = 3 * (va * a.x + vb * b.x + vc * c.x) := by
      simp only [hvadef, hvbdef, hvcdef, hn, V3.dot_def, cross_x, cross_y, cross_z, V3.sub_x,
        V3.sub_y, V3.sub_z, V3.neg_x, V3.neg_y, V3.neg_z, V3.add_x, V3.add_y, V3.add_z]; ring
    have ky : V3.dot (a + b + c) n * n.y = 3 * (va * a.y + vb * b.y + vc * c.y) := by
      simp only [hvadef, hvbdef, hvcdef, hn, V3.dot_def, cross_x, cross_y, cross_z, V3.sub_x,
        V3.sub_y, V3.sub_z, V3.neg_x, V3.neg_y, V3.neg_z, V3.add_x, V3.add_y, V3.add_z]; ring
    have kz : V3.dot (a + b + c) n * n.z = 3 * (va * a.z + vb * b.z + vc * c.z) := by
      simp only [hvadef, hvbdef, hvcdef, hn, V3.dot_def, cross_x, cross_y, cross_z, V3.sub_x,
        V3.sub_y, V3.sub_z, V3.neg_x, V3.neg_y, V3.neg_z, V3.add_x, V3.add_y, V3.add_z]; ring
    apply V3.ext'
    · show V3.dot (a + b + c) n * n.x / (3 * N) = va / N * a.x + vb / N * b.x + vc / N * c.x
      rw [kx]; field_simp
    · show V3.dot (a + b + c) n * n.y / (3 * N) = va / N * a.y + vb / N * b.y + vc / N * c.y
      rw [ky]; field_simp
    · show V3.dot (a + b + c) n * n.z / (3 * N) = va / N * a.z + vb / N * b.z + vc / N * c.z
      rw [kz]; field_simp
  have hmem : hullSet [a, b, c] (V3.sdiv (V3.dot (a + b + c) n * n) (3 * N)) := by
    rw [hbary]
    exact hull3_intro a b c (div_pos hva hN).le (div_pos hvb hN).le (div_pos hvc hN).le
      (by field_simp; linarith)
  refine isMinNorm_hull_of_vertices hmem ?_
  -- x = k n with k N = n·a
  set k := V3.dot n a / N with hk
  have hkN : k * N = V3.dot n a := by rw [hk]; field_simp
  have hx : V3.sdiv (V3.dot (a + b + c) n * n) (3 * N) = k * n := by
    rw [hs]
    apply V3.ext'
    · show 3 * V3.dot n a * n.x / (3 * N) = V3.dot n a / N * n.x
      field_simp
    · show 3 * V3.dot n a * n.y / (3 * N) = V3.dot n a / N * n.y
      field_simp
    · show 3 * V3.dot n a * n.z / (3 * N) = V3.dot n a / N * n.z
      field_simp
  rw [hx]
  have hxx : V3.dot (k * n) (k * n) = k * (k * N) := by
    simp only [hNdef, V3.dot_def, V3.smul_x, V3.smul_y, V3.smul_z]; ring
  have hxp : ∀ p : V, V3.dot (k * n) p = k * V3.dot n p := by
    intro p; simp only [V3.dot_def, V3.smul_x, V3.smul_y, V3.smul_z]; ring
  intro p hp
  simp only [List.mem_cons, List.not_mem_nil, or_false] at hp
  rw [hxx, hxp, hkN]
  rcases hp with hp | hp | hp <;> rw [hp]
  · rw [hnb]
  · rw [hnc]

theorem three_real : (3.0 : ℝ) = 3 := by norm_num

/-- the region cascade on a triangle with non-zero normal: the seven regions are exhaustive,
every division is by a non-zero quantity, the returned point is the minimum-norm point of the
triangle, and the set bits name a sub-simplex whose hull contains it. -/
theorem closestPointTriangleRegions_spec (a b c : V)
    (hN : 0 < V3.dot (V3.cross (b - a) (c - a)) (V3.cross (b - a) (c - a))) :
    ∃ r, closestPointTriangleRegions a b c (triNormal a b c) = .ok r ∧
      IsMinNorm (hullSet [a, b, c]) r.pt ∧
      hullSet (selectBits r.set [a, b, c]) r.pt ∧ 1 ≤ r.set ∧ r.set ≤ 7 ∧ r.br ≤ 6 := by
  obtain ⟨he1, he2, he3⟩ := tri_edges_pos a b c hN
  simp only [closestPointTriangleRegions]
  split_ifs with hA hB hAB hC hAC hBC
  · exact ⟨_, rfl, tri_regionA a b c hA.1 hA.2, by simpa [selectBits] using hull1_intro a,
      by norm_num, by norm_num, by norm_num⟩
  · exact ⟨_, rfl, tri_regionB a b c hB.1 hB.2, by simpa [selectBits] using hull1_intro b,
      by norm_num, by norm_num, by norm_num⟩
  · obtain ⟨hne, hmin, hh⟩ := tri_regionAB a b c he1 hAB.1 hAB.2.1 hAB.2.2
    rw [cdiv_ok hne]
    exact ⟨_, rfl, hmin, by simpa [selectBits] using hh, by norm_num, by norm_num, by norm_num⟩
  · exact ⟨_, rfl, tri_regionC a b c hC.1 hC.2, by simpa [selectBits] using hull1_intro c,
      by norm_num, by norm_num, by norm_num⟩
  · obtain ⟨hne, hmin, hh⟩ := tri_regionAC a b c he2 hAC.1 hAC.2.1 hAC.2.2
    rw [cdiv_ok hne]
    exact ⟨_, rfl, hmin, by simpa [selectBits] using hh, by norm_num, by norm_num, by norm_num⟩
  · obtain ⟨hne, hmin, hh⟩ := tri_regionBC a b c he3 hBC.1 hBC.2.1 hBC.2.2
    rw [cdiv_ok hne]
    exact ⟨_, rfl, hmin, by simpa [selectBits] using hh, by norm_num, by norm_num, by norm_num⟩
  · -- face region: exhaustiveness
    rw [lagrange] at hN
    obtain ⟨hva, hvb, hvc, hsum⟩ := tri_exhaustive_scalar
      (V3.dot (b - a) (-a)) (V3.dot (c - a) (-a)) (V3.dot (b - a) (-b)) (V3.dot (c - a) (-b))
      (V3.dot (b - a) (-c)) (V3.dot (c - a) (-c))
      (V3.dot (b - a) (b - a)) (V3.dot (c - a) (c - a)) (V3.dot (b - a) (c - a))
      (tri_d3 a b) (tri_d4 a b c) (tri_d5 a b c) (tri_d6 a c) he1 he2 hN hA hB hAB hC hAC hBC
    rw [← lagrange] at hN
    have hmin := tri_regionFace a b c hN hva hvb hvc
    rw [triNormal_eq, three_real, cdivV_ok _ (by positivity)]
    refine ⟨_, rfl, hmin, ?_, by norm_num, by norm_num, by norm_num⟩
    simpa [selectBits] using hmin.1

theorem maxEdgeLenSq_nonneg (a b c : V) : 0 ≤ maxEdgeLenSq a b c := by
  unfold maxEdgeLenSq
  exact le_max_of_le_left (V3.normSq_nonneg (b - a))

/-- the three squared edge lengths are bounded by `maxEdgeLenSq` -/
theorem le_maxEdgeLenSq (a b c : V) :
    V3.dot (b - a) (b - a) ≤ maxEdgeLenSq a b c ∧ V3.dot (c - a) (c - a) ≤ maxEdgeLenSq a b c ∧
    V3.dot (c - b) (c - b) ≤ maxEdgeLenSq a b c := by
  unfold maxEdgeLenSq
  exact ⟨le_max_left _ _, le_trans (le_max_left _ _) (le_max_right _ _),
    le_trans (le_max_right _ _) (le_max_right _ _)⟩

/-- the code's non-degeneracy test after repair ea3a5ff: `|n|² > EPSILON · L⁴`, `L²` the longest
squared edge (altitude over the longest edge above `sqrt(EPSILON)·L`) -/
def TriRegular (a b c : V) : Prop :=
  ¬ V3.dot (triNormal a b c) (triNormal a b c) ≤ EPS * maxEdgeLenSq a b c * maxEdgeLenSq a b c

theorem TriRegular.normal_pos {a b c : V} (h : TriRegular a b c) :
    0 < V3.dot (V3.cross (b - a) (c - a)) (V3.cross (b - a) (c - a)) := by
  have h' := not_le.mp h
  rw [triNormal_eq] at h'
  have : 0 ≤ EPS * maxEdgeLenSq a b c * maxEdgeLenSq a b c := by
    have := mul_self_nonneg (maxEdgeLenSq a b c)
    have hE : (0 : ℝ) < EPS := EPS_pos
    nlinarith
  linarith

/-- a convenient sufficient condition: all squared edges `≤ L` and `ε·L² < |ab × ac|²` -/
theorem triRegular_of_bound (a b c : V) (L : ℝ)
    (h1 : V3.dot (b - a) (b - a) ≤ L) (h2 : V3.dot (c - a) (c - a) ≤ L)
    (h3 : V3.dot (c - b) (c - b) ≤ L)
    (hn : EPS * L * L < V3.dot (V3.cross (b - a) (c - a)) (V3.cross (b - a) (c - a))) :
    TriRegular a b c := by
  unfold TriRegular
  rw [triNormal_eq, not_le]
  have hm : maxEdgeLenSq a b c ≤ L := by
    unfold maxEdgeLenSq
    exact max_le h1 (max_le h2 h3)
  have hm0 := maxEdgeLenSq_nonneg a b c
  have hE : (0 : ℝ) < EPS := EPS_pos
  have : EPS * maxEdgeLenSq a b c * maxEdgeLenSq a b c ≤ EPS * L * L := by
    have : maxEdgeLenSq a b c * maxEdgeLenSq a b c ≤ L * L := mul_le_mul hm hm hm0 (le_trans hm0 hm)
    nlinarith
  linarith

/-- **triangle_spec** (regular branch of the repaired code, `|n|² > ε·L⁴`). -/
theorem closestPointTriangle_spec (a b c : V) (h : TriRegular a b c) :
    ∃ r, closestPointTriangle a b c = .ok r ∧ IsMinNorm (hullSet [a, b, c]) r.pt ∧
      hullSet (selectBits r.set [a, b, c]) r.pt ∧ 1 ≤ r.set ∧ r.set ≤ 7 ∧ r.br ≤ 6 := by
  have e : closestPointTriangle a b c = closestPointTriangleRegions a b c (triNormal a b c) := by
    unfold TriRegular at h
    simp only [closestPointTriangle, h, if_false]
  rw [e]
  exact closestPointTriangleRegions_spec a b c h.normal_pos

/-- the same for the routine before the repair (absolute test `|n|² ≥ ε²`) -/
theorem closestPointTriangle_before_fix_spec (a b c : V)
    (h : ¬ V3.dot (triNormal a b c) (triNormal a b c) < EPS2) :
    ∃ r, closestPointTriangle_asIs_before_fix a b c = .ok r ∧ IsMinNorm (hullSet [a, b, c]) r.pt ∧
      hullSet (selectBits r.set [a, b, c]) r.pt ∧ 1 ≤ r.set ∧ r.set ≤ 7 ∧ r.br ≤ 6 := by
  have hN : 0 < V3.dot (V3.cross (b - a) (c - a)) (V3.cross (b - a) (c - a)) := by
    rw [← triNormal_eq]; exact lt_of_lt_of_le EPS2_pos (not_lt.mp h)
  have e : closestPointTriangle_asIs_before_fix a b c =
      closestPointTriangleRegions a b c (triNormal a b c) := by
    simp only [closestPointTriangle_asIs_before_fix, h, if_false]
  rw [e]
  exact closestPointTriangleRegions_spec a b c hN

end Simplex
end D3
