/-
Structural theorems about the array-level query loops (no arithmetic facts needed, so
they hold for every scalar type — in particular for `Float`, `Rat` and `ℝ`).
-/
import D3.Model.AabbTree

set_option linter.unusedSectionVars false

namespace D3
namespace Aabb

scalar_variables

def sizeSum : List (T α) → Nat
  | [] => 0
  | t :: ts => t.size + sizeSum ts

theorem T.size_pos (t : T α) : 0 < t.size := by
  cases t <;> simp [T.size]

theorem rd_ok_nonneg {β : Type} (a : Array β) (i : Int) (x : β) (h : rd a i = .ok x) : 0 ≤ i := by
  unfold rd at h
  split at h
  · assumption
  · cases h

theorem Rep.idx_ne {nodes : Array Node} {aabbs : Array (Box α)} {t : T α}
    (h : Rep nodes aabbs t) : t.idx ≠ INDEX_NONE := by
  cases h with
  | leaf i b nd hnd _ _ =>
    have := rd_ok_nonneg _ _ _ hnd
    simp only [T.idx, INDEX_NONE]; omega
  | node i b nd l r hnd _ _ _ _ _ _ =>
    have := rd_ok_nonneg _ _ _ hnd
    simp only [T.idx, INDEX_NONE]; omega

/-- **query loop = recursive pruned traversal**, for any stack of encoded subtrees and any
fuel larger than their total size. -/
theorem queryLoop_eq (q : Box α) (nodes : Array Node) (aabbs : Array (Box α)) :
    ∀ (fuel : Nat) (ts : List (T α)) (acc : List Int),
      (∀ t ∈ ts, Rep nodes aabbs t) → sizeSum ts < fuel →
      queryLoop q nodes aabbs false fuel (ts.map T.idx) acc
        = .ok (acc.reverse ++ ts.flatMap (T.collect q)) := by
  intro fuel
  induction fuel with
  | zero => intro ts acc _ h; omega
  | succ fuel ih =>
    intro ts acc hrep hfuel
    cases ts with
    | nil => simp [queryLoop]
    | cons t ts =>
      have ht := hrep t (by simp)
      have hts : ∀ t' ∈ ts, Rep nodes aabbs t' := fun t' h => hrep t' (by simp [h])
      cases ht with
      | leaf i b nd hnd htyp hb =>
        have hne : ¬ (i = INDEX_NONE) := by
          have := rd_ok_nonneg _ _ _ hnd; simp only [INDEX_NONE]; omega
        simp only [List.map_cons, T.idx, queryLoop, hne, if_false, hb, hnd, htyp, bind, Except.bind]
        simp only [sizeSum, T.size] at hfuel
        by_cases ho : overlap b q = true
        · simp only [ho, if_true]
          have := ih ts (i :: acc) hts (by omega)
          simp only [Bool.false_eq_true, if_false]
          rw [this]
          simp [T.collect, ho]
        · simp only [ho]
          have := ih ts acc hts (by omega)
          simp only [Bool.false_eq_true, if_false]
          rw [this]
          simp [T.collect, ho]
      | node i b nd l r hnd htyp hl hr hb hrl hrr =>
        have hne : ¬ (i = INDEX_NONE) := by
          have := rd_ok_nonneg _ _ _ hnd; simp only [INDEX_NONE]; omega
        simp only [List.map_cons, T.idx, queryLoop, hne, if_false, hb, hnd, bind, Except.bind]
        simp only [sizeSum, T.size] at hfuel
        by_cases ho : overlap b q = true
        · simp only [ho, if_true, htyp, if_false]
          have := ih (r :: l :: ts) acc (by
            intro t' ht'
            simp at ht'
            rcases ht' with h | h | h
            · exact h ▸ hrr
            · exact h ▸ hrl
            · exact hts t' h) (by simp [sizeSum]; omega)
          simp only [List.map_cons] at this
          rw [hl, hr, this]
          simp [T.collect, ho]
        · simp only [ho]
          have := ih ts acc hts (by omega)
          simp only [Bool.false_eq_true, if_false]
          rw [this]
          simp [T.collect, ho]

/-- `break_at_first_leaf` variant: the loop returns the accumulated hits plus the first hit
of the pruned traversal, if any. -/
theorem queryLoop_break_eq (q : Box α) (nodes : Array Node) (aabbs : Array (Box α)) :
    ∀ (fuel : Nat) (ts : List (T α)) (acc : List Int),
      (∀ t ∈ ts, Rep nodes aabbs t) → sizeSum ts < fuel →
      queryLoop q nodes aabbs true fuel (ts.map T.idx) acc
        = .ok (acc.reverse ++ (ts.flatMap (T.collect q)).take 1) := by
  intro fuel
  induction fuel with
  | zero => intro ts acc _ h; omega
  | succ fuel ih =>
    intro ts acc hrep hfuel
    cases ts with
    | nil => simp [queryLoop]
    | cons t ts =>
      have ht := hrep t (by simp)
      have hts : ∀ t' ∈ ts, Rep nodes aabbs t' := fun t' h => hrep t' (by simp [h])
      cases ht with
      | leaf i b nd hnd htyp hb =>
        have hne : ¬ (i = INDEX_NONE) := by
          have := rd_ok_nonneg _ _ _ hnd; simp only [INDEX_NONE]; omega
        simp only [List.map_cons, T.idx, queryLoop, hne, if_false, hb, hnd, htyp, bind, Except.bind]
        simp only [sizeSum, T.size] at hfuel
        by_cases ho : overlap b q = true
        · simp [ho, T.collect]
        · simp only [ho]
          have := ih ts acc hts (by omega)
          simp only [Bool.false_eq_true, if_false]
          rw [this]
          simp [T.collect, ho]
      | node i b nd l r hnd htyp hl hr hb hrl hrr =>
        have hne : ¬ (i = INDEX_NONE) := by
          have := rd_ok_nonneg _ _ _ hnd; simp only [INDEX_NONE]; omega
        simp only [List.map_cons, T.idx, queryLoop, hne, if_false, hb, hnd, bind, Except.bind]
        simp only [sizeSum, T.size] at hfuel
        by_cases ho : overlap b q = true
        · simp only [ho, if_true, htyp, if_false]
          have := ih (r :: l :: ts) acc (by
            intro t' ht'
            simp at ht'
            rcases ht' with h | h | h
            · exact h ▸ hrr
            · exact h ▸ hrl
            · exact hts t' h) (by simp [sizeSum]; omega)
          simp only [List.map_cons] at this
          rw [hl, hr, this]
          simp [T.collect, ho]
        · simp only [ho]
          have := ih ts acc hts (by omega)
          simp only [Bool.false_eq_true, if_false]
          rw [this]
          simp [T.collect, ho]

/-- size of an encoded tree with distinct indices is bounded by the array size;
we only need the weaker, hypothesis-free statement used below: fuel `2*size+2` is enough
whenever `t.size ≤ nodes.size`. -/
theorem queryOverlap_eq (q : Box α) (nodes : Array Node) (aabbs : Array (Box α)) (t : T α)
    (hrep : Rep nodes aabbs t) (hsz : t.size ≤ 2 * nodes.size + 1) :
    queryOverlap q t.idx nodes aabbs = .ok (t.collect q) := by
  unfold queryOverlap
  have := queryLoop_eq q nodes aabbs (2 * nodes.size + 2) [t] []
    (by intro t' h; simp at h; exact h ▸ hrep) (by simp [sizeSum]; omega)
  simpa using this

theorem queryOverlap_break_eq (q : Box α) (nodes : Array Node) (aabbs : Array (Box α)) (t : T α)
    (hrep : Rep nodes aabbs t) (hsz : t.size ≤ 2 * nodes.size + 1) :
    queryOverlap q t.idx nodes aabbs true = .ok ((t.collect q).take 1) := by
  unfold queryOverlap
  have := queryLoop_break_eq q nodes aabbs (2 * nodes.size + 2) [t] []
    (by intro t' h; simp at h; exact h ▸ hrep) (by simp [sizeSum]; omega)
  simpa using this

/-- the executable reconstruction is sound -/
theorem absTree_sound (nodes : Array Node) (aabbs : Array (Box α)) :
    ∀ (fuel : Nat) (i : Int) (t : T α), absTree nodes aabbs fuel i = some t →
      Rep nodes aabbs t ∧ t.idx = i := by
  intro fuel
  induction fuel with
  | zero => intro i t h; simp [absTree] at h
  | succ fuel ih =>
    intro i t h
    unfold absTree at h
    split at h
    · rename_i nd b hnd hb
      split at h
      · rename_i htyp
        cases h
        exact ⟨Rep.leaf i b nd hnd htyp hb, rfl⟩
      · rename_i htyp
        split at h
        · rename_i l r hl hr
          cases h
          obtain ⟨hrl, hil⟩ := ih _ _ hl
          obtain ⟨hrr, hir⟩ := ih _ _ hr
          exact ⟨Rep.node i b nd l r hnd htyp hil.symm hir.symm hb hrl hrr, rfl⟩
        · cases h
    · cases h

end Aabb
end D3
