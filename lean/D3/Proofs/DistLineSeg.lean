/-
Scalar core of `_line_to_line_segment` / `_line_segment_to_line_segment` (Ericson's clamping) at `α := ℝ`:
the parameters returned by `lsParams` / `ssParams` lie in their ranges and are the KKT point of the convex
quadratic `Q(s,t) = |r + s·d₁ − t·d₂|²` over `[0,1] × ℝ` resp. `[0,1]²`, written on the Gram entries
`a = d₁·d₁, b = d₁·d₂, c = d₁·r, e = d₂·d₂, f = d₂·r`.
-/
import D3.Proofs.DistLineBasic

namespace D3
namespace DistLine

/-- sign pattern of a clamped minimiser: gradient `g ≥ 0` at the lower end, `= 0` inside, `≤ 0` at the upper end -/
def KKTc (s g : ℝ) : Prop := (s = 0 ∧ 0 ≤ g) ∨ (0 ≤ s ∧ s ≤ 1 ∧ g = 0) ∨ (s = 1 ∧ g ≤ 0)

theorem KKTc.mem {s g : ℝ} (h : KKTc s g) : 0 ≤ s ∧ s ≤ 1 := by
  rcases h with ⟨rfl, _⟩ | ⟨h0, h1, _⟩ | ⟨rfl, _⟩
  · exact ⟨le_refl _, zero_le_one⟩
  · exact ⟨h0, h1⟩
  · exact ⟨zero_le_one, le_refl _⟩

theorem KKTc.kkt01 {s g : ℝ} (h : KKTc s g) : KKT01 s g := by
  rcases h with ⟨rfl, hg⟩ | ⟨_, _, hg⟩ | ⟨rfl, hg⟩
  · exact kkt01_at_zero hg
  · exact kkt01_of_zero hg
  · exact kkt01_at_one hg

/-- rescaling the gradient by a positive factor -/
theorem KKTc.of_mul {s g g' k : ℝ} (hk : 0 < k) (hg : g' = k * g) (h : KKTc s g') : KKTc s g := by
  subst hg
  rcases h with ⟨hs, hg⟩ | ⟨h0, h1, hg⟩ | ⟨hs, hg⟩
  · exact Or.inl ⟨hs, by
      by_contra hneg
      push Not at hneg
      nlinarith⟩
  · refine Or.inr (Or.inl ⟨h0, h1, ?_⟩)
    rcases mul_eq_zero.mp hg with h | h
    · linarith
    · exact h
  · exact Or.inr (Or.inr ⟨hs, by
      by_contra hpos
      push Not at hpos
      nlinarith⟩)

/-- `s = clamp01 (−g₀/a)` has the sign pattern for the gradient `g₀ + a·s` (`a > 0`) -/
theorem kktc_clamp {a g0 : ℝ} (ha : 0 < a) : KKTc (clamp01 (-g0 / a)) (g0 + a * clamp01 (-g0 / a)) := by
  rcases clamp01_cases (-g0 / a) with ⟨hq, h⟩ | ⟨hq0, hq1, h⟩ | ⟨hq, h⟩
  · rw [h]
    left
    have := mul_le_mul_of_nonneg_right hq (le_of_lt ha)
    rw [div_mul_cancel₀ _ (ne_of_gt ha)] at this
    exact ⟨rfl, by linarith⟩
  · rw [h]
    right; left
    refine ⟨hq0, hq1, ?_⟩
    field_simp
    ring
  · rw [h]
    right; right
    have := mul_le_mul_of_nonneg_right hq (le_of_lt ha)
    rw [div_mul_cancel₀ _ (ne_of_gt ha)] at this
    exact ⟨rfl, by linarith⟩

/-- variant with the quotient written as the code writes it -/
theorem kktc_clamp' {a g0 q : ℝ} (ha : 0 < a) (hq : q = -g0 / a) : KKTc (clamp01 q) (g0 + a * clamp01 q) := by
  rw [hq]; exact kktc_clamp ha

/-! ### `lsParams` (line – segment) -/

/-- `lsParams` never divides by zero when `epsilon > 0` -/
theorem lsParams_ok (a b c e f : ℝ) {eps : ℝ} (he : 0 < eps) (hnd : ¬(a < eps ∧ e < eps)) :
    ∃ r, lsParams a b c e f eps = .ok r := by
  unfold lsParams
  simp only [bind, Except.bind, pure, Except.pure]
  split
  · rename_i ha
    have : e ≠ 0 := by
      have : ¬ e < eps := fun h => hnd ⟨ha, h⟩
      push Not at this
      exact ne_of_gt (lt_of_lt_of_le he this)
    rw [divC_ok this]; exact ⟨_, rfl⟩
  · rename_i ha
    push Not at ha
    have ha0 : a ≠ 0 := ne_of_gt (lt_of_lt_of_le he ha)
    split
    · rw [divC_ok ha0]; exact ⟨_, rfl⟩
    · rename_i he'
      push Not at he'
      have he0 : e ≠ 0 := ne_of_gt (lt_trans he he')
      split
      · rename_i hd
        have hd0 : a * e - b * b ≠ 0 := by
          rcases hd with h | h
          · exact ne_of_lt h
          · exact ne_of_gt h
        rw [divC_ok hd0]; dsimp only; rw [divC_ok he0]; exact ⟨_, rfl⟩
      · rw [divC_ok he0]; exact ⟨_, rfl⟩

/-- range of the segment parameter, in every branch -/
theorem lsParams_mem {a b c e f eps : ℝ} {s t : ℝ} {br : Nat}
    (h : lsParams a b c e f eps = .ok (s, t, br)) : 0 ≤ s ∧ s ≤ 1 := by
  unfold lsParams at h
  simp only [bind, Except.bind, pure, Except.pure] at h
  split at h
  · split at h
    · cases h
    · injection h with h
      have := congrArg Prod.fst h
      simp only at this
      rw [← this]; exact ⟨le_refl _, zero_le_one⟩
  · split at h
    · split at h
      · cases h
      · injection h with h
        have := congrArg Prod.fst h
        simp only at this
        rw [← this]; exact clamp01_mem _
    · split at h
      · split at h
        · cases h
        · split at h
          · cases h
          · injection h with h
            have := congrArg Prod.fst h
            simp only at this
            rw [← this]; exact clamp01_mem _
      · split at h
        · cases h
        · injection h with h
          have := congrArg Prod.fst h
          simp only at this
          rw [← this]; exact ⟨le_refl _, zero_le_one⟩

/-- **KKT for line–segment.** In the non-degenerate case (`eps ≤ a`, `eps < e`) the returned `(s,t)` satisfies
`∂Q/∂t = 0` and the clamp sign pattern for `∂Q/∂s`.  `hcs` is Cauchy–Schwarz and `hpar` the equality case
(both supplied by the vector level). -/
theorem lsParams_kkt {a b c e f eps : ℝ} {s t : ℝ} {br : Nat}
    (h : lsParams a b c e f eps = .ok (s, t, br)) (heps : 0 < eps) (ha : eps ≤ a) (he : eps < e)
    (hcs : b * b ≤ a * e) (hpar : a * e - b * b = 0 → c * e = b * f) :
    t * e = b * s + f ∧ KKTc s (c + s * a - t * b) := by
  have ha0 : 0 < a := lt_of_lt_of_le heps ha
  have he0 : 0 < e := lt_trans heps he
  unfold lsParams at h
  simp only [bind, Except.bind, pure, Except.pure] at h
  rw [if_neg (not_lt.mpr ha), if_neg (not_le.mpr he)] at h
  split at h
  · rename_i hd
    have hd0 : a * e - b * b ≠ 0 := by
      rcases hd with h | h
      · exact ne_of_lt h
      · exact ne_of_gt h
    have hdpos : 0 < a * e - b * b := lt_of_le_of_ne (by linarith) (Ne.symm hd0)
    rw [divC_ok hd0] at h; dsimp only at h; rw [divC_ok (ne_of_gt he0)] at h
    injection h with h
    have hs := congrArg Prod.fst h
    have ht := congrArg (fun x => x.2.1) h
    simp only at hs ht
    have hte : t * e = b * s + f := by
      rw [← ht, ← hs]; field_simp
    refine ⟨hte, ?_⟩
    -- gradient in s, times e, is  denom·s − (b f − c e)
    have key : KKTc s ((c * e - b * f) / e + ((a * e - b * b) / e) * s) := by
      rw [← hs]
      apply kktc_clamp' (div_pos hdpos he0)
      field_simp
      ring
    have e1 : (c * e - b * f) / e + ((a * e - b * b) / e) * s = c + s * a - t * b := by
      have : t = (b * s + f) / e := by field_simp; linarith
      rw [this]; field_simp; ring
    rw [e1] at key; exact key
  · rename_i hd
    have hd0 : a * e - b * b = 0 := by
      push Not at hd
      linarith [hd.1, hd.2]
    rw [divC_ok (ne_of_gt he0)] at h
    injection h with h
    have hs := congrArg Prod.fst h
    have ht := congrArg (fun x => x.2.1) h
    simp only at hs ht
    have hte : t * e = b * s + f := by
      rw [← ht, ← hs]; field_simp
    refine ⟨hte, ?_⟩
    right; left
    rw [← hs]
    refine ⟨le_refl _, zero_le_one, ?_⟩
    have hp := hpar hd0
    have : t = f / e := by rw [← ht]; ring
    rw [this]; field_simp; linarith

/-! ### Ericson's re-clamping step -/

/-- **Key lemma of Ericson's segment–segment clamping.**  `h`, `k` are the affine functions
`h(s) = ∂Q/∂t`-numerator and `k(s) = ∂Q/∂s` at the clamped `t`, with slopes `b` and `a`; `s₀` has the clamp
pattern for `R = e·k₀ − b·h₀`, `s₁` for `k₁`.  If `h₀ < 0` (the unconstrained `t` was below the range) then `h₁ ≤ 0`:
the re-clamped point still wants `t` below the range, i.e. it is a KKT point. -/
theorem ericson_reclamp {a b e s0 s1 h0 h1 k0 k1 R : ℝ} (ha : 0 < a) (he : 0 < e) (hcs : b * b ≤ a * e)
    (S0 : KKTc s0 R) (hR : R = e * k0 - b * h0) (S1 : KKTc s1 k1)
    (hh : h1 = h0 + b * (s1 - s0)) (hk : k1 = k0 + a * (s1 - s0)) (hneg : h0 < 0) : h1 ≤ 0 := by
  by_contra hpos
  push Not at hpos
  have hb : 0 < b * (s1 - s0) := by linarith
  have m0 := S0.mem
  have m1 := S1.mem
  -- P = a·h − b·k is constant in s
  have hP : a * h1 - b * k1 = a * h0 - b * k0 := by rw [hh, hk]; ring
  have heP : e * (a * h0 - b * k0) = (a * e - b * b) * h0 - b * R := by rw [hR]; ring
  have hD : (a * e - b * b) * h0 ≤ 0 := by nlinarith
  rcases lt_trichotomy b 0 with hb0 | hb0 | hb0
  · -- b < 0, s₁ < s₀
    have hlt : s1 - s0 < 0 := by
      by_contra hge
      push Not at hge
      nlinarith
    have hRle : R ≤ 0 := by
      rcases S0 with ⟨hs, _⟩ | ⟨_, _, hg⟩ | ⟨_, hg⟩
      · linarith [m1.1]
      · linarith
      · exact hg
    have hk1 : 0 ≤ k1 := by
      rcases S1 with ⟨_, hg⟩ | ⟨_, _, hg⟩ | ⟨hs, _⟩
      · exact hg
      · linarith
      · linarith [m0.2]
    have h1 : 0 < a * h1 - b * k1 := by nlinarith
    have h2 : e * (a * h0 - b * k0) ≤ 0 := by rw [heP]; nlinarith
    rw [hP] at h1
    nlinarith
  · rw [hb0] at hb; linarith
  · -- b > 0, s₁ > s₀
    have hgt : 0 < s1 - s0 := by
      by_contra hle
      push Not at hle
      nlinarith
    have hRge : 0 ≤ R := by
      rcases S0 with ⟨_, hg⟩ | ⟨_, _, hg⟩ | ⟨hs, _⟩
      · exact hg
      · linarith
      · linarith [m1.2]
    have hk1 : k1 ≤ 0 := by
      rcases S1 with ⟨hs, _⟩ | ⟨_, _, hg⟩ | ⟨_, hg⟩
      · linarith [m0.1]
      · linarith
      · exact hg
    have h1 : 0 < a * h1 - b * k1 := by nlinarith
    have h2 : e * (a * h0 - b * k0) ≤ 0 := by rw [heP]; nlinarith
    rw [hP] at h1
    nlinarith

/-! ### `ssFinish`, `ssParams` (segment – segment) -/

theorem ssFinish_ok (a b c e f s : ℝ) (k : Nat) (ha : a ≠ 0) (he : e ≠ 0) :
    ∃ r, ssFinish a b c e f s k = .ok r := by
  unfold ssFinish
  simp only [bind, Except.bind, pure, Except.pure]
  rw [divC_ok he]
  dsimp only
  split
  · rw [divC_ok ha]; exact ⟨_, rfl⟩
  · split
    · rw [divC_ok ha]; exact ⟨_, rfl⟩
    · exact ⟨_, rfl⟩

/-- the three exits of `ssFinish` -/
theorem ssFinish_char {a b c e f s0 : ℝ} {k : Nat} {s t : ℝ} {br : Nat}
    (h : ssFinish a b c e f s0 k = .ok (s, t, br)) (ha : a ≠ 0) (he : e ≠ 0) :
    ((b * s0 + f) / e < 0 ∧ t = 0 ∧ s = clamp01 (-c / a)) ∨
    (1 < (b * s0 + f) / e ∧ t = 1 ∧ s = clamp01 ((b - c) / a)) ∨
    (0 ≤ (b * s0 + f) / e ∧ (b * s0 + f) / e ≤ 1 ∧ t = (b * s0 + f) / e ∧ s = s0) := by
  unfold ssFinish at h
  simp only [bind, Except.bind, pure, Except.pure] at h
  rw [divC_ok he] at h
  dsimp only at h
  split at h
  · rename_i hlt
    rw [divC_ok ha] at h
    injection h with h
    have hs := congrArg Prod.fst h
    have ht := congrArg (fun x => x.2.1) h
    simp only at hs ht
    exact Or.inl ⟨hlt, ht.symm, hs.symm⟩
  · rename_i hge
    split at h
    · rename_i hgt
      rw [divC_ok ha] at h
      injection h with h
      have hs := congrArg Prod.fst h
      have ht := congrArg (fun x => x.2.1) h
      simp only at hs ht
      exact Or.inr (Or.inl ⟨hgt, ht.symm, hs.symm⟩)
    · rename_i hle
      injection h with h
      have hs := congrArg Prod.fst h
      have ht := congrArg (fun x => x.2.1) h
      simp only at hs ht
      exact Or.inr (Or.inr ⟨not_lt.mp hge, not_lt.mp hle, ht.symm, hs.symm⟩)

/-- `ssParams` never divides by zero when `epsilon > 0` -/
theorem ssParams_ok (a b c e f : ℝ) {eps : ℝ} (he : 0 < eps) (hnd : ¬(a < eps ∧ e < eps)) :
    ∃ r, ssParams a b c e f eps = .ok r := by
  unfold ssParams
  simp only [bind, Except.bind, pure, Except.pure]
  split
  · rename_i ha
    have : e ≠ 0 := by
      have : ¬ e < eps := fun h => hnd ⟨ha, h⟩
      push Not at this
      exact ne_of_gt (lt_of_lt_of_le he this)
    rw [divC_ok this]; exact ⟨_, rfl⟩
  · rename_i ha
    push Not at ha
    have ha0 : a ≠ 0 := ne_of_gt (lt_of_lt_of_le he ha)
    split
    · rw [divC_ok ha0]; exact ⟨_, rfl⟩
    · rename_i he'
      push Not at he'
      have he0 : e ≠ 0 := ne_of_gt (lt_trans he he')
      split
      · rename_i hd
        have hd0 : a * e - b * b ≠ 0 := by
          rcases hd with h | h
          · exact ne_of_lt h
          · exact ne_of_gt h
        rw [divC_ok hd0]; dsimp only
        exact ssFinish_ok a b c e f _ _ ha0 he0
      · exact ssFinish_ok a b c e f _ _ ha0 he0

/-- both parameters are in `[0,1]`, in every branch, for every input -/
theorem ssParams_mem {a b c e f eps : ℝ} {s t : ℝ} {br : Nat}
    (h : ssParams a b c e f eps = .ok (s, t, br)) (heps : 0 < eps) :
    (0 ≤ s ∧ s ≤ 1) ∧ (0 ≤ t ∧ t ≤ 1) := by
  unfold ssParams at h
  simp only [bind, Except.bind, pure, Except.pure] at h
  split at h
  · split at h
    · cases h
    · injection h with h
      have hs := congrArg Prod.fst h
      have ht := congrArg (fun x => x.2.1) h
      simp only at hs ht
      rw [← hs, ← ht]; exact ⟨⟨le_refl _, zero_le_one⟩, clamp01_mem _⟩
  · rename_i ha
    push Not at ha
    have ha0 : a ≠ 0 := ne_of_gt (lt_of_lt_of_le heps ha)
    split at h
    · split at h
      · cases h
      · injection h with h
        have hs := congrArg Prod.fst h
        have ht := congrArg (fun x => x.2.1) h
        simp only at hs ht
        rw [← hs, ← ht]; exact ⟨clamp01_mem _, ⟨le_refl _, zero_le_one⟩⟩
    · rename_i he'
      push Not at he'
      have he0 : e ≠ 0 := ne_of_gt (lt_trans heps he')
      have fin : ∀ s0 k, 0 ≤ s0 ∧ s0 ≤ 1 → ssFinish a b c e f s0 k = .ok (s, t, br) →
          (0 ≤ s ∧ s ≤ 1) ∧ (0 ≤ t ∧ t ≤ 1) := by
        intro s0 k hs0 hf
        rcases ssFinish_char hf ha0 he0 with ⟨_, ht, hs⟩ | ⟨_, ht, hs⟩ | ⟨h0, h1, ht, hs⟩
        · rw [ht, hs]; exact ⟨clamp01_mem _, ⟨le_refl _, zero_le_one⟩⟩
        · rw [ht, hs]; exact ⟨clamp01_mem _, ⟨zero_le_one, le_refl _⟩⟩
        · rw [ht, hs]; exact ⟨hs0, ⟨h0, h1⟩⟩
      split at h
      · split at h
        · cases h
        · exact fin _ _ (clamp01_mem _) h
      · exact fin _ _ ⟨le_refl _, zero_le_one⟩ h

/-- **KKT for segment–segment (Ericson).** In the non-degenerate case the returned `(s,t)` has the clamp sign
pattern for both partial derivatives of `Q(s,t) = |r + s·d₁ − t·d₂|²`:
`∂Q/∂s = 2(c + s·a − t·b)`, `∂Q/∂t = 2(−f − s·b + t·e)`. -/
theorem ssParams_kkt {a b c e f eps : ℝ} {s t : ℝ} {br : Nat}
    (h : ssParams a b c e f eps = .ok (s, t, br)) (heps : 0 < eps) (ha : eps ≤ a) (he : eps < e)
    (hcs : b * b ≤ a * e) (hpar : a * e - b * b = 0 → c * e = b * f) :
    KKTc s (c + s * a - t * b) ∧ KKTc t (-f - s * b + t * e) := by
  have ha0 : 0 < a := lt_of_lt_of_le heps ha
  have he0 : 0 < e := lt_trans heps he
  -- the common tail: s₀ has the clamp pattern for R = D·s₀ − (b f − c e)
  have fin : ∀ s0 k, KKTc s0 ((a * e - b * b) * s0 - (b * f - c * e)) →
      ssFinish a b c e f s0 k = .ok (s, t, br) →
      KKTc s (c + s * a - t * b) ∧ KKTc t (-f - s * b + t * e) := by
    intro s0 k S0 hf
    rcases ssFinish_char hf (ne_of_gt ha0) (ne_of_gt he0) with ⟨hlt, ht, hs⟩ | ⟨hgt, ht, hs⟩ | ⟨h0, h1, ht, hs⟩
    · -- t₀ < 0 : t = 0, s re-clamped
      have S1 : KKTc s (c + a * s) := by rw [hs]; exact kktc_clamp' ha0 (by ring)
      have hneg : b * s0 + f < 0 := by
        have := mul_neg_of_neg_of_pos hlt he0
        rwa [div_mul_cancel₀ _ (ne_of_gt he0)] at this
      have key : b * s + f ≤ 0 :=
        ericson_reclamp (k0 := c + a * s0) (k1 := c + a * s) ha0 he0 hcs S0 (by ring) S1 (by ring) (by ring) hneg
      rw [ht]
      constructor
      · have : c + s * a - 0 * b = c + a * s := by ring
        rw [this]; exact S1
      · left; exact ⟨rfl, by linarith⟩
    · -- t₀ > 1 : t = 1, s re-clamped (the mirror image t ↦ 1 − t)
      have S1 : KKTc s ((c - b) + a * s) := by rw [hs]; exact kktc_clamp' ha0 (by ring)
      have hneg : -(b * s0 + f - e) < 0 := by
        have := mul_lt_mul_of_pos_right hgt he0
        rw [div_mul_cancel₀ _ (ne_of_gt he0)] at this
        linarith
      have key : -(b * s + f - e) ≤ 0 :=
        ericson_reclamp (b := -b) (k0 := (c - b) + a * s0) (k1 := (c - b) + a * s) ha0 he0 (by nlinarith) S0
          (by ring) S1 (by ring) (by ring) hneg
      rw [ht]
      constructor
      · have : c + s * a - 1 * b = (c - b) + a * s := by ring
        rw [this]; exact S1
      · right; right; exact ⟨rfl, by linarith⟩
    · -- t₀ ∈ [0,1] : (s₀, t₀)
      rw [hs, ht]
      constructor
      · apply KKTc.of_mul he0 _ S0
        field_simp; ring
      · right; left
        refine ⟨h0, h1, ?_⟩
        field_simp; ring
  unfold ssParams at h
  simp only [bind, Except.bind, pure, Except.pure] at h
  rw [if_neg (not_lt.mpr ha), if_neg (not_le.mpr he)] at h
  split at h
  · rename_i hd
    have hd0 : a * e - b * b ≠ 0 := by
      rcases hd with h | h
      · exact ne_of_lt h
      · exact ne_of_gt h
    have hdpos : 0 < a * e - b * b := lt_of_le_of_ne (by linarith) (Ne.symm hd0)
    rw [divC_ok hd0] at h
    dsimp only at h
    refine fin _ _ ?_ h
    have := kktc_clamp' (a := a * e - b * b) (g0 := -(b * f - c * e)) (q := (b * f - c * e) / (a * e - b * b))
      hdpos (by ring)
    have e1 : -(b * f - c * e) + (a * e - b * b) * clamp01 ((b * f - c * e) / (a * e - b * b))
        = (a * e - b * b) * clamp01 ((b * f - c * e) / (a * e - b * b)) - (b * f - c * e) := by ring
    rw [e1] at this; exact this
  · rename_i hd
    have hd0 : a * e - b * b = 0 := by
      push Not at hd
      linarith [hd.1, hd.2]
    refine fin 0 _ ?_ h
    right; left
    refine ⟨le_refl _, zero_le_one, ?_⟩
    have := hpar hd0
    linarith

end DistLine
end D3
