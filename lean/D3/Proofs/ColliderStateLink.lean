/-
Link between C14 (collider state, `D3/Model/ColliderState.lean`, geometric kernels as
parameters `K : Kernels α`) and C03/C19 (the model of `mesh.hill_climb_mesh_extreme` and of
`MeshHillClimbingSupportFunction.__init__`, `D3/Model/Support.lean`).

Part 1 (any scalar, any kernel record): the statements of `D3/Proofs/ColliderState{,Jit}.lean`
that were conditional on a property of the hill-climbing kernel *for all arrays* are re-proved
conditional on that property for the mesh data the shape itself stores and for the start indices
that can occur (`P vs cn sc i`), by carrying "the cached `first_idx` satisfies `P`" through
`update_pose`, Margin wrappers and queries.

Part 2 (`ℝ`): the kernel record is instantiated with C03's functions (`IsC03Hill`,
`IsC03Kernel`, `withC03`) and `P` with "C03-well-formed data, valid start" (`P03`); C03's
termination/local-optimality/global-optimality theorems discharge the hypotheses.
-/
import D3.Proofs.ColliderStateJit
import D3.Proofs.SupportMeshBuild

namespace D3
namespace CS

set_option linter.unusedSectionVars false

/-! ## Part 1: relativised invariants, any scalar -/

section generic

scalar_variables

/-- predicates on (vertex array, `connections`, shortcuts, start index) -/
abbrev MeshPred (α : Type) := Array (V3 α) → List (Nat × List Nat) → List Nat → Nat → Prop

/-- the result of a hill climb from an acceptable start is an acceptable start (no totality) -/
def HillClimbClosedOn (K : Kernels α) (P : MeshPred α) : Prop :=
  ∀ d i (vs : Array (V3 α)) cn sc k, P vs cn sc i → K.hillClimb d i vs cn sc = some k → P vs cn sc k

theorem HillClimbTotalOn.closed {K : Kernels α} {P : MeshPred α} (h : HillClimbTotalOn K P) :
    HillClimbClosedOn K P := by
  intro d i vs cn sc k hi hk
  obtain ⟨k', hk', _, hP⟩ := h d i vs cn sc hi
  rw [hk] at hk'
  cases hk'
  exact hP

/-- the start index `np.min(triangles)` the constructor stores is acceptable for the data the
constructor stores; no condition for a shape without a mesh -/
def Shape.MeshOk (K : Kernels α) (P : MeshPred α) : Shape α → Prop
  | .mesh verts tris =>
    ∀ first, minTriangleIdx tris = .ok first → P verts (K.connections tris) (K.shortcuts verts) first
  | .margin s _ => s.MeshOk K P
  | _ => True

/-- the constructor establishes the invariant -/
theorem startOk_atPose (e : Engine) (K : Kernels α) (P : MeshPred α) :
    ∀ (shape : Shape α) (p : Arr (M4 α)) (f : Collider α),
      shape.MeshOk K P → atPose e K shape p = .ok f → shape.StartOk K P f.firstIdx := by
  intro shape
  induction shape with
  | margin s m ih =>
    intro p f hm hf
    simp only [atPose, bind, Except.bind] at hf
    split at hf
    · cases hf
    · rename_i c hc
      simp only [pure, Except.pure] at hf
      injection hf with hf; subst hf
      exact ih p c hm hc
  | mesh verts tris =>
    intro p f hm hf
    simp only [atPose, bind, Except.bind] at hf
    split at hf
    · cases hf
    · rename_i first hfirst
      split at hf
      · cases hf
      · simp only [pure, Except.pure] at hf
        injection hf with hf; subst hf
        exact hm first hfirst
  | _ => intro p f _ _; trivial

/-- **the invariant step for queries**: whatever is asked, the start index cached afterwards is
acceptable again (through Margin wrappers; `update_pose` keeps the index, `update_atPose`) -/
theorem query_startOk (e : Engine) (K : Kernels α) (P : MeshPred α) (hK : HillClimbClosedOn K P) :
    ∀ (shape : Shape α) (p : Arr (M4 α)) (f : Collider α) (i : Nat) (q : Query α),
      atPose e K shape p = .ok f → shape.StartOk K P i →
      shape.StartOk K P ((f.setFirstIdx i).query e K q).1.firstIdx := by
  intro shape
  induction shape with
  | margin s m ih =>
    intro p f i q hf hi
    simp only [atPose, bind, Except.bind] at hf
    split at hf
    · cases hf
    · rename_i c hc
      simp only [pure, Except.pure] at hf
      injection hf with hf; subst hf
      have := ih p c i q hc hi
      cases q <;> simpa only [Collider.setFirstIdx, Collider.query, Collider.firstIdx, Shape.StartOk]
        using this
  | mesh verts tris =>
    intro p f i q hf hi
    simp only [atPose, bind, Except.bind] at hf
    split at hf
    · cases hf
    · split at hf
      · cases hf
      · simp only [pure, Except.pure] at hf
        injection hf with hf; subst hf
        cases q with
        | support d =>
          simp only [Collider.setFirstIdx, Collider.query, MeshC.support, Shape.StartOk] at hi ⊢
          cases hk : K.hillClimb (p.val.P.R.tmulVec d.val) i verts (K.connections tris)
              (K.shortcuts verts) with
          | none => exact hi
          | some k =>
            have hPk := hK _ _ _ _ _ _ hi hk
            simp only []
            split <;> exact hPk
        | _ => exact hi
  | _ => intro p f i q _ _; trivial

/-- `runFresh_ok` relativised: no call of the fresh-construction semantics raises, given a hill
climb that is total on `P` and a current start index that satisfies `P` -/
theorem runFresh_ok_on (e : Engine) (K : Kernels α) (P : MeshPred α) (hK : HillClimbTotalOn K P)
    (shape : Shape α) (hs : shape.contigParams = true) :
    ∀ (ops : List (Op α)) (last : Arr (M4 α)) (idx : Nat) (f : Collider α),
      atPose e K shape last = .ok f → last.layout = .c → shape.StartOk K P idx →
      PosesContig ops → DirsContig ops →
      ∀ o ∈ runFresh e K shape last idx ops, ∃ v, o = .ok v := by
  intro ops
  induction ops with
  | nil => intro last idx f _ _ _ _ _ o ho; simp [runFresh] at ho
  | cons op ops ih =>
    intro last idx f hf hl hi hP hD o ho
    cases op with
    | updatePose p =>
      have hp : p.layout = .c := hP p (by simp [posesOf])
      have hP' : PosesContig ops := fun q hq => hP q (by simp [posesOf, hq])
      obtain ⟨f', hf', _⟩ := update_atPose e K shape last p f idx hf (Or.inr hp)
      simp only [runFresh, hf', List.mem_cons] at ho
      rcases ho with rfl | ho
      · exact ⟨_, rfl⟩
      · exact ih p idx f' hf' hp hi hP' (dirsContig_cons_update hD) o ho
    | query q =>
      have hP' : PosesContig ops := fun p hp => hP p (by simpa [posesOf] using hp)
      obtain ⟨hq, hD'⟩ := dirsContig_cons_query hD
      simp only [runFresh, hf, List.mem_cons] at ho
      rcases ho with rfl | ho
      · exact query_ok_on e K P hK shape last f idx q hs hl hf hi hq
      · exact ih last _ f hf hl (query_startOk e K P hK.closed shape last f idx q hf hi) hP' hD' o ho

/-! ### start independence, relativised -/

/-- the hill climb of the shape's own mesh data in the mesh-frame direction `dm` returns the same
thing from any two acceptable starts -/
def Shape.StartIndepAt (K : Kernels α) (P : MeshPred α) : Shape α → V3 α → Prop
  | .mesh verts tris, dm =>
    ∀ i j, P verts (K.connections tris) (K.shortcuts verts) i →
      P verts (K.connections tris) (K.shortcuts verts) j →
      K.hillClimb dm i verts (K.connections tris) (K.shortcuts verts)
        = K.hillClimb dm j verts (K.connections tris) (K.shortcuts verts)
  | .margin s _, dm => s.StartIndepAt K P dm
  | _, _ => True

/-- the mesh-frame search directions `mesh2origin[:3, :3].T @ d` of a history that starts at
pose `last`: each `support_function(d)` is paired with the pose current at that moment -/
def meshDirsOf : Arr (M4 α) → List (Op α) → List (V3 α)
  | _, [] => []
  | _, .updatePose p :: ops => meshDirsOf p ops
  | last, .query (.support d) :: ops => last.val.P.R.tmulVec d.val :: meshDirsOf last ops
  | last, .query _ :: ops => meshDirsOf last ops

theorem meshDirsOf_cons_query_subset (last : Arr (M4 α)) (q : Query α) (ops : List (Op α)) :
    ∀ dm ∈ meshDirsOf last ops, dm ∈ meshDirsOf last (.query q :: ops) := by
  intro dm h
  cases q <;> simp [meshDirsOf, h]

/-- observations do not depend on which acceptable start index is cached, if the hill climb is
start-independent on the shape's own data for the direction asked -/
theorem query_out_of_startIndependentOn (e : Engine) (K : Kernels α) (P : MeshPred α) :
    ∀ (shape : Shape α) (p : Arr (M4 α)) (f : Collider α) (i j : Nat) (q : Query α),
      atPose e K shape p = .ok f → shape.StartOk K P i → shape.StartOk K P j →
      (∀ d, q = .support d → shape.StartIndepAt K P (p.val.P.R.tmulVec d.val)) →
      ((f.setFirstIdx i).query e K q).2 = ((f.setFirstIdx j).query e K q).2 := by
  intro shape
  induction shape with
  | margin s m ih =>
    intro p f i j q hf hi hj hq
    simp only [atPose, bind, Except.bind] at hf
    split at hf
    · cases hf
    · rename_i c hc
      simp only [pure, Except.pure] at hf
      injection hf with hf; subst hf
      have := ih p c i j q hc hi hj hq
      cases q <;> simp only [Collider.query, Collider.setFirstIdx, this]
  | mesh verts tris =>
    intro p f i j q hf hi hj hq
    simp only [atPose, bind, Except.bind] at hf
    split at hf
    · cases hf
    · split at hf
      · cases hf
      · simp only [pure, Except.pure] at hf
        injection hf with hf; subst hf
        cases q with
        | support d =>
          have h := hq d rfl i j hi hj
          simp only [Collider.query, Collider.setFirstIdx, MeshC.support]
          rw [h]
          split
          · rfl
          · split <;> rfl
        | _ => rfl
  | box size =>
    intro p f i j q hf _ _ _
    have hno : f.hasMesh = false := by rw [atPose_hasMesh e K _ p f hf]; rfl
    rw [setFirstIdx_of_noMesh f hno, setFirstIdx_of_noMesh f hno]
  | sphere r =>
    intro p f i j q hf _ _ _
    have hno : f.hasMesh = false := by rw [atPose_hasMesh e K _ p f hf]; rfl
    rw [setFirstIdx_of_noMesh f hno, setFirstIdx_of_noMesh f hno]
  | capsule r h =>
    intro p f i j q hf _ _ _
    have hno : f.hasMesh = false := by rw [atPose_hasMesh e K _ p f hf]; rfl
    rw [setFirstIdx_of_noMesh f hno, setFirstIdx_of_noMesh f hno]
  | ellipsoid radii =>
    intro p f i j q hf _ _ _
    have hno : f.hasMesh = false := by rw [atPose_hasMesh e K _ p f hf]; rfl
    rw [setFirstIdx_of_noMesh f hno, setFirstIdx_of_noMesh f hno]
  | cylinder r l =>
    intro p f i j q hf _ _ _
    have hno : f.hasMesh = false := by rw [atPose_hasMesh e K _ p f hf]; rfl
    rw [setFirstIdx_of_noMesh f hno, setFirstIdx_of_noMesh f hno]
  | disk r =>
    intro p f i j q hf _ _ _
    have hno : f.hasMesh = false := by rw [atPose_hasMesh e K _ p f hf]; rfl
    rw [setFirstIdx_of_noMesh f hno, setFirstIdx_of_noMesh f hno]
  | ellipse radii =>
    intro p f i j q hf _ _ _
    have hno : f.hasMesh = false := by rw [atPose_hasMesh e K _ p f hf]; rfl
    rw [setFirstIdx_of_noMesh f hno, setFirstIdx_of_noMesh f hno]
  | cone r h =>
    intro p f i j q hf _ _ _
    have hno : f.hasMesh = false := by rw [atPose_hasMesh e K _ p f hf]; rfl
    rw [setFirstIdx_of_noMesh f hno, setFirstIdx_of_noMesh f hno]

/-- `runFresh_eq_plain_of_startIndependent` relativised: start independence is needed only for
the shape's own mesh data, between acceptable starts, in the mesh-frame directions that occur -/
theorem runFresh_eq_plain_of_startIndependentOn (e : Engine) (K : Kernels α) (P : MeshPred α)
    (hcl : HillClimbClosedOn K P) (shape : Shape α) (hm : shape.MeshOk K P) :
    ∀ (ops : List (Op α)) (last : Arr (M4 α)) (idx : Nat), shape.StartOk K P idx →
      (∀ dm ∈ meshDirsOf last ops, shape.StartIndepAt K P dm) →
      runFresh e K shape last idx ops = runFreshPlain e K shape last ops := by
  intro ops
  induction ops with
  | nil => intro last idx _ _; rfl
  | cons op ops ih =>
    intro last idx hi hd
    cases op with
    | updatePose p =>
      simp only [runFresh, runFreshPlain]
      exact congrArg _ (ih p idx hi (fun dm h => hd dm (by simpa [meshDirsOf] using h)))
    | query q =>
      have hd' : ∀ dm ∈ meshDirsOf last ops, shape.StartIndepAt K P dm :=
        fun dm h => hd dm (meshDirsOf_cons_query_subset last q ops dm h)
      simp only [runFresh, runFreshPlain]
      cases hf : atPose e K shape last with
      | error err => simp only [ih last idx hi hd']
      | ok f =>
        have h0 := startOk_atPose e K P shape last f hm hf
        have hq : ∀ d, q = .support d → shape.StartIndepAt K P (last.val.P.R.tmulVec d.val) := by
          intro d hqd; subst hqd
          exact hd _ (by simp [meshDirsOf])
        have hout := query_out_of_startIndependentOn e K P shape last f idx f.firstIdx q hf hi h0 hq
        rw [setFirstIdx_firstIdx] at hout
        simp only [hout]
        exact congrArg _ (ih last _ (query_startOk e K P hcl shape last f idx q hf hi) hd')

/-- the unrelativised hypotheses are the instance `P := True` -/
theorem meshOk_true (K : Kernels α) : ∀ shape : Shape α, shape.MeshOk K (fun _ _ _ _ => True) := by
  intro shape
  induction shape with
  | margin s m ih => exact ih
  | mesh verts tris => intro _ _; trivial
  | _ => trivial

theorem startIndepAt_of_global (K : Kernels α) (P : MeshPred α)
    (hK : ∀ d i j vs cn sc, K.hillClimb d i vs cn sc = K.hillClimb d j vs cn sc) (dm : V3 α) :
    ∀ shape : Shape α, shape.StartIndepAt K P dm := by
  intro shape
  induction shape with
  | margin s m ih => exact ih
  | mesh verts tris => intro i j _ _; exact hK _ _ _ _ _ _
  | _ => trivial

/-! ### a relation between the outputs of `run`/`runFresh` and of `runFreshPlain` -/

/-- position-wise relation between two output lists of the history `ops` started at pose
`last`: the outputs of `update_pose` and of every query but `support_function` are equal, the two
outputs of a `support_function(d)` asked at current pose `cur` are related by `R cur d` -/
def OutsRel (R : Arr (M4 α) → Arr (V3 α) → Out α → Out α → Prop) :
    Arr (M4 α) → List (Op α) → List (Out α) → List (Out α) → Prop
  | _, [], [], [] => True
  | _, .updatePose p :: ops, o :: os, o' :: os' => o = o' ∧ OutsRel R p ops os os'
  | last, .query (.support d) :: ops, o :: os, o' :: os' => R last d o o' ∧ OutsRel R last ops os os'
  | last, .query _ :: ops, o :: os, o' :: os' => o = o' ∧ OutsRel R last ops os os'
  | _, _, _, _ => False

/-- if `R` relates the `support_function` outputs of a fresh collider queried from any two
acceptable start indices (for mesh-frame directions satisfying `H`), it relates the carried-index
replay `runFresh` and the plain replay `runFreshPlain` call by call -/
theorem runFresh_rel (e : Engine) (K : Kernels α) (P : MeshPred α) (hcl : HillClimbClosedOn K P)
    (R : Arr (M4 α) → Arr (V3 α) → Out α → Out α → Prop) (H : V3 α → Prop)
    (shape : Shape α) (hm : shape.MeshOk K P)
    (hR : ∀ (last : Arr (M4 α)) (f : Collider α) (i j : Nat) (d : Arr (V3 α)),
      atPose e K shape last = .ok f → shape.StartOk K P i → shape.StartOk K P j →
      H (last.val.P.R.tmulVec d.val) →
      R last d ((f.setFirstIdx i).query e K (.support d)).2
        ((f.setFirstIdx j).query e K (.support d)).2) :
    ∀ (ops : List (Op α)) (last : Arr (M4 α)) (idx : Nat) (f : Collider α),
      atPose e K shape last = .ok f → Admissible e ops → shape.StartOk K P idx →
      (∀ dm ∈ meshDirsOf last ops, H dm) →
      OutsRel R last ops (runFresh e K shape last idx ops) (runFreshPlain e K shape last ops) := by
  intro ops
  induction ops with
  | nil => intro last idx f _ _ _ _; trivial
  | cons op ops ih =>
    intro last idx f hf hadm hi hd
    cases op with
    | updatePose p =>
      obtain ⟨hp, hadm'⟩ := admissible_cons_update hadm
      obtain ⟨f', hf', _⟩ := update_atPose e K shape last p f idx hf hp
      simp only [runFresh, runFreshPlain]
      exact ⟨rfl, ih p idx f' hf' hadm' hi (fun dm h => hd dm (by simpa [meshDirsOf] using h))⟩
    | query q =>
      have hadm' := admissible_cons_query hadm
      have hd' : ∀ dm ∈ meshDirsOf last ops, H dm :=
        fun dm h => hd dm (meshDirsOf_cons_query_subset last q ops dm h)
      have h0 := startOk_atPose e K P shape last f hm hf
      have hnext := query_startOk e K P hcl shape last f idx q hf hi
      have hrest := ih last _ f hf hadm' hnext hd'
      simp only [runFresh, runFreshPlain, hf]
      cases q with
      | support d =>
        simp only [OutsRel]
        have := hR last f idx f.firstIdx d hf hi h0 (hd _ (by simp [meshDirsOf]))
        rw [setFirstIdx_firstIdx] at this
        exact ⟨this, hrest⟩
      | aabb =>
        exact ⟨query_out_firstIdx_irrelevant e K f .aabb (fun d h => by cases h) idx, hrest⟩
      | center =>
        exact ⟨query_out_firstIdx_irrelevant e K f .center (fun d h => by cases h) idx, hrest⟩
      | firstVertex =>
        exact ⟨query_out_firstIdx_irrelevant e K f .firstVertex (fun d h => by cases h) idx, hrest⟩
      | collider2origin =>
        exact ⟨query_out_firstIdx_irrelevant e K f .collider2origin (fun d h => by cases h) idx, hrest⟩

/-- reading `OutsRel` at one position: the two outputs of the `n`-th call, if that call is
`support_function(d)`, are related by `R` at the pose current at that moment -/
theorem OutsRel.support_at (R : Arr (M4 α) → Arr (V3 α) → Out α → Out α → Prop) :
    ∀ (ops : List (Op α)) (last : Arr (M4 α)) (os os' : List (Out α)), OutsRel R last ops os os' →
      ∀ (n : Nat) (d : Arr (V3 α)), ops[n]? = some (.query (.support d)) →
        ∃ o o', os[n]? = some o ∧ os'[n]? = some o' ∧ R (lastPose last (ops.take n)) d o o' := by
  intro ops
  induction ops with
  | nil => intro last os os' _ n d hn; simp at hn
  | cons op ops ih =>
    intro last os os' h n d hn
    match os, os', op, h with
    | o :: os, o' :: os', .updatePose p, h =>
      obtain ⟨_, hrest⟩ := h
      cases n with
      | zero => simp at hn
      | succ n =>
        simp only [List.getElem?_cons_succ] at hn ⊢
        simpa [lastPose] using ih p os os' hrest n d hn
    | o :: os, o' :: os', .query (.support d'), h =>
      obtain ⟨h0, hrest⟩ := h
      cases n with
      | zero =>
        simp only [List.getElem?_cons_zero, Option.some.injEq, Op.query.injEq, Query.support.injEq] at hn
        subst hn
        exact ⟨o, o', rfl, rfl, by simpa [lastPose] using h0⟩
      | succ n =>
        simp only [List.getElem?_cons_succ] at hn ⊢
        simpa [lastPose] using ih last os os' hrest n d hn
    | o :: os, o' :: os', .query .aabb, h =>
      obtain ⟨_, hrest⟩ := h
      cases n with
      | zero => simp at hn
      | succ n =>
        simp only [List.getElem?_cons_succ] at hn ⊢
        simpa [lastPose] using ih last os os' hrest n d hn
    | o :: os, o' :: os', .query .center, h =>
      obtain ⟨_, hrest⟩ := h
      cases n with
      | zero => simp at hn
      | succ n =>
        simp only [List.getElem?_cons_succ] at hn ⊢
        simpa [lastPose] using ih last os os' hrest n d hn
    | o :: os, o' :: os', .query .firstVertex, h =>
      obtain ⟨_, hrest⟩ := h
      cases n with
      | zero => simp at hn
      | succ n =>
        simp only [List.getElem?_cons_succ] at hn ⊢
        simpa [lastPose] using ih last os os' hrest n d hn
    | o :: os, o' :: os', .query .collider2origin, h =>
      obtain ⟨_, hrest⟩ := h
      cases n with
      | zero => simp at hn
      | succ n =>
        simp only [List.getElem?_cons_succ] at hn ⊢
        simpa [lastPose] using ih last os os' hrest n d hn
    | [], _, .updatePose _, h => exact absurd h (by simp [OutsRel])
    | [], _, .query q, h => cases q <;> exact absurd h (by simp [OutsRel])
    | _ :: _, [], .updatePose _, h => exact absurd h (by simp [OutsRel])
    | _ :: _, [], .query q, h => cases q <;> exact absurd h (by simp [OutsRel])
end generic

/-! ## Part 2: the kernel record instantiated with C03's functions -/

section adapter

scalar_variables

/-- C03's `hill_climb_mesh_extreme` (model `Support.hillClimb`, threshold
`PROJECTION_LENGTH_EPSILON`, fuel = number of vertices) in the shape of the kernel slot
`Kernels.hillClimb`: the returned index, the branch id dropped; every failure becomes `none`.
(`Kernels.hillClimb` has one failure value, which `MeshC.support` reports as `KeyError`; C03
distinguishes `KeyError` / `IndexError` / out of fuel.  No statement below is about a failing
call.) -/
def hill03 (d : V3 α) (i : Nat) (vs : Array (V3 α)) (cn : List (Nat × List Nat)) (sc : List Nat) :
    Option Nat :=
  match Support.hillClimb d i ⟨vs, cn, sc⟩ with
  | .ok r => some r.1
  | .error _ => none

/-- the `connections` dict of `MeshHillClimbingSupportFunction.__init__` as `MeshData.build`
computes it -/
def conn03 (tris : List (Nat × Nat × Nat)) : List (Nat × List Nat) :=
  tris.foldl Support.connAddTriangle []

/-- the six `shortcut_connections` as `MeshData.build` computes them (`[]` for an empty vertex
array, where the Python raises and `atPose` fails) -/
def shortcuts03 (verts : Array (V3 α)) : List Nat :=
  let vl := verts.toList
  let gt : α → α → Bool := fun a b => decide (b < a)
  let lt : α → α → Bool := fun a b => decide (a < b)
  match Support.argBest0 gt (·.x) vl, Support.argBest0 gt (·.y) vl, Support.argBest0 gt (·.z) vl,
        Support.argBest0 lt (·.x) vl, Support.argBest0 lt (·.y) vl, Support.argBest0 lt (·.z) vl with
  | .ok a, .ok b, .ok c, .ok e, .ok f, .ok g => [a, b, c, e, f, g]
  | _, _, _, _, _, _ => []

/-- any kernel record with its three mesh slots replaced by C03's functions -/
def withC03 (K : Kernels α) : Kernels α :=
  { K with hillClimb := hill03, connections := conn03, shortcuts := shortcuts03 }

end adapter

section c03

open Support

/-- the hill-climbing slot of `K` is C03's model of `hill_climb_mesh_extreme` -/
def IsC03Hill (K : Kernels ℝ) : Prop :=
  ∀ d i vs cn sc, K.hillClimb d i vs cn sc = hill03 d i vs cn sc

/-- all three mesh slots of `K` are C03's (`hill_climb_mesh_extreme` and the two parts of
`MeshHillClimbingSupportFunction.__init__`) -/
structure IsC03Kernel (K : Kernels ℝ) : Prop where
  hill : IsC03Hill K
  conn : ∀ tris, K.connections tris = conn03 tris
  shortcuts : ∀ verts, K.shortcuts verts = shortcuts03 verts

theorem isC03Kernel_withC03 (K : Kernels ℝ) : IsC03Kernel (withC03 K) :=
  ⟨fun _ _ _ _ _ => rfl, fun _ => rfl, fun _ => rfl⟩

/-- "the stored data is well-formed in C03's sense and `i` is a valid start (a vertex index with
an entry in `connections`)" -/
def P03 : MeshPred ℝ := fun vs cn sc i => MeshWF ⟨vs, cn, sc⟩ ∧ Valid ⟨vs, cn, sc⟩ i

theorem hill03_of_ok {d : V} {i : Nat} {m : MeshData ℝ} {r br : Nat}
    (h : Support.hillClimb d i m = .ok (r, br)) : hill03 d i m.verts m.conn m.shortcuts = some r := by
  unfold hill03
  rw [h]

/-- **C03 ⇒ relativised totality** (`hillClimb_terminates_local`): on well-formed data, from a
valid start, the modelled hill climb returns a vertex index that is a valid start again -/
theorem hillClimbTotalOn_c03 (K : Kernels ℝ) (hK : IsC03Hill K) : HillClimbTotalOn K P03 := by
  rintro d i vs cn sc ⟨hwf, hv⟩
  obtain ⟨r, br, h1, h2, _, _⟩ :=
    hillClimbT_spec (Gen.mesh__PROJECTION_LENGTH_EPSILON : ℝ) eps_nonneg d ⟨vs, cn, sc⟩ hwf i hv
  refine ⟨r, ?_, h2.1, hwf, h2⟩
  rw [hK]
  exact hill03_of_ok (m := ⟨vs, cn, sc⟩) h1

/-! ### start independence from strict unimodality and a unique maximiser -/

/-- at most one vertex index attains the maximum of `d · vertices[k]` over all vertices -/
def UniqueMax (d : V) (m : MeshData ℝ) : Prop :=
  ∀ a b, a < m.verts.size → b < m.verts.size →
    (∀ k, k < m.verts.size → proj d m.verts k ≤ proj d m.verts a) →
    (∀ k, k < m.verts.size → proj d m.verts k ≤ proj d m.verts b) → a = b

/-- two hill climbs (any threshold `τ ≥ 0`) on well-formed data that is `Unimodal τ 0` for the
direction and has a unique maximiser end at the same vertex, the maximiser, from any two valid
starts (the branch ids may differ) -/
theorem hillClimbT_startIndependent (τ : ℝ) (hτ : 0 ≤ τ) (d : V) (m : MeshData ℝ) (hwf : MeshWF m)
    (hu : Unimodal τ 0 d m) (hq : UniqueMax d m) (i j : Nat) (hi : Valid m i) (hj : Valid m j) :
    ∃ r bi bj, hillClimbT τ d i m = .ok (r, bi) ∧ hillClimbT τ d j m = .ok (r, bj) ∧ Valid m r ∧
      ∀ k, k < m.verts.size → proj d m.verts k ≤ proj d m.verts r := by
  obtain ⟨r, bi, h1, hv, ho, _⟩ := hillClimbT_spec τ hτ d m hwf i hi
  obtain ⟨r', bj, h1', hv', ho', _⟩ := hillClimbT_spec τ hτ d m hwf j hj
  have hg : ∀ k, k < m.verts.size → proj d m.verts k ≤ proj d m.verts r := by
    intro k hk; have := localOpt_global hu hv ho k hk; linarith
  have hg' : ∀ k, k < m.verts.size → proj d m.verts k ≤ proj d m.verts r' := by
    intro k hk; have := localOpt_global hu hv' ho' k hk; linarith
  have : r = r' := hq r r' hv.1 hv'.1 hg hg'
  subst this
  exact ⟨r, bi, bj, h1, h1', hv, hg⟩

/-- a property of the mesh data the constructor of `shape` stores (`True` without a mesh) -/
def Shape.MeshDataSat (K : Kernels ℝ) (Q : MeshData ℝ → Prop) : Shape ℝ → Prop
  | .mesh verts tris => Q ⟨verts, K.connections tris, K.shortcuts verts⟩
  | .margin s _ => s.MeshDataSat K Q
  | _ => True

theorem startIndepAt_of_unimodal_unique (K : Kernels ℝ) (hK : IsC03Hill K) (dm : V) :
    ∀ shape : Shape ℝ,
      shape.MeshDataSat K (fun m => Unimodal (Gen.mesh__PROJECTION_LENGTH_EPSILON : ℝ) 0 dm m ∧
        UniqueMax dm m) →
      shape.StartIndepAt K P03 dm := by
  intro shape
  induction shape with
  | margin s m ih => intro h; exact ih h
  | mesh verts tris =>
    rintro ⟨hu, hq⟩ i j ⟨hwf, hi⟩ ⟨_, hj⟩
    obtain ⟨r, bi, bj, h1, h2, _, _⟩ :=
      hillClimbT_startIndependent _ eps_nonneg dm _ hwf hu hq i j hi hj
    rw [hK, hK]
    rw [hill03_of_ok (m := ⟨verts, K.connections tris, K.shortcuts verts⟩) h1,
      hill03_of_ok (m := ⟨verts, K.connections tris, K.shortcuts verts⟩) h2]
  | _ => intro _; trivial

/-! ### the constructor: `atPose` stores what `MeshData.build` builds -/

theorem minTriangleIdx_eq_fold (t0 : Nat × Nat × Nat) (rest : List (Nat × Nat × Nat)) :
    minTriangleIdx (t0 :: rest)
      = .ok ((t0 :: rest).foldl (fun m t => min m (min t.1 (min t.2.1 t.2.2))) t0.1) := by
  obtain ⟨i, j, k⟩ := t0
  simp only [minTriangleIdx, List.foldl_cons]
  have hf : (fun (m : Nat) (t : Nat × Nat × Nat) => min (min (min m t.1) t.2.1) t.2.2)
      = (fun m t => min m (min t.1 (min t.2.1 t.2.2))) := by
    funext m t; omega
  have h0 : min (min i j) k = min i (min i (min j k)) := by omega
  rw [hf, h0]

/-- for a non-empty vertex array and a non-empty triangle list `MeshData.build` succeeds with
exactly the fields `atPose` stores under a C03 kernel -/
theorem build_eq (verts : Array V) (tris : List (Nat × Nat × Nat)) (first : Nat)
    (h1 : minTriangleIdx tris = .ok first) (hne : 0 < verts.size) :
    MeshData.build verts tris = .ok (⟨verts, conn03 tris, shortcuts03 verts⟩, first) := by
  cases tris with
  | nil => simp [minTriangleIdx] at h1
  | cons t0 rest =>
    rw [minTriangleIdx_eq_fold] at h1
    injection h1 with h1
    obtain ⟨v, vl, hvl⟩ : ∃ v vl, verts.toList = v :: vl := by
      cases hl : verts.toList with
      | nil =>
        have : verts.size = 0 := by simpa using congrArg List.length hl
        omega
      | cons v vl => exact ⟨v, vl, rfl⟩
    simp only [MeshData.build, shortcuts03, conn03, hvl, argBest0, h1]

/-- raw-input form of C03's construction precondition: triangle indices are vertex indices and
every shortcut vertex (arg-max/arg-min of a coordinate over all vertices) occurs in a triangle -/
def Shape.TrianglesOk : Shape ℝ → Prop
  | .mesh verts tris =>
    (∀ t ∈ tris, ∀ i, TriVert t i → i < verts.size) ∧
      (∀ s ∈ shortcuts03 verts, ∃ t ∈ tris, TriVert t s)
  | .margin s _ => s.TrianglesOk
  | _ => True

/-- **C03 `mesh_build_wf` ⇒ the constructor establishes the invariant** -/
theorem meshOk_of_trianglesOk (K : Kernels ℝ) (hK : IsC03Kernel K) :
    ∀ shape : Shape ℝ, shape.TrianglesOk → shape.MeshOk K P03 := by
  intro shape
  induction shape with
  | margin s m ih => intro h; exact ih h
  | mesh verts tris =>
    rintro ⟨hidx, hsc⟩ first hfirst
    rw [hK.conn, hK.shortcuts]
    have hne : 0 < verts.size := by
      cases tris with
      | nil => simp [minTriangleIdx] at hfirst
      | cons t0 rest =>
        have := hidx t0 List.mem_cons_self t0.1 (Or.inl rfl)
        omega
    have hb := build_eq verts tris first hfirst hne
    have := build_wf verts tris _ first hb hidx hsc
    exact ⟨this.1, this.2.1⟩
  | _ => intro _; trivial

/-! ### `MeshGraph.support_function` of the C14 model is C03's `meshCall` -/

/-- **model agreement**: with C03's hill climb in the kernel slot, a successful
`Support.meshCall` on the functor's pose, data and cached index is exactly what
`MeshC.support` returns and caches (same direction transform `R.T d`, same argument order,
same posed vertex `t + R v`) -/
theorem meshSupport_of_meshCall (K : Kernels ℝ) (hK : IsC03Hill K) (s : MeshC ℝ) (d : V)
    (idx : Nat) (pt : V) (br : Nat)
    (h : meshCall s.sf.mesh2origin.val.P ⟨s.sf.vertices, s.sf.connections, s.sf.shortcuts⟩
      s.sf.firstIdx d = .ok (idx, pt, br)) :
    s.support K d = ({ s with sf := { s.sf with firstIdx := idx } }, .ok (.vec pt)) := by
  unfold meshCall at h
  split at h
  · cases h
  · rename_i idx' br' hh
    split at h
    · cases h
    · rename_i v hv
      injection h with h
      injection h with h1 h2
      injection h2 with h2 h3
      subst h1 h2
      have hv' : s.sf.vertices[idx']? = some v := hv
      simp only [MeshC.support]
      rw [hK, hill03_of_ok
        (m := ⟨s.sf.vertices, s.sf.connections, s.sf.shortcuts⟩) hh]
      simp only [hv']
      rfl

/-- what a successful `meshCall` returns is the posed vertex at the returned index -/
theorem meshCall_vertex {A : Pose ℝ} {m : MeshData ℝ} {fi : Nat} {d : V} {idx : Nat} {pt : V} {br : Nat}
    (h : meshCall A m fi d = .ok (idx, pt, br)) :
    ∃ hk : idx < m.verts.size, pt = transformPoint A m.verts[idx] := by
  unfold meshCall at h
  split at h
  · cases h
  · split at h
    · cases h
    · rename_i v hv
      injection h with h
      injection h with h1 h2
      injection h2 with h2 h3
      subst h1 h2
      obtain ⟨hk, hv'⟩ := Array.getElem?_eq_some_iff.mp hv
      exact ⟨hk, by rw [hv']⟩

/-- the support output of `MeshGraph` from two valid cached indices: both calls succeed, return
posed vertices of the mesh, and under `Unimodal τ τ'` for the mesh-frame direction the two
support values differ by at most `τ'` (C03 `mesh_history_independent`, `mesh_call`) -/
theorem mesh_query_support_close (e : Engine) (K : Kernels ℝ) (hK : IsC03Hill K) (τ' : ℝ)
    (verts : Array V) (tris : List (Nat × Nat × Nat)) (p : Arr (M4 ℝ)) (f : Collider ℝ)
    (i j : Nat) (d : Arr V) (hf : atPose e K (.mesh verts tris) p = .ok f)
    (hi : P03 verts (K.connections tris) (K.shortcuts verts) i)
    (hj : P03 verts (K.connections tris) (K.shortcuts verts) j)
    (hu : Unimodal (Gen.mesh__PROJECTION_LENGTH_EPSILON : ℝ) τ' (p.val.P.R.tmulVec d.val)
      ⟨verts, K.connections tris, K.shortcuts verts⟩) :
    ∃ v v', ((f.setFirstIdx i).query e K (.support d)).2 = .ok (.vec v) ∧
      ((f.setFirstIdx j).query e K (.support d)).2 = .ok (.vec v') ∧
      (∃ k, ∃ hk : k < verts.size, v = meshPoint p.val verts[k]) ∧
      (∃ k, ∃ hk : k < verts.size, v' = meshPoint p.val verts[k]) ∧
      meshSet p.val.P ⟨verts, K.connections tris, K.shortcuts verts⟩ v ∧
      meshSet p.val.P ⟨verts, K.connections tris, K.shortcuts verts⟩ v' ∧
      V3.dot d.val v ≤ V3.dot d.val v' + τ' ∧ V3.dot d.val v' ≤ V3.dot d.val v + τ' := by
  simp only [atPose, bind, Except.bind] at hf
  split at hf
  · cases hf
  · split at hf
    · cases hf
    · simp only [pure, Except.pure] at hf
      injection hf with hf; subst hf
      obtain ⟨idx, v, br, idx', v', br', h1, h1', hle, hle'⟩ :=
        Support.mesh_history_independent p.val.P ⟨verts, K.connections tris, K.shortcuts verts⟩
          hi.1 i j hi.2 hj.2 d.val τ' hu
      obtain ⟨_, _, _, h2, _, hmem, _, _⟩ :=
        meshCall_spec p.val.P ⟨verts, K.connections tris, K.shortcuts verts⟩ hi.1 i hi.2 d.val
      obtain ⟨_, _, _, h2', _, hmem', _, _⟩ :=
        meshCall_spec p.val.P ⟨verts, K.connections tris, K.shortcuts verts⟩ hj.1 j hj.2 d.val
      rw [h1] at h2; rw [h1'] at h2'
      cases h2; cases h2'
      have key : ∀ (k idx : Nat) (v : V) (br : Nat),
          meshCall p.val.P ⟨verts, K.connections tris, K.shortcuts verts⟩ k d.val = .ok (idx, v, br) →
          ((Collider.mesh ⟨p, verts, tris, ⟨p, verts, k, K.connections tris, K.shortcuts verts⟩⟩).query
            e K (.support d)).2 = .ok (.vec v) := by
        intro k idx v br h
        simp only [Collider.query]
        rw [meshSupport_of_meshCall K hK
          ⟨p, verts, tris, ⟨p, verts, k, K.connections tris, K.shortcuts verts⟩⟩ d.val idx v br h]
      obtain ⟨hk, hvk⟩ := meshCall_vertex h1
      obtain ⟨hk', hvk'⟩ := meshCall_vertex h1'
      exact ⟨v, v', key i idx v br h1, key j idx' v' br' h1', ⟨idx, hk, hvk⟩, ⟨idx', hk', hvk'⟩,
        hmem, hmem', hle, hle'⟩

/-- two outputs of one `support_function(d)` call: equal, or both support points with support
values `d · v` within `τ'` of each other -/
def SupClose (τ' : ℝ) (d : V) (o o' : Out ℝ) : Prop :=
  o = o' ∨ ∃ v v', o = .ok (.vec v) ∧ o' = .ok (.vec v') ∧
    V3.dot d v ≤ V3.dot d v' + τ' ∧ V3.dot d v' ≤ V3.dot d v + τ'

/-- `mesh_query_support_close` through Margin wrappers (both outputs are shifted by the same
`margin * norm_vector(d)`) and, trivially, for every shape without a mesh -/
theorem query_support_close (e : Engine) (K : Kernels ℝ) (hK : IsC03Hill K) (τ' : ℝ) :
    ∀ (shape : Shape ℝ) (p : Arr (M4 ℝ)) (f : Collider ℝ) (i j : Nat) (d : Arr V),
      atPose e K shape p = .ok f → shape.StartOk K P03 i → shape.StartOk K P03 j →
      shape.MeshDataSat K
        (Unimodal (Gen.mesh__PROJECTION_LENGTH_EPSILON : ℝ) τ' (p.val.P.R.tmulVec d.val)) →
      SupClose τ' d.val ((f.setFirstIdx i).query e K (.support d)).2
        ((f.setFirstIdx j).query e K (.support d)).2 := by
  intro shape
  induction shape with
  | margin s m ih =>
    intro p f i j d hf hi hj hu
    simp only [atPose, bind, Except.bind] at hf
    split at hf
    · cases hf
    · rename_i c hc
      simp only [pure, Except.pure] at hf
      injection hf with hf; subst hf
      rcases ih p c i j d hc hi hj hu with h | ⟨v, v', hv, hv', hle, hle'⟩
      · left
        simp only [Collider.setFirstIdx, Collider.query, h]
      · simp only [Collider.setFirstIdx, Collider.query, hv, hv']
        cases typedCall e [d.layout] (normVector d.val) with
        | error err => exact Or.inl rfl
        | ok n =>
          refine Or.inr ⟨v + m * n, v' + m * n, rfl, rfl, ?_, ?_⟩
          · simp only [V3.dot_def, V3.add_x, V3.add_y, V3.add_z, V3.smul_x, V3.smul_y, V3.smul_z] at hle ⊢
            linarith
          · simp only [V3.dot_def, V3.add_x, V3.add_y, V3.add_z, V3.smul_x, V3.smul_y, V3.smul_z] at hle' ⊢
            linarith
  | mesh verts tris =>
    intro p f i j d hf hi hj hu
    obtain ⟨v, v', h1, h2, _, _, _, _, hle, hle'⟩ :=
      mesh_query_support_close e K hK τ' verts tris p f i j d hf hi hj hu
    exact Or.inr ⟨v, v', h1, h2, hle, hle'⟩
  | box size =>
    intro p f i j d hf _ _ _
    have hno : f.hasMesh = false := by rw [atPose_hasMesh e K _ p f hf]; rfl
    rw [setFirstIdx_of_noMesh f hno, setFirstIdx_of_noMesh f hno]; exact Or.inl rfl
  | sphere r =>
    intro p f i j d hf _ _ _
    have hno : f.hasMesh = false := by rw [atPose_hasMesh e K _ p f hf]; rfl
    rw [setFirstIdx_of_noMesh f hno, setFirstIdx_of_noMesh f hno]; exact Or.inl rfl
  | capsule r h =>
    intro p f i j d hf _ _ _
    have hno : f.hasMesh = false := by rw [atPose_hasMesh e K _ p f hf]; rfl
    rw [setFirstIdx_of_noMesh f hno, setFirstIdx_of_noMesh f hno]; exact Or.inl rfl
  | ellipsoid radii =>
    intro p f i j d hf _ _ _
    have hno : f.hasMesh = false := by rw [atPose_hasMesh e K _ p f hf]; rfl
    rw [setFirstIdx_of_noMesh f hno, setFirstIdx_of_noMesh f hno]; exact Or.inl rfl
  | cylinder r l =>
    intro p f i j d hf _ _ _
    have hno : f.hasMesh = false := by rw [atPose_hasMesh e K _ p f hf]; rfl
    rw [setFirstIdx_of_noMesh f hno, setFirstIdx_of_noMesh f hno]; exact Or.inl rfl
  | disk r =>
    intro p f i j d hf _ _ _
    have hno : f.hasMesh = false := by rw [atPose_hasMesh e K _ p f hf]; rfl
    rw [setFirstIdx_of_noMesh f hno, setFirstIdx_of_noMesh f hno]; exact Or.inl rfl
  | ellipse radii =>
    intro p f i j d hf _ _ _
    have hno : f.hasMesh = false := by rw [atPose_hasMesh e K _ p f hf]; rfl
    rw [setFirstIdx_of_noMesh f hno, setFirstIdx_of_noMesh f hno]; exact Or.inl rfl
  | cone r h =>
    intro p f i j d hf _ _ _
    have hno : f.hasMesh = false := by rw [atPose_hasMesh e K _ p f hf]; rfl
    rw [setFirstIdx_of_noMesh f hno, setFirstIdx_of_noMesh f hno]; exact Or.inl rfl

end c03

end CS
end D3
