/-
C15 helper lemmas, part 6: lower bound of the integrated pressure.

If the rows of `X` satisfy the `barycentric_transforms` contract for tetrahedron 1, the solver
satisfies the `np.linalg.solve` contract (`Σ res_j v_j = b`, `Σ res_j = 1`), and every polygon vertex
has all four row values `≥ lo` (`lo ≤ 0`; `lo = -EPSILON` from `vertex_inside_both_tetrahedra`),
then every pressure sample is `≥ lo · Σ e_k E` and `total_force ≥ lo · (Σ e_k E) · total_area`.
-/
import D3.Proofs.HydroPolygon

namespace D3
namespace Hydro

theorem rowVal_centroid (r : Row4 ℝ) (v0 v1 v2 : V) :
    rowVal r ((v0 + v1 + v2).sdiv 3.0) = (rowVal r v0 + rowVal r v1 + rowVal r v2) / 3 := by
  simp only [rowVal, V3.dot_def, V3.sdiv, V3.add_x, V3.add_y, V3.add_z]
  norm_num
  ring

/-- the `np.linalg.solve` contract for `X = [[tetrahedron.T],[1 1 1 1]]` -/
def SolveContract (solve : V → Q4 ℝ) (t : Tet ℝ) : Prop := ∀ b : V, IsBary t (solve b) b

theorem forceStep_lower (X : X4 ℝ) (t : Tet ℝ) (hX : IsBaryTransform X t) (solve : V → Q4 ℝ)
    (hs : SolveContract solve t) (w : Q4 ℝ) (hw : w.Nonneg) (poly : List V) (lo : ℝ)
    (hlo : ∀ P ∈ poly, ∀ row ∈ X.rows, lo ≤ rowVal row P) (acc acc' : ForceAcc ℝ)
    (tri : Nat × Nat × Nat) (h : forceStep solve w poly.toArray acc tri = .ok acc')
    (ha : 0 ≤ acc.a) (hf : lo * (w.a + w.b + w.c + w.d) * acc.a ≤ acc.f) :
    0 ≤ acc'.a ∧ lo * (w.a + w.b + w.c + w.d) * acc'.a ≤ acc'.f := by
  unfold forceStep at h
  split at h
  · rename_i v0 v1 v2 h0 h1 h2
    simp only [Except.ok.injEq] at h
    subst h
    simp only [List.getElem?_toArray] at h0 h1 h2
    have m0 := List.mem_of_getElem? h0
    have m1 := List.mem_of_getElem? h1
    have m2 := List.mem_of_getElem? h2
    have harea : 0 ≤ 0.5 * V3.norm (V3.cross (v1 - v0) (v2 - v0)) :=
      mul_nonneg (by norm_num) (V3.norm_nonneg _)
    obtain ⟨b0, b1, b2, b3⟩ := bary_of_contract hX (hs ((v0 + v1 + v2).sdiv 3.0))
    have low : ∀ row ∈ X.rows, lo ≤ rowVal row ((v0 + v1 + v2).sdiv 3.0) := by
      intro row hrow
      rw [rowVal_centroid]
      have := hlo v0 m0 row hrow
      have := hlo v1 m1 row hrow
      have := hlo v2 m2 row hrow
      linarith
    have l0 := low X.r0 (by simp [X4.rows])
    have l1 := low X.r1 (by simp [X4.rows])
    have l2 := low X.r2 (by simp [X4.rows])
    have l3 := low X.r3 (by simp [X4.rows])
    rw [b0] at l0; rw [b1] at l1; rw [b2] at l2; rw [b3] at l3
    obtain ⟨w0, w1, w2, w3⟩ := hw
    refine ⟨by simp only; linarith, ?_⟩
    simp only
    have hp : lo * (w.a + w.b + w.c + w.d) ≤
        (solve ((v0 + v1 + v2).sdiv 3.0)).a * w.a + (solve ((v0 + v1 + v2).sdiv 3.0)).b * w.b +
        (solve ((v0 + v1 + v2).sdiv 3.0)).c * w.c + (solve ((v0 + v1 + v2).sdiv 3.0)).d * w.d := by
      nlinarith [mul_le_mul_of_nonneg_right l0 w0, mul_le_mul_of_nonneg_right l1 w1,
        mul_le_mul_of_nonneg_right l2 w2, mul_le_mul_of_nonneg_right l3 w3]
    nlinarith [mul_le_mul_of_nonneg_right hp harea]
  · cases h

theorem forceFold_lower (X : X4 ℝ) (t : Tet ℝ) (hX : IsBaryTransform X t) (solve : V → Q4 ℝ)
    (hs : SolveContract solve t) (w : Q4 ℝ) (hw : w.Nonneg) (poly : List V) (lo : ℝ)
    (hlo : ∀ P ∈ poly, ∀ row ∈ X.rows, lo ≤ rowVal row P) :
    ∀ (tris : List (Nat × Nat × Nat)) (acc acc' : ForceAcc ℝ),
      tris.foldlM (forceStep solve w poly.toArray) acc = .ok acc' → 0 ≤ acc.a →
      lo * (w.a + w.b + w.c + w.d) * acc.a ≤ acc.f →
      0 ≤ acc'.a ∧ lo * (w.a + w.b + w.c + w.d) * acc'.a ≤ acc'.f
  | [], acc, acc', h, ha, hf => by
    simp only [List.foldlM_nil, pure, Except.pure, Except.ok.injEq] at h
    subst h
    exact ⟨ha, hf⟩
  | tri :: tris, acc, acc', h, ha, hf => by
    rw [List.foldlM_cons] at h
    obtain ⟨a1, h1, h2⟩ := except_bind_ok h
    obtain ⟨ha1, hf1⟩ := forceStep_lower X t hX solve hs w hw poly lo hlo acc a1 tri h1 ha hf
    exact forceFold_lower X t hX solve hs w hw poly lo hlo tris a1 acc' h2 ha1 hf1

theorem computeContactForce_lower (X : X4 ℝ) (t : Tet ℝ) (hX : IsBaryTransform X t)
    (solve : V → Q4 ℝ) (hs : SolveContract solve t) (e : Q4 ℝ) (he : e.Nonneg) (E : ℝ) (hE : 0 ≤ E)
    (plane : Row4 ℝ) (poly : List V) (lo : ℝ)
    (hlo : ∀ P ∈ poly, ∀ row ∈ X.rows, lo ≤ rowVal row P) (r : ForceResult ℝ)
    (h : computeContactForce solve e plane poly E = .ok r) :
    lo * ((e.a + e.b + e.c + e.d) * E) * r.area ≤ r.totalForce := by
  unfold computeContactForce at h
  simp only at h
  obtain ⟨acc, hacc, h⟩ := except_bind_ok h
  have key : r.area = acc.a ∧ r.totalForce = acc.f := by
    split at h
    · simp only [pure, Except.pure, bind, Except.bind, Except.ok.injEq] at h
      subst h; exact ⟨rfl, rfl⟩
    · split at h
      · simp only [pure, Except.pure, bind, Except.bind, Except.ok.injEq] at h
        subst h; exact ⟨rfl, rfl⟩
      · simp [throw, throwThe, MonadExceptOf.throw, bind, Except.bind] at h
  obtain ⟨k2, k3⟩ := key
  obtain ⟨e0, e1, e2, e3⟩ := he
  have hw : (e.scale E).Nonneg :=
    ⟨mul_nonneg e0 hE, mul_nonneg e1 hE, mul_nonneg e2 hE, mul_nonneg e3 hE⟩
  obtain ⟨_, hf⟩ := forceFold_lower X t hX solve hs (e.scale E) hw poly lo hlo _ _ _ hacc
    (le_refl _) (by simp)
  rw [k2, k3]
  simp only [Q4.scale] at hf
  have : (e.a + e.b + e.c + e.d) * E = e.a * E + e.b * E + e.c * E + e.d * E := by ring
  rw [this]
  exact hf

end Hydro
end D3
