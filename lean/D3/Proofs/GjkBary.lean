/-
`joltBary.plane` (the C18 model of `get_barycentric_coordinates_plane`) meets `BarySpec.plane`
outside its degenerate band (C01, feasibility of the returned closest points).
-/
import D3.Proofs.GjkFinish

namespace D3
namespace Gjk
open GjkJolt

/-- a point that cannot be improved by moving a little in direction `±e` is orthogonal to `e` -/
theorem orth_of_moves (x e : V) (lo hi : ℝ) (hlo : lo < 0) (hhi : 0 < hi)
    (h : ∀ t : ℝ, lo ≤ t → t ≤ hi →
      V3.normSq x ≤ V3.normSq x + 2 * t * V3.dot x e + t * t * V3.normSq e) :
    V3.dot x e = 0 := by
  set c := V3.dot x e with hc
  set D := V3.normSq e with hD
  have hD0 : 0 ≤ D := V3.normSq_nonneg _
  by_contra hne
  rcases lt_or_gt_of_ne hne with hneg | hpos'
  · by_cases hDz : D = 0
    · have := h hi (by linarith) le_rfl
      rw [hDz] at this; nlinarith
    · have hDp : 0 < D := lt_of_le_of_ne hD0 (Ne.symm hDz)
      have ht : 0 < min hi (-c / D) := lt_min hhi (div_pos (by linarith) hDp)
      have := h (min hi (-c / D)) (by linarith) (min_le_left _ _)
      have h2 : min hi (-c / D) * D ≤ -c := by
        calc min hi (-c / D) * D ≤ (-c / D) * D := by
              apply mul_le_mul_of_nonneg_right (min_le_right _ _) hD0
          _ = -c := by field_simp
      nlinarith
  · by_cases hDz : D = 0
    · have := h lo le_rfl (by linarith)
      rw [hDz] at this; nlinarith
    · have hDp : 0 < D := lt_of_le_of_ne hD0 (Ne.symm hDz)
      have ht : 0 < min (-lo) (c / D) := lt_min (by linarith) (div_pos hpos' hDp)
      have := h (-(min (-lo) (c / D))) (by linarith [min_le_left (-lo) (c / D)]) (by linarith)
      have h2 : min (-lo) (c / D) * D ≤ c := by
        calc min (-lo) (c / D) * D ≤ (c / D) * D := by
              apply mul_le_mul_of_nonneg_right (min_le_right _ _) hD0
          _ = c := by field_simp
      nlinarith

/-- the closest point of a triangle with positive weights on all vertices is orthogonal to its
edges -/
theorem closest3_orth {a b c x : V} (h : Closest [a, b, c] x) :
    ∃ l0 l1 l2 : ℝ, 0 < l0 ∧ 0 < l1 ∧ 0 < l2 ∧ l0 + l1 + l2 = 1 ∧
      x = l0 * a + l1 * b + l2 * c ∧ V3.dot x (b - a) = 0 ∧ V3.dot x (c - a) = 0 := by
  obtain ⟨ws, hl, hpos, hsum, he⟩ := h.relint
  match ws, hl with
  | [l0, l1, l2], _ =>
    have h0 : 0 < l0 := hpos l0 (by simp)
    have h1 : 0 < l1 := hpos l1 (by simp)
    have h2 : 0 < l2 := hpos l2 (by simp)
    have hs : l0 + l1 + l2 = 1 := by simp at hsum; linarith
    have hx : x = l0 * a + l1 * b + l2 * c := by
      rw [he]; apply V3.ext' <;> simp [lincomb] <;> ring
    refine ⟨l0, l1, l2, h0, h1, h2, hs, hx, ?_, ?_⟩
    · apply orth_of_moves x (b - a) (-l1) l0 (by linarith) h0
      intro t ht1 ht2
      have hin : InHull [a, b, c] ((l0 - t) * a + (l1 + t) * b + l2 * c) :=
        ⟨[l0 - t, l1 + t, l2], rfl, by
          intro w hw; simp at hw; rcases hw with rfl | rfl | rfl <;> linarith,
          by simp; linarith, by apply V3.ext' <;> simp [lincomb] <;> ring⟩
      have := h.minnorm.2 _ hin
      have e : V3.normSq ((l0 - t) * a + (l1 + t) * b + l2 * c)
          = V3.normSq x + 2 * t * V3.dot x (b - a) + t * t * V3.normSq (b - a) := by
        rw [hx]
        simp only [V3.normSq_def, V3.dot_def, V3.add_x, V3.add_y, V3.add_z, V3.smul_x, V3.smul_y,
          V3.smul_z, V3.sub_x, V3.sub_y, V3.sub_z]
        ring
      rw [e] at this
      exact this
    · apply orth_of_moves x (c - a) (-l2) l0 (by linarith) h0
      intro t ht1 ht2
      have hin : InHull [a, b, c] ((l0 - t) * a + l1 * b + (l2 + t) * c) :=
        ⟨[l0 - t, l1, l2 + t], rfl, by
          intro w hw; simp at hw; rcases hw with rfl | rfl | rfl <;> linarith,
          by simp; linarith, by apply V3.ext' <;> simp [lincomb] <;> ring⟩
      have := h.minnorm.2 _ hin
      have e : V3.normSq ((l0 - t) * a + l1 * b + (l2 + t) * c)
          = V3.normSq x + 2 * t * V3.dot x (c - a) + t * t * V3.normSq (c - a) := by
        rw [hx]
        simp only [V3.normSq_def, V3.dot_def, V3.add_x, V3.add_y, V3.add_z, V3.smul_x, V3.smul_y,
          V3.smul_z, V3.sub_x, V3.sub_y, V3.sub_z]
        ring
      rw [e] at this
      exact this

theorem EPSs_pos : (0 : ℝ) < Simplex.EPS := by
  unfold Simplex.EPS D3.Gen.utils__EPSILON; norm_num

theorem ne_zero_of_not_absS_lt {d : ℝ} (h : ¬ absS d < (Simplex.EPS : ℝ)) : d ≠ 0 := by
  rintro rfl
  apply h
  simp only [absS, lt_self_iff_false, if_false]
  exact EPSs_pos

/-- the repaired (relative) degeneracy test `|den| ≤ ε·L⁴` holds for `den = 0` -/
theorem ne_zero_of_not_absS_le {d L : ℝ} (h : ¬ absS d ≤ (Simplex.EPS : ℝ) * L * L) : d ≠ 0 := by
  rintro rfl
  apply h
  simp only [absS, lt_self_iff_false, if_false]
  have := mul_nonneg EPSs_pos.le (mul_self_nonneg L)
  linarith

/-- non-degenerate band of `get_barycentric_coordinates_plane` (after repair dbe9d34, scale free):
the Gram determinant of the two edges the routine uses (`= 4·area²`) exceeds `EPSILON · L⁴` in
absolute value, `L²` the longest squared edge — the negation of the code's test
`abs(denominator) <= EPSILON * max_edge_len_sq * max_edge_len_sq`, the same criterion as
`Simplex.TriRegular` -/
def jnd3 (a b c : V) : Prop :=
  if V3.dot (b - a) (b - a) ≤ V3.dot (c - b) (c - b) then
    ¬ absS (V3.dot (b - a) (b - a) * V3.dot (c - a) (c - a)
        - V3.dot (b - a) (c - a) * V3.dot (b - a) (c - a)) ≤
      (Simplex.EPS : ℝ) * Simplex.maxEdgeLenSq a b c * Simplex.maxEdgeLenSq a b c
  else
    ¬ absS (V3.dot (c - a) (c - a) * V3.dot (c - b) (c - b)
        - V3.dot (c - a) (c - b) * V3.dot (c - a) (c - b)) ≤
      (Simplex.EPS : ℝ) * Simplex.maxEdgeLenSq a b c * Simplex.maxEdgeLenSq a b c

theorem cdiv_ok {x y : ℝ} (hy : y ≠ 0) : Simplex.cdiv x y = .ok (x / y) := by
  unfold Simplex.cdiv
  have : y < 0 ∨ 0 < y := lt_or_gt_of_ne hy
  simp [this]

/-- `joltBary.plane` returns exactly the weights of the closest point outside the degenerate
band -/
theorem joltBary_plane_spec (a b c : V) (u v w : ℝ) (x : V) (hnd : jnd3 a b c)
    (h : (joltBary (α := ℝ)).plane a b c = .ok (u, v, w)) (hx : Closest [a, b, c] x) :
    0 ≤ u ∧ 0 ≤ v ∧ 0 ≤ w ∧ u + v + w = 1 ∧ u * a + v * b + w * c = x := by
  obtain ⟨l0, l1, l2, h0, h1, h2, hs, hxe, ho1, ho2⟩ := closest3_orth hx
  have hl0 : l0 = 1 - l1 - l2 := by linarith
  -- the two normal equations in terms of the dot products the routine computes
  rw [hxe, hl0] at ho1 ho2
  unfold jnd3 at hnd
  simp only [Simplex.maxEdgeLenSq] at hnd
  simp only [joltBary, Simplex.baryPlane, bind, Except.bind] at h
  by_cases hbr : V3.dot (b - a) (b - a) ≤ V3.dot (c - b) (c - b)
  · simp only [hbr, if_true] at hnd h
    simp only [hnd, if_false] at h
    have hden := ne_zero_of_not_absS_le hnd
    rw [cdiv_ok hden, cdiv_ok hden] at h
    simp only [Except.ok.injEq, Prod.mk.injEq] at h
    obtain ⟨hu, hv, hw⟩ := h
    have hv' : v = l1 := by
      rw [← hv, div_eq_iff hden]
      simp only [V3.dot_def, V3.add_x, V3.add_y, V3.add_z, V3.smul_x, V3.smul_y, V3.smul_z,
        V3.sub_x, V3.sub_y, V3.sub_z] at ho1 ho2 ⊢
      linear_combination
        (-(((c.x - a.x) * (c.x - a.x) + (c.y - a.y) * (c.y - a.y) + (c.z - a.z) * (c.z - a.z)))) * ho1
        + ((b.x - a.x) * (c.x - a.x) + (b.y - a.y) * (c.y - a.y) + (b.z - a.z) * (c.z - a.z)) * ho2
    have hw' : w = l2 := by
      rw [← hw, div_eq_iff hden]
      simp only [V3.dot_def, V3.add_x, V3.add_y, V3.add_z, V3.smul_x, V3.smul_y, V3.smul_z,
        V3.sub_x, V3.sub_y, V3.sub_z] at ho1 ho2 ⊢
      linear_combination
        ((b.x - a.x) * (c.x - a.x) + (b.y - a.y) * (c.y - a.y) + (b.z - a.z) * (c.z - a.z)) * ho1
        - ((b.x - a.x) * (b.x - a.x) + (b.y - a.y) * (b.y - a.y) + (b.z - a.z) * (b.z - a.z)) * ho2
    have hu' : u = l0 := by rw [← hu, hv, hw, hv', hw', hl0]
    refine ⟨by rw [hu']; exact h0.le, by rw [hv']; exact h1.le, by rw [hw']; exact h2.le,
      by rw [hu', hv', hw']; exact hs, ?_⟩
    rw [hu', hv', hw', hxe]
  · simp only [hbr, if_false] at hnd h
    simp only [hnd, if_false] at h
    have hden := ne_zero_of_not_absS_le hnd
    rw [cdiv_ok hden, cdiv_ok hden] at h
    simp only [Except.ok.injEq, Prod.mk.injEq] at h
    obtain ⟨hu, hv, hw⟩ := h
    have hu' : u = 1 - l1 - l2 := by
      rw [← hu, div_eq_iff hden]
      simp only [V3.dot_def, V3.add_x, V3.add_y, V3.add_z, V3.smul_x, V3.smul_y, V3.smul_z,
        V3.sub_x, V3.sub_y, V3.sub_z] at ho1 ho2 ⊢
      linear_combination ((c.x - a.x) * (c.x - b.x) + (c.y - a.y) * (c.y - b.y) + (c.z - a.z) * (c.z - b.z)) * ho1 + (((c.x - b.x) * (c.x - b.x) + (c.y - b.y) * (c.y - b.y) + (c.z - b.z) * (c.z - b.z)) - ((c.x - a.x) * (c.x - b.x) + (c.y - a.y) * (c.y - b.y) + (c.z - a.z) * (c.z - b.z))) * ho2
    have hv' : v = l1 := by
      rw [← hv, div_eq_iff hden]
      simp only [V3.dot_def, V3.add_x, V3.add_y, V3.add_z, V3.smul_x, V3.smul_y, V3.smul_z,
        V3.sub_x, V3.sub_y, V3.sub_z] at ho1 ho2 ⊢
      linear_combination (-((c.x - a.x) * (c.x - a.x) + (c.y - a.y) * (c.y - a.y) + (c.z - a.z) * (c.z - a.z))) * ho1 + (((c.x - a.x) * (c.x - a.x) + (c.y - a.y) * (c.y - a.y) + (c.z - a.z) * (c.z - a.z)) - ((c.x - a.x) * (c.x - b.x) + (c.y - a.y) * (c.y - b.y) + (c.z - a.z) * (c.z - b.z))) * ho2
    have hw' : w = l2 := by rw [← hw, hu, hv, hu', hv']; ring
    refine ⟨by rw [hu', ← hl0]; exact h0.le, by rw [hv']; exact h1.le, by rw [hw']; exact h2.le,
      by rw [hu', hv', hw']; ring, ?_⟩
    rw [hu', hv', hw', hxe, hl0]

/-- the closest point of a tetrahedron with positive weights on all vertices is orthogonal to
the three edges at `a` -/
theorem closest4_orth {a b c d x : V} (h : Closest [a, b, c, d] x) :
    ∃ l0 l1 l2 l3 : ℝ, 0 < l0 ∧ 0 < l1 ∧ 0 < l2 ∧ 0 < l3 ∧ l0 + l1 + l2 + l3 = 1 ∧
      x = l0 * a + l1 * b + l2 * c + l3 * d ∧ V3.dot x (b - a) = 0 ∧ V3.dot x (c - a) = 0 ∧
      V3.dot x (d - a) = 0 := by
  obtain ⟨ws, hl, hpos, hsum, he⟩ := h.relint
  match ws, hl with
  | [l0, l1, l2, l3], _ =>
    have h0 : 0 < l0 := hpos l0 (by simp)
    have h1 : 0 < l1 := hpos l1 (by simp)
    have h2 : 0 < l2 := hpos l2 (by simp)
    have h3 : 0 < l3 := hpos l3 (by simp)
    have hs : l0 + l1 + l2 + l3 = 1 := by simp at hsum; linarith
    have hx : x = l0 * a + l1 * b + l2 * c + l3 * d := by
      rw [he]; apply V3.ext' <;> simp [lincomb] <;> ring
    refine ⟨l0, l1, l2, l3, h0, h1, h2, h3, hs, hx, ?_, ?_, ?_⟩
    · apply orth_of_moves x (b - a) (-l1) l0 (by linarith) h0
      intro t ht1 ht2
      have hin : InHull [a, b, c, d] ((l0 - t) * a + (l1 + t) * b + l2 * c + l3 * d) :=
        ⟨[l0 - t, l1 + t, l2, l3], rfl, by
          intro w hw; simp at hw; rcases hw with rfl | rfl | rfl | rfl <;> linarith,
          by simp; linarith, by apply V3.ext' <;> simp [lincomb] <;> ring⟩
      have := h.minnorm.2 _ hin
      have e : V3.normSq ((l0 - t) * a + (l1 + t) * b + l2 * c + l3 * d)
          = V3.normSq x + 2 * t * V3.dot x (b - a) + t * t * V3.normSq (b - a) := by
        rw [hx]
        simp only [V3.normSq_def, V3.dot_def, V3.add_x, V3.add_y, V3.add_z, V3.smul_x, V3.smul_y,
          V3.smul_z, V3.sub_x, V3.sub_y, V3.sub_z]
        ring
      rw [e] at this
      exact this
    · apply orth_of_moves x (c - a) (-l2) l0 (by linarith) h0
      intro t ht1 ht2
      have hin : InHull [a, b, c, d] ((l0 - t) * a + l1 * b + (l2 + t) * c + l3 * d) :=
        ⟨[l0 - t, l1, l2 + t, l3], rfl, by
          intro w hw; simp at hw; rcases hw with rfl | rfl | rfl | rfl <;> linarith,
          by simp; linarith, by apply V3.ext' <;> simp [lincomb] <;> ring⟩
      have := h.minnorm.2 _ hin
      have e : V3.normSq ((l0 - t) * a + l1 * b + (l2 + t) * c + l3 * d)
          = V3.normSq x + 2 * t * V3.dot x (c - a) + t * t * V3.normSq (c - a) := by
        rw [hx]
        simp only [V3.normSq_def, V3.dot_def, V3.add_x, V3.add_y, V3.add_z, V3.smul_x, V3.smul_y,
          V3.smul_z, V3.sub_x, V3.sub_y, V3.sub_z]
        ring
      rw [e] at this
      exact this
    · apply orth_of_moves x (d - a) (-l3) l0 (by linarith) h0
      intro t ht1 ht2
      have hin : InHull [a, b, c, d] ((l0 - t) * a + l1 * b + l2 * c + (l3 + t) * d) :=
        ⟨[l0 - t, l1, l2, l3 + t], rfl, by
          intro w hw; simp at hw; rcases hw with rfl | rfl | rfl | rfl <;> linarith,
          by simp; linarith, by apply V3.ext' <;> simp [lincomb] <;> ring⟩
      have := h.minnorm.2 _ hin
      have e : V3.normSq ((l0 - t) * a + l1 * b + l2 * c + (l3 + t) * d)
          = V3.normSq x + 2 * t * V3.dot x (d - a) + t * t * V3.normSq (d - a) := by
        rw [hx]
        simp only [V3.normSq_def, V3.dot_def, V3.add_x, V3.add_y, V3.add_z, V3.smul_x, V3.smul_y,
          V3.smul_z, V3.sub_x, V3.sub_y, V3.sub_z]
        ring
      rw [e] at this
      exact this

/-- non-degenerate band of `get_barycentric_coordinates_tetrahedron`: non-zero volume -/
def jnd4 (a b c d : V) : Prop := Simplex.triple (b - a) (c - a) (d - a) ≠ (0 : ℝ)

/-- `joltBary.tetra` returns exactly the weights of the closest point (which is the origin) of a
non-degenerate tetrahedron -/
theorem joltBary_tetra_spec (a b c d : V) (u v w t : ℝ) (x : V) (hnd : jnd4 a b c d)
    (h : (joltBary (α := ℝ)).tetra a b c d = .ok (u, v, w, t)) (hx : Closest [a, b, c, d] x) :
    0 ≤ u ∧ 0 ≤ v ∧ 0 ≤ w ∧ 0 ≤ t ∧ u + v + w + t = 1 ∧ u * a + v * b + w * c + t * d = x := by
  obtain ⟨l0, l1, l2, l3, h0, h1, h2, h3, hs, hxe, ho1, ho2, ho3⟩ := closest4_orth hx
  unfold jnd4 at hnd
  -- x is orthogonal to three independent vectors: x = 0
  have hdet : Simplex.triple (b - a) (c - a) (d - a) ≠ (0 : ℝ) := hnd
  have hx0 : x = zeroV := by
    have e : ∀ k : ℝ, Simplex.triple (b - a) (c - a) (d - a) * k = 0 → k = 0 := fun k hk =>
      (mul_eq_zero.mp hk).resolve_left hdet
    simp only [Simplex.triple, V3.dot_def, V3.cross, V3.sub_x, V3.sub_y, V3.sub_z] at e ho1 ho2 ho3
    apply V3.ext'
    · apply e
      linear_combination ((c.y - a.y) * (d.z - a.z) - (c.z - a.z) * (d.y - a.y)) * ho1 + ((d.y - a.y) * (b.z - a.z) - (d.z - a.z) * (b.y - a.y)) * ho2 + ((b.y - a.y) * (c.z - a.z) - (b.z - a.z) * (c.y - a.y)) * ho3
    · apply e
      linear_combination ((c.z - a.z) * (d.x - a.x) - (c.x - a.x) * (d.z - a.z)) * ho1 + ((d.z - a.z) * (b.x - a.x) - (d.x - a.x) * (b.z - a.z)) * ho2 + ((b.z - a.z) * (c.x - a.x) - (b.x - a.x) * (c.z - a.z)) * ho3
    · apply e
      linear_combination ((c.x - a.x) * (d.y - a.y) - (c.y - a.y) * (d.x - a.x)) * ho1 + ((d.x - a.x) * (b.y - a.y) - (d.y - a.y) * (b.x - a.x)) * ho2 + ((b.x - a.x) * (c.y - a.y) - (b.y - a.y) * (c.x - a.x)) * ho3
  have hl0 : l0 = 1 - l1 - l2 - l3 := by linarith
  rw [hx0, hl0] at hxe
  have Hx : a.x + l1 * (b.x - a.x) + l2 * (c.x - a.x) + l3 * (d.x - a.x) = 0 := by
    have := congrArg V3.x hxe; simp at this; linarith
  have Hy : a.y + l1 * (b.y - a.y) + l2 * (c.y - a.y) + l3 * (d.y - a.y) = 0 := by
    have := congrArg V3.y hxe; simp at this; linarith
  have Hz : a.z + l1 * (b.z - a.z) + l2 * (c.z - a.z) + l3 * (d.z - a.z) = 0 := by
    have := congrArg V3.z hxe; simp at this; linarith
  simp only [joltBary, Simplex.baryTetra, bind, Except.bind] at h
  rw [cdiv_ok hdet] at h
  simp only [Except.ok.injEq, Prod.mk.injEq] at h
  obtain ⟨hu, hv, hw, ht⟩ := h
  have key : ∀ (num l : ℝ), num = l * Simplex.triple (b - a) (c - a) (d - a) →
      num * (1 / Simplex.triple (b - a) (c - a) (d - a)) = l := by
    intro num l hnum
    rw [hnum]; field_simp
  have hv' : v = l1 := by
    rw [← hv]; apply key
    simp only [Simplex.triple, V3.dot_def, V3.cross, V3.sub_x, V3.sub_y, V3.sub_z]
    linear_combination (-((c.y - a.y) * (d.z - a.z) - (c.z - a.z) * (d.y - a.y))) * Hx + (-((c.z - a.z) * (d.x - a.x) - (c.x - a.x) * (d.z - a.z))) * Hy + (-((c.x - a.x) * (d.y - a.y) - (c.y - a.y) * (d.x - a.x))) * Hz
  have hw' : w = l2 := by
    rw [← hw]; apply key
    simp only [Simplex.triple, V3.dot_def, V3.cross, V3.sub_x, V3.sub_y, V3.sub_z]
    linear_combination (-((d.y - a.y) * (b.z - a.z) - (d.z - a.z) * (b.y - a.y))) * Hx + (-((d.z - a.z) * (b.x - a.x) - (d.x - a.x) * (b.z - a.z))) * Hy + (-((d.x - a.x) * (b.y - a.y) - (d.y - a.y) * (b.x - a.x))) * Hz
  have ht' : t = l3 := by
    rw [← ht]; apply key
    simp only [Simplex.triple, V3.dot_def, V3.cross, V3.sub_x, V3.sub_y, V3.sub_z]
    linear_combination (-((b.y - a.y) * (c.z - a.z) - (b.z - a.z) * (c.y - a.y))) * Hx + (-((b.z - a.z) * (c.x - a.x) - (b.x - a.x) * (c.z - a.z))) * Hy + (-((b.x - a.x) * (c.y - a.y) - (b.y - a.y) * (c.x - a.x))) * Hz
  have hu' : u = 1 - l1 - l2 - l3 := by
    rw [← hu]; apply key
    simp only [Simplex.triple, V3.dot_def, V3.cross, V3.sub_x, V3.sub_y, V3.sub_z]
    linear_combination (-((d.y - b.y) * (c.z - b.z) - (d.z - b.z) * (c.y - b.y))) * Hx + (-((d.z - b.z) * (c.x - b.x) - (d.x - b.x) * (c.z - b.z))) * Hy + (-((d.x - b.x) * (c.y - b.y) - (d.y - b.y) * (c.x - b.x))) * Hz
  refine ⟨by rw [hu', ← hl0]; exact h0.le, by rw [hv']; exact h1.le, by rw [hw']; exact h2.le,
    by rw [ht']; exact h3.le, by rw [hu', hv', hw', ht']; ring, ?_⟩
  rw [hu', hv', hw', ht', hx0]
  exact hxe.symm

end Gjk
end D3
