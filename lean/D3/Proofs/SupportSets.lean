/-
Point sets of the colliders (ℝ) and the elementary inequalities used by all C03 proofs.
The sets are defined from the shapes' mathematical descriptions only (never from the code).
Local sets live in the shape's own frame; the collider's set is `poseImage A (localSet …)`.
-/
import D3.Spec.Vec
import D3.Model.Support
import Mathlib.Tactic.NormNum

namespace D3
namespace Support

/-! ### sets -/

/-- closed under segments -/
def ConvexSet (K : V → Prop) : Prop :=
  ∀ a b : V, K a → K b → ∀ t : ℝ, 0 ≤ t → t ≤ 1 → K ((1 - t) * a + t * b)

/-- solid ball `|p − c| ≤ r` -/
def ballSet (c : V) (r : ℝ) : V → Prop := fun p => V3.normSq (p - c) ≤ r * r

/-- capsule in its own frame: all points within `r` of the segment `{(0,0,s) : |s| ≤ h/2}` -/
def capsuleLocalSet (r h : ℝ) : V → Prop := fun p =>
  ∃ s : ℝ, -(h / 2) ≤ s ∧ s ≤ h / 2 ∧ p.x * p.x + p.y * p.y + (p.z - s) * (p.z - s) ≤ r * r

/-- solid cylinder in its own frame: axis z, `|z| ≤ l/2`, `x² + y² ≤ r²` -/
def cylinderLocalSet (r l : ℝ) : V → Prop := fun p =>
  p.x * p.x + p.y * p.y ≤ r * r ∧ -(l / 2) ≤ p.z ∧ p.z ≤ l / 2

/-- solid cone in its own frame: base disk of radius `r` at `z = 0`, apex `(0,0,h)`; the
cross-section at height `z` has radius `r (h − z)/h` (written without the division) -/
def coneLocalSet (r h : ℝ) : V → Prop := fun p =>
  0 ≤ p.z ∧ p.z ≤ h ∧ h * h * (p.x * p.x + p.y * p.y) ≤ r * r * ((h - p.z) * (h - p.z))

/-- solid ellipsoid in its own frame -/
def ellipsoidLocalSet (radii : V) : V → Prop := fun p =>
  (p.x / radii.x) * (p.x / radii.x) + (p.y / radii.y) * (p.y / radii.y)
    + (p.z / radii.z) * (p.z / radii.z) ≤ 1

/-- solid box in its own frame, half lengths `half` -/
def boxLocalSet (half : V) : V → Prop := fun p =>
  (-half.x ≤ p.x ∧ p.x ≤ half.x) ∧ (-half.y ≤ p.y ∧ p.y ≤ half.y) ∧ (-half.z ≤ p.z ∧ p.z ≤ half.z)

/-- flat disk: in the plane through `c` orthogonal to `n`, within `r` of `c` -/
def diskSet (c : V) (r : ℝ) (n : V) : V → Prop := fun p =>
  V3.dot (p - c) n = 0 ∧ V3.normSq (p - c) ≤ r * r

/-- flat ellipse spanned by the axes `a0, a1` with radii `r0, r1` around `c` -/
def ellipseSet (c a0 a1 : V) (r0 r1 : ℝ) : V → Prop := fun p =>
  ∃ a b : ℝ, (a / r0) * (a / r0) + (b / r1) * (b / r1) ≤ 1 ∧ p = c + (a * a0 + b * a1)

/-- convex hull of a vertex list: generated from the vertices by taking segments -/
inductive hullSet (vs : List V) : V → Prop
  | vertex {v : V} : v ∈ vs → hullSet vs v
  | segment {a b : V} {t : ℝ} : hullSet vs a → hullSet vs b → 0 ≤ t → t ≤ 1 →
      hullSet vs ((1 - t) * a + t * b)

/-- Minkowski sum of `K` with the closed ball of radius `m` -/
def marginSet (K : V → Prop) (m : ℝ) : V → Prop := fun p =>
  ∃ x u : V, K x ∧ V3.normSq u ≤ m * m ∧ p = x + u

/-! ### model vocabulary at ℝ -/

theorem isZero_iff (x : ℝ) : isZero x ↔ x = 0 := by
  unfold isZero; constructor
  · rintro ⟨a, b⟩; linarith
  · rintro rfl; exact ⟨le_refl _, le_refl _⟩

theorem half_real : (0.5 : ℝ) = 1 / 2 := by norm_num

theorem transformPoint_eq (A : Pose ℝ) (p : V) : transformPoint A p = A.apply p := by
  unfold transformPoint Pose.apply
  apply V3.ext' <;> simp [add_comm]

theorem V3.smul_def (s : ℝ) (a : V) : s * a = ⟨s * a.x, s * a.y, s * a.z⟩ := rfl
theorem V3.add_def (a b : V) : a + b = ⟨a.x + b.x, a.y + b.y, a.z + b.z⟩ := rfl
theorem V3.sub_def (a b : V) : a - b = ⟨a.x - b.x, a.y - b.y, a.z - b.z⟩ := rfl

/-! ### Cauchy–Schwarz in the forms used below -/

theorem le_of_sq_le_sq' {a b : ℝ} (hb : 0 ≤ b) (h : a * a ≤ b * b) : a ≤ b := by
  by_contra hc
  have hc := not_le.mp hc
  nlinarith [mul_pos (lt_of_le_of_lt hb hc) (lt_of_le_of_lt hb hc)]

/-- planar: `a x + b y ≤ n ρ` when `n = |(a,b)|` and `|(x,y)| ≤ ρ` -/
theorem cs2 {a b x y n ρ : ℝ} (hn : 0 ≤ n) (hnn : n * n = a * a + b * b) (hρ : 0 ≤ ρ)
    (h : x * x + y * y ≤ ρ * ρ) : a * x + b * y ≤ n * ρ := by
  apply le_of_sq_le_sq' (mul_nonneg hn hρ)
  have h1 : (a * x + b * y) * (a * x + b * y) ≤ (a * a + b * b) * (x * x + y * y) := by
    nlinarith [mul_self_nonneg (a * y - b * x)]
  have h2 : (a * a + b * b) * (x * x + y * y) ≤ (a * a + b * b) * (ρ * ρ) :=
    mul_le_mul_of_nonneg_left h (add_nonneg (mul_self_nonneg a) (mul_self_nonneg b))
  calc (a * x + b * y) * (a * x + b * y) ≤ (a * a + b * b) * (ρ * ρ) := le_trans h1 h2
    _ = n * ρ * (n * ρ) := by rw [← hnn]; ring

/-- spatial: `d·u ≤ n ρ` when `n = |d|` and `|u| ≤ ρ` -/
theorem cs3 {d u : V} {n ρ : ℝ} (hn : 0 ≤ n) (hnn : n * n = V3.normSq d) (hρ : 0 ≤ ρ)
    (h : V3.normSq u ≤ ρ * ρ) : V3.dot d u ≤ n * ρ := by
  apply le_of_sq_le_sq' (mul_nonneg hn hρ)
  have h1 := V3.dot_sq_le d u
  have h2 : V3.normSq d * V3.normSq u ≤ V3.normSq d * (ρ * ρ) :=
    mul_le_mul_of_nonneg_left h (V3.normSq_nonneg d)
  calc V3.dot d u * V3.dot d u ≤ V3.normSq d * (ρ * ρ) := le_trans h1 h2
    _ = n * ρ * (n * ρ) := by rw [← hnn]; ring

theorem sqrt_mul_self' {s : ℝ} (hs : 0 ≤ s) : Real.sqrt s * Real.sqrt s = s :=
  Real.mul_self_sqrt hs

/-- a sum of squares vanishes only if every term does -/
theorem sq2_eq_zero {a b : ℝ} (h : a * a + b * b = 0) : a = 0 ∧ b = 0 := by
  constructor <;> nlinarith [mul_self_nonneg a, mul_self_nonneg b]

theorem sq3_eq_zero {a b c : ℝ} (h : a * a + b * b + c * c = 0) : a = 0 ∧ b = 0 ∧ c = 0 := by
  refine ⟨?_, ?_, ?_⟩ <;> nlinarith [mul_self_nonneg a, mul_self_nonneg b, mul_self_nonneg c]

theorem sqrt_eq_zero_of_nonneg {s : ℝ} (hs : 0 ≤ s) (h : Real.sqrt s = 0) : s = 0 := by
  have := Real.mul_self_sqrt hs
  rw [h] at this; linarith

/-! ### generic consequences of `IsSupport` -/

/-- for the zero direction every point of the set is a support point -/
theorem isSupport_of_dir_zero {K : V → Prop} {d p : V} (hp : K p)
    (hd : d = ⟨0, 0, 0⟩) : IsSupport K d p := by
  refine ⟨hp, fun x _ => ?_⟩
  subst hd
  simp [V3.dot_def]

/-- lift a local result through `transformPoint` -/
theorem isSupport_transformPoint {K : V → Prop} {A : Pose ℝ} {d q : V}
    (h : IsSupport K (A.R.tmulVec d) q) :
    IsSupport (poseImage A K) d (Support.transformPoint A q) := by
  rw [transformPoint_eq]; exact h.poseImage

end Support
end D3
