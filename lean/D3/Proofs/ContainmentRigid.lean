/-
C04 — hydroelastic `RigidBody.aabb()`: (repaired code) exact per-axis range of the
world-frame vertices, hence of the whole body (hull of the vertices); invariance under
`express_in`; counterexample for the code before the repair (box in the body frame).
-/
import D3.Proofs.ContainmentBasic

set_option linter.unusedSectionVars false
set_option linter.unusedVariables false

namespace D3
namespace Containment
open Aabb (Box)

theorem transformPoint_eq (A : Pose ℝ) (v : V) : transformPoint A v = A.apply v := by
  apply V3.ext' <;>
    simp only [transformPoint, Pose.apply, M3.mulVec, V3.add_x, V3.add_y, V3.add_z, V3.dot_def] <;> ring

/-- the world-frame vertices of a rigid body -/
def RigidBody.worldVertices (b : RigidBody ℝ) : List V := b.vertices.toList.map b.body2origin.apply

theorem rigidBody_aabb_eq (b : RigidBody ℝ) : b.aabb = aabbOfPoints b.worldVertices := by
  unfold RigidBody.aabb RigidBody.worldVertices
  rw [List.map_congr_left fun v _ => transformPoint_eq b.body2origin v]

/-- **RigidBody.aabb (repaired code)** : the exact range of the world-frame vertices -/
theorem rigidBodyAabb_vertices_spec (b : RigidBody ℝ) (hne : b.vertices.toList ≠ []) :
    ∃ box, b.aabb = .ok box ∧ AabbSpec box (· ∈ b.worldVertices) := by
  rw [rigidBody_aabb_eq]
  exact aabbOfPoints_spec _ (by simpa [RigidBody.worldVertices] using hne)

/-- … and therefore of the whole body (every tetrahedron lies in the hull of the vertices),
for every pose `body2origin_` -/
theorem rigidBodyAabb_body_spec (b : RigidBody ℝ) (hne : b.vertices.toList ≠ []) :
    ∃ box, b.aabb = .ok box ∧ AabbSpec box (poseImage b.body2origin (hullSet b.vertices.toList)) := by
  have h := meshAabb_spec b.body2origin b.vertices.toList hne
  obtain ⟨box, hb, hs⟩ := h
  refine ⟨box, ?_, hs⟩
  rw [rigidBody_aabb_eq]
  unfold meshAabb at hb
  rw [List.map_congr_left fun v _ => meshVertex_eq b.body2origin v] at hb
  exact hb

theorem rigidBodyAabb_empty (b : RigidBody ℝ) (h : b.vertices.toList = []) :
    b.aabb = .error .badInput := by
  unfold RigidBody.aabb
  rw [h]
  rfl

/-! ### `express_in` keeps the world-frame vertices, hence the box -/

theorem comp_apply (A B : Pose ℝ) (v : V) : (A.comp B).apply v = A.apply (B.apply v) := by
  apply V3.ext' <;>
    simp only [Pose.comp, Pose.apply, M3.mul, M3.mulVec, M3.transpose, M3.col0, M3.col1, M3.col2,
      V3.add_x, V3.add_y, V3.add_z, V3.dot_def] <;> ring

theorem inv_apply (A : Pose ℝ) (v : V) : A.inv.apply v = A.applyInv v := by
  apply V3.ext' <;>
    simp only [Pose.inv, Pose.apply, Pose.applyInv, M3.mulVec, M3.tmulVec, M3.transpose, M3.col0,
      M3.col1, M3.col2, V3.add_x, V3.add_y, V3.add_z, V3.sub_x, V3.sub_y, V3.sub_z, V3.neg_x,
      V3.neg_y, V3.neg_z, V3.dot_def] <;> ring

/-- for an orthonormal new frame, `express_in` re-expresses the vertices without moving the
body: same world-frame vertices, same `aabb()` -/
theorem expressIn_aabb (b : RigidBody ℝ) (new : Pose ℝ) (hn : Orthonormal new.R) :
    (b.expressIn new).worldVertices = b.worldVertices ∧ (b.expressIn new).aabb = b.aabb := by
  have hw : (b.expressIn new).worldVertices = b.worldVertices := by
    unfold RigidBody.worldVertices RigidBody.expressIn
    simp only [Array.toList_map, List.map_map]
    apply List.map_congr_left
    intro v _
    simp only [Function.comp]
    rw [transformPoint_eq, comp_apply, inv_apply, Pose.apply_applyInv hn]
  exact ⟨hw, by rw [rigidBody_aabb_eq, rigidBody_aabb_eq, hw]⟩

theorem updatePose_aabb (b : RigidBody ℝ) (new : Pose ℝ) :
    (b.updatePose new).aabb = aabbOfPoints (b.vertices.toList.map new.apply) := by
  rw [rigidBody_aabb_eq]; rfl

/-! ### before the repair: box of the stored vertices (body frame) -/

/-- unit tetrahedron placed at (10,0,0) by a pure translation -/
noncomputable def shiftedTet : RigidBody ℝ :=
  { body2origin := ⟨M3.one, ⟨10, 0, 0⟩⟩
    vertices := #[⟨0, 0, 0⟩, ⟨1, 0, 0⟩, ⟨0, 1, 0⟩, ⟨0, 0, 1⟩]
    tetrahedra := [(0, 1, 2, 3)] }

/-- **before the repair** `RigidBody.aabb()` returned `[0,1]³` for `shiftedTet`, although its
world-frame vertex `(10,0,0)` (and every other one) has x ≥ 10; the repaired function returns
x-bounds `[10, 11]`. -/
theorem rigidBodyAabb_asIs_before_fix_counterexample :
    shiftedTet.aabb_asIs_before_fix = .ok ⟨0, 1, 0, 1, 0, 1⟩ ∧
    (⟨10, 0, 0⟩ : V) ∈ shiftedTet.worldVertices ∧
    ¬ Encloses ⟨0, 1, 0, 1, 0, 1⟩ (· ∈ shiftedTet.worldVertices) ∧
    shiftedTet.aabb = .ok ⟨10, 11, 0, 1, 0, 1⟩ := by
  have hv : shiftedTet.worldVertices = [⟨10, 0, 0⟩, ⟨11, 0, 0⟩, ⟨10, 1, 0⟩, ⟨10, 0, 1⟩] := by
    simp only [RigidBody.worldVertices, shiftedTet, List.map_cons, List.map_nil, Pose.apply, M3.mulVec,
      M3.one, V3.dot_def]
    congr 1 <;> [skip; congr 1 <;> [skip; congr 1 <;> [skip; congr 1]]] <;>
      (apply V3.ext' <;> norm_num)
  have hmem : (⟨10, 0, 0⟩ : V) ∈ shiftedTet.worldVertices := by rw [hv]; simp
  refine ⟨?_, hmem, ?_, ?_⟩
  · have ht : tetBox ([⟨0, 0, 0⟩, ⟨1, 0, 0⟩, ⟨0, 1, 0⟩, ⟨0, 0, 1⟩] : List V)
        = .ok ⟨0, 1, 0, 1, 0, 1⟩ := by
      simp only [tetBox, aabbOfPoints, List.foldl_cons, List.foldl_nil, vmin, vmax, mkBox]
      norm_num
    have hp : tetPoints shiftedTet.vertices (0, 1, 2, 3)
        = .ok [⟨0, 0, 0⟩, ⟨1, 0, 0⟩, ⟨0, 1, 0⟩, ⟨0, 0, 1⟩] := by
      simp [tetPoints, getVertex, shiftedTet, bind, Except.bind, pure, Except.pure]
    have hm : shiftedTet.tetrahedra = [(0, 1, 2, 3)] := rfl
    simp only [RigidBody.aabb_asIs_before_fix, hm, List.mapM_cons, List.mapM_nil, hp, ht, rootBox, bind,
      Except.bind, pure, Except.pure, List.foldl_nil]
  · intro he
    have := (he _ hmem).2.1
    norm_num at this
  · rw [rigidBody_aabb_eq, hv]
    simp only [aabbOfPoints, List.foldl_cons, List.foldl_nil, vmin, vmax, mkBox]
    norm_num

end Containment
end D3
