/-
C03 — mesh hill climbing (`hill_climb_mesh_extreme`, `MeshHillClimbingSupportFunction`):
termination with fuel = number of vertices, local optimality for every start index, global
optimality under `Unimodal`, the KeyError precondition, history independence.
-/
import D3.Proofs.SupportHull
import Mathlib.Data.Finset.Card
import Mathlib.Order.Interval.Finset.Nat

namespace D3
namespace Support

/-- projection `d · vertices[i]` (0 outside the array; never used there) -/
noncomputable def proj (d : V) (vs : Array V) (i : Nat) : ℝ :=
  match vs[i]? with
  | some v => V3.dot d v
  | none => 0

theorem proj_eq {d : V} {vs : Array V} {i : Nat} (h : i < vs.size) : proj d vs i = V3.dot d vs[i] := by
  unfold proj; rw [Array.getElem?_eq_getElem h]

theorem projLen_eq {d : V} {vs : Array V} {c b : Nat} (hc : c < vs.size) (hb : b < vs.size) :
    projLen d vs c b = .ok (proj d vs c - proj d vs b) := by
  unfold projLen
  rw [Array.getElem?_eq_getElem hc, Array.getElem?_eq_getElem hb, proj_eq hc, proj_eq hb]
  simp only [V3.dot_def, V3.sub_x, V3.sub_y, V3.sub_z]
  congr 1; ring

/-! ### one `for` loop -/

theorem climbFold_spec (τ : ℝ) (hτ : 0 ≤ τ) (d : V) (vs : Array V) :
    ∀ (cs : List Nat) (b : Nat) (mv : Bool), (∀ c ∈ cs, c < vs.size) → b < vs.size →
      ∃ b' mv', climbFold τ d vs cs (b, mv) = .ok (b', mv') ∧ (b' = b ∨ b' ∈ cs) ∧
        proj d vs b ≤ proj d vs b' ∧
        (mv' = false → mv = false ∧ b' = b ∧ ∀ c ∈ cs, proj d vs c - proj d vs b ≤ τ) ∧
        (mv' = true → mv = true ∨ proj d vs b + τ < proj d vs b') := by
  intro cs
  induction cs with
  | nil =>
    intro b mv _ _
    refine ⟨b, mv, rfl, Or.inl rfl, le_refl _, ?_, ?_⟩
    · intro h; exact ⟨h, rfl, by simp⟩
    · intro h; exact Or.inl h
  | cons c cs ih =>
    intro b mv hcs hb
    have hc : c < vs.size := hcs c List.mem_cons_self
    have hcs' : ∀ c ∈ cs, c < vs.size := fun x hx => hcs x (List.mem_cons_of_mem _ hx)
    simp only [climbFold]
    rw [projLen_eq hc hb]
    dsimp only
    split_ifs with hlt
    · obtain ⟨b', mv', heq, hmem, hle, hc', hd'⟩ := ih c true hcs' hc
      refine ⟨b', mv', heq, ?_, by linarith, ?_, ?_⟩
      · rcases hmem with h | h
        · exact Or.inr (h ▸ List.mem_cons_self)
        · exact Or.inr (List.mem_cons_of_mem _ h)
      · intro h; exact absurd (hc' h).1 (by simp)
      · intro _; exact Or.inr (by linarith)
    · obtain ⟨b', mv', heq, hmem, hle, hc', hd'⟩ := ih b mv hcs' hb
      refine ⟨b', mv', heq, ?_, hle, ?_, hd'⟩
      · rcases hmem with h | h
        · exact Or.inl h
        · exact Or.inr (List.mem_cons_of_mem _ h)
      · intro h
        obtain ⟨h1, h2, h3⟩ := hc' h
        refine ⟨h1, h2, ?_⟩
        intro x hx
        rcases List.mem_cons.mp hx with rfl | hx
        · exact not_lt.mp hlt
        · exact h3 x hx

/-! ### well-formed mesh data -/

/-- `i` is a vertex index with an entry in `connections` -/
def Valid (m : MeshData ℝ) (i : Nat) : Prop :=
  i < m.verts.size ∧ ∃ l, connLookup m.conn i = .ok l

/-- the precondition under which hill climbing raises neither KeyError nor IndexError:
shortcut vertices and listed neighbours are vertex indices that occur in a triangle -/
structure MeshWF (m : MeshData ℝ) : Prop where
  shortcuts : ∀ s ∈ m.shortcuts, Valid m s
  nbrs : ∀ k l, connLookup m.conn k = .ok l → ∀ c ∈ l, Valid m c

theorem connLookup_ok {conn : List (Nat × List Nat)} {i : Nat} {l : List Nat} :
    connLookup conn i = .ok l ↔ conn.lookup i = some l := by
  unfold connLookup
  cases h : conn.lookup i <;> simp

theorem lookup_mem {conn : List (Nat × List Nat)} {i : Nat} {l : List Nat}
    (h : conn.lookup i = some l) : (i, l) ∈ conn := by
  induction conn with
  | nil => simp [List.lookup] at h
  | cons e conn ih =>
    obtain ⟨k, v⟩ := e
    simp only [List.lookup] at h
    by_cases hk : i = k
    · subst hk
      simp at h
      subst h
      exact List.mem_cons_self
    · have : (i == k) = false := by simpa using hk
      rw [this] at h
      exact List.mem_cons_of_mem _ (ih h)

/-- soundness of the decidable check the driver runs on every mesh -/
theorem wfCheck_sound (m : MeshData ℝ) (h : m.wfCheck = true) : MeshWF m := by
  unfold MeshData.wfCheck at h
  simp only [Bool.and_eq_true, List.all_eq_true, decide_eq_true_eq] at h
  obtain ⟨h1, h2⟩ := h
  have key : ∀ i, i < m.verts.size ∧ (m.conn.lookup i).isSome = true → Valid m i := by
    rintro i ⟨hi, hk⟩
    obtain ⟨l, hl⟩ := Option.isSome_iff_exists.mp hk
    exact ⟨hi, l, connLookup_ok.mpr hl⟩
  constructor
  · intro s hs; exact key s (h1 s hs)
  · intro k l hl c hc
    have := h2 (k, l) (lookup_mem (connLookup_ok.mp hl))
    exact key c (this.2 c hc)

/-! ### the `while` loop: termination and local optimality -/

/-- no neighbour of `r` is better than `r` by more than the threshold -/
def LocalOpt (τ : ℝ) (d : V) (m : MeshData ℝ) (r : Nat) : Prop :=
  ∀ l, connLookup m.conn r = .ok l → ∀ c ∈ l, proj d m.verts c - proj d m.verts r ≤ τ

/-- number of vertices strictly better than `b`: decreases with every move -/
noncomputable def mu (d : V) (vs : Array V) (b : Nat) : Nat :=
  ((Finset.range vs.size).filter (fun i => proj d vs b < proj d vs i)).card

theorem mu_lt {d : V} {vs : Array V} {b b' : Nat} (hb' : b' < vs.size)
    (h : proj d vs b < proj d vs b') : mu d vs b' < mu d vs b := by
  unfold mu
  apply Finset.card_lt_card
  rw [Finset.ssubset_iff_of_subset]
  · refine ⟨b', ?_, ?_⟩
    · simp only [Finset.mem_filter, Finset.mem_range]; exact ⟨hb', h⟩
    · simp only [Finset.mem_filter, Finset.mem_range, lt_self_iff_false, and_false, not_false_eq_true]
  · intro i hi
    simp only [Finset.mem_filter, Finset.mem_range] at hi ⊢
    exact ⟨hi.1, lt_trans h hi.2⟩

theorem mu_lt_size {d : V} {vs : Array V} {b : Nat} (hb : b < vs.size) : mu d vs b < vs.size := by
  unfold mu
  have : ((Finset.range vs.size).filter (fun i => proj d vs b < proj d vs i)) ⊂ Finset.range vs.size := by
    rw [Finset.ssubset_iff_of_subset (Finset.filter_subset _ _)]
    exact ⟨b, Finset.mem_range.mpr hb, by simp⟩
  simpa using Finset.card_lt_card this

theorem hillLoop_spec (τ : ℝ) (hτ : 0 ≤ τ) (d : V) (m : MeshData ℝ) (hwf : MeshWF m) :
    ∀ (fuel b passes : Nat), Valid m b → mu d m.verts b < fuel →
      ∃ r k, hillLoop τ d m fuel b passes = .ok (r, k) ∧ Valid m r ∧ LocalOpt τ d m r ∧
        proj d m.verts b ≤ proj d m.verts r := by
  intro fuel
  induction fuel with
  | zero => intro b _ _ h; exact absurd h (Nat.not_lt_zero _)
  | succ fuel ih =>
    intro b passes hv hmu
    obtain ⟨hb, l, hl⟩ := hv
    have hnb := hwf.nbrs b l hl
    obtain ⟨b', mv', heq, hmem, hle, hc', hd'⟩ :=
      climbFold_spec τ hτ d m.verts l b false (fun c hc => (hnb c hc).1) hb
    simp only [hillLoop]
    rw [hl]
    dsimp only
    rw [heq]
    dsimp only
    cases mv' with
    | true =>
      have hlt : proj d m.verts b < proj d m.verts b' := by
        rcases hd' rfl with h | h
        · exact absurd h (by simp)
        · linarith
      have hvb' : Valid m b' := by
        rcases hmem with h | h
        · rw [h]; exact ⟨hb, l, hl⟩
        · exact hnb b' h
      have hmu' : mu d m.verts b' < fuel :=
        lt_of_lt_of_le (mu_lt hvb'.1 hlt) (Nat.lt_succ_iff.mp hmu)
      obtain ⟨r, k, h1, h2, h3, h4⟩ := ih b' (passes + 1) hvb' hmu'
      exact ⟨r, k, by simpa using h1, h2, h3, le_trans hle h4⟩
    | false =>
      obtain ⟨_, hbb, hopt⟩ := hc' rfl
      refine ⟨b', passes + 1, by simp, ?_, ?_, hle⟩
      · rw [hbb]; exact ⟨hb, l, hl⟩
      · intro l' hl' c hc
        rw [hbb] at hl' ⊢
        rw [hl] at hl'
        cases hl'
        exact hopt c hc

/-- **termination + local optimality** of `hill_climb_mesh_extreme` for every start index:
with fuel = number of vertices the loop never runs out of fuel, raises no KeyError/IndexError on
well-formed data, and the result has no neighbour better by more than the threshold -/
theorem hillClimbT_spec (τ : ℝ) (hτ : 0 ≤ τ) (d : V) (m : MeshData ℝ) (hwf : MeshWF m)
    (start : Nat) (hs : Valid m start) :
    ∃ r br, hillClimbT τ d start m = .ok (r, br) ∧ Valid m r ∧ LocalOpt τ d m r ∧
      proj d m.verts start ≤ proj d m.verts r := by
  obtain ⟨b0, sc, heq, hmem, hle, _, _⟩ :=
    climbFold_spec τ hτ d m.verts m.shortcuts start false (fun c hc => (hwf.shortcuts c hc).1) hs.1
  have hv0 : Valid m b0 := by
    rcases hmem with h | h
    · rw [h]; exact hs
    · exact hwf.shortcuts b0 h
  obtain ⟨r, k, h1, h2, h3, h4⟩ :=
    hillLoop_spec τ hτ d m hwf m.verts.size b0 0 hv0 (mu_lt_size hv0.1)
  unfold hillClimbT
  rw [heq]
  dsimp only
  rw [h1]
  exact ⟨r, _, rfl, h2, h3, le_trans hle h4⟩

theorem eps_nonneg : (0 : ℝ) ≤ (Gen.mesh__PROJECTION_LENGTH_EPSILON : ℝ) := by
  unfold Gen.mesh__PROJECTION_LENGTH_EPSILON; norm_num

/-! ### global optimality under unimodality -/

/-- every vertex that is more than `τ'` below the best vertex has a neighbour that is better
by more than the threshold `τ` (true for convex meshes with a suitable `τ'`; decidable for a
given mesh and direction, checked by the harness on its meshes) -/
def Unimodal (τ τ' : ℝ) (d : V) (m : MeshData ℝ) : Prop :=
  ∀ b, Valid m b → (∃ i, i < m.verts.size ∧ proj d m.verts b + τ' < proj d m.verts i) →
    ∃ l c, connLookup m.conn b = .ok l ∧ c ∈ l ∧ τ < proj d m.verts c - proj d m.verts b

theorem localOpt_global {τ τ' : ℝ} {d : V} {m : MeshData ℝ} (hu : Unimodal τ τ' d m) {r : Nat}
    (hv : Valid m r) (ho : LocalOpt τ d m r) :
    ∀ i, i < m.verts.size → proj d m.verts i ≤ proj d m.verts r + τ' := by
  intro i hi
  by_contra hc
  obtain ⟨l, c, hl, hcl, hlt⟩ := hu r hv ⟨i, hi, not_le.mp hc⟩
  exact absurd (ho l hl c hcl) (not_le.mpr hlt)

theorem proj_eq_projAt (d : V) (vs : Array V) (i : Nat) : proj d vs i = projAt d vs i := by
  unfold proj projAt; cases vs[i]? <;> rfl

/-- soundness of the decidable check the driver evaluates (exactly, at `Rat`, on lattice meshes) -/
theorem unimodalCheck_sound (τ τ' : ℝ) (d : V) (m : MeshData ℝ)
    (h : unimodalCheck τ τ' d m = true) : Unimodal τ τ' d m := by
  intro b hv hex
  obtain ⟨hb, l, hl⟩ := hv
  have hl' := connLookup_ok.mp hl
  unfold unimodalCheck at h
  simp only [List.all_eq_true, List.mem_range] at h
  have hb' := h b hb
  rw [hl'] at hb'
  simp only [Bool.or_eq_true, Bool.not_eq_true', List.any_eq_false, List.any_eq_true, List.mem_range,
    decide_eq_true_eq] at hb'
  rcases hb' with h1 | h2
  · obtain ⟨i, hi, hlt⟩ := hex
    exact absurd (by simpa [proj_eq_projAt] using hlt) (by simpa using h1 i hi)
  · obtain ⟨c, hc, hlt⟩ := h2
    exact ⟨l, c, hl, hc, by simpa [proj_eq_projAt] using hlt⟩

/-! ### KeyError -/

/-- the exact failure: if the vertex selected by the shortcut loop occurs in no triangle (has no
entry in `connections`) the call raises `KeyError` (as does the implementation) -/
theorem hillClimb_keyError (τ : ℝ) (d : V) (m : MeshData ℝ) (start b0 : Nat) (sc : Bool)
    (hsc : climbFold τ d m.verts m.shortcuts (start, false) = .ok (b0, sc))
    (hkey : m.conn.lookup b0 = none) (hn : 0 < m.verts.size) :
    hillClimbT τ d start m = .error .keyError := by
  unfold hillClimbT
  rw [hsc]
  dsimp only
  obtain ⟨n, hn'⟩ := Nat.exists_eq_succ_of_ne_zero (Nat.pos_iff_ne_zero.mp hn)
  rw [hn']
  simp only [hillLoop, connLookup, hkey]

/-! ### the stateful collider: every history -/

/-- points of a posed mesh collider: pose image of the convex hull of its vertices -/
def meshSet (A : Pose ℝ) (m : MeshData ℝ) : V → Prop := poseImage A (hullSet m.verts.toList)

theorem getElem_mem_toList {vs : Array V} {i : Nat} (h : i < vs.size) : vs[i] ∈ vs.toList := by
  simp

theorem hull_le_proj {d : V} {vs : Array V} {M : ℝ} (h : ∀ i, i < vs.size → proj d vs i ≤ M) :
    ∀ x, hullSet vs.toList x → V3.dot d x ≤ M := by
  apply hull_le
  intro v hv
  obtain ⟨i, hi, rfl⟩ := List.mem_iff_getElem.mp hv
  have hi' : i < vs.size := by simpa using hi
  have := h i hi'
  rw [proj_eq hi'] at this
  simpa using this

theorem dot_apply (A : Pose ℝ) (d q : V) :
    V3.dot d (A.apply q) = V3.dot d A.t + V3.dot (A.R.tmulVec d) q := by
  simp only [Pose.apply, V3.dot_def, V3.add_x, V3.add_y, V3.add_z, M3.mulVec, M3.tmulVec, M3.col0,
    M3.col1, M3.col2]
  ring

/-- one call of `MeshHillClimbingSupportFunction.__call__` from any valid cached index:
succeeds, returns a vertex of the mesh (posed), caches a valid index, the vertex is locally
optimal, and under `Unimodal` it is within `τ'` of the maximum over the whole posed hull -/
theorem meshCall_spec (A : Pose ℝ) (m : MeshData ℝ) (hwf : MeshWF m) (fi : Nat) (hv : Valid m fi)
    (d : V) :
    ∃ idx p br, meshCall A m fi d = .ok (idx, p, br) ∧ Valid m idx ∧ meshSet A m p ∧
      LocalOpt (Gen.mesh__PROJECTION_LENGTH_EPSILON : ℝ) (A.R.tmulVec d) m idx ∧
      ∀ τ', Unimodal (Gen.mesh__PROJECTION_LENGTH_EPSILON : ℝ) τ' (A.R.tmulVec d) m →
        ∀ x, meshSet A m x → V3.dot d x ≤ V3.dot d p + τ' := by
  obtain ⟨r, br, h1, h2, h3, _⟩ :=
    hillClimbT_spec (Gen.mesh__PROJECTION_LENGTH_EPSILON : ℝ) eps_nonneg (A.R.tmulVec d) m hwf fi hv
  have hr : r < m.verts.size := h2.1
  refine ⟨r, transformPoint A m.verts[r], br, ?_, h2, ?_, h3, ?_⟩
  · unfold meshCall hillClimb
    rw [h1]
    dsimp only
    rw [Array.getElem?_eq_getElem h2.1]
  · exact ⟨_, hullSet.vertex (getElem_mem_toList h2.1), transformPoint_eq A _⟩
  · intro τ' hu x hx
    obtain ⟨q, hq, rfl⟩ := hx
    have hg := localOpt_global hu h2 h3
    have := hull_le_proj hg q hq
    rw [transformPoint_eq, dot_apply, dot_apply, ← proj_eq h2.1]
    linarith

/-- **history independence**: the same direction asked after two different histories (i.e. from
two different valid cached indices) gives support values that differ by at most `τ'` -/
theorem mesh_history_independent (A : Pose ℝ) (m : MeshData ℝ) (hwf : MeshWF m) (fi fi' : Nat)
    (hv : Valid m fi) (hv' : Valid m fi') (d : V) (τ' : ℝ)
    (hu : Unimodal (Gen.mesh__PROJECTION_LENGTH_EPSILON : ℝ) τ' (A.R.tmulVec d) m) :
    ∃ idx p br idx' p' br', meshCall A m fi d = .ok (idx, p, br) ∧
      meshCall A m fi' d = .ok (idx', p', br') ∧
      V3.dot d p ≤ V3.dot d p' + τ' ∧ V3.dot d p' ≤ V3.dot d p + τ' := by
  obtain ⟨idx, p, br, h1, _, hp, _, hg⟩ := meshCall_spec A m hwf fi hv d
  obtain ⟨idx', p', br', h1', _, hp', _, hg'⟩ := meshCall_spec A m hwf fi' hv' d
  exact ⟨idx, p, br, idx', p', br', h1, h1', hg' τ' hu p hp, hg τ' hu p' hp'⟩

/-- **every history**: on a well-formed mesh collider every query of every sequence of queries
succeeds and returns a point of the collider; each answer is within `τ'` of the true maximum
whenever the mesh is unimodal for that direction — whatever was asked before -/
theorem mesh_history (A : Pose ℝ) (m : MeshData ℝ) (hwf : MeshWF m) (τ' : ℝ) :
    ∀ (ds : List V) (fi : Nat), Valid m fi →
      List.Forall₂ (fun d r => ∃ br p, r = Except.ok (br, p) ∧ meshSet A m p ∧
        (Unimodal (Gen.mesh__PROJECTION_LENGTH_EPSILON : ℝ) τ' (A.R.tmulVec d) m →
          ∀ x, meshSet A m x → V3.dot d x ≤ V3.dot d p + τ'))
        ds (Collider.history (.mesh A m fi) ds) := by
  intro ds
  induction ds with
  | nil => intro fi _; simp [Collider.history]
  | cons d ds ih =>
    intro fi hv
    obtain ⟨idx, p, br, h1, h2, hp, _, hg⟩ := meshCall_spec A m hwf fi hv d
    simp only [Collider.history, Collider.support]
    rw [h1]
    dsimp only
    exact List.Forall₂.cons ⟨br, p, rfl, hp, hg τ'⟩ (ih idx h2)

end Support
end D3
