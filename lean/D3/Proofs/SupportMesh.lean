/-
C03 — mesh hill climbing (`hill_climb_mesh_extreme`, `MeshHillClimbingSupportFunction`), code
after repair e900ae9 (one computed projection per vertex, `projection - best_projection > eps`):

* termination in ANY arithmetic (`hillClimbF_terminates_anyArith`): for every scalar type and
  every instance of `+ - * <` whatsoever, if the acceptance test is contained in a strict order
  on vertex indices the climb accepts at most #vertices − 1 moves and never hits its fuel;
  instances: any `<` that is irreflexive and transitive with `τ < a - b → b < a`
  (`hillClimbF_terminates_strictOrder`, what IEEE arithmetic gives, NaN included), ℝ;
* at ℝ: local optimality for every start index, global optimality under `Unimodal`, the
  KeyError precondition, history independence.
The defect of the code before the repair is documented in D3/Proofs/SupportMeshCycle.lean.
-/
import D3.Proofs.SupportHull
import Mathlib.Data.Finset.Card
import Mathlib.Order.Interval.Finset.Nat

set_option linter.unusedSectionVars false

namespace D3
namespace Support

/-! ### well-formed mesh data (combinatorial; independent of the scalar type) -/

/-- `i` is a vertex index with an entry in `connections` -/
def Valid {α : Type} (m : MeshData α) (i : Nat) : Prop :=
  i < m.verts.size ∧ ∃ l, connLookup m.conn i = .ok l

/-- the precondition under which hill climbing raises neither KeyError nor IndexError:
shortcut vertices and listed neighbours are vertex indices that occur in a triangle -/
structure MeshWF {α : Type} (m : MeshData α) : Prop where
  shortcuts : ∀ s ∈ m.shortcuts, Valid m s
  nbrs : ∀ k l, connLookup m.conn k = .ok l → ∀ c ∈ l, Valid m c

theorem connLookup_ok {conn : List (Nat × List Nat)} {i : Nat} {l : List Nat} :
    connLookup conn i = .ok l ↔ conn.lookup i = some l := by
  unfold connLookup
  cases h : conn.lookup i <;> simp

theorem lookup_mem {conn : List (Nat × List Nat)} {i : Nat} {l : List Nat}
    (h : conn.lookup i = some l) : (i, l) ∈ conn := by
  induction conn with
  | nil => simp [List.lookup] at h
  | cons e conn ih =>
    obtain ⟨k, v⟩ := e
    simp only [List.lookup] at h
    by_cases hk : i = k
    · subst hk
      simp at h
      subst h
      exact List.mem_cons_self
    · have : (i == k) = false := by simpa using hk
      rw [this] at h
      exact List.mem_cons_of_mem _ (ih h)

/-! ### termination in any arithmetic -/

section AnyArith
scalar_variables

/-- soundness of the decidable check the driver runs on every mesh (any scalar type) -/
theorem wfCheck_sound (m : MeshData α) (h : m.wfCheck = true) : MeshWF m := by
  unfold MeshData.wfCheck at h
  simp only [Bool.and_eq_true, List.all_eq_true, decide_eq_true_eq] at h
  obtain ⟨h1, h2⟩ := h
  have key : ∀ i, i < m.verts.size ∧ (m.conn.lookup i).isSome = true → Valid m i := by
    rintro i ⟨hi, hk⟩
    obtain ⟨l, hl⟩ := Option.isSome_iff_exists.mp hk
    exact ⟨hi, l, connLookup_ok.mpr hl⟩
  constructor
  · intro s hs; exact key s (h1 s hs)
  · intro k l hl c hc
    have := h2 (k, l) (lookup_mem (connLookup_ok.mp hl))
    exact key c (this.2 c hc)

theorem vertexProj_eq {d : V3 α} {vs : Array (V3 α)} {c : Nat} (hc : c < vs.size) :
    vertexProj d vs c = .ok (projAt d vs c) := by
  unfold vertexProj projAt
  rw [Array.getElem?_eq_getElem hc]

/-- a strict order on vertex indices that contains the acceptance test of the climb:
whenever candidate `c` is accepted over the current best `b` (`τ < proj c - proj b`, with the
ONE computed projection of each vertex), `b ≺ c`. This is the only thing termination needs;
nothing is assumed about `+`, `*`, `-` or `<` themselves. -/
structure AcceptOrder (τ : α) (d : V3 α) (vs : Array (V3 α)) (R : Nat → Nat → Prop) : Prop where
  irrefl : ∀ i, ¬ R i i
  trans : ∀ i j k, R i j → R j k → R i k
  accept : ∀ b c, b < vs.size → c < vs.size → τ < projAt d vs c - projAt d vs b → R b c

open Classical in
/-- number of vertices strictly above `b` in the order: decreases with every accepted move -/
noncomputable def muR (R : Nat → Nat → Prop) (n b : Nat) : Nat :=
  ((Finset.range n).filter (fun i => R b i)).card

open Classical in
theorem muR_lt {R : Nat → Nat → Prop} (hirr : ∀ i, ¬ R i i) (htr : ∀ i j k, R i j → R j k → R i k)
    {n b b' : Nat} (hb' : b' < n) (h : R b b') : muR R n b' < muR R n b := by
  unfold muR
  apply Finset.card_lt_card
  rw [Finset.ssubset_iff_of_subset]
  · refine ⟨b', ?_, ?_⟩
    · simp only [Finset.mem_filter, Finset.mem_range]; exact ⟨hb', h⟩
    · simp only [Finset.mem_filter, Finset.mem_range, not_and]; intro _; exact hirr b'
  · intro i hi
    simp only [Finset.mem_filter, Finset.mem_range] at hi ⊢
    exact ⟨hi.1, htr _ _ _ h hi.2⟩

open Classical in
theorem muR_lt_size {R : Nat → Nat → Prop} (hirr : ∀ i, ¬ R i i) {n b : Nat} (hb : b < n) :
    muR R n b < n := by
  unfold muR
  have : ((Finset.range n).filter (fun i => R b i)) ⊂ Finset.range n := by
    rw [Finset.ssubset_iff_of_subset (Finset.filter_subset _ _)]
    exact ⟨b, Finset.mem_range.mpr hb, by simp [hirr b]⟩
  simpa using Finset.card_lt_card this

/-- loop invariant: `best_idx` is a vertex index and `best_projection` is its computed projection -/
def StInv (d : V3 α) (vs : Array (V3 α)) (st : ClimbSt α) : Prop :=
  st.best < vs.size ∧ st.bestProj = projAt d vs st.best

/-- one `for` loop, any arithmetic: succeeds on in-range candidates, keeps the invariant, the
potential `moves + #(vertices above best)` does not increase, and the `moved` flag means what it
says (not moved: nothing changed and no candidate passed the test; moved: strictly up in the
order) -/
theorem climbFold_any (τ : α) (d : V3 α) (vs : Array (V3 α)) (R : Nat → Nat → Prop)
    (hR : AcceptOrder τ d vs R) :
    ∀ (cs : List Nat) (st : ClimbSt α), (∀ c ∈ cs, c < vs.size) → StInv d vs st →
      ∃ st', climbFold τ d vs cs st = .ok st' ∧ StInv d vs st' ∧
        (st'.best = st.best ∨ st'.best ∈ cs) ∧
        (st'.best = st.best ∨ R st.best st'.best) ∧
        st'.moves + muR R vs.size st'.best ≤ st.moves + muR R vs.size st.best ∧
        st.moves ≤ st'.moves ∧
        (st'.moved = false → st.moved = false ∧ st' = st ∧
          ∀ c ∈ cs, ¬ (τ < projAt d vs c - st.bestProj)) ∧
        (st'.moved = true → st.moved = true ∨ (R st.best st'.best ∧ st.moves + 1 ≤ st'.moves)) := by
  intro cs
  induction cs with
  | nil =>
    intro st _ hinv
    refine ⟨st, rfl, hinv, Or.inl rfl, Or.inl rfl, le_refl _, le_refl _, ?_, ?_⟩
    · intro h; exact ⟨h, rfl, by simp⟩
    · intro h; exact Or.inl h
  | cons c cs ih =>
    intro st hcs hinv
    have hc : c < vs.size := hcs c List.mem_cons_self
    have hcs' : ∀ c ∈ cs, c < vs.size := fun x hx => hcs x (List.mem_cons_of_mem _ hx)
    simp only [climbFold]
    rw [vertexProj_eq hc]
    dsimp only
    split_ifs with hlt
    · have hRc : R st.best c := by
        have := hlt
        rw [hinv.2] at this
        exact hR.accept st.best c hinv.1 hc this
      obtain ⟨st', heq, hinv', hmem, hrt, hpot, hmv, hc', hd'⟩ :=
        ih ⟨c, projAt d vs c, true, st.moves + 1⟩ hcs' ⟨hc, rfl⟩
      have hR' : R st.best st'.best := by
        rcases hrt with h | h
        · rw [h]; exact hRc
        · exact hR.trans _ _ _ hRc h
      have hmu := muR_lt hR.irrefl hR.trans hc hRc
      refine ⟨st', heq, hinv', ?_, Or.inr hR', ?_, ?_, ?_, ?_⟩
      · rcases hmem with h | h
        · exact Or.inr (by rw [h]; exact List.mem_cons_self)
        · exact Or.inr (List.mem_cons_of_mem _ h)
      · simp only at hpot; omega
      · simp only at hmv; omega
      · intro h; exact absurd (hc' h).1 (by simp)
      · intro _; exact Or.inr ⟨hR', by simp only at hmv; omega⟩
    · obtain ⟨st', heq, hinv', hmem, hrt, hpot, hmv, hc', hd'⟩ := ih st hcs' hinv
      refine ⟨st', heq, hinv', ?_, hrt, hpot, hmv, ?_, hd'⟩
      · rcases hmem with h | h
        · exact Or.inl h
        · exact Or.inr (List.mem_cons_of_mem _ h)
      · intro h
        obtain ⟨h1, h2, h3⟩ := hc' h
        refine ⟨h1, h2, ?_⟩
        intro x hx
        rcases List.mem_cons.mp hx with rfl | hx
        · exact hlt
        · exact h3 x hx

/-- the `while` loop, any arithmetic: whenever the fuel exceeds the number of vertices above the
current best, the loop returns (never `fuel`, `KeyError`, `IndexError`), at a vertex none of
whose neighbours passes the acceptance test; the potential does not increase and the number of
passes is at most the number of moves made in the loop plus one -/
theorem hillLoop_any (τ : α) (d : V3 α) (m : MeshData α) (hwf : MeshWF m) (R : Nat → Nat → Prop)
    (hR : AcceptOrder τ d m.verts R) :
    ∀ (fuel : Nat) (st : ClimbSt α) (passes : Nat), StInv d m.verts st → Valid m st.best →
      muR R m.verts.size st.best < fuel →
      ∃ st' k, hillLoop τ d m fuel st passes = .ok (st', k) ∧ StInv d m.verts st' ∧
        Valid m st'.best ∧ (st'.best = st.best ∨ R st.best st'.best) ∧
        st'.moves + muR R m.verts.size st'.best ≤ st.moves + muR R m.verts.size st.best ∧
        st.moves ≤ st'.moves ∧ k + st.moves ≤ passes + st'.moves + 1 ∧
        (∀ l, connLookup m.conn st'.best = .ok l →
          ∀ c ∈ l, ¬ (τ < projAt d m.verts c - projAt d m.verts st'.best)) := by
  intro fuel
  induction fuel with
  | zero => intro st _ _ _ h; exact absurd h (Nat.not_lt_zero _)
  | succ fuel ih =>
    intro st passes hinv hv hmu
    obtain ⟨hb, l, hl⟩ := hv
    have hnb := hwf.nbrs st.best l hl
    obtain ⟨st', heq, hinv', hmem, hrt, hpot, hmv, hc', hd'⟩ :=
      climbFold_any τ d m.verts R hR l { st with moved := false } (fun c hc => (hnb c hc).1) hinv
    simp only [hillLoop]
    rw [hl]
    dsimp only
    rw [heq]
    dsimp only
    have hvb' : Valid m st'.best := by
      rcases hmem with h | h
      · rw [h]; exact ⟨hb, l, hl⟩
      · exact hnb _ h
    cases hm : st'.moved with
    | true =>
      have hRb : R st.best st'.best ∧ st.moves + 1 ≤ st'.moves := by
        rcases hd' hm with h | h
        · exact absurd h (by simp)
        · exact h
      obtain ⟨hRb, hmv1⟩ := hRb
      have hmu' : muR R m.verts.size st'.best < fuel :=
        lt_of_lt_of_le (muR_lt hR.irrefl hR.trans hvb'.1 hRb) (Nat.lt_succ_iff.mp hmu)
      obtain ⟨r, k, h1, h2, h3, h4, h5, h6, h7, h8⟩ := ih st' (passes + 1) hinv' hvb' hmu'
      have hstrict := muR_lt hR.irrefl hR.trans hvb'.1 hRb
      simp only at hpot hmv
      refine ⟨r, k, by simpa using h1, h2, h3, ?_, by omega, by omega, by omega, h8⟩
      rcases h4 with h | h
      · rw [h]; exact Or.inr hRb
      · exact Or.inr (hR.trans _ _ _ hRb h)
    | false =>
      obtain ⟨_, hst, hopt⟩ := hc' hm
      refine ⟨st', passes + 1, by simp, hinv', hvb', hrt, hpot, hmv, by simp only at hmv; omega, ?_⟩
      intro l' hl' c hc
      have hb' : st'.best = st.best := by rw [hst]
      rw [hb'] at hl' ⊢
      rw [hl] at hl'
      cases hl'
      have := hopt c hc
      simp only at this
      rw [hinv.2] at this
      exact this

/-- **Termination of the repaired climb in ANY arithmetic.** For every scalar type `α` and every
instance of `+ - * / <` on it (no law assumed), every threshold, direction, well-formed mesh
data and valid start index: if the acceptance test `τ < proj c - proj b` on the ONE computed
projection per vertex is contained in some strict order `R` on vertex indices, then for every
fuel ≥ #vertices the climb returns — no `fuel`, `KeyError` or `IndexError` — with at most
#vertices − 1 accepted moves (shortcut pass included), at most #vertices passes of the `while`
loop, at a valid vertex none of whose neighbours passes the acceptance test, and that vertex is
the start or above it in the order. -/
theorem hillClimbF_terminates_anyArith (τ : α) (d : V3 α) (m : MeshData α) (hwf : MeshWF m)
    (R : Nat → Nat → Prop) (hR : AcceptOrder τ d m.verts R) (start : Nat) (hs : Valid m start)
    (fuel : Nat) (hfuel : m.verts.size ≤ fuel) :
    ∃ r br moves, hillClimbF τ d start m fuel = .ok (r, br, moves) ∧ Valid m r ∧
      moves + 1 ≤ m.verts.size ∧ br ≤ 2 * m.verts.size + 1 ∧ (r = start ∨ R start r) ∧
      (∀ l, connLookup m.conn r = .ok l →
        ∀ c ∈ l, ¬ (τ < projAt d m.verts c - projAt d m.verts r)) := by
  obtain ⟨st0, heq, hinv0, hmem, hrt0, hpot0, hmv0, _, _⟩ :=
    climbFold_any τ d m.verts R hR m.shortcuts ⟨start, projAt d m.verts start, false, 0⟩
      (fun c hc => (hwf.shortcuts c hc).1) ⟨hs.1, rfl⟩
  have hv0 : Valid m st0.best := by
    rcases hmem with h | h
    · rw [h]; exact hs
    · exact hwf.shortcuts _ h
  have hmu0 := muR_lt_size (R := R) hR.irrefl hv0.1
  obtain ⟨st, k, h1, h2, h3, h4, h5, h6, h7, h8⟩ :=
    hillLoop_any τ d m hwf R hR fuel st0 0 hinv0 hv0 (lt_of_lt_of_le hmu0 hfuel)
  have hmus := muR_lt_size (R := R) hR.irrefl hs.1
  simp only at hpot0 hmv0 hrt0
  refine ⟨st.best, 2 * k + (if st0.moved then 1 else 0), st.moves, ?_, h3, by omega, ?_, ?_, h8⟩
  · unfold hillClimbF
    rw [vertexProj_eq hs.1]
    dsimp only
    rw [heq]
    dsimp only
    rw [h1]
  · have : (if st0.moved = true then 1 else 0) ≤ 1 := by split_ifs <;> omega
    omega
  · rcases hrt0 with h0 | h0
    · rcases h4 with h | h
      · exact Or.inl (by rw [h, h0])
      · exact Or.inr (by rw [h0] at h; exact h)
    · rcases h4 with h | h
      · exact Or.inr (by rw [h]; exact h0)
      · exact Or.inr (hR.trans _ _ _ h0 h)

/-- **Instance: every `<` that is a strict order on the scalars, with a subtraction that cannot
make a non-larger value look larger by more than `τ`** — the weakest honest contract of IEEE-754
arithmetic for this loop: `<` on doubles is irreflexive and transitive (NaN compares false with
everything), and for `τ ≥ 0` the correctly rounded `a - b` exceeds `τ` only if `b < a` (if `a - b`
is NaN the test is false and no move is accepted). Nothing is assumed about `+` and `*`, i.e. about
how `dot` rounds: each vertex simply has one computed projection. -/
theorem hillClimbF_terminates_strictOrder (τ : α) (d : V3 α) (m : MeshData α) (hwf : MeshWF m)
    (lt_irrefl : ∀ a : α, ¬ a < a) (lt_trans : ∀ a b c : α, a < b → b < c → a < c)
    (sub_pos : ∀ a b : α, τ < a - b → b < a)
    (start : Nat) (hs : Valid m start) (fuel : Nat) (hfuel : m.verts.size ≤ fuel) :
    ∃ r br moves, hillClimbF τ d start m fuel = .ok (r, br, moves) ∧ Valid m r ∧
      moves + 1 ≤ m.verts.size ∧ br ≤ 2 * m.verts.size + 1 ∧
      (r = start ∨ projAt d m.verts start < projAt d m.verts r) ∧
      (∀ l, connLookup m.conn r = .ok l →
        ∀ c ∈ l, ¬ (τ < projAt d m.verts c - projAt d m.verts r)) :=
  hillClimbF_terminates_anyArith τ d m hwf (fun b c => projAt d m.verts b < projAt d m.verts c)
    ⟨fun _ => lt_irrefl _, fun _ _ _ h1 h2 => lt_trans _ _ _ h1 h2, fun _ _ _ _ h => sub_pos _ _ h⟩
    start hs fuel hfuel

/-- the same for the function the colliders call (fuel = number of vertices): never `fuel` -/
theorem hillClimbT_terminates_strictOrder (τ : α) (d : V3 α) (m : MeshData α) (hwf : MeshWF m)
    (lt_irrefl : ∀ a : α, ¬ a < a) (lt_trans : ∀ a b c : α, a < b → b < c → a < c)
    (sub_pos : ∀ a b : α, τ < a - b → b < a) (start : Nat) (hs : Valid m start) :
    ∃ r br, hillClimbT τ d start m = .ok (r, br) ∧ Valid m r := by
  obtain ⟨r, br, mv, h, hv, _⟩ := hillClimbF_terminates_strictOrder τ d m hwf lt_irrefl lt_trans
    sub_pos start hs m.verts.size (le_refl _)
  exact ⟨r, br, by unfold hillClimbT; rw [h], hv⟩

end AnyArith

/-! ### exact reals -/

/-- projection `d · vertices[i]` (0 outside the array; never used there) -/
noncomputable def proj (d : V) (vs : Array V) (i : Nat) : ℝ :=
  match vs[i]? with
  | some v => V3.dot d v
  | none => 0

theorem proj_eq {d : V} {vs : Array V} {i : Nat} (h : i < vs.size) : proj d vs i = V3.dot d vs[i] := by
  unfold proj; rw [Array.getElem?_eq_getElem h]

theorem proj_eq_projAt (d : V) (vs : Array V) (i : Nat) : proj d vs i = projAt d vs i := by
  unfold proj projAt; cases vs[i]? <;> rfl

/-- no neighbour of `r` is better than `r` by more than the threshold -/
def LocalOpt (τ : ℝ) (d : V) (m : MeshData ℝ) (r : Nat) : Prop :=
  ∀ l, connLookup m.conn r = .ok l → ∀ c ∈ l, proj d m.verts c - proj d m.verts r ≤ τ

/-- ℝ with a non-negative threshold is an instance of the arithmetic contract -/
theorem hillClimbF_spec (τ : ℝ) (hτ : 0 ≤ τ) (d : V) (m : MeshData ℝ) (hwf : MeshWF m)
    (start : Nat) (hs : Valid m start) (fuel : Nat) (hfuel : m.verts.size ≤ fuel) :
    ∃ r br moves, hillClimbF τ d start m fuel = .ok (r, br, moves) ∧ Valid m r ∧
      moves + 1 ≤ m.verts.size ∧ LocalOpt τ d m r ∧ proj d m.verts start ≤ proj d m.verts r := by
  obtain ⟨r, br, mv, h, hv, hmv, _, hup, hloc⟩ :=
    hillClimbF_terminates_strictOrder τ d m hwf (fun a => lt_irrefl a)
      (fun _ _ _ h1 h2 => lt_trans h1 h2) (fun a b h => by linarith) start hs fuel hfuel
  refine ⟨r, br, mv, h, hv, hmv, ?_, ?_⟩
  · intro l hl c hc
    have := hloc l hl c hc
    rw [proj_eq_projAt, proj_eq_projAt]
    exact not_lt.mp this
  · rw [proj_eq_projAt, proj_eq_projAt]
    rcases hup with h | h
    · rw [h]
    · exact le_of_lt h

/-- **termination + local optimality** of `hill_climb_mesh_extreme` for every start index:
with fuel = number of vertices the loop never runs out of fuel, raises no KeyError/IndexError on
well-formed data, and the result has no neighbour better by more than the threshold -/
theorem hillClimbT_spec (τ : ℝ) (hτ : 0 ≤ τ) (d : V) (m : MeshData ℝ) (hwf : MeshWF m)
    (start : Nat) (hs : Valid m start) :
    ∃ r br, hillClimbT τ d start m = .ok (r, br) ∧ Valid m r ∧ LocalOpt τ d m r ∧
      proj d m.verts start ≤ proj d m.verts r := by
  obtain ⟨r, br, mv, h, hv, _, h3, h4⟩ :=
    hillClimbF_spec τ hτ d m hwf start hs m.verts.size (le_refl _)
  exact ⟨r, br, by unfold hillClimbT; rw [h], hv, h3, h4⟩

theorem eps_nonneg : (0 : ℝ) ≤ (Gen.mesh__PROJECTION_LENGTH_EPSILON : ℝ) := by
  unfold Gen.mesh__PROJECTION_LENGTH_EPSILON; norm_num

/-! ### global optimality under unimodality -/

/-- every vertex that is more than `τ'` below the best vertex has a neighbour that is better
by more than the threshold `τ` (true for convex meshes with a suitable `τ'`; decidable for a
given mesh and direction, checked by the harness on its meshes) -/
def Unimodal (τ τ' : ℝ) (d : V) (m : MeshData ℝ) : Prop :=
  ∀ b, Valid m b → (∃ i, i < m.verts.size ∧ proj d m.verts b + τ' < proj d m.verts i) →
    ∃ l c, connLookup m.conn b = .ok l ∧ c ∈ l ∧ τ < proj d m.verts c - proj d m.verts b

theorem localOpt_global {τ τ' : ℝ} {d : V} {m : MeshData ℝ} (hu : Unimodal τ τ' d m) {r : Nat}
    (hv : Valid m r) (ho : LocalOpt τ d m r) :
    ∀ i, i < m.verts.size → proj d m.verts i ≤ proj d m.verts r + τ' := by
  intro i hi
  by_contra hc
  obtain ⟨l, c, hl, hcl, hlt⟩ := hu r hv ⟨i, hi, not_le.mp hc⟩
  exact absurd (ho l hl c hcl) (not_le.mpr hlt)

/-- soundness of the decidable check the driver evaluates (exactly, at `Rat`, on lattice meshes) -/
theorem unimodalCheck_sound (τ τ' : ℝ) (d : V) (m : MeshData ℝ)
    (h : unimodalCheck τ τ' d m = true) : Unimodal τ τ' d m := by
  intro b hv hex
  obtain ⟨hb, l, hl⟩ := hv
  have hl' := connLookup_ok.mp hl
  unfold unimodalCheck at h
  simp only [List.all_eq_true, List.mem_range] at h
  have hb' := h b hb
  rw [hl'] at hb'
  simp only [Bool.or_eq_true, Bool.not_eq_true', List.any_eq_false, List.any_eq_true, List.mem_range,
    decide_eq_true_eq] at hb'
  rcases hb' with h1 | h2
  · obtain ⟨i, hi, hlt⟩ := hex
    exact absurd (by simpa [proj_eq_projAt] using hlt) (by simpa using h1 i hi)
  · obtain ⟨c, hc, hlt⟩ := h2
    exact ⟨l, c, hl, hc, by simpa [proj_eq_projAt] using hlt⟩

/-! ### KeyError -/

/-- the exact failure: if the vertex selected by the shortcut loop occurs in no triangle (has no
entry in `connections`) the call raises `KeyError` (as does the implementation) -/
theorem hillClimb_keyError (τ : ℝ) (d : V) (m : MeshData ℝ) (start : Nat) (bp0 : ℝ)
    (st0 : ClimbSt ℝ) (hp : vertexProj d m.verts start = .ok bp0)
    (hsc : climbFold τ d m.verts m.shortcuts ⟨start, bp0, false, 0⟩ = .ok st0)
    (hkey : m.conn.lookup st0.best = none) (hn : 0 < m.verts.size) :
    hillClimbT τ d start m = .error .keyError := by
  unfold hillClimbT hillClimbF
  rw [hp]
  dsimp only
  rw [hsc]
  dsimp only
  obtain ⟨n, hn'⟩ := Nat.exists_eq_succ_of_ne_zero (Nat.pos_iff_ne_zero.mp hn)
  rw [hn']
  simp only [hillLoop, connLookup, hkey]

/-! ### the stateful collider: every history -/

/-- points of a posed mesh collider: pose image of the convex hull of its vertices -/
def meshSet (A : Pose ℝ) (m : MeshData ℝ) : V → Prop := poseImage A (hullSet m.verts.toList)

theorem getElem_mem_toList {vs : Array V} {i : Nat} (h : i < vs.size) : vs[i] ∈ vs.toList := by
  simp

theorem hull_le_proj {d : V} {vs : Array V} {M : ℝ} (h : ∀ i, i < vs.size → proj d vs i ≤ M) :
    ∀ x, hullSet vs.toList x → V3.dot d x ≤ M := by
  apply hull_le
  intro v hv
  obtain ⟨i, hi, rfl⟩ := List.mem_iff_getElem.mp hv
  have hi' : i < vs.size := by simpa using hi
  have := h i hi'
  rw [proj_eq hi'] at this
  simpa using this

theorem dot_apply (A : Pose ℝ) (d q : V) :
    V3.dot d (A.apply q) = V3.dot d A.t + V3.dot (A.R.tmulVec d) q := by
  simp only [Pose.apply, V3.dot_def, V3.add_x, V3.add_y, V3.add_z, M3.mulVec, M3.tmulVec, M3.col0,
    M3.col1, M3.col2]
  ring

/-- one call of `MeshHillClimbingSupportFunction.__call__` from any valid cached index:
succeeds, returns a vertex of the mesh (posed), caches a valid index, the vertex is locally
optimal, and under `Unimodal` it is within `τ'` of the maximum over the whole posed hull -/
theorem meshCall_spec (A : Pose ℝ) (m : MeshData ℝ) (hwf : MeshWF m) (fi : Nat) (hv : Valid m fi)
    (d : V) :
    ∃ idx p br, meshCall A m fi d = .ok (idx, p, br) ∧ Valid m idx ∧ meshSet A m p ∧
      LocalOpt (Gen.mesh__PROJECTION_LENGTH_EPSILON : ℝ) (A.R.tmulVec d) m idx ∧
      ∀ τ', Unimodal (Gen.mesh__PROJECTION_LENGTH_EPSILON : ℝ) τ' (A.R.tmulVec d) m →
        ∀ x, meshSet A m x → V3.dot d x ≤ V3.dot d p + τ' := by
  obtain ⟨r, br, h1, h2, h3, _⟩ :=
    hillClimbT_spec (Gen.mesh__PROJECTION_LENGTH_EPSILON : ℝ) eps_nonneg (A.R.tmulVec d) m hwf fi hv
  have hr : r < m.verts.size := h2.1
  refine ⟨r, transformPoint A m.verts[r], br, ?_, h2, ?_, h3, ?_⟩
  · unfold meshCall hillClimb
    rw [h1]
    dsimp only
    rw [Array.getElem?_eq_getElem h2.1]
  · exact ⟨_, hullSet.vertex (getElem_mem_toList h2.1), transformPoint_eq A _⟩
  · intro τ' hu x hx
    obtain ⟨q, hq, rfl⟩ := hx
    have hg := localOpt_global hu h2 h3
    have := hull_le_proj hg q hq
    rw [transformPoint_eq, dot_apply, dot_apply, ← proj_eq h2.1]
    linarith

/-- **history independence**: the same direction asked after two different histories (i.e. from
two different valid cached indices) gives support values that differ by at most `τ'` -/
theorem mesh_history_independent (A : Pose ℝ) (m : MeshData ℝ) (hwf : MeshWF m) (fi fi' : Nat)
    (hv : Valid m fi) (hv' : Valid m fi') (d : V) (τ' : ℝ)
    (hu : Unimodal (Gen.mesh__PROJECTION_LENGTH_EPSILON : ℝ) τ' (A.R.tmulVec d) m) :
    ∃ idx p br idx' p' br', meshCall A m fi d = .ok (idx, p, br) ∧
      meshCall A m fi' d = .ok (idx', p', br') ∧
      V3.dot d p ≤ V3.dot d p' + τ' ∧ V3.dot d p' ≤ V3.dot d p + τ' := by
  obtain ⟨idx, p, br, h1, _, hp, _, hg⟩ := meshCall_spec A m hwf fi hv d
  obtain ⟨idx', p', br', h1', _, hp', _, hg'⟩ := meshCall_spec A m hwf fi' hv' d
  exact ⟨idx, p, br, idx', p', br', h1, h1', hg' τ' hu p hp, hg τ' hu p' hp'⟩

/-- **every history**: on a well-formed mesh collider every query of every sequence of queries
succeeds and returns a point of the collider; each answer is within `τ'` of the true maximum
whenever the mesh is unimodal for that direction — whatever was asked before -/
theorem mesh_history (A : Pose ℝ) (m : MeshData ℝ) (hwf : MeshWF m) (τ' : ℝ) :
    ∀ (ds : List V) (fi : Nat), Valid m fi →
      List.Forall₂ (fun d r => ∃ br p, r = Except.ok (br, p) ∧ meshSet A m p ∧
        (Unimodal (Gen.mesh__PROJECTION_LENGTH_EPSILON : ℝ) τ' (A.R.tmulVec d) m →
          ∀ x, meshSet A m x → V3.dot d x ≤ V3.dot d p + τ'))
        ds (Collider.history (.mesh A m fi) ds) := by
  intro ds
  induction ds with
  | nil => intro fi _; simp [Collider.history]
  | cons d ds ih =>
    intro fi hv
    obtain ⟨idx, p, br, h1, h2, hp, _, hg⟩ := meshCall_spec A m hwf fi hv d
    simp only [Collider.history, Collider.support]
    rw [h1]
    dsimp only
    exact List.Forall₂.cons ⟨br, p, rfl, hp, hg τ'⟩ (ih idx h2)

end Support
end D3
