/-
ℝ-level vocabulary for the simplex solvers (C18): convex combinations, `hullSet`,
`IsMinNorm`, the variational characterisation of the minimum-norm point of a convex set,
and the selection of a sub-simplex by a bit set.
-/
import D3.Spec.Vec
import D3.Model.Simplex
import Mathlib.Tactic.NormNum
import Mathlib.Tactic.IntervalCases

set_option linter.unusedSectionVars false
set_option linter.unusedVariables false

namespace D3
namespace Simplex

/-- `Σ wᵢ pᵢ` (stops at the shorter list) -/
def lincomb : List ℝ → List V → V
  | w :: ws, p :: ps => w * p + lincomb ws ps
  | _, _ => ⟨0, 0, 0⟩

/-- convex hull of a finite list of points: all convex combinations -/
def hullSet (pts : List V) : V → Prop := fun v =>
  ∃ w : List ℝ, w.length = pts.length ∧ (∀ x ∈ w, 0 ≤ x) ∧ w.sum = 1 ∧ lincomb w pts = v

/-- the segment `[a, b]` -/
def segmentSet (a b : V) : V → Prop := hullSet [a, b]

/-- `v` is a point of `K` of minimum norm -/
def IsMinNorm (K : V → Prop) (v : V) : Prop := K v ∧ ∀ x, K x → V3.normSq v ≤ V3.normSq x

/-- closed under segments -/
def ConvexSet (K : V → Prop) : Prop :=
  ∀ x y, K x → K y → ∀ t : ℝ, 0 ≤ t → t ≤ 1 → K ((1 - t) * x + t * y)

/-! ### the variational inequality -/

/-- sufficiency (no convexity needed): `⟨v, x − v⟩ ≥ 0` on `K` makes `v` the minimiser -/
theorem isMinNorm_of_var {K : V → Prop} {v : V} (hv : K v)
    (h : ∀ x, K x → V3.dot v v ≤ V3.dot v x) : IsMinNorm K v := by
  refine ⟨hv, fun x hx => ?_⟩
  have h1 := h x hx
  simp only [V3.normSq_def, V3.dot_def] at *
  nlinarith [mul_self_nonneg (x.x - v.x), mul_self_nonneg (x.y - v.y), mul_self_nonneg (x.z - v.z)]

/-- necessity for convex `K` -/
theorem var_of_isMinNorm {K : V → Prop} (hK : ConvexSet K) {v : V} (hm : IsMinNorm K v) :
    ∀ x, K x → V3.dot v v ≤ V3.dot v x := by
  intro x hx
  by_contra hlt
  rw [not_le] at hlt
  -- δ = ⟨v, v − x⟩ > 0, D = |x − v|²
  set δ := V3.dot v v - V3.dot v x with hδ
  have hδpos : 0 < δ := by linarith
  set D := V3.normSq (x - v) with hD
  have hDnn : 0 ≤ D := V3.normSq_nonneg _
  -- choose t = min 1 (δ / (D + 1))  … simpler: t = δ / (D + δ + 1) ∈ (0,1)
  set t := δ / (D + δ + 1) with ht
  have hden : 0 < D + δ + 1 := by linarith
  have ht0 : 0 < t := div_pos hδpos hden
  have ht1 : t ≤ 1 := by rw [ht, div_le_one hden]; linarith
  have hmem := hK v x hm.1 hx t ht0.le ht1
  have hle := hm.2 _ hmem
  -- |v + t (x − v)|² = |v|² − 2 t δ + t² D
  have hexp : V3.normSq ((1 - t) * v + t * x) = V3.normSq v - 2 * t * δ + t * t * D := by
    simp only [hδ, hD, V3.normSq_def, V3.dot_def, V3.add_x, V3.add_y, V3.add_z, V3.smul_x,
      V3.smul_y, V3.smul_z, V3.sub_x, V3.sub_y, V3.sub_z]
    ring
  rw [hexp] at hle
  -- t D < δ  because t (D + δ + 1) = δ
  have htd : t * (D + δ + 1) = δ := by rw [ht]; field_simp
  nlinarith [mul_pos ht0 hδpos, mul_pos ht0 ht0]

/-! ### linear combinations -/

theorem dot_lincomb (v : V) : ∀ (w : List ℝ) (ps : List V),
    V3.dot v (lincomb w ps) = ((w.zip ps).map fun wp => wp.1 * V3.dot v wp.2).sum
  | [], _ => by simp [lincomb, V3.dot_def]
  | _ :: _, [] => by simp [lincomb, V3.dot_def]
  | w :: ws, p :: ps => by
    have ih := dot_lincomb v ws ps
    simp only [lincomb, List.zip_cons_cons, List.map_cons, List.sum_cons, ← ih]
    simp only [V3.dot_def, V3.add_x, V3.add_y, V3.add_z, V3.smul_x, V3.smul_y, V3.smul_z]
    ring

/-- a lower bound of `⟨v, ·⟩` on the vertices is a lower bound on every non-negative
combination, scaled by the total weight -/
theorem lincomb_lower (v : V) (c : ℝ) : ∀ (w : List ℝ) (ps : List V), w.length = ps.length →
    (∀ x ∈ w, 0 ≤ x) → (∀ p ∈ ps, c ≤ V3.dot v p) → w.sum * c ≤ V3.dot v (lincomb w ps)
  | [], [], _, _, _ => by simp [lincomb, V3.dot_def]
  | [], _ :: _, h, _, _ => by simp at h
  | _ :: _, [], h, _, _ => by simp at h
  | w :: ws, p :: ps, hl, hw, hp => by
    have ih := lincomb_lower v c ws ps (by simpa using hl)
      (fun x hx => hw x (List.mem_cons_of_mem _ hx)) (fun q hq => hp q (List.mem_cons_of_mem _ hq))
    have hw0 : 0 ≤ w := hw w (by simp)
    have hp0 : c ≤ V3.dot v p := hp p (by simp)
    have : V3.dot v (lincomb (w :: ws) (p :: ps)) = w * V3.dot v p + V3.dot v (lincomb ws ps) := by
      simp only [lincomb, V3.dot_def, V3.add_x, V3.add_y, V3.add_z, V3.smul_x, V3.smul_y, V3.smul_z]
      ring
    rw [this, List.sum_cons]
    nlinarith [mul_le_mul_of_nonneg_left hp0 hw0]

/-- the variational inequality on the vertices extends to the hull -/
theorem hull_var {pts : List V} {v : V} (c : ℝ) (h : ∀ p ∈ pts, c ≤ V3.dot v p) :
    ∀ x, hullSet pts x → c ≤ V3.dot v x := by
  rintro x ⟨w, hl, hw, hs, rfl⟩
  have := lincomb_lower v c w pts hl hw h
  rw [hs] at this
  linarith

/-- **key lemma**: a point of the hull that satisfies `⟨v, p − v⟩ ≥ 0` at every vertex `p`
is the minimum-norm point of the hull -/
theorem isMinNorm_hull_of_vertices {pts : List V} {v : V} (hv : hullSet pts v)
    (h : ∀ p ∈ pts, V3.dot v v ≤ V3.dot v p) : IsMinNorm (hullSet pts) v :=
  isMinNorm_of_var hv (hull_var _ h)

/-- the minimum-norm point is unique up to norm; two minimisers of the same set have the
same squared norm -/
theorem IsMinNorm.normSq_eq {K : V → Prop} {v v' : V} (h : IsMinNorm K v) (h' : IsMinNorm K v') :
    V3.normSq v = V3.normSq v' :=
  le_antisymm (h.2 _ h'.1) (h'.2 _ h.1)

/-! ### explicit forms of small hulls -/

theorem hull1_intro (a : V) : hullSet [a] a := by
  refine ⟨[1], rfl, by simp, by simp, ?_⟩
  apply V3.ext' <;> simp [lincomb]

theorem hull2_intro (a b : V) {u v : ℝ} (hu : 0 ≤ u) (hv : 0 ≤ v) (hs : u + v = 1) :
    hullSet [a, b] (u * a + v * b) := by
  refine ⟨[u, v], rfl, by simp [hu, hv], by simp [hs], ?_⟩
  apply V3.ext' <;> simp [lincomb]

theorem hull3_intro (a b c : V) {u v w : ℝ} (hu : 0 ≤ u) (hv : 0 ≤ v) (hw : 0 ≤ w)
    (hs : u + v + w = 1) : hullSet [a, b, c] (u * a + v * b + w * c) := by
  refine ⟨[u, v, w], rfl, by simp [hu, hv, hw], by simp [← hs, add_assoc], ?_⟩
  apply V3.ext' <;> simp [lincomb, add_assoc]

theorem hull4_intro (a b c d : V) {u v w x : ℝ} (hu : 0 ≤ u) (hv : 0 ≤ v) (hw : 0 ≤ w)
    (hx : 0 ≤ x) (hs : u + v + w + x = 1) :
    hullSet [a, b, c, d] (u * a + v * b + w * c + x * d) := by
  refine ⟨[u, v, w, x], rfl, by simp [hu, hv, hw, hx], by simp [← hs, add_assoc], ?_⟩
  apply V3.ext' <;> simp [lincomb, add_assoc]

theorem hull2_elim {a b x : V} (h : hullSet [a, b] x) :
    ∃ u v : ℝ, 0 ≤ u ∧ 0 ≤ v ∧ u + v = 1 ∧ x = u * a + v * b := by
  obtain ⟨w, hl, hw, hs, rfl⟩ := h
  match w, hl with
  | [u, v], _ =>
    refine ⟨u, v, hw u (by simp), hw v (by simp), by simpa using hs, ?_⟩
    apply V3.ext' <;> simp [lincomb]

theorem hull3_elim {a b c x : V} (h : hullSet [a, b, c] x) :
    ∃ u v w : ℝ, 0 ≤ u ∧ 0 ≤ v ∧ 0 ≤ w ∧ u + v + w = 1 ∧ x = u * a + v * b + w * c := by
  obtain ⟨w, hl, hw, hs, rfl⟩ := h
  match w, hl with
  | [u, v, w], _ =>
    refine ⟨u, v, w, hw u (by simp), hw v (by simp), hw w (by simp), by simpa [add_assoc] using hs, ?_⟩
    apply V3.ext' <;> simp [lincomb, add_assoc]

theorem hull4_elim {a b c d x : V} (h : hullSet [a, b, c, d] x) :
    ∃ u v w t : ℝ, 0 ≤ u ∧ 0 ≤ v ∧ 0 ≤ w ∧ 0 ≤ t ∧ u + v + w + t = 1 ∧
      x = u * a + v * b + w * c + t * d := by
  obtain ⟨w, hl, hw, hs, rfl⟩ := h
  match w, hl with
  | [u, v, w, t], _ =>
    refine ⟨u, v, w, t, hw u (by simp), hw v (by simp), hw w (by simp), hw t (by simp),
      by simpa [add_assoc] using hs, ?_⟩
    apply V3.ext' <;> simp [lincomb, add_assoc]

/-- padding the weights with zeros along a sublist embedding -/
theorem lincomb_pad {l₁ l₂ : List V} (h : l₁.Sublist l₂) : ∀ w : List ℝ, w.length = l₁.length →
    (∀ x ∈ w, 0 ≤ x) → ∃ w' : List ℝ, w'.length = l₂.length ∧ (∀ x ∈ w', 0 ≤ x) ∧
      w'.sum = w.sum ∧ lincomb w' l₂ = lincomb w l₁ := by
  induction h with
  | slnil => intro w hl hw; exact ⟨w, hl, hw, rfl, rfl⟩
  | cons p _ ih =>
    intro w hl hw
    obtain ⟨w', hl', hw', hs', hx'⟩ := ih w hl hw
    refine ⟨0 :: w', by simp [hl'], ?_, by simp [hs'], ?_⟩
    · intro y hy
      rcases List.mem_cons.mp hy with rfl | hy
      · exact le_refl _
      · exact hw' y hy
    · rw [← hx']
      apply V3.ext' <;> simp [lincomb]
  | cons_cons p _ ih =>
    intro w hl hw
    match w, hl with
    | w0 :: ws, hl =>
      obtain ⟨w', hl', hw', hs', hx'⟩ := ih ws (by simpa using hl)
        (fun y hy => hw y (List.mem_cons_of_mem _ hy))
      refine ⟨w0 :: w', by simp [hl'], ?_, by simp [hs'], ?_⟩
      · intro y hy
        rcases List.mem_cons.mp hy with rfl | hy
        · exact hw _ (by simp)
        · exact hw' y hy
      · simp only [lincomb, hx']

/-- hulls are monotone along sublists -/
theorem hull_sublist {l₁ l₂ : List V} (h : l₁.Sublist l₂) : ∀ x, hullSet l₁ x → hullSet l₂ x := by
  rintro x ⟨w, hl, hw, hs, rfl⟩
  obtain ⟨w', hl', hw', hs', hx'⟩ := lincomb_pad h w hl hw
  exact ⟨w', hl', hw', by rw [hs', hs], hx'⟩

/-! ### hulls are convex -/

theorem lincomb_zip (s t : ℝ) : ∀ (ps : List V) (w1 w2 : List ℝ), w1.length = ps.length →
    w2.length = ps.length →
    (List.zipWith (fun x y => s * x + t * y) w1 w2).length = ps.length ∧
    (List.zipWith (fun x y => s * x + t * y) w1 w2).sum = s * w1.sum + t * w2.sum ∧
    lincomb (List.zipWith (fun x y => s * x + t * y) w1 w2) ps =
      s * lincomb w1 ps + t * lincomb w2 ps ∧
    (0 ≤ s → 0 ≤ t → (∀ x ∈ w1, 0 ≤ x) → (∀ y ∈ w2, 0 ≤ y) →
      ∀ z ∈ List.zipWith (fun x y => s * x + t * y) w1 w2, 0 ≤ z)
  | [], [], [], _, _ => by
    refine ⟨rfl, by simp, ?_, by simp⟩
    apply V3.ext' <;> simp [lincomb]
  | [], _ :: _, _, h, _ => by simp at h
  | [], [], _ :: _, _, h => by simp at h
  | _ :: _, [], _, h, _ => by simp at h
  | _ :: _, _ :: _, [], _, h => by simp at h
  | p :: ps, x :: w1, y :: w2, h1, h2 => by
    obtain ⟨ihl, ihs, ihc, ihn⟩ := lincomb_zip s t ps w1 w2 (by simpa using h1) (by simpa using h2)
    refine ⟨by simp [ihl], ?_, ?_, ?_⟩
    · simp only [List.zipWith_cons_cons, List.sum_cons, ihs]; ring
    · simp only [List.zipWith_cons_cons, lincomb, ihc]
      apply V3.ext' <;> simp <;> ring
    · intro hs ht hw1 hw2 z hz
      simp only [List.zipWith_cons_cons, List.mem_cons] at hz
      rcases hz with rfl | hz
      · exact add_nonneg (mul_nonneg hs (hw1 x (by simp))) (mul_nonneg ht (hw2 y (by simp)))
      · exact ihn hs ht (fun a ha => hw1 a (List.mem_cons_of_mem _ ha))
          (fun a ha => hw2 a (List.mem_cons_of_mem _ ha)) z hz

theorem hull_convex (pts : List V) : ConvexSet (hullSet pts) := by
  rintro x y ⟨w1, hl1, hw1, hs1, rfl⟩ ⟨w2, hl2, hw2, hs2, rfl⟩ t ht0 ht1
  obtain ⟨hl, hs, hc, hn⟩ := lincomb_zip (1 - t) t pts w1 w2 hl1 hl2
  exact ⟨_, hl, hn (by linarith) ht0 hw1 hw2, by rw [hs, hs1, hs2]; ring, hc⟩

/-! ### hulls do not depend on the order of the points -/

theorem lincomb_perm {l₁ l₂ : List V} (h : l₁.Perm l₂) : ∀ w : List ℝ, w.length = l₁.length →
    (∀ x ∈ w, 0 ≤ x) → ∃ w' : List ℝ, w'.length = l₂.length ∧ (∀ x ∈ w', 0 ≤ x) ∧
      w'.sum = w.sum ∧ lincomb w' l₂ = lincomb w l₁ := by
  induction h with
  | nil => intro w hl hw; exact ⟨w, hl, hw, rfl, rfl⟩
  | cons p _ ih =>
    intro w hl hw
    match w, hl with
    | w0 :: ws, hl =>
      obtain ⟨w', hl', hw', hs', hx'⟩ := ih ws (by simpa using hl)
        (fun y hy => hw y (List.mem_cons_of_mem _ hy))
      refine ⟨w0 :: w', by simp [hl'], ?_, by simp [hs'], ?_⟩
      · intro y hy
        rcases List.mem_cons.mp hy with rfl | hy
        · exact hw _ (by simp)
        · exact hw' y hy
      · simp only [lincomb, hx']
  | swap p q l =>
    intro w hl hw
    match w, hl with
    | w0 :: w1 :: ws, hl =>
      refine ⟨w1 :: w0 :: ws, by simpa using hl, ?_, by simp only [List.sum_cons]; ring, ?_⟩
      · intro y hy
        simp only [List.mem_cons] at hy
        rcases hy with rfl | rfl | hy
        · exact hw _ (by simp)
        · exact hw _ (by simp)
        · exact hw y (by simp [hy])
      · apply V3.ext' <;> simp [lincomb] <;> ring
  | trans _ _ ih1 ih2 =>
    intro w hl hw
    obtain ⟨w1, hl1, hw1, hs1, hx1⟩ := ih1 w hl hw
    obtain ⟨w2, hl2, hw2, hs2, hx2⟩ := ih2 w1 hl1 hw1
    exact ⟨w2, hl2, hw2, by rw [hs2, hs1], by rw [hx2, hx1]⟩

theorem hull_perm {l₁ l₂ : List V} (h : l₁.Perm l₂) : ∀ x, hullSet l₁ x → hullSet l₂ x := by
  rintro x ⟨w, hl, hw, hs, rfl⟩
  obtain ⟨w', hl', hw', hs', hx'⟩ := lincomb_perm h w hl hw
  exact ⟨w', hl', hw', by rw [hs', hs], hx'⟩

/-! ### sub-simplex named by a bit set -/

/-- the points of `pts` whose bit is set in `s` (bit i ↔ i-th point) -/
def selectBits {β : Type} : Nat → List β → List β
  | _, [] => []
  | s, p :: ps => if s % 2 = 1 then p :: selectBits (s / 2) ps else selectBits (s / 2) ps

theorem selectBits_sublist {β : Type} : ∀ (s : Nat) (l : List β), (selectBits s l).Sublist l
  | _, [] => List.Sublist.slnil
  | s, p :: ps => by
    unfold selectBits
    split
    · exact List.Sublist.cons_cons _ (selectBits_sublist _ ps)
    · exact List.Sublist.cons _ (selectBits_sublist _ ps)

theorem hull_selectBits {pts : List V} {s : Nat} {x : V} (h : hullSet (selectBits s pts) x) :
    hullSet pts x :=
  hull_sublist (selectBits_sublist s pts) x h

end Simplex
end D3
