/-
Exit lemmas of one call of `distanceLoopStep` (C01): clipping, intersection exits, the stall /
relative-progress exit, and the run-level induction over `gjkLoop`.
-/
import D3.Proofs.GjkInv

namespace D3
namespace Gjk
open GjkJolt

theorem stepTail_ne_clipped {Y P Q : A4 V} {n : Nat} {prev tolSq : ℝ} {ok : Bool} {sd : V}
    {vl : ℝ} {s : Nat} {out : StepOut ℝ}
    (h : stepTail Y P Q n prev tolSq ok sd vl s = .ok out) : out.gs ≠ .clipped := by
  rcases stepTail_cases h with ⟨_, rfl⟩ | ⟨_, _, _, _, _, _, hrest⟩
  · simp
  · rcases hrest with ⟨_, rfl⟩ | ⟨_, _, _, hrest⟩
    · simp
    · rcases hrest with ⟨_, rfl⟩ | ⟨_, _, hrest⟩
      · simp
      · rcases hrest with ⟨_, rfl⟩ | ⟨_, rfl⟩ <;> simp

/-- **(8) clipped only beyond `max_distance_squared`.**  If the step returns `Clipped` from a
state whose `v_len_sq` is the squared length of the search direction, and `p − q` is a support
point of `A ⊖ B` in the search direction, then every point of `A ⊖ B` has squared norm
`> max_distance_squared` (separating plane through the support point). -/
theorem step_clipped {A B : V → Prop} {solve : Solver ℝ} {st : State ℝ} {p q : V}
    {tolSq maxD : ℝ} {out : StepOut ℝ} (hsd : st.vLenSq = V3.normSq st.sd)
    (hsup : IsSupport (MinkDiff A B) st.sd (p - q))
    (h : distanceLoopStep solve p q st tolSq maxD = .ok out) (hc : out.gs = .clipped) :
    ∀ y, MinkDiff A B y → maxD < V3.normSq y := by
  rcases step_cases h with ⟨⟨hneg, hbig⟩, _⟩ | ⟨_, _, _, _, _, _, _, _, _, hcase⟩
  · intro y hy
    have h1 := hsup.2 y hy
    have hcs := V3.dot_sq_le st.sd y
    set d := V3.dot st.sd (p - q) with hd
    set e := V3.dot st.sd y with he
    have hee : d * d ≤ e * e := by nlinarith
    rw [hsd] at hbig
    have hn0 : 0 ≤ V3.normSq st.sd := V3.normSq_nonneg _
    have hnpos : 0 < V3.normSq st.sd := by
      rcases hn0.lt_or_eq with h' | h'
      · exact h'
      · rw [← h'] at hbig hcs
        nlinarith
    have : V3.normSq st.sd * maxD < V3.normSq st.sd * V3.normSq y := by linarith
    exact lt_of_mul_lt_mul_left this hn0
  · rcases hcase with ⟨_, ht⟩ | ⟨_, ht⟩ <;> exact absurd hc (stepTail_ne_clipped ht)

/-- points of the hull of the stored `Y` have pre-images in `A` and `B` -/
theorem stored_hull_minkDiff {A B : V → Prop} (hA : ConvexSet A) (hB : ConvexSet B)
    {st : State ℝ} (hst : Stored A B st 4) {x : V} (hx : InHull (st.Y.pre st.nPoints) x) :
    ∃ a b, A a ∧ B b ∧ x = a - b := by
  obtain ⟨hn, hs⟩ := hst
  rw [hs.y_eq] at hx
  exact hull_subset_minkDiff hA hB (by rw [pre_length _ _ hn, pre_length _ _ hn]) hs.p_mem
    hs.q_mem hx

theorem mem_hull_of_mem {ys : List V} {y : V} (hy : y ∈ ys) : InHull ys y :=
  hull_sublist (List.singleton_sublist.mpr hy)
    ⟨[1], rfl, by simp, by simp, by simp [add_zeroV, one_smul_vec]⟩

/-- **(6) intersection exits.**  If the step returns `Intersection` then there are `a ∈ A`,
`b ∈ B` with `a = b` (simplex `0xf`: the sets meet), or `|a − b|² ≤ tol²`, or
`|a − b|² ≤ ε·|y|²` for a point `y` of `A ⊖ B` (one of the stored `Y`). -/
theorem step_intersection {A B : V → Prop} (hA : ConvexSet A) (hB : ConvexSet B)
    {tolSq : ℝ} {st : State ℝ} {w : V} {out : StepOut ℝ} {x v' : V}
    (hinv : StepInv A B tolSq st w out x v') (hg : out.gs = .intersection) :
    ∃ a b, A a ∧ B b ∧ x = a - b ∧ out.st.vLenSq = 0 ∧
      ((out.br = 1 ∧ a = b) ∨ V3.normSq (a - b) ≤ tolSq ∨
        ∃ y, MinkDiff A B y ∧ V3.normSq (a - b) ≤ EPS * V3.normSq y) := by
  obtain ⟨a, b, ha, hb, hab⟩ := stored_hull_minkDiff hA hB hinv.stored hinv.closest.minnorm.1
  refine ⟨a, b, ha, hb, hab, ?_⟩
  rcases hinv.exits with ⟨_, hv0, _, hc⟩ | ⟨hg', _⟩ | ⟨hg', _⟩
  · refine ⟨hv0, ?_⟩
    rcases hc with ⟨hbr, hx0⟩ | hc | ⟨_, y, hy, hc⟩
    · left
      refine ⟨hbr, ?_⟩
      rw [hx0] at hab
      have hx := congrArg V3.x hab
      have hy := congrArg V3.y hab
      have hz := congrArg V3.z hab
      simp at hx hy hz
      apply V3.ext' <;> linarith
    · right; left; rw [← hab]; exact hc
    · right; right
      obtain ⟨a', b', ha', hb', hy'⟩ := stored_hull_minkDiff hA hB hinv.stored (mem_hull_of_mem hy)
      exact ⟨y, ⟨a', b', ha', hb', hy'⟩, by rw [← hab]; exact hc⟩
  · rw [hg] at hg'; exact GjkState.noConfusion hg'
  · rw [hg] at hg'; exact GjkState.noConfusion hg'

/-- the duality gap is small when one more point does not decrease the squared norm by more
than `G` -/
theorem gap_bound {H' : V → Prop} {x0 w v' : V} {G : ℝ} (hG : 0 ≤ G)
    (hseg : ∀ t : ℝ, 0 ≤ t → t ≤ 1 → H' ((1 - t) * x0 + t * w))
    (hmin : ∀ y, H' y → V3.normSq v' ≤ V3.normSq y)
    (hdrop : V3.normSq x0 - V3.normSq v' ≤ G) :
    V3.dot x0 (x0 - w) ≤ G ∨
      V3.dot x0 (x0 - w) * V3.dot x0 (x0 - w) ≤ G * V3.normSq (x0 - w) := by
  by_cases hg : 0 < V3.dot x0 (x0 - w)
  · have hpg := progress_gap H' x0 w v' hseg hmin hg
    have hD := normSq_pos_of_dot_pos hg
    rcases min_le_iff.mp (le_trans hpg hdrop) with h | h
    · left; exact h
    · right; rwa [div_le_iff₀ hD] at h
  · left; linarith [not_lt.mp hg]

/-- **(5) accuracy of the `NoIntersection` exit** (solver reports no improvement, or
`prev − |v|² ≤ ε·prev`).  From a running state with closest point `x0` (`|x0|² = prev`): every
`y ∈ A ⊖ B` has `|y| ≥ |x0| − max(ε·|x0|, √(ε·|x0 − w|²))`, and the returned point `x` has
`|x| ≤ |x0|`; hence `d − dist ≤ max(ε·|x0|, √ε·|x0 − w|)`. -/
theorem step_stall_accuracy {A B : V → Prop} {tolSq : ℝ} {st : State ℝ} {w : V}
    {out : StepOut ℝ} {x v' x0 : V} (htol : 0 ≤ tolSq)
    (hinv : StepInv A B tolSq st w out x v') (hcur : Cur tolSq st x0)
    (hsup : IsSupport (MinkDiff A B) st.sd w) (hg : out.gs = .noIntersection) :
    V3.normSq x ≤ V3.normSq x0 ∧
    ∀ y, MinkDiff A B y →
      V3.norm x0 - max (EPS * V3.norm x0) (Real.sqrt (EPS * V3.normSq (x0 - w))) ≤ V3.norm y := by
  obtain ⟨hsd0, hcl0, hv0, hpv0, htl0, _⟩ := hcur
  have hprev : st.prevVLenSq = V3.normSq x0 := by rw [hpv0, hv0]
  have hx0pos : 0 < V3.normSq x0 := by rw [← hv0]; linarith
  have hn0 : 0 < V3.norm x0 := norm_pos_of_normSq_pos hx0pos
  -- |x|² ≤ |x0|² and the drop is at most ε·|x0|²
  have hdrop : V3.normSq x0 - V3.normSq v' ≤ EPS * V3.normSq x0 := by
    rcases hinv.exits with ⟨hg', _⟩ | ⟨_, _, _, _, _, hq⟩ | ⟨hg', _⟩
    · rw [hg] at hg'; exact GjkState.noConfusion hg'
    · rw [hprev] at hq; exact hq
    · rw [hg] at hg'; exact GjkState.noConfusion hg'
  have hxle : V3.normSq x ≤ V3.normSq x0 := by
    rcases hinv.improved with ⟨hxv, hlt⟩ | ⟨_, hcur', _⟩
    · rw [hxv, ← hprev]; exact hlt.le
    · obtain ⟨hsd', _, _, _, _, _⟩ := hcur'
      -- both x and x0 satisfy st.sd = -1 * ·
      have : x = x0 := by
        have h1 := congrArg (fun v : V => (-1 : ℝ) * v) hsd'
        have h2 := congrArg (fun v : V => (-1 : ℝ) * v) hsd0
        simp only [neg_one_neg_one_smul] at h1 h2
        rw [← h1, ← h2]
      rw [this]
  refine ⟨hxle, ?_⟩
  -- segment from x0 to w lies in the hull of the old points plus w
  have hseg : ∀ t : ℝ, 0 ≤ t → t ≤ 1 →
      InHull (st.Y.pre st.nPoints ++ [w]) ((1 - t) * x0 + t * w) :=
    fun t h0 h1 => hull_segment hcl0.minnorm.1 w t h0 h1
  have hG : 0 ≤ EPS * V3.normSq x0 := mul_nonneg EPS_pos.le hx0pos.le
  have hgap := gap_bound hG hseg hinv.vmin.2 hdrop
  -- weak duality along −x0 = st.sd
  have hsup' : IsSupport (MinkDiff A B) (-x0) w := by
    have : st.sd = -x0 := by rw [hsd0, neg_one_smul_vec]
    rw [← this]; exact hsup
  intro y hy
  have hwd := weak_duality (MinkDiff A B) x0 w hn0 hsup' y hy
  set g := V3.dot x0 (x0 - w) with hgd
  have hkey : g / V3.norm x0 ≤ max (EPS * V3.norm x0) (Real.sqrt (EPS * V3.normSq (x0 - w))) := by
    rcases hgap with h | h
    · apply le_trans _ (le_max_left _ _)
      rw [div_le_iff₀ hn0]
      calc g ≤ EPS * V3.normSq x0 := h
        _ = EPS * V3.norm x0 * V3.norm x0 := by rw [mul_assoc, V3.norm_sq]
    · apply le_trans _ (le_max_right _ _)
      rw [div_le_iff₀ hn0]
      by_cases hgneg : g ≤ 0
      · exact le_trans hgneg (mul_nonneg (Real.sqrt_nonneg _) hn0.le)
      · have hgpos : 0 < g := not_le.mp hgneg
        have hD0 : 0 ≤ V3.normSq (x0 - w) := V3.normSq_nonneg _
        have hsq : g * g ≤
            (Real.sqrt (EPS * V3.normSq (x0 - w)) * V3.norm x0) *
              (Real.sqrt (EPS * V3.normSq (x0 - w)) * V3.norm x0) := by
          have e : (Real.sqrt (EPS * V3.normSq (x0 - w)) * V3.norm x0) *
              (Real.sqrt (EPS * V3.normSq (x0 - w)) * V3.norm x0)
              = (EPS * V3.normSq (x0 - w)) * V3.normSq x0 := by
            rw [mul_mul_mul_comm, Real.mul_self_sqrt (mul_nonneg EPS_pos.le hD0), V3.norm_sq]
          rw [e]; nlinarith
        have hS : 0 ≤ Real.sqrt (EPS * V3.normSq (x0 - w)) * V3.norm x0 :=
          mul_nonneg (Real.sqrt_nonneg _) hn0.le
        by_contra hh
        have hh := not_le.mp hh
        nlinarith
  linarith

/-- **(7) separated ⇒ not an intersection exit.**  If every point of `A ⊖ B` has squared norm
`> tol²` and `> ε·|y'|²` for every `y' ∈ A ⊖ B`, the step cannot return `Intersection`. -/
theorem step_separated {A B : V → Prop} (hA : ConvexSet A) (hB : ConvexSet B)
    {tolSq : ℝ} (htol : 0 ≤ tolSq) {st : State ℝ} {w : V} {out : StepOut ℝ} {x v' : V}
    (hinv : StepInv A B tolSq st w out x v')
    (hsep : ∀ y, MinkDiff A B y → tolSq < V3.normSq y ∧
      ∀ y', MinkDiff A B y' → EPS * V3.normSq y' < V3.normSq y) :
    out.gs ≠ .intersection := by
  intro hg
  obtain ⟨a, b, ha, hb, hab, _, hc⟩ := step_intersection hA hB hinv hg
  have hy : MinkDiff A B (a - b) := ⟨a, b, ha, hb, rfl⟩
  obtain ⟨h1, h2⟩ := hsep _ hy
  rcases hc with ⟨_, heq⟩ | hc | ⟨y, hy', hc⟩
  · rw [heq, sub_self_vec] at h1
    simp [V3.normSq_def] at h1
    linarith
  · linarith
  · have := h2 y hy'; linarith

/-! ### the `while True` loop -/

theorem e1_ne_zero : e1 ≠ zeroV := by
  intro h; have := congrArg V3.x h; simp at this

theorem ne_zero_of_normSq_pos {v : V} (h : 0 < V3.normSq v) : v ≠ zeroV := by
  rintro rfl; simp [V3.normSq_def] at h

/-- the loop states (at the head of the `while True` loop) reachable from `st0`: `st0` itself and
the state returned by every call of `_distance_loop` that answers `Unknown` -/
inductive Reach (solve : Solver ℝ) (sA sB : V → V) (tolSq maxD : ℝ) (st0 : State ℝ) :
    State ℝ → Prop
  | init : Reach solve sA sB tolSq maxD st0 st0
  | step {st : State ℝ} {out : StepOut ℝ} : Reach solve sA sB tolSq maxD st0 st →
      distanceLoopStep solve (sA st.sd) (sB (-st.sd)) st tolSq maxD = .ok out →
      out.gs = .unknown → Reach solve sA sB tolSq maxD st0 out.st

/-- **every visited simplex is good**: in every loop state reachable from `st0`, the simplex
that the next call of `_distance_loop` hands to the solver (the stored points plus the new
support point `sA sd − sB (−sd)`) satisfies `good` -/
def VisitedGood (good : A4 V → Nat → Prop) (solve : Solver ℝ) (sA sB : V → V) (tolSq maxD : ℝ)
    (st0 : State ℝ) : Prop :=
  ∀ st, Reach solve sA sB tolSq maxD st0 st →
    ∀ Y1, st.Y.set st.nPoints (sA st.sd - sB (-st.sd)) = .ok Y1 → good Y1 (st.nPoints + 1)

theorem visitedGood_true (solve : Solver ℝ) (sA sB : V → V) (tolSq maxD : ℝ) (st0 : State ℝ) :
    VisitedGood (fun _ _ => True) solve sA sB tolSq maxD st0 := fun _ _ _ _ => trivial

theorem Reach.prepend {solve : Solver ℝ} {sA sB : V → V} {tolSq maxD : ℝ} {st : State ℝ}
    {out : StepOut ℝ} (hstep : distanceLoopStep solve (sA st.sd) (sB (-st.sd)) st tolSq maxD = .ok out)
    (hunk : out.gs = .unknown) {s : State ℝ} (h : Reach solve sA sB tolSq maxD out.st s) :
    Reach solve sA sB tolSq maxD st s := by
  induction h with
  | init => exact Reach.step Reach.init hstep hunk
  | step _ h2 h3 ih => exact Reach.step ih h2 h3

theorem VisitedGood.here {good : A4 V → Nat → Prop} {solve : Solver ℝ} {sA sB : V → V}
    {tolSq maxD : ℝ} {st : State ℝ} (h : VisitedGood good solve sA sB tolSq maxD st) :
    ∀ Y1, st.Y.set st.nPoints (sA st.sd - sB (-st.sd)) = .ok Y1 → good Y1 (st.nPoints + 1) :=
  h st Reach.init

theorem VisitedGood.next {good : A4 V → Nat → Prop} {solve : Solver ℝ} {sA sB : V → V}
    {tolSq maxD : ℝ} {st : State ℝ} (h : VisitedGood good solve sA sB tolSq maxD st)
    {out : StepOut ℝ} (hstep : distanceLoopStep solve (sA st.sd) (sB (-st.sd)) st tolSq maxD = .ok out)
    (hunk : out.gs = .unknown) : VisitedGood good solve sA sB tolSq maxD out.st :=
  fun s hs => h s (hs.prepend hstep hunk)

/-- **(1) `inv`, run level.**  Every terminating run of the loop ends with a call of
`distanceLoopStep` on a state that satisfies the invariant (`Stored`, `Running`), with genuine
support points of `A` and `B` as arguments. -/
theorem loop_inv {A B : V → Prop} {good : A4 V → Nat → Prop} {solve : Solver ℝ}
    (hsolve : SolverSpecOn good solve)
    {sA sB : V → V} (hsA : ∀ d, d ≠ zeroV → IsSupport A d (sA d))
    (hsB : ∀ d, d ≠ zeroV → IsSupport B d (sB d)) {tolSq maxD : ℝ} (htol : 0 ≤ tolSq) :
    ∀ (fuel it : Nat) (st : State ℝ) (gs : GjkState) (st' : State ℝ) (it' : Nat),
      Stored A B st 3 → Running tolSq st (sA st.sd - sB (-st.sd)) → st.sd ≠ zeroV →
      VisitedGood good solve sA sB tolSq maxD st →
      gjkLoop solve sA sB tolSq maxD fuel it st = .ok (gs, st', it') →
      ∃ stIn out, Stored A B stIn 3 ∧ Running tolSq stIn (sA stIn.sd - sB (-stIn.sd)) ∧
        stIn.sd ≠ zeroV ∧ VisitedGood good solve sA sB tolSq maxD stIn ∧
        distanceLoopStep solve (sA stIn.sd) (sB (-stIn.sd)) stIn tolSq maxD = .ok out ∧
        out.gs = gs ∧ out.st = st' ∧ gs ≠ .unknown
  | 0, _, _, _, _, _, _, _, _, _, h => by simp [gjkLoop] at h
  | fuel + 1, it, st, gs, st', it', hst, hrun, hsd, hvis, h => by
    unfold gjkLoop at h
    simp only [bind, Except.bind] at h
    split at h
    · cases h
    · rename_i r hr
      split at h
      · rename_i hunk
        -- continue: invariant preserved
        have hnegsd : -st.sd ≠ zeroV := by
          intro h0; apply hsd
          have hx := congrArg V3.x h0; have hy := congrArg V3.y h0; have hz := congrArg V3.z h0
          simp at hx hy hz
          apply V3.ext' <;> simp <;> linarith
        obtain ⟨x, v', hinv⟩ := step_inv hsolve htol hst hrun (hsA _ hsd).1 (hsB _ hnegsd).1
          hvis.here hr (by rw [hunk]; simp)
        rcases hinv.exits with ⟨hg, _⟩ | ⟨hg, _⟩ | ⟨_, hsto, hcur, _⟩
        · rw [hunk] at hg; exact GjkState.noConfusion hg
        · rw [hunk] at hg; exact GjkState.noConfusion hg
        · have hsd' : r.st.sd ≠ zeroV := by
            obtain ⟨hsdx, _, hv, _, htl, _⟩ := hcur
            apply ne_zero_of_normSq_pos
            rw [hsdx, normSq_neg_one_smul, ← hv]
            linarith
          exact loop_inv hsolve hsA hsB htol fuel (it + 1) r.st gs st' it' hsto
            (Or.inl ⟨x, hcur⟩) hsd' (hvis.next hr hunk) h
      · rename_i hunk
        cases h
        exact ⟨st, r, hst, hrun, hsd, hvis, hr, rfl, rfl, hunk⟩

/-- the simplex handed to the solver consists of points of `A ⊖ B` -/
theorem stored_set_minkDiff {A B : V → Prop} (hA : ConvexSet A) (hB : ConvexSet B) {st : State ℝ}
    (hst : Stored A B st 3) {p q : V} (hp : A p) (hq : B q) {Y1 : A4 V}
    (hY : st.Y.set st.nPoints (p - q) = .ok Y1) :
    ∀ y ∈ Y1.pre (st.nPoints + 1), MinkDiff A B y := by
  obtain ⟨_, eY⟩ := pre_set st.Y Y1 st.nPoints _ hY
  intro y hy
  rw [eY] at hy
  rcases List.mem_append.mp hy with h | h
  · obtain ⟨a, b, ha, hb, he⟩ :=
      stored_hull_minkDiff hA hB ⟨le_trans hst.1 (by norm_num), hst.2⟩ (mem_hull_of_mem h)
    exact ⟨a, b, ha, hb, he⟩
  · simp at h
    exact ⟨p, q, hp, hq, h⟩

/-- **the loop invariant holds in every reachable state** when every simplex of at most four
points of `A ⊖ B` is `good` -/
theorem reach_inv {A B : V → Prop} (hA : ConvexSet A) (hB : ConvexSet B)
    {good : A4 V → Nat → Prop} {solve : Solver ℝ} (hsolve : SolverSpecOn good solve)
    {sA sB : V → V} (hsA : ∀ d, d ≠ zeroV → IsSupport A d (sA d))
    (hsB : ∀ d, d ≠ zeroV → IsSupport B d (sB d)) {tolSq maxD : ℝ} (htol : 0 ≤ tolSq)
    (hall : ∀ (Y : A4 V) (n : Nat), n ≤ 4 → (∀ y ∈ Y.pre n, MinkDiff A B y) → good Y n)
    {st0 : State ℝ} (hst0 : Stored A B st0 3)
    (hrun0 : Running tolSq st0 (sA st0.sd - sB (-st0.sd))) (hsd0 : st0.sd ≠ zeroV) :
    ∀ st, Reach solve sA sB tolSq maxD st0 st →
      Stored A B st 3 ∧ Running tolSq st (sA st.sd - sB (-st.sd)) ∧ st.sd ≠ zeroV := by
  intro st h
  induction h with
  | init => exact ⟨hst0, hrun0, hsd0⟩
  | @step st out _ hstep hunk ih =>
    obtain ⟨hst, hrun, hsd⟩ := ih
    have hnegsd : -st.sd ≠ zeroV := by
      intro h0; apply hsd
      have hx := congrArg V3.x h0; have hy := congrArg V3.y h0; have hz := congrArg V3.z h0
      simp at hx hy hz
      apply V3.ext' <;> simp <;> linarith
    have hp := (hsA _ hsd).1
    have hq := (hsB _ hnegsd).1
    obtain ⟨x, v', hinv⟩ := step_inv hsolve htol hst hrun hp hq
      (fun Y1 hY => hall Y1 _ (by have := hst.1; omega) (stored_set_minkDiff hA hB hst hp hq hY))
      hstep (by rw [hunk]; simp)
    rcases hinv.exits with ⟨hg, _⟩ | ⟨hg, _⟩ | ⟨_, hsto, hcur, _⟩
    · rw [hunk] at hg; exact GjkState.noConfusion hg
    · rw [hunk] at hg; exact GjkState.noConfusion hg
    · refine ⟨hsto, Or.inl ⟨x, hcur⟩, ?_⟩
      obtain ⟨hsdx, _, hv, _, htl, _⟩ := hcur
      apply ne_zero_of_normSq_pos
      rw [hsdx, normSq_neg_one_smul, ← hv]
      linarith

/-- **discharging `VisitedGood`**: if every simplex of at most four points of `A ⊖ B` is `good`,
every simplex a run visits is -/
theorem visitedGood_of_minkDiff {A B : V → Prop} (hA : ConvexSet A) (hB : ConvexSet B)
    {good : A4 V → Nat → Prop} {solve : Solver ℝ} (hsolve : SolverSpecOn good solve)
    {sA sB : V → V} (hsA : ∀ d, d ≠ zeroV → IsSupport A d (sA d))
    (hsB : ∀ d, d ≠ zeroV → IsSupport B d (sB d)) {tolSq maxD : ℝ} (htol : 0 ≤ tolSq)
    (hall : ∀ (Y : A4 V) (n : Nat), n ≤ 4 → (∀ y ∈ Y.pre n, MinkDiff A B y) → good Y n)
    {st0 : State ℝ} (hst0 : Stored A B st0 3)
    (hrun0 : Running tolSq st0 (sA st0.sd - sB (-st0.sd))) (hsd0 : st0.sd ≠ zeroV) :
    VisitedGood good solve sA sB tolSq maxD st0 := by
  intro st hreach Y1 hY
  obtain ⟨hst, _, hsd⟩ := reach_inv hA hB hsolve hsA hsB htol hall hst0 hrun0 hsd0 st hreach
  have hnegsd : -st.sd ≠ zeroV := by
    intro h0; apply hsd
    have hx := congrArg V3.x h0; have hy := congrArg V3.y h0; have hz := congrArg V3.z h0
    simp at hx hy hz
    apply V3.ext' <;> simp <;> linarith
  exact hall Y1 _ (by have := hst.1; omega)
    (stored_set_minkDiff hA hB hst (hsA _ hsd).1 (hsB _ hnegsd).1 hY)

theorem stored_init (A B : V → Prop) (y0 : A4 V) : Stored A B (gjkInit y0) 3 := by
  refine ⟨by simp [gjkInit], ⟨?_, ?_, ?_⟩⟩ <;> simp [gjkInit, A4.pre]

theorem isInit_init (y0 : A4 V) : IsInit (gjkInit y0) := by
  refine ⟨rfl, rfl, ?_, rfl⟩
  simp [gjkInit, V3.dot_def]

end Gjk
end D3
