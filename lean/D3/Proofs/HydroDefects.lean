/-
C15 helper lemmas, part 4: concrete inputs for the defect / obligation theorems.

* eight half-planes through one point with pairwise crossing integer directions (`hps8`);
* the `make_halfplanes` indexing before the repair commit on two stacked unit tetrahedra;
* two mirrored tetrahedra eight units apart that `contact_plane` declares "the same".
-/
import D3.Proofs.HydroPolygon
import D3.Proofs.HydroBuffer
import D3.Proofs.HydroPressure

namespace D3
namespace Hydro

/-! ### concurrent half-planes with integer directions -/

def hpOfInt (ab : Int × Int) : HP ℝ := ⟨⟨0, 0⟩, ⟨(ab.1 : ℝ), (ab.2 : ℝ)⟩⟩

def crossInt (a b : Int × Int) : Int := a.1 * b.2 - a.2 * b.1

theorem cross_hpOfInt (a b : Int × Int) :
    cross2d (hpOfInt a).d (hpOfInt b).d = ((crossInt a b : Int) : ℝ) := by
  simp only [hpOfInt, cross2d_def, crossInt]
  push_cast
  ring

theorem throughOrigin_int (dirs : List (Int × Int)) : ThroughOrigin (dirs.map hpOfInt) := by
  intro h hh
  obtain ⟨ab, _, rfl⟩ := List.mem_map.mp hh
  rfl

theorem pairwiseCrossing_int (dirs : List (Int × Int))
    (hd : ∀ j < dirs.length, ∀ i < j, crossInt (dirs[i]!) (dirs[j]!) ≠ 0) :
    PairwiseCrossing (dirs.map hpOfInt) := by
  intro i j hi hj hij hgi hgj
  rw [List.getElem?_map] at hgi hgj
  obtain ⟨a, ha, rfl⟩ := Option.map_eq_some_iff.mp hgi
  obtain ⟨b, hb, rfl⟩ := Option.map_eq_some_iff.mp hgj
  obtain ⟨hjl, hb'⟩ := List.getElem?_eq_some_iff.mp hb
  obtain ⟨hil, ha'⟩ := List.getElem?_eq_some_iff.mp ha
  have hne := hd j hjl i hij
  rw [getElem!_pos dirs i hil, getElem!_pos dirs j hjl, ha', hb'] at hne
  rw [cross_hpOfInt]
  have h1 : (1 : ℝ) ≤ |((crossInt a b : Int) : ℝ)| := by
    rw [← Int.cast_abs]
    exact_mod_cast Int.one_le_abs hne
  exact le_trans eps_le_one h1

/-- the eight directions used by the harness corpus (`concurrent_halfplanes(8)`) -/
def dirs8 : List (Int × Int) := [(1, 0), (0, 1), (1, 1), (-1, 1), (2, 1), (1, 2), (-2, 1), (-1, 2)]

def hps8 : List (HP ℝ) := dirs8.map hpOfInt

def hps7 : List (HP ℝ) := (dirs8.take 7).map hpOfInt

theorem hps8_overflow_before_fix : intersectHalfplanes_asIs_before_fix hps8 = .error .indexOOB := by
  apply concurrent_overflow_before_fix hps8 (throughOrigin_int dirs8)
    (pairwiseCrossing_int dirs8 (by decide))
  simp only [hps8, List.length_map]
  decide

theorem hps7_assert_before_fix : intersectHalfplanes_asIs_before_fix hps7 = .error .assertFail := by
  apply concurrent_assert_before_fix hps7 (throughOrigin_int _) (pairwiseCrossing_int _ (by decide))
  simp only [hps7, List.length_map]
  decide

/-- after the repair: all 28 pairwise intersections (the common point) are returned -/
theorem hps8_fixed : intersectHalfplanes hps8 = .ok (List.replicate 28 ⟨0, 0⟩) := by
  rw [concurrent_fixed hps8 (throughOrigin_int dirs8) (pairwiseCrossing_int dirs8 (by decide))]
  have : (pairIdx hps8.length).length = 28 := by simp only [hps8, List.length_map]; decide
  rw [this]

theorem hps7_fixed : intersectHalfplanes hps7 = .ok (List.replicate 21 ⟨0, 0⟩) := by
  rw [concurrent_fixed hps7 (throughOrigin_int _) (pairwiseCrossing_int _ (by decide))]
  have : (pairIdx hps7.length).length = 21 := by simp only [hps7, List.length_map]; decide
  rw [this]

/-! ### `make_halfplanes` before the repair -/

/-- rows of the unit tetrahedron `(0,0,0),(1,0,0),(0,1,0),(0,0,1)` … -/
def unitX : X4 ℝ := ⟨⟨⟨-1, -1, -1⟩, 1⟩, ⟨⟨1, 0, 0⟩, 0⟩, ⟨⟨0, 1, 0⟩, 0⟩, ⟨⟨0, 0, 1⟩, 0⟩⟩
/-- … and of its copy shifted by `(0, 0, -1/2)` -/
def unitXdown : X4 ℝ := ⟨⟨⟨-1, -1, -1⟩, 0.5⟩, ⟨⟨1, 0, 0⟩, 0⟩, ⟨⟨0, 1, 0⟩, 0⟩, ⟨⟨0, 0, 1⟩, 0.5⟩⟩

def stackRows : List (Row4 ℝ) := unitX.rows ++ unitXdown.rows
/-- contact plane `z = 1/4` with the basis `plane_basis_from_normal((0,0,1))` returns -/
def stackPP : V := ⟨0, 0, 0.25⟩
def stackCx : V := ⟨-1, 0, 0⟩
def stackCy : V := ⟨0, -1, 0⟩

theorem row_kept {pp cx cy : V} {r : Row4 ℝ}
    (h : 1 ≤ (normal2d r cx cy).x * (normal2d r cx cy).x + (normal2d r cx cy).y * (normal2d r cx cy).y) :
    (makeHalfplaneRow pp cx cy r).isSome = true := by
  unfold makeHalfplaneRow
  simp only [sqrt_real]
  have : (eps : ℝ) < Real.sqrt ((normal2d r cx cy).x * (normal2d r cx cy).x +
      (normal2d r cx cy).y * (normal2d r cx cy).y) := by
    have h1 : (1 : ℝ) ≤ Real.sqrt ((normal2d r cx cy).x * (normal2d r cx cy).x +
        (normal2d r cx cy).y * (normal2d r cx cy).y) :=
      Real.le_sqrt_of_sq_le (by rw [one_pow]; exact h)
    have h2 : (eps : ℝ) < 1 := by norm_num [eps, D3.Gen.utils__EPSILON]
    exact lt_of_lt_of_le h2 h1
  rw [if_pos this]
  rfl

theorem row_skipped {pp cx cy : V} {r : Row4 ℝ}
    (hx : (normal2d r cx cy).x = 0) (hy : (normal2d r cx cy).y = 0) :
    makeHalfplaneRow pp cx cy r = none := by
  unfold makeHalfplaneRow
  simp only [sqrt_real, hx, hy, mul_zero, add_zero, Real.sqrt_zero]
  rw [if_neg (not_lt.mpr (le_of_lt eps_pos))]

theorem stack_rows_kept_skipped :
    (∀ r ∈ [unitX.r0, unitX.r1, unitX.r2, unitXdown.r0, unitXdown.r1, unitXdown.r2],
      (makeHalfplaneRow stackPP stackCx stackCy r).isSome = true) ∧
    makeHalfplaneRow stackPP stackCx stackCy unitX.r3 = none ∧
    makeHalfplaneRow stackPP stackCx stackCy unitXdown.r3 = none := by
  refine ⟨?_, ?_, ?_⟩
  · intro r hr
    simp only [List.mem_cons, List.not_mem_nil, or_false] at hr
    apply row_kept
    rcases hr with rfl | rfl | rfl | rfl | rfl | rfl <;>
      norm_num [normal2d, V3.dot_def, stackCx, stackCy, unitX, unitXdown]
  · apply row_skipped <;> norm_num [normal2d, V3.dot_def, stackCx, stackCy, unitX]
  · apply row_skipped <;> norm_num [normal2d, V3.dot_def, stackCx, stackCy, unitXdown]

/-- **the repaired defect.**  Two unit tetrahedra stacked along `z`, contact plane `z = 1/4`: rows 3
and 7 (faces parallel to the plane) are skipped.  The code as it is now returns the six written
rows; the indexing before the repair returned the uninitialised row 3 (`g`) and dropped the
written row 6. -/
theorem stack_before_fix_gap :
    ∃ h0 h1 h2 h4 h5 h6 : HP ℝ,
      makeHalfplaneRow stackPP stackCx stackCy unitXdown.r2 = some h6 ∧
      makeHalfplanes stackRows stackPP stackCx stackCy = [h0, h1, h2, h4, h5, h6] ∧
      ∀ g : HP ℝ, makeHalfplanes_asIs_before_fix g stackRows stackPP stackCx stackCy =
        [h0, h1, h2, g, h4, h5] := by
  obtain ⟨hk, hs3, hs7⟩ := stack_rows_kept_skipped
  obtain ⟨h0, e0⟩ := Option.isSome_iff_exists.mp (hk unitX.r0 (by simp))
  obtain ⟨h1, e1⟩ := Option.isSome_iff_exists.mp (hk unitX.r1 (by simp))
  obtain ⟨h2, e2⟩ := Option.isSome_iff_exists.mp (hk unitX.r2 (by simp))
  obtain ⟨h4, e4⟩ := Option.isSome_iff_exists.mp (hk unitXdown.r0 (by simp))
  obtain ⟨h5, e5⟩ := Option.isSome_iff_exists.mp (hk unitXdown.r1 (by simp))
  obtain ⟨h6, e6⟩ := Option.isSome_iff_exists.mp (hk unitXdown.r2 (by simp))
  refine ⟨h0, h1, h2, h4, h5, h6, e6, ?_, ?_⟩
  · simp [makeHalfplanes, stackRows, X4.rows, List.filterMap_cons, e0, e1, e2, e4, e5, e6, hs3, hs7]
  · intro g
    simp [makeHalfplanes_asIs_before_fix, stackRows, X4.rows, List.filterMap_cons, e0, e1, e2, e4, e5, e6,
      hs3, hs7]

/-! ### two disjoint tetrahedra that `contact_plane` declares "the same" -/

def farA : Tet ℝ := ⟨⟨-5, 0, 0⟩, ⟨-4, 0, 0⟩, ⟨-5, 1, 0⟩, ⟨-5, 0, 1⟩⟩
def farB : Tet ℝ := ⟨⟨5, 0, 0⟩, ⟨4, 0, 0⟩, ⟨5, 1, 0⟩, ⟨5, 0, 1⟩⟩
/-- exact inverses of `[[vᵀ],[1 1 1 1]]` -/
def farXA : X4 ℝ := ⟨⟨⟨-1, -1, -1⟩, -4⟩, ⟨⟨1, 0, 0⟩, 5⟩, ⟨⟨0, 1, 0⟩, 0⟩, ⟨⟨0, 0, 1⟩, 0⟩⟩
def farXB : X4 ℝ := ⟨⟨⟨1, -1, -1⟩, -4⟩, ⟨⟨-1, 0, 0⟩, 5⟩, ⟨⟨0, 1, 0⟩, 0⟩, ⟨⟨0, 0, 1⟩, 0⟩⟩
/-- potential 1 at the vertex nearest to the other tetrahedron, 0 elsewhere -/
def farE : Q4 ℝ := ⟨0, 1, 0, 0⟩

theorem farXA_contract : IsBaryTransform farXA farA := by
  constructor <;> norm_num [rowVal, V3.dot_def, farXA, farA]

theorem farXB_contract : IsBaryTransform farXB farB := by
  constructor <;> norm_num [rowVal, V3.dot_def, farXB, farB]

theorem far_raw : rawPlane farXA farXB farE farE 1 1 = ⟨⟨2, 0, 0⟩, 0⟩ := by
  simp only [rawPlane, combRows, Q4.scale, farXA, farXB, farE]
  simp only [HSub.hSub, Sub.sub, V3.sub]
  norm_num

theorem norm_x (a : ℝ) : V3.norm (⟨a, 0, 0⟩ : V) = |a| := by
  simp only [V3.norm_def, V3.normSq_def, mul_zero, add_zero]
  exact Real.sqrt_mul_self_eq_abs a

/-- the equal-pressure plane is `x = 0`: offset `0 < 10·EPSILON`, exit "same" (branch 2) -/
theorem far_plane : ∃ h, contactPlane farXA farXB farE farE 1 1 = (h, true, 2) := by
  unfold contactPlane
  simp only [far_raw, norm_x]
  have h2 : isZero (|(2 : ℝ)|) = false := by simp [isZero]
  simp only [h2]
  norm_num [absS_real, eps, D3.Gen.utils__EPSILON]

theorem far_pp : combPoints (⟨0 / (0 + 1 + 0 + 0), 1 / (0 + 1 + 0 + 0), 0 / (0 + 1 + 0 + 0),
    0 / (0 + 1 + 0 + 0)⟩ : Q4 ℝ) farB = ⟨4, 0, 0⟩ := by
  simp only [combPoints, farB]
  norm_num

theorem far_same : handleSameTetrahedron farE farB =
    .ok (0, ⟨⟨1, 0, 0⟩, 4⟩, [⟨4, 0, 0⟩, ⟨4, 0, 0⟩, ⟨4, 0, 0⟩]) := by
  unfold handleSameTetrahedron
  simp only [farE, far_pp, norm_x]
  have h1 : isZero ((0 : ℝ) + 1 + 0 + 0) = false := by simp [isZero]
  simp only [h1]
  norm_num [V3.sdiv]

theorem far_pair [HasAtan2 ℝ] :
    ∃ r, intersectTetrahedronPair farA farE farXA farB farE farXB 1 1 = .ok r ∧
      r.intersecting = true ∧ r.polygon = some [⟨4, 0, 0⟩, ⟨4, 0, 0⟩, ⟨4, 0, 0⟩] ∧
      r.plane = ⟨⟨1, 0, 0⟩, 4⟩ := by
  obtain ⟨h, hh⟩ := far_plane
  unfold intersectTetrahedronPair
  rw [hh]
  simp only [if_true, far_same]
  exact ⟨_, rfl, rfl, rfl, rfl⟩

/-- the exact solver of tetrahedron `farA`: `res_k = λ_k(b)` -/
def farSolve (b : V) : Q4 ℝ :=
  ⟨rowVal farXA.r0 b, rowVal farXA.r1 b, rowVal farXA.r2 b, rowVal farXA.r3 b⟩

theorem farSolve_contract : SolveContract farSolve farA := by
  intro b
  constructor
  · simp only [farSolve, rowVal, V3.dot_def, farXA]; ring
  · apply V3.ext' <;> simp only [farSolve, rowVal, V3.dot_def, farXA, farA, combPoints] <;> ring

end Hydro
end D3
