/-
C03 / C19 — the arithmetic contract of the repaired climb holds in every "float-like" arithmetic:
values are reals or NaN, every comparison with NaN is false, `a - b` is NaN if an operand is NaN
and otherwise ANY rounding `rnd (a - b)` of the exact difference that does not turn a
non-positive difference into a positive one (round-to-nearest, directed rounding, flush-to-zero,
saturation … all qualify), and `+`, `*`, `/`, `sqrt` are completely arbitrary functions (any
rounding, any summation order of `dot`, fused or not). Hence `hill_climb_mesh_extreme` after
e900ae9 terminates in all of them — the statement the exact-real proof could not give.
(Lean's own `Float` is opaque to the kernel, so it cannot be instantiated literally; IEEE-754
binary64 with round-to-nearest satisfies the three hypotheses of
`hillClimbF_terminates_strictOrder` for every non-NaN `τ ≥ 0` and for `τ = NaN`.)
-/
import D3.Proofs.SupportMesh

namespace D3
namespace Support

/-- the free parameters of a float-like arithmetic -/
structure FLSpec where
  /-- rounding applied to the exact difference -/
  rnd : ℝ → ℝ
  /-- the only requirement: a non-positive exact difference is not rounded to a positive value -/
  rnd_sign : ∀ x, x ≤ 0 → rnd x ≤ 0
  add : Option ℝ → Option ℝ → Option ℝ
  mul : Option ℝ → Option ℝ → Option ℝ
  div : Option ℝ → Option ℝ → Option ℝ
  sqrt : Option ℝ → Option ℝ
  ofSci : Nat → Bool → Nat → Option ℝ

/-- reals or NaN (`none`) -/
def FL (_ : FLSpec) : Type := Option ℝ

namespace FL
variable {S : FLSpec}

/-- `a < b` : both are numbers and `a < b` (false as soon as one is NaN) -/
def lt (a b : FL S) : Prop :=
  match a, b with
  | some x, some y => x < y
  | _, _ => False

def le (a b : FL S) : Prop :=
  match a, b with
  | some x, some y => x ≤ y
  | _, _ => False

noncomputable instance : Add (FL S) := ⟨S.add⟩
noncomputable instance : Mul (FL S) := ⟨S.mul⟩
noncomputable instance : Div (FL S) := ⟨S.div⟩
noncomputable instance : Sub (FL S) :=
  ⟨fun a b => match a, b with
    | some x, some y => some (S.rnd (x - y))
    | _, _ => none⟩
noncomputable instance : Neg (FL S) := ⟨fun a => a.map fun x => -x⟩
instance : LT (FL S) := ⟨lt⟩
instance : LE (FL S) := ⟨le⟩
noncomputable instance : DecidableLT (FL S) := fun _ _ => Classical.propDecidable _
noncomputable instance : DecidableLE (FL S) := fun _ _ => Classical.propDecidable _
noncomputable instance : DecidableEq (FL S) := fun _ _ => Classical.propDecidable _
noncomputable instance : OfNat (FL S) 0 := ⟨some (0 : ℝ)⟩
noncomputable instance : OfNat (FL S) 1 := ⟨some (1 : ℝ)⟩
noncomputable instance : OfNat (FL S) 2 := ⟨some (2 : ℝ)⟩
noncomputable instance : OfScientific (FL S) := ⟨S.ofSci⟩
noncomputable instance : Min (FL S) := ⟨fun a b => if a ≤ b then a else b⟩
noncomputable instance : Max (FL S) := ⟨fun a b => if a ≤ b then b else a⟩
noncomputable instance : HasSqrt (FL S) := ⟨S.sqrt⟩

theorem lt_irrefl' (a : FL S) : ¬ a < a := by
  cases a with
  | none => exact id
  | some x => exact lt_irrefl x

theorem lt_trans' (a b c : FL S) (h1 : a < b) (h2 : b < c) : a < c := by
  cases a with
  | none => exact h1.elim
  | some x =>
    cases b with
    | none => exact h1.elim
    | some y =>
      cases c with
      | none => exact h2.elim
      | some z => exact lt_trans (show x < y from h1) (show y < z from h2)

/-- `τ < a - b → b < a` for every threshold that is NaN or a non-negative number -/
theorem sub_pos' (τ : FL S) (hτ : ∀ t, τ = some t → 0 ≤ t) (a b : FL S) (h : τ < a - b) : b < a := by
  cases a with
  | none => cases τ <;> exact h.elim
  | some x =>
    cases b with
    | none => cases τ <;> exact h.elim
    | some y =>
      cases τ with
      | none => exact h.elim
      | some t =>
        have h' : t < S.rnd (x - y) := h
        have ht := hτ t rfl
        show y < x
        by_contra hc
        have := S.rnd_sign (x - y) (by linarith [not_lt.mp hc])
        linarith

end FL

/-- **Termination of the repaired climb in every float-like arithmetic, NaN included**: whatever
`+`, `*` do (so whatever the computed projections are — numbers or NaN), for a threshold that is
NaN or non-negative, on well-formed mesh data the climb returns within its fuel after at most
#vertices − 1 accepted moves. (A NaN projection never wins and never loses a comparison: no move
towards or away from it is accepted.) -/
theorem hillClimbF_terminates_floatLike (S : FLSpec) (τ : FL S) (hτ : ∀ t, τ = some t → 0 ≤ t)
    (d : V3 (FL S)) (m : MeshData (FL S)) (hwf : MeshWF m) (start : Nat) (hs : Valid m start)
    (fuel : Nat) (hfuel : m.verts.size ≤ fuel) :
    ∃ r br moves, hillClimbF τ d start m fuel = .ok (r, br, moves) ∧ Valid m r ∧
      moves + 1 ≤ m.verts.size := by
  obtain ⟨r, br, mv, h, hv, hmv, _⟩ := hillClimbF_terminates_strictOrder τ d m hwf
    FL.lt_irrefl' FL.lt_trans' (FL.sub_pos' τ hτ) start hs fuel hfuel
  exact ⟨r, br, mv, h, hv, hmv⟩

end Support
end D3
