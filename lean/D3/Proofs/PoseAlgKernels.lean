/-
C12 helper lemmas, part 3: direct equivariance of the dot-product-only kernels.
Every scalar the kernels branch on is a Gram entry of difference vectors (invariant under a common
rigid motion), every returned point is an affine combination of input points and directions
(equivariant).  Scaling: Gram entries scale by `k²`, ratios are invariant; the only obstruction is an
absolute threshold, which appears as an explicit branch-stability hypothesis.
-/
import D3.Proofs.PoseAlgBasic
namespace D3
namespace PoseAlg
/-- how a rigid motion acts on the results: points move, scalars stay -/
def PL.move (g : Pose ℝ) (r : PL ℝ) : PL ℝ := ⟨r.d, g.apply r.p, r.t⟩
def Res.move (g : Pose ℝ) (r : Res ℝ) : Res ℝ := ⟨r.d, g.apply r.p1, g.apply r.p2, r.t1, r.t2, r.br⟩
/-- swapping the two primitives -/
def Res.swap (r : Res ℝ) : Res ℝ := ⟨r.d, r.p2, r.p1, r.t2, r.t1, r.br⟩
/-- uniform scaling by `k`; `tk` is the factor of the parameters: `k` where they are lengths along a
unit direction, `1` where they are fractions of a segment -/
def PL.scale (k : ℝ) (tk : ℝ) (r : PL ℝ) : PL ℝ := ⟨k * r.d, k * r.p, tk * r.t⟩
def Res.scale (k : ℝ) (tk : ℝ) (r : Res ℝ) : Res ℝ :=
  ⟨k * r.d, k * r.p1, k * r.p2, tk * r.t1, tk * r.t2, r.br⟩

theorem apply_add_vec (g : Pose ℝ) (p v : V) : g.apply (p + v) = g.apply p + g.R.mulVec v := by
  unfold Pose.apply; rw [mulVec_add]; apply V3.ext' <;> simp <;> ring
theorem apply_sub_vec (g : Pose ℝ) (p v : V) : g.apply (p - v) = g.apply p - g.R.mulVec v := by
  unfold Pose.apply; rw [mulVec_sub]; apply V3.ext' <;> simp <;> ring
theorem mul_smul' (k t : ℝ) (a : V) : (k * t) * a = k * (t * a) := (smul_smul k t a).symm

theorem pointToLineK_rigid {g : Pose ℝ} (hg : Orthonormal g.R) (p lp ld : V) :
    pointToLineK (g.apply p) (g.apply lp) (g.R.mulVec ld) = (pointToLineK p lp ld).move g := by
  simp only [pointToLineK, PL.move, apply_sub, hg.dot_mulVec, ← mulVec_smul, ← mulVec_sub,
    norm_mulVec hg, ← apply_add_vec]

theorem pointToLineK_scale {k : ℝ} (hk : 0 ≤ k) (p lp ld : V) :
    pointToLineK (k * p) (k * lp) ld = (pointToLineK p lp ld).scale k k := by
  simp only [pointToLineK, PL.scale, ← smul_sub, dot_smul_right, mul_smul', ← smul_add,
    norm_smul k hk]
theorem divC_ok {a b : ℝ} (h : b < 0 ∨ 0 < b) : divC a b = .ok (a / b) := by
  unfold divC; rw [if_pos h]
theorem divC_err {a b : ℝ} (h : ¬(b < 0 ∨ 0 < b)) : divC a b = .error .divZero := by
  unfold divC; rw [if_neg h]

theorem nz_scale {k : ℝ} (hk : 0 < k) (y : ℝ) : (k * y < 0 ∨ 0 < k * y) ↔ (y < 0 ∨ 0 < y) := by
  constructor
  · rintro (h | h)
    · left; by_contra hy; have := mul_nonneg hk.le (not_lt.mp hy); linarith
    · right; by_contra hy; have := mul_nonneg hk.le (neg_nonneg.mpr (not_lt.mp hy)); nlinarith
  · rintro (h | h)
    · left; nlinarith [mul_pos hk (neg_pos.mpr h)]
    · right; exact mul_pos hk h

theorem divC_scale {k : ℝ} (hk : 0 < k) (x y : ℝ) : divC (k * x) (k * y) = divC x y := by
  by_cases hy : (y < 0 ∨ 0 < y)
  · rw [divC_ok hy, divC_ok ((nz_scale hk y).mpr hy)]
    have : y ≠ 0 := by rcases hy with h | h; exact h.ne; exact h.ne'
    congr 1; field_simp
  · rw [divC_err hy, divC_err (fun h => hy ((nz_scale hk y).mp h))]

theorem pointToSegment_rigid {g : Pose ℝ} (hg : Orthonormal g.R) (p a b : V) :
    pointToSegment (g.apply p) (g.apply a) (g.apply b) = (pointToSegment p a b).map (PL.move g) := by
  simp only [pointToSegment, apply_sub, hg.dot_mulVec]
  cases divC (V3.dot (p - a) (b - a)) (V3.dot (b - a) (b - a)) with
  | error e => rfl
  | ok t =>
    simp only [Except.map, bind, Except.bind, pure, Except.pure, PL.move, ← mulVec_smul,
      ← apply_add_vec, dist_rigid hg]

theorem pointToSegment_scale {k : ℝ} (hk : 0 < k) (p a b : V) :
    pointToSegment (k * p) (k * a) (k * b) = (pointToSegment p a b).map (PL.scale k 1) := by
  simp only [pointToSegment, ← smul_sub, dot_smul_right, dot_smul_left]
  rw [divC_scale hk, divC_scale hk]
  cases divC (V3.dot (p - a) (b - a)) (V3.dot (b - a) (b - a)) with
  | error e => rfl
  | ok t =>
    simp only [Except.map, bind, Except.bind, pure, Except.pure, PL.scale, one_mul]
    rw [smul_smul, mul_comm (clamp01 t) k, mul_smul', ← smul_add, ← smul_sub, norm_smul k hk.le]

theorem lineToLineK_rigid {g : Pose ℝ} (hg : Orthonormal g.R) (lp1 ld1 lp2 ld2 : V) (ε : ℝ) :
    lineToLineK (g.apply lp1) (g.R.mulVec ld1) (g.apply lp2) (g.R.mulVec ld2) ε =
      (lineToLineK lp1 ld1 lp2 ld2 ε).map (Res.move g) := by
  simp only [lineToLineK, apply_sub, hg.dot_mulVec]
  split
  · by_cases hz : (1 - -V3.dot ld1 ld2 * -V3.dot ld1 ld2 < 0 ∨ 0 < 1 - -V3.dot ld1 ld2 * -V3.dot ld1 ld2)
    · simp only [divC_ok hz, Except.map, bind, Except.bind, pure, Except.pure, Res.move,
        ← mulVec_smul, ← apply_add_vec]
    · simp only [divC_err hz, Except.map, bind, Except.bind]
  · simp only [Except.map, pure, Except.pure, Res.move, ← mulVec_smul, ← apply_add_vec]

theorem lineToLineK_swap (lp1 ld1 lp2 ld2 : V) (ε : ℝ)
    (hdet : ε ≤ |1 - V3.dot ld1 ld2 * V3.dot ld1 ld2|) :
    lineToLineK lp2 ld2 lp1 ld1 ε = (lineToLineK lp1 ld1 lp2 ld2 ε).map Res.swap := by
  have hd1 : ε ≤ absS (1 - -V3.dot ld1 ld2 * -V3.dot ld1 ld2) := by
    rw [absS_real]; rwa [neg_mul_neg]
  have e1 : V3.dot ld2 (lp2 - lp1) = -V3.dot ld2 (lp1 - lp2) := by
    simp only [V3.dot_def, V3.sub_x, V3.sub_y, V3.sub_z]; ring
  have e2 : V3.dot ld1 (lp2 - lp1) = -V3.dot ld1 (lp1 - lp2) := by
    simp only [V3.dot_def, V3.sub_x, V3.sub_y, V3.sub_z]; ring
  have e3 : V3.dot (lp2 - lp1) (lp2 - lp1) = V3.dot (lp1 - lp2) (lp1 - lp2) := by
    simp only [V3.dot_def, V3.sub_x, V3.sub_y, V3.sub_z]; ring
  simp only [lineToLineK, e1, e2, e3, V3.dot_comm ld2 ld1, if_pos hd1]
  by_cases hz : (1 - -V3.dot ld1 ld2 * -V3.dot ld1 ld2 < 0 ∨ 0 < 1 - -V3.dot ld1 ld2 * -V3.dot ld1 ld2)
  · simp only [divC_ok hz, Except.map, bind, Except.bind, pure, Except.pure, Res.swap, Res.mk.injEq,
      Except.ok.injEq, and_true, neg_neg]
    congr 2; ring
  · simp only [divC_err hz, Except.map, bind, Except.bind]

theorem sqrt_sq_mul {k : ℝ} (hk : 0 ≤ k) (x : ℝ) : Real.sqrt (k * k * x) = k * Real.sqrt x := by
  rw [Real.sqrt_mul (mul_self_nonneg k), Real.sqrt_mul_self hk]

theorem affine_scale (k t t' : ℝ) (p d : V) (h : t' = k * t) : k * p + t' * d = k * (p + t * d) := by
  rw [h, mul_smul', ← smul_add]

theorem absS_scale {k : ℝ} (x : ℝ) : absS (k * k * x) = k * k * absS x := by
  rw [absS_real, absS_real, abs_mul, abs_of_nonneg (mul_self_nonneg k)]

theorem lineToLineK_scale {k : ℝ} (hk : 0 ≤ k) (lp1 ld1 lp2 ld2 : V) (ε : ℝ) :
    lineToLineK (k * lp1) ld1 (k * lp2) ld2 ε = (lineToLineK lp1 ld1 lp2 ld2 ε).map (Res.scale k k) := by
  simp only [lineToLineK, ← smul_sub, dot_smul_right, dot_smul_left]
  split
  · by_cases hz : (1 - -V3.dot ld1 ld2 * -V3.dot ld1 ld2 < 0 ∨ 0 < 1 - -V3.dot ld1 ld2 * -V3.dot ld1 ld2)
    · have hne : 1 - -V3.dot ld1 ld2 * -V3.dot ld1 ld2 ≠ 0 := by
        rcases hz with h | h; exact h.ne; exact h.ne'
      simp only [divC_ok hz, Except.map, bind, Except.bind, pure, Except.pure, Res.scale, Res.mk.injEq,
        Except.ok.injEq, and_true]
      refine ⟨?_, ?_, ?_, ?_, ?_⟩
      · rw [sqrt_real, sqrt_real, ← sqrt_sq_mul hk, ← absS_scale]; congr 2; field_simp
      · apply affine_scale; field_simp
      · apply affine_scale; field_simp
      · field_simp
      · field_simp
    · simp only [divC_err hz, Except.map, bind, Except.bind]
  · simp only [Except.map, pure, Except.pure, Res.scale, Res.mk.injEq, Except.ok.injEq, and_true,
      mul_zero]
    refine ⟨?_, ?_, ?_⟩
    · rw [sqrt_real, sqrt_real, ← sqrt_sq_mul hk, ← absS_scale]; congr 2; ring
    · apply affine_scale; ring
    · exact ⟨trivial, by ring⟩

theorem segToSegK_rigid {g : Pose ℝ} (hg : Orthonormal g.R) (s1 e1 s2 e2 : V) (ε : ℝ) :
    segToSegK (g.apply s1) (g.apply e1) (g.apply s2) (g.apply e2) ε =
      (segToSegK s1 e1 s2 e2 ε).map (Res.move g) := by
  simp only [segToSegK, apply_sub, hg.dot_mulVec, norm_mulVec hg]
  split
  · rfl
  · cases segSegParams (V3.dot (e1 - s1) (e1 - s1)) (V3.dot (e2 - s2) (e2 - s2))
        (V3.dot (e2 - s2) (s1 - s2)) (V3.dot (e1 - s1) (s1 - s2)) (V3.dot (e1 - s1) (e2 - s2)) ε with
    | error e => rfl
    | ok r =>
      obtain ⟨s, t, br⟩ := r
      simp only [Except.map, bind, Except.bind, pure, Except.pure, Res.move, ← mulVec_smul,
        ← apply_add_vec, dist_rigid hg]

theorem segSegParams_scale {m : ℝ} (hm : 0 < m) (a e f c b ε : ℝ)
    (ha : m * a < ε ↔ a < ε) (he : m * e ≤ ε ↔ e ≤ ε) :
    segSegParams (m * a) (m * e) (m * f) (m * c) (m * b) ε = segSegParams a e f c b ε := by
  have hmm : 0 < m * m := mul_pos hm hm
  have q1 : -(m * c) = m * (-c) := by ring
  have q2 : m * a * (m * e) - m * b * (m * b) = (m * m) * (a * e - b * b) := by ring
  have q3 : m * b * (m * f) - m * c * (m * e) = (m * m) * (b * f - c * e) := by ring
  have q4 : ∀ s : ℝ, m * b * s + m * f = m * (b * s + f) := by intro s; ring
  have q5 : m * b - m * c = m * (b - c) := by ring
  unfold segSegParams
  simp only [ha, he, q1, q2, q3, q4, q5, divC_scale hm, divC_scale hmm, nz_scale hmm]

theorem dot_smul_smul (k : ℝ) (a b : V) : V3.dot (k * a) (k * b) = k * k * V3.dot a b := by
  rw [dot_smul_left, dot_smul_right]; ring

/-- scaling a segment–segment scene by `k > 0` scales distance and points by `k` and keeps the
segment parameters, **provided the absolute `epsilon` tests on the squared segment lengths decide the
same way in both scenes** (the thresholds are absolute, so this is a genuine restriction) -/
theorem segToSegK_scale {k : ℝ} (hk : 0 < k) (s1 e1 s2 e2 : V) (ε : ℝ)
    (ha : k * k * V3.dot (e1 - s1) (e1 - s1) < ε ↔ V3.dot (e1 - s1) (e1 - s1) < ε)
    (he : k * k * V3.dot (e2 - s2) (e2 - s2) < ε ↔ V3.dot (e2 - s2) (e2 - s2) < ε)
    (he' : k * k * V3.dot (e2 - s2) (e2 - s2) ≤ ε ↔ V3.dot (e2 - s2) (e2 - s2) ≤ ε) :
    segToSegK (k * s1) (k * e1) (k * s2) (k * e2) ε =
      (segToSegK s1 e1 s2 e2 ε).map (Res.scale k 1) := by
  simp only [segToSegK, ← smul_sub, dot_smul_smul, ha, he, norm_smul k hk.le]
  split
  · simp only [Except.map, pure, Except.pure, Res.scale, mul_zero]
  · rw [segSegParams_scale (mul_pos hk hk) _ _ _ _ _ _ ha he']
    cases segSegParams (V3.dot (e1 - s1) (e1 - s1)) (V3.dot (e2 - s2) (e2 - s2))
        (V3.dot (e2 - s2) (s1 - s2)) (V3.dot (e1 - s1) (s1 - s2)) (V3.dot (e1 - s1) (e2 - s2)) ε with
    | error e => rfl
    | ok r =>
      obtain ⟨s, t, br⟩ := r
      simp only [Except.map, bind, Except.bind, pure, Except.pure, Res.scale, one_mul,
        smul_smul s k, smul_smul t k, mul_comm s k, mul_comm t k, mul_smul', ← smul_add, ← smul_sub,
        norm_smul k hk.le]

/-! ### `_point_to_plane` -/

theorem pointToPlaneK_rigid {g : Pose ℝ} (hg : Orthonormal g.R) (p pp pn : V) (signed : Bool) :
    pointToPlaneK (g.apply p) (g.apply pp) (g.R.mulVec pn) signed =
      ((pointToPlaneK p pp pn signed).1, g.apply (pointToPlaneK p pp pn signed).2) := by
  simp only [pointToPlaneK, apply_sub, hg.dot_mulVec, ← mulVec_smul, ← apply_sub_vec]

theorem absS_mul_nonneg {k : ℝ} (hk : 0 ≤ k) (x : ℝ) : absS (k * x) = k * absS x := by
  rw [absS_real, absS_real, abs_mul, abs_of_nonneg hk]

theorem pointToPlaneK_scale {k : ℝ} (hk : 0 ≤ k) (p pp pn : V) (signed : Bool) :
    pointToPlaneK (k * p) (k * pp) pn signed =
      (k * (pointToPlaneK p pp pn signed).1, k * (pointToPlaneK p pp pn signed).2) := by
  simp only [pointToPlaneK, ← smul_sub, dot_smul_right, mul_smul', absS_mul_nonneg hk]
  cases signed <;> simp

/-! ### local-frame evaluation: `point_to_box`, support functions, relative pose -/

/-- the local coordinates do not see a common rigid motion -/
theorem inverseTransformPoint_rigid {g : Pose ℝ} (hg : Orthonormal g.R) (A : Pose ℝ) (p : V) :
    inverseTransformPoint (compose g A) (g.apply p) = inverseTransformPoint A p := by
  simp only [inverseTransformPoint, compose, mul_tmulVec, ← tmulVec_sub]
  congr 1
  have : g.apply p - (g.R.mulVec A.t + g.t) = g.R.mulVec (p - A.t) := by
    unfold Pose.apply; rw [add_sub_add_right, mulVec_sub]
  rw [this, hg.tmulVec_mulVec]

theorem compose_apply_local (g A : Pose ℝ) (v : V) :
    (compose g A).t + (compose g A).R.mulVec v = g.apply (A.t + A.R.mulVec v) := by
  simp only [compose, mul_mulVec, Pose.apply, mulVec_add]
  apply V3.ext' <;> simp <;> ring

theorem pointToBox_rigid {g : Pose ℝ} (hg : Orthonormal g.R) (p : V) (A : Pose ℝ) (size : V) :
    pointToBox (g.apply p) (compose g A) size =
      ((pointToBox p A size).1, g.apply (pointToBox p A size).2) := by
  simp only [pointToBox, inverseTransformPoint_rigid hg, compose_apply_local, dist_rigid hg]

theorem localFrameSupport_rigid {g : Pose ℝ} (hg : Orthonormal g.R) (A : Pose ℝ) (f : V → V) (d : V) :
    localFrameSupport (compose g A) f (g.R.mulVec d) = g.apply (localFrameSupport A f d) := by
  have : (compose g A).R.tmulVec (g.R.mulVec d) = A.R.tmulVec d := by
    simp only [compose, mul_tmulVec, hg.tmulVec_mulVec]
  simp only [localFrameSupport, transformPoint, this, compose_apply_local]

theorem supportCapsule_rigid {g : Pose ℝ} (hg : Orthonormal g.R) (A : Pose ℝ) (d : V) (r h : ℝ) :
    supportCapsule (g.R.mulVec d) (compose g A) r h = g.apply (supportCapsule d A r h) :=
  localFrameSupport_rigid hg A _ d

theorem M3.ext_mulVec {A B : Mat} (h : ∀ v, A.mulVec v = B.mulVec v) : A = B := by
  have h0 := h ⟨1, 0, 0⟩
  have h1 := h ⟨0, 1, 0⟩
  have h2 := h ⟨0, 0, 1⟩
  cases A with | mk a0 a1 a2 => cases B with | mk b0 b1 b2 =>
  cases a0; cases a1; cases a2; cases b0; cases b1; cases b2
  simp only [M3.mulVec, V3.dot_def, V3.mk.injEq, mul_one, mul_zero, add_zero, zero_add] at h0 h1 h2
  simp only [M3.mk.injEq, V3.mk.injEq]
  obtain ⟨h00, h01, h02⟩ := h0
  obtain ⟨h10, h11, h12⟩ := h1
  obtain ⟨h20, h21, h22⟩ := h2
  exact ⟨⟨h00, h10, h20⟩, ⟨h01, h11, h21⟩, ⟨h02, h12, h22⟩⟩

/-- the relative pose (`oR1`, `ot1`) used by the Nesterov support function does not see a common
rigid motion of the two colliders -/
theorem relativePose_rigid {g : Pose ℝ} (hg : Orthonormal g.R) (A0 A1 : Pose ℝ) :
    relativePose (compose g A0) (compose g A1) = relativePose A0 A1 := by
  simp only [relativePose, compose, Pose.mk.injEq]
  constructor
  · apply M3.ext_mulVec
    intro v
    rw [mul_mulVec, mul_mulVec, transpose_mulVec, mul_mulVec, mul_tmulVec,
      hg.tmulVec_mulVec, transpose_mulVec]
  · rw [add_sub_add_right, ← mulVec_sub, mul_tmulVec, hg.tmulVec_mulVec]



theorem tmulVec_smul (R : Mat) (s : ℝ) (a : V) : R.tmulVec (s * a) = s * R.tmulVec a := by
  apply V3.ext' <;> simp [M3.tmulVec, V3.dot_def] <;> ring

theorem clip_scale {k : ℝ} (hk : 0 ≤ k) (x h : ℝ) :
    clip (k * x) (-(k * h)) (k * h) = k * clip x (-h) h := by
  unfold clip
  rw [show -(k * h) = k * (-h) by ring, ← mul_max_of_nonneg _ _ hk, ← mul_min_of_nonneg _ _ hk]

/-- scaling point, box position and box size by `k ≥ 0` scales the result (no threshold involved) -/
theorem pointToBox_scale {k : ℝ} (hk : 0 ≤ k) (p : V) (A : Pose ℝ) (size : V) :
    pointToBox (k * p) ⟨A.R, k * A.t⟩ (k * size) =
      (k * (pointToBox p A size).1, k * (pointToBox p A size).2) := by
  have hh : ∀ x : ℝ, (0.5 : ℝ) * (k * x) = k * (0.5 * x) := by intro x; ring
  simp only [pointToBox, inverseTransformPoint, tmulVec_smul, ← smul_sub, V3.smul_x, V3.smul_y,
    V3.smul_z, hh, clip_scale hk]
  have e : ∀ a b c : ℝ, (⟨k * a, k * b, k * c⟩ : V) = k * (⟨a, b, c⟩ : V) := by
    intro a b c; rfl
  rw [e, mulVec_smul, ← smul_add, ← smul_sub, norm_smul k hk]

/-- in the parallel branch the *distance* is still symmetric when the directions are exactly
(anti)parallel; the returned points are not the swapped ones (the code anchors at `line_point2`) -/
theorem lineToLineK_parallel_swap_dist (lp1 ld lp2 : V) (σ ε : ℝ) (hσ : σ * σ = 1)
    (hu : V3.dot ld ld = 1) (hε : 0 < ε) :
    ∃ r r', lineToLineK lp1 ld lp2 (σ * ld) ε = .ok r ∧ lineToLineK lp2 (σ * ld) lp1 ld ε = .ok r' ∧
      r.br = 1 ∧ r'.br = 1 ∧ r'.d = r.d := by
  have hdet : ¬ (ε ≤ absS (1 - -V3.dot ld (σ * ld) * -V3.dot ld (σ * ld))) := by
    rw [dot_smul_right, hu, absS_real]
    have : 1 - -(σ * 1) * -(σ * 1) = 0 := by linear_combination -hσ
    rw [this, abs_zero]; exact not_le.mpr hε
  have hdet' : ¬ (ε ≤ absS (1 - -V3.dot (σ * ld) ld * -V3.dot (σ * ld) ld)) := by
    rw [V3.dot_comm]; exact hdet
  simp only [lineToLineK, if_neg hdet, if_neg hdet']
  refine ⟨_, _, rfl, rfl, rfl, rfl, ?_⟩
  dsimp only
  congr 2
  rw [dot_smul_left]
  have e2 : V3.dot ld (lp2 - lp1) = -V3.dot ld (lp1 - lp2) := by
    simp only [V3.dot_def, V3.sub_x, V3.sub_y, V3.sub_z]; ring
  have e3 : V3.dot (lp2 - lp1) (lp2 - lp1) = V3.dot (lp1 - lp2) (lp1 - lp2) := by
    simp only [V3.dot_def, V3.sub_x, V3.sub_y, V3.sub_z]; ring
  rw [e2, e3]
  linear_combination (V3.dot ld (lp1 - lp2) * V3.dot ld (lp1 - lp2)) * (-hσ)



/-- the branch-stability hypotheses of `segToSegK_scale` cannot be dropped: a segment of length `5e-4`
(below the absolute threshold `epsilon = 1e-6` on the squared length, i.e. outside the primitive domain P)
is treated as its start point, the same scene scaled by `1000` is not: the segment parameter of the
closest point jumps from `0` to `1`, so the results are not related by scaling. -/
theorem segToSeg_scale_needs_branch_stability :
    ∃ (s1 e1 s2 e2 : V) (k : ℝ) (r r' : Res ℝ), 0 < k ∧
      segToSeg s1 e1 s2 e2 = .ok r ∧ segToSeg (k * s1) (k * e1) (k * s2) (k * e2) = .ok r' ∧
      r.br = 1 ∧ r.t1 = 0 ∧ r'.br = 5 ∧ r'.t1 = 1 := by
  refine ⟨⟨0, 0, 0⟩, ⟨0.0005, 0, 0⟩, ⟨0.0005, 1, 0⟩, ⟨0.0005, 2, 0⟩, 1000, ?_, ?_, by norm_num, ?_, ?_,
    ?_⟩
  rotate_left 2
  · simp only [segToSeg, segToSegK, segSegParams, Gen.distance__line__line_segment_to_line_segment__epsilon,
      V3.dot_def, V3.sub_x, V3.sub_y, V3.sub_z, divC, clamp01, pmax, pmin]
    norm_num
    rfl
  · simp only [segToSeg, segToSegK, segSegParams, Gen.distance__line__line_segment_to_line_segment__epsilon,
      V3.dot_def, V3.sub_x, V3.sub_y, V3.sub_z, V3.smul_x, V3.smul_y, V3.smul_z, divC, clamp01, pmax, pmin]
    norm_num [bind, Except.bind, pure, Except.pure, Functor.map, Except.map]
    rfl
  exact ⟨rfl, rfl, rfl, rfl⟩
end PoseAlg
end D3
